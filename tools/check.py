#!/usr/bin/env python3
"""Orchestrator: `check.py <ID> [--tier quick|thorough] [--replay <path>]`

1. regenerate lean/Micm/Gen from /repo (translator), build the Lean library (theorems re-checked),
   audit axioms and forbidden constructs;
2. build the C++ harness from /repo's current working tree (content-hash cache);
3. run corpus + generated cases through implementation and model (correspondence) and through the
   exact-arithmetic / impl-vs-impl oracles (failing-input search);
4. classify: VIOLATION / KNOWN-FINDING / NOTE; write evidence/<ID>.json.
"""
import sys, os, json, time, re, subprocess, argparse, hashlib
sys.path.insert(0, os.path.dirname(os.path.abspath(__file__)))
from fractions import Fraction as F
import gen_cases as G
from gen_cases import Rng, hexd, unhex, PARAM0
import gen_lean, gen_rates, effects, specials, runner, build_harness, oracles, props

VERIF = os.path.dirname(os.path.dirname(os.path.abspath(__file__)))
LEAN = os.path.join(VERIF, "lean")

FORBIDDEN = re.compile(r"\bsorry\b|\badmit\b|^\s*axiom\s|native_decide|bv_decide|implemented_by|\bunsafe\s|maxHeartbeats\s+0\b")
ALLOWED_AXIOMS = {"propext", "Classical.choice", "Quot.sound"}

def strip_lean_comments(s):
    s = re.sub(r"/-.*?-/", "", s, flags=re.S)
    return re.sub(r"--.*", "", s)

def lean_obligations(pid, tier="quick"):
    """build the library, list the property theorems of Properties/<pid>.lean with their axioms"""
    res = {"ok": True, "theorems": [], "errors": []}
    # Only this property's own theorem modules (and what they import) and the model driver are obligations of this
    # check: a proof of ANOTHER property that no longer compiles (e.g. a coefficient table edit breaking C08's order
    # conditions) must not raise an alarm here.
    pdir0 = os.path.join(LEAN, "Micm", "Properties")
    root0 = open(os.path.join(LEAN, "Micm.lean")).read()
    mods = ["Micm.Properties." + f[:-5] for f in sorted(os.listdir(pdir0)) if re.fullmatch(pid + r"[a-z]?\.lean", f)
            and re.search(r"^import Micm\.Properties\." + f[:-5] + r"\s*$", root0, flags=re.M)]
    r = subprocess.run(["lake", "build", "micm_model"] + mods, cwd=LEAN, capture_output=True, text=True)
    if r.returncode != 0:
        res["ok"] = False
        res["errors"].append("lake build failed:\n" + (r.stdout + r.stderr)[-3000:])
        return res
    # forbidden constructs anywhere in the library sources
    for d, _, files in os.walk(os.path.join(LEAN, "Micm")):
        for f in files:
            if f.endswith(".lean"):
                src = strip_lean_comments(open(os.path.join(d, f)).read())
                for ln in src.splitlines():
                    if FORBIDDEN.search(ln):
                        res["ok"] = False
                        res["errors"].append(f"forbidden construct in {f}: {ln.strip()[:120]}")
    pdir = os.path.join(LEAN, "Micm", "Properties")
    root = open(os.path.join(LEAN, "Micm.lean")).read()
    # only property files that are part of the library (imported by Micm.lean) are obligations
    pfiles = sorted(f for f in os.listdir(pdir) if re.fullmatch(pid + r"[a-z]?\.lean", f)
                    and re.search(r"^import Micm\.Properties\." + f[:-5] + r"\s*$", root, flags=re.M))
    if not pfiles:
        res["ok"] = False
        res["errors"].append("no Properties/" + pid + ".lean")
        return res
    names = []
    for f in pfiles:
        src = strip_lean_comments(open(os.path.join(pdir, f)).read())
        # fully qualified names: follow `namespace X` / `end X`
        stack = []
        for ln in src.splitlines():
            m = re.match(r"^\s*namespace\s+([A-Za-z0-9_.']+)", ln)
            if m:
                stack.append(m.group(1)); continue
            m = re.match(r"^\s*end\s+([A-Za-z0-9_.']+)\s*$", ln)
            if m and stack and stack[-1] == m.group(1):
                stack.pop(); continue
            m = re.match(r"^\s*(?:private\s+|protected\s+)?theorem\s+([A-Za-z0-9_.']+)", ln)
            if m and m.group(1).split(".")[-1].startswith(pid + "_"):
                names.append(".".join(stack + [m.group(1)]))
    if not names:
        res["ok"] = False
        res["errors"].append("no theorems in Properties/" + pid + ".lean")
        return res
    audit = "".join("import Micm.Properties." + f[:-5] + "\n" for f in pfiles) + "".join(f"#print axioms {n}\n" for n in names)
    apath = os.path.join(LEAN, ".lake", f"audit_{pid}.lean")
    open(apath, "w").write(audit)
    r = subprocess.run(["lake", "env", "lean", apath], cwd=LEAN, capture_output=True, text=True)
    out = r.stdout + r.stderr
    if r.returncode != 0:
        res["ok"] = False
        res["errors"].append("axiom audit failed:\n" + out[-2000:])
        return res
    # parse "'name' depends on axioms: [a, b]" / "'name' does not depend on any axioms"
    for n in names:
        m = re.search(r"'" + re.escape(n) + r"' (does not depend on any axioms|depends on axioms: \[([^\]]*)\])", out, flags=re.S)
        if not m:
            res["ok"] = False
            res["errors"].append("no axiom report for " + n)
            continue
        axs = [a.strip() for a in (m.group(2) or "").replace("\n", " ").split(",") if a.strip()]
        bad = [a for a in axs if a not in ALLOWED_AXIOMS]
        res["theorems"].append({"name": n, "axioms": axs, "partial": n.endswith("_partial")})
        if bad:
            res["ok"] = False
            res["errors"].append(f"theorem {n} depends on disallowed axioms {bad}")
    if tier == "thorough":
        # independent re-check of the compiled property modules by the toolchain's leanchecker
        for f in pfiles:
            mod = "Micm.Properties." + f[:-5]
            r = subprocess.run(["lake", "env", "leanchecker", mod], cwd=LEAN, capture_output=True, text=True)
            res.setdefault("leanchecker", []).append({"module": mod, "ok": r.returncode == 0})
            if r.returncode != 0:
                res["ok"] = False
                res["errors"].append(f"leanchecker rejects {mod}: " + (r.stdout + r.stderr)[-800:])
    return res

def load_known():
    p = os.path.join(VERIF, "known_findings.json")
    if not os.path.exists(p):
        return []
    return json.load(open(p))["findings"]

def main():
    ap = argparse.ArgumentParser()
    ap.add_argument("pid")
    ap.add_argument("--tier", default=os.environ.get("VERIF_TIER", "quick"))
    ap.add_argument("--replay", default=None)
    ap.add_argument("--no-proofs", action="store_true", help="development only: skip the Lean obligations")
    a = ap.parse_args()
    pid = a.pid
    tier = "thorough" if a.tier == "thorough" else "quick"
    seed = int(os.environ.get("VERIF_SEED", "1"))
    t0 = time.time()
    P = props.PROPS[pid]
    violations = []      # (what, replay dict, found_input: bool)
    notes = []
    known_hits = {}
    replay_dir = os.path.join(VERIF, "replays", pid)
    os.makedirs(replay_dir, exist_ok=True)
    os.makedirs(os.path.join(VERIF, "evidence"), exist_ok=True)

    # 1. translator
    trans_err = None
    try:
        ros, be, lits, errs = gen_lean.load_all()
        text = gen_lean.emit_lean(ros, be, lits, errs)
        gp = os.path.join(LEAN, "Micm", "Gen", "Params.lean")
        if not os.path.exists(gp) or open(gp).read() != text:
            open(gp, "w").write(text)
    except gen_lean.TranslatorError as e:
        trans_err = str(e)
        ros = be = lits = errs = None
    env = {"ros": ros, "be": be, "lits": lits, "errs": errs}
    # rate-constant formulas (C15): regenerated from the headers; a formula the grammar no longer reads is a broken
    # obligation of C15 only (the previous generated file stays in place for the other checks)
    rates_err = None
    try:
        gen_rates.write()
    except gen_lean.TranslatorError as e:
        rates_err = str(e)

    # shared-storage writes of the solver entry points (C16): regenerated from the clang AST of /repo's headers
    effects_err = None
    if pid == "C16":
        try:
            effects.write()
        except effects.EffectsError as e:
            effects_err = str(e)

    # member-wise completeness of the user-provided copy / move special member functions (C17): regenerated likewise
    static_broken = []
    if pid == "C17":
        try:
            sres, snote = specials.write()
            if snote:
                notes.append("special members: JIT probe not analysed: " + snote[:200])
            for (cls, kind), v in sorted(sres.items()):
                for f, st in v["rows"]:
                    if st not in ("same", "base-call"):
                        static_broken.append(f"{cls}::{kind} ({effects.rel(v['where'][0])}:{v['where'][1]}) does not transfer member {f} from the same member of "
                                             f"its source unconditionally: {st} (theorem Micm.C17_special_members_memberwise)")
        except effects.EffectsError as e:
            effects_err = str(e)

    # 2. proofs
    obl = {"ok": False, "theorems": [], "errors": []}
    if trans_err:
        obl["errors"].append("translator: " + trans_err)
    elif a.no_proofs:
        obl = {"ok": True, "theorems": [], "errors": []}
    else:
        obl = lean_obligations(pid, tier)
    if rates_err and pid == "C15":
        obl["ok"] = False
        obl["errors"].append("translator (rate-constant formulas): " + rates_err)
    if effects_err:
        obl["ok"] = False
        obl["errors"].append("translator (clang AST: shared-storage effects / special member functions): " + effects_err)
    broken_obligation = not obl["ok"]

    # 3. harness + cases
    cases = []
    impl = model = []
    harness_err = None
    stats = {}
    special = None
    if not trans_err and P.get("special"):
        special = P["special"](tier, seed)
    if not trans_err and P.get("gen"):
        Ls = P.get("Ls", {}).get(tier, [0, 3])
        exe = build_harness.build(Ls, san=P.get("san", 1))
        if exe is None:
            harness_err = "the harness does not compile against /repo's current tree"
        elif not os.path.exists(runner.MODEL_EXE):
            harness_err = "model driver not built"
        else:
            r = Rng(seed * 1000003 + int(pid[1:]))
            if a.replay:
                rp = json.load(open(a.replay))
                cases = []
                if "line" in rp and rp.get("group_lines"):
                    # a group finding: the whole group is replayed and judged by its group oracle again
                    gfun = props.resolve_oracle(rp.get("group_oracle"))
                    for gl in rp["group_lines"]:
                        cases.append(props.Case(gl["line"], props.meta_from_json(gl.get("meta", {})), gl.get("kind", "replay"), oracle=props.resolve_oracle(gl.get("oracle")),
                                                compare=gl.get("compare", True), model_line=gl.get("model_line"),
                                                group=(("replay", 0), gfun) if gfun else None))
                elif "line" in rp:
                    cases = [props.Case(rp["line"], props.meta_from_json(rp.get("meta", {})), rp.get("meta_kind", "replay"), oracle=props.resolve_oracle(rp.get("oracle")),
                                        compare=rp.get("compare", True), model_line=rp.get("model_line"))]
            else:
                cases = props.corpus_cases(pid) + P["gen"](r, tier, env, Ls)
            lines = [c.line for c in cases]
            impl = runner.run_batch(exe, lines, per_line_timeout=P.get("timeout", 20.0))
            model_lines = [(c.model_line if c.model_line is not None else c.line) for c in cases]
            model = runner.run_model(model_lines)

    # 4. evaluate
    known = load_known()
    corr_breaks = []
    oracle_fail = []
    drift = 0
    nontrivial = set()
    dist = {}
    for i, c in enumerate(cases):
        io, mo = impl[i], model[i]
        c.impl_out, c.model_out = io, mo
        if c.nontrivial:
            nontrivial.add(hashlib.sha1(c.line.encode()).hexdigest())
        # oracle on the implementation's own output
        fail = None
        if c.oracle is not None:
            try:
                fail = c.oracle(c, io)
            except Exception as e:
                fail = None
                notes.append(f"oracle raised {type(e).__name__}: {e} on case {i}")
        if fail:
            oracle_fail.append((i, c, fail))
            continue
        # correspondence
        if c.compare and not props.same_output(io, mo, c):
            if c.drift_ok and c.drift_ok(c, io, mo):
                drift += 1
            else:
                corr_breaks.append((i, c))
                try:
                    dfail = props.divergence_oracle(pid, c, io, mo)
                except Exception as e:
                    dfail = None
                    notes.append(f"divergence oracle raised {type(e).__name__}: {e} on case {i}")
                if dfail:
                    oracle_fail.append((i, c, dfail))
    # impl-vs-impl group oracles
    for grp_fail in props.group_oracles(pid, cases):
        oracle_fail.append(grp_fail)
    for c in cases:            # counted after all oracles: they tag what they actually checked or skipped
        for k in c.tags:
            dist[k] = dist.get(k, 0) + 1
    special_broken = []
    if special:
        for (what, rp, found) in special["fails"]:
            if found:
                sc = props.Case(rp.get("cmd", ""), rp, "special")
                sc.impl_out = json.dumps(rp)[:2000]
                oracle_fail.append((-1, sc, what))
            else:
                special_broken.append(what)
        for k, v in special["dist"].items():
            dist[k] = dist.get(k, 0) + v

    def write_replay(name, obj):
        path = os.path.join(replay_dir, name)
        json.dump(obj, open(path, "w"), indent=1, default=str)
        return path

    out_lines = []
    exit_code = 0
    reported = 0
    seen_sigs = set()
    for (i, c, fail) in oracle_fail:
        sig = props.finding_signature(pid, c, fail)
        kf = next((k for k in known if k["property"] == pid and k["status"] == "open" and k["signature"] == sig), None)
        if kf:
            known_hits[kf["id"]] = known_hits.get(kf["id"], 0) + 1
            continue
        if sig in seen_sigs and reported >= 3:
            continue
        seen_sigs.add(sig)
        extra = {}
        if c.group is not None:
            members = [g for g in cases if g.group is not None and g.group[0] == c.group[0]]
            extra = {"group_oracle": props.oracle_name(c.group[1]),
                     "group_lines": [{"line": g.line, "meta": props.meta_to_json(g.meta), "kind": g.kind, "oracle": props.oracle_name(g.oracle), "compare": g.compare,
                                      "model_line": g.model_line} for g in members]}
        path = write_replay(f"violation_{reported}.json", {"property": pid, "what": fail, "line": c.line, "meta_kind": c.kind,
                            "meta": props.meta_to_json(c.meta), "oracle": props.oracle_name(c.oracle), "compare": c.compare, "model_line": c.model_line, **extra,
                            "impl": c.impl_out, "model": c.model_out, "signature": sig,
                            "replay_cmd": f"python3 tools/check.py {pid} --replay <this file>"})
        out_lines.append(f"VIOLATION property={pid} replay={path}")
        reported += 1
        exit_code = 1
        if reported >= 5:
            break
    for kid, n in known_hits.items():
        kf = next(k for k in known if k["id"] == kid)
        out_lines.append(f"KNOWN-FINDING: property={pid} {kf['what']} ({n} cases)")
    if exit_code == 0 and (broken_obligation or corr_breaks or harness_err or special_broken or static_broken):
        # no failing input found by the oracles: still a violation — the property is no longer shown to hold
        what = []
        if broken_obligation:
            what += obl["errors"]
        if harness_err:
            what.append(harness_err)
        what += special_broken
        what += static_broken
        first = None
        if corr_breaks:
            i, c = corr_breaks[0]
            what.append(f"correspondence stream '{c.kind}' disagrees on {len(corr_breaks)} of {len(cases)} cases")
            first = {"line": c.line, "impl": c.impl_out, "model": c.model_out}
        path = write_replay("broken.json", {"property": pid, "no_failing_input_found": True, "broken": what,
                                            "first_differing_case": first})
        out_lines.append(f"VIOLATION property={pid} replay={path} no-failing-input-found")
        exit_code = 1
    if drift:
        out_lines.append(f"NOTE property={pid} drift cases={drift}")
    for ln in out_lines:
        print(ln)

    # 5. evidence
    thms = obl["theorems"]
    ev = {
        "property_id": pid, "tier": tier, "seed": seed, "level": P["level"],
        "coverage": {
            "obligations": max(len(thms), 1) if P["level"] == "proof" else len(thms),
            "discharged": len(thms) if obl["ok"] else 0,
            "checker_cmd": f"cd lean && lake build Micm && lake env lean .lake/audit_{pid}.lean   (via tools/check.py {pid})",
            "trusted_base": ["Lean 4.33 kernel", "axioms: propext, Classical.choice, Quot.sound only (audited per theorem)",
                             "tools/gen_lean.py translator", "correspondence harness (differential, bit-exact on double)",
                             "model files lean/Micm/Model/*.lean stand for the C++ source"] + P.get("trusted_extra", []),
            "theorems": thms,
            "leanchecker": obl.get("leanchecker", []),
            "partial": [t["name"] for t in thms if t["partial"]],
            "evaluations": len(cases) + (special["evaluations"] if special else 0),
            "distinct_nontrivial": len(nontrivial) + (special["nontrivial"] if special else 0),
            "rule": P["rule"],
            "samples": [c.line[:400] for c in cases[:3]] + [c.line[:400] for c in cases[-1:]] + (special["samples"] if special else []),
            "traces_validated_against_impl": sum(1 for c in cases if c.compare),
            "correspondence_breaks": len(corr_breaks),
            "oracle_failures": len(oracle_fail),
            "known_finding_hits": known_hits,
            "drift_cases": drift,
            "input_distribution": dist,
            "explanation": P.get("explanation", ""),
            "exhaustive": bool(P.get("exhaustive", {}).get(tier, False)),
            "missing": P.get("missing", ""),
            "notes": notes[:10],
        },
        "assumptions": P.get("assumptions", []),
        "wall_s": round(time.time() - t0, 2),
        "violations": reported + (1 if exit_code and not reported else 0),
    }
    if a.no_proofs:
        # development runs never overwrite the committed evidence (their `discharged` would be 0)
        json.dump(ev, open(os.path.join(VERIF, "build", "evidence_dev_" + pid + ".json"), "w"), indent=1, default=str)
    else:
        json.dump(ev, open(os.path.join(VERIF, "evidence", pid + ".json"), "w"), indent=1, default=str)
    sys.exit(exit_code)

if __name__ == "__main__":
    main()
