#!/usr/bin/env python3
"""Member-wise completeness of the user-provided copy / move special member functions (C17, also behind C14 / C15 / C18
histories): for every class of namespace micm that the probe instantiates and that has a user-provided copy or move
constructor / assignment operator WITH A BODY, list for each non-static data member (and each base class) how the
function treats it:

    same         initialised / assigned / swapped from the SAME member of the source, unconditionally
                 (`f = other.f`, `f(std::move(other.f))`, `std::swap(f, other.f)`, `f = other.f ? other.f->Clone() : nullptr`;
                 a guard `if (this != &other)` around the whole body does not count as a condition)
    from:<g>     taken from a DIFFERENT member of the source
    conditional  taken from the same member, but only under a condition that is not the self-assignment guard
    shallow-pointer-copy   a COPY operation duplicates a shared_ptr / raw pointer member as it is (source and target then share
                 the pointee); making a new object from it (`->Clone()`, `make_unique`) is `same`
    reset        given a value that does not depend on the source (allowed for the moved-from side only, never here)
    missing      not mentioned at all (a constructor then default-initialises it, an assignment keeps the old value)
    base-call    (base classes) the corresponding special member of the base is invoked with the source

The typed AST comes from clang-14 (same probe as tools/effects.py, plus a JIT probe when LLVM 14 headers are present).
Output: Gen/SpecialMembers.lean; Properties/C17c.lean proves (decide) that every entry is `same` / `base-call`.
"""
import json, os, re, subprocess, sys
import effects
from effects import VERIF, REPO

JIT_PROBE = r'''
#include <source_location>
#ifndef __cpp_lib_source_location
// clang 14 has no __builtin_source_location: a stand-in so that the headers parse (the probe is never compiled to code)
namespace std { struct source_location { static constexpr source_location current() noexcept { return {}; }
  constexpr const char* function_name() const noexcept { return ""; } constexpr const char* file_name() const noexcept { return ""; }
  constexpr unsigned line() const noexcept { return 0; } constexpr unsigned column() const noexcept { return 0; } }; }
#endif
#include <micm/jit/solver/jit_solver_builder.hpp>
#include <micm/jit/solver/jit_solver_parameters.hpp>
#include <micm/jit/solver/jit_rosenbrock.hpp>
void usejit()
{
  auto a = micm::Species("a");
  auto b = micm::Species("b");
  micm::Process r = micm::Process::Create().SetReactants({ a }).SetProducts({ micm::Yields(b, 1) }).SetRateConstant(micm::ArrheniusRateConstant({ .A_ = 1.0 }));
  using B = micm::JitSolverBuilder<micm::JitRosenbrockSolverParameters, 2>;
  auto solver = B(micm::JitRosenbrockSolverParameters(micm::RosenbrockSolverParameters::ThreeStageRosenbrockParameters()))
                    .SetSystem(micm::System(micm::SystemParameters{ .gas_phase_ = micm::Phase{ { a, b } } })).SetReactions({ r }).SetNumberOfGridCells(2).Build();
  auto solver2 = B(micm::JitRosenbrockSolverParameters(micm::RosenbrockSolverParameters::ThreeStageRosenbrockParameters()))
                    .SetSystem(micm::System(micm::SystemParameters{ .gas_phase_ = micm::Phase{ { a, b } } })).SetReactions({ r }).SetNumberOfGridCells(2).Build();
  solver = std::move(solver2);
  auto solver3 = std::move(solver);
  auto state = solver3.GetState();
  auto res = solver3.Solve(1.0, state);
}
'''

CPU_EXTRA = r'''
void specials()
{
  auto a = micm::Species("a");
  micm::Species b("b");
  b = a;                                   // Species::operator=
  micm::Species c(a);
  micm::Process r = micm::Process::Create().SetReactants({ a }).SetRateConstant(micm::ArrheniusRateConstant({ .A_ = 1.0 }));
  micm::Process r2(r);
  r2 = r;                                  // Process::operator=
  micm::System s1(micm::SystemParameters{ .gas_phase_ = micm::Phase{ { a } } });
  micm::System s2(s1);
  s2 = s1;
  auto solver = micm::CpuSolverBuilder<micm::RosenbrockSolverParameters>(micm::RosenbrockSolverParameters::ThreeStageRosenbrockParameters())
                    .SetSystem(s1).SetReactions({ r }).Build();
  auto solver2 = micm::CpuSolverBuilder<micm::RosenbrockSolverParameters>(micm::RosenbrockSolverParameters::ThreeStageRosenbrockParameters())
                    .SetSystem(s1).SetReactions({ r }).Build();
  solver = std::move(solver2);             // Solver::operator=(Solver&&)
  auto solver3 = std::move(solver);        // Solver(Solver&&)
  auto st = solver3.GetState();
  auto st2 = st;                           // State copy constructor
  st2 = st;                                // State copy assignment
  auto st3 = std::move(st2);               // State move constructor
  st2 = std::move(st3);                    // State move assignment
}
'''


def ast_for(src_text, outdir, name, extra_flags=()):
    os.makedirs(outdir, exist_ok=True)
    src = os.path.join(outdir, name + ".cpp")
    open(src, "w").write(src_text)
    astf = os.path.join(outdir, name + ".json")
    r = subprocess.run(["clang++-14", "-std=c++20", "-fsyntax-only", f"-I{REPO}/include", "-DMICM_DEFAULT_VECTOR_SIZE=4", *extra_flags,
                        "-Xclang", "-ast-dump=json", "-Xclang", "-ast-dump-filter=micm", src], stdout=open(astf, "w"), stderr=subprocess.PIPE, text=True)
    if r.returncode != 0:
        raise effects.EffectsError(f"clang could not parse the {name} probe against /repo's headers:\n" + r.stderr[-3000:])
    ast = effects.Ast(effects.load_ast(astf))
    os.remove(astf)
    return ast


def inner(n):
    return [c for c in (n.get("inner") or []) if isinstance(c, dict)]


def strip(e):
    while isinstance(e, dict) and e.get("kind") in ("ImplicitCastExpr", "ParenExpr", "ExprWithCleanups", "MaterializeTemporaryExpr",
                                                    "CXXBindTemporaryExpr", "CXXStaticCastExpr", "CXXFunctionalCastExpr", "ConstantExpr") and inner(e):
        e = inner(e)[0]
    return e


def this_field(e):
    """name of the member of *this that `e` designates (this->f or implicit f), else None"""
    e = strip(e)
    if e.get("kind") == "MemberExpr":
        base = inner(e)
        if not base or strip(base[0]).get("kind") == "CXXThisExpr":
            return e.get("name")
    return None


def other_fields(e, other_id, acc):
    """names of the members of the source object mentioned anywhere in `e`; '*' when the whole source object is used"""
    e0 = e
    if not isinstance(e, dict):
        return acc
    if e.get("kind") == "MemberExpr":
        b = inner(e)
        if b:
            bb = strip(b[0])
            if bb.get("kind") == "DeclRefExpr" and (bb.get("referencedDecl") or {}).get("id") == other_id:
                acc.add(e.get("name")); return acc
    if e.get("kind") == "DeclRefExpr" and (e.get("referencedDecl") or {}).get("id") == other_id:
        acc.add("*"); return acc
    for c in inner(e0):
        other_fields(c, other_id, acc)
    return acc


def is_self_guard(cond, other_id):
    """`this != &other`"""
    c = strip(cond)
    if c.get("kind") == "BinaryOperator" and c.get("opcode") == "!=":
        a, b = [strip(x) for x in inner(c)]
        def is_this(x): return x.get("kind") == "CXXThisExpr"
        def is_addr_other(x):
            return x.get("kind") == "UnaryOperator" and x.get("opcode") == "&" and strip(inner(x)[0]).get("kind") == "DeclRefExpr" \
                and (strip(inner(x)[0]).get("referencedDecl") or {}).get("id") == other_id
        return (is_this(a) and is_addr_other(b)) or (is_this(b) and is_addr_other(a))
    return False


def classify(fn, cls, kind):
    params = [c for c in inner(fn) if c.get("kind") == "ParmVarDecl"]
    other_id = params[0].get("id")
    fields = [c.get("name") for c in inner(cls) if c.get("kind") == "FieldDecl"]
    ftype = {c.get("name"): (c.get("type") or {}).get("qualType", "") for c in inner(cls) if c.get("kind") == "FieldDecl"}
    is_copy = kind.startswith("copy")
    bases = [(b.get("type") or {}).get("qualType", "?") for b in (cls.get("bases") or [])]
    status = {}

    def note(f, srcs, conditional):
        if f not in fields:
            return
        if not srcs or srcs == {"*"} and False:
            st = "reset"
        elif srcs == {f}:
            st = "conditional" if conditional else "same"
            # a COPY that duplicates a shared_ptr or a raw pointer shares the pointee between source and target
            if st == "same" and is_copy and note.shallow and (re.search(r"\bshared_ptr\b", ftype.get(f, "")) or re.search(r"\*\s*(const\s*)?$", ftype.get(f, ""))):
                st = "shallow-pointer-copy"
        elif f in srcs and len(srcs) > 1:
            st = "same+" + "+".join(sorted(srcs - {f}))
        else:
            st = "from:" + "+".join(sorted(srcs))
        prev = status.get(f)
        # statements are met in execution order: an unconditional one decides the final value; a conditional one after
        # it is harmless only if both take the member from the same member of the source
        if not conditional or prev is None:
            status[f] = st
        elif not (prev == "same" and srcs == {f}):
            status[f] = "conditional"

    base_called = set()
    note.shallow = True

    def rhs_is_plain(e):
        """the right-hand side is just the member of the source (possibly cast / moved), not a call that makes a new object"""
        e = strip(e)
        while e.get("kind") in ("CXXConstructExpr",) and len(inner(e)) == 1:
            e = strip(inner(e)[0])
        if e.get("kind") == "MemberExpr":
            return True
        if e.get("kind") == "CallExpr":
            callee = strip(inner(e)[0])
            if (callee.get("referencedDecl") or {}).get("name") in ("move", "forward"):
                return rhs_is_plain(inner(e)[1])
        return False

    def visit(n, conditional):
        k = n.get("kind")
        if k == "IfStmt":
            ch = inner(n)
            cond = ch[0]
            guard = is_self_guard(cond, other_id)
            for c in ch[1:]:
                visit(c, conditional or not guard)
            return
        if k in ("BinaryOperator",) and n.get("opcode") == "=":
            lhs, rhs = inner(n)
            f = this_field(lhs)
            if f:
                note.shallow = rhs_is_plain(rhs)
                note(f, other_fields(rhs, other_id, set()), conditional)
        if k == "CXXOperatorCallExpr":
            ch = inner(n)
            callee = strip(ch[0])
            nm = (callee.get("referencedDecl") or {}).get("name")
            if nm == "operator=" and len(ch) >= 3:
                f = this_field(ch[1])
                if f:
                    note.shallow = rhs_is_plain(ch[2])
                    note(f, other_fields(ch[2], other_id, set()), conditional)
        if k == "CXXMemberCallExpr":
            me = strip(inner(n)[0])
            if me.get("name") == "operator=":
                # Base::operator=(other) on *this
                recv = inner(me)
                if (not recv or strip(recv[0]).get("kind") in ("CXXThisExpr",)) or True:
                    srcs = set()
                    for a in inner(n)[1:]:
                        other_fields(a, other_id, srcs)
                    f = this_field(recv[0]) if recv else None
                    if f:
                        note(f, srcs, conditional)
                    elif "*" in srcs:
                        base_called.add("operator=")
        if k == "CallExpr":
            ch = inner(n)
            callee = strip(ch[0])
            nm = (callee.get("referencedDecl") or {}).get("name")
            if nm == "swap" and len(ch) == 3:
                f = this_field(ch[1]); srcs = other_fields(ch[2], other_id, set())
                if not f:
                    f = this_field(ch[2]); srcs = other_fields(ch[1], other_id, set())
                if f:
                    note(f, srcs, conditional)
        for c in inner(n):
            visit(c, conditional)

    for c in inner(fn):
        if c.get("kind") == "CXXCtorInitializer":
            tgt = c.get("anyInit") or {}
            srcs = set()
            for x in inner(c):
                other_fields(x, other_id, srcs)
            if tgt.get("kind") == "FieldDecl":
                xs = inner(c)
                note.shallow = len(xs) == 1 and rhs_is_plain(xs[0])
                note(tgt.get("name"), srcs, False)
            elif c.get("baseInit") is not None:
                if "*" in srcs:
                    base_called.add("ctor")
        elif c.get("kind") == "CompoundStmt":
            visit(c, False)
    rows = []
    for f in fields:
        rows.append((f, status.get(f, "missing")))
    for b in bases:
        rows.append(("<base " + re.sub(r"\s+", " ", b)[:60] + ">", "base-call" if base_called else "missing"))
    return rows


def special_kind(fn, clsname):
    params = [c for c in inner(fn) if c.get("kind") == "ParmVarDecl"]
    if len(params) != 1:
        return None
    qt = (params[0].get("type") or {}).get("qualType", "")
    base = re.sub(r"<.*>", "", qt)
    base = re.sub(r"\bconst\b|&|\s|\bclass\b|\bstruct\b", "", base).split("::")[-1]
    if base != clsname:
        return None
    is_move = "&&" in qt
    if fn.get("kind") == "CXXConstructorDecl":
        return "move-ctor" if is_move else ("copy-ctor" if "&" in qt else None)
    if fn.get("kind") == "CXXMethodDecl" and fn.get("name") == "operator=":
        return "move-assign" if is_move else ("copy-assign" if "&" in qt else None)
    return None


def collect(ast, out):
    for did, d in ast.decl.items():
        if d.get("kind") not in ("CXXRecordDecl", "ClassTemplateSpecializationDecl"):
            continue
        if not d.get("completeDefinition") and d.get("kind") == "CXXRecordDecl":
            continue
        if d.get("kind") == "CXXRecordDecl" and d.get("_parent_kind") in ("ClassTemplateDecl", "ClassTemplatePartialSpecializationDecl"):
            continue            # the template pattern: members of the source are dependent names there; instantiations follow
        cname = d.get("name")
        if not cname:
            continue
        for m in inner(d):
            if m.get("kind") not in ("CXXConstructorDecl", "CXXMethodDecl"):
                continue
            if m.get("isImplicit") or m.get("explicitlyDefaulted") or m.get("explicitlyDeleted"):
                continue
            k = special_kind(m, cname)
            if not k:
                continue
            body = ast.fn.get(m.get("id"))
            if body is None:
                continue
            qual = ast.qual.get(did, cname)
            if d.get("kind") == "ClassTemplateSpecializationDecl":
                # one row per class template: specialisations have identical special members; keep the first
                key = (qual.split("::")[-1], k)
            else:
                key = (qual.split("::")[-1], k)
            if not qual.startswith("micm"):
                continue
            if key in out:
                # all instantiations must agree
                rows = classify(body, d, k)
                if [r[1] for r in rows] != [r[1] for r in out[key]["rows"]]:
                    out[(key[0] + "'", k)] = dict(rows=rows, where=body.get("_where"))
                continue
            out[key] = dict(rows=classify(body, d, k), where=body.get("_where"))
    return out


_cache = {}

def extract():
    if "res" in _cache:
        return _cache["res"]
    outdir = os.path.join(VERIF, "build", "effects")
    res = {}
    cpu = ast_for(effects.PROBE + CPU_EXTRA, outdir, "specials_cpu")
    collect(cpu, res)
    jit_note = None
    try:
        fl = subprocess.run(["llvm-config-14", "--cxxflags"], capture_output=True, text=True).stdout.split()
        fl = [f for f in fl if not f.startswith("-std=") and f not in ("-fno-exceptions", "-fno-rtti")]
        jit = ast_for(JIT_PROBE, outdir, "specials_jit", ["-DMICM_ENABLE_LLVM"] + fl)
        collect(jit, res)
    except (FileNotFoundError, effects.EffectsError) as e:
        jit_note = str(e)[:500]
    need = [("State", "copy-ctor"), ("State", "copy-assign"), ("State", "move-ctor"), ("State", "move-assign"), ("Solver", "move-ctor"),
            ("Solver", "move-assign"), ("Species", "copy-assign"), ("Process", "copy-assign")]
    for k in need:
        if k not in res:
            raise effects.EffectsError(f"special member {k[0]}::{k[1]} not found in the AST of the probe")
    _cache["res"] = (res, jit_note)
    return _cache["res"]


def emit_lean(res):
    def q(x): return '"' + x.replace("\\", "\\\\").replace('"', '\\"') + '"'
    lines = ["/- GENERATED by tools/specials.py from the clang AST of /repo's headers -- do not edit.",
             "   For every user-provided copy / move special member function with a body: how each data member (and base) of the",
             "   target is obtained from the source object.  See tools/specials.py for the vocabulary. -/", "namespace Micm.Gen", "",
             "def specialMembers : List (String × String × List (String × String)) := ["]
    rows = []
    for (cls, kind) in sorted(res):
        rs = res[(cls, kind)]["rows"]
        rows.append(f"  ({q(cls)}, {q(kind)}, [{', '.join('(' + q(f) + ', ' + q(s) + ')' for f, s in rs)}])")
    lines.append(",\n".join(rows) + "]")
    lines += ["", "end Micm.Gen", ""]
    return "\n".join(lines)


def write():
    res, note = extract()
    text = emit_lean(res)
    gp = os.path.join(VERIF, "lean", "Micm", "Gen", "SpecialMembers.lean")
    if not os.path.exists(gp) or open(gp).read() != text:
        open(gp, "w").write(text)
    return res, note


if __name__ == "__main__":
    res, note = extract()
    if note:
        print("JIT probe:", note)
    for (cls, kind), v in sorted(res.items()):
        bad = [(f, s) for f, s in v["rows"] if s not in ("same", "base-call")]
        print(f"{cls}::{kind}  ({len(v['rows'])} members)  at {effects.rel(v['where'][0])}:{v['where'][1]}  ->", "member-wise" if not bad else bad)
