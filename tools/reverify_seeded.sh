#!/bin/bash
# usage: tools/reverify_seeded.sh [regex on seeded ids, default all]   -- applies every kept seeded change to /repo in turn,
# runs the quick check of the property it is aimed at (id suffix NN -> CNN) without proofs, reverts, and prints whether the
# check reported a concrete failing input (violation_*.json) or only a broken tie.  Regenerates the generated Lean files
# from the clean tree at the end.  Never run while another check is reading /repo.
pat=${1:-.}
cd "$(dirname "$0")/.."
if [ -n "$(git -C /repo status --porcelain --untracked-files=no)" ]; then echo "REPO DIRTY, abort"; exit 2; fi
for m in $(ls seeded | grep -E "$pat"); do
  nn=${m: -2}
  case $nn in [0-9][0-9]) pid="C$nn";; *) continue;; esac
  git -C /repo apply "$PWD/seeded/$m/patch.diff" 2>/dev/null || { echo "$m no-apply"; continue; }
  out=$(python3 tools/check.py $pid --tier quick --no-proofs 2>&1 | grep -v "^WARNING")
  git -C /repo checkout -- .
  echo "$m $pid: concrete=$(echo "$out" | grep -c 'violation_') broken=$(echo "$out" | grep -c 'no-failing-input-found')"
done
python3 -c "import sys; sys.path.insert(0, 'tools'); import gen_lean, gen_rates, effects, specials; r = gen_lean.load_all(); open('lean/Micm/Gen/Params.lean', 'w').write(gen_lean.emit_lean(*r)); gen_rates.write(); effects.write(); specials.write()" > /dev/null 2>&1
echo REVERIFY-DONE
