#!/usr/bin/env python3
import sys, os
sys.path.insert(0, os.path.dirname(os.path.abspath(__file__)))
from gen_cases import *
import gen_lean, runner, build_harness

def main():
    seed = int(os.environ.get("VERIF_SEED", "1"))
    r = Rng(seed)
    ros, be, lits, errs = gen_lean.load_all()
    Ls = [0, 3]
    exe = build_harness.build(Ls, san=0)
    lines = []
    # sparse
    for _ in range(40):
        n = r.rng(1, 5); L = r.pick(Ls); csc = r.below(2); blocks = r.rng(1, 2 * max(L, 1) + 1)
        es = gen_pattern(r, n, full_diag=r.chance(0.7))
        lines.append(" ".join(["sparse", str(n), str(csc), str(L), str(blocks)] + pairs_tokens(es)))
    for _ in range(30):
        L = r.pick(Ls); rows = r.rng(0, 3 * max(L, 1) + 1); cols = r.rng(0, 6)
        lines.append(f"dense {L} {rows} {cols}")
    for _ in range(60):
        L = r.pick(Ls); ns = r.rng(1, 6); ncell = r.rng(1, 3 * max(L, 1) + 1)
        perm = r.shuffle(range(ns))
        rx = gen_mech(r, ns)
        k = [gen_value(r, "rate") for _ in range(ncell * len(rx))]
        y = [gen_value(r, "conc") for _ in range(ncell * ns)]
        f0 = [gen_value(r, "any") if r.chance(0.5) else 0.0 for _ in range(ncell * ns)]
        lines.append(" ".join(["forcing", str(L), str(ncell), str(ns)] + [str(x) for x in perm] + mech_tokens(rx) + [hexd(v) for v in k + y + f0]))
    for _ in range(60):
        L = r.pick(Ls); csc = r.below(2); ns = r.rng(1, 6); ncell = r.rng(1, 3 * max(L, 1) + 1)
        perm = r.shuffle(range(ns))
        rx = gen_mech(r, ns)
        k = [gen_value(r, "rate") for _ in range(ncell * len(rx))]
        y = [gen_value(r, "conc") for _ in range(ncell * ns)]
        lines.append(" ".join(["jacobian", str(ncell), str(ns), str(csc), str(L)] + [str(x) for x in perm] + mech_tokens(rx) + [hexd(v) for v in k + y]))
    for _ in range(120):
        kind = r.below(4); L = r.pick(Ls); csc = r.below(2); n = r.rng(1, 7); blocks = r.rng(1, 2 * max(L, 1) + 1)
        es = gen_pattern(r, n, density=r.unit() * 0.6)
        av = diag_dominant_values(r, n, es, blocks)
        b = [gen_value(r, "any") for _ in range(blocks * n)]
        lines.append(" ".join(["lu", str(kind), str(n), str(csc), str(L), str(blocks)] + pairs_tokens(es) + [hexd(v) for v in av] + [hexd(r.pick([0.0, 7.5, -3.25, float("nan")]))] + [hexd(v) for v in b]))
    names = list(ros.keys())
    for _ in range(80):
        integ = 0 if r.chance(0.7) else 1
        L = r.pick(Ls); csc = r.below(2); kind = r.below(4); clamp = r.below(2)
        ns = r.rng(1, 5); ncell = r.rng(1, 2 * max(L, 1) + 1)
        perm = r.shuffle(range(ns))
        rx = gen_mech(r, ns, allow_param=False)
        k = [gen_value(r, "rate") for _ in range(ncell * len(rx))]
        y = [gen_value(r, "conc") for _ in range(ncell * ns)]
        atol = [r.pick([1e-3, 1e-6, 1e-12]) for _ in range(ns)]
        rtol = r.pick([1e-3, 1e-6, 1e-8])
        dt = r.logu(1e-3, 1e4)
        toks = ["solve", str(integ), str(L), str(csc), str(kind), str(clamp), str(ncell), str(ns)] + [str(x) for x in perm] + mech_tokens(rx) + [hexd(v) for v in k + y + atol] + [hexd(rtol), hexd(dt), "6"]
        if integ == 0:
            ps = ros[r.pick(names)]
            ov = {}
            if r.chance(0.5): ov["h_start"] = r.logu(1e-3, 1e4)
            toks += ros_param_tokens(ps, ov)
        else:
            toks += be_param_tokens(be)
        lines.append(" ".join(toks))
    impl = runner.run_batch(exe, lines)
    model = runner.run_model(lines)
    bad = 0
    stat = {}
    for i, (a, b) in enumerate(zip(impl, model)):
        cmd = lines[i].split()[0]
        stat.setdefault(cmd, [0, 0])
        stat[cmd][0] += 1
        if a != b:
            stat[cmd][1] += 1
            bad += 1
            if bad <= 6:
                print("MISMATCH", i, lines[i][:300])
                print("  impl :", (a or "")[:1500])
                print("  model:", (b or "")[:1500])
    print(stat)

main()
