#!/usr/bin/env python3
"""Failing-input search: independent specifications evaluated in exact rational arithmetic on
the very inputs the implementation received, compared with the implementation's output inside a
rigorous rounding envelope (Higham gamma_k).  Used to decide whether a broken correspondence or
proof obligation is a real violation; never stands in for a theorem."""
from fractions import Fraction as F
import math, re
from gen_cases import unhex, PARAM0

EPS = F(1, 2 ** 53)

def gamma(k):
    return k * EPS / (1 - k * EPS)

def parse_kv(line):
    """'cmd a=1 2 b=3' -> ('cmd', {'a': ['1','2'], 'b': ['3']})"""
    toks = line.split(" ")
    cmd = toks[0]
    d = {}
    cur = None
    for t in toks[1:]:
        m = re.match(r"^([A-Za-z_][A-Za-z0-9_]*)=(.*)$", t)
        if m and not t.startswith("["):
            cur = m.group(1)
            d[cur] = [m.group(2)] if m.group(2) != "" else []
        elif cur is not None:
            d[cur].append(t)
    return cmd, d

def fr(h):
    x = unhex(h)
    if x != x or x in (float("inf"), float("-inf")):
        return None
    return F(x)

def is_err(out):
    return out is None or out.startswith("err ") or out.startswith("ub ") or out == "hang" or out in ("bad-op", "no-cfg")

# ----------------------------------------------------------------------------- C01
def mass_action(rx, perm, k, y, f0, ncell, ns):
    """exact forcing and an absolute error envelope per entry; state index of species s<i> is perm[i];
    k,y,f0 are Fractions in state-index order (as the protocol passes them)"""
    nrx = len(rx)
    out = []
    env = []
    for c in range(ncell):
        f = [f0[c * ns + i] for i in range(ns)]
        mag = [abs(x) for x in f]
        nterm = [1] * ns
        for r, (reactants, products) in enumerate(rx):
            rs = [perm[x] for x in reactants if x < PARAM0]
            rate = k[c * nrx + r]
            for j in rs:
                rate *= y[c * ns + j]
            for j in rs:
                f[j] -= rate; mag[j] += abs(rate); nterm[j] += 1
            for (pid, yl) in products:
                if pid >= PARAM0:
                    continue
                j = perm[pid]
                f[j] += F(yl) * rate; mag[j] += abs(F(yl) * rate); nterm[j] += 1
        out += f
        maxr = max([len(r[0]) for r in rx] + [0])
        env += [gamma(nterm[i] + maxr + 3) * mag[i] for i in range(ns)]
    return out, env

def check_forcing(case, impl):
    cmd, d = parse_kv(impl)
    if cmd != "forcing":
        return f"implementation outcome '{impl[:80]}' on a valid mechanism"
    m = case.meta
    got = d["f"]
    exp, env = mass_action(m["rx"], m["perm"], m["k"], m["y"], m["f0"], m["ncell"], m["ns"])
    for i, (g, e, b) in enumerate(zip(got, exp, env)):
        gv = fr(g)
        if gv is None:
            return f"non-finite forcing at flat index {i}"
        if abs(gv - e) > b:
            return f"forcing[{i // m['ns']}][{i % m['ns']}] = {float(gv)!r}, mass-action law gives {float(e)!r} (envelope {float(b):.3e})"
    return None

# ----------------------------------------------------------------------------- C02
def jacobian_spec(rx, perm, k, y, ncell, ns):
    """-d f_i / d y_j, exact, as dict (cell, i, j) -> (value, magnitude)"""
    nrx = len(rx)
    J = {}
    for c in range(ncell):
        for r, (reactants, products) in enumerate(rx):
            rs = [perm[x] for x in reactants if x < PARAM0]
            for j in set(rs):
                mult = rs.count(j)
                rest = list(rs); rest.remove(j)
                d = k[c * nrx + r] * mult
                for l in rest:
                    d *= y[c * ns + l]
                # net stoichiometry
                for i in set(rs):
                    v = rs.count(i) * d
                    a, b = J.get((c, i, j), (F(0), F(0))); J[(c, i, j)] = (a + v, b + abs(v))
                for (pid, yl) in products:
                    if pid >= PARAM0: continue
                    i = perm[pid]
                    v = -F(yl) * d
                    a, b = J.get((c, i, j), (F(0), F(0))); J[(c, i, j)] = (a + v, b + abs(v))
    return J

def check_jacobian(case, impl):
    cmd, d = parse_kv(impl)
    if cmd != "jacobian":
        return f"implementation outcome '{impl[:80]}' on a valid mechanism"
    m = case.meta
    ns, ncell = m["ns"], m["ncell"]
    nz = [tuple(int(v) for v in p.split(",")) for p in d.get("nz", [])]
    pattern = sorted(set(nz) | {(i, i) for i in range(ns)})
    J = jacobian_spec(m["rx"], m["perm"], m["k"], m["y"], ncell, ns)
    # completeness of the declared pattern (structural)
    for (c, i, j) in J:
        if (i, j) not in pattern:
            return f"structurally non-zero derivative d f_{i}/d y_{j} is not in the declared sparsity pattern"
    vals = d["J"]
    if len(vals) != ncell * len(pattern):
        return f"jacobian output has {len(vals)} values, expected {ncell * len(pattern)}"
    nreact = max([len(r[0]) for r in m["rx"]] + [1])
    nterms = sum(len(r[0]) for r in m["rx"]) + 2
    for c in range(ncell):
        for q, (i, j) in enumerate(pattern):
            gv = fr(vals[c * len(pattern) + q])
            if gv is None:
                return f"non-finite jacobian entry ({i},{j}) cell {c}"
            e, mag = J.get((c, i, j), (F(0), F(0)))
            if abs(gv - e) > gamma(nterms + nreact + 3) * mag:
                return f"cell {c}: J[{i}][{j}] = {float(gv)!r} but -d f_{i}/d y_{j} = {float(e)!r}"
    return None

# ----------------------------------------------------------------------------- C03 / C04
def check_lu(case, impl):
    cmd, d = parse_kv(impl)
    if cmd != "lu":
        return f"implementation outcome '{impl[:80]}' on a factorable matrix"
    m = case.meta
    n, blocks, es = m["n"], m["blocks"], m["es"]
    Lp = [tuple(int(v) for v in p.split(",")) for p in d.get("Lp", [])]
    Up = [tuple(int(v) for v in p.split(",")) for p in d.get("Up", [])]
    inplace = m["kind"] >= 2
    Lv = d.get("L", []); Uv = d.get("U", []); xv = d.get("x", [])
    for b in range(blocks):
        A = {e: m["A"][b * len(es) + q] for q, e in enumerate(es)}
        if inplace:
            M = {e: fr(Lv[b * len(Lp) + q]) for q, e in enumerate(Lp)}
            if any(v is None for v in M.values()):
                return f"block {b}: non-finite factor"
            Lm = {(i, j): v for (i, j), v in M.items() if j < i}
            for i in range(n): Lm[(i, i)] = F(1)
            Um = {(i, j): v for (i, j), v in M.items() if j >= i}
        else:
            Lm = {e: fr(Lv[b * len(Lp) + q]) for q, e in enumerate(Lp)}
            Um = {e: fr(Uv[b * len(Up) + q]) for q, e in enumerate(Up)}
            if any(v is None for v in list(Lm.values()) + list(Um.values())):
                return f"block {b}: non-finite factor"
            for (i, j), v in Lm.items():
                if j > i and v != 0: return f"block {b}: L has an entry above the diagonal"
                if i == j and v != 1: return f"block {b}: L[{i}][{i}] = {float(v)} is not 1"
            for (i, j), v in Um.items():
                if j < i and v != 0: return f"block {b}: U has an entry below the diagonal"
        # L*U = A within gamma_n |L||U|
        for i in range(n):
            for j in range(n):
                s = F(0); mag = F(0)
                for kk in range(n):
                    l = Lm.get((i, kk)); u = Um.get((kk, j))
                    if l is not None and u is not None:
                        s += l * u; mag += abs(l * u)
                a = A.get((i, j), F(0))
                if abs(s - a) > gamma(n + 2) * mag + gamma(2) * abs(a):
                    return f"block {b}: (L*U)[{i}][{j}] = {float(s)!r} but A[{i}][{j}] = {float(a)!r}"
        # A x = b  (residual bound |b - A x| <= gamma_{3n} |L||U||x|)
        x = [fr(v) for v in xv[b * n:(b + 1) * n]]
        if any(v is None for v in x):
            return f"block {b}: non-finite solution"
        for i in range(n):
            r = m["b"][b * n + i]
            bound = F(0)
            for j in range(n):
                r -= A.get((i, j), F(0)) * x[j]
                lu = sum(abs(Lm.get((i, kk), F(0))) * abs(Um.get((kk, j), F(0))) for kk in range(n))
                bound += lu * abs(x[j])
            if abs(r) > gamma(3 * n + 2) * bound + gamma(2) * abs(m["b"][b * n + i]):
                return f"block {b}: residual (b - A x)[{i}] = {float(r):.3e} exceeds the rounding envelope {float(gamma(3*n+2)*bound):.3e}"
    return None

# ----------------------------------------------------------------------------- C08
def lt_index(i, j):
    return i * (i - 1) // 2 + j

def textbook(s, a, c, m, e, g):
    Ginv = [[F(0)] * s for _ in range(s)]
    for i in range(s):
        Ginv[i][i] = 1 / g
        for j in range(i):
            Ginv[i][j] = -c[lt_index(i, j)]
    Gm = [[F(0)] * s for _ in range(s)]
    for col in range(s):
        for i in range(s):
            rhs = F(1) if i == col else F(0)
            acc = rhs - sum(Ginv[i][k] * Gm[k][col] for k in range(i))
            Gm[i][col] = acc / Ginv[i][i]
    A = [[F(0)] * s for _ in range(s)]
    for i in range(s):
        for j in range(i):
            A[i][j] = a[lt_index(i, j)]
    alpha = [[sum(A[i][k] * Gm[k][j] for k in range(s)) for j in range(s)] for i in range(s)]
    b = [sum(m[k] * Gm[k][j] for k in range(s)) for j in range(s)]
    bh = [sum((m[k] - e[k]) * Gm[k][j] for k in range(s)) for j in range(s)]
    return alpha, Gm, b, bh

def order_residuals(s, alpha, gam, b):
    beta = [[(alpha[i][j] + gam[i][j]) if j < i else F(0) for j in range(s)] for i in range(s)]
    al = [sum(alpha[i]) for i in range(s)]
    be = [sum(beta[i][j] for j in range(i)) for i in range(s)]
    g = gam[0][0]
    R = range(s)
    out = {}
    out['o1'] = (1, sum(b) - 1)
    out['o2'] = (2, sum(b[i] * be[i] for i in R) - (F(1, 2) - g))
    out['o3a'] = (3, sum(b[i] * al[i] ** 2 for i in R) - F(1, 3))
    out['o3b'] = (3, sum(b[i] * beta[i][j] * be[j] for i in R for j in R) - (F(1, 6) - g + g * g))
    out['o4a'] = (4, sum(b[i] * al[i] ** 3 for i in R) - F(1, 4))
    out['o4b'] = (4, sum(b[i] * al[i] * alpha[i][j] * be[j] for i in R for j in R) - (F(1, 8) - g / 3))
    out['o4c'] = (4, sum(b[i] * beta[i][j] * al[j] ** 2 for i in R for j in R) - (F(1, 12) - g / 3))
    out['o4d'] = (4, sum(b[i] * beta[i][j] * beta[j][k] * be[k] for i in R for j in R for k in R) - (F(1, 24) - g / 2 + F(3, 2) * g * g - g ** 3))
    return out, al, [sum(gam[i]) for i in R]

DOC_ORDER = {"TwoStageRosenbrockParameters": 2, "ThreeStageRosenbrockParameters": 3, "FourStageRosenbrockParameters": 4,
             "FourStageDifferentialAlgebraicRosenbrockParameters": 3, "SixStageDifferentialAlgebraicRosenbrockParameters": 4}

def c08_numeric(ros):
    """evaluate every algebraic condition of C08 on the translated tables; returns list of failure strings"""
    fails = []
    tol = F(1, 10 ** 14)
    for name, d in ros.items():
        s = d["stages"]
        a = [F(x) for x in d["a"]]; c = [F(x) for x in d["c"]]; m = [F(x) for x in d["m"]]; e = [F(x) for x in d["e"]]
        g = F(d["gamma"][0])
        if g == 0:
            fails.append(f"{name}: gamma_[0] = 0"); continue
        alpha, Gm, b, bh = textbook(s, a, c, m, e, g)
        p = DOC_ORDER.get(name, 0)
        res, al, gs = order_residuals(s, alpha, Gm, b)
        for k, (o, v) in res.items():
            if o <= p and abs(v) > tol:
                fails.append(f"{name}: order condition {k} of the main method has residual {float(v):.3e}")
        resh, _, _ = order_residuals(s, alpha, Gm, bh)
        for k, (o, v) in resh.items():
            if o <= p - 1 and abs(v) > tol:
                fails.append(f"{name}: order condition {k} of the embedded method has residual {float(v):.3e}")
        for i in range(s):
            if abs(al[i] - F(d["alpha"][i])) > tol:
                fails.append(f"{name}: alpha_[{i}] = {d['alpha'][i]!r} but the row sum of alpha_ij is {float(al[i])!r}")
            if abs(gs[i] - F(d["gamma"][i])) > tol:
                fails.append(f"{name}: gamma_[{i}] = {d['gamma'][i]!r} but the row sum of gamma_ij is {float(gs[i])!r}")
        # R(inf)
        B = [[alpha[i][j] + Gm[i][j] for j in range(s)] for i in range(s)]
        x = [F(0)] * s
        for i in range(s):
            x[i] = (1 - sum(B[i][k] * x[k] for k in range(i))) / B[i][i]
        rinf = 1 - sum(b[i] * x[i] for i in range(s))
        bound = F(2, 10 ** 5) if name == "FourStageRosenbrockParameters" else tol
        if abs(rinf) > bound:
            fails.append(f"{name}: |R(inf)| = {float(abs(rinf)):.3e} exceeds {float(bound):.1e}")
        if name == "TwoStageRosenbrockParameters":
            # the documented closed forms of ROS2 (same residuals as Micm.C08_ros2_closed_form)
            cf = {"a_[0]": a[0] - 1 / g, "c_[0]": c[0] + 2 / g, "m_[0]": m[0] - 3 / (2 * g), "m_[1]": m[1] - 1 / (2 * g),
                  "e_[0]": e[0] - 1 / (2 * g), "e_[1]": e[1] - 1 / (2 * g), "2(gamma-1)^2-1": 2 * (g - 1) * (g - 1) - 1}
            vals = {"a_[0]": a[0], "c_[0]": c[0], "m_[0]": m[0], "m_[1]": m[1], "e_[0]": e[0], "e_[1]": e[1], "2(gamma-1)^2-1": g}
            for k, v in cf.items():
                if abs(v) > F(1, 10 ** 15):
                    fails.append(f"{name}: {k} = {float(vals[k])!r} deviates from the closed form of ROS2 (a=1/g, c=-2/g, m=(3/(2g), 1/(2g)), "
                                 f"e=(1/(2g), 1/(2g)), g=gamma_[0]) by {float(v):.3e}")
        if d["estimator_of_local_order"] != float(p):
            fails.append(f"{name}: estimator_of_local_order_ = {d['estimator_of_local_order']} but the documented order is {p}")
    return fails
