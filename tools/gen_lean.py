#!/usr/bin/env python3
"""Translator: reads the Rosenbrock coefficient tables, the solver-parameter defaults, the
literals used by the integrators and the error-code tables out of /repo's headers and emits
  * lean/Micm/Gen/Params.lean  (exact rationals of the binary64 values, re-proved every run)
  * a python dict (for the case generators)
Anything the small grammar does not recognise is a hard failure."""
import re, math, struct, sys, os, json
from fractions import Fraction

REPO = os.environ.get("MICM_REPO", "/repo")
VERIF = os.path.dirname(os.path.dirname(os.path.abspath(__file__)))

class TranslatorError(Exception):
    pass

def strip_comments(s):
    s = re.sub(r'//.*', '', s)
    return re.sub(r'/\*.*?\*/', '', s, flags=re.S)

def ev(expr, env):
    e = expr.strip()
    e = re.sub(r'parameters\.(\w+)_\[(\d+)\]', lambda m: f"P['{m.group(1)}'][{m.group(2)}]", e)
    e = e.replace('std::sqrt', 'math.sqrt')
    e = e.replace('std::numeric_limits<double>::epsilon()', repr(sys.float_info.epsilon))
    if not re.fullmatch(r"[0-9eE\.\+\-\*/\(\) ,a-zA-Z_\[\]']*", e):
        raise TranslatorError("unrecognised expression: " + expr)
    try:
        return float(eval(e, {'math': math, 'P': env['P'], '__builtins__': {}}, dict(env['locals'])))
    except Exception as ex:
        raise TranslatorError(f"cannot evaluate {expr!r}: {ex}")

def parse_rosenbrock():
    path = os.path.join(REPO, "include/micm/solver/rosenbrock_solver_parameters.hpp")
    src = strip_comments(open(path).read())
    # member defaults
    defaults = {}
    struct_body = src[src.index("struct RosenbrockSolverParameters"):]
    for name in ("max_number_of_steps", "round_off", "factor_min", "factor_max", "rejection_factor_decrease",
                 "safety_factor", "h_min", "h_max", "h_start"):
        m = re.search(r'\b' + name + r'_\s*\{\s*([^}]*?)\s*\}', struct_body, re.S)
        if not m:
            raise TranslatorError("default of " + name + "_ not found")
        defaults[name] = ev(m.group(1), {'P': {}, 'locals': {}})
    funcs = re.findall(r'inline RosenbrockSolverParameters RosenbrockSolverParameters::(\w+)\(\)\s*\{(.*?)\n  \}', src, re.S)
    if len(funcs) < 5:
        raise TranslatorError(f"expected 5 factory functions, found {len(funcs)}")
    out = {}
    for name, body in funcs:
        P = {k: [0.0] * n for k, n in [('a', 15), ('c', 15), ('m', 6), ('e', 6), ('alpha', 6), ('gamma', 6)]}
        P['new_function_evaluation'] = [False] * 6
        env = {'P': P, 'locals': {}}
        scal = {}
        for stmt in body.split(';'):
            st = ' '.join(stmt.split())
            if not st or st.startswith('RosenbrockSolverParameters parameters') or st.startswith('return'):
                continue
            m = re.fullmatch(r'(?:const )?double (\w+) = (.*)', st)
            if m:
                env['locals'][m.group(1)] = ev(m.group(2), env); continue
            m = re.fullmatch(r'parameters\.(\w+)_\.fill\((.*)\)', st)
            if m:
                k, v = m.group(1), m.group(2)
                P[k] = [(v == 'true') if k.startswith('new') else ev(v, env)] * len(P[k]); continue
            m = re.fullmatch(r'parameters\.(\w+)_\[(\d+)\] = (.*)', st)
            if m:
                k, i, v = m.group(1), int(m.group(2)), m.group(3)
                if k not in P or i >= len(P[k]):
                    raise TranslatorError("unknown table entry: " + st)
                P[k][i] = (v == 'true') if k.startswith('new') else ev(v, env); continue
            m = re.fullmatch(r'parameters\.(\w+)_ = (.*)', st)
            if m:
                scal[m.group(1)] = ev(m.group(2), env); continue
            raise TranslatorError('unrecognised statement in ' + name + ': ' + st)
        d = dict(defaults)
        d.update(P)
        d.update(scal)
        if 'stages' not in d or 'estimator_of_local_order' not in d:
            raise TranslatorError("stages/estimator missing in " + name)
        d['stages'] = int(d['stages'])
        out[name] = d
    return out

def parse_be():
    path = os.path.join(REPO, "include/micm/solver/backward_euler_solver_parameters.hpp")
    src = strip_comments(open(path).read())
    d = {}
    for name in ("small", "h_start", "max_number_of_steps"):
        m = re.search(r'\b' + name + r'_\s*\{\s*([^}]*?)\s*\}', src)
        if not m:
            raise TranslatorError("BE default " + name)
        d[name] = float(eval(m.group(1), {'__builtins__': {}}))
    m = re.search(r'time_step_reductions_\s*\{([^}]*)\}', src)
    if not m:
        raise TranslatorError("BE reductions")
    d["time_step_reductions"] = [float(x) for x in m.group(1).split(',')]
    return d

def parse_literals():
    """DELTA_MIN, error_min, 0.1, 10 as they appear in rosenbrock.hpp/.inl"""
    hpp = strip_comments(open(os.path.join(REPO, "include/micm/solver/rosenbrock.hpp")).read())
    inl = strip_comments(open(os.path.join(REPO, "include/micm/solver/rosenbrock.inl")).read())
    m = re.search(r'DELTA_MIN\s*=\s*([0-9.eE+-]+)', hpp)
    if not m: raise TranslatorError("DELTA_MIN")
    d = {"delta_min": float(m.group(1))}
    ms = re.findall(r'double error_min\s*=\s*([0-9.eE+-]+)', inl)
    if len(ms) != 2 or ms[0] != ms[1]: raise TranslatorError("error_min")
    d["error_min"] = float(ms[0])
    m = re.search(r'present_time \+ ([0-9.eE+-]+) \* H\) == present_time', inl)
    if not m: raise TranslatorError("0.1*H literal")
    d["tenth"] = float(m.group(1))
    m = re.search(r'std::abs\(H\) <= ([0-9.eE+-]+) \* parameters\.round_off_', inl)
    if not m: raise TranslatorError("10*round_off literal")
    d["ten"] = float(m.group(1))
    return d

def parse_errors():
    src = open(os.path.join(REPO, "include/micm/util/error.hpp")).read()
    defs = dict(re.findall(r'#define\s+(MICM_\w+)\s+("[^"]*"|\d+)', src))
    out = {"macros": defs}
    def enum(path, name):
        s = strip_comments(open(os.path.join(REPO, path)).read())
        m = re.search(r'enum class ' + name + r'\s*\{(.*?)\}', s, re.S)
        if not m: raise TranslatorError("enum " + name)
        vals = {}
        for item in m.group(1).split(','):
            item = item.strip()
            if not item: continue
            k, v = [x.strip() for x in item.split('=')]
            v = defs.get(v, v)
            vals[k] = int(v)
        return vals
    out["MicmSolverBuilderErrc"] = enum("include/micm/solver/solver_builder.inl", "MicmSolverBuilderErrc")
    out["MicmStateErrc"] = enum("include/micm/solver/state.inl", "MicmStateErrc")
    out["MicmMatrixErrc"] = enum("include/micm/util/matrix_error.hpp", "MicmMatrixErrc")
    out["MicmProcessSetErrc"] = enum("include/micm/process/process_set.hpp", "MicmProcessSetErrc")
    out["MicmProcessErrc"] = enum("include/micm/process/process.hpp", "MicmProcessErrc")
    out["MicmSpeciesErrc"] = enum("include/micm/system/species.hpp", "MicmSpeciesErrc")
    return out

def rat(x):
    f = Fraction(x)
    return f"(({f.numerator} : Rat) / {f.denominator})" if f.denominator != 1 else f"({f.numerator} : Rat)"

def bits(x):
    return struct.unpack('<Q', struct.pack('<d', x))[0]

SHORT = {"TwoStageRosenbrockParameters": "ros2", "ThreeStageRosenbrockParameters": "ros3",
         "FourStageRosenbrockParameters": "ros4", "FourStageDifferentialAlgebraicRosenbrockParameters": "rodas3",
         "SixStageDifferentialAlgebraicRosenbrockParameters": "rodas4"}

def emit_lean(ros, be, lits, errs):
    L = []
    L.append("/- GENERATED by tools/gen_lean.py from /repo's headers on every run. Do not edit. -/")
    L.append("namespace Micm.Gen")
    L.append("")
    L.append("structure RosTable where")
    L.append("  stages : Nat")
    L.append("  a : List Rat\n  c : List Rat\n  m : List Rat\n  e : List Rat\n  alpha : List Rat\n  gamma : List Rat")
    L.append("  newF : List Bool\n  order : Rat")
    L.append("")
    for name, d in ros.items():
        s = d['stages']; nt = s * (s - 1) // 2
        sn = SHORT.get(name, name)
        L.append(f"/-- `RosenbrockSolverParameters::{name}()` : exact values of the binary64 constants -/")
        L.append(f"def {sn} : RosTable where")
        L.append(f"  stages := {s}")
        for k, n in (('a', nt), ('c', nt), ('m', s), ('e', s), ('alpha', s), ('gamma', s)):
            L.append(f"  {k} := [" + ", ".join(rat(x) for x in d[k][:n]) + "]")
        L.append("  newF := [" + ", ".join("true" if b else "false" for b in d['new_function_evaluation'][:s]) + "]")
        L.append(f"  order := {rat(d['estimator_of_local_order'])}")
        L.append("")
    L.append("/-- entries of the tables beyond the used prefix must be zero in the header (checked by the translator) -/")
    L.append("def tableNames : List String := [" + ", ".join(f'"{SHORT.get(n, n)}"' for n in ros) + "]")
    L.append("")
    d0 = next(iter(ros.values()))
    L.append("/-- member defaults of `RosenbrockSolverParameters` -/")
    for k in ("round_off", "factor_min", "factor_max", "rejection_factor_decrease", "safety_factor", "h_min", "h_max", "h_start"):
        L.append(f"def default_{k} : Rat := {rat(d0[k])}")
    L.append(f"def default_max_number_of_steps : Nat := {int(d0['max_number_of_steps'])}")
    L.append("")
    L.append("/-- literals of rosenbrock.hpp/.inl -/")
    for k, v in lits.items():
        L.append(f"def lit_{k} : Rat := {rat(v)}")
    L.append("")
    L.append("/-- backward Euler defaults -/")
    L.append(f"def be_small : Rat := {rat(be['small'])}")
    L.append(f"def be_h_start : Rat := {rat(be['h_start'])}")
    L.append(f"def be_max_number_of_steps : Nat := {int(be['max_number_of_steps'])}")
    L.append("def be_time_step_reductions : List Rat := [" + ", ".join(rat(x) for x in be['time_step_reductions']) + "]")
    L.append("")
    L.append("/-- error codes read from the headers: (enum, enumerator, code) -/")
    L.append("def errorCodes : List (String × String × Nat) := [")
    rows = []
    for en in ("MicmSolverBuilderErrc", "MicmStateErrc", "MicmMatrixErrc", "MicmProcessSetErrc", "MicmProcessErrc", "MicmSpeciesErrc"):
        for k, v in errs[en].items():
            rows.append(f'  ("{en}", "{k}", {v})')
    L.append(",\n".join(rows))
    L.append("]")
    L.append("")
    L.append("end Micm.Gen")
    return "\n".join(L) + "\n"

def load_all():
    ros = parse_rosenbrock()
    # unused tail entries must be zero (the model only reads the used prefix)
    for name, d in ros.items():
        s = d['stages']; nt = s * (s - 1) // 2
        for k, n in (('a', nt), ('c', nt), ('m', s), ('e', s)):
            if any(x != 0.0 for x in d[k][n:]):
                raise TranslatorError(f"{name}: non-zero entry of {k}_ beyond the used prefix")
    return ros, parse_be(), parse_literals(), parse_errors()

def main():
    try:
        ros, be, lits, errs = load_all()
    except TranslatorError as e:
        print("TRANSLATOR-ERROR: " + str(e))
        sys.exit(3)
    text = emit_lean(ros, be, lits, errs)
    path = os.path.join(VERIF, "lean", "Micm", "Gen", "Params.lean")
    old = open(path).read() if os.path.exists(path) else None
    if old != text:
        open(path, "w").write(text)
    print(json.dumps({"sets": list(ros.keys()), "changed": old != text}))

if __name__ == "__main__":
    main()
