#!/bin/bash
# usage: tools/sweep_thorough.sh [ids...]   -- clean-tree run of the thorough tier (false-alarm hunt, timing)
ids=${@:-C01 C02 C03 C04 C05 C06 C07 C08 C09 C10 C11 C12 C13 C14 C15 C16 C17 C18 C19 C20}
cd "$(dirname "$0")/.."
python3 tools/setup.py > /dev/null 2>&1 || { echo "SETUP FAILED"; exit 1; }
for id in $ids; do
  start=$(date +%s)
  out=$(python3 tools/check.py $id --tier thorough 2>&1 | grep -v "^WARNING")
  echo "$id $(( $(date +%s) - start ))s : $(echo "$out" | grep -c VIOLATION) violations"
  echo "$out" | grep VIOLATION | head -3
  for f in $(echo "$out" | grep -o "replay=[^ ]*" | cut -d= -f2 | head -2); do python3 -c "
import json; r=json.load(open('$f')); print('    ', str(r.get('what') or r.get('broken'))[:600]); print('    line:', str(r.get('line') or (r.get('first_differing_case') or {}).get('line'))[:300])"; done
done
