#!/usr/bin/env python3
"""setup_cmd: build everything from files on disk (offline): translator output, Lean library + driver, harness cache."""
import os, subprocess, sys
sys.path.insert(0, os.path.dirname(os.path.abspath(__file__)))
VERIF = os.path.dirname(os.path.dirname(os.path.abspath(__file__)))
import gen_lean, gen_rates, effects, specials, build_harness
def main():
    ros, be, lits, errs = gen_lean.load_all()
    text = gen_lean.emit_lean(ros, be, lits, errs)
    gp = os.path.join(VERIF, "lean", "Micm", "Gen", "Params.lean")
    os.makedirs(os.path.dirname(gp), exist_ok=True)
    if not os.path.exists(gp) or open(gp).read() != text:
        open(gp, "w").write(text)
    gen_rates.write()
    effects.write()
    specials.write()
    r = subprocess.run(["lake", "build", "Micm", "micm_model"], cwd=os.path.join(VERIF, "lean"))
    if r.returncode != 0:
        sys.exit(1)
    for Ls in ([0, 3], [0, 1, 3], [0]):
        if build_harness.build(Ls, san=1) is None:
            sys.exit(1)
    print("setup ok")
main()
