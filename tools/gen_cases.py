#!/usr/bin/env python3
"""Case generators for the correspondence run.  Every random choice comes from one SplitMix64
stream seeded by VERIF_SEED, so a disagreement replays exactly."""
import struct, math, itertools

MASK = (1 << 64) - 1

class Rng:
    def __init__(self, seed):
        self.s = seed & MASK
    def u64(self):
        self.s = (self.s + 0x9E3779B97F4A7C15) & MASK
        z = self.s
        z = ((z ^ (z >> 30)) * 0xBF58476D1CE4E5B9) & MASK
        z = ((z ^ (z >> 27)) * 0x94D049BB133111EB) & MASK
        return z ^ (z >> 31)
    def below(self, n):
        return self.u64() % n if n > 0 else 0
    def rng(self, a, b):  # inclusive
        return a + self.below(b - a + 1)
    def unit(self):
        return (self.u64() >> 11) / float(1 << 53)
    def chance(self, p):
        return self.unit() < p
    def pick(self, l):
        return l[self.below(len(l))]
    def shuffle(self, l):
        l = list(l)
        for i in range(len(l) - 1, 0, -1):
            j = self.below(i + 1)
            l[i], l[j] = l[j], l[i]
        return l
    def logu(self, lo, hi):
        return math.exp(math.log(lo) + self.unit() * (math.log(hi) - math.log(lo)))

def hexd(x):
    if x != x:
        return "nan"
    return "%016x" % struct.unpack("<Q", struct.pack("<d", float(x)))[0]

def unhex(s):
    if s == "nan":
        return float("nan")
    return struct.unpack("<d", struct.pack("<Q", int(s, 16)))[0]

PARAM0 = 1000000

def gen_mech(r, ns, nrx=None, allow_param=True, max_react=3):
    """returns list of (reactant ids, [(prod id, yield)])"""
    nrx = nrx if nrx is not None else r.rng(1, 6)
    rx = []
    for _ in range(nrx):
        nr = r.pick([0, 1, 1, 1, 2, 2, 2, 3, max_react])
        reactants = []
        for _ in range(nr):
            if reactants and r.chance(0.3):
                reactants.append(r.pick(reactants))      # repeated reactant (A + A …)
            else:
                reactants.append(r.below(ns))
        if allow_param and r.chance(0.15):
            reactants.insert(r.below(len(reactants) + 1), PARAM0 + r.below(2))
        np_ = r.pick([0, 1, 1, 2, 2, 3, 4])
        products = []
        for _ in range(np_):
            if reactants and r.chance(0.2):
                cand = [x for x in reactants if x < PARAM0]
                pid = r.pick(cand) if cand else r.below(ns)   # species on both sides
            elif allow_param and r.chance(0.08):
                pid = PARAM0 + r.below(2)                      # a parameterized (non-state) product
            else:
                pid = r.below(ns)
            y = r.pick([1.0, 1.0, 0.5, 2.0, 0.25, 0.125 * r.rng(1, 15), r.unit() * 2])
            products.append((pid, y))
        rx.append((reactants, products))
    return rx

def mech_tokens(rx):
    t = [str(len(rx))]
    for reactants, products in rx:
        t.append(str(len(reactants)))
        t += [str(x) for x in reactants]
        t.append(str(len(products)))
        for pid, y in products:
            t += [str(pid), hexd(y)]
    return t

def gen_value(r, kind="conc"):
    c = r.below(10)
    if kind == "conc":
        if c == 0: return 0.0
        if c <= 3: return float(r.rng(1, 9))
        if c <= 5: return r.unit()
        return r.logu(1e-8, 1e3)
    if kind == "rate":
        if c <= 2: return float(r.rng(1, 5))
        if c <= 4: return r.unit()
        return r.logu(1e-6, 1e4)
    if kind == "any":
        v = r.logu(1e-3, 1e3) if c > 3 else float(r.rng(1, 9))
        return -v if r.chance(0.4) else v
    raise ValueError(kind)

def gen_pattern(r, n, density=None, full_diag=True):
    density = r.unit() if density is None else density
    es = set()
    for i in range(n):
        for j in range(n):
            if (i == j and full_diag) or r.chance(density):
                es.add((i, j))
    return sorted(es)

def all_patterns(n, full_diag=True):
    off = [(i, j) for i in range(n) for j in range(n) if not (full_diag and i == j)]
    diag = [(i, i) for i in range(n)] if full_diag else []
    for bits in range(1 << len(off)):
        yield sorted(diag + [off[k] for k in range(len(off)) if bits >> k & 1])

def pairs_tokens(es):
    t = [str(len(es))]
    for a, b in es:
        t += [str(a), str(b)]
    return t

def diag_dominant_values(r, n, es, blocks):
    """values for a pattern making every block strictly diagonally dominant (non-zero pivots)"""
    out = []
    for _ in range(blocks):
        vals = {}
        for (i, j) in es:
            if i != j:
                # structurally present entries may be exactly zero (a Jacobian term with a zero concentration)
                vals[(i, j)] = 0.0 if r.chance(0.12) else gen_value(r, "any")
        for i in range(n):
            s = sum(abs(v) for (a, b), v in vals.items() if a == i) + sum(abs(v) for (a, b), v in vals.items() if b == i)
            vals[(i, i)] = (s + 1.0 + r.unit()) * (1 if r.chance(0.8) else -1)
        out += [vals[e] for e in es]
    return out

# Rosenbrock parameter sets are read from the header by the translator (gen_lean.py) and handed in
def ros_param_tokens(ps, overrides=None):
    p = dict(ps)
    if overrides:
        p.update(overrides)
    s = p["stages"]
    nt = s * (s - 1) // 2
    t = [str(s)]
    t += [hexd(x) for x in p["a"][:nt]] + [hexd(x) for x in p["c"][:nt]]
    t += [hexd(x) for x in p["m"][:s]] + [hexd(x) for x in p["e"][:s]]
    t.append(hexd(p["gamma"][0]))
    # all six entries of the std::array<bool, 6>, as the factory function leaves them (the two-stage factory fills the
    # whole array with `true`): the entries beyond `stages` must never matter
    nf = list(p["new_function_evaluation"]) + [False] * 6
    t += ["1" if b else "0" for b in nf[:6]]
    t.append(hexd(p["estimator_of_local_order"]))
    for k in ("round_off", "factor_min", "factor_max", "rejection_factor_decrease", "safety_factor", "h_min", "h_max", "h_start"):
        t.append(hexd(p[k]))
    t.append(str(int(p["max_number_of_steps"])))
    return t

def be_param_tokens(p):
    return [hexd(p["small"]), hexd(p["h_start"]), str(int(p["max_number_of_steps"])), str(len(p["time_step_reductions"]))] + \
           [hexd(x) for x in p["time_step_reductions"]]
