#!/usr/bin/env python3
"""Writes /verif/MANIFEST.json from the property registry (claimed checks) and the not-applicable list."""
import json, os, sys
sys.path.insert(0, os.path.dirname(os.path.abspath(__file__)))
VERIF = os.path.dirname(os.path.dirname(os.path.abspath(__file__)))
from claims import CLAIMS, NOT_APPLICABLE

def main():
    checks = []
    for pid, c in sorted(CLAIMS.items()):
        checks.append({
            "property_id": pid,
            "quick_cmd": f"python3 tools/check.py {pid} --tier quick",
            "thorough_cmd": f"python3 tools/check.py {pid} --tier thorough",
            "evidence_file": f"/verif/evidence/{pid}.json",
            "replay_cmd_template": f"python3 tools/check.py {pid} --replay {{path}}",
            "engine": "lean-model+correspondence",
            "level_claimed": {"category": c["category"], "text": c["text"], "design_ref": c.get("design_ref", "DESIGN.md §4 " + pid)},
            "level_note": c["note"],
            "technique": c["technique"],
        })
    import subprocess
    HOOK_COMMITS = [l.split()[0] for l in subprocess.run(["git", "-C", "/repo", "log", "--format=%H %s"], capture_output=True, text=True).stdout.splitlines() if " verif hook" in l]
    m = {
        "version": 1,
        "setup_cmd": "python3 tools/setup.py",
        "hooks": {"guard": "MICM_VERIF", "enable": "the harness is compiled with -DMICM_VERIF against /repo/include; one guarded, add-only source change exists: include/micm/jit/jit_function.hpp gains micm::verif::JitIrSink() and, in JitFunction::Generate, appends the module's textual IR to the sink when one is installed (used by the C18 program tie). Everything else is observed without source changes (tables through derived classes / pointer-to-member, integrators through wrapper policies)",
                  "baseline_off_cmd": "cmake -G Ninja -S /repo -B /repo/_build && cmake --build /repo/_build -j16 && ctest --test-dir /repo/_build -j8 --timeout 900",
                  "source_commits": HOOK_COMMITS, "add_only": True},
        "engines": [{"name": "lean-model+correspondence", "path": "/verif/lean", "serves_properties": sorted(CLAIMS.keys()),
                     "kind_free_text": "Lean 4 model (lean/Micm/Model) with property theorems (lean/Micm/Properties), header translator (tools/gen_lean.py), bit-exact C++ correspondence harness (harness/), exact-arithmetic failing-input oracles (tools/oracles.py)"}],
        "checks": checks,
        "notes": "See DESIGN.md. Theorems are re-checked by `lake build` and audited with #print axioms on every run; the model is tied to /repo's working tree by the generated Gen/Params.lean and by the differential harness rebuilt from /repo/include (content-hash cache).",
        "not_applicable": [{"property_id": k, "reason": v} for k, v in sorted(NOT_APPLICABLE.items())],
    }
    json.dump(m, open(os.path.join(VERIF, "MANIFEST.json"), "w"), indent=1)
    print("wrote MANIFEST.json with", len(checks), "checks;", len(m["not_applicable"]), "not applicable")

main()
