#!/usr/bin/env python3
"""Translator for the rate-constant formulas (C15): reads the bodies of the seven `Calculate` functions (and the
helpers / constructor initialisers they use) out of /repo/include/micm/process/*_rate_constant.hpp and emits them as
Lean definitions over the abstract transcendental operations `TOps` (lean/Micm/Gen/RateFormulas.lean).  The model's
`RateKind.calc` is defined by these generated functions, so the formulas the driver executes -- and the theorem
`calc = documented formula` -- follow the source on every run.  Anything outside the small grammar is a hard failure."""
import re, os, sys
sys.path.insert(0, os.path.dirname(os.path.abspath(__file__)))
from gen_lean import TranslatorError, strip_comments, REPO, VERIF

# ----------------------------------------------------------------------------- C++ expression -> AST
TOK = re.compile(r"\s*(?:(\d+\.\d*(?:[eE][+-]?\d+)?|\d*\.\d+(?:[eE][+-]?\d+)?|\d+[eE][+-]?\d+)|(\d+)|([A-Za-z_][A-Za-z_0-9:.]*)|(.))")

def tokenize(s):
    out = []
    pos = 0
    s = s.strip()
    while pos < len(s):
        m = TOK.match(s, pos)
        if not m: raise TranslatorError("cannot tokenize: " + s[pos:pos + 30])
        pos = m.end()
        if m.group(1) is not None: out.append(("flt", m.group(1)))
        elif m.group(2) is not None: out.append(("int", m.group(2)))
        elif m.group(3) is not None: out.append(("id", m.group(3)))
        elif m.group(4).strip(): out.append(("op", m.group(4)))
    return out

class Parser:
    def __init__(self, toks): self.t = toks; self.i = 0
    def peek(self): return self.t[self.i] if self.i < len(self.t) else (None, None)
    def eat(self, kind=None, val=None):
        k, v = self.peek()
        if (kind and k != kind) or (val and v != val): raise TranslatorError(f"expected {kind} {val}, got {k} {v}")
        self.i += 1; return v
    def expr(self):
        e = self.term()
        while self.peek() in (("op", "+"), ("op", "-")):
            op = self.eat(); e = (op, e, self.term())
        return e
    def term(self):
        e = self.unary()
        while self.peek() in (("op", "*"), ("op", "/")):
            op = self.eat(); e = (op, e, self.unary())
        return e
    def unary(self):
        if self.peek() == ("op", "-"):
            self.eat(); x = self.unary()
            if x[0] == "int": return ("int", -x[1])           # -8 is the literal minus eight
            return ("neg", x)
        if self.peek() == ("op", "+"):
            self.eat(); return self.unary()
        return self.atom()
    def atom(self):
        k, v = self.peek()
        if k == "flt": self.eat(); return ("flt", v)
        if k == "int": self.eat(); return ("int", int(v))
        if k == "id":
            self.eat()
            if self.peek() == ("op", "("):
                self.eat(); args = []
                if self.peek() != ("op", ")"):
                    args.append(self.expr())
                    while self.peek() == ("op", ","): self.eat(); args.append(self.expr())
                self.eat("op", ")")
                return ("call", v, args)
            return ("id", v)
        if (k, v) == ("op", "("):
            self.eat(); e = self.expr(); self.eat("op", ")"); return ("par", e)
        raise TranslatorError(f"unexpected token {k} {v}")

def parse_expr(s):
    s = re.sub(r"\(\s*double\s*\)", "", s)                     # C casts to double
    p = Parser(tokenize(s)); e = p.expr()
    if p.i != len(p.t): raise TranslatorError("trailing tokens in expression: " + s)
    return e

FUNCS = {"std::exp": "t.exp", "std::pow": "t.pow", "std::log10": "t.log10", "std::sqrt": "t.sqrt"}

def emit(e, names, calls):
    k = e[0]
    if k == "flt":
        v = float(e[1])
        if v == 1.0: return "1"
        if v == 0.0: return "0"
        return f"t.lit {e[1] if ('.' in e[1] and not e[1].endswith('.')) else repr(v)}"
    if k == "int": return f"t.ofInt {e[1]}" if e[1] >= 0 else f"t.ofInt ({e[1]})"
    if k == "id":
        if e[1] not in names: raise TranslatorError("unknown identifier in a rate-constant formula: " + e[1])
        return names[e[1]]
    if k == "par": return "(" + emit(e[1], names, calls) + ")"
    if k == "neg": return "-" + atomic(e[1], names, calls)
    if k in "+-*/": return f"{emit_l(e[1], k, names, calls)} {k} {emit_r(e[2], k, names, calls)}"
    if k == "call":
        if e[1] in FUNCS: f = FUNCS[e[1]]
        elif e[1] in calls: f = calls[e[1]]
        else: raise TranslatorError("unknown function in a rate-constant formula: " + e[1])
        return f + " " + " ".join(atomic(a, names, calls) for a in e[2])
    raise TranslatorError("bad node " + str(e))

def atomic(e, names, calls):
    s = emit(e, names, calls)
    return s if re.fullmatch(r"[A-Za-z_0-9.']+", s) else "(" + s + ")"

PREC = {"+": 1, "-": 1, "*": 2, "/": 2}
def emit_l(e, op, names, calls):
    s = emit(e, names, calls)
    if e[0] in PREC and PREC[e[0]] < PREC[op]: return "(" + s + ")"
    if e[0] == "call" or e[0] == "neg": return s if e[0] == "neg" else s
    return s
def emit_r(e, op, names, calls):
    s = emit(e, names, calls)
    if e[0] in PREC and (PREC[e[0]] < PREC[op] or (PREC[e[0]] == PREC[op])): return "(" + s + ")"
    if e[0] == "neg": return "(" + s + ")"
    return s

# ----------------------------------------------------------------------------- function bodies
def body_of(src, signature_regex, what):
    m = re.search(signature_regex + r"\s*(?:const)?\s*\{", src, re.S)
    if not m: raise TranslatorError("function not found: " + what)
    i = m.end(); depth = 1; j = i
    while depth and j < len(src):
        depth += {"{": 1, "}": -1}.get(src[j], 0); j += 1
    return src[i:j - 1]

def statements(body):
    """`double x = e;` / `const double x = e;` / `return e;` / `if (cond) { return e; }`"""
    out = []
    b = " ".join(body.split())
    while b:
        m = re.match(r"(?:const )?double (\w+) = ([^;]*);\s*", b)
        if m: out.append(("let", m.group(1), m.group(2))); b = b[m.end():]; continue
        m = re.match(r"return ([^;]*);\s*", b)
        if m: out.append(("ret", m.group(1))); b = b[m.end():]; continue
        m = re.match(r"if \(([^{]*)\) \{ return ([^;]*); \}\s*", b)
        if m: out.append(("ifret", m.group(1).strip(), m.group(2))); b = b[m.end():]; continue
        raise TranslatorError("unrecognised statement in a rate-constant formula: " + b[:80])
    return out

def lean_body(stmts, names, calls, conds=None):
    names = dict(names); lines = []
    pending_if = None
    for st in stmts:
        if st[0] == "let":
            lines.append(f"  let {st[1]} := {emit(parse_expr(st[2]), names, calls)}")
            names[st[1]] = st[1]
        elif st[0] == "ifret":
            if conds is None or st[1] not in conds: raise TranslatorError("unknown condition: " + st[1])
            pending_if = (conds[st[1]], emit(parse_expr(st[2]), names, calls))
        else:
            r = emit(parse_expr(st[1]), names, calls)
            lines.append(f"  if {pending_if[0]} then {pending_if[1]} else {r}" if pending_if else "  " + r)
            pending_if = None
    return "\n".join(lines)

def wrapper_args(src, cls, nargs):
    """`Calculate(conditions, custom_parameters)` forwards `Calculate(conditions.a_, conditions.b_)`: which fields, in order"""
    b = body_of(src, r"inline double " + cls + r"::Calculate\(\s*const Conditions& conditions,\s*std::vector<double>::const_iterator custom_parameters\)", cls + "::Calculate(conditions, custom_parameters)")
    m = re.search(r"Calculate\(([^)]*)\)", b)
    if not m: raise TranslatorError(cls + ": the two-argument Calculate does not forward")
    fields = [a.strip() for a in m.group(1).split(",")]
    ok = {"conditions.temperature_": "c.temperature", "conditions.pressure_": "c.pressure", "conditions.air_density_": "c.airDensity"}
    if len(fields) != nargs or any(f not in ok for f in fields): raise TranslatorError(cls + ": unexpected forwarding " + m.group(1))
    return [ok[f] for f in fields]

def load_src(name):
    return strip_comments(open(os.path.join(REPO, "include/micm/process", name)).read())

def generate():
    out = []
    P = lambda *xs: {("parameters_." + x): x.replace("_", "") for x in xs}
    # ---- Arrhenius
    src = load_src("arrhenius_rate_constant.hpp")
    st = statements(body_of(src, r"inline double ArrheniusRateConstant::Calculate\(const double& temperature, const double& pressure\)", "Arrhenius Calculate(T, P)"))
    names = {**P("A_", "B_", "C_", "D_", "E_"), "temperature": "temperature", "pressure": "pressure"}
    out.append("def arrheniusCalc (t : TOps α) (A B C D E temperature pressure : α) : α :=\n" + lean_body(st, names, {}))
    arr_args = wrapper_args(src, "ArrheniusRateConstant", 2)
    # ---- Troe / ternary chemical activation
    fw = {}
    for cls, fn, header in (("TroeRateConstant", "troeCalc", "troe_rate_constant.hpp"),
                            ("TernaryChemicalActivationRateConstant", "ternaryCalc", "ternary_chemical_activation_rate_constant.hpp")):
        src = load_src(header)
        st = statements(body_of(src, r"inline double " + cls + r"::Calculate\(const double& temperature, const double& air_number_density\)", cls + " Calculate(T, air)"))
        names = {**P("k0_A_", "k0_B_", "k0_C_", "kinf_A_", "kinf_B_", "kinf_C_", "Fc_", "N_"), "temperature": "temperature", "air_number_density": "air"}
        out.append(f"def {fn} (t : TOps α) (k0A k0B k0C kinfA kinfB kinfC Fc N temperature air : α) : α :=\n" + lean_body(st, names, {}))
        fw[fn] = wrapper_args(src, cls, 2)
    # ---- Branched
    src = load_src("branched_rate_constant.hpp")
    stA = statements(body_of(src, r"inline double BranchedRateConstant::A\(const double& temperature, const double& air_number_density\)", "Branched A(T, air)"))
    out.append("def branchedA (t : TOps α) (k0 temperature air : α) : α :=\n" +
               lean_body(stA, {"k0_": "k0", "temperature": "temperature", "air_number_density": "air"}, {}))
    m = re.search(r"BranchedRateConstant::BranchedRateConstant\(const BranchedRateConstantParameters& parameters\)\s*:\s*parameters_\(parameters\),\s*k0_\((.*?)\),\s*z_\((.*?)\)\s*\{", src, re.S)
    if not m: raise TranslatorError("Branched constructor initialisers not found")
    cn = {"constants::AVOGADRO_CONSTANT": "avogadro", "parameters_.n_": "(t.ofInt n)", "parameters_.a0_": "a0"}
    out.append("def branchedK0 (t : TOps α) (avogadro : α) (n : Int) : α :=\n  " + emit(parse_expr(" ".join(m.group(1).split())), cn, {}))
    out.append("def branchedZ (t : TOps α) (avogadro k0 a0 : α) : α :=\n  " + emit(parse_expr(" ".join(m.group(2).split())), cn, {"A": "branchedA t k0"}))
    stC = statements(body_of(src, r"inline double BranchedRateConstant::Calculate\(const double& temperature, const double& air_number_density\)", "Branched Calculate(T, air)"))
    names = {**P("X_", "Y_"), "z_": "z", "temperature": "temperature", "air_number_density": "air"}
    out.append("def branchedCalc (t : TOps α) (alkoxy : Bool) (X Y k0 z temperature air : α) : α :=\n" +
               lean_body(stC, names, {"A": "branchedA t k0"}, conds={"parameters_.branch_ == BranchedRateConstantParameters::Branch::Alkoxy": "alkoxy"}))
    fw["branchedCalc"] = wrapper_args(src, "BranchedRateConstant", 2)
    # ---- Tunneling
    src = load_src("tunneling_rate_constant.hpp")
    st = statements(body_of(src, r"inline double TunnelingRateConstant::Calculate\(const double& temperature\)", "Tunneling Calculate(T)"))
    out.append("def tunnelingCalc (t : TOps α) (A B C temperature : α) : α :=\n" + lean_body(st, {**P("A_", "B_", "C_"), "temperature": "temperature"}, {}))
    fw["tunnelingCalc"] = wrapper_args(src, "TunnelingRateConstant", 1)
    # ---- Surface (reads its two custom parameters through the iterator)
    src = load_src("surface_rate_constant.hpp")
    b = body_of(src, r"inline double SurfaceRateConstant::Calculate\(\s*const Conditions& conditions,\s*std::vector<double>::const_iterator custom_parameters\)", "Surface Calculate")
    k = [0]
    def adv(_): k[0] += 1; return f"P{k[0] - 1}"
    b = re.sub(r"\*\(custom_parameters\+\+\)", adv, b)
    b = re.sub(r"\*\(custom_parameters\)|\*custom_parameters", lambda _: f"P{k[0]}", b)
    st = statements(b)
    names = {"mean_free_speed_factor_": "mfs", "diffusion_coefficient_": "diff", "parameters_.reaction_probability_": "prob",
             "conditions.temperature_": "temperature", "M_PI": "pi", "P0": "p0", "P1": "p1"}
    out.append("def surfaceCalc (t : TOps α) (pi diff mfs prob temperature p0 p1 : α) : α :=\n" + lean_body(st, names, {}))
    # ---- User defined
    src = load_src("user_defined_rate_constant.hpp")
    b = body_of(src, r"inline double UserDefinedRateConstant::Calculate\(\s*const Conditions& conditions,\s*std::vector<double>::const_iterator custom_parameters\)", "UserDefined Calculate")
    b = re.sub(r"\*\(custom_parameters\)|\*custom_parameters", "P0", b)
    out.append("def userDefinedCalc (scale p0 : α) : α :=\n" + lean_body(statements(b), {"parameters_.scaling_factor_": "scale", "P0": "p0"}, {}))
    # ---- forwarding of the conditions' fields
    fwd = (f"/-- which fields of `Conditions` each two-argument `Calculate` forwards, in order -/\n"
           f"def arrheniusArgs (c : Conditions α) : α × α := ({arr_args[0]}, {arr_args[1]})\n"
           f"def troeArgs (c : Conditions α) : α × α := ({fw['troeCalc'][0]}, {fw['troeCalc'][1]})\n"
           f"def ternaryArgs (c : Conditions α) : α × α := ({fw['ternaryCalc'][0]}, {fw['ternaryCalc'][1]})\n"
           f"def branchedArgs (c : Conditions α) : α × α := ({fw['branchedCalc'][0]}, {fw['branchedCalc'][1]})\n"
           f"def tunnelingArgs (c : Conditions α) : α := {fw['tunnelingCalc'][0]}")
    head = ("/- GENERATED by tools/gen_rates.py from /repo/include/micm/process/*_rate_constant.hpp -- do not edit.\n"
            "   The bodies of the `Calculate` functions, their helpers and constructor initialisers, over abstract\n"
            "   transcendental operations. -/\nimport Micm.Model.RateOps\nnamespace Micm.Gen\nsection\n"
            "variable {α : Type} [OfNat α 0] [OfNat α 1] [Add α] [Sub α] [Mul α] [Div α] [Neg α]\n\n")
    return head + "\n\n".join(out) + "\n\n" + fwd + "\n\nend\nend Micm.Gen\n"

def write():
    text = generate()
    gp = os.path.join(VERIF, "lean", "Micm", "Gen", "RateFormulas.lean")
    if not os.path.exists(gp) or open(gp).read() != text:
        open(gp, "w").write(text)
    return text

if __name__ == "__main__":
    print(write())
