#!/usr/bin/env python3
"""Per-property case generators, oracles and metadata used by check.py."""
import os, json, math, itertools, struct
from fractions import Fraction as F
import gen_cases as G
from gen_cases import Rng, hexd, unhex, PARAM0
import oracles as O
from oracles import parse_kv, is_err

VERIF = os.path.dirname(os.path.dirname(os.path.abspath(__file__)))

class Case:
    def __init__(self, line, meta=None, kind="", oracle=None, compare=True, tags=(), nontrivial=True,
                 model_line=None, group=None, drift_ok=None):
        self.line = line
        self.meta = meta or {}
        self.kind = kind
        self.oracle = oracle
        self.compare = compare
        self.tags = list(tags)
        self.nontrivial = nontrivial
        self.model_line = model_line
        self.group = group
        self.drift_ok = drift_ok
        self.impl_out = None
        self.model_out = None

def meta_to_json(x):
    """JSON-safe encoding that keeps tuples and non-string dict keys (replays must rebuild the exact meta)"""
    if isinstance(x, tuple):
        return {"__tuple__": [meta_to_json(v) for v in x]}
    if isinstance(x, list):
        return [meta_to_json(v) for v in x]
    if isinstance(x, (set, frozenset)):
        return {"__set__": [meta_to_json(v) for v in sorted(x, key=repr)]}
    if isinstance(x, dict):
        if all(isinstance(k, str) for k in x):
            return {k: meta_to_json(v) for k, v in x.items()}
        return {"__dict__": [[meta_to_json(k), meta_to_json(v)] for k, v in x.items()]}
    if isinstance(x, float) and (x != x or x in (float("inf"), float("-inf"))):
        return {"__float__": repr(x)}
    if isinstance(x, (int, float, str, bool)) or x is None:
        return x
    from fractions import Fraction
    if isinstance(x, Fraction):
        return {"__fraction__": [str(x.numerator), str(x.denominator)]}
    return {"__repr__": repr(x)}

def meta_from_json(x):
    if isinstance(x, list):
        return [meta_from_json(v) for v in x]
    if isinstance(x, dict):
        if "__tuple__" in x: return tuple(meta_from_json(v) for v in x["__tuple__"])
        if "__set__" in x: return set(meta_from_json(v) for v in x["__set__"])
        if "__dict__" in x: return {meta_from_json(k): meta_from_json(v) for k, v in x["__dict__"]}
        if "__float__" in x: return float(x["__float__"])
        if "__fraction__" in x:
            from fractions import Fraction
            return Fraction(int(x["__fraction__"][0]), int(x["__fraction__"][1]))
        if "__repr__" in x: return x["__repr__"]
        return {k: meta_from_json(v) for k, v in x.items()}
    return x

def oracle_name(f):
    if f is None:
        return None
    return f"{getattr(f, '__module__', 'props')}.{getattr(f, '__name__', '?')}"

def resolve_oracle(name):
    """inverse of oracle_name for module-level functions of props / oracles (lambdas and closures do not replay)"""
    if not name:
        return None
    mod, _, fn = name.rpartition(".")
    import sys
    m = sys.modules.get(mod) or sys.modules.get("props")
    return getattr(m, fn, None) or getattr(sys.modules.get("props"), fn, None) or getattr(sys.modules.get("oracles"), fn, None)

def same_output(io, mo, c):
    return io == mo

def corpus_cases(pid):
    d = os.path.join(VERIF, "corpus", pid)
    out = []
    if os.path.isdir(d):
        for f in sorted(os.listdir(d)):
            if f.endswith(".case"):
                for ln in open(os.path.join(d, f)):
                    ln = ln.strip()
                    if ln and not ln.startswith("#"):
                        out.append(Case(ln, {}, "corpus", tags=["corpus"]))
    return out

def Fr(x):
    return F(x)

# =============================================================================== generators
def layouts(Ls):
    return Ls

def signed_states(r, y, ncell, ns):
    """un-clamped states (Rosenbrock stage vectors, user input): per cell, some concentrations slightly or wholly
    negative, some exactly zero -- so reaction rates are negative in some cells and zero in their neighbours"""
    y = list(y)
    for c in range(ncell):
        mode = r.below(4)
        if mode == 0: continue
        for i in range(ns):
            z = r.below(10)
            if mode == 1 and z < 5: y[c * ns + i] = 0.0
            elif mode == 2 and z < 5: y[c * ns + i] = -abs(y[c * ns + i]) if y[c * ns + i] else -1.0
            elif mode == 3:
                if z < 3: y[c * ns + i] = 0.0
                elif z < 6: y[c * ns + i] = -abs(y[c * ns + i]) if y[c * ns + i] else -0.5
    return y

def gen_forcing(r, Ls, n):
    cs = []
    for _ in range(n):
        L = r.pick(Ls); ns = r.rng(1, 6); ncell = r.rng(1, 3 * max(L, 1) + 1)
        perm = r.shuffle(range(ns))
        rx = G.gen_mech(r, ns)
        exact = r.chance(0.4)
        if exact:   # small integers / dyadic: the comparison with the rate law is exact
            k = [float(r.rng(1, 4)) for _ in range(ncell * len(rx))]
            y = [float(r.rng(0, 5)) for _ in range(ncell * ns)]
            f0 = [float(r.rng(-3, 3)) for _ in range(ncell * ns)]
        else:
            k = [G.gen_value(r, "rate") for _ in range(ncell * len(rx))]
            y = [G.gen_value(r, "conc") for _ in range(ncell * ns)]
            f0 = [G.gen_value(r, "any") if r.chance(0.5) else 0.0 for _ in range(ncell * ns)]
        if rx and r.chance(0.25):
            q = r.below(len(rx)); every = r.chance(0.6)
            for c in range(ncell):
                if every or r.chance(0.5): k[c * len(rx) + q] = 0.0
        if r.chance(0.3):
            y = signed_states(r, y, ncell, ns)
        line = " ".join(["forcing", str(L), str(ncell), str(ns)] + [str(x) for x in perm] + G.mech_tokens(rx) + [hexd(v) for v in k + y + f0])
        meta = dict(L=L, ns=ns, ncell=ncell, perm=perm, rx=rx, k=[F(v) for v in k], y=[F(v) for v in y], f0=[F(v) for v in f0])
        tags = ["L=%d" % L]
        if L and ncell % L: tags.append("partial_group")
        if any(len(set(a)) < len(a) for a, _ in rx): tags.append("repeated_reactant")
        if any(x >= PARAM0 for a, _ in rx for x in a): tags.append("third_body")
        if any(set(a) & {p for p, _ in b} for a, b in rx): tags.append("both_sides")
        cs.append(Case(line, meta, "forcing", oracle=O.check_forcing, tags=tags, nontrivial=len(rx) > 0))
    return cs

def gen_jacobian(r, Ls, n):
    cs = []
    for _ in range(n):
        L = r.pick(Ls); csc = r.below(2); ns = r.rng(1, 6); ncell = r.rng(1, 3 * max(L, 1) + 1)
        perm = r.shuffle(range(ns))
        rx = G.gen_mech(r, ns)
        if r.chance(0.4):
            k = [float(r.rng(1, 4)) for _ in range(ncell * len(rx))]
            y = [float(r.rng(0, 5)) for _ in range(ncell * ns)]
        else:
            k = [G.gen_value(r, "rate") for _ in range(ncell * len(rx))]
            y = [G.gen_value(r, "conc") for _ in range(ncell * ns)]
        if rx and r.chance(0.3):
            # a reaction switched off (rate constant exactly 0, e.g. photolysis at night) in every cell or in some cells
            q = r.below(len(rx)); every = r.chance(0.6)
            for c in range(ncell):
                if every or r.chance(0.5): k[c * len(rx) + q] = 0.0
        if r.chance(0.3):
            y = signed_states(r, y, ncell, ns)
        rest = [str(x) for x in perm] + G.mech_tokens(rx) + [hexd(v) for v in k + y]
        line = " ".join(["jacobian", str(ncell), str(ns), str(csc), str(L)] + rest)
        meta = dict(L=L, csc=csc, ns=ns, ncell=ncell, perm=perm, rx=rx, k=[F(v) for v in k], y=[F(v) for v in y])
        tags = ["L=%d" % L, "csc" if csc else "csr"]
        if L and r.chance(0.35):
            # mixed configuration (supported: the scalar kernel is selected): VectorMatrix<L> dense data with a
            # STANDARD-ordered sparse Jacobian -- what CpuSolverBuilder<Params, VectorMatrix<double, L>> builds by default.
            # The logical result is that of the standard ordering, so the model runs the same case with sparse L = 0.
            c = Case(" ".join(["jacobianmix", str(ncell), str(ns), str(csc), str(L)] + rest), meta, "jacobian", oracle=O.check_jacobian,
                     tags=tags + ["dense_vector+sparse_standard"], model_line=" ".join(["jacobian", str(ncell), str(ns), str(csc), "0"] + rest))
            cs.append(c)
            continue
        if L and ncell % L: tags.append("partial_group")
        if any(len(set(a)) < len(a) for a, _ in rx): tags.append("repeated_reactant")
        cs.append(Case(line, meta, "jacobian", oracle=O.check_jacobian, tags=tags))
    return cs

def lu_case(r, kind, L, csc, n, blocks, es, garbage=None):
    av = G.diag_dominant_values(r, n, es, blocks)
    b = [G.gen_value(r, "any") for _ in range(blocks * n)]
    if r.chance(0.35):
        # right-hand sides with exact zeros, placed differently from block to block (inactive species in some cells)
        b = [0.0 if r.chance(0.5) else v for v in b]
    if r.chance(0.15):
        # badly scaled but perfectly conditioned systems: pivots far below machine epsilon (or huge) in absolute terms
        sc = r.pick([2.0 ** -60, 1e-17, 1e-30, 1e-150, 1e20, 1e150])
        av = [v * sc for v in av]
        if r.chance(0.5): b = [v * sc for v in b]
    g = garbage if garbage is not None else r.pick([0.0, 7.5, -3.25, float("nan"), 1e300])
    line = " ".join(["lu", str(kind), str(n), str(csc), str(L), str(blocks)] + G.pairs_tokens(es) + [hexd(v) for v in av] + [hexd(g)] + [hexd(v) for v in b])
    meta = dict(kind=kind, L=L, csc=csc, n=n, blocks=blocks, es=es, A=[F(v) for v in av], b=[F(v) for v in b])
    offd = [e for e in es if e[0] != e[1]]
    tags = ["kind=%d" % kind, "L=%d" % L, "csc" if csc else "csr"]
    if L and blocks % L: tags.append("partial_group")
    return Case(line, meta, "lu", oracle=O.check_lu, tags=tags, nontrivial=len(offd) > 0)

def gen_lu(r, Ls, n_random, exhaustive_n):
    cs = []
    # exhaustive small patterns (each with a random configuration)
    for n in range(1, exhaustive_n + 1):
        for es in G.all_patterns(n):
            kind = r.below(4); L = r.pick(Ls); csc = r.below(2); blocks = r.rng(1, 2 * max(L, 1) + 1)
            c = lu_case(r, kind, L, csc, n, blocks, es)
            c.tags.append("exhaustive_n=%d" % n)
            cs.append(c)
    for _ in range(n_random):
        kind = r.below(4); L = r.pick(Ls); csc = r.below(2); n = r.rng(2, 9); blocks = r.rng(1, 2 * max(L, 1) + 1)
        es = G.gen_pattern(r, n, density=r.unit() * 0.5)
        cs.append(lu_case(r, kind, L, csc, n, blocks, es))
    # many blocks of a small system: block counts around and beyond the flat size of a group (L * nnz), where a
    # group offset confused with a block count stops wrapping around
    for _ in range(max(20, n_random // 5)):
        kind = r.below(4); L = r.pick(Ls); csc = r.below(2); n = r.rng(1, 3)
        es = G.gen_pattern(r, n, density=r.unit() * 0.6)
        nnz = len(fill_closure(n, es))
        gs = max(L, 1) * max(nnz, 1)
        blocks = r.pick([gs, gs + 1, gs + max(L, 1), 2 * gs, 2 * gs + 1, r.rng(gs, 3 * gs + 2), max(L, 1) * n, max(L, 1) * n + 1])
        c = lu_case(r, kind, L, csc, n, min(blocks, 64), es)
        c.tags.append("many_blocks")
        cs.append(c)
    return cs

ROS_NAMES = ["TwoStageRosenbrockParameters", "ThreeStageRosenbrockParameters", "FourStageRosenbrockParameters",
             "FourStageDifferentialAlgebraicRosenbrockParameters", "SixStageDifferentialAlgebraicRosenbrockParameters"]

def stiff_mech(r, ns):
    """mechanisms that tend to force rejections: fast and slow reactions"""
    rx = G.gen_mech(r, ns, nrx=r.rng(2, 5), allow_param=False)
    return rx

def solve_line(integ, L, csc, kind, clamp, ncell, ns, perm, rx, k, y, atol, rtol, dt, trace, ptoks):
    return " ".join(["solve", str(integ), str(L), str(csc), str(kind), str(clamp), str(ncell), str(ns)] + [str(x) for x in perm] +
                    G.mech_tokens(rx) + [hexd(v) for v in list(k) + list(y) + list(atol)] + [hexd(rtol), hexd(dt), str(trace)] + ptoks)

def gen_solve_problem(r, env, Ls, integ=None, stiff=False, big_hstart=False, conserve=False, maxns=5):
    integ = (0 if r.chance(0.7) else 1) if integ is None else integ
    L = r.pick(Ls); csc = r.below(2); kind = r.below(4)
    ns = r.rng(2 if conserve else 1, maxns); ncell = r.rng(1, 2 * max(L, 1) + 1)
    perm = r.shuffle(range(ns))
    if conserve:
        rx, w = conserving_mech(r, ns)
    else:
        rx = G.gen_mech(r, ns, allow_param=True); w = None
    nrx = len(rx)
    if stiff:
        k = [r.logu(1e-3, 1e7) for _ in range(ncell * nrx)]
    else:
        k = [G.gen_value(r, "rate") for _ in range(ncell * nrx)]
    if nrx and r.chance(0.2):
        q = r.below(nrx)
        for c in range(ncell): k[c * nrx + q] = 0.0
    y = [G.gen_value(r, "conc") for _ in range(ncell * ns)]
    atol = [r.pick([1e-3, 1e-6, 1e-12]) for _ in range(ns)]
    rtol = r.pick([1e-3, 1e-6, 1e-8])
    dt = r.logu(1e-3, 1e4)
    pname = None
    if integ == 0:
        pname = r.pick(ROS_NAMES)
        ov = {}
        if big_hstart or r.chance(0.5):
            ov["h_start"] = r.logu(1e1, 1e5) if big_hstart else r.logu(1e-3, 1e4)
        if r.chance(0.2):
            # user-edited parameter set: any pattern of re-used function evaluations (stage 0 always evaluates)
            st = env["ros"][pname]["stages"]
            ov["new_function_evaluation"] = [True] + [r.chance(0.5) for _ in range(5)]
        if r.chance(0.25):
            # user-chosen controller parameters
            if r.chance(0.5): ov["h_min"] = r.logu(1e-8, 1e-1)
            if r.chance(0.5): ov["h_max"] = r.logu(1e-2, 1e3)
            if r.chance(0.3): ov["factor_min"] = r.pick([0.1, 0.25, 0.5])
            if r.chance(0.3): ov["factor_max"] = r.pick([1.5, 2.0, 10.0])
            if r.chance(0.3): ov["rejection_factor_decrease"] = r.pick([0.05, 0.2, 0.5])
            if r.chance(0.3): ov["max_number_of_steps"] = r.rng(1, 40)
        ptoks = G.ros_param_tokens(env["ros"][pname], ov)
    else:
        b = dict(env["be"])
        if r.chance(0.4):
            # user-chosen (non-dyadic) initial step, reduction factors, iteration limit
            if r.chance(0.6): b["h_start"] = dt * r.pick([0.2, 0.3, 0.45, 0.6, 0.8, r.unit()])
            if r.chance(0.4): b["time_step_reductions"] = [r.pick([0.5, 0.6, 0.3, 0.1]) for _ in range(5)]
            if r.chance(0.3): b["max_number_of_steps"] = r.rng(2, 6)
        ptoks = G.be_param_tokens(b)
    return dict(integ=integ, L=L, csc=csc, kind=kind, ns=ns, ncell=ncell, perm=perm, rx=rx, k=k, y=y, atol=atol, rtol=rtol,
                dt=dt, ptoks=ptoks, pname=pname, w=w)

def problem_line(p, clamp=1, trace=8, **over):
    q = dict(p); q.update(over)
    return solve_line(q["integ"], q["L"], q["csc"], q["kind"], clamp, q["ncell"], q["ns"], q["perm"], q["rx"], q["k"], q["y"],
                      q["atol"], q["rtol"], q["dt"], trace, q["ptoks"])

def bsolve_line(p, reorder, clamp=1, trace=0, **over):
    """the by-name end-to-end variant of `solve`: tolerances as species properties (negative = none), builder reordering"""
    q = dict(p); q.update(over)
    toks = solve_line(q["integ"], q["L"], q["csc"], q["kind"], clamp, q["ncell"], q["ns"], q["perm"], q["rx"], q["k"], q["y"],
                      q["atol"], q["rtol"], q["dt"], trace, q["ptoks"]).split(" ")
    return " ".join(["bsolve"] + toks[1:5] + [str(int(reorder))] + toks[5:])

def oracle_bsolve(c, out):
    """build + solve through the public by-name interface: the name map is a bijection, and every species got the
    absolute tolerance declared for it (1e-3 when none was declared), whatever reordering the builder chose"""
    cmd, d = parse_kv(out or "")
    if cmd != "solve":
        return f"Build/Solve outcome '{(out or '')[:80]}'"
    m = c.meta
    col = [int(x) for x in d.get("col", [])]
    if sorted(col) != list(range(m["ns"])):
        return f"the name map {col} of the built solver is not a bijection onto 0..{m['ns'] - 1}"
    got = [unhex(v) for v in d.get("atol", [])]
    for i, a in enumerate(m["atol"]):
        want = a if a >= 0 else 1e-3
        if i >= len(got) or got[i] != want:
            return (f"absolute tolerance of species s{i} is {got[i] if i < len(got) else None!r}, declared {('%r' % a) if a >= 0 else 'none (default 1e-3)'} "
                    f"(reorder={m['reorder']}, listing order {m['perm']}, state column {col[i]})")
    # reaction stoichiometry refers to the named species: the forcing of the BUILT solver at the initial state, read per
    # species name, is the mass-action law of the mechanism as declared (exact rationals, rounding envelope)
    f0 = d.get("f0")
    vals = list(m["k"]) + list(m["y"])
    if f0 is not None and all(v == v and abs(v) != float("inf") for v in vals):
        ns, ncell = m["ns"], m["ncell"]
        exp, env = O.mass_action(m["rx"], list(range(ns)), m["k"], m["y"], [0.0] * (ns * ncell), ncell, ns)
        for i, (g, e, b) in enumerate(zip(f0, exp, env)):
            gv = O.fr(g)
            if gv is None:
                continue
            if abs(gv - e) > b:
                return (f"forcing of the built solver for species s{i % ns} in cell {i // ns} is {float(gv)!r}; the mass-action law of the declared mechanism "
                        f"gives {float(e)!r} (envelope {float(b):.3e}; reorder={m['reorder']}, listing order {m['perm']})")
    return None

def gen_bsolve_groups(r, env, Ls, n, tag):
    """one problem solved by name with reordering off/on and the species listed in different orders (and, for C12,
    in different storage configurations): same per-species concentrations up to rounding when the histories agree"""
    cs = []
    for gid in range(n):
        p = gen_solve_problem(r, env, Ls, stiff=r.chance(0.5), maxns=6)
        ns = p["ns"]
        p["atol"] = [r.pick([1e-3, 1e-6, 1e-9, 1e-12, -1.0]) for _ in range(ns)]
        variants = [(0, list(range(ns)), p["L"], p["csc"], p["kind"])]
        for _ in range(3):
            variants.append((r.below(2), r.shuffle(range(ns)), r.pick(Ls), r.below(2), r.below(4)))
        variants.append((1, list(range(ns)), p["L"], p["csc"], p["kind"]))
        first = True
        for (reorder, perm, L, csc, kind) in variants:
            meta = dict(p); meta.update(reorder=reorder, perm=perm, L=L, csc=csc, kind=kind, cfg=f"reorder{reorder}/order{perm}/L{L}/csc{csc}/lu{kind}")
            cs.append(Case(bsolve_line(p, reorder, perm=perm, L=L, csc=csc, kind=kind), meta, "bsolve", oracle=oracle_bsolve,
                           group=((tag, gid), grp_cross_config), tags=["bsolve", "reorder=%d" % reorder]))
            if first:
                cs.append(noise_twin(p, meta, lambda q: bsolve_line(q, reorder, perm=perm, L=L, csc=csc, kind=kind), "bsolve", (tag, gid)))
                first = False
    return cs

def parse_solve(out):
    cmd, d = parse_kv(out)
    if cmd != "solve":
        return None
    st = [int(x) for x in d["stats"][0].split(",")]
    return dict(status=d["status"][0], final=unhex(d["final"][0]), stats=dict(zip(["f", "j", "steps", "acc", "rej", "dec", "sol"], st)),
                y=[unhex(v) for v in d.get("y", [])], ntrace=out.count("["))

def max_consecutive_rejections(out):
    # not directly visible; approximated through stats: rejected count
    s = parse_solve(out)
    return s["stats"]["steps"] - s["stats"]["acc"] if s else 0

# ---- oracles on solve outputs
def oracle_c06(c, out):
    s = parse_solve(out) if out else None
    if s is None:
        return f"Solve did not return a result: '{(out or '')[:80]}'"
    m = c.meta
    dt = m["dt"]
    st = s["stats"]
    stages = m.get("stages")
    if not (0.0 <= s["final"] <= dt * (1 + 4e-16)):
        return f"final_time {s['final']!r} outside [0, time_step={dt!r}]"
    if s["status"] in ("NotYetCalled", "Running") and dt > 0:
        return (f"Solve(time_step={dt!r}) returned status {s['status']} with final_time {s['final']!r} and {st['steps']} attempts: the call reports no outcome "
                f"and makes no progress, so the documented continuation loop (call Solve again with the remainder) never terminates")
    if s["status"] == "Converged":
        if abs(s["final"] - dt) > 8 * 2.220446049250313e-16 * dt:
            return f"status Converged but final_time {s['final']!r} != time_step {dt!r}" + (" (no progress: zero steps)" if st["steps"] == 0 else "")
    if m["integ"] == 0:
        if st["dec"] != st["steps"]:
            return f"decompositions {st['dec']} != attempted steps {st['steps']}"
        if stages and st["sol"] != stages * st["steps"]:
            return f"solves {st['sol']} != stages*attempts {stages * st['steps']}"
        if st["rej"] > st["steps"] - st["acc"]:
            return f"rejected {st['rej']} exceeds attempts not accepted {st['steps'] - st['acc']}"
        if st["acc"] > st["steps"]:
            return "accepted exceeds attempts"
        # forcing evaluations actually performed: one per started step + one per attempt and evaluating stage (stages
        # 1..s-1 with new_function_evaluation set); steps started = Jacobian evaluations minus, for the in-place LU
        # variants, the re-evaluations after rejections
        P = decode_ros_full(m["ptoks"])
        n_eval = sum(1 for q in range(1, P["stages"]) if P["newf"][q])
        bad_exit = 1 if s["status"] in ("NaNDetected", "InfDetected") else 0
        started = st["j"] - ((st["steps"] - st["acc"] - bad_exit) if m["kind"] >= 2 else 0)
        if st["f"] != started + st["steps"] * n_eval:
            return (f"function_calls {st['f']} but {started} steps were started and {st['steps']} attempts with {n_eval} evaluating stage(s) each were made "
                    f"= {started + st['steps'] * n_eval} forcing evaluations ({P['stages']}-stage set, new_function_evaluation {P['newf']})")
    else:
        if not (st["f"] == st["j"] == st["dec"] == st["sol"] == st["steps"]):
            return f"backward Euler counters disagree: {st}"
    return None

def oracle_c10(c, out):
    s = parse_solve(out) if out else None
    if s is None:
        return f"Solve did not return a result: '{(out or '')[:80]}'"
    m = c.meta
    if m.get("clamp", 1) and any(v < 0 for v in s["y"]):
        return "negative concentration after Solver::Solve"
    nonfinite_out = any((v != v) or v in (float("inf"), float("-inf")) for v in s["y"])
    if s["status"] == "Converged" and nonfinite_out:
        return "status Converged with a non-finite concentration" + (" [integrator=%s]" % ("rosenbrock" if m["integ"] == 0 else "backward_euler"))
    if m.get("nonfinite_input") and s["status"] == "Converged" and s["stats"]["steps"] > 0:
        return "non-finite input reported as Converged"
    return None

def amplification(m, total_time):
    """crude bound on how much one rounding error can be amplified by the implicit solves of a run:
    max(1, T * ||J||) with ||J|| estimated from rate constants and concentrations"""
    ymax = max([abs(v) for v in m["y"] if v == v and abs(v) != float("inf")] + [1.0])
    kmax = max([abs(v) for v in m["k"] if v == v and abs(v) != float("inf")] + [0.0])
    order = max([len([x for x in a if x < PARAM0]) for a, _ in m["rx"]] + [1])
    return max(1.0, abs(total_time) * kmax * max(1.0, ymax) ** max(0, order - 1) * 10.0)

def conserving_mech(r, ns):
    """reactions conserving the weighted sum w.y with positive integer weights (dyadic yields keep it exact in spec)"""
    w = [r.rng(1, 4) for _ in range(ns)]
    rx = []
    for _ in range(r.rng(1, 5)):
        nr = r.rng(1, 3)
        reactants = [r.below(ns) for _ in range(nr)]
        total = sum(w[i] for i in reactants)
        np_ = r.rng(1, 3)
        prods = [r.below(ns) for _ in range(np_)]
        # split `total` over the products: yields y_p with sum w_p y_p = total
        parts = [F(r.rng(1, 8)) for _ in prods]
        ssum = sum(parts)
        yl = [float(F(total) * parts[q] / ssum / w[prods[q]]) for q in range(np_)]
        plist = list(zip(prods, yl))
        if r.chance(0.3):
            # a third body returned unchanged (parameterized species on both sides): not part of the balance
            reactants = list(reactants); reactants.insert(r.below(len(reactants) + 1), PARAM0)   # anywhere in the list
            plist.insert(r.below(len(plist) + 1), (PARAM0, 1.0))
        rx.append((reactants, plist))
    return rx, w

def explosive(y_before, y_after, factor=1e3):
    """a run whose concentrations grew by orders of magnitude (a conserving mechanism with non-negative values cannot
    do that; it happens when an un-clamped Rosenbrock run enters negative concentrations and blows up): rounding
    differences are then amplified beyond any a-priori envelope, and intermediate magnitudes are unknown"""
    fin = lambda v: v == v and abs(v) != float("inf")
    b = max([abs(v) for v in y_before if fin(v)] + [1.0])
    a = max([abs(v) for v in y_after if fin(v)] + [0.0])
    return a > factor * b

def oracle_c09(c, out, noise=None):
    s = parse_solve(out) if out else None
    if s is None:
        return f"Solve did not return a result: '{(out or '')[:80]}'"
    m = c.meta
    if any((v != v) or abs(v) == float("inf") for v in s["y"]):
        return None
    if s["status"] in ("NaNDetected", "InfDetected"):
        return None
    ns, ncell, w = m["ns"], m["ncell"], m["w"]
    if explosive(m["y"], s["y"]):
        c.tags.append("explosive_run_skipped")     # run-away growth through negative values: rounding is amplified without bound
        return None
    for cidx in range(ncell):
        before = sum(w[i] * m["y"][cidx * ns + i] for i in range(ns))
        after = sum(w[i] * s["y"][cidx * ns + i] for i in range(ns))
        scale = sum(w[i] * max(abs(m["y"][cidx * ns + i]), abs(s["y"][cidx * ns + i])) for i in range(ns)) + 1e-300
        nsteps = max(1, s["stats"]["steps"])
        if m["integ"] == 1 and any(v == 0.0 for v in s["y"][cidx * ns:(cidx + 1) * ns]):
            continue   # a clipped iterate: excluded by the property
        if any(v < 0 for v in s["y"][cidx * ns:(cidx + 1) * ns]):
            pass
        # rounding envelope: each implicit solve can amplify a unit round-off by about T*||J||
        tol = max(1e-9, 1e-13 * amplification(m, s["final"])) * scale * nsteps
        if noise is not None and cidx < len(noise):
            tol = max(tol, 1e3 * noise[cidx])       # measured: what this run does to a rounding-sized perturbation
        if tol > 1e-3 * scale:
            # the a-priori envelope is itself a sizeable fraction of the sum (stiff problem, many steps, un-pivoted solves):
            # nothing can be concluded from this run
            c.tags.append("ill_conditioned_skipped")
            continue
        if abs(after - before) > tol:
            return f"cell {cidx}: weighted sum w.y changed from {before!r} to {after!r} (w={w}; rounding envelope {tol:.2e})"
    return None

# =============================================================================== group (impl-vs-impl) oracles
def group_oracles(pid, cases):
    fails = []
    groups = {}
    for c in cases:
        if c.group is not None:
            groups.setdefault(c.group[0], []).append(c)
    for gid, cs in groups.items():
        how = cs[0].group[1]
        ref = cs[0]
        for c in cs[1:]:
            msg = how(ref, c)
            if msg:
                fails.append((-1, c, msg))
                break
    return fails

def grp_bitwise(a, b):
    if a.impl_out != b.impl_out:
        return f"implementation results differ bit-wise between equivalent runs [{a.kind}]"
    return None

def noise_twin(p, meta, mkline, kind, gkey):
    """the reference configuration of a group with every finite non-zero initial concentration multiplied by (1 + 2^-50):
    the distance between its result and the reference's is the run's own sensitivity to rounding-sized perturbations"""
    q = dict(p)
    q["y"] = [v * (1.0 + 2.0 ** -50) if (v == v and abs(v) != float("inf")) else v for v in p["y"]]
    m2 = dict(meta); m2["y"] = q["y"]; m2["noise_twin"] = True; m2["cfg"] = meta["cfg"] + "/perturbed"
    return Case(mkline(q), m2, kind, compare=True, group=(gkey, grp_cross_config), tags=["noise_twin"])

def grp_cross_config(a, b):
    """same problem, two configurations: same concentrations up to rounding when the step histories agree
    (when they differ, an accept/reject decision fell within rounding of its threshold or rounding was
    amplified over a long run: nothing is concluded)"""
    sa, sb = parse_solve(a.impl_out or ""), parse_solve(b.impl_out or "")
    if b.meta.get("noise_twin"):
        # measure, do not judge: per-component distance between the reference run and its rounding-perturbed twin
        a.noise = None
        if sa is not None and sb is not None and sa["status"] == sb["status"] and sa["stats"] == sb["stats"] and len(sa["y"]) == len(sb["y"]):
            a.noise = [abs(u - v) if (u == u and v == v) else 0.0 for u, v in zip(sa["y"], sb["y"])]
        else:
            a.noise_diverged = True      # a 2^-50 perturbation already changes the history: nothing below is conclusive
        return None
    if getattr(a, "noise_diverged", False):
        a.tags.append("chaotic_group_skipped")
        return None
    if sa is None or sb is None:
        return None if (a.impl_out == b.impl_out) else f"one configuration failed: '{(a.impl_out or '')[:60]}' vs '{(b.impl_out or '')[:60]}'"
    if sa["status"] != sb["status"] or sa["stats"] != sb["stats"]:
        a.tags.append("history_diverged")
        # the histories parted: legitimate only if an accept/reject decision fell within rounding of its threshold.  Look at
        # the recorded attempts: the first one on which the two runs disagree must then already differ in its step size;
        # the SAME attempt (same total alpha = 1/(gamma H), all earlier attempts in agreement) with a different error norm is
        # a disagreement between the configurations themselves
        return first_attempt_disagreement(a, b)
    if sa["status"] in ("NaNDetected", "InfDetected"):
        return None     # the State then holds the overflowed attempt: no accuracy is promised
    if sa["status"] == "AcceptingUnconvergedIntegration":
        # backward Euler gave up: the State holds a Newton iterate that did NOT converge (clipped at zero on the way); such
        # an iterate depends on the rounding of every solve -- the configurations agree with the model bit for bit, but not
        # with each other to any useful tolerance (seen on the clean tree: three clusters of values 1e-3 apart)
        a.tags.append("unconverged_newton_skipped")
        return None
    if explosive(a.meta["y"], sa["y"]) or explosive(b.meta["y"], sb["y"]):
        a.tags.append("explosive_run_skipped")
        return None     # exponential growth amplifies rounding differences beyond the estimate below
    n = max(1, sa["stats"]["steps"])
    rel = max(1e-9, 1e-13 * amplification(a.meta, sa["final"]))
    if rel * n > 1e-3:
        a.tags.append("ill_conditioned_skipped")
        return None     # the envelope is no longer small against the values: nothing can be concluded
    ymax = max([abs(v) for v in sa["y"] + sb["y"] if v == v and abs(v) != float("inf")] + [1e-300])
    for i, (u, v) in enumerate(zip(sa["y"], sb["y"])):
        if (u != u) and (v != v):
            continue
        # a value that is rounding residue of the cell's large concentrations (cancellation) carries no relative accuracy
        scale = max(abs(u), abs(v), 1e-9 * ymax)
        noise = getattr(a, "noise", None)
        measured = 1e3 * noise[i] if noise and i < len(noise) else 0.0
        if measured > 1e-3 * scale:
            a.tags.append("ill_conditioned_skipped")
            continue
        if abs(u - v) > max(rel * n * scale, measured) + 1e-300:
            return (f"configurations disagree beyond rounding with identical step histories: y[{i}] = {u!r} ({a.meta.get('cfg')}) vs {v!r} "
                    f"({b.meta.get('cfg')}); steps {sa['stats']['steps']}")
    return None

def att_totals(c):
    """[(total alpha, error norm)] of the recorded Rosenbrock attempts: the separate-L/U variants report the CHANGE of alpha
    since the previous attempt of the same step, the in-place ones the full value"""
    m = c.meta
    if m.get("integ") != 0 or not c.impl_out or not c.impl_out.startswith("solve "):
        return None
    att = parse_att(c.impl_out)
    if not att:
        return None
    try:
        hmin = decode_ros_full(m["ptoks"])["h_min"]; gamma = decode_ros_full(m["ptoks"])["gamma"]
    except Exception:
        return None
    out = []; total = 0.0
    for (alpha, err) in att:
        if err is None or alpha != alpha or err != err or abs(alpha) == float("inf") or abs(err) == float("inf"):
            break
        total = alpha if m["kind"] >= 2 else total + alpha
        out.append((total, err))
        H = 1.0 / (total * gamma) if total > 0 else float("inf")
        if hmin > 0 and abs(H - hmin) <= 1e-9 * hmin and not err < 1:
            break                # H sits on h_min (clamped): whether `H < h_min` held cannot be re-derived from 1/(gamma alpha)
        if err < 1 or H < hmin:
            total = 0.0          # accepted: the next step starts from an un-shifted Jacobian
    return out

def first_attempt_disagreement(a, b):
    xa, xb = att_totals(a), att_totals(b)
    if not xa or not xb:
        return None
    near_threshold = False
    for q, ((al_a, e_a), (al_b, e_b)) in enumerate(zip(xa, xb)):
        da = abs(al_a - al_b) / max(abs(al_a), abs(al_b), 1e-300)
        same_alpha = da <= 1e-11
        de = abs(e_a - e_b) / max(abs(e_a), abs(e_b), 1e-300)
        if same_alpha and de <= 1e-9:
            near_threshold = near_threshold or abs(e_a - 1.0) < 1e-6
            continue
        if da > 1e-6 and not near_threshold:
            # every earlier attempt agreed (step sizes and error norms, none near the accept threshold), so the controller
            # asked both runs for the same H; yet the shift on the diagonal of the factored matrix differs
            return (f"attempt #{q + 1} (the {q} earlier attempts agree in step size and error norm): the total diagonal shift applied is {al_a!r} "
                    f"({a.meta.get('cfg')}) vs {al_b!r} ({b.meta.get('cfg')}) although both were asked for the same step size -- the matrices "
                    f"the two configurations factor are not the same I/(gamma H) - J")
        # (a different error norm for the same attempt is NOT conclusive: near-singular matrices amplify the rounding
        #  differences between, say, Doolittle and Mozart factors to any size -- seen on the clean tree)
        return None              # they parted through the step size (a decision near its threshold) or by a rounding-sized amount
    return None

def grp_trace_prefix(a, b):
    """separate-L/U vs in-place linear algebra on the same problem: the matrix handed to the factorisation at
    attempt k must be the same I/(gamma H_k) - J(Y_k) in both (the in-place variant regenerates it, the separate
    variant re-bases the diagonal).  Compared attempt by attempt over the recorded prefix."""
    if a.meta.get("integ") != 0:
        return None
    ta, tb = parse_trace(a.impl_out or ""), parse_trace(b.impl_out or "")
    ea, eb = a.meta.get("elems"), b.meta.get("elems")
    if not ta or not tb or ea is None or eb is None or len(ta[0]) % len(ea) or len(tb[0]) % len(eb):
        return None
    ncell = len(ta[0]) // len(ea)
    def as_dict(m, es):
        return {(c, e): m[c * len(es) + q] for c in range(ncell) for q, e in enumerate(es)}
    def offdiag(d):
        return {k: v for k, v in d.items() if k[1][0] != k[1][1]}
    a0, b0 = as_dict(ta[0], ea), as_dict(tb[0], eb)
    # attempts of the FIRST step only: the Jacobian part is then bit-identical to attempt 0 in each run, and the
    # two runs can differ only through the handling of the diagonal shift
    for k in range(min(len(ta), len(tb))):
        da, db = as_dict(ta[k], ea), as_dict(tb[k], eb)
        if offdiag(da) != offdiag(a0) or offdiag(db) != offdiag(b0):
            break
        scale = max([abs(v) for v in da.values() if v == v and abs(v) != float("inf")] + [1e-300])
        for key, u in da.items():
            v = db.get(key)
            if v is None or (u != u) or (v != v):
                continue
            if abs(u - v) > 1e-5 * max(abs(u), abs(v)) and abs(u - v) > 1e-9 * scale:
                return (f"attempt {k} of the first step: matrix entry {key[1]} of cell {key[0]} handed to the factorisation is {u!r} with "
                        f"{a.meta.get('cfg')} but {v!r} with {b.meta.get('cfg')}: not the same I/(gamma*H) - df/dy")
    return None

def finding_signature(pid, c, fail):
    m = c.meta or {}
    if pid == "C06" and m.get("integ") == 0 and fail.startswith("status Converged but final_time") and "(no progress: zero steps)" in fail \
            and 0 < m.get("dt", 1.0) < 2.3e-16:
        # exactly the recorded finding: Rosenbrock, time_step below round_off, Converged with zero steps
        return "rosenbrock:time_step_below_round_off"
    # only the recorded behaviour itself (Converged although a non-finite value went in / came out) is a known finding on
    # these inputs; anything else on the same input -- a negative concentration, a crash -- is reported
    c10_recorded = fail.startswith("status Converged with a non-finite concentration") or fail == "non-finite input reported as Converged"
    if pid == "C10" and m.get("integ") == 0 and m.get("below_round_off") and c10_recorded and 0 < m.get("dt", 1.0) < 2.3e-16:
        return "rosenbrock:nonfinite_with_time_step_below_round_off"
    if pid == "C10" and m.get("integ") == 0 and m.get("inf_not_consumed") and c10_recorded:
        return "rosenbrock:inf_in_species_not_consumed"
    if pid == "C16" and fail.startswith("three-argument Solve overload: data race on the shared solver's stored parameters"):
        return "tsan:three_argument_solve_stores_parameters"
    if pid == "C20" and fail.startswith("SetAbsoluteTolerances accepted a vector of the wrong length"):
        return "state:absolute_tolerances_wrong_length"
    return (c.kind or "") + ":" + fail.split(":")[0][:60]

# =============================================================================== per-property generators
def g_c01(r, tier, env, Ls):
    cs = gen_forcing(r, Ls, 400 if tier == "quick" else 6000)
    # the same kind of cases through the flat-storage model (whole AsVector(), padding lanes included)
    for c in gen_forcing(r, Ls, 150 if tier == "quick" else 2000):
        c.line = "forcingflat" + c.line[len("forcing"):]
        c.kind = "forcingflat"; c.oracle = None; c.tags.append("flat")
        cs.append(c)
    return cs

def g_c02(r, tier, env, Ls):
    cs = gen_jacobian(r, Ls, 400 if tier == "quick" else 6000)
    for c in gen_jacobian(r, Ls, 150 if tier == "quick" else 2000):
        if c.line.startswith("jacobianmix"):
            continue      # the flat dump is defined for matched configurations only
        c.line = "jacobianflat" + c.line[len("jacobian"):]
        c.kind = "jacobianflat"; c.oracle = None; c.tags.append("flat")
        cs.append(c)
    return cs

def gen_lumix(r, Ls, n):
    """separate-L/U solvers whose L and U are stored in their own orders (A CSR with L CSC, ...)"""
    cs = []
    for _ in range(n):
        L = r.pick(Ls); csc = r.below(2); nn = r.rng(2, 7); blocks = r.rng(1, 2 * max(L, 1) + 1)
        kind = r.below(2); cscL = r.below(2); cscU = r.below(2)
        es = G.gen_pattern(r, nn, density=0.2 + r.unit() * 0.5)
        c = lu_case(r, kind, L, csc, nn, blocks, es)
        toks = c.line.split()
        c.line = " ".join(["lumix", toks[1], toks[2], toks[3], str(cscL), str(cscU)] + toks[4:])
        c.kind = "lumix"; c.tags += ["mixed_order", "cscA=%d cscL=%d cscU=%d" % (csc, cscL, cscU)]
        cs.append(c)
    return cs

def gen_luflat(r, Ls, n):
    cs = []
    for _ in range(n):
        L = r.pick(Ls); csc = r.below(2); nn = r.rng(1, 7); blocks = r.rng(1, 2 * max(L, 1) + 1)
        es = G.gen_pattern(r, nn, density=r.unit() * 0.5)
        kind = r.below(4)
        c = lu_case(r, kind, L, csc, nn, blocks, es)
        toks = c.line.split()
        c.line = " ".join(["luflat"] + toks[1:])
        c.kind = "luflat"; c.oracle = None; c.tags.append("flat")
        cs.append(c)
    return cs

def g_c03(r, tier, env, Ls):
    return (gen_lu(r, Ls, 250 if tier == "quick" else 4000, 3 if tier == "quick" else 4) + gen_luflat(r, Ls, 120 if tier == "quick" else 2000)
            + gen_lumix(r, Ls, 100 if tier == "quick" else 1500))

def g_c04(r, tier, env, Ls):
    cs = gen_lu(r, Ls, 300 if tier == "quick" else 4000, 2 if tier == "quick" else 3)
    return cs + gen_luflat(r, Ls, 120 if tier == "quick" else 2000) + gen_lumix(r, Ls, 150 if tier == "quick" else 2500)

def g_solves(r, tier, env, Ls, n, **kw):
    cs = []
    for _ in range(n):
        p = gen_solve_problem(r, env, Ls, **kw)
        line = problem_line(p)
        meta = dict(p); meta["stages"] = env["ros"][p["pname"]]["stages"] if p["pname"] else None
        tags = ["integ=%d" % p["integ"], "kind=%d" % p["kind"], "L=%d" % p["L"]]
        cs.append(Case(line, meta, "solve", tags=tags))
    return cs

def tag_solve_outcomes(cases):
    pass

def jac_pattern(p):
    """declared Jacobian pattern (with diagonal) in state-index coordinates"""
    es = set((i, i) for i in range(p["ns"]))
    for reactants, products in p["rx"]:
        rs = [p["perm"][x] for x in reactants if x < PARAM0]
        for j in rs:
            for i in rs: es.add((i, j))
            for (pid, _) in products:
                if pid < PARAM0: es.add((p["perm"][pid], j))
    return es

def fill_closure(n, es):
    S = set(es)
    for i in range(n):
        for k in range(i + 1, n):
            if (i, k) in S:
                for j in range(i + 1, n):
                    if (j, i) in S: S.add((j, k))
    return S

def lu_elems(p, kind):
    es = jac_pattern(p)
    if kind >= 2:
        es = fill_closure(p["ns"], es)
    return sorted(es)

def g_c05(r, tier, env, Ls):
    n = 120 if tier == "quick" else 2500
    cs = []
    gid = 0
    for q in range(n):
        p = gen_solve_problem(r, env, Ls, integ=0 if r.chance(0.8) else 1, stiff=True, big_hstart=r.chance(0.6))
        # the same problem with separate L/U (kind 0/1) and in place (kind 2/3): every attempt must see the same matrix
        ka = r.below(2); kb = 2 + r.below(2)
        for kind in (ka, kb):
            meta = dict(p); meta["kind"] = kind; meta["cfg"] = f"L{p['L']}/csc{p['csc']}/lu{kind}"
            meta["elems"] = lu_elems(p, kind)
            c = Case(problem_line(p, kind=kind, trace=12), meta, "solve-trace", tags=["integ=%d" % p["integ"], "kind=%d" % kind],
                     group=(("c05", gid), grp_trace_prefix))
            c.oracle = oracle_trace_pair_marker
            cs.append(c)
        gid += 1
    # AlphaMinusJacobian on index-coded flat storage, every ordering policy
    for _ in range(80 if tier == "quick" else 1500):
        L = r.pick(Ls); csc = r.below(2); nn = r.rng(1, 6); blocks = r.rng(1, 2 * max(L, 1) + 1)
        es = G.gen_pattern(r, nn, density=r.unit() * 0.5)
        cs.append(Case(" ".join(["alphaflat", str(nn), str(csc), str(L), str(blocks)] + G.pairs_tokens(es) + [hexd(r.pick([0.5, 1234.5, 1e-3]))]),
                       dict(L=L), "alphaflat", tags=["alphaflat", "L=%d" % L]))
    # backward Euler on linear mechanisms with arbitrary (non-dyadic) h_start: independent Newton-iteration oracle
    for _ in range(60 if tier == "quick" else 1500):
        L = r.pick(Ls); ns = r.rng(1, 4)
        rx = linear_mech(r, ns)
        b = dict(env["be"]); b["h_start"] = r.pick([0.0, r.logu(1e-2, 1e1), r.logu(1e-2, 1e1)])
        k1 = [r.logu(1e-2, 1e1) for _ in rx]
        # separate-L/U variants only: the recorded matrix then has exactly the declared Jacobian pattern
        p = dict(integ=1, L=L, csc=r.below(2), kind=r.below(2), ncell=1, ns=ns, perm=r.shuffle(range(ns)), rx=rx, k=k1,
                 y=[r.logu(1e-2, 1e2) for _ in range(ns)], atol=[1e-12] * ns, rtol=1e-9, dt=r.logu(1e-1, 1e2), ptoks=G.be_param_tokens(b))
        p["h_start"] = b["h_start"]
        cs.append(Case(problem_line(p, clamp=0, trace=200), dict(p), "be-newton-linear", oracle=oracle_be_newton_linear,
                       tags=["be_linear", "h_start=%s" % ("default" if b["h_start"] == 0.0 else "custom")]))
    return cs

def linear_mech(r, ns):
    rx = []
    for _ in range(r.rng(1, 4)):
        a = r.below(ns)
        prods = [(r.below(ns), r.pick([1.0, 0.5, 0.25])) for _ in range(r.rng(0, 2))]
        rx.append(([a], prods))
    return rx

def parse_trace(out):
    import re
    return [[unhex(v) for v in m.split()] for m in re.findall(r"\[([^\]]*)\]", out or "")]

def oracle_be_newton_linear(c, out):
    """backward Euler on a LINEAR mechanism: f(y) = A y, so Newton on y - y_n - H f(y) = 0 with the matrix
    I/H - A converges in one iteration (the second only confirms it).  Every recorded matrix must be
    -J + (1/H) I with -J the exact (state independent) Jacobian, the H read off the diagonal must be the
    same for both iterations of a step, and the accepted H must add up to final_time."""
    s = parse_solve(out) if out else None
    if s is None:
        return f"Solve did not return a result: '{(out or '')[:80]}'"
    m = c.meta
    if any(v != v or abs(v) == float("inf") for v in s["y"]):
        return None
    st = s["stats"]
    if s["status"] != "Converged" or st["rej"] != 0:
        return None      # a failed inner loop changes the schedule; only the failure-free schedule is predicted here
    tr = parse_trace(out)
    if len(tr) != st["steps"]:
        return None
    # the failure-free step-size schedule of backward_euler.inl
    dt = m["dt"]; H = min(m["h_start"], dt) if m["h_start"] != 0.0 else dt
    sched = []; t = 0.0; nsucc = 0
    while t < dt and len(sched) < 10000:
        sched.append(H); t += H; nsucc += 1
        if nsucc >= 2: nsucc = 0; H *= 2.0
        H = min(H, dt - t)
    if len(sched) != st["acc"]:
        return None
    # exact -J for cell 0 in (row, col) order of the pattern
    ns, perm, rx = m["ns"], m["perm"], m["rx"]
    J = {}
    for q, (reactants, products) in enumerate(rx):
        j = perm[reactants[0]]; k = m["k"][q]
        J[(j, j)] = J.get((j, j), 0.0) + k
        for (pid, yl) in products:
            i = perm[pid]; J[(i, j)] = J.get((i, j), 0.0) - yl * k
    pattern = sorted(set(J.keys()) | {(i, i) for i in range(ns)})
    def close(x, y): return abs(x - y) <= 1e-6 * max(abs(x), abs(y))
    seen = []
    for q, mat in enumerate(tr):
        vals = mat[:len(pattern)]
        h = None
        for (e, v) in zip(pattern, vals):
            base = J.get(e, 0.0)
            if e[0] == e[1]:
                a = v - base
                if a <= 0: return f"iteration {q}: matrix diagonal {e} = {v!r} is not (1/H) - df/dy"
                hh = 1.0 / a
                if h is not None and abs(hh - h) > 1e-6 * h: return f"iteration {q}: matrix is not I/H - df/dy for a single H"
                h = hh if h is None else h
            elif abs(v - base) > 1e-9 * (abs(base) + 1e-300):
                return f"iteration {q}: matrix off-diagonal {e} = {v!r} differs from -df/dy = {base!r}"
        if not seen or not close(seen[-1], h):
            seen.append(h)
    exp = []
    for h in sched:
        if not exp or not close(exp[-1], h):
            exp.append(h)
    if len(seen) != len(exp) or any(not close(x, y) for x, y in zip(seen, exp)):
        return (f"the iteration matrices are I/H' - df/dy with H' running through {seen[:8]}, but the steps attempted have H = {exp[:8]} "
                f"(h_start={m['h_start']!r}, time_step={dt!r})")
    return None

def oracle_be_unconverged_linear(c, out):
    """backward Euler, LINEAR mechanism, max_number_of_steps = 1 (the convergence test is never made): every outer
    iteration fails, the reductions are used up and the call accepts the un-converged iterate of the last H.  On a
    linear mechanism one Newton iteration from y_n is exact, so "the State holds the solution at final_time_" means
    y = (I - H A)^(-1) y_0 with H = final_time_ (no step was accepted before)."""
    s = parse_solve(out) if out else None
    if s is None:
        return f"Solve did not return a result: '{(out or '')[:80]}'"
    m = c.meta
    if s["status"] != "AcceptingUnconvergedIntegration" or s["stats"]["acc"] != 0:
        return None
    H = F(s["final"])
    if H <= 0:
        return f"AcceptingUnconvergedIntegration with final_time {s['final']!r}"
    ns, rx = m["ns"], m["rx"]; nrx = len(rx)
    for cidx in range(m["ncell"]):
        A = [[F(0)] * ns for _ in range(ns)]
        for q, (reactants, products) in enumerate(rx):
            a = reactants[0]; k = F(m["k"][cidx * nrx + q])
            A[a][a] -= k
            for (pid, yl) in products:
                A[pid][a] += F(yl) * k
        M = [[(F(1) if i == j else F(0)) - H * A[i][j] for j in range(ns)] + [F(m["y"][cidx * ns + i])] for i in range(ns)]
        for col in range(ns):     # Gauss-Jordan in exact arithmetic (I - H A is an M-matrix: non-singular)
            piv = next((r_ for r_ in range(col, ns) if M[r_][col] != 0), None)
            if piv is None: return None
            M[col], M[piv] = M[piv], M[col]
            for r_ in range(ns):
                if r_ != col and M[r_][col] != 0:
                    f = M[r_][col] / M[col][col]
                    M[r_] = [x - f * y for x, y in zip(M[r_], M[col])]
        # "... followed only by the documented clipping of negative iterates to zero" (a mechanism with net production can
        # make I - H A indefinite for large H)
        exact = [max(float(M[i][ns] / M[i][i]), 0.0) for i in range(ns)]
        got = s["y"][cidx * ns:(cidx + 1) * ns]
        scale = max(abs(v) for v in exact + [1e-300])
        for i in range(ns):
            if abs(got[i] - exact[i]) > 1e-9 * scale:
                return (f"cell {cidx}: AcceptingUnconvergedIntegration with final_time_={s['final']!r} but the State does not hold the "
                        f"backward-Euler solution at final_time_: species {i} is {got[i]!r}, (I - H A)^-1 y0 gives {exact[i]!r} (y0={m['y'][cidx*ns+i]!r})")
    return None

def decode_ros_full(pt):
    """all fields of the Rosenbrock parameter tokens (see Driver.rosParamsP)"""
    st = int(pt[0]); nt = st * (st - 1) // 2
    q = 1
    a = [unhex(x) for x in pt[q:q + nt]]; q += nt
    c = [unhex(x) for x in pt[q:q + nt]]; q += nt
    m = [unhex(x) for x in pt[q:q + st]]; q += st
    e = [unhex(x) for x in pt[q:q + st]]; q += st
    gamma = unhex(pt[q]); q += 1
    newf = [x != "0" for x in pt[q:q + st]]; q += st
    d = decode_ros_ptoks(pt)
    d.update(a=a, c=c, m=m, e=e, newf=newf)
    return d

def exact_forcing(rx, kq, y):
    """mass-action forcing of one cell in exact arithmetic; species in declaration order, parameterized species skipped"""
    f = [F(0)] * len(y)
    for q, (reactants, products) in enumerate(rx):
        rate = kq[q]
        for x in reactants:
            if x < PARAM0: rate = rate * y[x]
        for x in reactants:
            if x < PARAM0: f[x] -= rate
        for (pid, yl) in products:
            if pid < PARAM0: f[pid] += F(yl) * rate
    return f

def exact_jacobian(rx, kq, y):
    n = len(y)
    J = [[F(0)] * n for _ in range(n)]
    for q, (reactants, products) in enumerate(rx):
        rs = [x for x in reactants if x < PARAM0]
        for j in set(rs):
            d = kq[q] * rs.count(j)
            rest = list(rs); rest.remove(j)
            for x in rest: d = d * y[x]
            for x in rs: J[x][j] -= d
            for (pid, yl) in products:
                if pid < PARAM0: J[pid][j] += F(yl) * d
    return J

def exact_solve(M, cols):
    """solve M X = cols (list of right-hand sides) by Gauss-Jordan with pivot search, exact; None if singular"""
    n = len(M)
    A = [list(M[i]) + [c[i] for c in cols] for i in range(n)]
    for col in range(n):
        piv = next((r_ for r_ in range(col, n) if A[r_][col] != 0), None)
        if piv is None: return None
        A[col], A[piv] = A[piv], A[col]
        inv = 1 / A[col][col]
        A[col] = [x * inv for x in A[col]]
        for r_ in range(n):
            if r_ != col and A[r_][col] != 0:
                f = A[r_][col]
                A[r_] = [x - f * y for x, y in zip(A[r_], A[col])]
    return [[A[i][n + k] for i in range(n)] for k in range(len(cols))]

def rnd200(x):
    """round a Fraction to about 200 significant bits (keeps the exact-arithmetic oracle fast; 2^-200 is far below anything compared)"""
    if x == 0: return x
    e = abs(x.numerator).bit_length() - x.denominator.bit_length()
    sh = 200 - e
    if sh >= 0: return F((x.numerator << sh) // x.denominator, 1 << sh)
    return F((x.numerator // x.denominator >> (-sh)) << (-sh))

def exact_forcing_mag(rx, kq, y):
    """sum of the magnitudes of the terms of each forcing component (rounding envelope of its evaluation)"""
    g = [F(0)] * len(y)
    for q, (reactants, products) in enumerate(rx):
        rate = abs(kq[q])
        for x in reactants:
            if x < PARAM0: rate = rate * abs(y[x])
        for x in reactants:
            if x < PARAM0: g[x] += rate
        for (pid, yl) in products:
            if pid < PARAM0: g[pid] += abs(F(yl)) * rate
    return max(g + [F(0)])

def oracle_ros_step_formulas(c, out):
    """Every attempt made BEFORE the first accepted step of a Rosenbrock solve starts from the initial state y0, so its
    error norm is a function of (y0, H, mechanism, coefficient set) alone.  The s-stage formulas are evaluated in
    (200-bit) rational arithmetic -- matrix I/(gamma H) - J(y0), stage right-hand sides with the c/H terms and the
    re-used or re-evaluated forcing, new state, error estimate, RMS norm -- and the error norm the implementation
    reported for the attempt (first try and every retry) must agree with it inside a first-order rounding bound
    (forcing evaluation, c/H accumulation, backward error of the un-pivoted LU solve, e-weighted sum; max-norms)."""
    m = c.meta
    if m.get("integ") != 0 or out is None or not out.startswith("solve "):
        return None
    att = parse_att(out); s = parse_solve(out)
    if not att or s is None:
        return None
    vals = list(m["k"]) + list(m["y"]) + list(m["atol"]) + [m["rtol"]]
    if any(v != v or abs(v) == float("inf") for v in vals):
        return None
    P = decode_ros_full(m["ptoks"]); st = P["stages"]; inplace = m["kind"] >= 2
    ns, ncell, rx = m["ns"], m["ncell"], m["rx"]; nrx = len(rx)
    if ns > 5 or ncell > 7:
        return None
    U = F(8, 2 ** 53)
    total = F(0); checked = 0
    for i, (alpha, err) in enumerate(att[:4]):
        if err is None or alpha != alpha or abs(alpha) == float("inf") or err != err or abs(err) == float("inf"):
            return None
        total = F(alpha) if inplace else total + F(alpha)
        if total <= 0:
            return None
        H = 1 / (total * F(P["gamma"]))
        sumsq = F(0); bound2 = F(0); skip = False
        for cell in range(ncell):
            kq = [F(v) for v in m["k"][cell * nrx:(cell + 1) * nrx]]
            y0 = [F(v) for v in m["y"][cell * ns:(cell + 1) * ns]]
            J = exact_jacobian(rx, kq, y0)
            M = [[(total if a_ == b_ else F(0)) - J[a_][b_] for b_ in range(ns)] for a_ in range(ns)]
            ident = [[F(1) if a_ == b_ else F(0) for a_ in range(ns)] for b_ in range(ns)]
            inv = exact_solve(M, ident)
            if inv is None: skip = True; break
            nM = max(sum(abs(x) for x in row) for row in M)
            nInv = max(sum(abs(inv[b_][a_]) for b_ in range(ns)) for a_ in range(ns))   # inv holds columns
            K = []; dK = []; Fprev = None; dFprev = None
            for stage in range(st):
                sc_ = stage * (stage - 1) // 2
                if stage == 0:
                    Fs = exact_forcing(rx, kq, y0); dF = U * exact_forcing_mag(rx, kq, y0)
                elif P["newf"][stage]:
                    ys = list(y0); dys = F(0)
                    for j in range(stage):
                        ys = [u + F(P["a"][sc_ + j]) * v for u, v in zip(ys, K[j])]
                        dys += abs(F(P["a"][sc_ + j])) * dK[j] + U * abs(F(P["a"][sc_ + j])) * max(abs(v) for v in K[j])
                    Fs = exact_forcing(rx, kq, ys)
                    # |f(ys + d) - f(ys)| <= ||J(|ys|)|| * d to first order
                    Ja = exact_jacobian(rx, [abs(x) for x in kq], [abs(x) for x in ys])
                    nJ = max(sum(abs(x) for x in row) for row in Ja) if ns else F(0)
                    dF = U * exact_forcing_mag(rx, kq, ys) + nJ * dys
                else:
                    Fs = Fprev; dF = dFprev
                Fprev = Fs; dFprev = dF
                rhs = list(Fs); drhs = dF
                for j in range(stage):
                    cf = F(P["c"][sc_ + j]) / H
                    rhs = [u + cf * v for u, v in zip(rhs, K[j])]
                    drhs += abs(cf) * dK[j] + 3 * U * abs(cf) * max(abs(v) for v in K[j])
                Ki = [rnd200(x) for x in exact_solve(M, [rhs])[0]]
                K.append(Ki)
                dK.append(nInv * (drhs + ns * U * nM * max(abs(v) for v in Ki)))
            ynew = list(y0); yerr = [F(0)] * ns; dyerr = F(0)
            for i_ in range(st):
                ynew = [u + F(P["m"][i_]) * v for u, v in zip(ynew, K[i_])]
                yerr = [u + F(P["e"][i_]) * v for u, v in zip(yerr, K[i_])]
                dyerr += abs(F(P["e"][i_])) * (dK[i_] + st * U * max(abs(v) for v in K[i_]))
            for v in range(ns):
                scale = F(m["atol"][v]) + F(m["rtol"]) * max(abs(y0[v]), abs(ynew[v]))
                if scale <= 0: skip = True; break
                sumsq += (yerr[v] / scale) ** 2
                bound2 += (dyerr / scale) ** 2
            if skip: break
        if skip:
            return None
        N = ncell * ns
        raw = math.sqrt(float(sumsq / N))
        exact = max(raw, 1e-10)
        tol = math.sqrt(float(bound2 / N)) + 1e-9 * exact
        if tol > 1e-2 * exact:
            c.tags.append("step_formula_inconclusive")
        elif abs(err - exact) > tol:
            return (f"attempt #{i + 1} of the first step (H={float(H)!r}, {'first try' if i == 0 else 'retry after %d rejection(s)' % i}): the reported error norm is "
                    f"{err!r}, the {st}-stage Rosenbrock formulas applied to (y0, H) give {exact!r} (rounding bound {tol:.2e}); lu kind {m['kind']}")
        else:
            checked += 1
        # did this attempt get accepted?  then later attempts start elsewhere
        if err < 1 or float(H) < P["h_min"]:
            break
    if checked: c.tags.append("step_formula_checked")
    if checked >= 2: c.tags.append("step_formula_retry_checked")
    return None

def oracle_trace_pair_marker(c, out):
    s = parse_solve(out) if out else None
    if s is None:
        return f"Solve did not return a result: '{(out or '')[:80]}'"
    st = s["stats"]
    rej_total = st["steps"] - st["acc"]
    if rej_total >= 2: c.tags.append("attempts_not_accepted>=2")
    if rej_total >= 3: c.tags.append("attempts_not_accepted>=3")
    return oracle_ros_step_formulas(c, out)

def g_c06(r, tier, env, Ls):
    n = 200 if tier == "quick" else 4000
    cs = []
    for _ in range(n):
        p = gen_solve_problem(r, env, Ls, stiff=r.chance(0.5))
        z = r.below(10)
        if z == 0: p["dt"] = r.logu(1e-20, 1e-15)          # below / around round-off
        elif z == 1: p["dt"] = r.logu(1e-15, 1e-6)
        elif z == 2: p["dt"] = r.logu(1e3, 1e7)
        if p["integ"] == 1 and r.chance(0.6):
            # backward Euler with user-chosen (non-dyadic) initial step / reduction factors
            b = dict(env["be"])
            if r.chance(0.7): b["h_start"] = p["dt"] * r.pick([0.2, 0.3, 0.45, 0.6, 0.8, r.unit(), 1.5, 2.0, 10.0])
            if r.chance(0.4): b["time_step_reductions"] = [r.pick([0.5, 0.6, 0.3, 0.1]) for _ in range(5)]
            if r.chance(0.3): b["max_number_of_steps"] = r.rng(2, 5)
            p["ptoks"] = G.be_param_tokens(b)
        meta = dict(p); meta["stages"] = env["ros"][p["pname"]]["stages"] if p["pname"] else None
        tags = ["integ=%d" % p["integ"]]
        if p["dt"] < 2.220446049250313e-16: tags.append("dt<round_off")
        cs.append(Case(problem_line(p, trace=0), meta, "solve", oracle=oracle_c06, tags=tags))
    # backward Euler that gives up (max_number_of_steps = 1 on a linear mechanism): the State must hold the solution at final_time_
    for _ in range(40 if tier == "quick" else 800):
        L = r.pick(Ls); ns = r.rng(1, 4); ncell = r.rng(1, 2 * max(L, 1) + 1)
        rx = linear_mech(r, ns)
        b = dict(env["be"]); b["max_number_of_steps"] = 1
        if r.chance(0.5): b["time_step_reductions"] = [r.pick([0.5, 0.6, 0.3, 0.1]) for _ in range(5)]   # std::array<double, 5>
        if r.chance(0.5): b["h_start"] = r.logu(1e-2, 1e1)
        p = dict(integ=1, L=L, csc=r.below(2), kind=r.below(4), ncell=ncell, ns=ns, perm=r.shuffle(range(ns)), rx=rx,
                 k=[r.logu(1e-2, 1e1) for _ in range(ncell * len(rx))], y=[r.logu(1e-2, 1e2) for _ in range(ncell * ns)],
                 atol=[1e-12] * ns, rtol=1e-9, dt=r.logu(1e-1, 1e2), ptoks=G.be_param_tokens(b), pname=None)
        meta = dict(p); meta["stages"] = None
        cs.append(Case(problem_line(p, clamp=0, trace=0), meta, "solve", oracle=lambda c, out: oracle_c06(c, out) or oracle_be_unconverged_linear(c, out),
                       tags=["integ=1", "be_gives_up_linear"]))
    return cs

def oracle_norm(c, out):
    """RMS over all cells and species of err/(atol_i + rtol*max(|y|,|ynew|)), floored at 1e-10 — in exact rationals"""
    cmd, d = parse_kv(out or "")
    if cmd != "norm":
        return f"NormalizedError outcome '{(out or '')[:60]}'"
    m = c.meta
    ns, ncell = m["ns"], m["ncell"]
    tot = F(0)
    for ci in range(ncell):
        for i in range(ns):
            q = ci * ns + i
            den = F(m["atol"][i]) + F(m["rtol"]) * max(abs(F(m["y"][q])), abs(F(m["yn"][q])))
            tot += (F(m["err"][q]) / den) ** 2
    exact = max(math.sqrt(float(tot / (ncell * ns))), 1.0e-10)
    got = unhex(d["e"][0])
    if abs(got - exact) > 1e-11 * exact:
        return f"error norm is {got!r}, the RMS over all {ncell} cells x {ns} species is {exact!r} (L={m['L']})"
    # IsConverged: no element with |r| > small and > atol and > rtol*|y|
    conv = all(not (abs(m["err"][q]) > m["small"] and abs(m["err"][q]) > m["atol"][q % ns] and abs(m["err"][q]) > m["rtol"] * abs(m["yn"][q]))
               for q in range(ncell * ns))
    if d["conv"][0] != ("1" if conv else "0"):
        return f"IsConverged returned {d['conv'][0]}, the documented test gives {int(conv)} (L={m['L']}, cells={ncell})"
    return None

def gen_norm_cases(r, Ls, n):
    cs = []
    for _ in range(n):
        L = r.pick(Ls); ns = r.rng(1, 5); ncell = r.rng(1, 3 * max(L, 1) + 1)
        atol = [r.pick([1e-3, 1e-6, 1e-9, 1e-12, 1e-14]) for _ in range(ns)]
        rtol = r.pick([1e-3, 1e-6, 1e-8])
        y = [G.gen_value(r, "conc") for _ in range(ncell * ns)]
        yn = [v * (1 + 0.1 * (r.unit() - 0.5)) for v in y]
        scale = r.pick([1e-12, 1e-8, 1e-4, 1.0])
        err = [(r.unit() - 0.5) * scale * (abs(v) + 1e-6) if r.chance(0.8) else 0.0 for v in y]
        small = r.pick([1e-40, 1e-12])
        line = " ".join(["norm", str(L), str(ncell), str(ns)] + [hexd(v) for v in atol] + [hexd(rtol)] + [hexd(v) for v in y + yn + err] + [hexd(small)])
        tags = ["norm", "L=%d" % L]
        if L and ncell % L: tags.append("partial_group")
        if L and ncell > L and ncell % L: tags.append("full+partial_group")
        cs.append(Case(line, dict(L=L, ns=ns, ncell=ncell, atol=atol, rtol=rtol, y=y, yn=yn, err=err, small=small), "norm", oracle=oracle_norm, tags=tags))
    return cs

# ---- Rosenbrock step-size controller: exact replay of the rule stated in C07 from the recorded error norms
def decode_ros_ptoks(pt):
    st = int(pt[0]); nt = st * (st - 1) // 2
    gamma = unhex(pt[1 + 2 * nt + 2 * st])      # then six new_function_evaluation flags, then the ten scalars
    tail = pt[-10:]
    order = unhex(tail[0])
    names = ("round_off", "factor_min", "factor_max", "rejection_factor_decrease", "safety_factor", "h_min", "h_max", "h_start")
    d = {k: unhex(v) for k, v in zip(names, tail[1:9])}
    d.update(stages=st, gamma=gamma, order=order, max_steps=int(tail[9]))
    return d

def parse_att(out):
    i = out.find(" att=")
    if i < 0:
        return None
    toks = out[i + 5:].split()
    res = []
    for t in toks:
        if ":" not in t:
            break
        a, e = t.split(":")
        res.append((unhex(a), None if e == "-" else unhex(e)))
    return res

def oracle_ros_controller(c, out):
    """Replays AbstractRosenbrockSolver::Solve's controller on the error norms the implementation reported and
    demands the alpha (= 1/(gamma H)) of every attempt, the final time, the status and the step counters to be
    the ones the rule in the property produces."""
    m = c.meta
    if m.get("integ") != 0 or out is None or not out.startswith("solve "):
        return None
    att = parse_att(out)
    s = parse_solve(out)
    if att is None or s is None or not att:
        return None
    P = decode_ros_ptoks(m["ptoks"]); T = m["dt"]; inplace = m["kind"] >= 2
    DELTA_MIN = 1.0e-6
    h_max = T if P["h_max"] == 0.0 else min(T, P["h_max"])
    h_start = max(P["h_min"], DELTA_MIN) if P["h_start"] == 0.0 else min(h_max, P["h_start"])
    t = 0.0
    H = min(max(abs(P["h_min"]), abs(h_start)), abs(h_max))
    if abs(H) <= 10 * P["round_off"]:
        H = DELTA_MIN
    rl = rm = False
    steps = acc = rej = 0
    i = 0; status = "Running"; truncated = len(att) >= 48
    def near(a, b):
        return a == b or abs(a - b) <= 1e-12 * max(abs(a), abs(b))
    while (t - T + P["round_off"]) <= 0 and status == "Running":
        if steps > P["max_steps"]:
            status = "ConvergenceExceededMaxSteps"; break
        if (t + 0.1 * H) == t or H <= P["round_off"]:
            status = "StepSizeTooSmall"; break
        H = min(H, abs(T - t))
        accepted = False; last_alpha = 0.0; first = True
        while not accepted:
            if i >= len(att):
                if truncated:
                    return None          # everything recorded agreed
                return f"the controller rule continues with attempt #{i + 1} (H={H!r}) but the solver stopped after {len(att)} attempts (status {s['status']})"
            alpha = 1.0 / (H * P["gamma"])
            want = alpha if inplace else alpha - last_alpha
            last_alpha = alpha
            got, err = att[i]
            if not near(got, want):
                Hgot = 1.0 / ((got if inplace else got + (last_alpha - want) ) * P["gamma"]) if got else float("nan")
                return (f"attempt #{i + 1} (t={t!r}, {'first try' if first else 'retry'}, {rej} counted rejections so far) used alpha={got!r}; "
                        f"the configured controller gives H={H!r}, alpha={want!r} (h_min={P['h_min']!r} h_max={P['h_max']!r} h_start={P['h_start']!r} "
                        f"factor_min/max={P['factor_min']!r}/{P['factor_max']!r} safety={P['safety_factor']!r} cut={P['rejection_factor_decrease']!r})")
            if err is None:
                return None
            i += 1; first = False
            den = math.pow(err, 1.0 / P["order"]) if err == err else float("nan")
            ratio = (P["safety_factor"] / den) if den != 0 else float("inf")
            # std::min(fmax, std::max(fmin, ratio)) with the C++ argument order (NaN handling is irrelevant: NaN exits below)
            inner = ratio if P["factor_min"] < ratio else P["factor_min"]
            fac = inner if inner < P["factor_max"] else P["factor_max"]
            Hnew = H * fac
            steps += 1
            if err != err:
                status = "NaNDetected"; break
            if err in (float("inf"), float("-inf")):
                status = "InfDetected"; break
            if err < 1 or H < P["h_min"]:
                acc += 1; t = t + H
                Hnew = max(P["h_min"], min(Hnew, h_max))
                if rl:
                    Hnew = min(Hnew, H)
                rl = rm = False
                H = Hnew; accepted = True
            else:
                if rm:
                    Hnew = H * P["rejection_factor_decrease"]
                rm = rl; rl = True; H = Hnew
                if acc >= 1:
                    rej += 1
    if status == "Running":
        status = "Converged"
    if truncated and i >= len(att):
        return None
    if i < len(att):
        return f"the solver made {len(att)} attempts but the controller rule stops after {i} with status {status}"
    if status != s["status"]:
        return f"status {s['status']} but the controller rule on the reported errors gives {status} (t={t!r}, H={H!r}, steps={steps})"
    if not near(t, s["final"]) and status not in ("NaNDetected", "InfDetected"):
        return f"final_time {s['final']!r} but the accepted steps sum to {t!r}"
    if (steps, acc, rej) != (s["stats"]["steps"], s["stats"]["acc"], s["stats"]["rej"]):
        return f"counters steps/accepted/rejected = {s['stats']['steps']}/{s['stats']['acc']}/{s['stats']['rej']} but the attempts made give {steps}/{acc}/{rej}"
    return None

def g_c07(r, tier, env, Ls):
    n = 200 if tier == "quick" else 4000
    cs = gen_norm_cases(r, Ls, 300 if tier == "quick" else 5000)
    for _ in range(n):
        p = gen_solve_problem(r, env, Ls, integ=0 if r.chance(0.75) else 1, stiff=r.chance(0.5))
        if p["integ"] == 0:
            ov = {}
            if r.chance(0.4): ov["h_min"] = r.logu(1e-8, 1e-1)
            if r.chance(0.4): ov["h_max"] = r.logu(1e-2, 1e3)
            if r.chance(0.5): ov["h_start"] = r.logu(1e-6, 1e4)
            if r.chance(0.3): ov["factor_min"] = r.pick([0.1, 0.25, 0.5])
            if r.chance(0.3): ov["factor_max"] = r.pick([1.5, 2.0, 10.0])
            if r.chance(0.3): ov["safety_factor"] = r.pick([0.5, 0.8, 0.95])
            if r.chance(0.3): ov["rejection_factor_decrease"] = r.pick([0.05, 0.2, 0.5])
            if r.chance(0.3): ov["max_number_of_steps"] = r.rng(1, 12)
            p["ptoks"] = G.ros_param_tokens(env["ros"][p["pname"]], ov)
        else:
            b = dict(env["be"])
            if r.chance(0.4): b["h_start"] = r.logu(1e-4, 1e2)
            if r.chance(0.4): b["max_number_of_steps"] = r.rng(2, 6)
            if r.chance(0.3): b["time_step_reductions"] = [r.pick([0.5, 0.25, 0.1]) for _ in range(5)]
            p["ptoks"] = G.be_param_tokens(b)
        meta = dict(p)
        cs.append(Case(problem_line(p, trace=4), meta, "solve", oracle=oracle_ros_controller, tags=["integ=%d" % p["integ"], "L=%d" % p["L"]]))
    # backward Euler step-size schedule on problems that get harder as they go (autocatalysis, few Newton iterations
    # allowed, several internal steps): successes and failures interleave.  An inert tracer species (no reaction names
    # it) has the Jacobian diagonal 0, so its element of every recorded matrix is exactly 1/H.
    for _ in range(150 if tier == "quick" else 3000):
        ns = r.rng(2, 4); L = r.pick(Ls)
        a, b = r.below(ns), r.below(ns)
        rx = [([a, b], [(b, 2.0)])] + G.gen_mech(r, ns, nrx=r.rng(0, 2), allow_param=False)
        ns1 = ns + 1                              # species ns is the tracer
        bp = dict(env["be"]); dt = r.logu(0.5, 20.0)
        bp["h_start"] = dt / r.pick([1.5, 2.0, 3.0, 4.0, 6.0, 8.0])
        bp["max_number_of_steps"] = r.rng(2, 6)
        if r.chance(0.5): bp["time_step_reductions"] = [r.pick([0.5, 0.6, 0.3, 0.75]) for _ in range(5)]
        p = dict(integ=1, L=L, csc=r.below(2), kind=r.below(2), ncell=1, ns=ns1, perm=r.shuffle(range(ns1)), rx=rx,
                 k=[r.logu(1e-2, 1e1) for _ in rx], y=[r.logu(1e-3, 1e1) for _ in range(ns)] + [1.0],
                 atol=[r.pick([1e-3, 1e-8, 1e-12])] * ns1, rtol=r.pick([1e-3, 1e-6, 1e-9]), dt=dt, ptoks=G.be_param_tokens(bp), pname=None)
        meta = dict(p, tracer=ns, be=bp)
        cs.append(Case(problem_line(p, clamp=0, trace=400), meta, "solve", oracle=oracle_be_schedule, tags=["integ=1", "be_schedule"]))
    return cs

def oracle_be_schedule(c, out):
    """necessary conditions on the sequence of step sizes of a backward-Euler solve, read off the tracer's diagonal
    element (exactly 1/H) of the matrix of every Newton iteration: H only changes by a configured reduction factor (in the
    configured order), by doubling, or by the clip to the remaining time; and a doubling needs two consecutive successes
    at the current H, i.e. at least four Newton iterations at that H since the last change (convergence is only tested from
    the second iteration of an outer iteration on)."""
    s = parse_solve(out) if out else None
    if s is None:
        return f"Solve did not return a result: '{(out or '')[:80]}'"
    m = c.meta
    tr = parse_trace(out)
    if not tr or len(tr) != s["stats"]["steps"] or len(tr) >= 400:
        return None
    pat = sorted(jac_pattern(m)); t = m["perm"][m["tracer"]]; idx = pat.index((t, t))
    hs = []
    for mat in tr:
        d = mat[idx]
        if not (d > 0) or d != d or d == float("inf"): return None
        hs.append(1.0 / d)
    runs = []
    for h in hs:
        if runs and abs(runs[-1][0] - h) <= 1e-12 * h: runs[-1][1] += 1
        else: runs.append([h, 1])
    reds = m["be"]["time_step_reductions"]; nfail = 0
    def near(a, b): return abs(a - b) <= 1e-9 * max(abs(a), abs(b))
    for q in range(len(runs) - 1):
        h, n = runs[q]; h2 = runs[q + 1][0]
        if nfail < len(reds) and near(h2, h * reds[nfail]) and not near(h2, 2 * h):
            nfail += 1; c.tags.append("be_reduction"); continue
        if near(h2, 2 * h):
            c.tags.append("be_doubling")
            if q > 0: c.tags.append("be_doubling_after_change")
            if n < 4:
                return (f"the step size was doubled from H={h!r} to {h2!r} after only {n} Newton iteration(s) at H={h!r}: two consecutive "
                        f"successful integrations at that step need at least four (steps so far: {[round(x[0], 6) for x in runs[:q + 2]]}, Newton iterations per step size {[x[1] for x in runs[:q + 2]]})")
            continue
        if h2 < 2 * h * (1 + 1e-9):
            c.tags.append("be_clip"); continue          # clipped to the remaining time (possibly after a doubling)
        return f"the step size went from H={h!r} to {h2!r}: neither the next reduction factor, nor a doubling, nor a clip"
    return None

def g_c09(r, tier, env, Ls):
    n = 150 if tier == "quick" else 3000
    cs = []
    for _ in range(n):
        p = gen_solve_problem(r, env, Ls, conserve=True, stiff=r.chance(0.3))
        p["y"] = [float(r.rng(1, 9)) if r.chance(0.5) else r.logu(1e-3, 1e2) for _ in p["y"]]
        meta = dict(p)
        gid = len(cs)
        cs.append(Case(problem_line(p, clamp=0, trace=0), meta, "solve-conserve", tags=["integ=%d" % p["integ"]],
                       group=(("c09", gid), grp_drift_noise)))
        # the same run with the initial state perturbed in the last bits: the oracle's rounding allowance is what THIS run
        # does to a rounding-sized perturbation (un-pivoted solves of indefinite matrices amplify without a usable bound)
        q = dict(p); q["y"] = [v * (1.0 + 2.0 ** -50) for v in p["y"]]
        m2 = dict(meta); m2["y"] = q["y"]; m2["noise_twin"] = True
        cs.append(Case(problem_line(q, clamp=0, trace=0), m2, "solve-conserve", tags=["noise_twin"], group=(("c09", gid), grp_drift_noise)))
    return cs

def grp_drift_noise(a, b):
    """(case, rounding-perturbed twin): if the twin's weighted sums differ from the case's by an amount comparable with the
    case's drift, the drift is this run's rounding sensitivity, not a broken conservation law"""
    a.noise_w = None
    sa, sb = parse_solve(a.impl_out or ""), parse_solve(b.impl_out or "")
    if sa is None or sb is None or len(sa["y"]) != len(sb["y"]):
        return None
    if sa["status"] != sb["status"] or sa["stats"] != sb["stats"]:
        a.noise_w = "diverged"
    else:
        m = a.meta; ns, w = m["ns"], m["w"]
        a.noise_w = [abs(sum(w[i] * (sa["y"][c * ns + i] - sb["y"][c * ns + i]) for i in range(ns))) for c in range(m["ncell"])]
    if a.noise_w == "diverged":
        a.tags.append("chaotic_run_skipped")     # a 2^-50 perturbation changes the step history: nothing is conclusive
        return None
    return oracle_c09(a, a.impl_out, noise=a.noise_w)

def g_c10(r, tier, env, Ls):
    n = 300 if tier == "quick" else 5000
    cs = []
    for _ in range(n):
        p = gen_solve_problem(r, env, Ls, stiff=r.chance(0.4))
        meta = dict(p); meta["clamp"] = 1
        z = r.below(8)
        bad = None
        if z <= 3:
            bad = r.pick([float("nan"), float("inf"), float("-inf")])
            where = r.pick(["y", "k"])
            nrx = len(p["rx"])
            if where == "k":
                # a rate constant that enters the computation: its reaction has a state reactant or product
                live = [q for q, (a, b) in enumerate(p["rx"]) if any(x < PARAM0 for x in a) or any(x < PARAM0 for x, _ in b)]
                if not live:
                    where = "y"
                else:
                    idx = r.below(p["ncell"]) * nrx + r.pick(live)
            if where == "y":
                idx = r.below(len(p["y"]))
            p[where] = list(p[where]); p[where][idx] = bad
            meta["nonfinite_input"] = True
            meta[where] = p[where]
            # +-inf in a species that no reaction consumes (recorded finding for the Rosenbrock integrator)
            if where == "y" and abs(bad) == float("inf"):
                sp = idx % p["ns"]
                reactant_ids = {x for a, _ in p["rx"] for x in a}
                if sp not in reactant_ids:
                    meta["inf_not_consumed"] = True
            tags = ["nonfinite_%s" % where]
            # a request shorter than round_off makes the Rosenbrock loop exit before any work (KF-C06-1): the
            # non-finite value comes back untouched with status Converged (recorded finding KF-C10-2)
            if where == "y" and p["integ"] == 0 and r.chance(0.08):
                p["dt"] = r.logu(1e-18, 2e-16); meta["dt"] = p["dt"]; meta["below_round_off"] = True
                tags.append("dt_below_round_off")
        elif z == 4:
            p["y"] = [-abs(v) if r.chance(0.5) else v for v in p["y"]]; meta["y"] = p["y"]; tags = ["negative_initial"]
        elif z == 5:
            p["y"] = [v * 1e200 for v in p["y"]]; meta["y"] = p["y"]; tags = ["huge_initial"]
        else:
            tags = ["regular"]
        cs.append(Case(problem_line(p, clamp=1, trace=0), meta, "solve-malformed", oracle=oracle_c10, tags=tags + ["integ=%d" % p["integ"]]))
    return cs

def hist_prefix(p):
    # the second solver of the history (other integrator / other coefficient set) follows the first one's parameters
    return (["hist", str(p["integ"]), str(p["L"]), str(p["csc"]), str(p["kind"]), str(p["ncell"]), str(p["ns"])] + G.mech_tokens(p["rx"]) + p["ptoks"]
            + [str(p.get("integ2", 1))] + p.get("ptoks2", None or G.be_param_tokens(DEFAULT_BE)))

DEFAULT_BE = {"small": 1e-40, "h_start": 0.0, "max_number_of_steps": 11, "time_step_reductions": [0.5, 0.5, 0.5, 0.5, 0.1]}

def second_solver(r, env, p):
    """attach a second solver description to problem p: the other integrator, or Rosenbrock with another coefficient set"""
    if r.chance(0.5):
        p["integ2"] = 1; p["ptoks2"] = G.be_param_tokens(env["be"])
    else:
        p["integ2"] = 0; p["ptoks2"] = G.ros_param_tokens(env["ros"][r.pick(ROS_NAMES)])
    return p

def problem_ops(r, p, s):
    """ops that load a problem into state s and solve it"""
    ns, ncell, nrx = p["ns"], p["ncell"], len(p["rx"])
    y = [G.gen_value(r, "conc") for _ in range(ncell * ns)]
    k = [r.logu(1e-3, 1e5) for _ in range(ncell * nrx)]
    ops = []
    for i in range(ns):
        ops.append(["setc", str(s), str(i)] + [hexd(y[c * ns + i]) for c in range(ncell)])
    if r.chance(0.4):
        # rate constants through the library: conditions + custom parameters + CalculateRateConstants
        for c in range(ncell):
            ops.append(["setcond", str(s), str(c), hexd(r.logu(200, 320)), hexd(r.logu(1e3, 1e5)), hexd(r.pick([1.0, 2.0, r.logu(0.1, 50)]))])
        for q in r.shuffle(range(nrx)):
            ops.append(["setp", str(s), str(q)] + [hexd(k[c * nrx + q]) for c in range(ncell)])
        ops.append(["calc", str(s)])
    else:
        ops.append(["setk", str(s)] + [hexd(v) for v in k])
    ops.append(["solve", str(s), hexd(r.logu(1e-2, 1e3))])
    return ops

def hist_line(p, ops):
    return " ".join(hist_prefix(p) + [str(len(ops))] + [t for op in ops for t in op])

def last_result(out, k=1):
    parts = out.split(" | ")
    return parts[-k] if parts else None

def g_c11(r, tier, env, Ls):
    """a problem solved on a State with an arbitrary history / arbitrary scratch contents must give
    bit-identical results to the same problem on a fresh State (implementation vs implementation)"""
    n = 60 if tier == "quick" else 1200
    cs = []
    for gid in range(n):
        p = gen_solve_problem(r, env, Ls, stiff=r.chance(0.5))
        p["perm"] = list(range(p["ns"]))
        second_solver(r, env, p)
        final_ops = problem_ops(r, p, 0)
        fresh = [["new", "0"]] + final_ops
        hist = [["new", "0"]]
        for _ in range(r.rng(1, 5)):
            z = r.below(4)
            if z == 0:
                hist.append(["garbage", "0", hexd(r.pick([float("nan"), 1e300, -7.25, 3.0]))])
            else:
                ops = problem_ops(r, p, 0)
                if r.chance(0.3):   # a solve that ends badly (NaN rate constant)
                    ops.insert(len(ops) - 1, ["setk", "0"] + [hexd(float("nan"))] * (p["ncell"] * len(p["rx"])))
                hist += ops
                if r.chance(0.3):   # ... and the State is then advanced by the other solver object (another parameter set)
                    hist += problem_ops(r, p, 0)[:-1] + [["solvex", "0", hexd(r.logu(1e-2, 1e2))]]
        if r.chance(0.35) and final_ops and final_ops[-1][0] == "solve":
            final_ops = final_ops[:-1] + [["solvex"] + final_ops[-1][1:]]     # the last solve uses the other solver object
        hist.append(["settol", "0"] + [hexd(1e-3)] * p["ns"] + [hexd(1e-6)])
        hist += final_ops
        fresh = [["new", "0"], ["settol", "0"] + [hexd(1e-3)] * p["ns"] + [hexd(1e-6)]] + final_ops
        ca = Case(hist_line(p, fresh), dict(p), "hist-fresh", group=(("c11", gid), grp_last_equal), tags=["integ=%d" % p["integ"]])
        cb = Case(hist_line(p, hist), dict(p), "hist-reused", group=(("c11", gid), grp_last_equal), tags=["reused", "kind=%d" % p["kind"]])
        cs += [ca, cb]
    return cs

def grp_last_equal(a, b):
    if a.impl_out is None or b.impl_out is None:
        return "missing output"
    if is_err(a.impl_out) or is_err(b.impl_out):
        return f"history failed: '{a.impl_out[:60]}' / '{b.impl_out[:60]}'"
    if last_result(a.impl_out) != last_result(b.impl_out):
        return f"[{b.kind}] result of the final solve differs from the fresh-State run: {last_result(b.impl_out)[:120]} vs {last_result(a.impl_out)[:120]}"
    return None

def g_c12(r, tier, env, Ls):
    n = 30 if tier == "quick" else 500
    cs = []
    for gid in range(n):
        p = gen_solve_problem(r, env, Ls, stiff=r.chance(0.5), big_hstart=r.chance(0.4))
        cfgs = [(L, csc, kind) for L in Ls for csc in (0, 1) for kind in range(4)]
        if tier == "quick":
            cfgs = [cfgs[0]] + [r.pick(cfgs) for _ in range(5)]
        first = True
        for (L, csc, kind) in cfgs:
            meta = dict(p); meta.update(L=L, csc=csc, kind=kind, cfg=f"L{L}/csc{csc}/lu{kind}")
            perm = p["perm"] if r.chance(0.5) else r.shuffle(range(p["ns"]))
            cs.append(Case(problem_line(p, L=L, csc=csc, kind=kind, perm=perm, trace=1), meta, "solve-cfg",
                           group=(("c12", gid), grp_cross_config), tags=["L=%d" % L, "kind=%d" % kind]))
            if first:
                # the reference configuration once more with the initial state perturbed in the last bits: what "rounding"
                # means for THIS problem is measured, not guessed
                cs.append(noise_twin(p, meta, lambda q: problem_line(q, L=L, csc=csc, kind=kind, perm=perm, trace=1), "solve-cfg", ("c12", gid)))
                first = False
    # the whole user path: Build (state reordering on/off, species listed in any order, tolerance properties) + Solve by name
    cs += gen_bsolve_groups(r, env, Ls, 25 if tier == "quick" else 400, "c12b")
    return cs

def g_c13(r, tier, env, Ls):
    """cell independence, implementation vs implementation: the same cell data placed in different
    positions / surrounded by different neighbours / in matrices of different cell counts"""
    n = 80 if tier == "quick" else 1500
    cs = []
    gid = 0
    for _ in range(n):
        L = r.pick(Ls); ns = r.rng(1, 5)
        rx = G.gen_mech(r, ns)
        perm = r.shuffle(range(ns))
        nrx = len(rx)
        kc = [G.gen_value(r, "rate") for _ in range(nrx)]
        yc = [G.gen_value(r, "conc") for _ in range(ns)]
        fc = [G.gen_value(r, "any") for _ in range(ns)]
        signed = r.chance(0.4)
        if signed: yc = signed_states(r, yc, 1, ns) if r.chance(0.5) else [-abs(v) if r.chance(0.5) else v for v in yc]
        variants = []
        for _ in range(3):
            ncell = r.rng(1, 3 * max(L, 1) + 1); pos = r.below(ncell)
            k = []; y = []; f0 = []
            for c in range(ncell):
                if c == pos:
                    k += kc; y += yc; f0 += fc
                else:
                    k += [G.gen_value(r, "rate") if not (signed and r.chance(0.4)) else 0.0 for _ in range(nrx)]
                    yo = [G.gen_value(r, "conc") if r.chance(0.9) else float("nan") for _ in range(ns)]
                    if signed: yo = [0.0 if r.chance(0.5) else (-abs(v) if r.chance(0.3) else v) for v in yo]
                    y += yo
                    f0 += [G.gen_value(r, "any") for _ in range(ns)]
            variants.append((ncell, pos, k, y, f0))
        which = r.below(2)
        for (ncell, pos, k, y, f0) in variants:
            if which == 0:
                line = " ".join(["forcing", str(L), str(ncell), str(ns)] + [str(x) for x in perm] + G.mech_tokens(rx) + [hexd(v) for v in k + y + f0])
                c = Case(line, dict(pos=pos, ns=ns, key="f", ncell=ncell), "forcing-cell", group=(("c13", gid), grp_cell), tags=["L=%d" % L, "forcing"])
            else:
                csc = r.below(2)
                line = " ".join(["jacobian", str(ncell), str(ns), str(csc), str(L)] + [str(x) for x in perm] + G.mech_tokens(rx) + [hexd(v) for v in k + y])
                c = Case(line, dict(pos=pos, ns=None, key="J", ncell=ncell), "jacobian-cell", group=(("c13", gid), grp_cell), tags=["L=%d" % L, "jacobian"])
            if L and ncell % L: c.tags.append("partial_group")
            if L and ncell < L: c.tags.append("ncell<L")
            cs.append(c)
        gid += 1
    # LU / linear solve blocks
    for _ in range(n):
        kind = r.below(4); L = r.pick(Ls); csc = r.below(2); nn = r.rng(1, 6)
        es = G.gen_pattern(r, nn, density=r.unit() * 0.5)
        zeros = r.chance(0.4)
        av1 = G.diag_dominant_values(r, nn, es, 1); b1 = [(0.0 if (zeros and r.chance(0.4)) else G.gen_value(r, "any")) for _ in range(nn)]
        for _ in range(3):
            blocks = r.rng(1, 2 * max(L, 1) + 1); pos = r.below(blocks)
            av = []; b = []
            for bl in range(blocks):
                if bl == pos: av += av1; b += b1
                else: av += G.diag_dominant_values(r, nn, es, 1); b += [(0.0 if (zeros and r.chance(0.6)) else G.gen_value(r, "any")) for _ in range(nn)]
            line = " ".join(["lu", str(kind), str(nn), str(csc), str(L), str(blocks)] + G.pairs_tokens(es) + [hexd(v) for v in av] + [hexd(0.0)] + [hexd(v) for v in b])
            c = Case(line, dict(pos=pos, key="x", ns=nn, ncell=blocks), "lu-cell", group=(("c13", gid), grp_cell), tags=["L=%d" % L, "lu", "kind=%d" % kind])
            if L and blocks % L: c.tags.append("partial_group")
            cs.append(c)
        gid += 1
    # rate constants: one cell's conditions and custom parameters among different neighbours (neighbours often share its
    # temperature / pressure / air density exactly)
    for _ in range(n):
        line0, m0 = gen_rates_case(r, Ls)
        t0 = line0.split(); nc0, nl = m0["ncell"], m0["nlabels"]
        ptoks = t0[4:len(t0) - 3 * nc0 - nc0 * nl]
        cond1 = m0["conds"][:3]; val1 = m0["vals"][:nl]
        for _ in range(3):
            ncell = r.rng(1, 3 * max(m0["L"], 1) + 1); pos = r.below(ncell)
            conds = []; vals = []
            for c in range(ncell):
                if c == pos:
                    conds += cond1; vals += val1
                else:
                    cc = [r.logu(150, 350), r.logu(1.0, 1.1e5), r.logu(1e-3, 1e2)]
                    for q in range(3):
                        if r.chance(0.5): cc[q] = cond1[q]
                    conds += cc
                    vals += [(val1[q] if r.chance(0.3) else r.pick([1e-7, 2.5e-8, 1.0, 3.0, 1e9, r.unit()])) for q in range(nl)]
            line = " ".join(["rates", str(m0["L"]), str(ncell), str(m0["nproc"])] + ptoks + [hexd(x) for x in conds + vals])
            c = Case(line, dict(pos=pos, key="k", ns=None, ncell=ncell), "rates-cell", group=(("c13", gid), grp_cell), drift_ok=rates_drift_ok,
                     tags=["L=%d" % m0["L"], "rates"])
            if m0["L"] and ncell % m0["L"]: c.tags.append("partial_group")
            cs.append(c)
        gid += 1
    # N identical cells evolve like one cell
    for _ in range(n // 4):
        p = gen_solve_problem(r, env, Ls, stiff=r.chance(0.3))
        ns = p["ns"]; nrx = len(p["rx"])
        k1 = p["k"][:nrx]; y1 = p["y"][:ns]
        for ncell in (1, r.rng(2, 2 * max(p["L"], 1) + 1)):
            q = dict(p); q["ncell"] = ncell; q["k"] = k1 * ncell; q["y"] = y1 * ncell
            cs.append(Case(problem_line(q, trace=0), dict(ns=ns, ncell=ncell, y=q["y"]), "solve-identical", group=(("c13", gid), grp_identical_cells), tags=["identical_cells"]))
        gid += 1
    return cs

def grp_cell(a, b):
    def cellvals(c):
        cmd, d = parse_kv(c.impl_out or "")
        vals = d.get(c.meta["key"])
        if vals is None:
            return None
        per = len(vals) // c.meta["ncell"]
        return vals[c.meta["pos"] * per:(c.meta["pos"] + 1) * per]
    va, vb = cellvals(a), cellvals(b)
    if va is None or vb is None:
        return None if a.impl_out == b.impl_out else f"[{a.kind}] outcome differs: {(a.impl_out or '')[:60]} / {(b.impl_out or '')[:60]}"
    if va != vb:
        return f"[{a.kind}] a cell's result changed bit-wise when other cells / the cell count changed (cell {a.meta['pos']} of {a.meta['ncell']} vs cell {b.meta['pos']} of {b.meta['ncell']})"
    return None

def grp_identical_cells(a, b):
    """a = one cell, b = N copies of it: same status and counters (else an accept/reject decision fell within rounding of
    its threshold -- the shared error norm sums N copies in another order -- and nothing is concluded), and every cell
    of b equal to the single cell up to rounding relative to the cell's largest concentration"""
    sa, sb = parse_solve(a.impl_out or ""), parse_solve(b.impl_out or "")
    if sa is None or sb is None:
        return None
    ns = a.meta["ns"]
    if sa["status"] != sb["status"] or sa["stats"] != sb["stats"]:
        b.tags.append("history_diverged")
        return None
    if sa["status"] in ("NaNDetected", "InfDetected") or explosive(a.meta["y"], sa["y"]):
        return None
    scale = max([abs(v) for v in sa["y"][:ns] if v == v] + [1e-300])
    for cidx in range(b.meta["ncell"]):
        for i in range(ns):
            u = sa["y"][i]; v = sb["y"][cidx * ns + i]
            if (u != u) and (v != v): continue
            if abs(u - v) > 1e-7 * scale * max(1, sa["stats"]["steps"]):
                return f"N identical cells do not evolve like one cell (identical step histories): cell {cidx} species {i}: {v!r} vs {u!r}"
    return None

SPNAMES = ["O3", "NO", "NO2", "OH", "HO2", "CO", "CH4", "H2O2"]

def gen_build_case(r, errors=False, multi_phase=False):
    ng = r.rng(0 if errors and r.chance(0.2) else 1, 5)
    names = r.shuffle(SPNAMES)[:ng + 3]
    gas = names[:ng]
    # non-gas phases: usually at most one (the unordered_map's iteration order is then irrelevant and the model can
    # predict the state order); `multi_phase` draws two or three (judged by the order-independent oracle only)
    phase_names = r.shuffle(["aq", "org", "ice"])[:(r.rng(2, 3) if multi_phase else r.below(2))]
    nph = len(phase_names)
    def decl(n, param=False):
        has = r.chance(0.5) and not param   # a tolerance property on a parameterized (non-state) species is outside the property
        return [n, "1" if param else "0", "1" if has else "0", hexd(r.pick([1e-5, 1e-8, 1e-12, 2.5e-4]) if has else 0.0)]
    gas_decl = [decl(n) for n in gas]
    if ng and r.chance(0.15):
        gas_decl.append(decl("M", param=True))
    sysdecl = [str(len(gas_decl))] + [t for d in gas_decl for t in d]
    sysdecl += [str(nph)]
    tol = {}
    for d in gas_decl:
        if d[1] == "0": tol[d[0]] = unhex(d[3]) if d[2] == "1" else 1e-3
    aq_full = []
    for pn in phase_names:
        pool = names[ng:ng + r.rng(1, 2)]
        # the same species (bare name) may live in the gas phase and in other phases
        sp = []
        for n in pool:
            if gas and r.chance(0.4): n = r.pick(gas)
            if n not in sp: sp.append(n)
        decls = [decl(n) for n in sp]
        sysdecl += [pn, r.pick(["-", pn, pn + "ueous", "gas"]), str(len(sp))] + [t for d in decls for t in d]
        for d in decls:
            aq_full.append(pn + "." + d[0])
            tol[pn + "." + d[0]] = unhex(d[3]) if d[2] == "1" else 1e-3
    avail = gas + aq_full
    nrx = r.rng(1, 4)
    rxt = [str(nrx)]
    used = set()
    for _ in range(nrx):
        nr = r.rng(1, 2); np_ = r.rng(0, 2)
        rs = [r.pick(avail) if avail else "X" for _ in range(nr)]
        ps = [r.pick(avail) if avail else "X" for _ in range(np_)]
        if errors and r.chance(0.1):
            if r.chance(0.5): rs[0] = "Unknown"
            elif ps: ps[0] = "Unknown"
            else: rs[0] = "Unknown"
        # third bodies: parameterized (non-state) species named in a reaction, on either side; they are "used" names
        # for SpeciesUsed() but not state variables, whether or not the system lists them
        tb_r = [r.pick(["M", "N2"])] if r.chance(0.3) else []
        tb_p = list(tb_r) if (tb_r and r.chance(0.4)) else []
        rxt.append(str(nr + len(tb_r)))
        for n in rs: rxt += [n, "0"]; used.add(n)
        for n in tb_r: rxt += [n, "1"]
        rxt.append(str(np_ + len(tb_p)))
        for n in ps: rxt += [n, "0", hexd(r.pick([1.0, 0.5, 2.0]))]; used.add(n)
        for n in tb_p: rxt += [n, "1", hexd(1.0)]
    hasSys = 0 if (errors and r.chance(0.08)) else (2 if r.chance(0.25) else 1)     # 2: the builder held another system before
    hasRx = r.pick([0, 2]) if (errors and r.chance(0.12)) else 1
    ignoreUnused = 1 if not errors else r.below(2)
    reorder = r.below(2)
    line = " ".join(["build", str(hasSys), str(hasRx), str(ignoreUnused), str(reorder)] + sysdecl + rxt)
    meta = dict(gas=gas, aq=aq_full, avail=avail, used=used, hasSys=hasSys, hasRx=hasRx, ignoreUnused=ignoreUnused, reorder=reorder,
                tol=tol, nph=nph)
    return line, meta

def oracle_build(c, out):
    m = c.meta
    exp_err = None
    if not m["hasSys"]: exp_err = "err MICM_Solver_Builder 2"
    elif m["hasRx"] != 1: exp_err = "err MICM_Solver_Builder 3"
    elif len(m["tol"]) == 0: exp_err = "err MICM_Solver_Builder 4"
    if exp_err:
        return None if out == exp_err else f"expected '{exp_err}', implementation gave '{(out or '')[:80]}'"
    if out is None or out.startswith("ub") or out == "hang":
        return f"Build() outcome '{out}'"
    unknown = [n for n in m["used"] if n not in m["tol"]]
    unused = [n for n in m["tol"] if n not in m["used"]]
    if out.startswith("err"):
        if unknown and out.startswith("err MICM_Process_Set"): return None
        if unused and not m["ignoreUnused"] and out == "err MICM_Solver_Builder 1": return None
        return f"unexpected error '{out}' for a valid configuration"
    if unknown:
        return "a reaction names an unknown species but Build() succeeded"
    if unused and not m["ignoreUnused"]:
        return "unused species present and not allowed, but Build() succeeded"
    cmd, d = parse_kv(out)
    mp = dict((kv.rsplit(":", 1)[0], int(kv.rsplit(":", 1)[1])) for kv in d.get("map", []))
    names = d.get("names", [])
    n = len(m["tol"])
    if sorted(mp.values()) != list(range(n)) or set(mp.keys()) != set(m["tol"].keys()):
        return f"name map is not a bijection onto 0..{n-1}: {mp}"
    for nm, idx in mp.items():
        if idx >= len(names) or names[idx] != nm:
            return f"variable_names[{idx}] != '{nm}'"
    at = [unhex(v) for v in d.get("atol", [])]
    for nm, idx in mp.items():
        if at[idx] != m["tol"][nm]:
            return f"absolute tolerance of '{nm}' is {at[idx]!r}, declared {m['tol'][nm]!r}"
    return None

def g_c14(r, tier, env, Ls):
    cs = []
    for _ in range(200 if tier == "quick" else 3000):
        line, meta = gen_build_case(r, errors=False)
        cs.append(Case(line, meta, "build", oracle=oracle_build, tags=["reorder=%d" % meta["reorder"], "phases=%d" % meta["nph"]]))
    # DiagonalMarkowitzReorder: exhaustive over all n x n patterns
    nmax = 3 if tier == "quick" else 4
    for n in range(1, nmax + 1):
        for bits in range(1 << (n * n)):
            if n == 4 and tier == "thorough" and bits % 7 != 0 and False:
                continue
            b = [(bits >> q) & 1 for q in range(n * n)]
            cs.append(Case(" ".join(["markowitz", str(n)] + [str(x) for x in b]), dict(n=n), "markowitz", oracle=oracle_perm, tags=["markowitz_n=%d" % n]))
    # several non-gas phases: the order of their species in the state follows the unordered_map's iteration order, which
    # the model cannot know in advance -- judged by the order-independent oracle (bijection, names, tolerance by name)
    for _ in range(60 if tier == "quick" else 1000):
        line, meta = gen_build_case(r, errors=False, multi_phase=True)
        cs.append(Case(line, meta, "build-multiphase", oracle=oracle_build, compare=False, tags=["reorder=%d" % meta["reorder"], "phases=%d" % meta["nph"]]))
    # permutation invariance of the per-species solution (reorder on/off, species listed in different orders), tolerances by name
    cs += gen_bsolve_groups(r, env, Ls, 30 if tier == "quick" else 500, "c14b")
    cs += gen_cpassign(r, Ls, 40 if tier == "quick" else 600)
    return cs

def gen_cpassign(r, Ls, n):
    """copy-assignment between States of two solvers whose internal species orders differ; all reads by name"""
    cs = []
    for _ in range(n):
        L = r.pick(Ls); ns = r.rng(2, 6); ncell = r.rng(1, 2 * max(L, 1) + 1)
        perm1 = r.shuffle(range(ns)); perm2 = r.shuffle(range(ns))
        if r.chance(0.2): perm2 = list(perm1)
        reorder2 = r.below(2)
        v1 = [r.logu(1e-2, 1e2) for _ in range(ns * ncell)]; v2 = [r.logu(1e-2, 1e2) for _ in range(ns * ncell)]
        j = r.below(ns); newv = [r.logu(1e-2, 1e2) for _ in range(ncell)]; dt = r.logu(1e-2, 1e1)
        # the State assigned onto may belong to a solver for another cell count; in a grouped layout counts of the same
        # group have the same storage size
        ncell2 = 0
        if r.chance(0.5):
            if L > 1:
                g0 = ((ncell - 1) // L) * L
                cand = [q for q in range(g0 + 1, g0 + L + 1) if q != ncell]
                ncell2 = r.pick(cand) if cand else 0
            else:
                ncell2 = r.pick([ncell + 1, max(1, ncell - 1)])
                if ncell2 == ncell: ncell2 = 0
        toks = ["cpassign", str(L), str(ns), str(ncell), str(reorder2), str(ncell2)] + [str(x) for x in perm1] + [str(x) for x in perm2] \
            + [hexd(v) for v in v1] + [hexd(v) for v in v2] + [str(j)] + [hexd(v) for v in newv] + [hexd(dt)]
        meta = dict(L=L, ns=ns, ncell=ncell, v1=v1, v2=v2, j=j, newv=newv, perm1=perm1, perm2=perm2, reorder2=reorder2)
        cs.append(Case(" ".join(toks), meta, "cpassign", oracle=oracle_cpassign,
                       tags=["cpassign", "orders_differ=%d" % int(perm1 != perm2 or reorder2 == 1), "other_cell_count=%d" % int(ncell2 != 0)]))
    return cs

def oracle_cpassign(c, out):
    cmd, d = parse_kv(out or "")
    if cmd != "cpassign":
        return f"copy-assignment case outcome '{(out or '')[:80]}'"
    m = c.meta; ns, ncell = m["ns"], m["ncell"]
    def vals(k): return [unhex(x) for x in d.get(k, [])]
    def first(got, exp):
        q = next((i for i in range(len(exp)) if i >= len(got) or got[i] != exp[i]), None)
        return None if q is None else (q // ncell, q % ncell, got[q] if q < len(got) else None, exp[q])
    ctx = f"(species orders {m['perm1']} vs {m['perm2']}, reorder of the second solver={m['reorder2']}, L={m['L']})"
    f = first(vals("byname"), m["v1"])
    if f: return f"after dst = src (States of two solvers), dst reads species s{f[0]} in cell {f[1]} as {f[2]!r}; the source holds {f[3]!r} {ctx}"
    f = first(vals("rev"), m["v2"])
    if f: return f"after dst = src (the other direction), dst reads species s{f[0]} in cell {f[1]} as {f[2]!r}; the source holds {f[3]!r} {ctx}"
    if d.get("cons", ["0"])[0] != "1":
        return f"after dst = src the name map, the name list or the SHAPE (rows/columns of the dense members) of dst are not the source's {ctx}"
    f = first(vals("after_a"), m["v1"])
    if f: return f"setting a concentration on the assigned copy changed the source: s{f[0]} cell {f[1]} {ctx}"
    exp = list(m["v1"]); exp[m["j"] * ncell:(m["j"] + 1) * ncell] = m["newv"]
    f = first(vals("after_b"), exp)
    if f: return f"SetConcentration(s{m['j']}) on the assigned copy: s{f[0]} cell {f[1]} reads {f[2]!r}, expected {f[3]!r} {ctx}"
    if d.get("solve_same", ["0"])[0] != "1":
        return f"solving the copy-assigned State does not give, species by species, the result of solving a copy-constructed State {ctx}"
    return None

def oracle_perm(c, out):
    cmd, d = parse_kv(out or "")
    if cmd != "markowitz":
        return f"DiagonalMarkowitzReorder outcome '{(out or '')[:60]}'"
    p = [int(x) for x in d.get("perm", [])]
    if sorted(p) != list(range(c.meta["n"])):
        return f"reordering {p} is not a permutation"
    return None

KINDS = ["arrhenius", "troe", "ternary", "branched", "tunneling", "surface", "user"]

def gen_rates_case(r, Ls):
    L = r.pick(Ls); ncell = r.rng(1, 3 * max(L, 1) + 1); nproc = r.rng(1, 6)
    toks = ["rates", str(L), str(ncell), str(nproc)]
    procs = []
    procs_full = []
    nlabels = 0
    for i in range(nproc):
        kind = r.below(7)
        npr = 0 if kind == 5 else r.pick([0, 0, 1, 2])
        toks += [str(kind), str(npr)]
        if kind == 0:
            v = [r.logu(1e-14, 1e-8), r.pick([0.0, 1.0, -2.3, 0.5]), r.pick([0.0, -120.0, 250.0]), r.pick([300.0, 298.0]), r.pick([0.0, 1e-6])]
        elif kind in (1, 2):
            v = [r.logu(1e-32, 1e-28), r.pick([0.0, -1.6, -3.1]), r.pick([0.0, 50.0]), r.logu(1e-13, 1e-10), r.pick([0.0, 0.5]), r.pick([0.0, -20.0]), r.pick([0.6, 0.45]), r.pick([1.0, 1.3])]
        elif kind == 3:
            alk = r.below(2)
            toks.append(str(alk))
            v = [r.logu(1e-13, 1e-11), r.pick([0.0, 200.0, -150.0]), r.pick([0.1, 0.3, 0.6])]
        elif kind == 4:
            v = [r.logu(1e-13, 1e-10), r.pick([0.0, 500.0]), r.pick([0.0, 1e7, -3e6])]
        elif kind == 5:
            toks.append("surf%d" % i)
            v = [r.logu(1e-6, 1e-4), r.logu(0.01, 0.2), r.pick([1.0, 0.1, 0.74])]
            nlabels += 2
        else:
            toks.append("usr%d" % i)
            v = [r.pick([1.0, 2.0, 0.5, r.unit()])]
            nlabels += 1
        toks += [hexd(x) for x in v]
        extra = None
        if kind == 3:
            nn = r.rng(1, 9)
            toks.append(str(nn)); extra = (alk, nn)
        procs.append((kind, npr))
        procs_full.append((kind, npr, v, extra))
    conds = []
    for c in range(ncell):
        # neighbouring cells often share some of their conditions (same T and P, other air density, ...), and the air
        # density may come from the host model rather than from the ideal-gas law
        T = conds[-3] if (c and r.chance(0.35)) else r.logu(150, 350)
        Pp = conds[-2] if (c and r.chance(0.35)) else r.logu(1.0, 1.1e5)
        if c and r.chance(0.2): air = conds[-1]
        elif r.chance(0.6): air = Pp / (8.31446261815324 * T)
        else: air = r.logu(1e-3, 1e2)
        conds += [T, Pp, air]
    toks += [hexd(x) for x in conds]
    vals = [r.pick([1e-7, 2.5e-8, 1.0, 3.0, 1e9, r.unit()]) for _ in range(ncell * nlabels)]
    toks += [hexd(x) for x in vals]
    return " ".join(toks), dict(L=L, ncell=ncell, nproc=nproc, procs=procs, nlabels=nlabels, procs_full=procs_full, conds=conds, vals=vals)

def ulp_close(a, b, n=16):
    if a == b or (a != a and b != b): return True
    if a != a or b != b: return False
    ia = struct.unpack("<q", struct.pack("<d", a))[0]; ib = struct.unpack("<q", struct.pack("<d", b))[0]
    return abs(ia - ib) <= n

def rates_drift_ok(c, io, mo):
    """transcendental formulas: the compiler may rewrite pow(x,2) etc.; accept a few ulp"""
    ci, di = parse_kv(io or ""); cm, dm = parse_kv(mo or "")
    if ci != "rates" or cm != "rates" or di.get("labels") != dm.get("labels"): return False
    a, b = di.get("k", []), dm.get("k", [])
    return len(a) == len(b) and all(ulp_close(unhex(x), unhex(y)) for x, y in zip(a, b))

def rates_reference(m):
    """independent evaluation of the documented formulas (Python floats; same libm)"""
    import math
    AV = 6.02214076e23; GAS = 1.380649e-23 * AV
    out = []
    for c in range(m["ncell"]):
        T, P, air = m["conds"][3 * c:3 * c + 3]
        col = 0
        row = []
        for (kind, npr, v, extra) in m["procs_full"]:
            fixed = 1.0
            for _ in range(npr): fixed *= air
            if kind == 0:
                A, B, C, D, E = v; k = A * math.exp(C / T) * math.pow(T / D, B) * (1.0 + E * P)
            elif kind in (1, 2):
                k0A, k0B, k0C, kiA, kiB, kiC, Fc, N = v
                k0 = k0A * math.exp(k0C / T) * math.pow(T / 300.0, k0B)
                kinf = kiA * math.exp(kiC / T) * math.pow(T / 300.0, kiB)
                f = math.pow(Fc, N / (N + math.pow(math.log10(k0 * air / kinf), 2)))
                k = (k0 * air if kind == 1 else k0) / (1.0 + k0 * air / kinf) * f
            elif kind == 3:
                X, Y, a0 = v; alk, n = extra
                def Af(temp, dens, k0):
                    a = k0 * dens; b = 0.43 * math.pow(temp / 298.0, -8)
                    return a / (1.0 + a / b) * math.pow(0.41, 1.0 / (1.0 + math.pow(math.log10(a / b), 2)))
                k0 = 2.0e-22 * AV * 1.0e-6 * math.exp(n)
                z = Af(293.0, 2.45e19 / AV * 1.0e6, k0) * (1.0 - a0) / a0
                pre = X * math.exp(-Y / T); at = Af(T, air, k0)
                k = pre * (z / (z + at)) if alk else pre * (at / (at + z))
            elif kind == 4:
                A, B, C = v; k = A * math.exp(-B / T + C / math.pow(T, 3))
            elif kind == 5:
                diff, mw, prob = v
                radius = m["vals"][c * m["nlabels"] + col]; number = m["vals"][c * m["nlabels"] + col + 1]; col += 2
                speed = math.sqrt(8.0 * GAS / (math.pi * mw) * T)
                k = 4.0 * number * math.pi * radius * radius / (radius / diff + 4.0 / (speed * prob))
            else:
                k = m["vals"][c * m["nlabels"] + col] * v[0]; col += 1
            row.append(k * fixed)
        out += row
    return out

def oracle_rates(c, out):
    cmd, d = parse_kv(out or "")
    if cmd != "rates":
        return f"CalculateRateConstants outcome '{(out or '')[:80]}'"
    m = c.meta
    got = [unhex(v) for v in d.get("k", [])]
    exp = rates_reference(m)
    if len(got) != len(exp):
        return f"{len(got)} rate constants returned, {len(exp)} expected"
    nproc = m["nproc"]
    for i, (g, e) in enumerate(zip(got, exp)):
        if (g != g) and (e != e): continue
        if abs(g - e) > 1e-9 * max(abs(g), abs(e)) + 1e-300:
            return (f"rate constant of reaction {i % nproc} in cell {i // nproc} is {g!r}; its own formula with its own parameters and this cell's "
                    f"conditions gives {e!r} (L={m['L']}, cells={m['ncell']})")
    return None

def g_c15(r, tier, env, Ls):
    cs = []
    for _ in range(300 if tier == "quick" else 5000):
        line, meta = gen_rates_case(r, Ls)
        tags = ["L=%d" % meta["L"], "labels=%d" % meta["nlabels"]]
        if meta["L"] and meta["ncell"] % meta["L"]: tags.append("partial_group")
        if r.chance(0.3):
            # the builder was used for another mechanism before (processes are then copy-ASSIGNED): same expected result
            c = Case("ratesx" + line[len("rates"):], meta, "rates", oracle=oracle_rates, drift_ok=rates_drift_ok, tags=tags + ["builder_reused"],
                     nontrivial=meta["nproc"] > 1, model_line=line)
            cs.append(c); continue
        if meta["nlabels"] >= 1 and r.chance(0.35):
            # the custom parameters are set POSITIONALLY (UnsafelySetCustomRateParameters, rows in the State's label order)
            c = Case("ratesu" + line[len("rates"):], meta, "rates", oracle=oracle_rates, drift_ok=rates_drift_ok, tags=tags + ["positional_setter"],
                     nontrivial=meta["nproc"] > 1, model_line=line)
            cs.append(c); continue
        cs.append(Case(line, meta, "rates", oracle=oracle_rates, drift_ok=rates_drift_ok, tags=tags, nontrivial=meta["nproc"] > 1))
    return cs

def g_c17(r, tier, env, Ls):
    n = 80 if tier == "quick" else 1500
    cs = []
    for gid in range(n):
        p = gen_solve_problem(r, env, Ls, stiff=r.chance(0.4))
        p["perm"] = list(range(p["ns"]))
        second_solver(r, env, p)
        ops = [["new", "0"]] + problem_ops(r, p, 0)[:-1]      # state 0 holds a problem, not yet solved
        live = {0}
        nxt = 1
        if r.chance(0.6):                                      # a State of the second solver is alive too
            ops += [["new2", "1"]] + problem_ops(r, p, 1)[:-1]; live.add(1); nxt = 2
        for _ in range(r.rng(2, 10)):
            z = r.below(7)
            s = r.pick(sorted(live))
            if z <= 1 and nxt < 7:
                ops.append([r.pick(["cpc", "cpa", "cpa0", "cpax"]), str(s), str(nxt)]); live.add(nxt); nxt += 1
            elif z == 2 and nxt < 7:
                ops.append([r.pick(["mvc", "mva"]), str(s), str(nxt)]); live.discard(s); live.add(nxt); nxt += 1
            elif z == 3 and len(live) > 1:
                d = r.pick(sorted(live - {s}))
                ops.append([r.pick(["cpa", "cpa", "cpax"]), str(s), str(d)])
            elif z == 4:
                ops.append(["solve", str(s), hexd(r.logu(1e-2, 1e2))])
            elif z == 5:
                ops.append(["dump", str(s)])
            else:
                ops += problem_ops(r, p, s)[:-1]
            if r.chance(0.25):                                 # the solvers themselves are moved around
                ops.append([r.pick(["mvs_c", "mvs_a", "mvs_x"]), str(r.below(2))])
        # finally: a copy must behave like its source: copy s -> 7, solve both with the same dt
        s = r.pick(sorted(live))
        dt = hexd(r.logu(1e-2, 1e2))
        ops += [["cpc", str(s), "7"], ["solve", "7", dt], ["solve", str(s), dt]]
        c = Case(hist_line(p, ops), dict(p), "hist-copy", oracle=oracle_copy_equal, tags=["integ=%d" % p["integ"], "kind=%d" % p["kind"], "ops=%d" % len(ops)])
        cs.append(c)
    # "moved-to / copied States behave exactly like their sources did": the same problem solved on the State that
    # received it directly, and on a State it reached through a chain of moves and copies (every flavour: construction /
    # assignment, onto an empty slot, onto a live State of the same solver, onto a default-constructed or foreign State)
    for gid in range(n // 2):
        p = gen_solve_problem(r, env, Ls, stiff=r.chance(0.4))
        p["perm"] = list(range(p["ns"]))
        second_solver(r, env, p)
        prob = problem_ops(r, p, 0)
        setup, solve = prob[:-1], prob[-1]
        base = [["new", "0"]] + setup + [solve]
        cs.append(Case(hist_line(p, base), dict(p), "hist-direct", group=(("c17m", gid), grp_last_equal), tags=["moved_vs_direct"]))
        for _ in range(2):
            ops = [["new", "0"]] + setup
            cur = 0
            for q in range(r.rng(1, 3)):
                nxt = cur + 1
                how = r.pick(["mvc", "mva", "mva_live", "cpc", "cpa", "cpa0", "cpax"])
                if how == "mva_live":
                    ops += [["new", str(nxt)], ["mva", str(cur), str(nxt)]]
                else:
                    ops.append([how, str(cur), str(nxt)])
                cur = nxt
            ops.append([solve[0], str(cur)] + solve[2:])
            cs.append(Case(hist_line(p, ops), dict(p), "hist-moved", group=(("c17m", gid), grp_last_equal), tags=["moved_vs_direct"]))
    cs += gen_cpassign(r, Ls, 30 if tier == "quick" else 400)
    return cs

def oracle_copy_equal(c, out):
    if out is None or out.startswith("ub") or out == "hang" or out.startswith("err"):
        return f"history of copies/moves/solves ended with '{(out or '')[:80]}'"
    parts = out.split(" | ")
    if "nostate" in parts or any(p.startswith("err") for p in parts):
        return f"operation on a live State failed: {[p for p in parts if p.startswith('err') or p == 'nostate'][:2]}"
    if parts[-1] != parts[-2]:
        return f"solving on a copy differs from solving on the original: {parts[-2][:100]} vs {parts[-1][:100]}"
    return None

def gen_sparse_case(r, Ls, n=None, es=None):
    n = n if n is not None else r.rng(1, 5)
    L = r.pick(Ls); csc = r.below(2); blocks = r.rng(1, 2 * max(L, 1) + 1)
    es = es if es is not None else G.gen_pattern(r, n, full_diag=r.chance(0.6))
    line = " ".join(["sparse", str(n), str(csc), str(L), str(blocks)] + G.pairs_tokens(es))
    return line, dict(n=n, L=L, csc=csc, blocks=blocks, es=es)

def gen_sparse_reassign_case(r, Ls):
    """a live matrix holding pattern A is assigned from a builder with pattern B: every probe must see B only"""
    n0 = r.rng(1, 5); n = r.rng(1, 5)
    L = r.pick(Ls); csc = r.below(2); blocks = r.rng(1, 2 * max(L, 1) + 1); blocks0 = r.rng(1, 2 * max(L, 1) + 1)
    es0 = G.gen_pattern(r, n0, full_diag=r.chance(0.7)); es = G.gen_pattern(r, n, full_diag=r.chance(0.7))
    line = " ".join(["sparse", str(n), str(csc), str(L), str(blocks)] + G.pairs_tokens(es) + ["prev", str(n0), str(blocks0)] + G.pairs_tokens(es0))
    return line, dict(n=n, L=L, csc=csc, blocks=blocks, es=es)

def oracle_sparse(c, out):
    cmd, d = parse_kv(out or "")
    if cmd != "sparse":
        return f"sparse matrix construction outcome '{(out or '')[:60]}'"
    m = c.meta; n, blocks, es = m["n"], m["blocks"], set(m["es"])
    size = int(d["size"][0])
    idx = d["idx"]
    seen = {}
    q = 0
    for b in range(blocks + 1):
        for rr in range(n + 1):
            for cc in range(n + 1):
                v = idx[q]; q += 1
                inrange = b < blocks and rr < n and cc < n
                if not inrange:
                    if v != "E3": return f"out-of-range access ({b},{rr},{cc}) gave '{v}' instead of ElementOutOfRange"
                elif (rr, cc) not in es:
                    if v != "E5": return f"structural zero ({rr},{cc}) gave '{v}' instead of ZeroElementAccess"
                else:
                    if v.startswith("E"): return f"present element ({b},{rr},{cc}) refused with {v}"
                    k = int(v)
                    if k >= size: return f"element ({b},{rr},{cc}) maps to slot {k} outside storage of size {size}"
                    if k in seen: return f"elements {seen[k]} and {(b, rr, cc)} alias slot {k}"
                    seen[k] = (b, rr, cc)
    z = d["zero"]; q = 0
    for rr in range(n + 1):
        for cc in range(n + 1):
            v = z[q]; q += 1
            if rr < n and cc < n:
                if v != ("0" if (rr, cc) in es else "1"): return f"IsZero({rr},{cc}) = {v}"
            elif v != "E3": return f"IsZero out of range gave {v}"
    diag = [int(x) for x in d.get("diag", [])]
    exp_diag = [k for k, e in seen.items() if e[0] == 0 and e[1] == e[2]]
    if sorted(diag) != sorted(exp_diag): return f"DiagonalIndices {diag} != slots of present diagonal elements {sorted(exp_diag)}"
    addd = set(int(x) for x in d.get("addd", []))
    exp_add = {k for k, e in seen.items() if e[1] == e[2]}
    if not exp_add <= addd: return "AddToDiagonal missed a diagonal element of a real block"
    extra = addd - exp_add
    if any(k in seen for k in extra): return "AddToDiagonal changed an off-diagonal element"
    return None

def oracle_dense(c, out):
    cmd, d = parse_kv(out or "")
    if cmd != "dense":
        return f"dense matrix outcome '{(out or '')[:60]}'"
    m = c.meta
    size = int(d["size"][0])
    addr = [int(x) for x in d.get("addr", [])]
    if len(set(addr)) != len(addr): return "two logical elements alias one slot"
    if any(a >= size for a in addr): return "element address outside storage"
    ext = [unhex(x) for x in d.get("ext", [])]
    if ext != [float(a + 1) for a in addr]: return "row extraction does not return the addressed elements"
    cext = [unhex(x) for x in d.get("cext", [])]
    if cext != ext:
        q = next((i for i in range(min(len(ext), len(cext))) if ext[i] != cext[i]), min(len(ext), len(cext)))
        return (f"row extraction through a const reference does not return the addressed elements: row {q // max(m['cols'], 1)} column "
                f"{q % max(m['cols'], 1)} (rows={m['rows']}, cols={m['cols']}, L={m.get('L')})")
    ax = sorted(int(x) for x in d.get("axpy", []))
    if ax != sorted(addr): return "Axpy does not act on exactly the logical elements"
    asg = [unhex(x) for x in d.get("asg", [])]
    q = 0
    for x in range(m["rows"]):
        for y in range(m["cols"]):
            if asg[addr[q]] != float(1000 * (x + 1) + y): return f"row assignment wrote element ({x},{y}) to the wrong slot"
            q += 1
    asgx = [unhex(x) for x in d.get("asgx", [])]
    if asgx:
        q = 0
        for x in range(m["rows"]):
            for y in range(m["cols"]):
                if asgx[addr[q]] != float(1000 * (x + 1) + y):
                    return (f"row assignment from a longer vector (last row first): element ({x},{y}) holds {asgx[addr[q]]!r} instead of {float(1000 * (x + 1) + y)!r} "
                            f"(rows={m['rows']}, cols={m['cols']}): the surplus of another row's vector was written into it")
                q += 1
    thr = size // 2 + 0.5
    mx = set(int(x) for x in d.get("max", [])); mn = set(int(x) for x in d.get("min", []))
    val = lambda i: (i * 7919) % (size + 1) + 1
    for a in addr:
        if (val(a) < thr) != (a in mx): return f"Max did not act correctly on the logical element stored at slot {a}"
        if (val(a) > thr) != (a in mn): return f"Min did not act correctly on the logical element stored at slot {a}"
    return None

def g_c19(r, tier, env, Ls):
    cs = []
    nmax = 3 if tier == "quick" else 4
    for n in range(1, nmax + 1):
        for es in G.all_patterns(n, full_diag=False):
            if not es: continue
            # every ordering policy for every small pattern (n = 4: one random policy per pattern plus a sweep below)
            cfgs = [(L, csc) for L in Ls for csc in (0, 1)] if n <= 3 else [(r.pick(Ls), r.below(2))]
            for (L, csc) in cfgs:
                blocks = r.rng(1, 2 * max(L, 1) + 1)
                line = " ".join(["sparse", str(n), str(csc), str(L), str(blocks)] + G.pairs_tokens(es))
                meta = dict(n=n, L=L, csc=csc, blocks=blocks, es=es)
                cs.append(Case(line, meta, "sparse", oracle=oracle_sparse, tags=["exhaustive_n=%d" % n, "L=%d" % L, "csc" if csc else "csr"]))
    for _ in range(200 if tier == "quick" else 3000):
        line, meta = gen_sparse_case(r, Ls, n=r.rng(4, 8))
        cs.append(Case(line, meta, "sparse", oracle=oracle_sparse, tags=["random", "L=%d" % meta["L"]]))
    for _ in range(200 if tier == "quick" else 3000):
        line, meta = gen_sparse_reassign_case(r, Ls)
        cs.append(Case(line, meta, "sparse-reassigned", oracle=oracle_sparse, tags=["reassigned_from_builder", "L=%d" % meta["L"]]))
    for L in Ls:
        for rows in range(0, 3 * max(L, 1) + 2):
            for cols in range(0, 7):
                cs.append(Case(f"dense {L} {rows} {cols}", dict(L=L, rows=rows, cols=cols), "dense", oracle=oracle_dense,
                               tags=["dense", "L=%d" % L], nontrivial=rows * cols > 0))
    return cs

def g_c20(r, tier, env, Ls):
    cs = []
    for _ in range(250 if tier == "quick" else 4000):
        line, meta = gen_build_case(r, errors=True)
        tags = ["build"]
        if not meta["hasSys"]: tags.append("missing_system")
        if meta["hasRx"] == 0: tags.append("missing_reactions")
        if meta["hasRx"] == 2: tags.append("reactions_reset_to_empty")
        if not meta["tol"]: tags.append("no_species")
        cs.append(Case(line, meta, "build-errors", oracle=oracle_build, tags=tags))
    # empty species list, no reaction names a species, default reordering (used to hang)
    cs.append(Case("build 1 1 1 1 0 0 1 0 0", dict(gas=[], aq=[], avail=[], used=set(), hasSys=1, hasRx=1, ignoreUnused=1, reorder=1, tol={}),
                   "build-errors", oracle=oracle_build, tags=["no_species", "reorder"]))
    # rejected setter calls inside otherwise valid histories
    bad_ops = ["bad_species", "bad_conc_len", "bad_label", "bad_param_len", "bad_conc_scalar", "bad_unsafe_cells", "bad_unsafe_params"]
    for _ in range(60 if tier == "quick" else 1000):
        p = gen_solve_problem(r, env, Ls)
        p["perm"] = list(range(p["ns"]))
        ops = [["new", "0"]]
        for _ in range(r.rng(1, 4)):
            ops += problem_ops(r, p, 0)
            for _ in range(r.rng(1, 3)):
                ops.append([r.pick(bad_ops), "0"])
            ops.append(["dump", "0"])
        ops += problem_ops(r, p, 0)
        cs.append(Case(hist_line(p, ops), dict(p), "hist-errors", oracle=oracle_hist_errors, tags=["setters", "integ=%d" % p["integ"]]))
    # the setters of State with arbitrary arguments (names, labels, lengths), each followed by a dump of the whole State;
    # expectation computed by an independent Python transcription of the documented behaviour (xsetters_spec)
    for _ in range(80 if tier == "quick" else 1500):
        p = gen_solve_problem(r, env, Ls)
        p["perm"] = list(range(p["ns"]))
        ops, exp = gen_xsetter_history(r, p)
        cs.append(Case(hist_line(p, ops), dict(p, expect=exp), "hist-setters", oracle=oracle_xsetters,
                       tags=["xsetters", "ncell=%d" % min(p["ncell"], 3)] + sorted(set("x:" + e.split(" ")[0] + ("" if not e.startswith("err") else ":" + e[4:]) for e in exp if not e.startswith("dumpv")))))
    # absolute tolerances of the wrong length (known finding KF-C20-1: no check in the source); the model covers
    # correct-length tolerance vectors only, so these cases are judged by the oracle alone
    for _ in range(6 if tier == "quick" else 60):
        p = gen_solve_problem(r, env, Ls)
        p["perm"] = list(range(p["ns"]))
        n = r.pick([0, max(p["ns"] - 1, 0), p["ns"] + 1])
        ops = [["new", "0"]] + problem_ops(r, p, 0)[:-1] + [["xsettol", "0", str(n)] + [hexd(1e-6)] * n + [hexd(1e-6)], ["solve", "0", hexd(r.logu(1e-2, 1e1))]]
        cs.append(Case(hist_line(p, ops), dict(p, tol_len=n), "hist-tol-length", oracle=oracle_tol_length, compare=False, tags=["tolerance_length=%s" % ("0" if n == 0 else "short" if n < p["ns"] else "long")]))
    # documented errors outside builder/State: expectation written down here independently of the model
    def E(line, expect, tag):
        cs.append(Case(line, dict(expect=expect), "errc", oracle=oracle_errc, tags=["errc", tag]))
    for nr in range(0, 5):
        E(f"errc surface {nr}", "err MICM_Process 1" if nr > 1 else f"errc ok reactants={nr}", "surface")
        # ... whatever kind the reactants are (third bodies count), through the builder and through the constructor
        for mask in range(1, 1 << nr):
            for ctor in (0, 1):
                E(f"errc surface {nr} {mask} {ctor}", "err MICM_Process 1" if nr > 1 else f"errc ok reactants={nr}", "surface_third_body")
    for k, ex in [(0, "ok"), (1, "err MICM_Species 1"), (2, "err MICM_Species 1"), (3, "err MICM_Species 1"), (4, "err MICM_Species 1"), (5, "err MICM_Species 2"),
                  (6, "err MICM_Species 1"), (7, "err MICM_Species 1"), (8, "err MICM_Species 1"), (9, "err MICM_Species 1"), (10, "err MICM_Species 1")]:
        E(f"errc property {k}", ex, "property")
    for _ in range(30):
        L = r.pick([0, 3]); rows = r.rng(0, 5); c0 = r.rng(0, 4)
        lens = [c0 if r.chance(0.8) else r.rng(0, 4) for _ in range(rows)]
        ok = all(x == lens[0] for x in lens) if lens else True
        E(" ".join(["errc", "ragged", str(L), str(rows)] + [str(x) for x in lens]), (f"errc ok {rows}x{lens[0] if lens else 0}") if ok else "err MICM_Matrix 2", "ragged")
    for _ in range(20):
        L = r.pick([0, 3]); cols = r.rng(0, 5); ln = r.rng(0, 7)
        E(f"errc rowassign {L} {cols} {ln}", "errc ok" if ln >= cols else "err MICM_Matrix 1", "rowassign")
    for blocks in (1, 2, 3):
        E(f"errc missingblock {blocks}", "errc ok 1" if blocks == 1 else "err MICM_Matrix 4", "missingblock")
    for _ in range(20):
        n = r.rng(1, 4); x = r.rng(0, 5); y = r.rng(0, 5)
        E(f"errc builderelem {n} {x} {y}", "errc ok 1" if (x < n and y < n) else "err MICM_Matrix 3", "builderelem")
    # matrix errors are covered through the sparse probes (ElementOutOfRange, ZeroElementAccess)
    for _ in range(40 if tier == "quick" else 500):
        line, meta = gen_sparse_case(r, Ls)
        cs.append(Case(line, meta, "sparse", oracle=oracle_sparse, tags=["matrix_errors"]))
    return cs

def gen_xsetter_history(r, p):
    """random calls of the State setters with valid and invalid arguments on State 0 (no solve in between), plus the
    outcome and the dump an independent transcription of state.inl predicts"""
    ns, ncell, nrx = p["ns"], p["ncell"], len(p["rx"])
    vars_ = [[0.0] * ns for _ in range(ncell)]; pars = [[0.0] * nrx for _ in range(ncell)]
    atol = [1e-3] * ns; rtol = [1e-6]
    ops = [["new", "0"]]; exp = ["ok"]
    cnt = [0]
    def val():
        cnt[0] += 1
        return float(cnt[0]) + r.pick([0.0, 0.5, 0.25])        # never equal to anything the State already holds
    def name_c(): return r.pick(["s%d" % r.below(ns)] * 4 + ["Xx", "s%d" % ns, "r0", "S0"])
    def name_p(): return r.pick(["r%d" % r.below(nrx)] * 4 + ["Xx", "r%d" % nrx, "s0", "R0"])
    def length(): return r.pick([ncell] * 4 + [ncell + 1, max(ncell - 1, 0), 0])
    def dump():
        return "dumpv v=" + " ".join(hexd(v) for row in vars_ for v in row) + " p=" + " ".join(hexd(v) for row in pars for v in row) + \
               " a=" + " ".join(hexd(v) for v in atol) + " r=" + hexd(rtol[0])
    def set_one(conc, name, vals):
        """the single setter: unknown name first (code 1 / 2), then the number of values (code 3 / 5)"""
        names = ["s%d" % i for i in range(ns)] if conc else ["r%d" % i for i in range(nrx)]
        if name not in names: return "err MICM_State %d" % (1 if conc else 2)
        if len(vals) != ncell: return "err MICM_State %d" % (3 if conc else 5)
        j = names.index(name)
        for c in range(ncell): (vars_ if conc else pars)[c][j] = vals[c]
        return "ok"
    for _ in range(r.rng(3, 10)):
        z = r.below(9)
        if z <= 1:
            conc = z == 0; name = name_c() if conc else name_p(); vals = [val() for _ in range(length())]
            ops.append(["xsetc" if conc else "xsetp", "0", name, str(len(vals))] + [hexd(v) for v in vals]); exp.append(set_one(conc, name, vals))
        elif z <= 3:
            conc = z == 2; name = name_c() if conc else name_p(); v = val()
            ops.append(["xsetc1" if conc else "xsetp1", "0", name, hexd(v)])
            names = ["s%d" % i for i in range(ns)] if conc else ["r%d" % i for i in range(nrx)]
            if name not in names: exp.append("err MICM_State %d" % (1 if conc else 2))
            elif ncell != 1: exp.append("err MICM_State %d" % (3 if conc else 5))
            else: (vars_ if conc else pars)[0][names.index(name)] = v; exp.append("ok")
        elif z <= 5:
            # bulk setters whose outcome does not depend on the unordered_map's iteration order: all entries valid and
            # distinct, or a single entry, or all entries rejected for the same reason
            conc = z == 4; names = ["s%d" % i for i in range(ns)] if conc else ["r%d" % i for i in range(nrx)]
            mode = r.below(3)
            if mode == 0:
                ks = r.shuffle(names)[:r.rng(0, len(names))]; ent = [(k, [val() for _ in range(ncell)]) for k in ks]
            elif mode == 1:
                ent = [((name_c() if conc else name_p()), [val() for _ in range(length())])]
            else:
                ent = [(k, [val() for _ in range(ncell)]) for k in ["Xx", "Yy", "Zz"][:r.rng(1, 3)]]
            ops.append(["xsetcs" if conc else "xsetps", "0", str(len(ent))] + [t for (k, vs) in ent for t in [k, str(len(vs))] + [hexd(v) for v in vs]])
            out = "ok"
            for (k, vs) in ent:
                out = set_one(conc, k, vs)
                if out != "ok": break
            exp.append(out)
        elif z == 6:
            # order-dependent bulk call: checked on the real object against the prefix law; followed by a reset of every
            # column so that the dump is order-independent again
            conc = r.chance(0.5); names = ["s%d" % i for i in range(ns)] if conc else ["r%d" % i for i in range(nrx)]
            ks = r.shuffle(names)[:r.rng(1, len(names))] + ["Xx"][:r.below(2)]
            ent = [(k, [val() for _ in range(ncell if r.chance(0.8) else ncell + 1)]) for k in r.shuffle(ks)]
            ops.append([("xsetcs" if conc else "xsetps") + "_law", "0", str(len(ent))] + [t for (k, vs) in ent for t in [k, str(len(vs))] + [hexd(v) for v in vs]])
            exp.append("law ok")
            for k in names:
                vs = [val() for _ in range(ncell)]
                ops.append(["xsetc" if conc else "xsetp", "0", k, str(ncell)] + [hexd(v) for v in vs]); exp.append(set_one(conc, k, vs))
        elif z == 7:
            nrows = r.pick([ncell] * 3 + [ncell + 1, max(ncell - 1, 0)])
            rows = []
            for i in range(nrows):
                ln = r.pick([nrx] * 4 + [nrx + 2, max(nrx - 1, 0)]) if i else r.pick([nrx] * 4 + [nrx + 1, max(nrx - 1, 0)])
                rows.append([val() for _ in range(ln)])
            ops.append(["xunsafep", "0", str(nrows)] + [t for row in rows for t in [str(len(row))] + [hexd(v) for v in row]])
            if nrows != ncell: exp.append("err MICM_State 5")
            elif len(rows[0]) != nrx: exp.append("err MICM_State 4")
            else:
                out = "ok"
                for i in range(ncell):
                    if len(rows[i]) < nrx: out = "err MICM_Matrix 1"; break      # rows before it were written
                    pars[i] = rows[i][:nrx]
                exp.append(out)
        else:
            at = [r.pick([1e-3, 1e-6, 1e-9]) for _ in range(ns)]; rt = r.pick([1e-3, 1e-6])
            ops.append(["xsettol", "0", str(ns)] + [hexd(v) for v in at] + [hexd(rt)]); exp.append("ok")
            atol[:] = at; rtol[0] = rt
        ops.append(["dumpv", "0"]); exp.append(dump())
    return ops, exp

def oracle_xsetters(c, out):
    if out is None or out.startswith("ub") or out == "hang" or not out.startswith("hist "):
        return f"history of setter calls ended with '{(out or '')[:80]}'"
    parts = out[5:].split(" | ")
    exp = c.meta["expect"]
    if len(parts) != len(exp):
        return f"{len(parts)} results for {len(exp)} operations"
    for i, (g, e) in enumerate(zip(parts, exp)):
        if g != e:
            return f"operation #{i}: expected '{e[:120]}', the implementation gave '{g[:120]}'"
    return None

def oracle_tol_length(c, out):
    """a tolerance vector of the wrong length must be rejected with a documented error (C20); the source accepts it"""
    n, ns = c.meta["tol_len"], c.meta["ns"]
    if n == ns:
        return None
    if out is not None and out.startswith("hist "):
        parts = out[5:].split(" | ")
        if len(parts) >= 2 and parts[-2].startswith("err MICM"):
            return None          # rejected with a system_error: what the property asks for
    how = "the call returned normally" if (out or "").startswith("hist ") else f"the history ended with '{(out or '')[:40]}'"
    return (f"SetAbsoluteTolerances accepted a vector of the wrong length: {n} values for {ns} species were not rejected ({how}); the error norm then "
            f"indexes the vector cyclically / out of range / modulo zero")

def oracle_errc(c, out):
    exp = c.meta["expect"]
    if exp == "ok":
        return None if (out or "").startswith("errc ok") else f"expected success, got '{(out or '')[:80]}'"
    if out != exp:
        return f"expected '{exp}', implementation gave '{(out or '')[:80]}'"
    return None

EXPECT_BAD = {"bad_species": "err MICM_State 1", "bad_conc_len": "err MICM_State 3", "bad_label": "err MICM_State 2",
              "bad_param_len": "err MICM_State 5", "bad_unsafe_cells": "err MICM_State 5", "bad_unsafe_params": "err MICM_State 4"}

def oracle_hist_errors(c, out):
    if out is None or out.startswith("ub") or out == "hang" or not out.startswith("hist "):
        return f"history with rejected calls ended with '{(out or '')[:80]}'"
    parts = out[5:].split(" | ")
    toks = c.line.split()
    # recover op names in order
    names = [t for t in toks if t in ("new", "setc", "setk", "settol", "solve", "dump", "garbage") or t.startswith("bad_")]
    if len(names) != len(parts):
        return None
    last_dump = None
    for nm, res in zip(names, parts):
        if nm in EXPECT_BAD and res != EXPECT_BAD[nm]:
            return f"{nm}: expected '{EXPECT_BAD[nm]}', got '{res[:60]}'"
        if nm == "bad_conc_scalar":
            exp = "ok" if c.meta["ncell"] == 1 else "err MICM_State 3"
            if res != exp: return f"{nm}: expected '{exp}', got '{res[:60]}'"
        if nm in ("setc", "setk", "new") and res != "ok":
            return f"valid call {nm} failed after rejected calls: '{res[:60]}'"
        if nm == "solve" and (res.startswith("err") or res == "nostate"):
            return f"solve failed after rejected calls: '{res[:60]}'"
    return None

def oracle_rosparams(c, out):
    """the translator's reading of the header must equal what the compiled C++ holds"""
    cmd, d = parse_kv(out or "")
    if cmd != "rosparams":
        return f"rosparams outcome '{(out or '')[:60]}'"
    t = c.meta["table"]
    if int(d["stages"][0]) != t["stages"]:
        return f"{c.meta['name']}: stages {d['stages'][0]} vs translator {t['stages']}"
    for k in ("a", "c", "m", "e", "alpha", "gamma"):
        got = [unhex(v) for v in d[k]]
        if got != list(t[k]):
            return f"{c.meta['name']}: table {k}_ differs between compiled code and translator: {got} vs {t[k]}"
    if [int(v) for v in d["newf"]] != [1 if b else 0 for b in t["new_function_evaluation"]]:
        return f"{c.meta['name']}: new_function_evaluation_ differs"
    sc = [unhex(v) for v in d["scal"]]
    exp = [t["estimator_of_local_order"], t["round_off"], t["factor_min"], t["factor_max"], t["rejection_factor_decrease"],
           t["safety_factor"], t["h_min"], t["h_max"], t["h_start"]]
    if sc != exp:
        return f"{c.meta['name']}: scalar parameters differ: {sc} vs {exp}"
    if int(d["maxsteps"][0]) != int(t["max_number_of_steps"]):
        return f"{c.meta['name']}: max_number_of_steps differs"
    be = [unhex(v) for v in d["be"]]
    b = c.meta["be"]
    if be != [b["small"], b["h_start"], float(b["max_number_of_steps"])] + list(b["time_step_reductions"]):
        return "backward Euler defaults differ between compiled code and translator"
    return None

def oracle_c08_numeric(c, out):
    fails = O.c08_numeric(c.meta["ros"])
    return fails[0] if fails else None

def g_c08(r, tier, env, Ls):
    cs = []
    for i, name in enumerate(ROS_NAMES):
        cs.append(Case(f"rosparams {i}", dict(name=name, table=env["ros"][name], be=env["be"]), "rosparams", oracle=oracle_rosparams,
                       compare=False, tags=[name]))
    cs.append(Case("rosparams 0", dict(ros=env["ros"]), "order-conditions", oracle=oracle_c08_numeric, compare=False, tags=["numeric_conditions"]))
    # accuracy sentence (measured, supporting data only): BE on a linear decay reproduces the implicit-Euler map
    n = 40 if tier == "quick" else 400
    for _ in range(n):
        k = r.logu(1e-3, 1e3); y0 = r.logu(1e-3, 1e3); dt = r.logu(1e-2, 1e2)
        b = dict(env["be"]); b["h_start"] = 0.0
        p = dict(integ=1, L=r.pick(Ls), csc=r.below(2), kind=r.below(4), ncell=1, ns=1, perm=[0], rx=[([0], [])], k=[k], y=[y0],
                 atol=[1e-12], rtol=1e-9, dt=dt, ptoks=G.be_param_tokens(b))
        cs.append(Case(problem_line(p, clamp=0, trace=0), dict(k=k, y0=y0, dt=dt), "be-linear", oracle=oracle_be_linear, tags=["be_linear"]))
    # ... and, with an h_start that makes several internal steps, the COMPOSITION of the implicit-Euler maps
    # (I - H_i A)^-1 over the failure-free step schedule H_1, H_2, ... of backward_euler.inl, which adds up to time_step
    for _ in range(60 if tier == "quick" else 1500):
        L = r.pick(Ls); ns = r.rng(1, 4)
        rx = linear_mech(r, ns)
        dt = r.logu(1e-1, 1e2)
        b = dict(env["be"]); b["h_start"] = r.pick([0.0, dt / r.pick([2, 3, 4, 10, 64]), r.logu(1e-2, 1e1)])
        p = dict(integ=1, L=L, csc=r.below(2), kind=r.below(4), ncell=1, ns=ns, perm=r.shuffle(range(ns)), rx=rx,
                 k=[r.logu(1e-2, 1e1) for _ in rx], y=[r.logu(1e-2, 1e2) for _ in range(ns)], atol=[1e-12] * ns, rtol=1e-9, dt=dt,
                 ptoks=G.be_param_tokens(b))
        p["h_start"] = b["h_start"]
        cs.append(Case(problem_line(p, clamp=0, trace=0), dict(p), "be-linear-composed", oracle=oracle_be_linear_composed,
                       tags=["be_linear_composed", "h_start=%s" % ("default" if b["h_start"] == 0.0 else "custom")]))
    # accuracy sentence, Rosenbrock: A -> B with a known solution, every coefficient set and layout, several cells with
    # very different rate constants, non-uniform per-species tolerances
    for _ in range(60 if tier == "quick" else 1500):
        L = r.pick(Ls); ncell = r.rng(1, 2 * max(L, 1) + 2)
        pname = r.pick(ROS_NAMES)
        atol = [r.pick([1e-2, 1e-6, 1e-10]), r.pick([1e-2, 1e-6, 1e-10])]
        p = dict(integ=0, L=L, csc=r.below(2), kind=r.below(4), ncell=ncell, ns=2, perm=r.shuffle(range(2)), rx=[([0], [(1, 1.0)])],
                 k=[r.pick([1e-9, 1e-3, 1.0, r.logu(1e-2, 1e1)]) for _ in range(ncell)],
                 y=[v for _ in range(ncell) for v in (r.logu(1e-1, 1e1), r.pick([0.0, r.logu(1e-1, 1e1)]))],
                 atol=atol, rtol=r.pick([1e-4, 1e-6, 1e-8]), dt=r.logu(1e-1, 1e1), ptoks=G.ros_param_tokens(env["ros"][pname], {}), pname=pname)
        if L > 1 and ncell > L and ncell % L and r.chance(0.5):
            # only the cells of the trailing partial group carry chemistry on the time scale of the step
            whole = (ncell // L) * L
            p["k"] = [1e-9] * whole + [r.pick([0.5, 1.0, 3.0]) for _ in range(ncell - whole)]
        elif r.chance(0.4):
            # the cells that carry the fast chemistry differ from cell to cell; one species is held to a much tighter
            # tolerance than the other: a tolerance applied to the wrong species or cell then shows at once
            p["atol"] = r.pick([[1e-10, 1e-2], [1e-2, 1e-10]]); p["rtol"] = 1e-8
            p["k"] = [r.pick([1e-9, 1.0, 1.0, 3.0]) for _ in range(ncell)]
        cs.append(Case(problem_line(p, clamp=1, trace=0), dict(p), "solve", oracle=oracle_ros_accuracy, tags=["ros_accuracy", pname, "L=%d" % L]))
    # ... and a NON-linear problem whose final state remembers a sub-microsecond transient: A -> B (k1) competing with
    # A + A -> C (k2), k1 ~ 2 k2 A0 ~ 1e6..1e8 1/s; the default first step of 1e-6 s must be rejected and refined
    for _ in range(30 if tier == "quick" else 600):
        L = r.pick(Ls); ncell = r.rng(1, max(L, 1) + 1); pname = r.pick(ROS_NAMES)
        ks = []; ys = []
        for _c in range(ncell):
            k1 = r.pick([1e6, 1e7, 1e8]) * r.logu(0.5, 2.0); A0 = r.logu(0.5, 2.0); k2 = k1 / (2.0 * A0) * r.logu(0.5, 2.0)
            ks += [k1, k2]; ys += [A0, 0.0, 0.0]
        p = dict(integ=0, L=L, csc=r.below(2), kind=r.below(4), ncell=ncell, ns=3, perm=r.shuffle(range(3)),
                 rx=[([0], [(1, 1.0)]), ([0, 0], [(2, 1.0)])], k=ks, y=ys, atol=[1e-12] * 3, rtol=r.pick([1e-6, 1e-7, 1e-8]), dt=r.logu(1e-3, 1.0),
                 ptoks=G.ros_param_tokens(env["ros"][pname], {}), pname=pname)
        cs.append(Case(problem_line(p, clamp=1, trace=0), dict(p), "solve", oracle=oracle_ros_accuracy_branching,
                       tags=["ros_accuracy_branching", pname, "L=%d" % L]))
    # "... tightening as tolerances tighten": the same A -> B problem at a loose and at a 10^4 times tighter tolerance
    for gid in range(20 if tier == "quick" else 400):
        L = r.pick(Ls); ncell = r.rng(1, 2 * max(L, 1) + 1); pname = r.pick(ROS_NAMES)
        base = dict(integ=0, L=L, csc=r.below(2), kind=r.below(4), ncell=ncell, ns=2, perm=r.shuffle(range(2)), rx=[([0], [(1, 1.0)])],
                    k=[r.logu(1e-1, 1e1) for _ in range(ncell)], y=[v for _ in range(ncell) for v in (r.logu(1e-1, 1e1), 0.0)],
                    dt=r.logu(1e-1, 1e1), ptoks=G.ros_param_tokens(env["ros"][pname], {}), pname=pname)
        for (rt, at) in ((1e-3, 1e-5), (1e-7, 1e-9)):
            p = dict(base, rtol=rt, atol=[at, at])
            cs.append(Case(problem_line(p, clamp=1, trace=0), dict(p), "solve", oracle=oracle_ros_accuracy, group=(("c08t", gid), grp_tightening),
                           tags=["ros_tightening", pname]))
    return cs

def max_rel_error_ab(c):
    s = parse_solve(c.impl_out or "")
    if s is None or s["status"] != "Converged": return None
    m = c.meta; worst = 0.0
    for cell in range(m["ncell"]):
        k = m["k"][cell]; A0 = m["y"][2 * cell]
        A = A0 * math.exp(-k * m["dt"])
        worst = max(worst, abs(s["y"][2 * cell] - A) / max(abs(A0), 1e-300))
    return worst

def grp_tightening(a, b):
    """a = loose tolerance, b = tight tolerance on the same problem: the error must not grow when the tolerance tightens"""
    ea, eb = max_rel_error_ab(a), max_rel_error_ab(b)
    if ea is None or eb is None: return None
    # both already at the level of the tight tolerance (or of rounding): nothing left to tighten
    if eb <= 10.0 * b.meta["rtol"] or eb <= 1e-9:
        a.tags.append("tightening_already_at_tolerance")
        return None
    if eb > ea + 1e-12:
        return (f"tightening the tolerances from rtol={a.meta['rtol']} to {b.meta['rtol']} made the result worse: relative error {ea:.3e} -> {eb:.3e} "
                f"({a.meta['pname']}, L={a.meta['L']}, cells={a.meta['ncell']})")
    if eb < 0.1 * ea: a.tags.append("error_shrank_10x")
    return None

def oracle_ros_accuracy(c, out):
    """A -> B (yield 1): A(t) = A0 exp(-k t), B(t) = B0 + A0 - A(t).  A Converged result must be within a modest multiple
    (10 x) of (atol_i + rtol |y_i|) per accepted step of the exact solution."""
    s = parse_solve(out or "")
    if s is None:
        return f"Solve did not return a result: '{(out or '')[:80]}'"
    if s["status"] != "Converged":
        return None
    m = c.meta
    nacc = max(1, s["stats"]["acc"])
    for cell in range(m["ncell"]):
        k = m["k"][cell]; A0, B0 = m["y"][2 * cell], m["y"][2 * cell + 1]
        A = A0 * math.exp(-k * m["dt"]); B = B0 + A0 * (-math.expm1(-k * m["dt"]))
        for i, (got, ex) in enumerate(((s["y"][2 * cell], A), (s["y"][2 * cell + 1], B))):
            allow = 10.0 * nacc * (m["atol"][i] + m["rtol"] * abs(ex))
            if abs(got - ex) > allow + 1e-13 * abs(ex):
                return (f"Converged, but species {'AB'[i]} in cell {cell} is {got!r}; the exact solution is {ex!r}: off by {abs(got - ex):.3e} = "
                        f"{abs(got - ex) / (m['atol'][i] + m['rtol'] * abs(ex)):.1f} x (atol + rtol|y|) after {nacc} accepted steps "
                        f"({m['pname']}, L={m['L']}, cells={m['ncell']}, atol={m['atol']}, rtol={m['rtol']})")
    return None

def oracle_ros_accuracy_branching(c, out):
    """A -> B (k1), A + A -> C (k2):  A(t) = k1 A0 e / (k1 + 2 k2 A0 (1 - e)),  e = exp(-k1 t);
    B(t) = k1/(2 k2) ln(1 + 2 k2 A0 (1 - e) / k1);  C = (A0 - A - B) / 2.  Same allowance as oracle_ros_accuracy."""
    s = parse_solve(out or "")
    if s is None:
        return f"Solve did not return a result: '{(out or '')[:80]}'"
    if s["status"] != "Converged":
        return None
    m = c.meta
    nacc = max(1, s["stats"]["acc"])
    perm = m["perm"]
    for cell in range(m["ncell"]):
        k1, k2 = m["k"][2 * cell], m["k"][2 * cell + 1]; A0 = m["y"][3 * cell]
        em1 = -math.expm1(-k1 * m["dt"])                      # 1 - e
        A = k1 * A0 * math.exp(-k1 * m["dt"]) / (k1 + 2 * k2 * A0 * em1)
        B = k1 / (2 * k2) * math.log1p(2 * k2 * A0 * em1 / k1)
        C = (A0 - A - B) / 2
        for i, ex in enumerate((A, B, C)):
            got = s["y"][3 * cell + i]
            allow = 10.0 * nacc * (m["atol"][i] + m["rtol"] * abs(ex))
            if abs(got - ex) > allow + 1e-12 * A0:
                return (f"Converged, but species {'ABC'[i]} in cell {cell} is {got!r}; the exact solution of A->B, A+A->C is {ex!r}: off by "
                        f"{abs(got - ex):.3e} = {abs(got - ex) / (m['atol'][i] + m['rtol'] * abs(ex)):.1f} x (atol + rtol|y|) after {nacc} accepted steps "
                        f"({m['pname']}, L={m['L']}, k1={k1:.3g}, k2={k2:.3g}, rtol={m['rtol']}, time_step={m['dt']:.3g})")
    return None

def oracle_be_linear(c, out):
    s = parse_solve(out or "")
    if s is None:
        return f"Solve did not return a result: '{(out or '')[:80]}'"
    if s["status"] != "Converged" or s["stats"]["acc"] != 1:
        return None     # several sub-steps: the closed form below is for one implicit-Euler step
    m = c.meta
    exact = m["y0"] / (1.0 + m["dt"] * m["k"])
    if abs(s["y"][0] - exact) > 1e-9 * abs(exact):
        return f"backward Euler on y' = -k y gave {s['y'][0]!r}, the implicit-Euler map gives {exact!r}"
    return None

def divergence_oracle(pid, c, io, mo):
    """Called for a case on which implementation and model disagree.  The model is what the theorems are about, so a
    disagreement that is far outside rounding, at the first attempt where the two part, is a failing input for the
    property the stream decides; a rounding-sized one is only a broken tie (returns None)."""
    if pid == "C05" and c.kind == "solve-trace" and c.meta.get("integ") == 0:
        return div_ros_trace(c, io, mo)
    if pid in ("C14", "C12") and c.kind == "bsolve":
        return div_by_name(c, io, mo)
    return None

def div_by_name(c, io, mo):
    """by-name Build + Solve: implementation and model both Converged on the same problem, yet a species' concentration
    differs far beyond the tolerances both were asked to meet -- the solution reported under that NAME is not the solution
    of the mechanism as declared (the model's is: C14_solution_by_name, C01, C02)"""
    si, sm = parse_solve(io or ""), parse_solve(mo or "")
    if si is None or sm is None or si["status"] != "Converged" or sm["status"] != "Converged":
        return None
    if len(si["y"]) != len(sm["y"]) or explosive(c.meta["y"], si["y"]) or explosive(c.meta["y"], sm["y"]):
        return None
    m = c.meta; ns = m["ns"]
    scale = max([abs(v) for v in sm["y"] if v == v] + [1e-300])
    nst = max(si["stats"]["steps"], sm["stats"]["steps"], 1)
    for q, (u, v) in enumerate(zip(si["y"], sm["y"])):
        if u != u or v != v:
            continue
        at = m["atol"][q % ns] if m["atol"][q % ns] > 0 else 1e-3
        allow = 1e3 * nst * (at + m["rtol"] * max(abs(u), abs(v))) + 1e-6 * scale
        if abs(u - v) > allow:
            return (f"by-name solve: species s{q % ns} in cell {q // ns} is {u!r}; the mechanism as declared gives {v!r} (both runs Converged; "
                    f"difference {abs(u - v):.3e} > {allow:.3e} = 1000 x steps x (atol + rtol|y|)) [{m.get('cfg')}]")
    return None

def div_ros_trace(c, io, mo):
    if not io or not mo or not io.startswith("solve ") or not mo.startswith("solve "):
        return None
    ai, am = parse_att(io), parse_att(mo)
    ti, tm = parse_trace(io), parse_trace(mo)
    if not ai or not am:
        return None
    def fin(v): return v is not None and v == v and abs(v) != float("inf")
    def rel(x, y):
        sc = max(max((abs(v) for v in x if fin(v)), default=0.0), max((abs(v) for v in y if fin(v)), default=0.0), 1e-300)
        return max((abs(a - b) for a, b in zip(x, y)), default=0.0) / sc
    for q in range(min(len(ai), len(am))):
        if q < min(len(ti), len(tm)):
            a, b = ti[q], tm[q]
            if len(a) != len(b) or not all(fin(v) for v in a + b):
                return None
            d = rel(a, b)
            if d > 1e-8:
                j = max(range(len(a)), key=lambda j_: abs(a[j_] - b[j_]))
                return (f"attempt #{q + 1}: the matrix the implementation factors differs from I/(gamma H) - df/dy(y) at the state the "
                        f"Rosenbrock formulas produce from the {q} earlier attempt(s) (which agree with the model): stored element {j} is {a[j]!r}, "
                        f"the formulas give {b[j]!r}")
            if d > 1e-12:
                return None
        (al_i, e_i), (al_m, e_m) = ai[q], am[q]
        if not (fin(al_i) and fin(al_m)) or abs(al_i - al_m) > 1e-12 * abs(al_m):
            return None
        if e_i is None or e_m is None or not (fin(e_i) and fin(e_m)):
            return None
        de = abs(e_i - e_m) / max(abs(e_m), 1e-8)
        if de > 1e-4:
            return (f"attempt #{q + 1}: the error norm of the implementation is {e_i!r}; the s-stage formulas applied to the state produced by the {q} "
                    f"earlier attempt(s) (which agree with the model) give {e_m!r}")
        if de > 1e-11:
            return None
    return None

def oracle_be_linear_composed(c, out):
    """backward Euler on y' = A y: a Converged run without failed inner loops is the composition of the closed-form
    implicit-Euler maps y -> (I - H A)^-1 y over the step schedule of backward_euler.inl (h_start, doubled after two
    accepted steps, clipped to the remaining interval), and the schedule adds up to time_step"""
    s = parse_solve(out or "")
    if s is None:
        return f"Solve did not return a result: '{(out or '')[:80]}'"
    m = c.meta; st = s["stats"]
    if s["status"] != "Converged" or st["rej"] != 0 or any(v != v or abs(v) == float("inf") for v in s["y"]):
        return None
    dt = m["dt"]; H = min(m["h_start"], dt) if m["h_start"] != 0.0 else dt
    sched = []; t = 0.0; nsucc = 0
    while t < dt and len(sched) < 10000:
        sched.append(H); t += H; nsucc += 1
        if nsucc >= 2: nsucc = 0; H *= 2.0
        H = min(H, dt - t)
    if len(sched) != st["acc"]:
        return (f"backward Euler (linear mechanism, no failed inner loop) accepted {st['acc']} internal steps; the schedule h_start={m['h_start']!r}, "
                f"doubling after two accepted steps, clipped to the rest of time_step={dt!r} has {len(sched)}")
    ns, perm, rx = m["ns"], m["perm"], m["rx"]
    A = [[0.0] * ns for _ in range(ns)]
    for q, (reactants, products) in enumerate(rx):
        j = perm[reactants[0]]; k = m["k"][q]
        A[j][j] -= k
        for (pid, yl) in products:
            A[perm[pid]][j] += yl * k
    y = [0.0] * ns
    for i in range(ns): y[perm[i]] = m["y"][i]
    from fractions import Fraction as Fr
    yq = [Fr(v) for v in y]
    for h in sched:
        M = [[(Fr(1) if i == j else Fr(0)) - Fr(h) * Fr(A[i][j]) for j in range(ns)] + [yq[i]] for i in range(ns)]
        for col in range(ns):
            piv = next(r_ for r_ in range(col, ns) if M[r_][col] != 0)
            M[col], M[piv] = M[piv], M[col]
            for r_ in range(ns):
                if r_ != col and M[r_][col] != 0:
                    f = M[r_][col] / M[col][col]
                    M[r_] = [a - f * b_ for a, b_ in zip(M[r_], M[col])]
        yq = [Fr(float(M[i][ns] / M[i][i])) for i in range(ns)]
    got = [0.0] * ns
    for i in range(ns): got[perm[i]] = s["y"][i]
    scale = max(abs(float(v)) for v in yq) or 1.0
    for i in range(ns):
        e = float(yq[i])
        if abs(got[i] - e) > 1e-7 * max(abs(e), 1e-6 * scale):
            return (f"backward Euler on a linear mechanism: species slot {i} = {got[i]!r}, the composition of the implicit-Euler maps over "
                    f"H = {sched[:6]}{'...' if len(sched) > 6 else ''} (sum = time_step = {dt!r}) gives {e!r}")
    return None

# =============================================================================== C16 (ThreadSanitizer run)
def special_c16(tier, seed):
    import subprocess, hashlib, re, shutil, build_harness
    REPO = build_harness.REPO
    key = build_harness.tree_hash([os.path.join(REPO, "include"), os.path.join(VERIF, "harness")], "tsan")
    outdir = os.path.join(VERIF, "build", "tsan", key)
    exe = os.path.join(outdir, "tsan_driver")
    fails = []
    samples = []
    dist = {}
    if not os.path.exists(exe):
        base = os.path.join(VERIF, "build", "tsan")
        if os.path.isdir(base):
            for d in os.listdir(base):
                shutil.rmtree(os.path.join(base, d), ignore_errors=True)
        os.makedirs(outdir, exist_ok=True)
        r = subprocess.run(["g++", "-std=c++20", "-O1", "-g", "-fsanitize=thread", "-DMICM_DEFAULT_VECTOR_SIZE=4", "-DMICM_VERIF",
                            f"-I{REPO}/include", f"-I{VERIF}/harness", "-w", os.path.join(VERIF, "harness", "tsan_driver.cpp"),
                            "-o", exe, "-pthread"], capture_output=True, text=True)
        if r.returncode != 0:
            shutil.rmtree(outdir, ignore_errors=True)
            return dict(evaluations=0, fails=[("the shared-solver driver does not compile against /repo's current tree", {"stderr": r.stderr[-2000:]}, False)],
                        samples=[], dist={}, nontrivial=0)
    runs = [(2, 4), (4, 4), (8, 3), (16, 2)] if tier == "quick" else [(t, 6) for t in (2, 3, 4, 6, 8, 12, 16)] * 6
    n = 0
    for q, (threads, rounds) in enumerate(runs):
        sd = seed * 100 + q
        r = subprocess.run([exe, str(sd), str(threads), str(rounds)], capture_output=True, text=True,
                           env=dict(os.environ, TSAN_OPTIONS="halt_on_error=0 report_signal_unsafe=0"), timeout=600)
        lines = [l for l in r.stdout.splitlines() if l.startswith("tsan ")]
        n += len(lines)
        dist["threads=%d" % threads] = dist.get("threads=%d" % threads, 0) + len(lines)
        samples += lines[:1]
        if "ThreadSanitizer" in r.stderr:
            m = re.search(r"WARNING: ThreadSanitizer: ([^\n]*)", r.stderr)
            loc = re.findall(r"#\d+ ([^\n]*micm[^\n]*)", r.stderr)[:4]
            fails.append((f"ThreadSanitizer: {m.group(1) if m else 'report'} with {threads} threads sharing one solver",
                          {"cmd": f"{exe} {sd} {threads} {rounds}", "report": r.stderr[:3000], "frames": loc}, True))
        for l in lines:
            if "differ=0 after=0" not in l:
                fails.append((f"threads sharing one solver did not reproduce their serial results bit for bit: {l}",
                              {"cmd": f"{exe} {sd} {threads} {rounds}", "line": l}, True))
        if r.returncode != 0 and "ThreadSanitizer" not in r.stderr:
            fails.append((f"shared-solver driver exited with {r.returncode}", {"cmd": f"{exe} {sd} {threads} {rounds}", "stderr": r.stderr[-1500:]}, True))
        if len(lines) < 5 and r.returncode == 0:
            fails.append(("shared-solver driver produced fewer configurations than expected", {"stdout": r.stdout[-500:]}, False))
    # the documented three-argument overload Solve(time_step, state, parameters) stores the parameters in the shared
    # solver object (known finding KF-C16-1): run it under TSan too, so that the finding stays reproducible and any
    # OTHER race in that mode is still reported
    for q, (threads, rounds) in enumerate([(4, 3)] if tier == "quick" else [(2, 4), (4, 4), (8, 3)]):
        sd = seed * 100 + 50 + q
        r = subprocess.run([exe, str(sd), str(threads), str(rounds), "3arg"], capture_output=True, text=True,
                           env=dict(os.environ, TSAN_OPTIONS="halt_on_error=0 report_signal_unsafe=0"), timeout=600)
        lines = [l for l in r.stdout.splitlines() if l.startswith("tsan ")]
        n += len(lines)
        dist["three_arg_solve threads=%d" % threads] = len(lines)
        if "ThreadSanitizer" in r.stderr:
            reports = r.stderr.split("WARNING: ThreadSanitizer:")[1:]
            known = [rep for rep in reports if "solver.hpp" in rep and ("::Solve(double" in rep) and ("GetState" in rep or rep.count("::Solve(double") >= 2 or "solver_parameters" in rep)]
            other = [rep for rep in reports if rep not in known]
            if known:
                fails.append((f"three-argument Solve overload: data race on the shared solver's stored parameters ({len(known)} ThreadSanitizer report(s), {threads} threads)",
                              {"cmd": f"{exe} {sd} {threads} {rounds} 3arg", "report": known[0][:2500]}, True))
            for rep in other[:2]:
                fails.append((f"ThreadSanitizer: {rep.splitlines()[0].strip()} with {threads} threads using the three-argument Solve",
                              {"cmd": f"{exe} {sd} {threads} {rounds} 3arg", "report": rep[:2500]}, True))
    # static effect extraction (tools/effects.py, clang AST): stores into shared storage from the named entry points.
    # A store found here without a ThreadSanitizer report above is still a violation (the premise of the theorem is
    # gone: Gen/Effects.lean changed and C16_entry_points_write_nothing_shared no longer checks) -- reported with the
    # store site as the replay, marked no-failing-input-found.  The three-argument overload's stores are KF-C16-1.
    try:
        import effects
        eres, est = effects.extract()
        dist["effects: functions with bodies"] = est["functions_with_bodies"]
        dist["effects: analysed contexts"] = est["analysed_contexts"]
        dist["effects: configurations"] = len(est["configurations"])
        sites = {}
        for key, ws in eres.items():
            cfg, ep = key.split(" ")
            for w in ws:
                sites.setdefault((ep == "Solve3", w["member"], w["where"]), []).append((cfg, ep, w["via"]))
        for (is3, member, where), users in sorted(sites.items()):
            if is3 and "solver_parameters" in where.replace("rosenbrock_solver_parameters", "solver_parameters").replace("backward_euler_solver_parameters", "solver_parameters"):
                continue        # the stored parameter struct: KF-C16-1, reported through the ThreadSanitizer run above
            cfgs = sorted({u[0] for u in users}); eps = sorted({u[1] for u in users})
            fails.append((f"{'/'.join(eps)} stores into storage shared by all threads using the solver: {member} at {where} "
                          f"(configurations {', '.join(cfgs)}; call chain {' > '.join(x.split('::')[-1] for x in users[0][2][-4:])})",
                          {"store": member, "where": where, "entry_points": eps, "configurations": cfgs, "call_chain": users[0][2],
                           "theorem": "Micm.C16_entry_points_write_nothing_shared"}, False))
    except Exception as e:
        fails.append((f"static effect extraction failed: {type(e).__name__}: {str(e)[:300]}", {}, False))
    # source scan: shared mutable state reachable from the CPU solver headers
    allow = {"profiler/instrumentation.hpp"}
    pat = re.compile(r"\bmutable\b|const_cast|\bthread_local\b|^\s*static\s+(?!constexpr|const\b|inline\s+const|_assert)[A-Za-z_:<>,\s\*&]+\s+[A-Za-z_]\w*\s*(=|;|\{)")
    inc = os.path.join(REPO, "include", "micm")
    for d, _, files in os.walk(inc):
        if "/cuda" in d or "/jit" in d: continue
        for f in files:
            rel = os.path.relpath(os.path.join(d, f), inc)
            if rel in allow or not f.endswith((".hpp", ".inl")): continue
            for i, ln in enumerate(open(os.path.join(d, f), errors="replace")):
                code = ln.split("//")[0]
                if pat.search(code) and "(" not in code.split("static")[-1][:0]:
                    if re.search(r"^\s*static\s+[\w:<>,\s\*&]+\s+\w+\s*\(", code):   # static member function
                        continue
                    fails.append((f"shared mutable state in {rel}:{i+1}: {ln.strip()[:100]} (the schedule-independence theorem assumes the solver entry points write only the caller's State)",
                                  {"file": rel, "line": i + 1, "text": ln.strip()}, False))
    return dict(evaluations=n, fails=fails, samples=samples[:4], dist=dist, nontrivial=n)

# =============================================================================== C18 (JIT vs CPU, in process)
def special_c18(tier, seed):
    import subprocess, shutil, build_harness
    REPO = build_harness.REPO
    key = build_harness.tree_hash([os.path.join(REPO, "include"), os.path.join(VERIF, "harness")], "jit")
    outdir = os.path.join(VERIF, "build", "jit", key)
    exe = os.path.join(outdir, "jit_driver")
    if not os.path.exists(exe):
        base = os.path.join(VERIF, "build", "jit")
        if os.path.isdir(base):
            for d in os.listdir(base):
                shutil.rmtree(os.path.join(base, d), ignore_errors=True)
        os.makedirs(outdir, exist_ok=True)
        try:
            fl = subprocess.run(["llvm-config-14", "--cxxflags"], capture_output=True, text=True).stdout.split()
            fl = [f for f in fl if not f.startswith("-std=") and f not in ("-fno-exceptions", "-fno-rtti")]
            ld = subprocess.run(["llvm-config-14", "--ldflags", "--libs", "support", "core", "orcjit", "native", "irreader", "--system-libs"],
                                capture_output=True, text=True).stdout.split()
        except FileNotFoundError:
            return dict(evaluations=0, fails=[("llvm-config-14 not available: the JIT backend cannot be built", {}, False)], samples=[], dist={}, nontrivial=0)
        r = subprocess.run(["g++", "-std=c++20", "-O1", "-ffp-contract=off", "-DMICM_DEFAULT_VECTOR_SIZE=4", "-DMICM_ENABLE_LLVM", "-DMICM_VERIF",
                            f"-I{REPO}/include", f"-I{VERIF}/harness", "-w"] + fl + [os.path.join(VERIF, "harness", "jit_driver.cpp"), "-o", exe] + ld,
                           capture_output=True, text=True)
        if r.returncode != 0:
            shutil.rmtree(outdir, ignore_errors=True)
            return dict(evaluations=0, fails=[("the JIT driver does not compile against /repo's current tree", {"stderr": r.stderr[-2000:]}, False)],
                        samples=[], dist={}, nontrivial=0)
    n = 12 if tier == "quick" else 250
    r = subprocess.run([exe, str(seed), str(n)], capture_output=True, text=True, timeout=3000)
    lines = [l for l in r.stdout.splitlines() if l.strip()]
    fails = []
    dist = {}
    nontriv = 0
    for l in lines:
        if l.startswith("jitfn "):
            kv = dict(t.split("=", 1) for t in l.split()[1:] if "=" in t)
            dist["fn L=" + kv.get("L", "?")] = dist.get("fn L=" + kv.get("L", "?"), 0) + 1
            nontriv += 1
            if kv.get("forcing_equal") != "1":
                fails.append((f"JIT-generated forcing function differs from the vectorised CPU kernel: {l[:160]}", {"cmd": f"{exe} {seed} {n}", "line": l}, True))
            if kv.get("jacobian_equal") != "1":
                fails.append((f"JIT-generated Jacobian function differs from the vectorised CPU kernel (flat ids set on the declared pattern, then on the fill-closed one): {l[:160]}",
                              {"cmd": f"{exe} {seed} {n}", "line": l}, True))
            if kv.get("lu_equal") != "1":
                fails.append((f"JIT-generated LU decomposition differs from the vectorised CPU Doolittle decomposition (arbitrary prior contents of L/U): {l[:160]}",
                              {"cmd": f"{exe} {seed} {n}", "line": l}, True))
            if kv.get("solve_equal") != "1":
                fails.append((f"JIT-generated linear solve differs from the vectorised CPU LinearSolver: {l[:160]}", {"cmd": f"{exe} {seed} {n}", "line": l}, True))
            continue
        if not l.startswith("jit "):
            fails.append((f"JIT driver case failed: {l[:120]}", {"cmd": f"{exe} {seed} {n}", "line": l}, True)); continue
        kv = dict(t.split("=", 1) for t in l.split()[1:] if "=" in t)
        dist["L=" + kv.get("L", "?")] = dist.get("L=" + kv.get("L", "?"), 0) + 1
        if int(kv.get("steps", "0")) > 1: nontriv += 1
        if kv.get("equal") != "1":
            fails.append((f"JIT solver result differs from the CPU solver: {l[:200]}", {"cmd": f"{exe} {seed} {n}", "line": l}, True))
        if "guard=err MICM_JIT 1" not in l:
            fails.append((f"a JIT solver for a cell count different from L was not rejected with the JIT error: {l[-60:]}", {"cmd": f"{exe} {seed} {n}", "line": l}, True))
        if kv.get("guard_rt") != "ok":
            fails.append((f"run-time cell-count guard of the JIT solver (diagonal-shift entry point, blocks = L-1, L, L+1, 2L, 3L): wrong decision for {kv.get('guard_rt')} "
                          f"(L={kv.get('L')}): a request for a block count other than L must be rejected, L itself accepted", {"cmd": f"{exe} {seed} {n}", "line": l}, True))
    if r.returncode != 0:
        fails.append((f"JIT driver exited with {r.returncode}", {"stderr": r.stderr[-1500:]}, True))
    if len(lines) < 8 * n and r.returncode == 0:
        fails.append(("JIT driver produced fewer cases than requested", {"stdout": r.stdout[-500:]}, False))
    # ---- the generated programs themselves: IR emitted by the implementation == program generated by the model
    nprog = jit_programs_tie(exe, seed, 6 if tier == "quick" else 120, fails, dist)
    return dict(evaluations=len(lines) + nprog, fails=fails, samples=lines[:3], dist=dist, nontrivial=nontriv + nprog)

def jit_run_prog(prog, L, mem):
    """python execution of a canonical lane-loop program (tools/jit_ir.py) on `mem` = dict a0,a1,a2,buf of lists"""
    def ld(loc, i):
        return mem["buf"][i] if loc[0] == "buf" else mem["a%d" % loc[1]][i + loc[2]]
    def ev(e, i):
        if e[0] == "ld": return ld(e[1], i)
        if e[0] == "const": return unhex(e[1])
        if e[0] == "argval": return mem["s"]
        a, b = ev(e[1], i), ev(e[2], i)
        return a * b if e[0] == "mul" else a + b if e[0] == "add" else a - b if e[0] == "sub" else a / b
    for (dst, e) in prog:
        for i in range(L):
            v = ev(e, i)
            if dst[0] == "buf": mem["buf"][i] = v
            else: mem["a%d" % dst[1]][i + dst[2]] = v
    return mem

def parse_canonical_prog(text):
    """inverse of showProg (Lean) / show_prog (jit_ir.py)"""
    import re
    def loc(t):
        if t == "buf[i]": return ("buf",)
        m = re.match(r"a(\d)\[i\+(\d+)\]$", t)
        return ("arg", int(m.group(1)), int(m.group(2)))
    def expr(t):
        if t.startswith("c") and len(t) == 17: return ("const", t[1:])
        if t == "v1": return ("argval", 1)
        m = re.match(r"(mul|add|sub|div)\((.*)\)$", t)
        if m:
            inner = m.group(2); depth = 0
            for k, ch in enumerate(inner):
                if ch == "(": depth += 1
                elif ch == ")": depth -= 1
                elif ch == "," and depth == 0:
                    return (m.group(1), expr(inner[:k]), expr(inner[k + 1:]))
        return ("ld", loc(t))
    out = []
    for st in [x for x in text.split(";") if x]:
        d, e = st.split("=", 1)
        out.append((loc(d), expr(e)))
    return out

def jit_programs_tie(exe, seed, n, fails, dist):
    import subprocess, re, runner, jit_ir, random
    r = subprocess.run([exe, "ir", str(seed), str(n)], capture_output=True, text=True, timeout=3000)
    if r.returncode != 0:
        fails.append((f"JIT driver (ir mode) exited with {r.returncode}", {"stderr": r.stderr[-1500:]}, False)); return 0
    cases = re.split(r"^CASE ", r.stdout, flags=re.M)[1:]
    model_lines = []; impl_progs = []; ctx = []
    def lst(v): return [] if v == "-" else v.split(",")
    for c in cases:
        hdr = dict(t.split("=", 1) for t in c.splitlines()[0].split())
        L = int(hdr["L"])
        tb = dict(t.split("=", 1) for t in c.splitlines()[1].split()[1:])
        irs = dict(re.findall(r"^IR (\w+)\n(.*?)\nENDIR", c, flags=re.M | re.S))
        flat = [int(x) for x in lst(tb["flat"])]
        if any(f % L for f in flat):
            fails.append((f"jacobian_flat_ids_ of a JitProcessSet<{L}> are not multiples of L: {flat[:8]}", {"case": c[:300]}, True)); continue
        def cnt(xs): return [str(len(xs))] + list(xs)
        fl = ["jitprog", "forcing", str(L)] + cnt(lst(tb["nreact"])) + cnt(lst(tb["nprod"])) + cnt(lst(tb["rids"])) + cnt(lst(tb["pids"])) + cnt(lst(tb["yields"]))
        infos = [x.split(":") for x in lst(tb["jinfo"])]
        jl = ["jitprog", "jacobian", str(L), str(len(infos))] + [y for x in infos for y in x] + cnt(lst(tb["jrids"])) + cnt(lst(tb["jyields"])) \
            + cnt([str(f // L) for f in flat])
        for kind, line in (("forcing", fl), ("jacobian", jl)):
            try:
                fs = jit_ir.parse_module(irs.get(kind, ""))
                if len(fs) != 1: raise jit_ir.IrShapeError(f"{len(fs)} functions in the module")
                f = fs[0]
                if f["L"] not in (None, L): raise jit_ir.IrShapeError(f"loops run to {f['L']}, the process set is for L={L}")
                impl_progs.append(f["prog"])
            except jit_ir.IrShapeError as e:
                impl_progs.append(None)
                fails.append((f"the {kind} function generated by the LLVM backend is not a sequence of lane loops of the modelled shape: {e}",
                              {"cmd": f"{exe} ir {seed} {n}", "case": c.splitlines()[0]}, False))
            model_lines.append(" ".join(line)); ctx.append((kind, L, hdr, tb))
        # LU decomposition + linear solve for the pattern of J; diagonal shift of a whole JIT-built solver
        pats = dict(re.findall(r"^(PATTERN|SOLVERPATTERN) (.*)$", c, flags=re.M))
        def pat_tokens(p):
            kv = dict(t.split("=", 1) for t in p.split())
            es = [x.split(":") for x in lst(kv["elems"])]
            return [kv["n"], str(len(es))] + [y for x in es for y in x]
        jobs = []
        try:
            fs = {("lu" if f["name"].startswith("lu_decompose") else "solve" if f["name"].startswith("linear_solve") else f["name"]): f
                  for f in jit_ir.parse_module(irs.get("lusolve", ""))}
            jobs += [("lu", fs.get("lu"), pats["PATTERN"]), ("solve", fs.get("solve"), pats["PATTERN"])]
            al = [f for f in jit_ir.parse_module(irs.get("solver", "")) if f["name"].startswith("alpha_minus_jacobian")]
            jobs += [("alpha", al[0] if len(al) == 1 else None, pats["SOLVERPATTERN"])]
        except jit_ir.IrShapeError as e:
            fails.append((f"a function generated by the LLVM backend (LU / linear solve / diagonal shift) is not a sequence of lane loops of the modelled shape: {e}",
                          {"cmd": f"{exe} ir {seed} {n}", "case": c.splitlines()[0]}, False))
        for kind, f, pat in jobs:
            if f is None:
                fails.append((f"the {kind} function of the LLVM backend was not generated (or generated twice)", {"cmd": f"{exe} ir {seed} {n}", "case": c.splitlines()[0]}, False))
                continue
            if f["L"] not in (None, L):
                fails.append((f"the {kind} function generated for L={L} loops to {f['L']}", {"cmd": f"{exe} ir {seed} {n}", "case": c.splitlines()[0]}, True)); continue
            impl_progs.append(f["prog"])
            model_lines.append(" ".join(["jitprog", kind, str(L)] + pat_tokens(pat))); ctx.append((kind, L, hdr, tb))
    outs = runner.run_model(model_lines)
    rnd = random.Random(seed)
    for prog, out, line, (kind, L, hdr, tb) in zip(impl_progs, outs, model_lines, ctx):
        dist["prog %s L=%d" % (kind, L)] = dist.get("prog %s L=%d" % (kind, L), 0) + 1
        if prog is None:
            continue
        got = "jitprog %s L=%d prog=%s" % (kind, L, jit_ir.show_prog(prog))
        if got == out:
            continue
        # the programs differ: look for an input on which they compute different values (the model's program is, by
        # C18_jit_forcing / C18_jit_jacobian, the vectorised CPU kernel)
        found = None
        try:
            mprog = parse_canonical_prog(out.split("prog=", 1)[1])
            size = 1 + L * (2 + max([d[2] if d[0] == "arg" else 0 for d, _ in prog + mprog] +
                                    [x[2] for _, e in prog + mprog for x in _locs(e) if x[0] == "arg"]))
            for _ in range(20):
                mem = dict(a0=[rnd.uniform(0.1, 2.0) for _ in range(size)], a1=[rnd.uniform(0.1, 2.0) for _ in range(size)],
                           a2=[rnd.uniform(-1.0, 1.0) for _ in range(size)], buf=[rnd.uniform(-9, 9) for _ in range(L)], s=rnd.uniform(0.5, 50.0))
                cp = lambda: {k: (list(v) if isinstance(v, list) else v) for k, v in mem.items()}
                m1 = jit_run_prog(prog, L, cp())
                m2 = jit_run_prog(mprog, L, cp())
                bad = [(a, q) for a in ("a0", "a1", "a2") for q in range(size) if m1[a][q] != m2[a][q]]
                if bad:
                    a, q = bad[0]
                    found = dict(arg0=mem["a0"], arg1=mem["a1"], arg2=mem["a2"], scalar=mem["s"], array="arg%s" % a[1], slot=q, generated=m1[a][q], cpu_kernel=m2[a][q])
                    break
        except Exception as e:
            found = None
        what = (f"the {kind} function the LLVM backend generates (L={L}, seed={hdr.get('seed')}) is not the program of the vectorised CPU kernel "
                f"(C18_jit_{kind}): first differing loop #{_first_diff(got, out)}")
        if found:
            what += f"; on a random input slot {found['slot']} of {found['array']} is {found['generated']!r} instead of {found['cpu_kernel']!r}"
        fails.append((what, {"cmd": f"{exe} ir {seed} {n}", "model_line": line, "impl": got[:3000], "model": out[:3000], "input": found}, bool(found)))
    return len(model_lines)

def _locs(e):
    if e[0] == "ld": return [e[1]]
    if e[0] in ("const", "argval"): return []
    return _locs(e[1]) + _locs(e[2])

def _first_diff(a, b):
    xa = a.split("prog=", 1)[-1].split(";"); xb = b.split("prog=", 1)[-1].split(";")
    for k in range(max(len(xa), len(xb))):
        if k >= len(xa) or k >= len(xb) or xa[k] != xb[k]:
            return f"{k}: generated '{xa[k] if k < len(xa) else '(none)'}' vs model '{xb[k] if k < len(xb) else '(none)'}'"
    return "none"

# =============================================================================== registry
ASSUME_FP = "floating-point rounding is not modelled in the theorems; the model's Float run is compared bit-for-bit with the C++"
PROPS = {
 "C01": dict(level="proof", gen=g_c01, rule="random mechanisms (0-4 reactants incl. repeats, third bodies, species on both sides) x dense layouts x cell counts; non-trivial = at least one reaction; distinct = distinct case line",
             Ls={"quick": [0, 3], "thorough": [0, 1, 2, 3, 4]}, assumptions=[ASSUME_FP]),
 "C02": dict(level="proof", gen=g_c02, rule="random mechanisms x {CSR,CSC} x {standard,vector(L)} x cell counts; oracle = exact formal derivative", Ls={"quick": [0, 3], "thorough": [0, 1, 2, 3, 4]}, assumptions=[ASSUME_FP]),
 "C03": dict(level="proof", gen=g_c03, rule="all patterns with full diagonal n<=3 (quick) / n<=4 (thorough) + random patterns up to 9x9, 4 algorithms x orderings x block counts x garbage L/U fills; non-trivial = has an off-diagonal element",
             Ls={"quick": [0, 3], "thorough": [0, 1, 2, 3, 4]}, exhaustive={"quick": False, "thorough": False}, assumptions=[ASSUME_FP]),
 "C04": dict(level="proof", gen=g_c04, rule="as C03; oracle = residual b - A x inside gamma_{3n}|L||U||x|", Ls={"quick": [0, 3], "thorough": [0, 1, 2, 3, 4]}, assumptions=[ASSUME_FP]),
 "C05": dict(level="proof", gen=g_c05, rule="stiff problems with large h_start (forces consecutive rejections), each solved with separate-L/U and in-place linear algebra; per-attempt matrices compared with the model bit-for-bit and across variants",
             Ls={"quick": [0, 3], "thorough": [0, 1, 2, 3, 4]}, assumptions=[ASSUME_FP]),
 "C06": dict(level="proof", gen=g_c06, rule="whole solves, time steps 1e-20..1e7 incl. below round-off; oracle = status/final_time/counter consistency", Ls={"quick": [0, 3], "thorough": [0, 1, 2, 3, 4]},
             missing="rounding of present_time + H and termination of the retry loop (relies on H underflow) are outside exact-arithmetic theorems", assumptions=[ASSUME_FP]),
 "C07": dict(level="proof", gen=g_c07, rule="whole solves with perturbed controller parameters (h_min, h_max, h_start, factors, max steps; BE reductions)", Ls={"quick": [0, 3], "thorough": [0, 1, 2, 3, 4]}, assumptions=[ASSUME_FP]),
 "C08": dict(level="proof", gen=g_c08, rule="the five coefficient sets: compiled C++ values vs translator (exact), all algebraic conditions evaluated in exact rationals; BE on linear decay vs the implicit-Euler map",
             Ls={"quick": [0, 3], "thorough": [0, 1, 2, 3, 4]}, exhaustive={"quick": True, "thorough": True},
             missing="the global-error sentence (accuracy of Converged results to a modest multiple of tolerance) is not proved; only the algebraic conditions and the linear BE map are", assumptions=[ASSUME_FP]),
 "C09": dict(level="proof", gen=g_c09, rule="mechanisms with a planted positive conservation law, non-clipping Solve overload; oracle = w.y before/after",
             Ls={"quick": [0, 3], "thorough": [0, 1, 2, 3, 4]}, missing="rounded form is measured, not proved", assumptions=[ASSUME_FP]),
 "C10": dict(level="proof", gen=g_c10, rule="malformed stream: NaN/+-Inf in a concentration or rate constant, negative and huge initial values, regular cases",
             Ls={"quick": [0, 3], "thorough": [0, 1, 2, 3, 4]}, missing="IEEE special-value laws are assumed for Float", assumptions=[ASSUME_FP]),
 "C11": dict(level="proof", gen=g_c11, rule="a problem solved after an arbitrary history (other problems, NaN exits, scratch filled with NaN/1e300) vs on a fresh State; implementation vs implementation, bitwise",
             Ls={"quick": [0, 3], "thorough": [0, 1, 2, 3, 4]}, assumptions=[ASSUME_FP]),
 "C12": dict(level="proof", gen=g_c12, rule="same problem under {Matrix,VectorMatrix<L>} x {CSR,CSC} x 4 LU x species permutations; concentrations compared per species",
             Ls={"quick": [0, 3], "thorough": [0, 1, 2, 3, 4]}, missing="rounded form is measured, not proved", assumptions=[ASSUME_FP]),
 "C13": dict(level="proof", gen=g_c13, rule="one cell's data embedded at different positions among different neighbours (incl. NaN neighbours) and cell counts; N identical cells vs one",
             Ls={"quick": [0, 3], "thorough": [0, 1, 2, 3, 4]}, assumptions=[ASSUME_FP]),
 "C14": dict(level="proof", gen=g_c14, rule="random systems (gas + optional aqueous phase, tolerance properties, reorder on/off) + every n x n pattern for the reordering routine (n<=3 quick, n<=4 thorough)",
             Ls={"quick": [0], "thorough": [0]}, san=1, assumptions=["at most one non-gas phase per generated system (the iteration order of the unordered phase map is then irrelevant)"]),
 "C15": dict(level="proof", gen=g_c15, rule="random mixes of the 7 rate-constant types, T 150-350 K, P 1-1.1e5 Pa, custom parameters set by label; transcendental formulas compared within 16 ulp",
             Ls={"quick": [0, 3], "thorough": [0, 1, 2, 3, 4]}, missing="the formulas are transcribed and compared numerically, not proved", assumptions=[ASSUME_FP]),
 "C16": dict(level="proof", gen=None, special=special_c16, rule="(i) static: for 7 instantiated solver configurations (Rosenbrock/backward Euler x standard/vector x separate/in-place/Mozart LU) and the 4 entry points, every store rooted in the shared solver object or in static/global storage, extracted from the typed clang AST along the whole call graph (virtual dispatch to every override, const parameters included); (ii) dynamic: 2..16 threads sharing one solver, each with its own States (fresh, copy-constructed and copy-assigned from a template State), under ThreadSanitizer; per-thread results compared bitwise with serial runs; the three-argument Solve separately; (iii) source scan for mutable/static/const_cast",
             Ls={"quick": [0], "thorough": [0]},
             trusted_extra=["tools/effects.py: abstract interpretation of the clang-14 JSON AST (ownership roots this/param/local/global; classification of calls without a body in the dump by name; aliasing through pointers stored inside the caller's State is NOT tracked)",
                            "clang 14 front end (template instantiation as in the probe translation unit)", "the C++ memory model: absence of conflicting accesses implies serial equivalence"],
             explanation="Theorems: (C16) in the interleaving model every thread obtains, under every schedule, the results of its own calls executed serially, provided a step reads the shared solver value and writes only the stepping thread's State; (C16b) a step that writes the shared value is schedule dependent, read-only steps embed; (C16c) the premise for the source as it is now: the generated table Gen/Effects.lean -- every store into shared storage reachable from GetState, CalculateRateConstants and Solve(time_step, state), per configuration -- is empty (decide), 7 configurations x 3 entry points. The table is regenerated from the clang AST of /repo's headers on every run; a mutable cache, a static scratch buffer or a member used to restore a rejected step makes it non-empty, the theorem stops checking, and the ThreadSanitizer runs supply the failing schedule.",
             missing="soundness of the effect extraction is trusted, not proved (its limits: stores through pointers held inside a State -- shared_ptr members shared between State copies -- are outside it and are covered by ThreadSanitizer runs on copied States only); TSan sees only the schedules that occur", assumptions=["the three-argument Solve overload writes solver_parameters_ (its row in the table is not empty): known finding KF-C16-1"]),
 "C17": dict(level="proof", gen=g_c17, rule="random histories of copy/move construct/assign, set, solve over up to 8 State objects under ASan+UBSan; final: solve on a copy == solve on its source",
             Ls={"quick": [0, 3], "thorough": [0, 1, 2, 3, 4]}, assumptions=["moved-from States are not used again (C++ contract)"]),
 "C18": dict(level="proof", gen=None, special=special_c18, rule="seeded random mechanisms x L=1..4 x five parameter sets: (i) the textual IR of every function the LLVM backend generates (forcing, Jacobian on the declared and on the fill-closed pattern, Doolittle decomposition, linear solve, diagonal shift) read back into a lane-loop program and compared, loop for loop, with the program the model generates from the same tables/pattern; (ii) JIT-built solver and JIT functions vs CPU vector solver/kernels on identical data, bitwise; objects under test reached by construction and by move-assignment; cell count L+1 rejected at build time, block counts L-1, L+1, 2L, 3L rejected at run time",
             Ls={"quick": [0], "thorough": [0]},
             trusted_extra=["tools/jit_ir.py: reader of the textual LLVM IR (checks the loop shape of every basic block, extracts destination and expression)",
                            "MICM_VERIF hook in JitFunction::Generate prints the module that is then compiled",
                            "LLVM 14 optimiser, code generator and ORC JIT (after the captured IR)", "commutativity of IEEE-754 multiplication"],
             explanation="Theorems (C18b, C18c): running the generated program (model of the five code generators, Model/JitProg.lean) computes exactly what the vectorised C++ kernel of the CPU backend computes for one group of L cells -- forcing, Jacobian (any flat-id table), Doolittle decomposition (any prior contents of L/U), forward/backward substitution, diagonal shift -- for every table/pattern, every L and every input; the guards reject every cell count other than L. The program is tied to the implementation on every run: the implementation emits its IR through the MICM_VERIF sink in JitFunction::Generate, tools/jit_ir.py checks that every basic block has the modelled loop shape and extracts (destination, expression) per loop, and the result must equal the model's program. The CPU vector kernels are tied to the per-cell specification by C01/C02/C03/C04/C13.",
             missing="LLVM's optimiser, instruction selection and the ORC JIT linker are trusted (the IR is captured before optimisation; the differential execution of the compiled functions is the only evidence about them); IEEE multiplication is assumed commutative (the generated code multiplies rate*yield and x*U where the C++ multiplies yield*rate and U*x); that a JIT-built solver runs the same Rosenbrock driver as the CPU solver is by construction of the C++ template (JitRosenbrockSolver derives from AbstractRosenbrockSolver) and checked by whole-solve bitwise comparison, not by a theorem"),
 "C19": dict(level="proof", gen=g_c19, rule="all non-empty patterns n<=3 (quick) / n<=4 (thorough) + random larger, block counts 1..2L+1; all dense shapes rows 0..3L+1 x cols 0..6",
             Ls={"quick": [0, 1, 3], "thorough": [0, 1, 2, 3, 4]}, exhaustive={"quick": True, "thorough": True}),
 "C20": dict(level="proof", gen=g_c20, rule="builder error injection (missing system/reactions/species, unknown names, unused species), rejected setter calls inside valid histories, matrix access errors; under ASan+UBSan",
             Ls={"quick": [0, 3], "thorough": [0, 1, 2, 3, 4]}),
}
