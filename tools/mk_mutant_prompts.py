#!/usr/bin/env python3
"""mk_mutant_prompts.py <batch-letter> <ID> [<ID> ...]
Creates a scratch worktree /tmp/mut/<letter><NN> of /repo per property and renders the sub-agent prompt
(tools/mutant_prompt.txt) to /tmp/mut/prompts/<letter><NN>.txt. The prompt contains only the property text plus a
list of change *ideas already used by earlier agents* (from seeded/*/meta.json summaries, which the agents wrote
themselves) so that a new agent looks elsewhere; nothing about the checks is disclosed."""
import sys, json, os, subprocess, glob
V = os.path.dirname(os.path.dirname(os.path.abspath(__file__)))
letter = sys.argv[1]; ids = sys.argv[2:]
props = {json.loads(l)["id"]: json.loads(l) for l in open(os.path.join(V, "properties.jsonl"))}
tmpl = open(os.path.join(V, "tools", "mutant_prompt.txt")).read()
used = {}
for m in glob.glob(os.path.join(V, "seeded", "*", "meta.json")):
    try: j = json.load(open(m))
    except Exception: continue
    used.setdefault(j.get("property"), []).append(j.get("summary", "")[:420].replace("\n", " "))
os.makedirs("/tmp/mut/prompts", exist_ok=True)
for pid in ids:
    p = props[pid]; name = f"{letter}{pid[1:]}"; wt = f"/tmp/mut/{name}"
    if not os.path.exists(wt):
        subprocess.run(["git", "-C", "/repo", "worktree", "add", "--detach", wt, "HEAD"], check=True, stdout=subprocess.DEVNULL)
    txt = tmpl.format(WT=wt, ID=pid, TITLE=p["title"], STATEMENT=p["statement"], QUANT=p["quantifier"]["text"],
                      FILES=", ".join(p["anchors"]["files"]))
    if used.get(pid):
        txt += "\n\nIdeas ALREADY USED by earlier contributors for this property (do something genuinely different, in a different function or mechanism if you can):\n" + "\n".join(f"  - {s}…" for s in used[pid])
    open(f"/tmp/mut/prompts/{name}.txt", "w").write(txt)
    print(name, wt)
