#!/usr/bin/env python3
"""Build the C++ correspondence harness from /repo's *current working tree*.

The build is cached under /verif/build/harness/<key>, where <key> hashes every file under
/repo/include plus the harness sources and flags: an edited tree is always rebuilt.
Usage: build_harness.py [--ls 0,1,2,3,4] [--san 0|1]   -> prints the path of the executable
"""
import hashlib, os, subprocess, sys, shutil, concurrent.futures, argparse

VERIF = os.path.dirname(os.path.dirname(os.path.abspath(__file__)))
REPO = os.environ.get("MICM_REPO", "/repo")
HARNESS = os.path.join(VERIF, "harness")

def tree_hash(paths, extra=""):
    h = hashlib.sha256()
    for root in paths:
        for d, dirs, files in sorted(os.walk(root)):
            dirs.sort()
            for f in sorted(files):
                p = os.path.join(d, f)
                h.update(p.encode()); h.update(open(p, "rb").read())
    h.update(extra.encode())
    return h.hexdigest()[:16]

def gen_sources(outdir, Ls):
    srcs = []
    def w(name, body):
        p = os.path.join(outdir, name)
        open(p, "w").write(body); srcs.append(p)
    for L in Ls:
        w(f"dense_{L}.cpp", f'#include "cases.hpp"\ntemplate struct vh::DenseCfg<{L}>;\n')
        for c in (0, 1):
            cs = "true" if c else "false"
            w(f"kernel_{L}_{c}.cpp", f'#include "cases.hpp"\ntemplate struct vh::KernelCfg<{L},{cs}>;\n')
            for k in range(4):
                w(f"solve_{L}_{c}_{k}.cpp", f'#include "cases.hpp"\ntemplate struct vh::SolveCfg<{L},{cs},{k}>;\n')
    # dispatcher
    d = ['#include "common.hpp"', '#include "decl.hpp"', 'namespace vh {']
    for L in Ls:
        d.append(f"extern template struct DenseCfg<{L}>;")
        for c in ("false", "true"):
            d.append(f"extern template struct KernelCfg<{L},{c}>;")
            for k in range(4):
                d.append(f"extern template struct SolveCfg<{L},{c},{k}>;")
    d.append("std::string dispatch(const std::string& cmd, Tok& t) {")
    d.append('  if (cmd == "dense") { auto L = t.nat(); auto rows = t.nat(); auto cols = t.nat(); switch (L) {')
    for L in Ls: d.append(f"    case {L}: return DenseCfg<{L}>::dense(t, rows, cols);")
    d.append('    default: return "no-cfg"; } }')
    d.append('  if (cmd == "forcing") { auto L = t.nat(); auto ncell = t.nat(); auto ns = t.nat(); switch (L) {')
    for L in Ls: d.append(f"    case {L}: return DenseCfg<{L}>::forcing(t, ncell, ns);")
    d.append('    default: return "no-cfg"; } }')
    d.append('  if (cmd == "forcingflat") { auto L = t.nat(); auto ncell = t.nat(); auto ns = t.nat(); switch (L) {')
    for L in Ls: d.append(f"    case {L}: return DenseCfg<{L}>::forcingflat(t, ncell, ns);")
    d.append('    default: return "no-cfg"; } }')
    d.append('  if (cmd == "norm") { auto L = t.nat(); auto ncell = t.nat(); auto ns = t.nat(); switch (L) {')
    for L in Ls: d.append(f"    case {L}: return DenseCfg<{L}>::norm(t, ncell, ns);")
    d.append('    default: return "no-cfg"; } }')
    d.append('  if (cmd == "rates" || cmd == "ratesx" || cmd == "ratesu") { auto L = t.nat(); auto ncell = t.nat(); auto np = t.nat(); bool reuse = cmd == "ratesx"; bool pos = cmd == "ratesu"; switch (L) {')
    for L in Ls: d.append(f"    case {L}: return DenseCfg<{L}>::rates(t, ncell, np, reuse, pos);")
    d.append('    default: return "no-cfg"; } }')
    d.append('  if (cmd == "cpassign") { auto L = t.nat(); auto ns = t.nat(); auto ncell = t.nat(); switch (L) {')
    for L in Ls: d.append(f"    case {L}: return DenseCfg<{L}>::cpassign(t, ns, ncell);")
    d.append('    default: return "no-cfg"; } }')
    d.append('  if (cmd == "sparse") { auto n = t.nat(); auto csc = t.nat(); auto L = t.nat(); auto blocks = t.nat(); switch (L * 2 + csc) {')
    for L in Ls:
        for c in (0, 1): d.append(f"    case {L*2+c}: return KernelCfg<{L},{'true' if c else 'false'}>::sparse(t, n, blocks);")
    d.append('    default: return "no-cfg"; } }')
    d.append('  if (cmd == "jacobian") { auto ncell = t.nat(); auto ns = t.nat(); auto csc = t.nat(); auto L = t.nat(); switch (L * 2 + csc) {')
    for L in Ls:
        for c in (0, 1): d.append(f"    case {L*2+c}: return KernelCfg<{L},{'true' if c else 'false'}>::jacobian(t, ncell, ns);")
    d.append('    default: return "no-cfg"; } }')
    d.append('  if (cmd == "jacobianmix") { auto ncell = t.nat(); auto ns = t.nat(); auto csc = t.nat(); auto L = t.nat(); switch (L * 2 + csc) {')
    for L in Ls:
        for c in (0, 1): d.append(f"    case {L*2+c}: return KernelCfg<{L},{'true' if c else 'false'}>::jacobianmix(t, ncell, ns);")
    d.append('    default: return "no-cfg"; } }')
    d.append('  if (cmd == "jacobianflat") { auto ncell = t.nat(); auto ns = t.nat(); auto csc = t.nat(); auto L = t.nat(); switch (L * 2 + csc) {')
    for L in Ls:
        for c in (0, 1): d.append(f"    case {L*2+c}: return KernelCfg<{L},{'true' if c else 'false'}>::jacobianflat(t, ncell, ns);")
    d.append('    default: return "no-cfg"; } }')
    d.append('  if (cmd == "luflat") { auto kind = t.nat(); auto n = t.nat(); auto csc = t.nat(); auto L = t.nat(); auto blocks = t.nat(); switch (L * 2 + csc) {')
    for L in Ls:
        for c in (0, 1): d.append(f"    case {L*2+c}: return KernelCfg<{L},{'true' if c else 'false'}>::luflat(t, kind, n, blocks);")
    d.append('    default: return "no-cfg"; } }')
    d.append('  if (cmd == "alphaflat") { auto n = t.nat(); auto csc = t.nat(); auto L = t.nat(); auto blocks = t.nat(); switch (L * 2 + csc) {')
    for L in Ls:
        for c in (0, 1): d.append(f"    case {L*2+c}: return KernelCfg<{L},{'true' if c else 'false'}>::alphaflat(t, n, blocks);")
    d.append('    default: return "no-cfg"; } }')
    d.append('  if (cmd == "lumix") { auto kind = t.nat(); auto n = t.nat(); auto csc = t.nat(); auto cscL = t.nat(); auto cscU = t.nat(); auto L = t.nat(); auto blocks = t.nat(); switch (L * 2 + csc) {')
    for L in Ls:
        for c in (0, 1): d.append(f"    case {L*2+c}: return KernelCfg<{L},{'true' if c else 'false'}>::lumix(t, kind, n, cscL, cscU, blocks);")
    d.append('    default: return "no-cfg"; } }')
    d.append('  if (cmd == "lu") { auto kind = t.nat(); auto n = t.nat(); auto csc = t.nat(); auto L = t.nat(); auto blocks = t.nat(); switch (L * 2 + csc) {')
    for L in Ls:
        for c in (0, 1): d.append(f"    case {L*2+c}: return KernelCfg<{L},{'true' if c else 'false'}>::lu(t, kind, n, blocks);")
    d.append('    default: return "no-cfg"; } }')
    d.append('  if (cmd == "solve" || cmd == "bsolve") { auto integ = t.nat() + (cmd == "bsolve" ? 10 : 0); auto L = t.nat(); auto csc = t.nat(); auto kind = t.nat(); switch ((L * 2 + csc) * 4 + kind) {')
    for L in Ls:
        for c in (0, 1):
            for k in range(4):
                d.append(f"    case {(L*2+c)*4+k}: return SolveCfg<{L},{'true' if c else 'false'},{k}>::solve(t, integ);")
    d.append('    default: return "no-cfg"; } }')
    d.append('  if (cmd == "hist") { auto integ = t.nat(); auto L = t.nat(); auto csc = t.nat(); auto kind = t.nat(); switch ((L * 2 + csc) * 4 + kind) {')
    for L in Ls:
        for c in (0, 1):
            for k in range(4):
                d.append(f"    case {(L*2+c)*4+k}: return SolveCfg<{L},{'true' if c else 'false'},{k}>::hist(t, integ);")
    d.append('    default: return "no-cfg"; } }')
    d.append('  return "bad-op";')
    d.append("}")
    d.append("}")
    w("dispatch.cpp", "\n".join(d) + "\n")
    return srcs

def build(Ls, san, jobs=16, quiet=True):
    flags = ["-std=c++20", "-O1", "-g0", "-ffp-contract=off", "-DMICM_DEFAULT_VECTOR_SIZE=4", "-DMICM_VERIF",
             f"-I{REPO}/include", f"-I{HARNESS}", "-w"]
    if san:
        flags += ["-fsanitize=address,undefined", "-fno-sanitize-recover=undefined", "-fno-omit-frame-pointer"]
    key = tree_hash([os.path.join(REPO, "include"), HARNESS], extra=repr((Ls, flags)))
    outdir = os.path.join(VERIF, "build", "harness", key)
    exe = os.path.join(outdir, "micm_harness")
    if os.path.exists(exe):
        return exe
    # drop stale caches (keep disk bounded)
    base = os.path.join(VERIF, "build", "harness")
    if os.path.isdir(base):
        olds = sorted((os.path.getmtime(os.path.join(base, d)), d) for d in os.listdir(base))
        for _, d in olds[:-3]:
            shutil.rmtree(os.path.join(base, d), ignore_errors=True)
    os.makedirs(outdir, exist_ok=True)
    srcs = gen_sources(outdir, Ls) + [os.path.join(HARNESS, "main.cpp"), os.path.join(HARNESS, "misc.cpp")]
    objs = []
    def cc(src):
        obj = os.path.join(outdir, os.path.basename(src) + ".o")
        r = subprocess.run(["g++"] + flags + ["-c", src, "-o", obj], capture_output=True, text=True)
        return src, obj, r
    # compile the heavy solve TUs first
    srcs.sort(key=lambda s: (0 if "solve_" in s else 1, s))
    with concurrent.futures.ThreadPoolExecutor(max_workers=jobs) as ex:
        for src, obj, r in ex.map(cc, srcs):
            if r.returncode != 0:
                sys.stderr.write(f"COMPILE-FAIL {src}\n{r.stderr[-4000:]}\n")
                shutil.rmtree(outdir, ignore_errors=True)
                return None
            objs.append(obj)
    r = subprocess.run(["g++"] + (["-fsanitize=address,undefined"] if san else []) + objs + ["-o", exe + ".tmp"],
                       capture_output=True, text=True)
    if r.returncode != 0:
        sys.stderr.write("LINK-FAIL\n" + r.stderr[-4000:] + "\n")
        shutil.rmtree(outdir, ignore_errors=True)
        return None
    os.rename(exe + ".tmp", exe)
    for o in objs:
        os.remove(o)
    return exe

if __name__ == "__main__":
    ap = argparse.ArgumentParser()
    ap.add_argument("--ls", default="0,1,2,3,4")
    ap.add_argument("--san", type=int, default=1)
    a = ap.parse_args()
    exe = build([int(x) for x in a.ls.split(",")], a.san)
    if not exe:
        sys.exit(2)
    print(exe)
