#!/usr/bin/env python3
"""Static effect extraction for C16: which members of the SHARED solver object (or other shared storage: statics,
globals) can be written by the entry points GetState / CalculateRateConstants / Solve of micm::Solver.

Method: a probe translation unit instantiates the CPU solvers from /repo's current headers; clang-14 dumps the typed AST
of namespace micm as JSON (instantiated bodies included); this tool walks the call graph from the entry points with an
abstract "who owns this storage" environment:
    root of an lvalue expression  in {this, param k, local, global/static, temporary}
    a callee is analysed with (is its `this` shared?, which of its reference/pointer parameters are shared?)
and reports every store (assignment, compound assignment, ++/--, mutating call on a container) whose root is shared.
The State passed by the caller, locals and temporaries are private.  Calls into code without a body in the dump (the
standard library) are classified by name (accessor / mutator); an unknown external call on shared storage is reported
as a possible write, never silently ignored.

Limits (stated in DESIGN.md): aliasing through pointers stored in the caller's State (e.g. `shared_ptr` members shared
between State copies) is outside this analysis -- that is covered by the ThreadSanitizer runs on copied States; the
C++ memory model itself is not modelled.

Output: JSON {entry: [{"member":..., "where": "file:line", "via": [call chain]}]} and a Lean file Gen/Effects.lean.
"""
import json, os, re, subprocess, sys, hashlib

VERIF = os.path.dirname(os.path.dirname(os.path.abspath(__file__)))
REPO = os.environ.get("MICM_REPO", "/repo")

PROBE = r'''
#include <micm/solver/solver_builder.hpp>
#include <micm/solver/rosenbrock.hpp>
#include <micm/solver/backward_euler.hpp>
#include <micm/solver/backward_euler_solver_parameters.hpp>
#include <micm/solver/lu_decomposition_mozart_in_place.hpp>
#include <micm/solver/lu_decomposition_doolittle_in_place.hpp>
#include <micm/solver/lu_decomposition_mozart.hpp>
#include <micm/solver/linear_solver_in_place.hpp>
template<class B, class P>
void use(P params)
{
  auto a = micm::Species("a");
  auto b = micm::Species("b");
  micm::Process r = micm::Process::Create().SetReactants({ a }).SetProducts({ micm::Yields(b, 1) }).SetRateConstant(micm::ArrheniusRateConstant({ .A_ = 1.0 }));
  auto solver = B(params).SetSystem(micm::System(micm::SystemParameters{ .gas_phase_ = micm::Phase{ { a, b } } })).SetReactions({ r }).Build();
  auto state = solver.GetState();
  solver.CalculateRateConstants(state);
  auto res = solver.Solve(1.0, state);
  auto res3 = solver.Solve(1.0, state, params);
}
void all()
{
  using RP = micm::RosenbrockSolverParameters;
  using BP = micm::BackwardEulerSolverParameters;
  using VM = micm::VectorMatrix<double, 4>;
  using VS = micm::SparseMatrix<double, micm::SparseMatrixVectorOrdering<4>>;
  using SS = micm::SparseMatrix<double, micm::SparseMatrixStandardOrdering>;
  using DM = micm::Matrix<double>;
  use<micm::CpuSolverBuilder<RP>>(RP::ThreeStageRosenbrockParameters());
  use<micm::CpuSolverBuilder<RP, VM, VS>>(RP::ThreeStageRosenbrockParameters());
  use<micm::CpuSolverBuilderInPlace<RP>>(RP::ThreeStageRosenbrockParameters());
  use<micm::CpuSolverBuilderInPlace<RP, VM, VS>>(RP::ThreeStageRosenbrockParameters());
  use<micm::CpuSolverBuilder<RP, DM, SS, micm::LuDecompositionMozart>>(RP::ThreeStageRosenbrockParameters());
  use<micm::CpuSolverBuilder<BP>>(BP());
  use<micm::CpuSolverBuilder<BP, VM, VS>>(BP());
}
'''

ASSIGN_OPS = {"=", "+=", "-=", "*=", "/=", "%=", "<<=", ">>=", "&=", "|=", "^="}
EXT_READ = {"size", "empty", "begin", "end", "cbegin", "cend", "rbegin", "rend", "data", "operator[]", "at", "front", "back", "get",
            "operator*", "operator->", "find", "count", "contains", "first", "second", "c_str", "length", "capacity", "max_size",
            "operator()", "operator bool", "has_value", "value", "lower_bound", "upper_bound", "operator==", "operator!=", "operator<",
            "operator+", "operator-", "operator++", "operator--", "operator+=", "operator-=", "base", "str", "what", "code", "use_count"}
EXT_WRITE = {"push_back", "emplace_back", "clear", "resize", "assign", "insert", "erase", "operator=", "swap", "reset", "fill", "emplace",
             "pop_back", "reserve", "shrink_to_fit", "try_emplace", "insert_or_assign", "merge", "sort", "release"}
# iterator arithmetic on a LOCAL iterator object is not a store into the container; a store THROUGH it is caught by the root
EXT_FREE_PURE = {"max", "min", "abs", "fabs", "sqrt", "pow", "exp", "log", "log10", "isnan", "isinf", "isfinite", "move", "forward", "next", "prev",
                 "distance", "get", "make_pair", "to_string", "make_error_code", "make_unique", "make_shared", "static_pointer_cast",
                 "dynamic_pointer_cast", "accumulate", "all_of", "any_of", "none_of", "find", "find_if", "begin", "end", "size", "ceil", "floor",
                 "current", "function_name", "tie", "addressof", "as_const", "declval", "operator==", "operator!=", "operator<", "operator>",
                 "operator<=", "operator>=", "operator+", "operator-", "operator*", "operator/", "operator<<", "isfinite", "signbit", "cbrt"}
EXT_FREE_WRITE_FIRST = {"swap", "fill", "fill_n", "iota", "sort", "reverse", "rotate", "advance", "for_each"}   # mutate (the range of) their first args
EXT_FREE_WRITE_DEST = {"copy": 2, "copy_n": 2, "transform": 2, "move_backward": 2, "copy_if": 2}              # index of the destination argument


def load_ast(path):
    txt = open(path).read()
    dec = json.JSONDecoder(); pos = 0; objs = []
    n = len(txt)
    while pos < n:
        while pos < n and txt[pos] in " \n\r\t":
            pos += 1
        if pos >= n:
            break
        o, pos = dec.raw_decode(txt, pos)
        objs.append(o)
    return objs


class Ast:
    def __init__(self, objs):
        self.fn = {}           # id -> function-like node with a body
        self.decl = {}         # id -> any decl node (for names / kinds)
        self.qual = {}         # id -> qualified-ish name
        self.cur_file = None; self.cur_line = None
        for o in objs:
            self._index(o, [])
        self.by_name = {}
        for fid, f in self.fn.items():
            self.by_name.setdefault(f.get("name"), []).append(fid)

    def _loc(self, n):
        loc = n.get("loc") or {}
        if not loc:
            loc = (n.get("range") or {}).get("begin") or {}
        for key in ("expansionLoc", "spellingLoc"):
            if key in loc:
                loc = loc[key]
                break
        if "file" in loc:
            self.cur_file = loc["file"]
        if "line" in loc:
            self.cur_line = loc["line"]
        n["_where"] = (self.cur_file, self.cur_line)

    def _index(self, n, scope):
        if not isinstance(n, dict):
            return
        self._loc(n)
        k = n.get("kind", "")
        nid = n.get("id")
        name = n.get("name")
        if k.endswith("Decl") and nid:
            self.decl[nid] = n
            self.qual[nid] = "::".join(scope + [name or "?"])
        new_scope = scope
        if k in ("NamespaceDecl", "CXXRecordDecl", "ClassTemplateSpecializationDecl", "ClassTemplatePartialSpecializationDecl") and name:
            new_scope = scope + [name]
        if k in ("CXXMethodDecl", "FunctionDecl", "CXXConstructorDecl", "CXXDestructorDecl", "CXXConversionDecl"):
            if any(isinstance(c, dict) and c.get("kind") == "CompoundStmt" for c in n.get("inner", []) or []):
                self.fn[nid] = n
                # an out-of-line definition: calls reference the in-class declaration
                prev = n.get("previousDecl")
                while prev:
                    self.fn.setdefault(prev, n)
                    prev = (self.decl.get(prev) or {}).get("previousDecl")
        for c in n.get("inner", []) or []:
            if isinstance(c, dict):
                c["_parent_kind"] = k
            self._index(c, new_scope)


def rel(path):
    if not path:
        return "?"
    i = path.find("include/micm/")
    return path[i:] if i >= 0 else path


class Analysis:
    def __init__(self, ast):
        self.ast = ast
        self.memo = {}
        self.stack = []

    # ------------------------------------------------------------------ roots
    def root(self, e, env):
        """owner of the storage an lvalue / pointer / reference / iterator expression designates:
           'this', ('param', k), 'local', 'global', 'temp'"""
        if not isinstance(e, dict):
            return "temp"
        k = e.get("kind")
        inner = [c for c in (e.get("inner") or []) if isinstance(c, dict)]
        if k == "CXXThisExpr":
            return "this"
        if k == "DeclRefExpr":
            rd = e.get("referencedDecl") or {}
            rk = rd.get("kind")
            if rk == "ParmVarDecl":
                return env["vars"].get(rd.get("id"), "local")
            if rk == "VarDecl":
                if rd.get("id") in env["vars"]:
                    return env["vars"][rd.get("id")]
                d = self.ast.decl.get(rd.get("id"))
                if d is not None and (d.get("storageClass") == "static" or d.get("_global")) and not d.get("tls"):
                    return "global"
                if d is None:
                    return "global"     # a variable declared outside every analysed body (namespace scope)
                return "local"
            if rk in ("FieldDecl",):
                return "this"
            return "temp"
        if k == "MemberExpr":
            if not inner:
                return "this"           # implicit this
            return self.root(inner[0], env)
        if k in ("ImplicitCastExpr", "ParenExpr", "CXXStaticCastExpr", "CStyleCastExpr", "CXXReinterpretCastExpr", "CXXConstCastExpr",
                 "CXXFunctionalCastExpr", "ExprWithCleanups", "MaterializeTemporaryExpr", "CXXBindTemporaryExpr", "ConstantExpr",
                 "CXXDynamicCastExpr", "SubstNonTypeTemplateParmExpr"):
            return self.root(inner[0], env) if inner else "temp"
        if k == "ArraySubscriptExpr":
            return self.root(inner[0], env)
        if k == "UnaryOperator":
            return self.root(inner[0], env) if e.get("opcode") in ("*", "&", "++", "--") else "temp"
        if k == "BinaryOperator":
            if e.get("opcode") in ("+", "-", ","):      # pointer / iterator arithmetic
                r = self.root(inner[0], env)
                return r if r != "temp" else self.root(inner[1], env)
            if e.get("opcode") in ASSIGN_OPS:
                return self.root(inner[0], env)
            return "temp"
        if k == "ConditionalOperator":
            a, b = self.root(inner[1], env), self.root(inner[2], env)
            return a if self.shared(a, env) else b
        if k == "CXXOperatorCallExpr":
            # inner[0] = callee, inner[1] = object / first operand
            return self.root(inner[1], env) if len(inner) > 1 else "temp"
        if k == "CXXMemberCallExpr":
            # a reference / pointer / iterator obtained from an object designates (part of) that object
            qt = (e.get("type") or {}).get("qualType", "")
            callee = inner[0] if inner else {}
            recv = [c for c in (callee.get("inner") or []) if isinstance(c, dict)]
            r = self.root(recv[0], env) if recv else "this"
            if e.get("valueCategory") in ("lvalue", "xvalue") or "*" in qt or "iterator" in qt or "Proxy" in qt or "pointer" in qt:
                return r
            return "temp"
        if k == "CallExpr":
            qt = (e.get("type") or {}).get("qualType", "")
            if e.get("valueCategory") in ("lvalue", "xvalue") or "*" in qt or "iterator" in qt:
                for a in inner[1:]:
                    r = self.root(a, env)
                    if r != "temp":
                        return r
            return "temp"
        return "temp"

    def shared(self, r, env):
        if r == "this":
            return env["this_shared"]
        if r == "global":
            return True
        if isinstance(r, tuple) and r[0] == "param":
            return r[1] in env["shared_params"]
        return False

    def describe(self, e):
        """human-readable access path of an lvalue"""
        if not isinstance(e, dict):
            return "?"
        k = e.get("kind")
        inner = [c for c in (e.get("inner") or []) if isinstance(c, dict)]
        if k == "MemberExpr":
            base = self.describe(inner[0]) if inner else "this"
            return (base + "." if base not in ("this", "") else "this->" if base == "this" else "") + (e.get("name") or "?")
        if k == "CXXThisExpr":
            return "this"
        if k == "DeclRefExpr":
            return (e.get("referencedDecl") or {}).get("name", "?")
        if k == "CXXMemberCallExpr":
            callee = inner[0] if inner else {}
            return self.describe(callee) + "()"
        if k == "CXXOperatorCallExpr" and len(inner) > 1:
            return self.describe(inner[1]) + "[..]"
        if inner:
            return self.describe(inner[0])
        return k or "?"

    # ------------------------------------------------------------------ bodies
    def analyse(self, fid, this_shared, shared_params):
        key = (fid, this_shared, frozenset(shared_params))
        if key in self.memo:
            return self.memo[key]
        self.memo[key] = []          # recursion guard
        fn = self.ast.fn[fid]
        params = [c for c in fn.get("inner", []) if isinstance(c, dict) and c.get("kind") == "ParmVarDecl"]
        env = dict(this_shared=this_shared, shared_params=set(shared_params), vars={})
        for i, p in enumerate(params):
            env["vars"][p.get("id")] = ("param", i)
        out = []
        self.stack.append(self.ast.qual.get(fid, fn.get("name", "?")))
        for c in fn.get("inner", []) or []:
            if isinstance(c, dict) and c.get("kind") in ("CompoundStmt", "CXXCtorInitializer"):
                self.visit(c, env, out)
        self.stack.pop()
        self.memo[key] = out
        return out

    def report(self, out, what, node):
        f, l = node.get("_where", (None, None))
        out.append(dict(member=what, where=f"{rel(f)}:{l}", via=list(self.stack)))

    def param_is_ref(self, fn, i):
        """a parameter that designates the caller's storage (reference or pointer).  `const` does NOT make it private:
        a `mutable` member or a `const_cast` can still be written through it, and those are what we look for."""
        params = [c for c in fn.get("inner", []) if isinstance(c, dict) and c.get("kind") == "ParmVarDecl"]
        if i >= len(params):
            return True
        qt = (params[i].get("type") or {}).get("qualType", "")
        return "&" in qt or "*" in qt

    def visit(self, n, env, out):
        if not isinstance(n, dict):
            return
        k = n.get("kind")
        inner = [c for c in (n.get("inner") or []) if isinstance(c, dict)]
        if k == "VarDecl":
            # locals: references / pointers / iterators / proxies alias what they are initialised from
            qt = (n.get("type") or {}).get("qualType", "")
            init = inner[-1] if inner else None
            if n.get("storageClass") == "static" and not n.get("tls") and not re.match(r"^\s*const\b|constexpr", qt):
                n["_static_local"] = True
                env["vars"][n.get("id")] = "global"
            elif init is not None and ("&" in qt or "*" in qt or "iterator" in qt or "Proxy" in qt or "auto" in qt and n.get("_alias")):
                env["vars"][n.get("id")] = self.root(init, env)
            else:
                # `auto it = x.begin()` has a deduced iterator type spelled out in qualType
                r = self.root(init, env) if init is not None and ("__normal_iterator" in qt or "_iterator" in qt) else "local"
                env["vars"][n.get("id")] = r
            for c in inner:
                self.visit(c, env, out)
            return
        if k in ("BinaryOperator", "CompoundAssignOperator") and n.get("opcode") in ASSIGN_OPS:
            r = self.root(inner[0], env)
            if self.shared(r, env):
                self.report(out, self.describe(inner[0]), n)
        if k == "UnaryOperator" and n.get("opcode") in ("++", "--"):
            r = self.root(inner[0], env)
            if self.shared(r, env):
                self.report(out, self.describe(inner[0]) + n.get("opcode"), n)
        if k == "LambdaExpr":
            # the body runs with the captures of the enclosing function: analyse in place
            for c in inner:
                if c.get("kind") == "CXXRecordDecl":
                    for m in c.get("inner", []) or []:
                        if isinstance(m, dict) and m.get("kind") == "CXXMethodDecl" and m.get("name") == "operator()":
                            lam_params = [p for p in m.get("inner", []) if isinstance(p, dict) and p.get("kind") == "ParmVarDecl"]
                            for p in lam_params:
                                env["vars"][p.get("id")] = "local"
                            for b in m.get("inner", []) or []:
                                if isinstance(b, dict) and b.get("kind") == "CompoundStmt":
                                    self.visit(b, env, out)
            return
        if k in ("CXXMemberCallExpr", "CXXOperatorCallExpr", "CallExpr"):
            self.call(n, inner, env, out)
        for c in inner:
            self.visit(c, env, out)

    def call(self, n, inner, env, out):
        k = n.get("kind")
        callee_id = None; name = None; recv = None; args = []
        if k == "CXXMemberCallExpr":
            me = inner[0] if inner else {}
            while me.get("kind") in ("ImplicitCastExpr", "ParenExpr") and me.get("inner"):
                me = me["inner"][0]
            callee_id = me.get("referencedMemberDecl")
            name = me.get("name")
            rinner = [c for c in (me.get("inner") or []) if isinstance(c, dict)]
            recv = rinner[0] if rinner else {"kind": "CXXThisExpr"}
            args = inner[1:]
        else:
            ce = inner[0] if inner else {}
            while ce.get("kind") in ("ImplicitCastExpr", "ParenExpr") and ce.get("inner"):
                ce = ce["inner"][0]
            rd = ce.get("referencedDecl") or {}
            callee_id = rd.get("id"); name = rd.get("name")
            if k == "CXXOperatorCallExpr" and rd.get("kind") == "CXXMethodDecl":
                recv = inner[1] if len(inner) > 1 else None
                args = inner[2:]
            else:
                args = inner[1:]
        recv_shared = self.shared(self.root(recv, env), env) if recv is not None else False
        arg_shared = [self.shared(self.root(a, env), env) for a in args]
        targets = []
        if callee_id in self.ast.fn:
            targets = [callee_id]
        d = self.ast.decl.get(callee_id)
        if d is not None and (d.get("virtual") or d.get("pure")):
            # virtual dispatch: every override with a body (same name, same number of parameters)
            npar = sum(1 for c in d.get("inner", []) or [] if isinstance(c, dict) and c.get("kind") == "ParmVarDecl")
            for fid in self.ast.by_name.get(name, []):
                f2 = self.ast.fn[fid]
                if fid != callee_id and sum(1 for c in f2.get("inner", []) or [] if isinstance(c, dict) and c.get("kind") == "ParmVarDecl") == npar \
                        and f2.get("kind") == "CXXMethodDecl":
                    targets.append(fid)
        if targets:
            for fid in targets:
                fn = self.ast.fn[fid]
                sp = {i for i, s in enumerate(arg_shared) if s and self.param_is_ref(fn, i)}
                if recv_shared or sp:
                    out.extend(self.analyse(fid, recv_shared, sp))
            return
        # ---- no body in the dump: standard library or a micm function that was never instantiated
        if name is None:
            return
        if recv is not None:
            if not recv_shared:
                return
            if name in EXT_WRITE or (name not in EXT_READ):
                self.report(out, f"{self.describe(recv)}.{name}(...)" + ("" if name in EXT_WRITE else " [external call of unknown effect]"), n)
            return
        if not any(arg_shared):
            return
        if name in EXT_FREE_PURE:
            return
        if name in EXT_FREE_WRITE_FIRST:
            if arg_shared[0] or (name != "swap" and len(arg_shared) > 1 and arg_shared[1]) or (name == "swap" and arg_shared[1]):
                self.report(out, f"std::{name}({self.describe(args[0])}, ...)", n)
            return
        if name in EXT_FREE_WRITE_DEST:
            d = EXT_FREE_WRITE_DEST[name]
            if d < len(arg_shared) and arg_shared[d]:
                self.report(out, f"std::{name}(..., {self.describe(args[d])})", n)
            return
        self.report(out, f"{name}(...) with shared argument [external call of unknown effect]", n)


def build_ast(outdir):
    os.makedirs(outdir, exist_ok=True)
    src = os.path.join(outdir, "probe.cpp")
    open(src, "w").write(PROBE)
    astf = os.path.join(outdir, "ast.json")
    r = subprocess.run(["clang++-14", "-std=c++20", "-fsyntax-only", f"-I{REPO}/include", "-DMICM_DEFAULT_VECTOR_SIZE=4", "-Xclang", "-ast-dump=json",
                        "-Xclang", "-ast-dump-filter=micm", src], stdout=open(astf, "w"), stderr=subprocess.PIPE, text=True)
    if r.returncode != 0:
        raise RuntimeError("clang could not parse the probe against /repo's headers:\n" + r.stderr[-3000:])
    return astf


def entry_points(ast):
    """{(configuration, entry name): function id} for every instantiated micm::Solver specialisation"""
    eps = {}
    for did, d in ast.decl.items():
        if d.get("kind") == "ClassTemplateSpecializationDecl" and d.get("name") == "Solver":
            cfg = None
            for c in d.get("inner", []) or []:
                if isinstance(c, dict) and c.get("kind") == "FieldDecl" and c.get("name") == "solver_":
                    cfg = (c.get("type") or {}).get("qualType", "")
            if cfg is None:
                continue
            short = ("BE" if "BackwardEuler" in cfg else "Ros") + ("/vector" if "VectorMatrix" in cfg or "VectorOrdering" in cfg else "/standard") + \
                    ("/inplace" if "InPlace" in cfg else "/mozart" if "Mozart" in cfg else "")
            for c in d.get("inner", []) or []:
                if not (isinstance(c, dict) and c.get("kind") == "CXXMethodDecl" and c.get("id") in ast.fn):
                    continue
                nparam = sum(1 for p in c.get("inner", []) if isinstance(p, dict) and p.get("kind") == "ParmVarDecl")
                nm = c.get("name")
                if nm == "Solve":
                    eps[(short, "Solve2" if nparam == 2 else "Solve3")] = c["id"]
                elif nm in ("GetState", "CalculateRateConstants"):
                    eps[(short, nm)] = c["id"]
    return eps


def run(outdir):
    astf = build_ast(outdir)
    ast = Ast(load_ast(astf))
    os.remove(astf)
    an = Analysis(ast)
    eps = entry_points(ast)
    res = {}
    for (cfg, name), fid in sorted(eps.items()):
        ws = an.analyse(fid, True, set())
        seen = set(); uniq = []
        for w in ws:
            key = (w["member"], w["where"])
            if key not in seen:
                seen.add(key); uniq.append(w)
        res[f"{cfg} {name}"] = uniq
    return res, len(ast.fn), len(an.memo)


class EffectsError(Exception):
    pass

_cache = {}

def extract():
    """(result dict, statistics); cached per process; raises EffectsError when clang cannot parse the probe or an
    expected entry point was not found"""
    if "res" in _cache:
        return _cache["res"]
    outdir = os.path.join(VERIF, "build", "effects")
    try:
        res, nfn, nctx = run(outdir)
    except RuntimeError as e:
        raise EffectsError(str(e))
    cfgs = sorted({k.split(" ")[0] for k in res})
    for c in cfgs:
        for e in ("GetState", "CalculateRateConstants", "Solve2", "Solve3"):
            if f"{c} {e}" not in res:
                raise EffectsError(f"entry point {e} of configuration {c} not found in the AST of the probe")
    if len(cfgs) < 7:
        raise EffectsError(f"only {len(cfgs)} solver configurations were instantiated by the probe: {cfgs}")
    _cache["res"] = (res, dict(functions_with_bodies=nfn, analysed_contexts=nctx, configurations=cfgs))
    return _cache["res"]

def emit_lean(res):
    def q(x): return '"' + x.replace("\\", "\\\\").replace('"', '\\"') + '"'
    lines = ["/- GENERATED by tools/effects.py from the clang AST of /repo's headers -- do not edit.",
             "   For every instantiated solver configuration and every entry point of micm::Solver: the stores into storage",
             "   that is shared between the threads using one solver object (members of the solver and of its sub-objects,",
             "   statics, globals), as `member @ file:line`. -/", "namespace Micm.Gen", "",
             "inductive EntryPoint where", "  | getState | calculateRateConstants | solve2 | solve3", "  deriving DecidableEq, Repr", "",
             "def sharedWrites : List (String × EntryPoint × List String) := ["]
    nm = {"GetState": ".getState", "CalculateRateConstants": ".calculateRateConstants", "Solve2": ".solve2", "Solve3": ".solve3"}
    rows = []
    for k in sorted(res):
        cfg, e = k.split(" ")
        ws = sorted({f"{w['member']} @ {w['where']}" for w in res[k]})
        rows.append(f"  ({q(cfg)}, {nm[e]}, [{', '.join(q(w) for w in ws)}])")
    lines.append(",\n".join(rows) + "]")
    lines += ["", "end Micm.Gen", ""]
    return "\n".join(lines)

def write():
    res, st = extract()
    text = emit_lean(res)
    gp = os.path.join(VERIF, "lean", "Micm", "Gen", "Effects.lean")
    if not os.path.exists(gp) or open(gp).read() != text:
        open(gp, "w").write(text)
    return res, st

if __name__ == "__main__":
    out = sys.argv[1] if len(sys.argv) > 1 else "/tmp/effects_probe"
    res, nfn, nan = run(out)
    print(f"functions with bodies: {nfn}; analysed contexts: {nan}")
    for k, ws in res.items():
        print(k, "->", "no shared writes" if not ws else "")
        for w in ws:
            print("    WRITE", w["member"], "at", w["where"], "via", " > ".join(x.split("::")[-1] for x in w["via"][-4:]))
