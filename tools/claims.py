"""Which properties are claimed, at which level, and why (feeds MANIFEST.json)."""
TB = ("Trusted: Lean kernel; axioms propext/Classical.choice/Quot.sound only; tools/gen_lean.py; the differential harness "
      "(generator reach stated in the evidence); the hand-written model stands for the C++ (floating-point rounding, the C++ object "
      "model, libm and the compiler are not modelled).")
CLAIMS = {
 "C19": dict(category="proof", technique="Lean 4 theorems (address injectivity/bounds, rank spec incl. CSC and the trailing-empty-row quirk) + exhaustive/random container probes against the model and a structural oracle",
             text="Unbounded theorems about the model's address functions for every shape, pattern, L and block count; the model's tables and addresses are compared exactly with the real containers on all patterns n<=3/4 and all dense shapes.",
             note=TB),
}
CLAIMS.update({
 "C01": dict(category="proof", technique="Lean 4 theorems (mass-action law of the table-driven forcing kernel by induction over the mechanism; cursor synchronisation; frame; bounds) + bit-exact differential harness + exact-rational oracle",
             text="For every mechanism, name map and state the model's forcing kernel equals the mass-action sum (Field theorem), touches nothing else (frame theorem) and its tables are the resolved reactions in order (decode theorems). The C++ kernel (row-major and grouped layouts, partial groups) is compared bit-for-bit with the model and against the exact rate law.",
             note=TB + " The grouped (vector) C++ kernel is tied to the per-cell model by execution on all layouts/cell counts generated, not by a theorem about the lane loops."),
 "C08": dict(category="proof", technique="translator regenerates the coefficient tables as exact rationals from the header each run; Hairer-Wanner order conditions, row sums and R(inf) decided by `decide +kernel`; compiled constants cross-checked against the translator",
             text="The algebraic half of the property (consistency/order of the five tables, embedded order, row sums, stability at infinity, ros2 closed form) is a kernel-checked fact about the generated constants, re-proved whenever the header changes. The accuracy sentence is measured only (backward Euler linear map), hence partial.",
             note=TB + " Partial: the global-error claim for adaptive integration is not proved."),
 "C09": dict(category="proof", technique="Lean 4 theorem: w.S = 0 implies the weighted sum of the forcing vanishes (from the C01 mass-action theorem) + conservation measured on real solves with planted invariants",
             text="Exact-arithmetic conservation of every linear invariant by the forcing kernel for all mechanisms; the rounded form over whole solves (both integrators, all parameter sets, all layouts) is measured against a tolerance.",
             note=TB + " Partial: conservation through the linear solves and stage combinations is measured, and proved only at the level of the forcing (w.f(y) = 0)."),
})
CLAIMS.update({
 "C02": dict(category="proof", technique="Lean 4 theorems (Jacobian kernel = minus the formal partial derivative of the mass-action forcing, incl. multiplicities via MvPolynomial.pderiv; pattern completeness; untouched slots; cursor decode) composed with the C19 rank theorems + bit-exact harness + exact-rational oracle",
             text="For every mechanism/name map/state the model's SubtractJacobianTerms writes -d f_i/d y_j at every declared element (CSR or CSC, any L), every structurally non-zero derivative is in NonZeroJacobianElements, and slots no reaction touches are unchanged. The C++ kernels (standard and vector orderings, partial groups) are compared bit-for-bit with the model and with the exact derivative.",
             note=TB + " The vector (L-lane) C++ Jacobian kernel is tied to the per-cell model by execution, not by a lane theorem."),
 "C16": dict(category="other", technique="Lean 4 schedule-independence theorem over an interleaving model whose premise (entry points write only the caller's State) is validated by ThreadSanitizer runs with 2..16 threads, bitwise serial/parallel comparison and a source scan",
             text="Every interleaving gives each thread its serial result in the model; for the C++ this rests on the entry points not writing the shared solver, which is checked by execution under TSan and by scanning the headers for shared mutable state, not proved. Partial: the C++ memory model and scheduler are outside the model.",
             note=TB + " TSan only sees the schedules that occur in the runs."),
 "C18": dict(category="other", technique="Lean 4 decision-logic theorems for the three JIT cell-count guards + in-process differential execution of LLVM-JIT-built solvers against the CPU vector solvers (bit-exact) for L=1..4",
             text="Wrong cell counts are provably rejected by the guards as modelled; observational equivalence of generated code and CPU kernels is established by execution on seeded random mechanisms, all five parameter sets, L=1..4. Partial: no theorem about the generated programs; LLVM is trusted.",
             note=TB + " Requires llvm-config-14 and the LLVM 14 libraries present in this image."),
})
CLAIMS.update({
 "C03": dict(category="proof", technique="Lean 4 theorems: each of the four table-driven LU kernels (tables built by the modelled Initialize from the modelled symbolic factorisation) computes the dense Doolittle factors, L.U = A for non-zero pivots, independent of prior L/U contents; + bit-exact harness incl. exact comparison of every index stream + exact-rational L.U oracle",
             text="Unbounded in pattern, size and values (Field): Doolittle, Mozart and both in-place variants produce the same exact factors as dense Doolittle on every pattern (fill closure proved for all four symbolic factorisations), hence L unit lower, U upper, L.U = A. The C++ constructors' index streams are compared entry for entry with the model's flattened tables on all patterns n<=3 (quick) / n<=4 (thorough) and random ones, for CSR/CSC x standard/vector(L) x block counts; numeric results bit-exact.",
             note=TB + " The vector (lane-strided, n_cells-limited) C++ loops are tied to the per-cell model by execution."),
 "C04": dict(category="proof", technique="Lean 4 theorems: forward/backward substitution from the modelled solver tables solves (L.U) x = b; composed with C03 gives A x = b for all four variants; + bit-exact harness + residual oracle in exact rationals",
             text="For every pattern/values with non-zero pivots the modelled Factor+Solve returns x with A x = b (Field theorem, separate and in-place solvers, all four LU variants); blocks are independent by construction of the per-cell model and by the C13 comparison on the real code.",
             note=TB),
 "C05": dict(category="proof", technique="Lean 4 theorems over the flattened Solve loop: the matrix handed to every factorisation is alphaMinusJacobian(J(Y), 1/(gamma H)) for any retry history and all four variants (invariant over last_alpha); stage right-hand sides, new solution and error combination follow the packed-triangular formulas; + per-attempt matrices compared bit-for-bit with the model and across separate/in-place variants; BE Newton matrices checked against the predicted step schedule on linear mechanisms",
             text="Every attempted Rosenbrock step of the model is a genuine step of the method (matrix, stage equations, Ynew, Yerr) for all histories; the C++ is tied by the recorded matrices of each Factor call (first attempts and retries), whole-solve bit-exactness, and independent oracles.",
             note=TB + " The BE Newton-iteration form is covered by the model correspondence and the linear-mechanism oracle, with C05_be statements limited to what Properties/C05.lean lists."),
 "C06": dict(category="proof", technique="Lean 4 invariants of the flattened Solve loop (counters = ghost events, time = sum of accepted H, state changes only on acceptance, Converged implies the loop test failed, characterisation of the no-progress case) + status/final_time/counter oracle on real solves incl. time steps below round-off",
             text="Bookkeeping and outcome truthfulness are theorems about the model for every history; Converged with final_time = 0 is proved to happen exactly when time_step < round_off — a genuine defect of the implementation recorded as known finding KF-C06-1. Partial: rounding of t+H and termination of the retry loop are outside exact arithmetic.",
             note=TB + " Known finding KF-C06-1 (time_step < round_off) is reported as KNOWN-FINDING."),
 "C07": dict(category="proof", technique="Lean 4 theorems about ctlDecide/rosSolve over an ordered field (accept iff err<1 or H<h_min; next H formulas incl. no growth after rejection and fixed cut after repeated rejections; first step; H <= remaining; no new step beyond max steps; defaults satisfy LegalParams) + bit-exact whole-solve correspondence under perturbed controller parameters for all layouts (error norm incl. partial groups)",
             text="The controller rules are theorems about the model's decision function for all parameter values; the model's error norm follows the layout-specific summation order and is compared bit-for-bit through whole solves on every layout and cell count.",
             note=TB + " pow is uninterpreted in the theorems (its monotonicity is an explicit hypothesis where needed)."),
 "C10": dict(category="proof", technique="Lean 4 theorems: clamp gives non-negativity on any carrier; under explicit NaN laws (shown satisfiable) a NaN error term forces status NaNDetected, backward Euler never converges on non-finite data and Converged implies finite; + malformed-input stream (NaN/Inf/negative/huge) against the model and an outcome oracle",
             text="Non-negativity and NaN handling of both integrators are theorems about the model under stated IEEE-style laws; the real code is run on malformed inputs. The Rosenbrock integrator returns Converged for +-Inf in a species no reaction consumes: genuine defect, known finding KF-C10-1. Partial: the laws are assumed for Float; NaN propagation through LU/substitution is not proved.",
             note=TB + " Known finding KF-C10-1 is reported as KNOWN-FINDING."),
 "C11": dict(category="proof", technique="Lean 4 dataflow theorems on any carrier (hence Float): rosStep/rosSolve/beSolve results do not depend on scratch contents of equal shape (LU overwrite fact discharged by a verified table replay check), lifted over histories; + implementation-vs-implementation bitwise comparison of reused vs fresh States with NaN/1e300-filled scratch",
             text="No scratch storage leaks between calls in the model for every history; on the real code a problem solved after arbitrary histories and garbage-filled scratch is bit-identical to a fresh State.",
             note=TB),
 "C13": dict(category="proof", technique="Lean 4 lane theorem on any carrier: the flat-storage forcing kernels (row-major and VectorMatrix<L>, padding lanes included) equal the per-cell kernel through the address map for every L and cell count; cell independence corollary; + implementation-vs-implementation bitwise comparison under moving/perturbing other cells, NaN neighbours, different cell counts; N identical cells vs one",
             text="Cell independence of the forcing is a theorem about a loop-for-loop flat model that is itself compared bit-for-bit (whole AsVector incl. padding) with the C++; Jacobian, LU, linear solve and rate constants are per-cell by construction in the model and compared bitwise on the real code for cells embedded among different neighbours.",
             note=TB + " Lane theorems exist for forcing and rate constants (C15); Jacobian/LU/solve vector loops are tied by execution."),
 "C14": dict(category="proof", technique="Lean 4 theorems: name map is a bijection agreeing with variable names with reorder on/off (DiagonalMarkowitzReorder returns a permutation for every pattern), tolerances land on the declared species for every phase; + exact comparison of maps/names/tolerances with the real builder and exhaustive evaluation of the reordering routine for n<=3/4",
             text="Naming consistency is proved for every system with distinct names; the real builder is compared exactly on random systems with a non-gas phase and tolerance properties.",
             note=TB + " Generated systems have at most one non-gas phase (unordered_map iteration order is then irrelevant)."),
 "C15": dict(category="proof", technique="Lean 4 theorems: offset walk of CalculateRateConstants gives each reaction its own parameter slice (by label), for the row-wise and the lane-strided vector layout; + bit-exact comparison of all seven formulas with the real code (16 ulp allowed for transcendental rewrites; observed exact)",
             text="Association of parameters, labels, cells and reactions is proved for any mix of rate-constant types and every layout; the formulas are transcribed and compared numerically (not proved).",
             note=TB),
 "C17": dict(category="proof", technique="Lean 4 refinement theorem: the store machine tracking the dynamic kind of temporary_variables_ never reaches the bad downcast and refines a store of independent values for every history of copy/move/set/solve; + random histories on the real code under ASan+UBSan with copy-vs-original equality",
             text="Value semantics holds for every history in the model of the (fixed) copy operations; the pre-fix source is proved to reach UB on [new, copy, solve], the defect repaired by fix 249cbac.",
             note=TB + " Moved-from States are not reused (C++ contract)."),
 "C20": dict(category="proof", technique="Lean 4 decision-table theorems for Build (exhaustive, source order, never hangs), rejected setters leave the store unchanged; + error injection on the real builder/State/matrices under ASan+UBSan with expected (category, code)",
             text="Which invalid configuration yields which documented error is proved for the model of Build and checked exactly on the real code; rejected calls are invisible to later valid operations.",
             note=TB),
})
CLAIMS.update({
 "C12": dict(category="proof", technique="Lean 4 theorems over a field: uniqueness of the LU solve, equality of Factor;Solve across the four LU variants x CSR/CSC x any L, same logical Jacobian on every pattern, error norm layout-independent (order is a permutation), one attempt and the whole rosSolve agree across built configurations in lockstep; forcing/Jacobian/solve equivariance under species reordering; + cross-configuration runs of the real code compared per species",
             text="In exact arithmetic the concentrations, step history and counters of a Rosenbrock solve do not depend on layout, storage order or LU variant (C12_solve_config_indep); reordering equivariance is proved for forcing, Jacobian and the linear solve. The rounded form (same concentrations up to rounding, same history) is measured on the real code over the configuration cross product. Partial: rounding not modelled; whole-solve equivariance under reordering not proved.",
             note=TB),
})
NOT_APPLICABLE = {}
_ALL = ["C%02d" % i for i in range(1, 21)]
for _p in _ALL:
    if _p not in CLAIMS:
        NOT_APPLICABLE[_p] = "not claimed in this commit: theorem file Properties/%s.lean under construction (the configuration cross-product correspondence already runs); see DESIGN.md" % _p
