"""Which properties are claimed, at which level, and why (feeds MANIFEST.json)."""
TB = ("Trusted: Lean kernel; axioms propext/Classical.choice/Quot.sound only; tools/gen_lean.py; the differential harness "
      "(generator reach stated in the evidence); the hand-written model stands for the C++ (floating-point rounding, the C++ object "
      "model, libm and the compiler are not modelled).")
CLAIMS = {
 "C19": dict(category="proof", technique="Lean 4 theorems (address injectivity/bounds, rank spec incl. CSC and the trailing-empty-row quirk) + exhaustive/random container probes against the model and a structural oracle",
             text="Unbounded theorems about the model's address functions for every shape, pattern, L and block count; the model's tables and addresses are compared exactly with the real containers on all patterns n<=3/4 and all dense shapes.",
             note=TB),
}
CLAIMS.update({
 "C01": dict(category="proof", technique="Lean 4 theorems (mass-action law of the table-driven forcing kernel by induction over the mechanism; cursor synchronisation; frame; bounds) + bit-exact differential harness + exact-rational oracle",
             text="For every mechanism, name map and state the model's forcing kernel equals the mass-action sum (Field theorem), touches nothing else (frame theorem) and its tables are the resolved reactions in order (decode theorems). The C++ kernel (row-major and grouped layouts, partial groups) is compared bit-for-bit with the model and against the exact rate law.",
             note=TB + " The grouped (vector) C++ kernel is tied to the per-cell model by execution on all layouts/cell counts generated, not by a theorem about the lane loops."),
 "C08": dict(category="proof", technique="translator regenerates the coefficient tables as exact rationals from the header each run; Hairer-Wanner order conditions, row sums and R(inf) decided by `decide +kernel`; compiled constants cross-checked against the translator",
             text="The algebraic half of the property (consistency/order of the five tables, embedded order, row sums, stability at infinity, ros2 closed form) is a kernel-checked fact about the generated constants, re-proved whenever the header changes. The accuracy sentence is measured only (backward Euler linear map), hence partial.",
             note=TB + " Partial: the global-error claim for adaptive integration is not proved."),
 "C09": dict(category="proof", technique="Lean 4 theorem: w.S = 0 implies the weighted sum of the forcing vanishes (from the C01 mass-action theorem) + conservation measured on real solves with planted invariants",
             text="Exact-arithmetic conservation of every linear invariant by the forcing kernel for all mechanisms; the rounded form over whole solves (both integrators, all parameter sets, all layouts) is measured against a tolerance.",
             note=TB + " Partial: conservation through the linear solves and stage combinations is measured, and proved only at the level of the forcing (w.f(y) = 0)."),
})
CLAIMS.update({
 "C02": dict(category="proof", technique="Lean 4 theorems (Jacobian kernel = minus the formal partial derivative of the mass-action forcing, incl. multiplicities via MvPolynomial.pderiv; pattern completeness; untouched slots; cursor decode) composed with the C19 rank theorems + bit-exact harness + exact-rational oracle",
             text="For every mechanism/name map/state the model's SubtractJacobianTerms writes -d f_i/d y_j at every declared element (CSR or CSC, any L), every structurally non-zero derivative is in NonZeroJacobianElements, and slots no reaction touches are unchanged. The C++ kernels (standard and vector orderings, partial groups) are compared bit-for-bit with the model and with the exact derivative.",
             note=TB + " The vector (L-lane) C++ Jacobian kernel is tied to the per-cell model by execution, not by a lane theorem."),
 "C16": dict(category="other", technique="Lean 4 schedule-independence theorem over an interleaving model whose premise (entry points write only the caller's State) is validated by ThreadSanitizer runs with 2..16 threads, bitwise serial/parallel comparison and a source scan",
             text="Every interleaving gives each thread its serial result in the model; for the C++ this rests on the entry points not writing the shared solver, which is checked by execution under TSan and by scanning the headers for shared mutable state, not proved. Partial: the C++ memory model and scheduler are outside the model.",
             note=TB + " TSan only sees the schedules that occur in the runs."),
 "C18": dict(category="other", technique="Lean 4 decision-logic theorems for the three JIT cell-count guards + in-process differential execution of LLVM-JIT-built solvers against the CPU vector solvers (bit-exact) for L=1..4",
             text="Wrong cell counts are provably rejected by the guards as modelled; observational equivalence of generated code and CPU kernels is established by execution on seeded random mechanisms, all five parameter sets, L=1..4. Partial: no theorem about the generated programs; LLVM is trusted.",
             note=TB + " Requires llvm-config-14 and the LLVM 14 libraries present in this image."),
})
NOT_APPLICABLE = {}
_ALL = ["C%02d" % i for i in range(1, 21)]
for _p in _ALL:
    if _p not in CLAIMS:
        NOT_APPLICABLE[_p] = "check under construction in this commit (not yet claimed); see DESIGN.md §4 for the plan"
