"""Which properties are claimed, at which level, and why (feeds MANIFEST.json)."""
TB = ("Trusted: Lean kernel; axioms propext/Classical.choice/Quot.sound only; tools/gen_lean.py; the differential harness "
      "(generator reach stated in the evidence); the hand-written model stands for the C++ (floating-point rounding, the C++ object "
      "model, libm and the compiler are not modelled).")
CLAIMS = {
 "C19": dict(category="proof", technique="Lean 4 theorems (address injectivity/bounds, rank spec incl. CSC and the trailing-empty-row quirk) + exhaustive/random container probes against the model and a structural oracle",
             text="Unbounded theorems about the model's address functions for every shape, pattern, L and block count; the model's tables and addresses are compared exactly with the real containers on all patterns n<=3/4 and all dense shapes.",
             note=TB),
}
NOT_APPLICABLE = {}
_ALL = ["C%02d" % i for i in range(1, 21)]
for _p in _ALL:
    if _p not in CLAIMS:
        NOT_APPLICABLE[_p] = "check under construction in this commit (not yet claimed); see DESIGN.md §4 for the plan"
