#!/bin/bash
# usage: tools/try_mutant.sh <patch.diff> <ID> [<ID> ...]   -- applies the patch to /repo, runs the quick checks, always reverts
set -u
PATCH=$1; shift
cd /verif
if [ -n "$(git -C /repo status --porcelain --untracked-files=no)" ]; then echo "REPO DIRTY, abort"; exit 2; fi
# after reverting, the generated Lean files are regenerated from the clean tree (a later `git add -A` must never pick
# up tables / effect lists translated from a seeded change)
trap 'git -C /repo checkout -- . ; python3 -c "import sys; sys.path.insert(0, \"/verif/tools\"); import gen_lean, gen_rates, effects, specials, os; r = gen_lean.load_all(); open(os.path.join(\"/verif/lean/Micm/Gen/Params.lean\"), \"w\").write(gen_lean.emit_lean(*r)); gen_rates.write(); effects.write(); specials.write()" > /dev/null 2>&1; echo "[reverted]"' EXIT
git -C /repo apply "$PATCH" || { echo "PATCH DOES NOT APPLY"; exit 2; }
for id in "$@"; do
  start=$(date +%s)
  out=$(python3 tools/check.py $id --tier quick 2>&1 | grep -v "^WARNING")
  rc=$?
  echo "== $id ($(( $(date +%s) - start )) s)"
  echo "$out" | cut -c1-260 | head -8
  f=$(echo "$out" | grep -o "replay=[^ ]*" | head -1 | cut -d= -f2)
  if [ -n "$f" ] && [ -f "$f" ]; then python3 -c "
import json,sys
r=json.load(open('$f'))
print('   what:', (r.get('what') or r.get('broken'))if True else '')
" | cut -c1-400; fi
done
