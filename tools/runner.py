#!/usr/bin/env python3
"""Run a batch of protocol lines through the C++ harness (implementation) and the Lean driver
(model), robust to crashes, sanitizer aborts and hangs: the outcome of a line that kills or
stalls the process is `ub <what>` / `hang`, and the batch resumes after it."""
import os, subprocess, sys, time, select, signal, re

VERIF = os.path.dirname(os.path.dirname(os.path.abspath(__file__)))
LEAN_DIR = os.path.join(VERIF, "lean")
MODEL_EXE = os.path.join(LEAN_DIR, ".lake", "build", "bin", "micm_model")

def classify_death(rc, stderr_text):
    if "AddressSanitizer" in stderr_text:
        m = re.search(r"AddressSanitizer: ([\w-]+)", stderr_text)
        return "ub asan:" + (m.group(1) if m else "?")
    if "runtime error" in stderr_text:
        m = re.search(r"runtime error: ([^\n]*)", stderr_text)
        what = m.group(1) if m else "?"
        what = re.sub(r"0x[0-9a-f]+", "ADDR", what)
        return "ub ubsan:" + "_".join(what.split()[:4])
    if rc is not None and rc < 0:
        return "ub signal:" + str(-rc)
    return "ub exit:" + str(rc)

def run_batch(exe, lines, per_line_timeout=20.0, env=None):
    """returns list of output lines (one per input line)"""
    out = [None] * len(lines)
    start = 0
    e = dict(os.environ)
    e["ASAN_OPTIONS"] = "detect_leaks=0:abort_on_error=0:allocator_may_return_null=1"
    e["UBSAN_OPTIONS"] = "print_stacktrace=0:halt_on_error=1"
    if env:
        e.update(env)
    while start < len(lines):
        p = subprocess.Popen([exe], stdin=subprocess.PIPE, stdout=subprocess.PIPE, stderr=subprocess.PIPE,
                             env=e, bufsize=0)
        # writer: feed everything (in a helper thread-free way: small chunks with select)
        data = ("\n".join(lines[start:]) + "\n").encode()
        os.set_blocking(p.stdin.fileno(), False)
        os.set_blocking(p.stdout.fileno(), False)
        os.set_blocking(p.stderr.fileno(), False)
        sent = 0
        buf = b""
        errbuf = b""
        got = 0
        last_progress = time.time()
        dead = False
        stdin_open = True
        reason = "died"
        while True:
            rl = [p.stdout, p.stderr]
            wl = [p.stdin] if stdin_open and sent < len(data) else []
            r, w, _ = select.select(rl, wl, [], 0.5)
            if w:
                try:
                    n = os.write(p.stdin.fileno(), data[sent:sent + 65536])
                    sent += n
                except (BlockingIOError, InterruptedError):
                    pass
                except BrokenPipeError:
                    stdin_open = False
                if stdin_open and sent >= len(data):
                    p.stdin.close(); stdin_open = False
            if p.stderr in r:
                try:
                    chunk = os.read(p.stderr.fileno(), 65536)
                    errbuf += chunk
                except BlockingIOError:
                    pass
            if p.stdout in r:
                try:
                    chunk = os.read(p.stdout.fileno(), 1 << 20)
                except BlockingIOError:
                    chunk = None
                if chunk:
                    buf += chunk
                    while b"\n" in buf:
                        ln, buf = buf.split(b"\n", 1)
                        if start + got < len(lines):
                            out[start + got] = ln.decode(errors="replace")
                        got += 1
                        last_progress = time.time()
                elif chunk == b"":
                    # EOF
                    p.wait()
                    dead = True
            if start + got >= len(lines):
                break
            if dead or p.poll() is not None:
                # drain
                try:
                    rest = p.stdout.read() or b""
                except Exception:
                    rest = b""
                buf += rest
                while b"\n" in buf:
                    ln, buf = buf.split(b"\n", 1)
                    if start + got < len(lines):
                        out[start + got] = ln.decode(errors="replace")
                    got += 1
                try:
                    errbuf += p.stderr.read() or b""
                except Exception:
                    pass
                break
            if time.time() - last_progress > per_line_timeout:
                p.kill(); p.wait()
                reason = "hang"
                break
        if start + got >= len(lines):
            try:
                p.kill()
            except Exception:
                pass
            p.wait()
            break
        if reason == "hang":
            out[start + got] = "hang"
        else:
            if p.poll() is None:
                p.kill(); p.wait()
            out[start + got] = classify_death(p.returncode, errbuf.decode(errors="replace"))
        start += got + 1
    return out

def build_model(quiet=True):
    r = subprocess.run(["lake", "build", "micm_model"], cwd=LEAN_DIR, capture_output=True, text=True)
    if r.returncode != 0:
        sys.stderr.write(r.stdout[-3000:] + r.stderr[-3000:])
        return None
    return MODEL_EXE

def run_model(lines, per_line_timeout=60.0):
    return run_batch(MODEL_EXE, lines, per_line_timeout)
