#!/usr/bin/env python3
"""keep_seeded.py <name> <caught_by> [strengthening]  -- copy /tmp/mut/<name>/MUTANT into seeded/<name>, record
which checks catch it, remove the scratch worktree."""
import sys, json, os, shutil, subprocess
name, caught = sys.argv[1], sys.argv[2]
strength = sys.argv[3] if len(sys.argv) > 3 else ""
src = f"/tmp/mut/{name}/MUTANT"; dst = os.path.join(os.path.dirname(os.path.dirname(os.path.abspath(__file__))), "seeded", name)
os.makedirs(dst, exist_ok=True)
for f in os.listdir(src):
    if f in ("patch.diff", "meta.json") or f.startswith("demo"):
        if os.path.isfile(os.path.join(src, f)) and os.path.getsize(os.path.join(src, f)) < 200000:
            shutil.copy(os.path.join(src, f), dst)
m = json.load(open(os.path.join(dst, "meta.json")))
m["caught_by"] = caught
if strength: m["strengthening"] = strength
json.dump(m, open(os.path.join(dst, "meta.json"), "w"), indent=1)
subprocess.run(["git", "-C", "/repo", "worktree", "remove", "--force", f"/tmp/mut/{name}"])
print("kept", dst, os.listdir(dst))
