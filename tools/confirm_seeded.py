#!/usr/bin/env python3
"""Independent confirmation of every kept seeded change, in a scratch worktree outside /repo and /verif:
  demo passes on the original code, fails with the change; the full repository test suite passes with the change.
Writes seeded/<id>/confirm.json.  Usage: confirm_seeded.py [ids...]"""
import os, subprocess, sys, json, shutil, re, time
VERIF = os.path.dirname(os.path.dirname(os.path.abspath(__file__)))
WT = "/tmp/confirm_wt"
def sh(cmd, **kw):
    return subprocess.run(cmd, shell=True, capture_output=True, text=True, **kw)
def main():
    ids = sys.argv[1:] or sorted(os.listdir(os.path.join(VERIF, "seeded")))
    sh(f"git -C /repo worktree remove --force {WT}"); shutil.rmtree(WT, ignore_errors=True)
    r = sh(f"git -C /repo worktree add --detach {WT} HEAD")
    assert r.returncode == 0, r.stderr
    sh(f"cd {WT} && cmake -G Ninja -S . -B _build -DFETCHCONTENT_SOURCE_DIR_GOOGLETEST=/usr/src/googletest -DFETCHCONTENT_FULLY_DISCONNECTED=ON -DCMAKE_BUILD_TYPE=Release")
    llvm_c = sh("llvm-config-14 --cxxflags").stdout.replace("-fno-exceptions", "").replace("-fno-rtti", "")
    llvm_c = re.sub(r"-std=\S+", "", llvm_c).strip()
    llvm_l = sh("llvm-config-14 --ldflags --libs support core orcjit native irreader --system-libs").stdout.replace("\n", " ")
    for mid in ids:
        d = os.path.join(VERIF, "seeded", mid)
        patch = os.path.join(d, "patch.diff")
        if not os.path.exists(patch): continue
        out = {"id": mid, "when": time.strftime("%Y-%m-%d %H:%M")}
        demo = os.path.join(d, "demo.cpp")
        def run_demo(tag):
            if not os.path.exists(demo): return None
            src = open(demo).read()
            jit = "micm/jit" in src
            exe = f"/tmp/confirm_demo_{mid}_{tag}"
            cmd = f"g++ -std=c++20 -O1 -pthread -I{WT}/include -DMICM_DEFAULT_VECTOR_SIZE=4 " + (f"-DMICM_ENABLE_LLVM {llvm_c} " if jit else "") + f"{demo} -o {exe} " + (llvm_l if jit else "")
            c = sh(cmd)
            if c.returncode != 0: return {"compiled": False, "stderr": c.stderr[-500:]}
            try:
                r = subprocess.run([exe], capture_output=True, text=True, timeout=600)
                rc = r.returncode; tail = (r.stdout + r.stderr)[-300:]
            except subprocess.TimeoutExpired:
                rc = "timeout"; tail = ""
            os.remove(exe)
            return {"compiled": True, "exit": rc, "tail": tail}
        sh(f"git -C {WT} checkout -- .")
        out["demo_original"] = run_demo("orig")
        a = sh(f"git -C {WT} apply {patch}")
        out["patch_applies"] = a.returncode == 0
        if a.returncode == 0:
            out["demo_changed"] = run_demo("mut")
            b = sh(f"cd {WT} && cmake --build _build -j10 2>&1 | tail -3")
            t = sh(f"cd {WT} && ctest --test-dir _build -j10 --timeout 900 2>&1 | tail -4")
            out["suite"] = t.stdout.strip()[-300:]
            out["suite_pass"] = "100% tests passed" in t.stdout
        sh(f"git -C {WT} checkout -- .")
        ok = out.get("patch_applies") and out.get("suite_pass") and (out["demo_original"] is None or (out["demo_original"].get("exit") == 0 and out["demo_changed"].get("exit") not in (0, None)))
        out["confirmed"] = bool(ok)
        json.dump(out, open(os.path.join(d, "confirm.json"), "w"), indent=1)
        print(mid, "confirmed" if ok else "NOT CONFIRMED", out.get("demo_original", {}) and out["demo_original"].get("exit"), out.get("demo_changed", {}) and out["demo_changed"].get("exit"), out.get("suite_pass"), flush=True)
    sh(f"git -C /repo worktree remove --force {WT}"); shutil.rmtree(WT, ignore_errors=True)
main()
