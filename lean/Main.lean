import Micm.Model.Driver
partial def loop (h : IO.FS.Stream) (out : IO.FS.Stream) : IO Unit := do
  let line ← h.getLine
  if line.isEmpty then return ()
  let r := Micm.Driver.runLine2 line
  if !r.isEmpty then out.putStrLn r
  loop h out
def main : IO Unit := do
  loop (← IO.getStdin) (← IO.getStdout)
