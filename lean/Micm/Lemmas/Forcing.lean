/-
Helper lemmas for C01 (forcing = mass-action rate law), core Lean only:
 * specification vocabulary (`RRxn`, `rxnStep`, `Resolves`, `tablesOf`, `unknownNames`),
 * `forcingGo` on concatenated streams = fold of single-reaction updates (cursor synchronisation),
 * frame lemmas (size, untouched indices) for arbitrary streams,
 * complete characterisation of `reactIdsOf` / `prodIdsOf` / `buildForcing` / `ProcessSet.build`
   (success value and first error),
 * id bounds from the name map.
The field-dependent part (mass action, conservation) is in `Micm/Lemmas/ForcingField.lean`.
-/
import Micm.Model.ProcessSet
namespace Micm

/-- a resolved reaction: non-parameterized reactant ids (with repetitions, in source order) and
    (product id, yield) pairs -/
abbrev RRxn (α : Type) := List Nat × List (Nat × α)

/-! ### specification vocabulary -/
section SpecDefs
variable {α : Type}

/-- `rxns` are the per-process results of the model's `reactIdsOf` / `prodIdsOf` (all succeed) -/
def Resolves (m : NameMap) (procs : List (Process α)) (rxns : List (RRxn α)) : Prop :=
  procs.map (fun p => (reactIdsOf m p.reactants, prodIdsOf m p.products))
    = rxns.map (fun rx => (Except.ok rx.1, Except.ok rx.2))

/-- the flat tables that encode a list of resolved reactions -/
def tablesOf (rxns : List (RRxn α)) : PSTables α :=
  { nReact := rxns.map (·.1.length), reactIds := rxns.flatMap (·.1),
    nProd := rxns.map (·.2.length), prodIds := rxns.flatMap (·.2.map (·.1)),
    yields := rxns.flatMap (·.2.map (·.2)) }

/-- closed form of a successful `reactIdsOf`: skip parameterized species, look the others up -/
def reactIdsP (m : NameMap) (l : List SpecRef) : List Nat :=
  l.filterMap fun r => if r.param then none else nmLookup m r.name

def prodIdsP (m : NameMap) (l : List (SpecRef × α)) : List (Nat × α) :=
  l.filterMap fun p => if p.1.param then none else (nmLookup m p.1.name).map fun i => (i, p.2)

def resolveP (m : NameMap) (p : Process α) : RRxn α := (reactIdsP m p.reactants, prodIdsP m p.products)

/-- errors for the unknown non-parameterized reactant names, in source order -/
def unknownReactants (m : NameMap) (l : List SpecRef) : List PSErr :=
  l.filterMap fun r =>
    if r.param then none else if (nmLookup m r.name).isNone then some (.reactantDoesNotExist r.name) else none

def unknownProducts (m : NameMap) (l : List (SpecRef × α)) : List PSErr :=
  l.filterMap fun p =>
    if p.1.param then none else if (nmLookup m p.1.name).isNone then some (.productDoesNotExist p.1.name) else none

/-- all unknown-name errors of a mechanism in source order: processes in order, within a process
    reactants before products -/
def unknownNames (m : NameMap) (procs : List (Process α)) : List PSErr :=
  procs.flatMap fun p => unknownReactants m p.reactants ++ unknownProducts m p.products

end SpecDefs

section KernelSpec
variable {α : Type} [OfNat α 0] [Add α] [Sub α] [Mul α]

/-- `rate := k * y[r₁] * y[r₂] * …` (left fold, the source's `rate *= …` loop) -/
def rxnRate (y : Array α) (k : α) (rs : List Nat) : α := rs.foldl (fun acc i => acc * rd y i) k

/-- the update of one reaction: subtract `rate` once per reactant occurrence, then add
    `yield * rate` per product -/
def rxnStep (y : Array α) (f : Array α) (k : α) (rx : RRxn α) : Array α :=
  let rate := rxnRate y k rx.1
  let f := rx.1.foldl (fun f i => wr f i (rd f i - rate)) f
  rx.2.foldl (fun f p => wr f p.1 (rd f p.1 + p.2 * rate)) f

/-- whole-mechanism specification: fold of `rxnStep` over (reaction, rate constant) pairs -/
def forcingSpec (y : Array α) (rxns : List (RRxn α)) (ks : List α) (f : Array α) : Array α :=
  (rxns.zip ks).foldl (fun f rk => rxnStep y f rk.2 rk.1) f

end KernelSpec

/-! ### list plumbing -/

private theorem zip_map_fst_snd' {β γ : Type} (l : List (β × γ)) : (l.map (·.1)).zip (l.map (·.2)) = l := by
  induction l with
  | nil => rfl
  | cons a l ih => simp [ih]

private theorem take_app_len {β : Type} (l r : List β) (n : Nat) (h : l.length = n) : (l ++ r).take n = l := by
  subst h; simp

private theorem drop_app_len {β : Type} (l r : List β) (n : Nat) (h : l.length = n) : (l ++ r).drop n = r := by
  subst h; simp

/-! ### 2. cursor synchronisation -/
section Decode
variable {α : Type} [OfNat α 0] [Add α] [Sub α] [Mul α]

theorem forcingGo_decode (y : Array α) (rxns : List (RRxn α)) (ks : List α) (f : Array α) :
    forcingGo y (rxns.map (·.1.length)) (rxns.map (·.2.length)) (rxns.flatMap (·.1))
      (rxns.flatMap (·.2.map (·.1))) (rxns.flatMap (·.2.map (·.2))) ks f
    = forcingSpec y rxns ks f := by
  unfold forcingSpec
  induction rxns generalizing ks f with
  | nil => simp [forcingGo]
  | cons rx rest ih =>
    cases ks with
    | nil => simp [forcingGo]
    | cons k ks =>
      simp only [List.map_cons, List.flatMap_cons, forcingGo, List.zip_cons_cons, List.foldl_cons]
      rw [take_app_len _ _ _ rfl, drop_app_len _ _ _ rfl,
        take_app_len _ _ _ (List.length_map _), take_app_len _ _ _ (List.length_map _),
        drop_app_len _ _ _ (List.length_map _), drop_app_len _ _ _ (List.length_map _),
        zip_map_fst_snd', ih]
      rfl

theorem addForcingCell_tablesOf (rxns : List (RRxn α)) (k y f : Array α) :
    (tablesOf rxns).addForcingCell k y f = forcingSpec y rxns k.toList f := by
  unfold PSTables.addForcingCell tablesOf
  exact forcingGo_decode y rxns k.toList f

@[simp] theorem forcingSpec_nil (y : Array α) (ks : List α) (f : Array α) : forcingSpec y [] ks f = f := by
  simp [forcingSpec]

@[simp] theorem forcingSpec_nil_ks (y : Array α) (rxns : List (RRxn α)) (f : Array α) :
    forcingSpec y rxns [] f = f := by
  simp [forcingSpec]

@[simp] theorem forcingSpec_cons (y : Array α) (rx : RRxn α) (rxns : List (RRxn α)) (k : α) (ks : List α)
    (f : Array α) : forcingSpec y (rx :: rxns) (k :: ks) f = forcingSpec y rxns ks (rxnStep y f k rx) := by
  simp [forcingSpec]

end Decode

/-! ### 4. frame: size and untouched indices, for arbitrary streams -/
section Frame
variable {α : Type} [OfNat α 0]

omit [OfNat α 0] in
theorem foldl_wr_size {β : Type} (g : β → Nat) (v : Array α → β → α) (l : List β) (f : Array α) :
    (l.foldl (fun f b => wr f (g b) (v f b)) f).size = f.size := by
  induction l generalizing f with
  | nil => rfl
  | cons b l ih => simp only [List.foldl_cons, ih, wr_size]

theorem foldl_wr_rd_of_not_mem {β : Type} (g : β → Nat) (v : Array α → β → α) (l : List β) (f : Array α)
    (i : Nat) (h : ∀ b ∈ l, g b ≠ i) : rd (l.foldl (fun f b => wr f (g b) (v f b)) f) i = rd f i := by
  induction l generalizing f with
  | nil => rfl
  | cons b l ih =>
    simp only [List.foldl_cons]
    rw [ih _ (fun c hc => h c (List.mem_cons_of_mem _ hc)), rd_wr_ne _ _ _ _ (h b List.mem_cons_self)]

variable [Add α] [Sub α] [Mul α]

theorem rxnStep_size (y f : Array α) (k : α) (rx : RRxn α) : (rxnStep y f k rx).size = f.size := by
  unfold rxnStep
  simp only
  rw [foldl_wr_size (fun p : Nat × α => p.1) (fun f p => rd f p.1 + p.2 * rxnRate y k rx.1),
    foldl_wr_size (fun i : Nat => i) (fun f i => rd f i - rxnRate y k rx.1)]

theorem rxnStep_rd_of_not_mem (y f : Array α) (k : α) (rx : RRxn α) (i : Nat)
    (hr : i ∉ rx.1) (hp : ∀ p ∈ rx.2, p.1 ≠ i) : rd (rxnStep y f k rx) i = rd f i := by
  unfold rxnStep
  simp only
  rw [foldl_wr_rd_of_not_mem (fun p : Nat × α => p.1) (fun f p => rd f p.1 + p.2 * rxnRate y k rx.1) _ _ _ hp,
    foldl_wr_rd_of_not_mem (fun i : Nat => i) (fun f i => rd f i - rxnRate y k rx.1) _ _ _
      (fun b hb (e : b = i) => hr (e ▸ hb))]

theorem forcingSpec_size (y : Array α) (rxns : List (RRxn α)) (ks : List α) (f : Array α) :
    (forcingSpec y rxns ks f).size = f.size := by
  induction rxns generalizing ks f with
  | nil => simp
  | cons rx rest ih =>
    cases ks with
    | nil => simp
    | cons k ks => rw [forcingSpec_cons, ih, rxnStep_size]

theorem forcingGo_size (y : Array α) (nr np rids pids : List Nat) (ylds ks : List α) (f : Array α) :
    (forcingGo y nr np rids pids ylds ks f).size = f.size := by
  fun_induction forcingGo y nr np rids pids ylds ks f with
  | case1 nr nrs np nps rids pids ylds k ks f rs rate f1 f2 ih =>
    rw [ih]
    simp only [f2, f1]
    rw [foldl_wr_size (fun p : Nat × α => p.1) (fun f p => rd f p.1 + p.2 * rate),
      foldl_wr_size (fun i : Nat => i) (fun f i => rd f i - rate)]
  | case2 => rfl

theorem forcingGo_rd_of_not_mem (y : Array α) (nr np rids pids : List Nat) (ylds ks : List α) (f : Array α)
    (i : Nat) (hr : i ∉ rids) (hp : i ∉ pids) :
    rd (forcingGo y nr np rids pids ylds ks f) i = rd f i := by
  fun_induction forcingGo y nr np rids pids ylds ks f with
  | case1 nr nrs np nps rids pids ylds k ks f rs rate f1 f2 ih =>
    rw [ih (fun h => hr (List.mem_of_mem_drop h)) (fun h => hp (List.mem_of_mem_drop h))]
    simp only [f2, f1]
    rw [foldl_wr_rd_of_not_mem (fun p : Nat × α => p.1) (fun f p => rd f p.1 + p.2 * rate),
      foldl_wr_rd_of_not_mem (fun i : Nat => i) (fun f i => rd f i - rate)]
    · intro b hb e
      exact hr (e ▸ List.mem_of_mem_take hb)
    · intro b hb e
      have := (List.of_mem_zip (a := b.1) (b := b.2) hb).1
      exact hp (e ▸ List.mem_of_mem_take this)
  | case2 => rfl

end Frame

/-! ### 1. the constructor loops: success value and first error -/
section Tables
variable {α : Type}

/-- `.error` of the first element of `l`, or `.ok v` if there is none -/
def firstErrOr {ε β : Type} (l : List ε) (v : β) : Except ε β :=
  match l with
  | [] => .ok v
  | e :: _ => .error e

theorem resolves_nil (m : NameMap) : Resolves m ([] : List (Process α)) [] := rfl

theorem resolves_cons_iff (m : NameMap) (p : Process α) (ps : List (Process α)) (rx : RRxn α)
    (rxs : List (RRxn α)) :
    Resolves m (p :: ps) (rx :: rxs) ↔
      reactIdsOf m p.reactants = .ok rx.1 ∧ prodIdsOf m p.products = .ok rx.2 ∧ Resolves m ps rxs := by
  simp [Resolves, and_assoc]

theorem Resolves.length_eq {m : NameMap} {procs : List (Process α)} {rxns : List (RRxn α)}
    (h : Resolves m procs rxns) : rxns.length = procs.length := by
  have := congrArg List.length h
  simpa using this.symm

theorem reactIdsOf_eq (m : NameMap) (l : List SpecRef) :
    reactIdsOf m l = firstErrOr (unknownReactants m l) (reactIdsP m l) := by
  unfold firstErrOr
  induction l with
  | nil => rfl
  | cons r rs ih =>
    unfold reactIdsOf
    by_cases hp : r.param
    · simp [hp, ih, unknownReactants, reactIdsP]
    · cases hl : nmLookup m r.name with
      | none => simp [hp, hl, unknownReactants]
      | some i =>
        simp [hp, hl, ih, unknownReactants, reactIdsP]
        split <;> rfl

theorem prodIdsOf_eq (m : NameMap) (l : List (SpecRef × α)) :
    prodIdsOf m l = firstErrOr (unknownProducts m l) (prodIdsP m l) := by
  unfold firstErrOr
  induction l with
  | nil => rfl
  | cons r rs ih =>
    unfold prodIdsOf
    by_cases hp : r.1.param
    · simp [hp, ih, unknownProducts, prodIdsP]
    · cases hl : nmLookup m r.1.name with
      | none => simp [hp, hl, unknownProducts]
      | some i =>
        simp [hp, hl, ih, unknownProducts, prodIdsP]
        split <;> rfl

theorem buildForcing_eq (m : NameMap) (procs : List (Process α)) :
    buildForcing m procs = firstErrOr (unknownNames m procs) (tablesOf (procs.map (resolveP m))) := by
  induction procs with
  | nil => rfl
  | cons p ps ih =>
    unfold buildForcing
    rw [reactIdsOf_eq, prodIdsOf_eq, ih]
    simp only [unknownNames, List.flatMap_cons]
    cases h1 : unknownReactants m p.reactants with
    | cons e l => rfl
    | nil =>
      cases h2 : unknownProducts m p.products with
      | cons e l => rfl
      | nil =>
        simp only [List.nil_append]
        cases h3 : List.flatMap (fun p => unknownReactants m p.reactants ++ unknownProducts m p.products) ps with
        | cons e l => rfl
        | nil => rfl
private theorem headMatch_ok_iff {ε β : Type} (l : List ε) (v t : β) :
    firstErrOr l v = Except.ok t ↔ l = [] ∧ t = v := by
  unfold firstErrOr
  cases l with
  | nil => simp [eq_comm]
  | cons a l => simp

private theorem headMatch_error_iff {ε β : Type} (l : List ε) (v : β) (e : ε) :
    firstErrOr l v = Except.error e ↔ l.head? = some e := by
  unfold firstErrOr
  cases l with
  | nil => simp
  | cons a l => simp

theorem reactIdsOf_ok_iff (m : NameMap) (l : List SpecRef) (ids : List Nat) :
    reactIdsOf m l = .ok ids ↔ unknownReactants m l = [] ∧ ids = reactIdsP m l := by
  rw [reactIdsOf_eq, headMatch_ok_iff]

theorem reactIdsOf_error_iff (m : NameMap) (l : List SpecRef) (e : PSErr) :
    reactIdsOf m l = .error e ↔ (unknownReactants m l).head? = some e := by
  rw [reactIdsOf_eq, headMatch_error_iff]

theorem prodIdsOf_ok_iff (m : NameMap) (l : List (SpecRef × α)) (ids : List (Nat × α)) :
    prodIdsOf m l = .ok ids ↔ unknownProducts m l = [] ∧ ids = prodIdsP m l := by
  rw [prodIdsOf_eq, headMatch_ok_iff]

theorem prodIdsOf_error_iff (m : NameMap) (l : List (SpecRef × α)) (e : PSErr) :
    prodIdsOf m l = .error e ↔ (unknownProducts m l).head? = some e := by
  rw [prodIdsOf_eq, headMatch_error_iff]

theorem unknownReactants_eq_nil_iff (m : NameMap) (l : List SpecRef) :
    unknownReactants m l = [] ↔ ∀ r ∈ l, r.param = false → (nmLookup m r.name).isSome = true := by
  unfold unknownReactants
  rw [List.filterMap_eq_nil_iff]
  constructor
  · intro h r hr hp
    have := h r hr
    cases hl : nmLookup m r.name <;> simp_all
  · intro h r hr
    by_cases hp : r.param
    · simp [hp]
    · have := h r hr (by simpa using hp)
      cases hl : nmLookup m r.name <;> simp_all

theorem unknownProducts_eq_nil_iff (m : NameMap) (l : List (SpecRef × α)) :
    unknownProducts m l = [] ↔ ∀ p ∈ l, p.1.param = false → (nmLookup m p.1.name).isSome = true := by
  unfold unknownProducts
  rw [List.filterMap_eq_nil_iff]
  constructor
  · intro h r hr hp
    have := h r hr
    cases hl : nmLookup m r.1.name <;> simp_all
  · intro h r hr
    by_cases hp : r.1.param
    · simp [hp]
    · have := h r hr (by simpa using hp)
      cases hl : nmLookup m r.1.name <;> simp_all

theorem unknownNames_eq_nil_iff (m : NameMap) (procs : List (Process α)) :
    unknownNames m procs = [] ↔
      ∀ p ∈ procs, unknownReactants m p.reactants = [] ∧ unknownProducts m p.products = [] := by
  simp [unknownNames]

theorem resolves_iff (m : NameMap) (procs : List (Process α)) (rxns : List (RRxn α)) :
    Resolves m procs rxns ↔ unknownNames m procs = [] ∧ rxns = procs.map (resolveP m) := by
  induction procs generalizing rxns with
  | nil =>
    cases rxns with
    | nil => simp [Resolves, unknownNames]
    | cons rx rxs => simp [Resolves]
  | cons p ps ih =>
    cases rxns with
    | nil => simp [Resolves]
    | cons rx rxs =>
      rw [resolves_cons_iff, ih, reactIdsOf_ok_iff, prodIdsOf_ok_iff]
      simp only [unknownNames, List.flatMap_cons, List.append_eq_nil_iff, List.map_cons, List.cons.injEq,
        resolveP, Prod.ext_iff]
      constructor
      · rintro ⟨⟨a, b⟩, ⟨c, d⟩, e, g⟩; exact ⟨⟨⟨a, c⟩, e⟩, ⟨b, d⟩, g⟩
      · rintro ⟨⟨⟨a, c⟩, e⟩, ⟨b, d⟩, g⟩; exact ⟨⟨a, b⟩, ⟨c, d⟩, e, g⟩

theorem buildForcing_ok_iff (m : NameMap) (procs : List (Process α)) (t : PSTables α) :
    buildForcing m procs = .ok t ↔ ∃ rxns, Resolves m procs rxns ∧ t = tablesOf rxns := by
  rw [buildForcing_eq, headMatch_ok_iff]
  constructor
  · rintro ⟨h, rfl⟩
    exact ⟨_, (resolves_iff m procs _).2 ⟨h, rfl⟩, rfl⟩
  · rintro ⟨rxns, hr, rfl⟩
    obtain ⟨h, rfl⟩ := (resolves_iff m procs _).1 hr
    exact ⟨h, rfl⟩

theorem buildForcing_error_iff (m : NameMap) (procs : List (Process α)) (e : PSErr) :
    buildForcing m procs = .error e ↔ (unknownNames m procs).head? = some e := by
  rw [buildForcing_eq, headMatch_error_iff]

theorem buildForcing_isOk_iff (m : NameMap) (procs : List (Process α)) :
    (∃ t, buildForcing m procs = .ok t) ↔ unknownNames m procs = [] := by
  constructor
  · rintro ⟨t, h⟩
    rw [buildForcing_eq, headMatch_ok_iff] at h
    exact h.1
  · intro h
    exact ⟨_, by rw [buildForcing_eq, headMatch_ok_iff]; exact ⟨h, rfl⟩⟩
/-- the per-process resolution pass of `ProcessSet.build` (second use of `reactIdsOf`/`prodIdsOf`)
    succeeds whenever the first loop does -/
theorem mapM_resolve_ok (m : NameMap) (procs : List (Process α)) (rxns : List (RRxn α))
    (h : Resolves m procs rxns) :
    (procs.mapM fun p => do
      let rs ← reactIdsOf m p.reactants
      let pr ← prodIdsOf m p.products
      pure (p, rs, pr)) = Except.ok ((procs.zip rxns).map fun q => (q.1, q.2.1, q.2.2)) := by
  induction procs generalizing rxns with
  | nil => rfl
  | cons p ps ih =>
    cases rxns with
    | nil => simp [Resolves] at h
    | cons rx rxs =>
      obtain ⟨h1, h2, h3⟩ := (resolves_cons_iff m p ps rx rxs).1 h
      rw [List.mapM_cons, h1, h2, ih rxs h3]
      rfl

theorem ProcessSet.build_ok_forcing_fields {m : NameMap} {procs : List (Process α)} {t : PSTables α}
    (h : ProcessSet.build procs m = .ok t) :
    ∃ t0, buildForcing m procs = .ok t0 ∧ t.nReact = t0.nReact ∧ t.reactIds = t0.reactIds ∧
      t.nProd = t0.nProd ∧ t.prodIds = t0.prodIds ∧ t.yields = t0.yields := by
  unfold ProcessSet.build at h
  cases h0 : buildForcing m procs with
  | error e => rw [h0] at h; cases h
  | ok t0 =>
    rw [h0] at h
    refine ⟨t0, rfl, ?_⟩
    generalize (procs.mapM fun p => do
      let rs ← reactIdsOf m p.reactants
      let pr ← prodIdsOf m p.products
      pure (p, rs, pr)) = r at h
    cases r with
    | error e => cases h
    | ok v => cases h; exact ⟨rfl, rfl, rfl, rfl, rfl⟩

theorem ProcessSet.build_error_iff (m : NameMap) (procs : List (Process α)) (e : PSErr) :
    ProcessSet.build procs m = .error e ↔ buildForcing m procs = .error e := by
  unfold ProcessSet.build
  cases h0 : buildForcing m procs with
  | error e' => exact ⟨fun h => by cases h; rfl, fun h => by cases h; rfl⟩
  | ok t0 =>
    obtain ⟨rxns, hr, -⟩ := (buildForcing_ok_iff m procs t0).1 h0
    rw [show (Except.ok t0 >>= fun t => _) = _ from rfl]
    constructor
    · intro h
      rw [mapM_resolve_ok m procs rxns hr] at h
      cases h
    · intro h; cases h

theorem ProcessSet.build_isOk_iff (m : NameMap) (procs : List (Process α)) :
    (∃ t, ProcessSet.build procs m = .ok t) ↔ ∃ t0, buildForcing m procs = .ok t0 := by
  constructor
  · rintro ⟨t, h⟩
    obtain ⟨t0, h0, -⟩ := ProcessSet.build_ok_forcing_fields h
    exact ⟨t0, h0⟩
  · rintro ⟨t0, h0⟩
    cases hb : ProcessSet.build procs m with
    | ok t => exact ⟨t, rfl⟩
    | error e => rw [(ProcessSet.build_error_iff m procs e).1 hb] at h0; cases h0
end Tables

/-! ### 5. id bounds -/
section Bounds
variable {α : Type}

theorem nmLookup_mem {m : NameMap} {s : String} {i : Nat} (h : nmLookup m s = some i) :
    ∃ e ∈ m, e.2 = i := by
  unfold nmLookup at h
  cases hf : List.find? (fun e => e.1 == s) m with
  | none => simp [hf] at h
  | some e =>
    rw [hf] at h
    exact ⟨e, List.mem_of_find?_eq_some hf, by simpa using h⟩

theorem reactIdsP_mem {m : NameMap} {l : List SpecRef} {j : Nat} (h : j ∈ reactIdsP m l) :
    ∃ e ∈ m, e.2 = j := by
  unfold reactIdsP at h
  obtain ⟨r, -, hr⟩ := List.mem_filterMap.1 h
  by_cases hp : r.param
  · simp [hp] at hr
  · simp only [hp] at hr
    exact nmLookup_mem hr

theorem prodIdsP_mem {m : NameMap} {l : List (SpecRef × α)} {p : Nat × α} (h : p ∈ prodIdsP m l) :
    ∃ e ∈ m, e.2 = p.1 := by
  unfold prodIdsP at h
  obtain ⟨r, -, hr⟩ := List.mem_filterMap.1 h
  by_cases hp : r.1.param
  · simp [hp] at hr
  · simp only [hp] at hr
    cases hl : nmLookup m r.1.name with
    | none => simp [hl] at hr
    | some i =>
      rw [hl] at hr
      obtain ⟨e, he, hi⟩ := nmLookup_mem hl
      refine ⟨e, he, ?_⟩
      simp at hr
      rw [← hr]; exact hi

/-- every resolved id is a value of the name map -/
theorem resolves_ids_mem {m : NameMap} {procs : List (Process α)} {rxns : List (RRxn α)}
    (h : Resolves m procs rxns) :
    ∀ rx ∈ rxns, (∀ j ∈ rx.1, ∃ e ∈ m, e.2 = j) ∧ ∀ p ∈ rx.2, ∃ e ∈ m, e.2 = p.1 := by
  obtain ⟨-, rfl⟩ := (resolves_iff m procs rxns).1 h
  intro rx hrx
  obtain ⟨p, -, rfl⟩ := List.mem_map.1 hrx
  exact ⟨fun j hj => reactIdsP_mem hj, fun q hq => prodIdsP_mem hq⟩

theorem resolves_bounds {m : NameMap} {procs : List (Process α)} {rxns : List (RRxn α)} {n : Nat}
    (hm : ∀ e ∈ m, e.2 < n) (h : Resolves m procs rxns) :
    ∀ rx ∈ rxns, (∀ j ∈ rx.1, j < n) ∧ ∀ p ∈ rx.2, p.1 < n := by
  intro rx hrx
  obtain ⟨h1, h2⟩ := resolves_ids_mem h rx hrx
  constructor
  · intro j hj
    obtain ⟨e, he, rfl⟩ := h1 j hj
    exact hm e he
  · intro p hp
    obtain ⟨e, he, hh⟩ := h2 p hp
    rw [← hh]; exact hm e he

theorem tablesOf_reactIds_mem {rxns : List (RRxn α)} {j : Nat} :
    j ∈ (tablesOf rxns).reactIds ↔ ∃ rx ∈ rxns, j ∈ rx.1 := by
  simp [tablesOf]

theorem tablesOf_prodIds_mem {rxns : List (RRxn α)} {j : Nat} :
    j ∈ (tablesOf rxns).prodIds ↔ ∃ rx ∈ rxns, ∃ p ∈ rx.2, p.1 = j := by
  simp [tablesOf]

end Bounds

/-! ### the built tables drive `addForcingCell` exactly like the specification fold -/
section BuiltKernel
variable {α : Type} [OfNat α 0] [Add α] [Sub α] [Mul α]

theorem addForcingCell_congr (t t0 : PSTables α) (h1 : t.nReact = t0.nReact) (h2 : t.reactIds = t0.reactIds)
    (h3 : t.nProd = t0.nProd) (h4 : t.prodIds = t0.prodIds) (h5 : t.yields = t0.yields) (k y f : Array α) :
    t.addForcingCell k y f = t0.addForcingCell k y f := by
  unfold PSTables.addForcingCell
  rw [h1, h2, h3, h4, h5]

theorem buildForcing_ok_addForcingCell {m : NameMap} {procs : List (Process α)} {t : PSTables α}
    {rxns : List (RRxn α)} (h : buildForcing m procs = .ok t) (hr : Resolves m procs rxns) (k y f : Array α) :
    t.addForcingCell k y f = forcingSpec y rxns k.toList f := by
  obtain ⟨rxns', hr', rfl⟩ := (buildForcing_ok_iff m procs t).1 h
  have e : rxns' = rxns := by
    rw [((resolves_iff m procs rxns').1 hr').2, ((resolves_iff m procs rxns).1 hr).2]
  subst e
  exact addForcingCell_tablesOf _ k y f

theorem ProcessSet.build_ok_addForcingCell {m : NameMap} {procs : List (Process α)} {t : PSTables α}
    {rxns : List (RRxn α)} (h : ProcessSet.build procs m = .ok t) (hr : Resolves m procs rxns) (k y f : Array α) :
    t.addForcingCell k y f = forcingSpec y rxns k.toList f := by
  obtain ⟨t0, h0, h1, h2, h3, h4, h5⟩ := ProcessSet.build_ok_forcing_fields h
  rw [addForcingCell_congr t t0 h1 h2 h3 h4 h5]
  exact buildForcing_ok_addForcingCell h0 hr k y f

omit [OfNat α 0] [Add α] [Sub α] [Mul α] in
theorem ProcessSet.build_ok_resolves {m : NameMap} {procs : List (Process α)} {t : PSTables α}
    (h : ProcessSet.build procs m = .ok t) : ∃ rxns, Resolves m procs rxns := by
  obtain ⟨t0, h0, -⟩ := ProcessSet.build_ok_forcing_fields h
  obtain ⟨rxns, hr, -⟩ := (buildForcing_ok_iff m procs t0).1 h0
  exact ⟨rxns, hr⟩

omit [OfNat α 0] [Add α] [Sub α] [Mul α] in
/-- with one rate constant per process, the `zip` in `forcingSpec` drops nothing -/
theorem forcing_zip_complete {m : NameMap} {procs : List (Process α)} {rxns : List (RRxn α)}
    (hr : Resolves m procs rxns) (ks : List α) (hk : ks.length = procs.length) :
    (rxns.zip ks).map (·.1) = rxns ∧ (rxns.zip ks).map (·.2) = ks := by
  have hl := hr.length_eq
  constructor
  · exact List.map_fst_zip (by omega)
  · exact List.map_snd_zip (by omega)

end BuiltKernel

end Micm
