/-
A decidable dataflow check for the separate-`L`/`U` LU kernels (`doolittleCell`, `mozartCell`):
replay the kernel on the *sets of slots written so far*; if every read hits a written slot and at
the end every slot `< nL` / `< nU` is written, the result does not depend on the prior contents
of the `L`/`U` arrays (`LUOverwrites`), for ANY carrier (no arithmetic laws used).
The check is run by `decide` on concrete solver configurations.
-/
import Micm.Lemmas.Scratch
namespace Micm
set_option linter.unusedSectionVars false

section Agree
variable {α : Type} [OfNat α 0]

/-- two arrays of the same size that agree (as total reads) on the slots in `W` -/
def AgreeOn (W : List Nat) (a a' : Array α) : Prop := a.size = a'.size ∧ ∀ i ∈ W, rd a i = rd a' i

theorem AgreeOn.nil {a a' : Array α} (h : a.size = a'.size) : AgreeOn [] a a' :=
  ⟨h, fun _ hi => by cases hi⟩

theorem AgreeOn.mono {W W' : List Nat} {a a' : Array α} (h : AgreeOn W a a') (hs : ∀ i ∈ W', i ∈ W) :
    AgreeOn W' a a' := ⟨h.1, fun i hi => h.2 i (hs i hi)⟩

/-- writing the same value to the same slot extends the agreement set -/
theorem AgreeOn.write {W : List Nat} {a a' : Array α} (h : AgreeOn W a a') (t : Nat) {v v' : α} (hv : v = v') :
    AgreeOn (t :: W) (wr a t v) (wr a' t v') := by
  subst hv
  refine ⟨by simp [h.1], ?_⟩
  intro i hi
  rw [rd_wr, rd_wr, ← h.1]
  by_cases hc : t = i ∧ t < a.size
  · obtain ⟨rfl, hlt⟩ := hc
    simp [hlt]
  · simp only [hc, if_false]
    rcases List.mem_cons.1 hi with rfl | hi
    · -- `t = i` but out of range: both reads are the default
      have hlt : ¬ i < a.size := fun hlt => hc ⟨rfl, hlt⟩
      have hlt' : ¬ i < a'.size := by rw [← h.1]; exact hlt
      simp [rd, Array.getD, hlt, hlt']
    · exact h.2 i hi

/-- writing the same value to a slot already in the set keeps the agreement -/
theorem AgreeOn.write_mem {W : List Nat} {a a' : Array α} (h : AgreeOn W a a') (t : Nat) {v v' : α}
    (hv : v = v') : AgreeOn W (wr a t v) (wr a' t v') :=
  (h.write t hv).mono (fun _ hi => List.mem_cons_of_mem _ hi)

/-- a fold of writes whose targets are in `W` and whose values agree under agreement on `W` -/
theorem AgreeOn.foldl_write {β : Type} {W : List Nat} (t : β → Nat) (val val' : Array α → β → α)
    (l : List β)
    (hval : ∀ a a' b, b ∈ l → AgreeOn W a a' → val a b = val' a' b) :
    ∀ {a a' : Array α}, AgreeOn W a a' →
      AgreeOn W (l.foldl (fun a b => Micm.wr a (t b) (val a b)) a)
                (l.foldl (fun a b => Micm.wr a (t b) (val' a b)) a') := by
  induction l with
  | nil => intro a a' h; exact h
  | cons b l ih =>
    intro a a' h
    simp only [List.foldl_cons]
    exact ih (fun a a' b' hb' => hval a a' b' (List.mem_cons_of_mem _ hb'))
      (h.write_mem (t b) (hval a a' b (List.mem_cons_self ..) h))

/-- agreement on every slot below the size is equality -/
theorem AgreeOn.eq_of_all {W : List Nat} {a a' : Array α} (h : AgreeOn W a a')
    (hall : ∀ i, i < a.size → i ∈ W) : a = a' := by
  apply Array.ext h.1
  intro i hi hi'
  have := h.2 i (hall i hi)
  simpa [rd, Array.getD, hi, hi'] using this

end Agree

section OptFold
variable {β γ : Type}

theorem foldl_bind_none (g : γ → β → Option γ) (l : List β) :
    l.foldl (fun (acc : Option γ) e => acc.bind fun w => g w e) none = none := by
  induction l with
  | nil => rfl
  | cons x l ih => simpa using ih

theorem foldl_bind_cons (g : γ → β → Option γ) (e : β) (l : List β) (w w' : γ)
    (h : (e :: l).foldl (fun (acc : Option γ) e => acc.bind fun w => g w e) (some w) = some w') :
    ∃ w1, g w e = some w1 ∧
      l.foldl (fun (acc : Option γ) e => acc.bind fun w => g w e) (some w1) = some w' := by
  simp only [List.foldl_cons, Option.bind_some] at h
  cases hg : g w e with
  | none => rw [hg, foldl_bind_none] at h; cases h
  | some w1 => rw [hg] at h; exact ⟨w1, rfl, h⟩

end OptFold

/-! ### Doolittle -/

/-- replay of one `DRow` on the written sets; `none` = some read hits an unwritten slot -/
def dCheckRow (W : List Nat × List Nat) (r : DRow) : Option (List Nat × List Nat) :=
  let WL := W.1
  -- U phase
  let WU? := r.u.foldl (fun (acc : Option (List Nat)) e =>
    acc.bind fun WU =>
      let WU := e.t :: WU
      if e.pairs.all (fun p => WL.contains p.1 && WU.contains p.2) then some WU else none) (some W.2)
  WU?.bind fun WU =>
    -- L phase
    let WL? := r.l.foldl (fun (acc : Option (List Nat)) e =>
      acc.bind fun WLc =>
        let WLc := e.t :: WLc
        if e.pairs.all (fun p => WLc.contains p.1 && WU.contains p.2) && WU.contains r.uii
        then some WLc else none) (some (r.lii :: WL))
    WL?.map fun WL' => (WL', WU)

def dCheck (rows : List DRow) (nL nU : Nat) : Bool :=
  match rows.foldl (fun (acc : Option (List Nat × List Nat)) r => acc.bind fun W => dCheckRow W r)
      (some ([], [])) with
  | none => false
  | some W => (List.range nL).all (fun i => W.1.contains i) && (List.range nU).all (fun i => W.2.contains i)

section Doolittle
variable {α : Type} [OfNat α 0] [OfNat α 1] [Sub α] [Mul α] [Div α]

/-- the per-row step of `doolittleCell` -/
def dRowStep (A : Array α) (LU : Array α × Array α) (r : DRow) : Array α × Array α :=
  let U := r.u.foldl (fun U e =>
    let U := wr U e.t (match e.a with | some a => rd A a | none => 0)
    e.pairs.foldl (fun U p => wr U e.t (rd U e.t - rd LU.1 p.1 * rd U p.2)) U) LU.2
  let L := wr LU.1 r.lii 1
  let L := r.l.foldl (fun L e =>
    let L := wr L e.t (match e.a with | some a => rd A a | none => 0)
    let L := e.pairs.foldl (fun L p => wr L e.t (rd L e.t - rd L p.1 * rd U p.2)) L
    wr L e.t (rd L e.t / rd U r.uii)) L
  (L, U)

theorem doolittleCell_eq_foldl (rows : List DRow) (A : Array α) (LU : Array α × Array α) :
    doolittleCell rows A LU = rows.foldl (dRowStep A) LU := rfl

/-- checker step of the U phase / L phase -/
def dCheckU (WL : List Nat) (WU : List Nat) (e : DEntry) : Option (List Nat) :=
  if e.pairs.all (fun p => WL.contains p.1 && (e.t :: WU).contains p.2) then some (e.t :: WU) else none

def dCheckL (WU : List Nat) (uii : Nat) (WLc : List Nat) (e : DEntry) : Option (List Nat) :=
  if e.pairs.all (fun p => (e.t :: WLc).contains p.1 && WU.contains p.2) && WU.contains uii
  then some (e.t :: WLc) else none

theorem dCheckRow_eq (W : List Nat × List Nat) (r : DRow) :
    dCheckRow W r =
      (r.u.foldl (fun (acc : Option (List Nat)) e => acc.bind fun WU => dCheckU W.1 WU e) (some W.2)).bind
        fun WU =>
          (r.l.foldl (fun (acc : Option (List Nat)) e => acc.bind fun WLc => dCheckL WU r.uii WLc e)
            (some (r.lii :: W.1))).map fun WL' => (WL', WU) := rfl

/-- U phase of one row -/
theorem dU_agree (A : Array α) (L L' : Array α) (WL : List Nat) (hL : AgreeOn WL L L')
    (es : List DEntry) :
    ∀ (WU : List Nat) (U U' : Array α) (WU' : List Nat), AgreeOn WU U U' →
      es.foldl (fun (acc : Option (List Nat)) e => acc.bind fun WU => dCheckU WL WU e) (some WU)
        = some WU' →
      AgreeOn WU'
        (es.foldl (fun U e =>
          let U := wr U e.t (match e.a with | some a => rd A a | none => 0)
          e.pairs.foldl (fun U p => wr U e.t (rd U e.t - rd L p.1 * rd U p.2)) U) U)
        (es.foldl (fun U e =>
          let U := wr U e.t (match e.a with | some a => rd A a | none => 0)
          e.pairs.foldl (fun U p => wr U e.t (rd U e.t - rd L' p.1 * rd U p.2)) U) U') := by
  induction es with
  | nil =>
    intro WU U U' WU' h hc
    simp only [List.foldl_nil, Option.some.injEq] at hc
    subst hc; exact h
  | cons e es ih =>
    intro WU U U' WU' h hc
    obtain ⟨W1, hg, hrest⟩ := foldl_bind_cons _ e es WU WU' hc
    unfold dCheckU at hg
    split at hg
    · rename_i hp
      simp only [Option.some.injEq] at hg
      subst hg
      simp only [List.foldl_cons]
      refine ih (e.t :: WU) _ _ WU' ?_ hrest
      have h1 : AgreeOn (e.t :: WU) (wr U e.t (match e.a with | some a => rd A a | none => 0))
          (wr U' e.t (match e.a with | some a => rd A a | none => 0)) := h.write e.t rfl
      refine AgreeOn.foldl_write (fun _ => e.t)
        (fun U p => rd U e.t - rd L p.1 * rd U p.2) (fun U p => rd U e.t - rd L' p.1 * rd U p.2)
        e.pairs ?_ h1
      intro a a' p hpm hag
      rw [List.all_eq_true] at hp
      have := hp p hpm
      simp only [Bool.and_eq_true, List.contains_iff_mem] at this
      rw [hag.2 e.t (List.mem_cons_self ..), hL.2 p.1 this.1, hag.2 p.2 this.2]
    · cases hg

/-- L phase of one row -/
theorem dL_agree (A : Array α) (U U' : Array α) (WU : List Nat) (hU : AgreeOn WU U U') (uii : Nat)
    (es : List DEntry) :
    ∀ (WL : List Nat) (L L' : Array α) (WL' : List Nat), AgreeOn WL L L' →
      es.foldl (fun (acc : Option (List Nat)) e => acc.bind fun WLc => dCheckL WU uii WLc e) (some WL)
        = some WL' →
      AgreeOn WL'
        (es.foldl (fun L e =>
          let L := wr L e.t (match e.a with | some a => rd A a | none => 0)
          let L := e.pairs.foldl (fun L p => wr L e.t (rd L e.t - rd L p.1 * rd U p.2)) L
          wr L e.t (rd L e.t / rd U uii)) L)
        (es.foldl (fun L e =>
          let L := wr L e.t (match e.a with | some a => rd A a | none => 0)
          let L := e.pairs.foldl (fun L p => wr L e.t (rd L e.t - rd L p.1 * rd U' p.2)) L
          wr L e.t (rd L e.t / rd U' uii)) L') := by
  induction es with
  | nil =>
    intro WL L L' WL' h hc
    simp only [List.foldl_nil, Option.some.injEq] at hc
    subst hc; exact h
  | cons e es ih =>
    intro WL L L' WL' h hc
    obtain ⟨W1, hg, hrest⟩ := foldl_bind_cons _ e es WL WL' hc
    unfold dCheckL at hg
    split at hg
    · rename_i hp
      simp only [Option.some.injEq] at hg
      subst hg
      simp only [Bool.and_eq_true, List.contains_iff_mem] at hp
      obtain ⟨hp, huii⟩ := hp
      simp only [List.foldl_cons]
      refine ih (e.t :: WL) _ _ WL' ?_ hrest
      have h1 : AgreeOn (e.t :: WL) (wr L e.t (match e.a with | some a => rd A a | none => 0))
          (wr L' e.t (match e.a with | some a => rd A a | none => 0)) := h.write e.t rfl
      have h2 := AgreeOn.foldl_write (fun _ => e.t)
        (fun L p => rd L e.t - rd L p.1 * rd U p.2) (fun L p => rd L e.t - rd L p.1 * rd U' p.2)
        e.pairs (by
          intro a a' p hpm hag
          rw [List.all_eq_true] at hp
          have := hp p hpm
          simp only [Bool.and_eq_true, List.contains_iff_mem] at this
          rw [hag.2 e.t (List.mem_cons_self ..), hag.2 p.1 this.1, hU.2 p.2 this.2]) h1
      refine h2.write_mem e.t ?_
      rw [h2.2 e.t (List.mem_cons_self ..), hU.2 uii huii]
    · cases hg

/-- one row -/
theorem dRow_agree (A : Array α) (W W' : List Nat × List Nat) (r : DRow)
    (LU LU' : Array α × Array α) (hL : AgreeOn W.1 LU.1 LU'.1) (hU : AgreeOn W.2 LU.2 LU'.2)
    (hc : dCheckRow W r = some W') :
    AgreeOn W'.1 (dRowStep A LU r).1 (dRowStep A LU' r).1 ∧
    AgreeOn W'.2 (dRowStep A LU r).2 (dRowStep A LU' r).2 := by
  rw [dCheckRow_eq] at hc
  cases hu : r.u.foldl (fun (acc : Option (List Nat)) e => acc.bind fun WU => dCheckU W.1 WU e) (some W.2) with
  | none => rw [hu] at hc; cases hc
  | some WU =>
    rw [hu] at hc
    simp only [Option.bind_some] at hc
    cases hl : r.l.foldl (fun (acc : Option (List Nat)) e => acc.bind fun WLc => dCheckL WU r.uii WLc e)
        (some (r.lii :: W.1)) with
    | none => rw [hl] at hc; cases hc
    | some WL' =>
      rw [hl] at hc
      simp only [Option.map_some, Option.some.injEq] at hc
      subst hc
      have hUa := dU_agree A LU.1 LU'.1 W.1 hL r.u W.2 LU.2 LU'.2 WU hU hu
      have hLa := dL_agree A _ _ WU hUa r.uii r.l (r.lii :: W.1) (wr LU.1 r.lii 1) (wr LU'.1 r.lii 1) WL'
        (hL.write r.lii rfl) hl
      exact ⟨hLa, hUa⟩

theorem dRows_agree' (A : Array α) (rows : List DRow) :
    ∀ (W W' : List Nat × List Nat) (LU LU' : Array α × Array α),
      AgreeOn W.1 LU.1 LU'.1 → AgreeOn W.2 LU.2 LU'.2 →
      rows.foldl (fun (acc : Option (List Nat × List Nat)) r => acc.bind fun W => dCheckRow W r) (some W)
        = some W' →
      AgreeOn W'.1 (rows.foldl (dRowStep A) LU).1 (rows.foldl (dRowStep A) LU').1 ∧
      AgreeOn W'.2 (rows.foldl (dRowStep A) LU).2 (rows.foldl (dRowStep A) LU').2 := by
  induction rows with
  | nil =>
    intro W W' LU LU' hL hU hc
    simp only [List.foldl_nil, Option.some.injEq] at hc
    subst hc; exact ⟨hL, hU⟩
  | cons r rows ih =>
    intro W W' LU LU' hL hU hc
    obtain ⟨W1, hg, hrest⟩ := foldl_bind_cons _ r rows W W' hc
    obtain ⟨h1, h2⟩ := dRow_agree A W W1 r LU LU' hL hU hg
    simp only [List.foldl_cons]
    exact ih W1 W' _ _ h1 h2 hrest

/-- **soundness of the Doolittle dataflow check** -/
theorem dCheck_sound (rows : List DRow) (nL nU : Nat) (hc : dCheck rows nL nU = true)
    (A L U L' U' : Array α) (hL : L.size = nL) (hL' : L'.size = nL) (hU : U.size = nU) (hU' : U'.size = nU) :
    doolittleCell rows A (L, U) = doolittleCell rows A (L', U') := by
  unfold dCheck at hc
  split at hc
  · cases hc
  · rename_i W hW
    simp only [Bool.and_eq_true, List.all_eq_true, List.mem_range, List.contains_iff_mem] at hc
    obtain ⟨h1, h2⟩ := dRows_agree' A rows ([], []) W (L, U) (L', U')
      (AgreeOn.nil (by rw [hL, hL'])) (AgreeOn.nil (by rw [hU, hU'])) hW
    rw [doolittleCell_eq_foldl, doolittleCell_eq_foldl]
    have s1 := (doolittleCell_size rows A (L, U)).1
    have s2 := (doolittleCell_size rows A (L, U)).2
    rw [doolittleCell_eq_foldl] at s1 s2
    apply Prod.ext
    · exact h1.eq_of_all (fun i hi => hc.1 i (by rw [s1] at hi; simpa [hL] using hi))
    · exact h2.eq_of_all (fun i hi => hc.2 i (by rw [s2] at hi; simpa [hU] using hi))

end Doolittle

/-! ### Mozart

The initialisation phase of `mozartCell` writes `A`'s entries, the unit diagonal and explicit zeros
into `L`/`U` without reading them; if these writes cover every slot, the two arrays are equal after
that phase whatever they held before, and the elimination phase is then the same function applied
to the same arguments. -/

section Mozart
variable {α : Type} [OfNat α 0] [OfNat α 1] [Sub α] [Mul α] [Div α]

/-- agreement on a set given as a predicate -/
def AgreeP (P : Nat → Prop) (a a' : Array α) : Prop := a.size = a'.size ∧ ∀ i, P i → rd a i = rd a' i

theorem AgreeP.write {P : Nat → Prop} {a a' : Array α} (h : AgreeP P a a') (t : Nat) (v : α) :
    AgreeP (fun i => P i ∨ i = t) (wr a t v) (wr a' t v) := by
  refine ⟨by simp [h.1], ?_⟩
  intro i hi
  rw [rd_wr, rd_wr, ← h.1]
  by_cases hc : t = i ∧ t < a.size
  · obtain ⟨rfl, hlt⟩ := hc
    simp [hlt]
  · simp only [hc, if_false]
    rcases hi with hi | rfl
    · exact h.2 i hi
    · have hlt : ¬ i < a.size := fun hlt => hc ⟨rfl, hlt⟩
      have hlt' : ¬ i < a'.size := by rw [← h.1]; exact hlt
      simp [rd, Array.getD, hlt, hlt']

theorem AgreeP.mono {P Q : Nat → Prop} {a a' : Array α} (h : AgreeP P a a') (hs : ∀ i, Q i → P i) :
    AgreeP Q a a' := ⟨h.1, fun i hi => h.2 i (hs i hi)⟩

/-- a fold of writes of array-independent values -/
theorem AgreeP.foldl_const {β : Type} (t : β → Nat) (v : β → α) (l : List β) :
    ∀ {P : Nat → Prop} {a a' : Array α}, AgreeP P a a' →
      AgreeP (fun i => P i ∨ i ∈ l.map t)
        (l.foldl (fun a b => wr a (t b) (v b)) a) (l.foldl (fun a b => wr a (t b) (v b)) a') := by
  induction l with
  | nil => intro P a a' h; exact h.mono (fun i hi => by simpa using hi)
  | cons b l ih =>
    intro P a a' h
    simp only [List.foldl_cons]
    refine (ih (h.write (t b) (v b))).mono ?_
    intro i hi
    simp only [List.map_cons, List.mem_cons] at hi
    rcases hi with hi | hi | hi
    · exact Or.inl (Or.inl hi)
    · exact Or.inl (Or.inr hi)
    · exact Or.inr hi

theorem AgreeP.eq_of_all {P : Nat → Prop} {a a' : Array α} (h : AgreeP P a a')
    (hall : ∀ i, i < a.size → P i) : a = a' := by
  apply Array.ext h.1
  intro i hi hi'
  have := h.2 i (hall i hi)
  simpa [rd, Array.getD, hi, hi'] using this

/-- slots of `L` / `U` written by the initialisation phase -/
def mInitL (ini : List MInit) : List Nat :=
  ini.flatMap (fun r => r.lii :: r.ljiAji.map (·.1)) ++ ini.flatMap (·.fillL)
def mInitU (ini : List MInit) : List Nat :=
  ini.flatMap (fun r => r.ujiAji.map (·.1)) ++ ini.flatMap (·.fillU)

def mCheck (ini : List MInit) (nL nU : Nat) : Bool :=
  (List.range nL).all (fun i => (mInitL ini).contains i) && (List.range nU).all (fun i => (mInitU ini).contains i)

/-- phase 1a -/
theorem mInit_agree (A : Array α) (ini : List MInit) :
    ∀ {P Q : Nat → Prop} (LU LU' : Array α × Array α), AgreeP P LU.1 LU'.1 → AgreeP Q LU.2 LU'.2 →
      AgreeP (fun i => P i ∨ i ∈ ini.flatMap (fun r => r.lii :: r.ljiAji.map (·.1)))
        (ini.foldl (fun (LU : Array α × Array α) r =>
          let U := r.ujiAji.foldl (fun U p => wr U p.1 (rd A p.2)) LU.2
          let L := wr LU.1 r.lii 1
          let L := r.ljiAji.foldl (fun L p => wr L p.1 (rd A p.2)) L
          (L, U)) LU).1
        (ini.foldl (fun (LU : Array α × Array α) r =>
          let U := r.ujiAji.foldl (fun U p => wr U p.1 (rd A p.2)) LU.2
          let L := wr LU.1 r.lii 1
          let L := r.ljiAji.foldl (fun L p => wr L p.1 (rd A p.2)) L
          (L, U)) LU').1 ∧
      AgreeP (fun i => Q i ∨ i ∈ ini.flatMap (fun r => r.ujiAji.map (·.1)))
        (ini.foldl (fun (LU : Array α × Array α) r =>
          let U := r.ujiAji.foldl (fun U p => wr U p.1 (rd A p.2)) LU.2
          let L := wr LU.1 r.lii 1
          let L := r.ljiAji.foldl (fun L p => wr L p.1 (rd A p.2)) L
          (L, U)) LU).2
        (ini.foldl (fun (LU : Array α × Array α) r =>
          let U := r.ujiAji.foldl (fun U p => wr U p.1 (rd A p.2)) LU.2
          let L := wr LU.1 r.lii 1
          let L := r.ljiAji.foldl (fun L p => wr L p.1 (rd A p.2)) L
          (L, U)) LU').2 := by
  induction ini with
  | nil =>
    intro P Q LU LU' hL hU
    exact ⟨hL.mono (fun i hi => by simpa using hi), hU.mono (fun i hi => by simpa using hi)⟩
  | cons r ini ih =>
    intro P Q LU LU' hL hU
    simp only [List.foldl_cons]
    have hU1 := AgreeP.foldl_const (fun p : Nat × Nat => p.1) (fun p => rd A p.2) r.ujiAji hU
    have hL1 := AgreeP.foldl_const (fun p : Nat × Nat => p.1) (fun p => rd A p.2) r.ljiAji
      (hL.write r.lii 1)
    obtain ⟨g1, g2⟩ := ih (_, _) (_, _) hL1 hU1
    refine ⟨g1.mono ?_, g2.mono ?_⟩
    · intro i hi
      simp only [List.flatMap_cons, List.mem_append, List.mem_cons] at hi
      rcases hi with hi | (hi | hi) | hi
      · exact Or.inl (Or.inl (Or.inl hi))
      · exact Or.inl (Or.inl (Or.inr hi))
      · exact Or.inl (Or.inr hi)
      · exact Or.inr hi
    · intro i hi
      simp only [List.flatMap_cons, List.mem_append] at hi
      rcases hi with hi | hi | hi
      · exact Or.inl (Or.inl hi)
      · exact Or.inl (Or.inr hi)
      · exact Or.inr hi

/-- phase 1b: explicit zeros -/
theorem mFill_agree (f : MInit → List Nat) (ini : List MInit) :
    ∀ {P : Nat → Prop} {a a' : Array α}, AgreeP P a a' →
      AgreeP (fun i => P i ∨ i ∈ ini.flatMap f)
        (ini.foldl (fun U r => (f r).foldl (fun U i => wr U i 0) U) a)
        (ini.foldl (fun U r => (f r).foldl (fun U i => wr U i 0) U) a') := by
  induction ini with
  | nil => intro P a a' h; exact h.mono (fun i hi => by simpa using hi)
  | cons r ini ih =>
    intro P a a' h
    simp only [List.foldl_cons]
    have h1 := AgreeP.foldl_const (fun i : Nat => i) (fun _ => (0 : α)) (f r) h
    refine (ih h1).mono ?_
    intro i hi
    simp only [List.flatMap_cons, List.mem_append] at hi
    rcases hi with hi | hi | hi
    · exact Or.inl (Or.inl hi)
    · exact Or.inl (Or.inr (by simpa using hi))
    · exact Or.inr hi

/-- **soundness of the Mozart dataflow check** -/
theorem mCheck_sound (ini : List MInit) (rows : List MRow) (nL nU : Nat) (hc : mCheck ini nL nU = true)
    (A L U L' U' : Array α) (hL : L.size = nL) (hL' : L'.size = nL) (hU : U.size = nU) (hU' : U'.size = nU) :
    mozartCell ini rows A (L, U) = mozartCell ini rows A (L', U') := by
  unfold mCheck at hc
  simp only [Bool.and_eq_true, List.all_eq_true, List.mem_range, List.contains_iff_mem] at hc
  obtain ⟨a1, a2⟩ := mInit_agree A ini (P := fun _ => False) (Q := fun _ => False) (L, U) (L', U')
    ⟨by rw [hL, hL'], fun _ h => h.elim⟩ ⟨by rw [hU, hU'], fun _ h => h.elim⟩
  have b1 := mFill_agree (·.fillL) ini a1
  have b2 := mFill_agree (·.fillU) ini a2
  have eL := b1.eq_of_all (fun i hi => by
    have hsz : i < nL := by
      rw [foldl_size] at hi
      · have h0 := (foldl_pair_size (fun (LU : Array α × Array α) (r : MInit) =>
            let U := r.ujiAji.foldl (fun U p => wr U p.1 (rd A p.2)) LU.2
            let L := wr LU.1 r.lii 1
            let L := r.ljiAji.foldl (fun L p => wr L p.1 (rd A p.2)) L
            (L, U)) (by
              intro a b
              constructor
              · simp only []
                rw [foldl_size]
                · simp
                · intro a b; simp
              · simp only []
                rw [foldl_size]
                intro a b; simp) ini (L, U)).1
        rw [h0] at hi; simpa [hL] using hi
      · intro a b; apply foldl_size; intro a b; simp
    have := hc.1 i hsz
    simp only [mInitL, List.mem_append] at this
    rcases this with h | h
    · exact Or.inl (Or.inr h)
    · exact Or.inr h)
  have eU := b2.eq_of_all (fun i hi => by
    have hsz : i < nU := by
      rw [foldl_size] at hi
      · have h0 := (foldl_pair_size (fun (LU : Array α × Array α) (r : MInit) =>
            let U := r.ujiAji.foldl (fun U p => wr U p.1 (rd A p.2)) LU.2
            let L := wr LU.1 r.lii 1
            let L := r.ljiAji.foldl (fun L p => wr L p.1 (rd A p.2)) L
            (L, U)) (by
              intro a b
              constructor
              · simp only []
                rw [foldl_size]
                · simp
                · intro a b; simp
              · simp only []
                rw [foldl_size]
                intro a b; simp) ini (L, U)).2
        rw [h0] at hi; simpa [hU] using hi
      · intro a b; apply foldl_size; intro a b; simp
    have := hc.2 i hsz
    simp only [mInitU, List.mem_append] at this
    rcases this with h | h
    · exact Or.inl (Or.inr h)
    · exact Or.inr h)
  unfold mozartCell
  simp only []
  rw [eL, eU]

end Mozart

/-! ### the check discharges `LUOverwrites` -/

section Discharge
variable {α : Type} [OfNat α 0] [OfNat α 1] [Add α] [Sub α] [Mul α] [Div α]

/-- the dataflow check for the configured separate-`L`/`U` variant -/
def luCheck (la : LinAlg) (nL nU : Nat) : Bool :=
  match la.kind with
  | .doolittle => dCheck la.dRows nL nU
  | .mozart => mCheck la.mInit nL nU
  | _ => false

theorem luCheck_sound (s : SolverCfg α) (nL nU : Nat) (h : luCheck s.la nL nU = true) :
    LUOverwrites s nL nU := by
  intro A L U L' U' h1 h2 h3 h4
  unfold luCheck at h
  unfold luCellSep
  split <;> rename_i hk <;> simp only [hk] at h
  · exact dCheck_sound _ nL nU h A L U L' U' h1 h2 h3 h4
  · exact mCheck_sound _ _ nL nU h A L U L' U' h1 h2 h3 h4
  · rename_i hk2 _
    cases hkk : s.la.kind <;> simp_all

/-- a scratch whose `L`/`U` cells all have the checked sizes is fit for the solver -/
theorem LUInv_of_check (s : SolverCfg α) (sc : Scratch α) (nL nU : Nat)
    (h : luCheck s.la nL nU = true) (hsz : sc.lower.size = sc.upper.size)
    (hL : ∀ c, c < sc.lower.size → (sc.lower.getD c #[]).size = nL)
    (hU : ∀ c, c < sc.upper.size → (sc.upper.getD c #[]).size = nU) : LUInv s sc := by
  intro _ c
  by_cases hc : c < sc.lower.size
  · rw [hL c hc, hU c (hsz ▸ hc)]
    exact luCheck_sound s nL nU h
  · have hc' : ¬ c < sc.upper.size := hsz ▸ hc
    have e1 : (sc.lower.getD c #[]).size = 0 := by simp [Array.getD, hc]
    have e2 : (sc.upper.getD c #[]).size = 0 := by simp [Array.getD, hc']
    rw [e1, e2]
    exact LUOverwrites_zero s

end Discharge

end Micm
