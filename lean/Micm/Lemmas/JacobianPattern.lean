/-
C02 composed with C19: the Jacobian theorem on the pattern the builder really constructs,
`Pattern.mk' n csc L (buildJacobianSet n t.nonZeroJacobianElements)` (either storage order, any
group length).  Kept apart from `Properties/C02.lean` because it imports C19's files.
-/
import Micm.Properties.C02
import Micm.Properties.C19

namespace Micm

theorem jac_mem_buildJacobianSet (n : Nat) (elems : List Pair) (x : Pair) :
    x ∈ buildJacobianSet n elems ↔ x ∈ elems ∨ (x.1 = x.2 ∧ x.1 < n) := by
  unfold buildJacobianSet setOfList
  rw [jac_mem_foldl_setInsert (fun i => (i, i)), jac_mem_foldl_setInsert (fun a => a)]
  constructor
  · rintro ((h | ⟨d, hd, rfl⟩) | ⟨i, hi, rfl⟩)
    · cases h
    · exact Or.inl hd
    · exact Or.inr ⟨rfl, List.mem_range.mp hi⟩
  · rintro (h | ⟨h1, h2⟩)
    · exact Or.inl (Or.inr ⟨x, h, rfl⟩)
    · exact Or.inr ⟨x.1, List.mem_range.mpr h2, Prod.ext rfl h1.symm⟩

theorem jac_buildJacobianSet_sorted (n : Nat) (elems : List Pair) :
    JacSorted (buildJacobianSet n elems) := by
  unfold buildJacobianSet setOfList
  exact jac_foldl_setInsert_sorted (fun i => (i, i)) _ _
    (jac_foldl_setInsert_sorted (fun a => a) _ _ List.Pairwise.nil)

theorem specProdIds_subset {α : Type} (m : NameMap) (l : List (SpecRef × α)) :
    ∀ x ∈ (specProdIds m l).map (·.1), x ∈ m.map (·.2) := by
  intro x hx
  obtain ⟨pr, hpr, rfl⟩ := List.mem_map.mp hx
  unfold specProdIds at hpr
  obtain ⟨r, _, hr⟩ := List.mem_filterMap.mp hpr
  by_cases hp : r.1.param = true
  · simp [hp] at hr
  · simp only [hp] at hr
    cases hl : nmLookup m r.1.name with
    | none => simp [hl] at hr
    | some v =>
      simp only [hl, Option.map_some, Option.some.injEq, Bool.false_eq_true, if_false] at hr
      rw [← hr]
      exact List.mem_map.mpr ⟨_, jac_mem_of_nmLookup m _ _ hl, rfl⟩

/-- the builder's Jacobian element set is a well-formed `std::set` of an `n x n` block -/
theorem jac_buildJacobianSet_WF {α : Type} (procs : List (Process α)) (m : NameMap) (t : PSTables α)
    (hb : ProcessSet.build procs m = .ok t) (n : Nat) (hn : ∀ e ∈ m, e.2 < n) :
    WF n (buildJacobianSet n t.nonZeroJacobianElements) := by
  have hval : ∀ v ∈ m.map (·.2), v < n := fun v hv => by
    obtain ⟨e, he, rfl⟩ := List.mem_map.mp hv
    exact hn e he
  refine ⟨jac_buildJacobianSet_sorted n _, ?_⟩
  intro x hx
  rcases (jac_mem_buildJacobianSet n _ x).mp hx with h | ⟨h1, h2⟩
  · obtain ⟨p, _, h2, h1⟩ := (mem_nonZero_of_build procs m t hb x).mp h
    refine ⟨?_, hval _ (specReactIds_subset m _ _ h2)⟩
    rcases h1 with h1 | h1
    · exact hval _ (specReactIds_subset m _ _ h1)
    · exact hval _ (specProdIds_subset m _ _ h1)
  · exact ⟨h2, h1 ▸ h2⟩

/-- **C02 end to end.**  For a successfully built process set over a name map with distinct names
    and distinct indices `< n` (parameterized reactants not in the map), on the sparse matrix the
    builder creates — `BuildJacobian` of `NonZeroJacobianElements`, CSR or CSC, standard or vector
    ordering — `SetJacobianFlatIds` succeeds, and `SubtractJacobianTerms` applied to a zero block
    leaves, at every element `(i, j)` of the pattern, minus the formal partial derivative
    `∂f_i/∂y_j` of the mass-action forcing; every other slot stays zero. -/
theorem C02_jacobian_built_pattern {K : Type} [CommRing K] (procs : List (Process K)) (m : NameMap)
    (t : PSTables K) (hb : ProcessSet.build procs m = .ok t)
    (hk : (m.map (·.1)).Nodup) (hv : (m.map (·.2)).Nodup)
    (hparam : ∀ p ∈ procs, ∀ r ∈ p.reactants, r.param = true → nmLookup m r.name = none)
    (n : Nat) (hn : ∀ e ∈ m, e.2 < n) (csc : Bool) (L : Nat) :
    let set := buildJacobianSet n t.nonZeroJacobianElements
    let p := Pattern.mk' n csc L set
    ∃ flat, t.jacobianFlatIds p = .ok flat ∧ p.nnz = set.length ∧
      ∀ k y : Array K,
        (∀ i j, (i, j) ∈ set → ∃ q, p.rank i j = .ok q ∧ q < p.nnz ∧
          rd (t.subtractJacobianCell flat k y (Array.replicate p.nnz 0)) q
            = - (procs.zipIdx.map fun pi =>
                jacNet (specReactIds m pi.1.reactants) (specProdIds m pi.1.products) i
                  * (rd k pi.2 * dMonomial (rd y) (specReactIds m pi.1.reactants) j)).sum) ∧
        (∀ q, q ∉ flat → rd (t.subtractJacobianCell flat k y (Array.replicate p.nnz 0)) q = 0) := by
  intro set p
  have hw : WF n set := jac_buildJacobianSet_WF procs m t hb n hn
  obtain ⟨hnnz, hlt, hinj⟩ := C19_rank_lt_inj hw csc L
  have hpres : ∀ i j, (i, j) ∈ set → ∃ q, p.rank i j = .ok q := by
    intro i j hij
    have hz := (C19_isZero_spec hw csc L i j).1.mpr hij
    unfold Pattern.isZero at hz
    split at hz
    · rename_i q hq; exact ⟨q, hq⟩
    · cases hz
    · cases hz
  obtain ⟨flat, hflat⟩ := C02_flatids_defined procs m t hb hk hparam p (fun x hx =>
    hpres x.1 x.2 ((jac_mem_buildJacobianSet n _ x).mpr (Or.inl hx)))
  refine ⟨flat, hflat, hnnz, fun k y => ⟨?_, ?_⟩⟩
  · intro i j hij
    obtain ⟨q, hq⟩ := hpres i j hij
    exact ⟨q, hq, hlt i j q hq,
      C02_jacobian_zero procs m t hb hk hv hparam p flat hflat hinj k y p.nnz hlt i j q hq⟩
  · intro q hq
    rw [(C02_untouched t flat k y _ q hq).1]
    unfold rd
    by_cases h : q < p.nnz <;> simp [Array.getD_eq_getD_getElem?, h]

end Micm

#print axioms Micm.C02_jacobian_built_pattern
