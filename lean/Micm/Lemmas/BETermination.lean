/-
Termination of the flattened backward-Euler loop (C06 "Solve terminates", backward-Euler part).

`BackwardEuler::Solve` has three nested sources of repetition: Newton iterations inside an outer
iteration (at most `max(1, max_number_of_steps)`), rejected outer iterations (at most
`time_step_reductions.size() + 1`, already part of `BECtlInv`), and accepted outer iterations, which
the source does not bound at all.  Over an ordered field, with `0 < T`, a first step `0 < h₀ ≤ T` and
reduction factors in `(0, 1]`, the accepted iterations are bounded too:

* `(T − t)·ρ(k)·h₀ ≤ H·T` is invariant, where `ρ(k)` is the product of the `k` factors used so far
  (an acceptance only shrinks `T − t` or clips `H` to it; a rejection multiplies both sides by the factor);
  hence at the start of every *phase* (stretch between two rejections) `T − t ≤ B·H` for any natural `B`
  with `T ≤ B·ρ(all)·h₀`;
* inside a phase `H` never decreases except by the final clip `H = T − t`, after which one more
  acceptance ends the solve; so a phase has at most `B + 1` acceptances.
-/
import Mathlib.Algebra.BigOperators.Group.List.Basic
import Micm.Lemmas.BackwardEuler

namespace Micm
set_option linter.unusedSectionVars false

section BETerm
variable {K : Type} [Field K] [LinearOrder K] [IsStrictOrderedRing K]
variable {o : Ops K} (ho : OrderedOps o) (s : SolverCfg K) (p : BEParams K) (kc : Mat K)
    (atol : Array K) (rtol : K) (T : K)

/-- product of the first `k` reduction factors -/
def redProd (p : BEParams K) (k : Nat) : K := (p.reductions.take k).prod

/-- all reduction factors lie in `(0, 1]` -/
def RedLegal (p : BEParams K) : Prop := ∀ x ∈ p.reductions, 0 < x ∧ x ≤ 1

theorem list_prod_unit (l : List K) (h : ∀ x ∈ l, 0 < x ∧ x ≤ 1) : 0 < l.prod ∧ l.prod ≤ 1 := by
  induction l with
  | nil => simp
  | cons a l ih =>
    obtain ⟨i1, i2⟩ := ih (fun x hx => h x (List.mem_cons_of_mem _ hx))
    obtain ⟨a1, a2⟩ := h a (List.mem_cons_self)
    rw [List.prod_cons]
    exact ⟨mul_pos a1 i1, by calc a * l.prod ≤ 1 * 1 := mul_le_mul a2 i2 (le_of_lt i1) (by norm_num)
                                 _ = 1 := one_mul 1⟩

theorem redProd_unit (hl : RedLegal p) (k : Nat) : 0 < redProd p k ∧ redProd p k ≤ 1 :=
  list_prod_unit _ (fun x hx => hl x (List.mem_of_mem_take hx))

theorem redProd_succ (k : Nat) (hk : k < p.reductions.length) :
    redProd p (k + 1) = redProd p k * p.reductions.getD k 1 := by
  unfold redProd
  rw [List.take_succ_eq_append_getElem hk, List.prod_append, List.prod_singleton]
  simp [List.getD, hk]

theorem redProd_all_le (hl : RedLegal p) (k : Nat) :
    redProd p p.reductions.length ≤ redProd p k := by
  have h1 : redProd p p.reductions.length = redProd p k * (p.reductions.drop k).prod := by
    unfold redProd
    rw [List.take_length, List.prod_take_mul_prod_drop]
  have h2 := list_prod_unit (p.reductions.drop k) (fun x hx => hl x (List.mem_of_mem_drop hx))
  rw [h1]
  calc redProd p k * (p.reductions.drop k).prod ≤ redProd p k * 1 :=
        mul_le_mul_of_nonneg_left h2.2 (le_of_lt (redProd_unit p hl k).1)
    _ = redProd p k := mul_one _

theorem getD_red (hl : RedLegal p) (k : Nat) (hk : k < p.reductions.length) :
    0 < p.reductions.getD k 1 ∧ p.reductions.getD k 1 ≤ 1 := by
  have e : p.reductions.getD k 1 = p.reductions[k] := by simp [List.getD, hk]
  rw [e]; exact hl _ (List.getElem_mem hk)

/-- the acceptance-counting invariant (ghost phase data `Hs`, `ts`, `n`, `e` existentially quantified) -/
def BEAccInv (p : BEParams K) (T h0 : K) (B : Nat) (r : BEState K) : Prop :=
  (r.iterations ≠ 0 → r.t < T) ∧
  (r.done = false → r.t < T → 0 < r.h) ∧
  (r.done = false → (T - r.t) * redProd p r.nFail * h0 ≤ r.h * T) ∧
  ∃ (Hs ts : K) (n e : Nat), 0 < Hs ∧ ts ≤ r.t ∧ T - ts ≤ (B : K) * Hs ∧ (n : K) * Hs ≤ r.t - ts ∧
    (r.done = false → Hs ≤ r.h ∨ r.h = T - r.t) ∧
    r.stats.accepted ≤ r.nFail * (B + 1) + n + e ∧ e ≤ 1 ∧ (e = 1 → T ≤ r.t)

theorem BEAccInv_init (hT : 0 < T) (h0 : K) (hh : 0 < h0) (hle : h0 ≤ T) (B : Nat)
    (hB : T ≤ (B : K) * (redProd p p.reductions.length * h0)) (hl : RedLegal p)
    (Y : Mat K) (sc : Scratch K) : BEAccInv p T h0 B (beInit h0 Y sc) := by
  refine ⟨fun h => (by simp [beInit] at h), fun _ _ => (by simpa [beInit] using hh), fun _ => ?_,
    h0, 0, 0, 0, hh, (by simp [beInit]), ?_, (by simp [beInit]), fun _ => Or.inl (by simp [beInit]),
    (by simp [beInit]), (by omega), fun h => (by omega)⟩
  · simp [beInit, redProd]; rw [mul_comm]
  · have h1 := (redProd_unit p hl p.reductions.length)
    have : redProd p p.reductions.length * h0 ≤ h0 := by
      calc redProd p p.reductions.length * h0 ≤ 1 * h0 := mul_le_mul_of_nonneg_right h1.2 (le_of_lt hh)
        _ = h0 := one_mul _
    have hB0 : (0 : K) ≤ B := Nat.cast_nonneg B
    calc T - 0 = T := sub_zero T
      _ ≤ (B : K) * (redProd p p.reductions.length * h0) := hB
      _ ≤ (B : K) * h0 := mul_le_mul_of_nonneg_left this hB0

/-- the number of acceptances is bounded in every state satisfying the invariants -/
theorem BEAccInv_bound (h0 : K) (B : Nat) (r : BEState K) (ht : BETimeInv T r) (hc : BECtlInv p r)
    (h : BEAccInv p T h0 B r) :
    r.stats.accepted ≤ p.reductions.length * (B + 1) + B + 1 := by
  obtain ⟨_, _, _, Hs, ts, n, e, g1, g2, g3, g4, _, g6, g7, _⟩ := h
  have hn : (n : K) * Hs ≤ (B : K) * Hs := by
    have := ht.tT; linarith
  have hnB : n ≤ B := by
    have := le_of_mul_le_mul_right hn g1
    exact_mod_cast this
  have := hc.nFail
  have : r.nFail * (B + 1) ≤ p.reductions.length * (B + 1) := Nat.mul_le_mul_right _ this
  omega

include ho in
/-- from a state that is not `done`, passing the loop head means `t < T` -/
theorem beHead_lt (r : BEState K) (hd : r.done = false) (h5 : r.iterations ≠ 0 → r.t < T)
    (hh : (beHead o T r).done = false) : r.t < T := by
  rcases beHead_cases o T r with ⟨_, hl, _⟩ | ⟨_, _, h⟩ | ⟨h0, _⟩
  · rw [ho.lt] at hl; simpa using hl
  · rw [h] at hh; simp at hh
  · exact h5 h0

include ho in
theorem BEAccInv_step (hT : 0 < T) (h0 : K) (hh0 : 0 < h0) (hle0 : h0 ≤ T) (B : Nat)
    (hB : T ≤ (B : K) * (redProd p p.reductions.length * h0)) (hl : RedLegal p)
    (r : BEState K) (hd : r.done = false) (ht : BETimeInv T r) (hc : BECtlInv p r)
    (h : BEAccInv p T h0 B r) : BEAccInv p T h0 B (beStep o s p kc atol rtol T r) := by
  obtain ⟨i5, ipos, im, Hs, ts, n, e, g1, g2, g3, g4, g5, g6, g7, g8⟩ := h
  have ipos := ipos hd
  have im := im hd
  have g5 := g5 hd
  have hle := ht.hle hd
  have hcases := beStep_cases o s p kc atol rtol T r
  generalize beStep o s p kc atol rtol T r = r' at hcases ⊢
  cases hcases with
  | exit h =>
    refine ⟨(by simpa using i5), fun h' => (by rw [h] at h'; cases h'), fun h' => (by rw [h] at h'; cases h'),
      Hs, ts, n, e, g1, (by simpa using g2), g3, (by simpa using g4), fun h' => (by rw [h] at h'; cases h'),
      (by simpa using g6), g7, (by simpa using g8)⟩
  | cont h1 _ _ =>
    have hlt := beHead_lt ho T r hd i5 h1
    refine ⟨fun _ => (by simpa [beNewton] using hlt), fun _ _ => (by simpa [beNewton] using ipos hlt),
      fun _ => (by simpa [beNewton] using im), Hs, ts, n, e, g1, (by simpa [beNewton] using g2), g3,
      (by simpa [beNewton] using g4), fun _ => (by simpa [beNewton] using g5),
      (by simpa [beNewton] using g6), g7, (by simpa [beNewton] using g8)⟩
  | giveUp h1 _ _ _ =>
    have hh := ht.h0
    refine ⟨fun h' => (by simp [beGiveUp] at h'), fun h' => (by simp [beGiveUp] at h'),
      fun h' => (by simp [beGiveUp] at h'), Hs, ts, n, e, g1, ?_, g3, ?_, fun h' => (by simp [beGiveUp] at h'),
      (by simpa [beGiveUp, beNewton] using g6), g7, ?_⟩
    · simp only [beGiveUp, beNewton, beHead_t, beHead_h]; linarith
    · simp only [beGiveUp, beNewton, beHead_t, beHead_h]; linarith
    · intro h'; have := g8 h'; simp only [beGiveUp, beNewton, beHead_t, beHead_h]; linarith
  | retry h1 _ _ h4 =>
    have hlt := beHead_lt ho T r hd i5 h1
    have hpos := ipos hlt
    obtain ⟨r1, r2⟩ := getD_red p hl r.nFail h4
    -- the clip is inactive: `H·f ≤ H ≤ T − t`
    have hmin : min (r.h * p.reductions.getD r.nFail 1) (T - r.t) = r.h * p.reductions.getD r.nFail 1 := by
      apply min_eq_left
      calc r.h * p.reductions.getD r.nFail 1 ≤ r.h * 1 := mul_le_mul_of_nonneg_left r2 (le_of_lt hpos)
        _ = r.h := mul_one _
        _ ≤ T - r.t := hle
    have hnewpos : 0 < r.h * p.reductions.getD r.nFail 1 := mul_pos hpos r1
    have him' : (T - r.t) * redProd p (r.nFail + 1) * h0 ≤ r.h * p.reductions.getD r.nFail 1 * T := by
      rw [redProd_succ p r.nFail h4]
      have := mul_le_mul_of_nonneg_right im (le_of_lt r1)
      calc (T - r.t) * (redProd p r.nFail * p.reductions.getD r.nFail 1) * h0
          = (T - r.t) * redProd p r.nFail * h0 * p.reductions.getD r.nFail 1 := by ring
        _ ≤ r.h * T * p.reductions.getD r.nFail 1 := this
        _ = r.h * p.reductions.getD r.nFail 1 * T := by ring
    -- a new phase starts here: `T − t ≤ B·H'`
    have hphase : T - r.t ≤ (B : K) * (r.h * p.reductions.getD r.nFail 1) := by
      have hc0 : 0 < redProd p (r.nFail + 1) * h0 := mul_pos (redProd_unit p hl _).1 hh0
      have hall := redProd_all_le p hl (r.nFail + 1)
      have h2 : T ≤ (B : K) * (redProd p (r.nFail + 1) * h0) := by
        have hB0 : (0 : K) ≤ B := Nat.cast_nonneg B
        calc T ≤ (B : K) * (redProd p p.reductions.length * h0) := hB
          _ ≤ (B : K) * (redProd p (r.nFail + 1) * h0) :=
            mul_le_mul_of_nonneg_left (mul_le_mul_of_nonneg_right hall (le_of_lt hh0)) hB0
      have h3 : (T - r.t) * (redProd p (r.nFail + 1) * h0) ≤
          ((B : K) * (r.h * p.reductions.getD r.nFail 1)) * (redProd p (r.nFail + 1) * h0) := by
        calc (T - r.t) * (redProd p (r.nFail + 1) * h0) = (T - r.t) * redProd p (r.nFail + 1) * h0 := by ring
          _ ≤ r.h * p.reductions.getD r.nFail 1 * T := him'
          _ ≤ r.h * p.reductions.getD r.nFail 1 * ((B : K) * (redProd p (r.nFail + 1) * h0)) :=
            mul_le_mul_of_nonneg_left h2 (le_of_lt hnewpos)
          _ = ((B : K) * (r.h * p.reductions.getD r.nFail 1)) * (redProd p (r.nFail + 1) * h0) := by ring
      exact le_of_mul_le_mul_right h3 hc0
    -- the finished phase had at most `B` acceptances (and `e = 0` since `t < T`)
    have he : e = 0 := by
      rcases Nat.lt_or_ge e 1 with h' | h'
      · omega
      · have : e = 1 := by omega
        exact absurd (g8 this) (not_le.mpr hlt)
    have hnB : n ≤ B := by
      have hn : (n : K) * Hs ≤ (B : K) * Hs := by have := ht.tT; linarith
      have := le_of_mul_le_mul_right hn g1
      exact_mod_cast this
    refine ⟨fun h' => (by simp [beRetry] at h'), fun _ _ => ?_, fun _ => ?_,
      r.h * p.reductions.getD r.nFail 1, r.t, 0, 0, hnewpos, (by simp [beRetry, beNewton]), ?_,
      (by simp [beRetry, beNewton]), fun _ => Or.inl ?_, ?_, (by omega), fun h' => (by omega)⟩
    · simp only [beRetry, beNewton, beHead_t, beHead_h, beHead_nFail, ho.cmin_eq, hmin]; exact hnewpos
    · simp only [beRetry, beNewton, beHead_t, beHead_h, beHead_nFail, ho.cmin_eq, hmin]; exact him'
    · exact hphase
    · simp only [beRetry, beNewton, beHead_t, beHead_h, beHead_nFail, ho.cmin_eq, hmin]; exact le_refl _
    · simp only [beRetry, beNewton, beHead_stats, beHead_nFail]
      rw [he] at g6
      have : r.nFail * (B + 1) + n + 0 ≤ (r.nFail + 1) * (B + 1) + 0 + 0 := by
        rw [Nat.add_mul]; omega
      omega
  | accept h1 _ =>
    have hlt := beHead_lt ho T r hd i5 h1
    have hpos := ipos hlt
    have he : e = 0 := by
      rcases Nat.lt_or_ge e 1 with h' | h'
      · omega
      · have : e = 1 := by omega
        exact absurd (g8 this) (not_le.mpr hlt)
    -- the candidate next step `Hx ∈ {H, 2H}` is at least `H`
    have hx : r.h ≤ (if r.nSucc + 1 ≥ 2 then r.h * 2 else r.h) := by
      split
      · linarith
      · exact le_refl _
    have hrho : redProd p r.nFail * h0 ≤ T := by
      have := (redProd_unit p hl r.nFail)
      calc redProd p r.nFail * h0 ≤ 1 * h0 := mul_le_mul_of_nonneg_right this.2 (le_of_lt hh0)
        _ = h0 := one_mul _
        _ ≤ T := hle0
    have hrem : 0 ≤ T - (r.t + r.h) := by linarith
    refine ⟨fun h' => (by simp [beAccept_eq] at h'), fun _ hlt' => ?_, fun _ => ?_, ?_⟩
    · simp only [beAccept_eq, beNewton, beHead_t, beHead_h, beHead_nSucc, ho.cmin_eq] at hlt' ⊢
      exact lt_min (lt_of_lt_of_le hpos hx) (by linarith)
    · simp only [beAccept_eq, beNewton, beHead_t, beHead_h, beHead_nSucc, beHead_nFail, ho.cmin_eq]
      rcases le_total (if r.nSucc + 1 ≥ 2 then r.h * 2 else r.h) (T - (r.t + r.h)) with hm | hm
      · rw [min_eq_left hm]
        have h1' : (T - (r.t + r.h)) * redProd p r.nFail * h0 ≤ (T - r.t) * redProd p r.nFail * h0 := by
          have hr0 := (redProd_unit p hl r.nFail).1
          have : T - (r.t + r.h) ≤ T - r.t := by linarith
          exact mul_le_mul_of_nonneg_right (mul_le_mul_of_nonneg_right this (le_of_lt hr0)) (le_of_lt hh0)
        calc (T - (r.t + r.h)) * redProd p r.nFail * h0 ≤ (T - r.t) * redProd p r.nFail * h0 := h1'
          _ ≤ r.h * T := im
          _ ≤ (if r.nSucc + 1 ≥ 2 then r.h * 2 else r.h) * T := mul_le_mul_of_nonneg_right hx (le_of_lt hT)
      · rw [min_eq_right hm]
        calc (T - (r.t + r.h)) * redProd p r.nFail * h0 = (T - (r.t + r.h)) * (redProd p r.nFail * h0) := by ring
          _ ≤ (T - (r.t + r.h)) * T := mul_le_mul_of_nonneg_left hrho hrem
    · rcases g5 with hge | heq
      · -- an ordinary acceptance inside the phase: one more step of size `≥ Hs`
        refine ⟨Hs, ts, n + 1, e, g1, ?_, g3, ?_, fun _ => ?_, ?_, g7, ?_⟩
        · simp only [beAccept_eq, beNewton, beHead_t, beHead_h]; linarith
        · simp only [beAccept_eq, beNewton, beHead_t, beHead_h]; push_cast; linarith
        · simp only [beAccept_eq, beNewton, beHead_t, beHead_h, beHead_nSucc, ho.cmin_eq]
          rcases le_total (if r.nSucc + 1 ≥ 2 then r.h * 2 else r.h) (T - (r.t + r.h)) with hm | hm
          · rw [min_eq_left hm]; exact Or.inl (le_trans hge hx)
          · rw [min_eq_right hm]; exact Or.inr rfl
        · simp only [beAccept_eq, beNewton, beHead_stats, beHead_nFail]; omega
        · intro h'; have := g8 h'; simp only [beAccept_eq, beNewton, beHead_t, beHead_h]; linarith
      · -- the clipped last step: `t' = T`
        refine ⟨Hs, ts, n, 1, g1, ?_, g3, ?_, fun _ => Or.inr ?_, ?_, le_refl _, fun _ => ?_⟩
        · simp only [beAccept_eq, beNewton, beHead_t, beHead_h]; linarith
        · simp only [beAccept_eq, beNewton, beHead_t, beHead_h]; linarith
        · simp only [beAccept_eq, beNewton, beHead_t, beHead_h, beHead_nSucc, ho.cmin_eq]
          have h0' : T - (r.t + r.h) = 0 := by rw [heq]; ring
          rw [h0']
          exact min_eq_right (le_trans (le_of_lt hpos) hx)
        · simp only [beAccept_eq, beNewton, beHead_stats, beHead_nFail]; omega
        · simp only [beAccept_eq, beNewton, beHead_t, beHead_h]; rw [heq]; linarith

/-- if the loop ends in a state that is not `done` (fuel exhausted), every iteration recorded a
    Newton iteration -/
theorem beLoop_not_done_trace (fuel : Nat) (r : BEState K)
    (h : (beLoop o s p kc atol rtol T fuel r).done = false) :
    (beLoop o s p kc atol rtol T fuel r).trace.length = r.trace.length + fuel := by
  induction fuel generalizing r with
  | zero =>
    rw [beLoop_zero] at h ⊢
    cases hd : r.done
    · simp [hd]
    · simp [hd] at h
  | succ n ih =>
    rw [beLoop_succ] at h ⊢
    cases hd : r.done
    · simp only [hd, Bool.false_eq_true, if_false] at h ⊢
      rw [ih _ h, beStep_trace]
      cases hh : (beHead o T r).done
      · simp; omega
      · -- the head ended the loop: the next state is `done`, so the loop cannot end not-`done`
        exfalso
        have e := beStep_of_exit o s p kc atol rtol T r hh
        rw [e] at h
        have : (beLoop o s p kc atol rtol T n (beHead o T r)).done = true := by
          cases n with
          | zero => rw [beLoop_zero]; simp [hh]
          | succ m => rw [beLoop_succ]; simp [hh]
        rw [this] at h; cases h
    · simp [hd] at h

end BETerm
end Micm
