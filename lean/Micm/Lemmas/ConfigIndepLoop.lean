import Micm.Lemmas.ConfigIndep
import Micm.Lemmas.Scratch

/-!
C12, whole solve: two built configurations of the same mechanism run `rosStep` in lockstep.

* `StoreInv`: per-configuration storage invariant (shapes of the logical matrices and of the
  sparse storage, and "inside a step `state.jacobian_` holds the (shifted) Jacobian of the step");
* `LogicalEq`: the two states agree on everything logical;
* `step_config_indep`, `loop_config_indep`, `solve_config_indep`.
-/
open Finset
namespace Micm
set_option linter.unusedSectionVars false
variable {K : Type} [Field K]

/-! ### sizes of the in-place kernels, shapes of `factor` -/

theorem cfg_doolittleInPlaceCell_size (rows : List DIRow) (M : Array K) :
    (doolittleInPlaceCell rows M).size = M.size := by
  unfold doolittleInPlaceCell
  apply foldl_size
  intro M r
  simp only []
  rw [foldl_size, foldl_size]
  · intro M e; rw [foldl_size]; intro a b; simp
  · intro M e; simp only [wr_size]; rw [foldl_size]; intro a b; simp

theorem cfg_mozartInPlaceCell_size (rows : List MIRow) (M : Array K) :
    (mozartInPlaceCell rows M).size = M.size := by
  unfold mozartInPlaceCell
  apply foldl_size
  intro M r
  simp only []
  rw [foldl_size, foldl_size]
  · intro a b; simp
  · intro M k; rw [foldl_size]; intro a b; simp

theorem MatShape.getD_size {nCells n : Nat} {M : Mat K} (h : MatShape nCells n M) (c : Nat)
    (hc : c < nCells) : (M.getD c #[]).size = n := h.2 c hc

theorem MatShape.of_rows {nCells n : Nat} {M : Mat K} (hs : M.size = nCells)
    (h : ∀ c (hc : c < M.size), M[c].size = n) : MatShape nCells n M :=
  ⟨hs, fun c hc => by rw [getD_lt _ _ _ (by omega)]; exact h c (by omega)⟩

theorem MatShape.row {nCells n : Nat} {M : Mat K} (h : MatShape nCells n M) (c : Nat)
    (hc : c < M.size) : M[c].size = n := by
  have := h.2 c (by rw [← h.1]; exact hc)
  rwa [getD_lt _ _ _ hc] at this

theorem MatShape.alphaMinusJacobian {nCells w : Nat} {J : Mat K} (h : MatShape nCells w J)
    (s : SolverCfg K) (a : K) : MatShape nCells w (s.alphaMinusJacobian J a) := by
  refine ⟨by rw [cfg_alphaMinusJacobian_size]; exact h.1, fun c hc => ?_⟩
  rw [cfg_alphaMinusJacobian_getD _ _ _ _ (by rw [h.1]; exact hc), shiftRow_size]
  exact h.2 c hc

theorem MatShape.jacobian {nCells w : Nat} {J : Mat K} (h : MatShape nCells w J)
    (s : SolverCfg K) (kc Y : Mat K) : MatShape nCells w (s.jacobian kc Y J) := by
  refine ⟨by rw [cfg_jacobian_size]; exact h.1, fun c hc => ?_⟩
  rw [cfg_jacobian_getD _ _ _ _ _ (by rw [h.1]; exact hc)]
  show (jacGo _ _ _ _ _ _ _).size = w
  rw [jacGo_size]
  exact h.2 c hc

/-- `Factor` keeps the shapes of `jacobian_`, `lower_matrix_`, `upper_matrix_` -/
theorem factor_shapes (s : SolverCfg K) (nCells : Nat) (J Lo Up : Mat K)
    (hJ : MatShape nCells s.la.A.nnz J)
    (hLo : s.la.kind.inPlace = false → MatShape nCells s.la.Lp.nnz Lo)
    (hUp : s.la.kind.inPlace = false → MatShape nCells s.la.Up.nnz Up) :
    MatShape nCells s.la.A.nnz (s.factor J Lo Up).1 ∧
    (s.la.kind.inPlace = false → MatShape nCells s.la.Lp.nnz (s.factor J Lo Up).2.1) ∧
    (s.la.kind.inPlace = false → MatShape nCells s.la.Up.nnz (s.factor J Lo Up).2.2) := by
  cases hk : s.la.kind.inPlace
  · rw [factor_sep s hk]
    refine ⟨hJ, fun _ => ?_, fun _ => ?_⟩
    · refine MatShape.of_rows (by simp [hJ.1]) (fun c hc => ?_)
      have hc' : c < J.size := by simpa using hc
      simp only [Array.getElem_map, Array.getElem_mapIdx]
      rw [(luCellSep_size s _ _).1]
      exact (hLo hk).2 c (by rw [← hJ.1]; exact hc')
    · refine MatShape.of_rows (by simp [hJ.1]) (fun c hc => ?_)
      have hc' : c < J.size := by simpa using hc
      simp only [Array.getElem_map, Array.getElem_mapIdx]
      rw [(luCellSep_size s _ _).2]
      exact (hUp hk).2 c (by rw [← hJ.1]; exact hc')
  · refine ⟨?_, fun h => Bool.noConfusion h, fun h => Bool.noConfusion h⟩
    unfold SolverCfg.factor
    cases hkk : s.la.kind
    · simp [hkk, LUKind.inPlace] at hk
    · simp [hkk, LUKind.inPlace] at hk
    · refine MatShape.of_rows (by simp [hJ.1]) (fun c hc => ?_)
      have hc' : c < J.size := by simpa using hc
      simp only [Array.getElem_map]
      rw [cfg_doolittleInPlaceCell_size]
      exact hJ.row c hc'
    · refine MatShape.of_rows (by simp [hJ.1]) (fun c hc => ?_)
      have hc' : c < J.size := by simpa using hc
      simp only [Array.getElem_map]
      rw [cfg_mozartInPlaceCell_size]
      exact hJ.row c hc'

/-- the stage loop keeps the logical shape of the stage vectors -/
theorem stagesGo_KShape (s : SolverCfg K) (p : RosParams K) (kc Y J Lo Up : Mat K) (h : K)
    (nCells n : Nat) (fuel stage : Nat) (Ks : Array (Mat K)) (ynew : Mat K) (st : Stats)
    (hK : KShape nCells n Ks) (hsz : stage + fuel ≤ Ks.size) :
    KShape nCells n (stagesGo s p kc Y J Lo Up h fuel stage Ks ynew st).1 := by
  induction fuel generalizing stage Ks ynew st with
  | zero => exact hK
  | succ fuel ih =>
    rw [stagesGo_succ]
    have hpre := stagePre_shape s p kc Y stage Ks ynew st hK
    have hpsz := stagePre_size s p kc Y stage Ks ynew st
    generalize stagePre s p kc Y stage Ks ynew st = pre at hpre hpsz
    have hcp := stageCopy_shape p stage pre.1 hpre (by omega)
    have hcsz := stageCopy_size p stage pre.1
    have hrhs := stageRhs_shape p h stage _ hcp (by omega)
    apply ih
    · exact hcp.set _ _ (hrhs.linSolve s _ _ _)
    · rw [Array.size_setIfInBounds]; omega

/-! ### the per-configuration storage invariant -/

section Inv
variable (o : Ops K) (cs : Consts K) (p : RosParams K) (kc : Mat K) (atol : Array K) (rtol T hm : K)

/-- shapes of everything a `State` carries, for `nCells` cells and `n` species, and the C05
    invariant with the shape of the buffer -/
structure StoreInv (s : SolverCfg K) (nCells n : Nat) (r : RState K) : Prop where
  Y : MatShape nCells n r.Y
  k : KShape nCells n r.sc.k
  ksz : p.stages ≤ r.sc.k.size
  f0 : MatShape nCells n r.sc.f0
  jac : MatShape nCells s.la.A.nnz r.sc.jac
  lower : s.la.kind.inPlace = false → MatShape nCells s.la.Lp.nnz r.sc.lower
  upper : s.la.kind.inPlace = false → MatShape nCells s.la.Up.nnz r.sc.upper
  holds : r.status = .running → r.inStep = true →
    ∃ B, JacHolds s kc r B ∧ MatShape nCells s.la.A.nnz B

theorem StoreInv_prologue (s : SolverCfg K) (nCells n : Nat) (r : RState K)
    (h : StoreInv p kc s nCells n r) : StoreInv p kc s nCells n (rosPrologue o cs s p kc T r) := by
  have hc := rosPrologue_cases o cs s p kc T r
  generalize rosPrologue o cs s p kc T r = r' at hc ⊢
  cases hc with
  | inStep _ => exact h
  | converged => exact ⟨h.Y, h.k, h.ksz, h.f0, h.jac, h.lower, h.upper, fun h1 => by cases h1⟩
  | maxSteps => exact ⟨h.Y, h.k, h.ksz, h.f0, h.jac, h.lower, h.upper, fun h1 => by cases h1⟩
  | tooSmall => exact ⟨h.Y, h.k, h.ksz, h.f0, h.jac, h.lower, h.upper, fun h1 => by cases h1⟩
  | start =>
    exact ⟨h.Y, h.k, h.ksz, (h.f0.fillM 0).forcing s _ _, (h.jac.fillM 0).jacobian s _ _, h.lower,
      h.upper, fun _ _ => ⟨r.sc.jac, JacHolds_startStep o s kc T r, h.jac⟩⟩

theorem attMatrix_shape (s : SolverCfg K) (nCells n : Nat) (r : RState K)
    (h : StoreInv p kc s nCells n r) : MatShape nCells s.la.A.nnz (attMatrix s p r) :=
  h.jac.alphaMinusJacobian s _

theorem StoreInv_attempt (s : SolverCfg K) (nCells n : Nat) (r : RState K)
    (hr : r.status = .running) (hi : r.inStep = true)
    (h : StoreInv p kc s nCells n r) :
    StoreInv p kc s nCells n (rosAttempt o cs s p kc atol rtol hm r) := by
  have hfa := factor_shapes s nCells (attMatrix s p r) r.sc.lower r.sc.upper
    (attMatrix_shape p kc s nCells n r h) h.lower h.upper
  have hK0 : KShape nCells n (r.sc.k.setIfInBounds 0 r.sc.f0) := h.k.set 0 _ h.f0
  have hKf : KShape nCells n (attStages s p kc r).1 := by
    unfold attStages
    exact stagesGo_KShape s p kc _ _ _ _ _ nCells n _ _ _ _ _ hK0
      (by rw [Array.size_setIfInBounds]; have := h.ksz; omega)
  refine ⟨?_, ?_, ?_, ?_, ?_, ?_, ?_, ?_⟩
  · rw [rosAttempt_Y]
    split
    · exact h.Y
    · unfold attYnew; exact h.Y.axpy_fold _ _ _
  · rw [rosAttempt_k]; exact hKf
  · rw [rosAttempt_k]; unfold attStages
    rw [stagesGo_K_size, Array.size_setIfInBounds]; exact h.ksz
  · rw [rosAttempt_f0]; exact h.f0
  · rw [rosAttempt_jac]
    split
    · exact (hfa.1.fillM 0).jacobian s _ _
    · exact hfa.1
  · rw [(rosAttempt_lu o cs s p kc atol rtol hm r).1]; exact hfa.2.1
  · rw [(rosAttempt_lu o cs s p kc atol rtol hm r).2]; exact hfa.2.2
  · intro h1 h2
    rw [rosAttempt_inStep] at h2
    rcases rosAttempt_status_cases o cs s p kc atol rtol hm r hr with ⟨_, hd | hd⟩ | ⟨h3, _⟩ | ⟨h3, _⟩
    · simp [hd] at h2
    · obtain ⟨B, hB, hBs⟩ := h.holds hr hi
      have hm' := attMatrix_of_JacHolds s p kc r B hB
      unfold JacHolds at hB ⊢
      rw [rosAttempt_jac, rosAttempt_Y, rosAttempt_lastAlpha, if_pos hd]
      cases hip : s.la.kind.inPlace
      · refine ⟨B, ?_, hBs⟩
        simp only [hd, Bool.false_eq_true, and_false, if_false]
        unfold attFactor
        rw [factor_fst_of_not_inPlace s hip, hm']
        simp [attLastAlpha, hip, attAlpha0]
      · exact ⟨(attFactor s p r).1, by simp [hd, jac0], hfa.1⟩
    · rw [h3] at h1; cases h1
    · rw [h3] at h1; cases h1

theorem StoreInv_step (s : SolverCfg K) (nCells n : Nat) (r : RState K)
    (h : StoreInv p kc s nCells n r) :
    StoreInv p kc s nCells n (rosStep o cs s p kc atol rtol T hm r) :=
  rosStep_inv o cs s p kc atol rtol T hm (StoreInv p kc s nCells n) r
    (StoreInv_prologue o cs p kc T s nCells n r)
    (fun r' h1 h2 => StoreInv_attempt o cs p kc atol rtol hm s nCells n r' h1 h2) h

end Inv

/-! ### the function-call counter of the stage loop -/

/-- number of forcing evaluations of the stages `stage, …, stage + fuel − 1` -/
def fcCount (p : RosParams K) : Nat → Nat → Nat
  | 0, _ => 0
  | fuel + 1, stage =>
    (if stage ≠ 0 ∧ p.newF.getD stage false = true then 1 else 0) + fcCount p fuel (stage + 1)

theorem stagePre_functionCalls (s : SolverCfg K) (p : RosParams K) (kc Y : Mat K) (stage : Nat)
    (Ks : Array (Mat K)) (ynew : Mat K) (st : Stats) :
    (stagePre s p kc Y stage Ks ynew st).2.2.functionCalls
      = st.functionCalls + (if stage ≠ 0 ∧ p.newF.getD stage false = true then 1 else 0) := by
  unfold stagePre
  by_cases h0 : stage = 0
  · simp [h0]
  · by_cases h1 : p.newF.getD stage false = true <;> simp [h0, h1]

theorem stagesGo_functionCalls (s : SolverCfg K) (p : RosParams K) (kc Y J Lo Up : Mat K) (h : K)
    (fuel stage : Nat) (Ks : Array (Mat K)) (ynew : Mat K) (st : Stats) :
    (stagesGo s p kc Y J Lo Up h fuel stage Ks ynew st).2.2.functionCalls
      = st.functionCalls + fcCount p fuel stage := by
  induction fuel generalizing stage Ks ynew st with
  | zero => simp [stagesGo, fcCount]
  | succ fuel ih =>
    rw [stagesGo_succ, ih]
    simp only [stagePre_functionCalls, fcCount]
    omega

/-! ### logical equality of two states -/

/-- the logical content of an attempt record (the shift passed to `LinearFactor` and the matrix
    are storage/algorithm specific) -/
def attLog (a : Attempt K) : K × K × Bool := (a.h, a.error, a.accepted)

/-- the two states agree on all logical data: everything except the sparse storage (`jac`,
    `lower`, `upper`), the re-based shift `lastAlpha`, the `ynew` buffer, and the counter
    `jacobianUpdates` (the in-place variants regenerate the Jacobian after every rejection) -/
structure LogicalEq (r₁ r₂ : RState K) : Prop where
  Y : r₁.Y = r₂.Y
  ctl : r₁.ctl = r₂.ctl
  status : r₁.status = r₂.status
  inStep : r₁.inStep = r₂.inStep
  k : r₁.sc.k = r₂.sc.k
  f0 : r₁.sc.f0 = r₂.sc.f0
  yerr : r₁.sc.yerr = r₂.sc.yerr
  nSteps : r₁.stats.numberOfSteps = r₂.stats.numberOfSteps
  accepted : r₁.stats.accepted = r₂.stats.accepted
  rejected : r₁.stats.rejected = r₂.stats.rejected
  decomps : r₁.stats.decompositions = r₂.stats.decompositions
  solves : r₁.stats.solves = r₂.stats.solves
  fcalls : r₁.stats.functionCalls = r₂.stats.functionCalls
  trace : r₁.trace.map attLog = r₂.trace.map attLog

section Lockstep
variable (o : Ops K) (cs : Consts K) (p : RosParams K) (kc : Mat K) (atol : Array K) (rtol T hm : K)

theorem LogicalEq_prologue (s₁ s₂ : SolverCfg K) (ht : s₁.tables = s₂.tables) (r₁ r₂ : RState K)
    (h : LogicalEq r₁ r₂) :
    LogicalEq (rosPrologue o cs s₁ p kc T r₁) (rosPrologue o cs s₂ p kc T r₂) := by
  have e0 : r₁.inStep = r₂.inStep := h.inStep
  have e1 : (!(o.le (r₁.ctl.t - T + p.roundOff) 0)) = (!(o.le (r₂.ctl.t - T + p.roundOff) 0)) := by
    rw [h.ctl]
  have e3 : (o.eq (r₁.ctl.t + cs.tenth * r₁.ctl.h) r₁.ctl.t || o.le r₁.ctl.h p.roundOff)
      = (o.eq (r₂.ctl.t + cs.tenth * r₂.ctl.h) r₂.ctl.t || o.le r₂.ctl.h p.roundOff) := by
    rw [h.ctl]
  unfold rosPrologue
  rw [e0, e1, h.nSteps, e3]
  by_cases c0 : r₂.inStep = true
  · rw [if_pos c0, if_pos c0]; exact h
  rw [if_neg c0, if_neg c0]
  by_cases c1 : (!(o.le (r₂.ctl.t - T + p.roundOff) 0)) = true
  · rw [if_pos c1, if_pos c1]
    exact ⟨h.Y, h.ctl, rfl, rfl, h.k, h.f0, h.yerr, h.nSteps, h.accepted, h.rejected, h.decomps,
      h.solves, h.fcalls, h.trace⟩
  rw [if_neg c1, if_neg c1]
  by_cases c2 : r₂.stats.numberOfSteps > p.maxSteps
  · rw [if_pos c2, if_pos c2]
    exact ⟨h.Y, h.ctl, rfl, rfl, h.k, h.f0, h.yerr, h.nSteps, h.accepted, h.rejected, h.decomps,
      h.solves, h.fcalls, h.trace⟩
  rw [if_neg c2, if_neg c2]
  by_cases c3 : (o.eq (r₂.ctl.t + cs.tenth * r₂.ctl.h) r₂.ctl.t || o.le r₂.ctl.h p.roundOff) = true
  · rw [if_pos c3, if_pos c3]
    exact ⟨h.Y, h.ctl, rfl, rfl, h.k, h.f0, h.yerr, h.nSteps, h.accepted, h.rejected, h.decomps,
      h.solves, h.fcalls, h.trace⟩
  rw [if_neg c3, if_neg c3]
  refine ⟨h.Y, ?_, h.status, rfl, h.k, ?_, h.yerr, h.nSteps, h.accepted, h.rejected, h.decomps,
    h.solves, ?_, h.trace⟩
  · simp only [startStep, h.ctl]
  · show s₁.forcing kc r₁.Y (fillM r₁.sc.f0 0) = s₂.forcing kc r₂.Y (fillM r₂.sc.f0 0)
    rw [forcing_congr_tables s₁ s₂ ht, h.Y, h.f0]
  · show r₁.stats.functionCalls + 1 = r₂.stats.functionCalls + 1
    rw [h.fcalls]

theorem rosAttempt_rejected (s : SolverCfg K) (r : RState K) :
    (rosAttempt o cs s p kc atol rtol hm r).stats.rejected =
      r.stats.rejected +
        (if (attDecide o cs s p kc atol rtol hm r).1 = .reject ∧ r.stats.accepted ≥ 1 then 1 else 0) := by
  obtain ⟨h1, h2, h3, h4, h5, h6⟩ := attStages_stats s p kc r
  unfold rosAttempt; simp only []
  split <;> rename_i h <;> simp only [h, reduceCtorEq, false_and, true_and, if_false, h4, h5]
  · simp
  · simp
  · simp
  · split <;> split <;> simp_all

theorem rosAttempt_functionCalls (s : SolverCfg K) (r : RState K) :
    (rosAttempt o cs s p kc atol rtol hm r).stats.functionCalls =
      r.stats.functionCalls + fcCount p p.stages 0 := by
  have h1 : (attStages s p kc r).2.2.functionCalls = r.stats.functionCalls + fcCount p p.stages 0 := by
    unfold attStages; rw [stagesGo_functionCalls]
  unfold rosAttempt; simp only []
  split <;> simp only [h1]
  split <;> split <;> simp_all

/-- an attempt keeps the two states logically equal when its logical results agree -/
theorem LogicalEq_attempt (s₁ s₂ : SolverCfg K) (r₁ r₂ : RState K) (h : LogicalEq r₁ r₂)
    (hK : (attStages s₁ p kc r₁).1 = (attStages s₂ p kc r₂).1)
    (hYn : attYnew s₁ p kc r₁ = attYnew s₂ p kc r₂)
    (hYe : attYerr s₁ p kc r₁ = attYerr s₂ p kc r₂)
    (hE : attError o cs s₁ p kc atol rtol r₁ = attError o cs s₂ p kc atol rtol r₂)
    (hD : attDecide o cs s₁ p kc atol rtol hm r₁ = attDecide o cs s₂ p kc atol rtol hm r₂) :
    LogicalEq (rosAttempt o cs s₁ p kc atol rtol hm r₁) (rosAttempt o cs s₂ p kc atol rtol hm r₂) := by
  obtain ⟨a1, a2, a3, a4, _, _⟩ := rosAttempt_stats o cs s₁ p kc atol rtol hm r₁
  obtain ⟨b1, b2, b3, b4, _, _⟩ := rosAttempt_stats o cs s₂ p kc atol rtol hm r₂
  refine ⟨?_, ?_, ?_, ?_, ?_, ?_, ?_, ?_, ?_, ?_, ?_, ?_, ?_, ?_⟩
  · rw [rosAttempt_Y, rosAttempt_Y, hD, hYn, h.Y]
  · rw [rosAttempt_ctl, rosAttempt_ctl, hD]
  · rw [rosAttempt_status, rosAttempt_status, hD, h.status]
  · rw [rosAttempt_inStep, rosAttempt_inStep, hD, h.inStep]
  · rw [rosAttempt_k, rosAttempt_k, hK]
  · rw [rosAttempt_f0, rosAttempt_f0, h.f0]
  · rw [rosAttempt_yerr, rosAttempt_yerr, hYe]
  · rw [a2, b2, h.nSteps]
  · rw [a4, b4, hD, h.accepted]
  · rw [rosAttempt_rejected, rosAttempt_rejected, hD, h.rejected, h.accepted]
  · rw [a1, b1, h.decomps]
  · rw [a3, b3, h.solves]
  · rw [rosAttempt_functionCalls, rosAttempt_functionCalls, h.fcalls]
  · rw [rosAttempt_trace, rosAttempt_trace, List.map_cons, List.map_cons, h.trace]
    congr 1
    simp only [attLog, attRecord, hE, hD, h.ctl]

theorem SizesOK_of_inPlace (la : LinAlg) (a l0 u0 : Array K)
    (h1 : la.kind.inPlace = false → l0.size = la.Lp.nnz ∧ u0.size = la.Up.nnz)
    (h2 : la.kind.inPlace = true → a.size = la.A.nnz) : la.SizesOK a l0 u0 := by
  unfold LinAlg.SizesOK
  cases hk : la.kind <;> simp only [hk, LUKind.inPlace] at h1 h2 ⊢
  · exact h1 trivial
  · exact h1 trivial
  · exact h2 trivial
  · exact h2 trivial

/-- the hypotheses about the mechanism shared by the two configurations (those of C02) -/
structure Mechanism (procs : List (Process K)) (m : NameMap) (t : PSTables K) (n : Nat) : Prop where
  built : ProcessSet.build procs m = .ok t
  names : (m.map (·.1)).Nodup
  ids : (m.map (·.2)).Nodup
  param : ∀ p ∈ procs, ∀ r ∈ p.reactants, r.param = true → nmLookup m r.name = none
  range : ∀ e ∈ m, e.2 < n

variable {procs : List (Process K)} {m : NameMap} {t : PSTables K} {n : Nat}

/-- **one attempt in lockstep**: from logically equal states inside a step -/
theorem attempt_lockstep (hmech : Mechanism procs m t n)
    (s₁ s₂ : SolverCfg K) (csc₁ csc₂ : Bool) (Ls₁ Ls₂ : Nat) (kind₁ kind₂ : LUKind)
    (hs₁ : CfgBuilt s₁ t n csc₁ Ls₁ kind₁) (hs₂ : CfgBuilt s₂ t n csc₂ Ls₂ kind₂)
    (nCells : Nat) (q₁ q₂ : RState K)
    (hI₁ : StoreInv p kc s₁ nCells n q₁) (hI₂ : StoreInv p kc s₂ nCells n q₂)
    (hE : LogicalEq q₁ q₂) (hr : q₁.status = .running) (hi : q₁.inStep = true)
    (hpiv : ∀ c, c < nCells → ∀ i, i < n → s₁.la.pivot ((attMatrix s₁ p q₁).getD c #[])
      (q₁.sc.lower.getD c #[]) (q₁.sc.upper.getD c #[]) i ≠ 0) :
    LogicalEq (rosAttempt o cs s₁ p kc atol rtol hm q₁) (rosAttempt o cs s₂ p kc atol rtol hm q₂) := by
  have hw : WF n (buildJacobianSet n t.nonZeroJacobianElements) :=
    jac_buildJacobianSet_WF procs m t hmech.built n hmech.range
  have hdiag : ∀ (csc : Bool) (Ls i : Nat), i < n →
      (Pattern.mk' n csc Ls (buildJacobianSet n t.nonZeroJacobianElements)).zero? i i = false :=
    fun csc Ls i hi' => (zero?_mk_iff hw csc Ls i i).mpr
      ((jac_mem_buildJacobianSet n _ (i, i)).mpr (Or.inr ⟨rfl, hi'⟩))
  obtain ⟨B₁, hB₁, hBs₁⟩ := hI₁.holds hr hi
  obtain ⟨B₂, hB₂, hBs₂⟩ := hI₂.holds (hE.status ▸ hr) (hE.inStep ▸ hi)
  have m₁ := attMatrix_of_JacHolds s₁ p kc q₁ B₁ hB₁
  have m₂ := attMatrix_of_JacHolds s₂ p kc q₂ B₂ hB₂
  have hM₁ := attMatrix_shape p kc s₁ nCells n q₁ hI₁
  have hM₂ := attMatrix_shape p kc s₂ nCells n q₂ hI₂
  have hview : ∀ c, c < nCells → ∀ r c', r < n → c' < n →
      view s₁.la.A ((attMatrix s₁ p q₁).getD c #[]) r c'
        = view s₂.la.A ((attMatrix s₂ p q₂).getD c #[]) r c' := by
    intro c hc r c' hr' _
    rw [m₁, m₂]
    unfold jac0
    rw [(built_matrix_view procs m t hmech.built hmech.names hmech.ids hmech.param n hmech.range
        s₁ csc₁ Ls₁ kind₁ hs₁ kc q₁.Y B₁ _ c (by rw [hBs₁.1]; exact hc) (hBs₁.2 c hc) r c' hr').2,
      (built_matrix_view procs m t hmech.built hmech.names hmech.ids hmech.param n hmech.range
        s₂ csc₂ Ls₂ kind₂ hs₂ kc q₂.Y B₂ _ c (by rw [hBs₂.1]; exact hc) (hBs₂.2 c hc) r c' hr').2,
      hE.Y, hE.ctl]
  obtain ⟨hK, hYn, hYe, hEr, hD⟩ := attempt_config_indep o cs p kc atol rtol hm s₁ s₂ kind₁ kind₂
    _ _ n hs₁.la hs₂.la rfl rfl (fun _ i hi' => hdiag csc₁ Ls₁ i hi') (fun _ i hi' => hdiag csc₂ Ls₂ i hi')
    (hs₁.tables.trans hs₂.tables.symm) (hs₁.nSpecies.trans hs₂.nSpecies.symm)
    q₁ q₂ hE.Y hE.ctl hE.k hE.f0 hE.yerr nCells hI₁.k hI₁.f0 hI₁.ksz hM₁.1 hM₂.1
    (fun c hc => SizesOK_of_inPlace _ _ _ _
      (fun hk' => ⟨(hI₁.lower hk').2 c hc, (hI₁.upper hk').2 c hc⟩) (fun _ => hM₁.2 c hc))
    (fun c hc => SizesOK_of_inPlace _ _ _ _
      (fun hk' => ⟨(hI₂.lower hk').2 c hc, (hI₂.upper hk').2 c hc⟩) (fun _ => hM₂.2 c hc))
    hpiv hview
  exact LogicalEq_attempt o cs p kc atol rtol hm s₁ s₂ q₁ q₂ hE hK hYn hYe hEr hD

/-- "no pivot vanishes in the attempt of this iteration" (first configuration) -/
def PivotsOK (s : SolverCfg K) (nCells n : Nat) (r : RState K) : Prop :=
  (rosPrologue o cs s p kc T r).status = .running →
    ∀ c, c < nCells → ∀ i, i < n →
      s.la.pivot ((attMatrix s p (rosPrologue o cs s p kc T r)).getD c #[])
        ((rosPrologue o cs s p kc T r).sc.lower.getD c #[])
        ((rosPrologue o cs s p kc T r).sc.upper.getD c #[]) i ≠ 0

/-- **one iteration of the solver loop in lockstep** -/
theorem step_config_indep (hmech : Mechanism procs m t n)
    (s₁ s₂ : SolverCfg K) (csc₁ csc₂ : Bool) (Ls₁ Ls₂ : Nat) (kind₁ kind₂ : LUKind)
    (hs₁ : CfgBuilt s₁ t n csc₁ Ls₁ kind₁) (hs₂ : CfgBuilt s₂ t n csc₂ Ls₂ kind₂)
    (nCells : Nat) (r₁ r₂ : RState K)
    (hI₁ : StoreInv p kc s₁ nCells n r₁) (hI₂ : StoreInv p kc s₂ nCells n r₂)
    (hE : LogicalEq r₁ r₂) (hpiv : PivotsOK o cs p kc T s₁ nCells n r₁) :
    LogicalEq (rosStep o cs s₁ p kc atol rtol T hm r₁) (rosStep o cs s₂ p kc atol rtol T hm r₂) := by
  have hP := LogicalEq_prologue o cs p kc T s₁ s₂ (hs₁.tables.trans hs₂.tables.symm) r₁ r₂ hE
  have hJ₁ := StoreInv_prologue o cs p kc T s₁ nCells n r₁ hI₁
  have hJ₂ := StoreInv_prologue o cs p kc T s₂ nCells n r₂ hI₂
  rw [rosStep_eq, rosStep_eq]
  by_cases hrun : (rosPrologue o cs s₁ p kc T r₁).status = .running
  · rw [if_pos hrun, if_pos (hP.status ▸ hrun)]
    exact attempt_lockstep o cs p kc atol rtol hm hmech s₁ s₂ csc₁ csc₂ Ls₁ Ls₂ kind₁ kind₂ hs₁ hs₂
      nCells _ _ hJ₁ hJ₂ hP hrun (rosPrologue_running_inStep o cs s₁ p kc T r₁ hrun) (hpiv hrun)
  · rw [if_neg hrun, if_neg (hP.status ▸ hrun)]
    exact hP

/-- **the solver loop in lockstep**: if no pivot vanishes along the run of the first
    configuration, the two runs stay logically equal -/
theorem loop_config_indep (hmech : Mechanism procs m t n)
    (s₁ s₂ : SolverCfg K) (csc₁ csc₂ : Bool) (Ls₁ Ls₂ : Nat) (kind₁ kind₂ : LUKind)
    (hs₁ : CfgBuilt s₁ t n csc₁ Ls₁ kind₁) (hs₂ : CfgBuilt s₂ t n csc₂ Ls₂ kind₂)
    (nCells : Nat) (fuel : Nat) (r₁ r₂ : RState K)
    (hI₁ : StoreInv p kc s₁ nCells n r₁) (hI₂ : StoreInv p kc s₂ nCells n r₂)
    (hE : LogicalEq r₁ r₂)
    (hpiv : ∀ j, j < fuel →
      PivotsOK o cs p kc T s₁ nCells n ((rosStep o cs s₁ p kc atol rtol T hm)^[j] r₁)) :
    LogicalEq (rosLoop o cs s₁ p kc atol rtol T hm fuel r₁) (rosLoop o cs s₂ p kc atol rtol T hm fuel r₂) := by
  induction fuel generalizing r₁ r₂ with
  | zero =>
    rw [rosLoop_zero, rosLoop_zero, hE.status]
    split
    · exact ⟨hE.Y, hE.ctl, rfl, hE.inStep, hE.k, hE.f0, hE.yerr, hE.nSteps, hE.accepted, hE.rejected,
        hE.decomps, hE.solves, hE.fcalls, hE.trace⟩
    · exact hE
  | succ fuel ih =>
    rw [rosLoop_succ, rosLoop_succ, hE.status]
    split
    · apply ih
      · exact StoreInv_step o cs p kc atol rtol T hm s₁ nCells n r₁ hI₁
      · exact StoreInv_step o cs p kc atol rtol T hm s₂ nCells n r₂ hI₂
      · exact step_config_indep o cs p kc atol rtol T hm hmech s₁ s₂ csc₁ csc₂ Ls₁ Ls₂ kind₁ kind₂
          hs₁ hs₂ nCells r₁ r₂ hI₁ hI₂ hE (hpiv 0 (by omega))
      · intro j hj
        have := hpiv (j + 1) (by omega)
        rwa [Function.iterate_succ_apply] at this
    · exact hE

/-- **the whole solve in lockstep.**  `Solve` of two built configurations of the same mechanism
    (any LU variant, CSR/CSC, any sparse and dense group lengths), on the same `Y` and rate
    constants, with States whose dense buffers coincide and whose sparse buffers have the sizes of
    the respective patterns: if no pivot vanishes along the run of the first configuration, the
    two results have the same status, final time, solution, counters (all but
    `jacobian_updates`) and the same step history `(H, error, accepted)`. -/
theorem solve_config_indep (hmech : Mechanism procs m t n)
    (s₁ s₂ : SolverCfg K) (csc₁ csc₂ : Bool) (Ls₁ Ls₂ : Nat) (kind₁ kind₂ : LUKind)
    (hs₁ : CfgBuilt s₁ t n csc₁ Ls₁ kind₁) (hs₂ : CfgBuilt s₂ t n csc₂ Ls₂ kind₂)
    (nCells : Nat) (Y : Mat K) (sc₁ sc₂ : Scratch K) (fuel : Nat)
    (hY : MatShape nCells n Y)
    (hk : sc₁.k = sc₂.k) (hf0 : sc₁.f0 = sc₂.f0) (hyerr : sc₁.yerr = sc₂.yerr)
    (hKs : KShape nCells n sc₁.k) (hksz : p.stages ≤ sc₁.k.size) (hf0s : MatShape nCells n sc₁.f0)
    (hj₁ : MatShape nCells s₁.la.A.nnz sc₁.jac)
    (hl₁ : s₁.la.kind.inPlace = false → MatShape nCells s₁.la.Lp.nnz sc₁.lower)
    (hu₁ : s₁.la.kind.inPlace = false → MatShape nCells s₁.la.Up.nnz sc₁.upper)
    (hj₂ : MatShape nCells s₂.la.A.nnz sc₂.jac)
    (hl₂ : s₂.la.kind.inPlace = false → MatShape nCells s₂.la.Lp.nnz sc₂.lower)
    (hu₂ : s₂.la.kind.inPlace = false → MatShape nCells s₂.la.Up.nnz sc₂.upper)
    (hpiv : ∀ j, j < fuel → PivotsOK o cs p kc T s₁ nCells n
      ((rosStep o cs s₁ p kc atol rtol T (hmaxEff o p T))^[j] (rosInit (initialH o cs p T) Y sc₁))) :
    (rosSolve o cs s₁ p kc atol rtol T Y sc₁ fuel).status
        = (rosSolve o cs s₂ p kc atol rtol T Y sc₂ fuel).status ∧
    (rosSolve o cs s₁ p kc atol rtol T Y sc₁ fuel).finalTime
        = (rosSolve o cs s₂ p kc atol rtol T Y sc₂ fuel).finalTime ∧
    (rosSolve o cs s₁ p kc atol rtol T Y sc₁ fuel).Y
        = (rosSolve o cs s₂ p kc atol rtol T Y sc₂ fuel).Y ∧
    (rosSolve o cs s₁ p kc atol rtol T Y sc₁ fuel).trace.map attLog
        = (rosSolve o cs s₂ p kc atol rtol T Y sc₂ fuel).trace.map attLog ∧
    (rosSolve o cs s₁ p kc atol rtol T Y sc₁ fuel).stats.numberOfSteps
        = (rosSolve o cs s₂ p kc atol rtol T Y sc₂ fuel).stats.numberOfSteps ∧
    (rosSolve o cs s₁ p kc atol rtol T Y sc₁ fuel).stats.accepted
        = (rosSolve o cs s₂ p kc atol rtol T Y sc₂ fuel).stats.accepted ∧
    (rosSolve o cs s₁ p kc atol rtol T Y sc₁ fuel).stats.rejected
        = (rosSolve o cs s₂ p kc atol rtol T Y sc₂ fuel).stats.rejected ∧
    (rosSolve o cs s₁ p kc atol rtol T Y sc₁ fuel).stats.decompositions
        = (rosSolve o cs s₂ p kc atol rtol T Y sc₂ fuel).stats.decompositions ∧
    (rosSolve o cs s₁ p kc atol rtol T Y sc₁ fuel).stats.solves
        = (rosSolve o cs s₂ p kc atol rtol T Y sc₂ fuel).stats.solves ∧
    (rosSolve o cs s₁ p kc atol rtol T Y sc₁ fuel).stats.functionCalls
        = (rosSolve o cs s₂ p kc atol rtol T Y sc₂ fuel).stats.functionCalls := by
  have hI₁ : StoreInv p kc s₁ nCells n (rosInit (initialH o cs p T) Y sc₁) :=
    ⟨hY, hKs, hksz, hf0s, hj₁, hl₁, hu₁, fun _ h2 => by cases h2⟩
  have hI₂ : StoreInv p kc s₂ nCells n (rosInit (initialH o cs p T) Y sc₂) :=
    ⟨hY, hk ▸ hKs, hk ▸ hksz, hf0 ▸ hf0s, hj₂, hl₂, hu₂, fun _ h2 => by cases h2⟩
  have hE : LogicalEq (rosInit (initialH o cs p T) Y sc₁) (rosInit (initialH o cs p T) Y sc₂) :=
    ⟨rfl, rfl, rfl, rfl, hk, hf0, hyerr, rfl, rfl, rfl, rfl, rfl, rfl, rfl⟩
  have h := loop_config_indep o cs p kc atol rtol T (hmaxEff o p T) hmech s₁ s₂ csc₁ csc₂ Ls₁ Ls₂
    kind₁ kind₂ hs₁ hs₂ nCells fuel _ _ hI₁ hI₂ hE hpiv
  rw [rosSolve_eq, rosSolve_eq]
  refine ⟨h.status, by simp only [h.ctl], h.Y, ?_, h.nSteps, h.accepted, h.rejected, h.decomps,
    h.solves, h.fcalls⟩
  simp only [List.map_reverse, h.trace]

end Lockstep

end Micm

#print axioms Micm.solve_config_indep
