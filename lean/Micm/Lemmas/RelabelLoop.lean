import Micm.Lemmas.Relabel

/-!
C12, "reordered or unreordered state", whole solve: the run on the mechanism relabelled by `σ`
(name map composed with `σ`; tables rebuilt; state, tolerances relabelled) stays in lockstep with
the original run, all logical data being related by `σ`.

* `RelabelSetup σ procs m t t' n`: the two mechanisms;
* `RelabelEq σ nCells n sameIP r₁ r₂`: the two states agree up to `σ`;
* `attempt_relabel`, `step_relabel`, `loop_relabel`, `solve_relabel`.
-/
open Finset
namespace Micm
set_option linter.unusedSectionVars false
variable {K : Type} [Field K]

/-- the mechanism `(procs, m)` with tables `t` and `n` species, and the same reactions over the
    relabelled name map with tables `t'` -/
structure RelabelSetup (σ : Nat → Nat) (procs : List (Process K)) (m : NameMap) (t t' : PSTables K)
    (n : Nat) : Prop where
  perm : IsRelabel σ n
  mech : Mechanism procs m t n
  built' : ProcessSet.build procs (relabel σ m) = .ok t'

section
variable {σ : Nat → Nat} {procs : List (Process K)} {m : NameMap} {t t' : PSTables K} {n : Nat}

/-- the relabelled mechanism satisfies the hypotheses of C02 as well -/
theorem RelabelSetup.mech' (h : RelabelSetup σ procs m t t' n) : Mechanism procs (relabel σ m) t' n where
  built := h.built'
  names := by
    have : (relabel σ m).map (·.1) = m.map (·.1) := by
      simp [relabel, List.map_map, Function.comp_def]
    rw [this]; exact h.mech.names
  ids := by
    have : (relabel σ m).map (·.2) = (m.map (·.2)).map σ := by
      simp [relabel, List.map_map, Function.comp_def]
    rw [this]; exact h.mech.ids.map h.perm.inj
  param := fun p hp r hr hpar => by rw [nmLookup_relabel, h.mech.param p hp r hr hpar]; rfl
  range := fun e he => by
    obtain ⟨e0, he0, rfl⟩ := List.mem_map.mp he
    exact h.perm.lt _ (h.mech.range e0 he0)

/-- forcing of the two built configurations, whole matrices -/
theorem RelabelSetup.forcing (h : RelabelSetup σ procs m t t' n) (s₁ s₂ : SolverCfg K)
    (ht₁ : s₁.tables = t) (ht₂ : s₂.tables = t') (kc : Mat K) {nCells : Nat} {Y Y' f f' : Mat K}
    (hY : PermMat σ nCells n Y Y') (hf : PermMat σ nCells n f f') :
    PermMat σ nCells n (s₁.forcing kc Y f) (s₂.forcing kc Y' f') :=
  PermMat.forcing h.perm m procs t t' h.mech.built h.built' s₁ s₂ ht₁ ht₂ kc hY hf

end

/-- the two states agree on all logical data up to the relabelling `σ`: `Y` (and, inside a step,
    the initial forcing) are relabelled copies; step-size control, status, counters (all but
    `jacobian_updates`) and the history `(H, error, accepted)` coincide; `jacobian_updates` coincides
    when `sameIP` (both LU variants in place or both not).  Of the remaining dense scratch only the
    shape matters. -/
structure RelabelEq (σ : Nat → Nat) (nCells n : Nat) (sameIP : Prop) (r₁ r₂ : RState K) : Prop where
  Y : PermMat σ nCells n r₁.Y r₂.Y
  ctl : r₁.ctl = r₂.ctl
  status : r₁.status = r₂.status
  inStep : r₁.inStep = r₂.inStep
  f0 : r₁.inStep = true → PermMat σ nCells n r₁.sc.f0 r₂.sc.f0
  yerr : MatShape nCells n r₁.sc.yerr ∧ MatShape nCells n r₂.sc.yerr
  nSteps : r₁.stats.numberOfSteps = r₂.stats.numberOfSteps
  accepted : r₁.stats.accepted = r₂.stats.accepted
  rejected : r₁.stats.rejected = r₂.stats.rejected
  decomps : r₁.stats.decompositions = r₂.stats.decompositions
  solves : r₁.stats.solves = r₂.stats.solves
  fcalls : r₁.stats.functionCalls = r₂.stats.functionCalls
  jupd : sameIP → r₁.stats.jacobianUpdates = r₂.stats.jacobianUpdates
  trace : r₁.trace.map attLog = r₂.trace.map attLog

section Lockstep
variable (o : Ops K) (cs : Consts K) (p : RosParams K) (kc : Mat K) (atol atol' : Array K) (rtol T hm : K)
variable {σ : Nat → Nat} {procs : List (Process K)} {m : NameMap} {t t' : PSTables K} {n : Nat}
variable {sameIP : Prop}

theorem RelabelEq_prologue (hset : RelabelSetup σ procs m t t' n) (s₁ s₂ : SolverCfg K)
    (ht₁ : s₁.tables = t) (ht₂ : s₂.tables = t') (nCells : Nat) (r₁ r₂ : RState K)
    (hf₁ : MatShape nCells n r₁.sc.f0) (hf₂ : MatShape nCells n r₂.sc.f0)
    (h : RelabelEq σ nCells n sameIP r₁ r₂) :
    RelabelEq σ nCells n sameIP (rosPrologue o cs s₁ p kc T r₁) (rosPrologue o cs s₂ p kc T r₂) := by
  have e0 : r₁.inStep = r₂.inStep := h.inStep
  have e1 : (!(o.le (r₁.ctl.t - T + p.roundOff) 0)) = (!(o.le (r₂.ctl.t - T + p.roundOff) 0)) := by
    rw [h.ctl]
  have e3 : (o.eq (r₁.ctl.t + cs.tenth * r₁.ctl.h) r₁.ctl.t || o.le r₁.ctl.h p.roundOff)
      = (o.eq (r₂.ctl.t + cs.tenth * r₂.ctl.h) r₂.ctl.t || o.le r₂.ctl.h p.roundOff) := by
    rw [h.ctl]
  unfold rosPrologue
  rw [e0, e1, h.nSteps, e3]
  by_cases c0 : r₂.inStep = true
  · rw [if_pos c0, if_pos c0]; exact h
  rw [if_neg c0, if_neg c0]
  by_cases c1 : (!(o.le (r₂.ctl.t - T + p.roundOff) 0)) = true
  · rw [if_pos c1, if_pos c1]
    exact ⟨h.Y, h.ctl, rfl, rfl, fun hi => absurd hi c0, h.yerr, h.nSteps, h.accepted, h.rejected, h.decomps,
      h.solves, h.fcalls, h.jupd, h.trace⟩
  rw [if_neg c1, if_neg c1]
  by_cases c2 : r₂.stats.numberOfSteps > p.maxSteps
  · rw [if_pos c2, if_pos c2]
    exact ⟨h.Y, h.ctl, rfl, rfl, fun hi => absurd hi c0, h.yerr, h.nSteps, h.accepted, h.rejected, h.decomps,
      h.solves, h.fcalls, h.jupd, h.trace⟩
  rw [if_neg c2, if_neg c2]
  by_cases c3 : (o.eq (r₂.ctl.t + cs.tenth * r₂.ctl.h) r₂.ctl.t || o.le r₂.ctl.h p.roundOff) = true
  · rw [if_pos c3, if_pos c3]
    exact ⟨h.Y, h.ctl, rfl, rfl, fun hi => absurd hi c0, h.yerr, h.nSteps, h.accepted, h.rejected, h.decomps,
      h.solves, h.fcalls, h.jupd, h.trace⟩
  rw [if_neg c3, if_neg c3]
  refine ⟨h.Y, ?_, h.status, rfl, fun _ => ?_, h.yerr, h.nSteps, h.accepted, h.rejected, h.decomps,
    h.solves, ?_, fun hs => ?_, h.trace⟩
  · simp only [startStep, h.ctl]
  · show PermMat σ nCells n (s₁.forcing kc r₁.Y (fillM r₁.sc.f0 0)) (s₂.forcing kc r₂.Y (fillM r₂.sc.f0 0))
    exact hset.forcing s₁ s₂ ht₁ ht₂ kc h.Y (PermMat.fillM_zero hf₁ hf₂)
  · show r₁.stats.functionCalls + 1 = r₂.stats.functionCalls + 1
    rw [h.fcalls]
  · show r₁.stats.jacobianUpdates + 1 = r₂.stats.jacobianUpdates + 1
    rw [h.jupd hs]

theorem rosAttempt_jacobianUpdates (s : SolverCfg K) (r : RState K) :
    (rosAttempt o cs s p kc atol rtol hm r).stats.jacobianUpdates =
      r.stats.jacobianUpdates +
        (if (attDecide o cs s p kc atol rtol hm r).1 = .reject ∧ s.la.kind.inPlace = true then 1 else 0) := by
  obtain ⟨h1, h2, h3, h4, h5, h6⟩ := attStages_stats s p kc r
  unfold rosAttempt; simp only []
  split <;> rename_i h <;> simp only [h, reduceCtorEq, false_and, true_and, if_false, h6]
  · simp
  · simp
  · simp
  · split <;> split <;> simp_all

/-- an attempt keeps the two states related when its logical results are related -/
theorem RelabelEq_attempt (s₁ s₂ : SolverCfg K) (nCells : Nat) (r₁ r₂ : RState K)
    (hip : sameIP → s₁.la.kind.inPlace = s₂.la.kind.inPlace)
    (h : RelabelEq σ nCells n sameIP r₁ r₂)
    (hYn : PermMat σ nCells n (attYnew s₁ p kc r₁) (attYnew s₂ p kc r₂))
    (hYe : PermMat σ nCells n (attYerr s₁ p kc r₁) (attYerr s₂ p kc r₂))
    (hE : attError o cs s₁ p kc atol rtol r₁ = attError o cs s₂ p kc atol' rtol r₂)
    (hD : attDecide o cs s₁ p kc atol rtol hm r₁ = attDecide o cs s₂ p kc atol' rtol hm r₂) :
    RelabelEq σ nCells n sameIP (rosAttempt o cs s₁ p kc atol rtol hm r₁)
      (rosAttempt o cs s₂ p kc atol' rtol hm r₂) := by
  obtain ⟨a1, a2, a3, a4, _, _⟩ := rosAttempt_stats o cs s₁ p kc atol rtol hm r₁
  obtain ⟨b1, b2, b3, b4, _, _⟩ := rosAttempt_stats o cs s₂ p kc atol' rtol hm r₂
  refine ⟨?_, ?_, ?_, ?_, ?_, ?_, ?_, ?_, ?_, ?_, ?_, ?_, ?_, ?_⟩
  · rw [rosAttempt_Y, rosAttempt_Y, hD]
    split
    · exact h.Y
    · exact hYn
  · rw [rosAttempt_ctl, rosAttempt_ctl, hD]
  · rw [rosAttempt_status, rosAttempt_status, hD, h.status]
  · rw [rosAttempt_inStep, rosAttempt_inStep, hD, h.inStep]
  · intro hi
    rw [rosAttempt_inStep] at hi
    rw [rosAttempt_f0, rosAttempt_f0]
    apply h.f0
    split at hi
    · cases hi
    · exact hi
  · rw [rosAttempt_yerr, rosAttempt_yerr]; exact ⟨hYe.left, hYe.right⟩
  · rw [a2, b2, h.nSteps]
  · rw [a4, b4, hD, h.accepted]
  · rw [rosAttempt_rejected, rosAttempt_rejected, hD, h.rejected, h.accepted]
  · rw [a1, b1, h.decomps]
  · rw [a3, b3, h.solves]
  · rw [rosAttempt_functionCalls, rosAttempt_functionCalls, h.fcalls]
  · intro hs
    rw [rosAttempt_jacobianUpdates, rosAttempt_jacobianUpdates, hD, h.jupd hs, hip hs]
  · rw [rosAttempt_trace, rosAttempt_trace, List.map_cons, List.map_cons, h.trace]
    congr 1
    simp only [attLog, attRecord, hE, hD, h.ctl]

/-- **one attempt in lockstep up to `σ`**: from related states inside a step, no pivot vanishing in
    either ordering -/
theorem attempt_relabel (hset : RelabelSetup σ procs m t t' n)
    (hat : ∀ v, v < n → rd atol' (σ v) = rd atol v)
    (s₁ s₂ : SolverCfg K) (hip : sameIP → s₁.la.kind.inPlace = s₂.la.kind.inPlace) (csc₁ csc₂ : Bool) (Ls₁ Ls₂ : Nat) (kind₁ kind₂ : LUKind)
    (hs₁ : CfgBuilt s₁ t n csc₁ Ls₁ kind₁) (hs₂ : CfgBuilt s₂ t' n csc₂ Ls₂ kind₂)
    (nCells : Nat) (q₁ q₂ : RState K)
    (hI₁ : StoreInv p kc s₁ nCells n q₁) (hI₂ : StoreInv p kc s₂ nCells n q₂)
    (hE : RelabelEq σ nCells n sameIP q₁ q₂) (hr : q₁.status = .running) (hi : q₁.inStep = true)
    (hpiv₁ : ∀ c, c < nCells → ∀ i, i < n → s₁.la.pivot ((attMatrix s₁ p q₁).getD c #[])
      (q₁.sc.lower.getD c #[]) (q₁.sc.upper.getD c #[]) i ≠ 0)
    (hpiv₂ : ∀ c, c < nCells → ∀ i, i < n → s₂.la.pivot ((attMatrix s₂ p q₂).getD c #[])
      (q₂.sc.lower.getD c #[]) (q₂.sc.upper.getD c #[]) i ≠ 0) :
    RelabelEq σ nCells n sameIP (rosAttempt o cs s₁ p kc atol rtol hm q₁)
      (rosAttempt o cs s₂ p kc atol' rtol hm q₂) := by
  have hσ := hset.perm
  have hmech := hset.mech
  have hmech' := hset.mech'
  have hw : WF n (buildJacobianSet n t.nonZeroJacobianElements) :=
    jac_buildJacobianSet_WF procs m t hmech.built n hmech.range
  have hw' : WF n (buildJacobianSet n t'.nonZeroJacobianElements) :=
    jac_buildJacobianSet_WF procs (relabel σ m) t' hmech'.built n hmech'.range
  have hdiag : ∀ (csc : Bool) (Ls i : Nat), i < n →
      (Pattern.mk' n csc Ls (buildJacobianSet n t.nonZeroJacobianElements)).zero? i i = false :=
    fun csc Ls i hi' => (zero?_mk_iff hw csc Ls i i).mpr
      ((jac_mem_buildJacobianSet n _ (i, i)).mpr (Or.inr ⟨rfl, hi'⟩))
  have hdiag' : ∀ (csc : Bool) (Ls i : Nat), i < n →
      (Pattern.mk' n csc Ls (buildJacobianSet n t'.nonZeroJacobianElements)).zero? i i = false :=
    fun csc Ls i hi' => (zero?_mk_iff hw' csc Ls i i).mpr
      ((jac_mem_buildJacobianSet n _ (i, i)).mpr (Or.inr ⟨rfl, hi'⟩))
  obtain ⟨B₁, hB₁, hBs₁⟩ := hI₁.holds hr hi
  obtain ⟨B₂, hB₂, hBs₂⟩ := hI₂.holds (hE.status ▸ hr) (hE.inStep ▸ hi)
  have m₁ := attMatrix_of_JacHolds s₁ p kc q₁ B₁ hB₁
  have m₂ := attMatrix_of_JacHolds s₂ p kc q₂ B₂ hB₂
  have hM₁ := attMatrix_shape p kc s₁ nCells n q₁ hI₁
  have hM₂ := attMatrix_shape p kc s₂ nCells n q₂ hI₂
  have hview : ∀ c, c < nCells → ∀ r c', r < n → c' < n →
      view s₂.la.A ((attMatrix s₂ p q₂).getD c #[]) (σ r) (σ c')
        = view s₁.la.A ((attMatrix s₁ p q₁).getD c #[]) r c' := by
    intro c hc r c' hr' _
    rw [m₁, m₂]
    unfold jac0
    rw [(built_matrix_view procs m t hmech.built hmech.names hmech.ids hmech.param n hmech.range
        s₁ csc₁ Ls₁ kind₁ hs₁ kc q₁.Y B₁ _ c (by rw [hBs₁.1]; exact hc) (hBs₁.2 c hc) r c' hr').2,
      (built_matrix_view procs (relabel σ m) t' hmech'.built hmech'.names hmech'.ids hmech'.param n
        hmech'.range s₂ csc₂ Ls₂ kind₂ hs₂ kc q₂.Y B₂ _ c (by rw [hBs₂.1]; exact hc) (hBs₂.2 c hc)
        (σ r) (σ c') (hσ.lt r hr')).2,
      jacEntrySpec_relabel σ hσ.inj m procs _ _ _ ((hE.Y.2.2 c hc).all hσ), hE.ctl]
    congr 1
    by_cases hrc : r = c'
    · rw [if_pos hrc, if_pos (by rw [hrc])]
    · rw [if_neg hrc, if_neg (fun e => hrc (hσ.inj e))]
  have hsz₁ : ∀ c, c < nCells → s₁.la.SizesOK ((attMatrix s₁ p q₁).getD c #[])
      (q₁.sc.lower.getD c #[]) (q₁.sc.upper.getD c #[]) := fun c hc =>
    SizesOK_of_inPlace _ _ _ _
      (fun hk' => ⟨(hI₁.lower hk').2 c hc, (hI₁.upper hk').2 c hc⟩) (fun _ => hM₁.2 c hc)
  have hsz₂ : ∀ c, c < nCells → s₂.la.SizesOK ((attMatrix s₂ p q₂).getD c #[])
      (q₂.sc.lower.getD c #[]) (q₂.sc.upper.getD c #[]) := fun c hc =>
    SizesOK_of_inPlace _ _ _ _
      (fun hk' => ⟨(hI₂.lower hk').2 c hc, (hI₂.upper hk').2 c hc⟩) (fun _ => hM₂.2 c hc)
  have hsolve : ∀ {x x' : Mat K}, PermMat σ nCells n x x' → PermMat σ nCells n
      (s₁.linSolve (attFactor s₁ p q₁).1 (attFactor s₁ p q₁).2.1 (attFactor s₁ p q₁).2.2 x)
      (s₂.linSolve (attFactor s₂ p q₂).1 (attFactor s₂ p q₂).2.1 (attFactor s₂ p q₂).2.2 x') := by
    intro x x' hx
    unfold attFactor
    exact linSolve_relabel hσ s₁ s₂ kind₁ kind₂ _ _ hs₁.la hs₂.la rfl rfl
      (fun _ i hi' => hdiag csc₁ Ls₁ i hi') (fun _ i hi' => hdiag' csc₂ Ls₂ i hi')
      _ _ _ _ _ _ hM₁.1 hM₂.1 hsz₁ hsz₂ hpiv₁ hpiv₂ hview hx
  have hh : q₂.ctl.h = q₁.ctl.h := by rw [hE.ctl]
  have hK : PermKlt σ nCells n (0 + p.stages) (attStages s₁ p kc q₁).1 (attStages s₂ p kc q₂).1 := by
    unfold attStages
    rw [hh]
    refine stagesGo_relabel hσ s₁ s₂ p kc
      (fun hY hf => hset.forcing s₁ s₂ hs₁.tables hs₂.tables kc hY hf) _ _ _ _ _ _ hsolve hE.Y _
      p.stages 0 ⟨hI₁.k.set 0 _ hI₁.f0, hI₂.k.set 0 _ hI₂.f0, fun j hj => by omega⟩ ?_
      (by rw [Array.size_setIfInBounds]; have := hI₁.ksz; omega)
      (by rw [Array.size_setIfInBounds]; have := hI₂.ksz; omega) (by omega) _ _ _ _
    intro h1 _
    rw [getD_set_eq _ _ _ _ (by have := hI₁.ksz; omega), getD_set_eq _ _ _ _ (by have := hI₂.ksz; omega)]
    exact hE.f0 hi
  have hYn : PermMat σ nCells n (attYnew s₁ p kc q₁) (attYnew s₂ p kc q₂) := by
    unfold attYnew
    exact PermMat.axpy_fold hσ _ (fun i => (attStages s₁ p kc q₁).1.getD i #[])
      (fun i => (attStages s₂ p kc q₂).1.getD i #[]) _
      (fun i hi' => hK.2.2 i (by have := List.mem_range.mp hi'; omega)) hE.Y
  have hYe : PermMat σ nCells n (attYerr s₁ p kc q₁) (attYerr s₂ p kc q₂) := by
    unfold attYerr
    exact PermMat.axpy_fold hσ _ (fun i => (attStages s₁ p kc q₁).1.getD i #[])
      (fun i => (attStages s₂ p kc q₂).1.getD i #[]) _
      (fun i hi' => hK.2.2 i (by have := List.mem_range.mp hi'; omega))
      (PermMat.fillM_zero hE.yerr.1 hE.yerr.2)
  have hEr : attError o cs s₁ p kc atol rtol q₁ = attError o cs s₂ p kc atol' rtol q₂ := by
    unfold attError
    rw [hs₁.nSpecies, hs₂.nSpecies]
    exact (normalizedError_relabel hσ o cs s₁.L s₂.L atol atol' rtol hat hE.Y hYn hYe).symm
  have hD : attDecide o cs s₁ p kc atol rtol hm q₁ = attDecide o cs s₂ p kc atol' rtol hm q₂ := by
    unfold attDecide
    rw [hEr, hE.ctl]
  exact RelabelEq_attempt o cs p kc atol atol' rtol hm s₁ s₂ nCells q₁ q₂ hip hE hYn hYe hEr hD

/-- **one iteration of the solver loop in lockstep up to `σ`** -/
theorem step_relabel (hset : RelabelSetup σ procs m t t' n)
    (hat : ∀ v, v < n → rd atol' (σ v) = rd atol v)
    (s₁ s₂ : SolverCfg K) (hip : sameIP → s₁.la.kind.inPlace = s₂.la.kind.inPlace) (csc₁ csc₂ : Bool) (Ls₁ Ls₂ : Nat) (kind₁ kind₂ : LUKind)
    (hs₁ : CfgBuilt s₁ t n csc₁ Ls₁ kind₁) (hs₂ : CfgBuilt s₂ t' n csc₂ Ls₂ kind₂)
    (nCells : Nat) (r₁ r₂ : RState K)
    (hI₁ : StoreInv p kc s₁ nCells n r₁) (hI₂ : StoreInv p kc s₂ nCells n r₂)
    (hE : RelabelEq σ nCells n sameIP r₁ r₂)
    (hpiv₁ : PivotsOK o cs p kc T s₁ nCells n r₁) (hpiv₂ : PivotsOK o cs p kc T s₂ nCells n r₂) :
    RelabelEq σ nCells n sameIP (rosStep o cs s₁ p kc atol rtol T hm r₁)
      (rosStep o cs s₂ p kc atol' rtol T hm r₂) := by
  have hP := RelabelEq_prologue o cs p kc T hset s₁ s₂ hs₁.tables hs₂.tables nCells r₁ r₂ hI₁.f0 hI₂.f0 hE
  have hJ₁ := StoreInv_prologue o cs p kc T s₁ nCells n r₁ hI₁
  have hJ₂ := StoreInv_prologue o cs p kc T s₂ nCells n r₂ hI₂
  rw [rosStep_eq, rosStep_eq]
  by_cases hrun : (rosPrologue o cs s₁ p kc T r₁).status = .running
  · rw [if_pos hrun, if_pos (hP.status ▸ hrun)]
    exact attempt_relabel o cs p kc atol atol' rtol hm hset hat s₁ s₂ hip csc₁ csc₂ Ls₁ Ls₂ kind₁ kind₂
      hs₁ hs₂ nCells _ _ hJ₁ hJ₂ hP hrun (rosPrologue_running_inStep o cs s₁ p kc T r₁ hrun)
      (hpiv₁ hrun) (hpiv₂ (hP.status ▸ hrun))
  · rw [if_neg hrun, if_neg (hP.status ▸ hrun)]
    exact hP

/-- **the solver loop in lockstep up to `σ`** -/
theorem loop_relabel (hset : RelabelSetup σ procs m t t' n)
    (hat : ∀ v, v < n → rd atol' (σ v) = rd atol v)
    (s₁ s₂ : SolverCfg K) (hip : sameIP → s₁.la.kind.inPlace = s₂.la.kind.inPlace) (csc₁ csc₂ : Bool) (Ls₁ Ls₂ : Nat) (kind₁ kind₂ : LUKind)
    (hs₁ : CfgBuilt s₁ t n csc₁ Ls₁ kind₁) (hs₂ : CfgBuilt s₂ t' n csc₂ Ls₂ kind₂)
    (nCells : Nat) (fuel : Nat) (r₁ r₂ : RState K)
    (hI₁ : StoreInv p kc s₁ nCells n r₁) (hI₂ : StoreInv p kc s₂ nCells n r₂)
    (hE : RelabelEq σ nCells n sameIP r₁ r₂)
    (hpiv₁ : ∀ j, j < fuel →
      PivotsOK o cs p kc T s₁ nCells n ((rosStep o cs s₁ p kc atol rtol T hm)^[j] r₁))
    (hpiv₂ : ∀ j, j < fuel →
      PivotsOK o cs p kc T s₂ nCells n ((rosStep o cs s₂ p kc atol' rtol T hm)^[j] r₂)) :
    RelabelEq σ nCells n sameIP (rosLoop o cs s₁ p kc atol rtol T hm fuel r₁)
      (rosLoop o cs s₂ p kc atol' rtol T hm fuel r₂) := by
  induction fuel generalizing r₁ r₂ with
  | zero =>
    rw [rosLoop_zero, rosLoop_zero, hE.status]
    split
    · exact ⟨hE.Y, hE.ctl, rfl, hE.inStep, hE.f0, hE.yerr, hE.nSteps, hE.accepted, hE.rejected,
        hE.decomps, hE.solves, hE.fcalls, hE.jupd, hE.trace⟩
    · exact hE
  | succ fuel ih =>
    rw [rosLoop_succ, rosLoop_succ, hE.status]
    split
    · apply ih
      · exact StoreInv_step o cs p kc atol rtol T hm s₁ nCells n r₁ hI₁
      · exact StoreInv_step o cs p kc atol' rtol T hm s₂ nCells n r₂ hI₂
      · exact step_relabel o cs p kc atol atol' rtol T hm hset hat s₁ s₂ hip csc₁ csc₂ Ls₁ Ls₂ kind₁ kind₂
          hs₁ hs₂ nCells r₁ r₂ hI₁ hI₂ hE (hpiv₁ 0 (by omega)) (hpiv₂ 0 (by omega))
      · intro j hj
        have := hpiv₁ (j + 1) (by omega)
        rwa [Function.iterate_succ_apply] at this
      · intro j hj
        have := hpiv₂ (j + 1) (by omega)
        rwa [Function.iterate_succ_apply] at this
    · exact hE

/-- **the whole solve in lockstep up to `σ`** -/
theorem solve_relabel (hset : RelabelSetup σ procs m t t' n)
    (hat : ∀ v, v < n → rd atol' (σ v) = rd atol v)
    (s₁ s₂ : SolverCfg K) (hip : sameIP → s₁.la.kind.inPlace = s₂.la.kind.inPlace) (csc₁ csc₂ : Bool) (Ls₁ Ls₂ : Nat) (kind₁ kind₂ : LUKind)
    (hs₁ : CfgBuilt s₁ t n csc₁ Ls₁ kind₁) (hs₂ : CfgBuilt s₂ t' n csc₂ Ls₂ kind₂)
    (nCells : Nat) (Y Y' : Mat K) (sc₁ sc₂ : Scratch K) (fuel : Nat)
    (hY : PermMat σ nCells n Y Y')
    (hK₁ : KShape nCells n sc₁.k) (hksz₁ : p.stages ≤ sc₁.k.size) (hf₁ : MatShape nCells n sc₁.f0)
    (hye₁ : MatShape nCells n sc₁.yerr)
    (hj₁ : MatShape nCells s₁.la.A.nnz sc₁.jac)
    (hl₁ : s₁.la.kind.inPlace = false → MatShape nCells s₁.la.Lp.nnz sc₁.lower)
    (hu₁ : s₁.la.kind.inPlace = false → MatShape nCells s₁.la.Up.nnz sc₁.upper)
    (hK₂ : KShape nCells n sc₂.k) (hksz₂ : p.stages ≤ sc₂.k.size) (hf₂ : MatShape nCells n sc₂.f0)
    (hye₂ : MatShape nCells n sc₂.yerr)
    (hj₂ : MatShape nCells s₂.la.A.nnz sc₂.jac)
    (hl₂ : s₂.la.kind.inPlace = false → MatShape nCells s₂.la.Lp.nnz sc₂.lower)
    (hu₂ : s₂.la.kind.inPlace = false → MatShape nCells s₂.la.Up.nnz sc₂.upper)
    (hpiv₁ : ∀ j, j < fuel → PivotsOK o cs p kc T s₁ nCells n
      ((rosStep o cs s₁ p kc atol rtol T (hmaxEff o p T))^[j] (rosInit (initialH o cs p T) Y sc₁)))
    (hpiv₂ : ∀ j, j < fuel → PivotsOK o cs p kc T s₂ nCells n
      ((rosStep o cs s₂ p kc atol' rtol T (hmaxEff o p T))^[j] (rosInit (initialH o cs p T) Y' sc₂))) :
    (rosSolve o cs s₂ p kc atol' rtol T Y' sc₂ fuel).status
        = (rosSolve o cs s₁ p kc atol rtol T Y sc₁ fuel).status ∧
    (rosSolve o cs s₂ p kc atol' rtol T Y' sc₂ fuel).finalTime
        = (rosSolve o cs s₁ p kc atol rtol T Y sc₁ fuel).finalTime ∧
    PermMat σ nCells n (rosSolve o cs s₁ p kc atol rtol T Y sc₁ fuel).Y
        (rosSolve o cs s₂ p kc atol' rtol T Y' sc₂ fuel).Y ∧
    (rosSolve o cs s₂ p kc atol' rtol T Y' sc₂ fuel).trace.map attLog
        = (rosSolve o cs s₁ p kc atol rtol T Y sc₁ fuel).trace.map attLog ∧
    (rosSolve o cs s₂ p kc atol' rtol T Y' sc₂ fuel).stats.numberOfSteps
        = (rosSolve o cs s₁ p kc atol rtol T Y sc₁ fuel).stats.numberOfSteps ∧
    (rosSolve o cs s₂ p kc atol' rtol T Y' sc₂ fuel).stats.accepted
        = (rosSolve o cs s₁ p kc atol rtol T Y sc₁ fuel).stats.accepted ∧
    (rosSolve o cs s₂ p kc atol' rtol T Y' sc₂ fuel).stats.rejected
        = (rosSolve o cs s₁ p kc atol rtol T Y sc₁ fuel).stats.rejected ∧
    (rosSolve o cs s₂ p kc atol' rtol T Y' sc₂ fuel).stats.decompositions
        = (rosSolve o cs s₁ p kc atol rtol T Y sc₁ fuel).stats.decompositions ∧
    (rosSolve o cs s₂ p kc atol' rtol T Y' sc₂ fuel).stats.solves
        = (rosSolve o cs s₁ p kc atol rtol T Y sc₁ fuel).stats.solves ∧
    (rosSolve o cs s₂ p kc atol' rtol T Y' sc₂ fuel).stats.functionCalls
        = (rosSolve o cs s₁ p kc atol rtol T Y sc₁ fuel).stats.functionCalls ∧
    (sameIP → (rosSolve o cs s₂ p kc atol' rtol T Y' sc₂ fuel).stats.jacobianUpdates
        = (rosSolve o cs s₁ p kc atol rtol T Y sc₁ fuel).stats.jacobianUpdates) := by
  have hI₁ : StoreInv p kc s₁ nCells n (rosInit (initialH o cs p T) Y sc₁) :=
    ⟨hY.left, hK₁, hksz₁, hf₁, hj₁, hl₁, hu₁, fun _ h2 => by cases h2⟩
  have hI₂ : StoreInv p kc s₂ nCells n (rosInit (initialH o cs p T) Y' sc₂) :=
    ⟨hY.right, hK₂, hksz₂, hf₂, hj₂, hl₂, hu₂, fun _ h2 => by cases h2⟩
  have hE : RelabelEq σ nCells n sameIP (rosInit (initialH o cs p T) Y sc₁) (rosInit (initialH o cs p T) Y' sc₂) :=
    ⟨hY, rfl, rfl, rfl, fun h => (by cases h), ⟨hye₁, hye₂⟩, rfl, rfl, rfl, rfl, rfl, rfl, fun _ => rfl, rfl⟩
  have h := loop_relabel o cs p kc atol atol' rtol T (hmaxEff o p T) hset hat s₁ s₂ hip csc₁ csc₂ Ls₁ Ls₂
    kind₁ kind₂ hs₁ hs₂ nCells fuel _ _ hI₁ hI₂ hE hpiv₁ hpiv₂
  rw [rosSolve_eq, rosSolve_eq]
  refine ⟨h.status.symm, by simp only [h.ctl], h.Y, ?_, h.nSteps.symm, h.accepted.symm, h.rejected.symm,
    h.decomps.symm, h.solves.symm, h.fcalls.symm, fun hs => (h.jupd hs).symm⟩
  simp only [List.map_reverse, h.trace]

end Lockstep

end Micm

#print axioms Micm.solve_relabel
