/-
Lemmas for C15: the offset walk of `rateConstGo`, the label list, the label → column map,
`SetCustomRateParameter`, and the flat vector overload (`Micm/Spec/RateFlat.lean`).
Core Lean only.  No algebra: every statement holds for an arbitrary carrier type.
-/
import Micm.Spec.RateFlat
import Micm.Lemmas.DenseAddr
namespace Micm

/-! ### offsets -/

section Offsets
variable {α : Type}

theorem RateKind.labels_length (k : RateKind α) : k.labels.length = k.nParams := by
  cases k <;> rfl

@[simp] theorem paramOffset_zero (procs : List (RateProc α)) : paramOffset procs 0 = 0 := by
  simp [paramOffset]

@[simp] theorem paramOffset_cons_succ (p : RateProc α) (ps : List (RateProc α)) (r : Nat) :
    paramOffset (p :: ps) (r + 1) = p.kind.nParams + paramOffset ps r := by
  simp [paramOffset]

theorem nParamsTotal_cons (p : RateProc α) (ps : List (RateProc α)) :
    nParamsTotal (p :: ps) = p.kind.nParams + nParamsTotal ps := by
  simp [nParamsTotal]

/-- reaction `r`'s columns `[off_r, off_r + n_r)` lie inside the parameter row -/
theorem paramOffset_add_le (procs : List (RateProc α)) (r : Nat) (hr : r < procs.length) :
    paramOffset procs r + procs[r].kind.nParams ≤ nParamsTotal procs := by
  induction procs generalizing r with
  | nil => simp at hr
  | cons p ps ih =>
    rw [nParamsTotal_cons]
    cases r with
    | zero => simp
    | succ r =>
      have := ih r (by simpa using hr)
      simp only [paramOffset_cons_succ, List.getElem_cons_succ]
      omega

/-- consecutive reactions own consecutive column ranges -/
theorem paramOffset_succ (procs : List (RateProc α)) (r : Nat) (hr : r < procs.length) :
    paramOffset procs (r + 1) = paramOffset procs r + procs[r].kind.nParams := by
  induction procs generalizing r with
  | nil => simp at hr
  | cons p ps ih =>
    cases r with
    | zero => simp [paramOffset]
    | succ r =>
      have := ih r (by simpa using hr)
      simp only [paramOffset_cons_succ, List.getElem_cons_succ]
      omega

end Offsets

/-! ### `rateConstGo` -/

section Go
variable {α : Type} [OfNat α 0] [OfNat α 1] [Add α] [Sub α] [Mul α] [Div α] [Neg α]
variable (t : TOps α) (pi av : α)

theorem rateConstGo_length (c : Conditions α) (procs : List (RateProc α)) (params : List α) :
    (rateConstGo t pi av c procs params).length = procs.length := by
  induction procs generalizing params with
  | nil => rfl
  | cons p ps ih => simp [rateConstGo, ih]

theorem rateConstGo_getElem (c : Conditions α) (procs : List (RateProc α)) (params : List α)
    (r : Nat) (hr : r < procs.length) :
    (rateConstGo t pi av c procs params)[r]'(by rw [rateConstGo_length]; exact hr) =
      procs[r].kind.calc t pi av c ((params.drop (paramOffset procs r)).take procs[r].kind.nParams)
        * fixedReactants c procs[r].nParamReactants := by
  induction procs generalizing params r with
  | nil => simp at hr
  | cons p ps ih =>
    cases r with
    | zero => simp [rateConstGo]
    | succ r =>
      simp only [rateConstGo, List.getElem_cons_succ, paramOffset_cons_succ]
      rw [ih (params.drop p.kind.nParams) r (by simpa using hr), List.drop_drop]

theorem calculateRateConstants_size (procs : List (RateProc α)) (conds : Array (Conditions α))
    (params : Mat α) : (calculateRateConstants t pi av procs conds params).size = conds.size := by
  simp [calculateRateConstants]

theorem calculateRateConstants_row (procs : List (RateProc α)) (conds : Array (Conditions α))
    (params : Mat α) (c : Nat) (hc : c < conds.size) :
    (calculateRateConstants t pi av procs conds params)[c]'(by
        rw [calculateRateConstants_size]; exact hc) =
      (rateConstGo t pi av conds[c] procs (params.getD c #[]).toList).toArray := by
  simp [calculateRateConstants]

theorem calculateRateConstants_row_size (procs : List (RateProc α)) (conds : Array (Conditions α))
    (params : Mat α) (c : Nat) (hc : c < conds.size) :
    ((calculateRateConstants t pi av procs conds params)[c]'(by
        rw [calculateRateConstants_size]; exact hc)).size = procs.length := by
  rw [calculateRateConstants_row t pi av procs conds params c hc]
  simp [rateConstGo_length]

end Go

/-! ### labels -/

section Labels
variable {α : Type}

theorem labelsOf_cons (p : RateProc α) (ps : List (RateProc α)) :
    labelsOf (p :: ps) = p.kind.labels ++ labelsOf ps := by
  simp [labelsOf]

theorem labelsOf_length (procs : List (RateProc α)) :
    (labelsOf procs).length = nParamsTotal procs := by
  induction procs with
  | nil => rfl
  | cons p ps ih => rw [labelsOf_cons, nParamsTotal_cons, List.length_append, ih, RateKind.labels_length]

/-- the labels of reaction `r` occupy exactly positions `[off_r, off_r + n_r)` -/
theorem labelsOf_slice (procs : List (RateProc α)) (r : Nat) (hr : r < procs.length) :
    ((labelsOf procs).drop (paramOffset procs r)).take procs[r].kind.nParams =
      procs[r].kind.labels := by
  induction procs generalizing r with
  | nil => simp at hr
  | cons p ps ih =>
    rw [labelsOf_cons]
    cases r with
    | zero =>
      simp only [paramOffset_zero, List.drop_zero, List.getElem_cons_zero]
      rw [← RateKind.labels_length, List.take_left]
    | succ r =>
      simp only [paramOffset_cons_succ, List.getElem_cons_succ]
      rw [← RateKind.labels_length p.kind, List.drop_append]
      have h0 : List.drop (p.kind.labels.length + paramOffset ps r) p.kind.labels = [] :=
        List.drop_eq_nil_of_le (by omega)
      rw [h0, List.nil_append, Nat.add_sub_cancel_left]
      exact ih r (by simpa using hr)

/-- pointwise form -/
theorem labelsOf_getElem (procs : List (RateProc α)) (r : Nat) (hr : r < procs.length)
    (k : Nat) (hk : k < procs[r].kind.labels.length) :
    (labelsOf procs)[paramOffset procs r + k]? = some procs[r].kind.labels[k] := by
  have h := labelsOf_slice procs r hr
  have h2 : (((labelsOf procs).drop (paramOffset procs r)).take procs[r].kind.nParams)[k]? =
      some procs[r].kind.labels[k] := by rw [h]; simp [hk]
  rw [RateKind.labels_length] at hk
  rw [List.getElem?_take_of_lt hk, List.getElem?_drop] at h2
  exact h2

/-! ### `custom_rate_parameter_map_` -/

theorem paramMapGo_not_mem (ls : List String) (i : Nat) (m : String → Option Nat) (l : String)
    (h : l ∉ ls) : paramMapGo ls i m l = m l := by
  induction ls generalizing i m with
  | nil => rfl
  | cons a ls ih =>
    simp only [List.mem_cons, not_or] at h
    rw [paramMapGo, ih _ _ h.2, if_neg h.1]

theorem paramMapGo_nodup (ls : List String) (hnd : ls.Nodup) (i : Nat) (m : String → Option Nat)
    (j : Nat) (l : String) (h : ls[j]? = some l) : paramMapGo ls i m l = some (i + j) := by
  induction ls generalizing i m j with
  | nil => simp at h
  | cons a ls ih =>
    rw [List.nodup_cons] at hnd
    cases j with
    | zero =>
      simp only [List.getElem?_cons_zero, Option.some.injEq] at h
      subst h
      rw [paramMapGo, paramMapGo_not_mem _ _ _ _ hnd.1, if_pos rfl]; rfl
    | succ j =>
      simp only [List.getElem?_cons_succ] at h
      rw [paramMapGo, ih hnd.2 _ _ j h]
      congr 1; omega

/-- distinct labels: the map sends the label at position `j` to `j` -/
theorem paramMap_nodup (labels : List String) (hnd : labels.Nodup) (j : Nat) (l : String)
    (h : labels[j]? = some l) : paramMap labels l = some j := by
  rw [paramMap, paramMapGo_nodup labels hnd 0 _ j l h, Nat.zero_add]

/-- unknown label: `find` returns `end()` -/
theorem paramMap_not_mem (labels : List String) (l : String) (h : l ∉ labels) :
    paramMap labels l = none := by
  rw [paramMap, paramMapGo_not_mem _ _ _ _ h]

/-- any index the map returns points at that label (with or without duplicates) -/
theorem paramMapGo_some (ls : List String) (i : Nat) (m : String → Option Nat) (l : String)
    (j : Nat) (h : paramMapGo ls i m l = some j) :
    m l = some j ∨ (i ≤ j ∧ ls[j - i]? = some l) := by
  induction ls generalizing i m with
  | nil => exact Or.inl h
  | cons a ls ih =>
    rw [paramMapGo] at h
    rcases ih _ _ h with h1 | ⟨h1, h2⟩
    · by_cases hla : l = a
      · rw [if_pos hla] at h1
        simp only [Option.some.injEq] at h1
        subst h1; subst hla
        right; simp
      · rw [if_neg hla] at h1; exact Or.inl h1
    · right
      refine ⟨by omega, ?_⟩
      have : j - i = (j - (i + 1)) + 1 := by omega
      rw [this, List.getElem?_cons_succ]; exact h2

theorem paramMap_some (labels : List String) (l : String) (j : Nat)
    (h : paramMap labels l = some j) : labels[j]? = some l := by
  rcases paramMapGo_some labels 0 _ l j h with h1 | ⟨_, h2⟩
  · cases h1
  · simpa using h2

end Labels


/-! ### `SetCustomRateParameter` -/

section SetParam
variable {α : Type} [OfNat α 0]

theorem setCustomRateParameter_spec (labels : List String) (params params' : Mat α) (l : String)
    (v : Array α) (h : setCustomRateParameter labels params l v = some params') :
    ∃ j, paramMap labels l = some j ∧ params.size = v.size ∧ params'.size = params.size ∧
      ∀ c (hc : c < params.size), params'[c]? = some (params[c].setIfInBounds j (v.getD c 0)) := by
  unfold setCustomRateParameter at h
  split at h
  · cases h
  · next j hj =>
    split at h
    · cases h
    · next hsz =>
      simp only [Option.some.injEq] at h
      subst h
      refine ⟨j, hj, by simpa using hsz, by simp, fun c hc => ?_⟩
      simp [hc]

/-- what the parameter matrix holds after a sequence of `SetCustomRateParameter` calls, when the
    labels are pairwise distinct: column `k` holds, in every cell, the value most recently passed
    for the label at position `k` (or its initial content if that label was never set). -/
theorem fillParams_spec (labels : List String) (hnd : labels.Nodup)
    (sets : List (String × Array α)) (params0 params : Mat α)
    (hrows : ∀ c (hc : c < params0.size), params0[c].size = labels.length)
    (hfill : fillParams labels params0 sets = some params) :
    params.size = params0.size ∧
    (∀ c (hc : c < params.size), params[c].size = labels.length) ∧
    ∀ c, c < params0.size → ∀ k (hk : k < labels.length),
      (params.getD c #[])[k]? =
        match lastSet sets labels[k] with
        | some vals => some (vals.getD c 0)
        | none => (params0.getD c #[])[k]? := by
  induction sets generalizing params0 with
  | nil =>
    simp only [fillParams, Option.some.injEq] at hfill
    subst hfill
    exact ⟨rfl, hrows, fun c _ k _ => by simp [lastSet]⟩
  | cons lv rest ih =>
    obtain ⟨l, v⟩ := lv
    unfold fillParams at hfill
    split at hfill
    · cases hfill
    · next params1 h1 =>
      obtain ⟨j, hj, _, hsz1, hel⟩ := setCustomRateParameter_spec labels params0 params1 l v h1
      have hrows1 : ∀ c (hc : c < params1.size), params1[c].size = labels.length := by
        intro c hc
        have hc0 : c < params0.size := hsz1 ▸ hc
        have h := hel c hc0
        rw [Array.getElem?_eq_getElem hc] at h
        simp only [Option.some.injEq] at h
        rw [h, Array.size_setIfInBounds, hrows c hc0]
      obtain ⟨hs, hr, hv⟩ := ih params1 hrows1 hfill
      refine ⟨hs.trans hsz1, hr, fun c hc k hk => ?_⟩
      rw [hv c (hsz1 ▸ hc) k hk]
      simp only [lastSet]
      cases hls : lastSet rest labels[k] with
      | some vals => rfl
      | none =>
        simp only
        have h1c : params1.getD c #[] = params0[c].setIfInBounds j (v.getD c 0) := by
          have h := hel c hc
          rw [Array.getD_eq_getD_getElem?, h]; rfl
        have h0c : params0.getD c #[] = params0[c] := by
          rw [Array.getD_eq_getD_getElem?, Array.getElem?_eq_getElem hc]; rfl
        rw [h1c, h0c]
        by_cases hl : l = labels[k]
        · rw [if_pos hl]
          have hjk : j = k := by
            have := paramMap_nodup labels hnd k l (by rw [hl]; exact List.getElem?_eq_getElem hk)
            rw [hj] at this
            exact Option.some.inj this
          subst hjk
          rw [Array.getElem?_setIfInBounds_self_of_lt (by rw [hrows c hc]; exact hk)]
        · rw [if_neg hl]
          have hjk : j ≠ k := by
            intro hjk
            have := paramMap_some labels l j hj
            rw [hjk, List.getElem?_eq_getElem hk] at this
            exact hl (Option.some.inj this).symm
          rw [Array.getElem?_setIfInBounds_ne hjk]

end SetParam

/-- the slice of cell `c`'s parameter row handed to reaction `r`, after the calls `sets`, holds
    the values most recently passed for `r`'s own labels, in `r`'s label order -/
theorem fillParams_slice {α : Type} [OfNat α 0] (procs : List (RateProc α))
    (hnd : (labelsOf procs).Nodup) (sets : List (String × Array α)) (params0 params : Mat α)
    (hrows : ∀ c (hc : c < params0.size), params0[c].size = (labelsOf procs).length)
    (hfill : fillParams (labelsOf procs) params0 sets = some params)
    (c : Nat) (hc : c < params0.size) (r : Nat) (hr : r < procs.length)
    (hset : ∀ l ∈ procs[r].kind.labels, (lastSet sets l).isSome) :
    ((params.getD c #[]).toList.drop (paramOffset procs r)).take procs[r].kind.nParams =
      procs[r].kind.labels.map fun l => ((lastSet sets l).getD #[]).getD c 0 := by
  obtain ⟨_, _, hv⟩ := fillParams_spec (labelsOf procs) hnd sets params0 params hrows hfill
  apply List.ext_getElem?
  intro k
  by_cases hk : k < procs[r].kind.nParams
  · have hkl : k < procs[r].kind.labels.length := by rw [RateKind.labels_length]; exact hk
    have hlab := labelsOf_getElem procs r hr k hkl
    have hlt : paramOffset procs r + k < (labelsOf procs).length := by
      rw [labelsOf_length]; have := paramOffset_add_le procs r hr; omega
    have hlab' : (labelsOf procs)[paramOffset procs r + k] = procs[r].kind.labels[k] := by
      rw [List.getElem?_eq_getElem hlt] at hlab; exact Option.some.inj hlab
    rw [List.getElem?_take_of_lt hk, List.getElem?_drop, Array.getElem?_toList,
      hv c hc _ hlt, hlab', List.getElem?_map, List.getElem?_eq_getElem hkl]
    have := hset _ (List.getElem_mem hkl)
    cases hls : lastSet sets procs[r].kind.labels[k] with
    | none => rw [hls] at this; cases this
    | some vals => simp [hls]
  · rw [List.getElem?_eq_none (by simp; omega), List.getElem?_eq_none (by
      rw [List.length_map, RateKind.labels_length]; omega)]


/-! ### the flat vector overload -/

section Vec
variable {α : Type} [OfNat α 0]

/-- a run of writes `a[off + k] = f k`, `k < n`, all in range -/
theorem foldl_wr_range (f : Nat → α) (off n : Nat) (a : Array α) (h : off + n ≤ a.size) :
    ((List.range n).foldl (fun a k => wr a (off + k) (f k)) a).size = a.size ∧
    ∀ i, rd ((List.range n).foldl (fun a k => wr a (off + k) (f k)) a) i =
      if off ≤ i ∧ i < off + n then f (i - off) else rd a i := by
  induction n with
  | zero =>
    refine ⟨rfl, fun i => ?_⟩
    rw [if_neg (by omega)]; rfl
  | succ n ih =>
    obtain ⟨hs, hv⟩ := ih (by omega)
    rw [List.range_succ, List.foldl_append]
    simp only [List.foldl_cons, List.foldl_nil]
    refine ⟨by rw [wr_size, hs], fun i => ?_⟩
    rw [rd_wr, hv i, hs]
    by_cases hi : off + n = i
    · subst hi
      rw [if_pos ⟨rfl, by omega⟩, if_pos ⟨by omega, by omega⟩, Nat.add_sub_cancel_left]
    · rw [if_neg (fun h' => hi h'.1)]
      by_cases h2 : off ≤ i ∧ i < off + n
      · rw [if_pos h2, if_pos ⟨h2.1, by omega⟩]
      · rw [if_neg h2, if_neg (by omega)]

theorem map_range_drop_take {β : Type} (f : Nat → β) (P o n : Nat) (h : o + n ≤ P) :
    (((List.range P).map f).drop o).take n = (List.range n).map fun i => f (o + i) := by
  apply List.ext_getElem?
  intro k
  by_cases hk : k < n
  · rw [List.getElem?_take_of_lt hk, List.getElem?_drop, List.getElem?_map, List.getElem?_map,
      List.getElem?_range (by omega), List.getElem?_range hk]; rfl
  · rw [List.getElem?_eq_none (by simp; omega), List.getElem?_eq_none (by simp; omega)]

variable [OfNat α 1] [Add α] [Sub α] [Mul α] [Div α] [Neg α]
variable (t : TOps α) (pi av : α) (L : Nat) (conds : Array (Conditions α)) (vcp : Array α)

theorem vecCellLoop_spec (g size : Nat) (p : RateProc α) (offP offRc : Nat) (vrc : Array α)
    (h : offRc + size ≤ vrc.size) :
    (vecCellLoop t pi av L conds vcp g size p offP offRc vrc).size = vrc.size ∧
    ∀ i, rd (vecCellLoop t pi av L conds vcp g size p offP offRc vrc) i =
      if offRc ≤ i ∧ i < offRc + size then vecCellValue t pi av L conds vcp g p offP (i - offRc)
      else rd vrc i :=
  foldl_wr_range (fun k => vecCellValue t pi av L conds vcp g p offP k) offRc size vrc h

/-- the process loop: slot `offRc + r·L + lane` (`lane < rate_const_size`) receives reaction `r`'s
    value computed from the parameters gathered at `offP + off_r·L`; no other slot changes -/
theorem vecProcLoop_spec (g size : Nat) (hsize : size ≤ L) :
    ∀ (procs : List (RateProc α)) (offP offRc : Nat) (vrc : Array α),
      offRc + procs.length * L ≤ vrc.size →
      (vecProcLoop t pi av L conds vcp g size procs offP offRc vrc).size = vrc.size ∧
      (∀ r (hr : r < procs.length) lane, lane < size →
        rd (vecProcLoop t pi av L conds vcp g size procs offP offRc vrc) (offRc + r * L + lane) =
          vecCellValue t pi av L conds vcp g procs[r] (offP + paramOffset procs r * L) lane) ∧
      (∀ i, (∀ r, r < procs.length → ∀ lane, lane < size → i ≠ offRc + r * L + lane) →
        rd (vecProcLoop t pi av L conds vcp g size procs offP offRc vrc) i = rd vrc i) := by
  intro procs
  induction procs with
  | nil =>
    intro offP offRc vrc _
    exact ⟨rfl, fun r hr => by simp at hr, fun i _ => rfl⟩
  | cons p ps ih =>
    intro offP offRc vrc hsz
    have hlen : (p :: ps).length * L = ps.length * L + L := by
      rw [List.length_cons, Nat.succ_mul]
    rw [hlen] at hsz
    obtain ⟨hs1, hv1⟩ := vecCellLoop_spec t pi av L conds vcp g size p offP offRc vrc (by omega)
    obtain ⟨hs2, hv2, hf2⟩ := ih (offP + p.kind.nParams * L) (offRc + L)
      (vecCellLoop t pi av L conds vcp g size p offP offRc vrc) (by rw [hs1]; omega)
    simp only [vecProcLoop]
    refine ⟨hs2.trans hs1, ?_, ?_⟩
    · intro r hr lane hlane
      cases r with
      | zero =>
        rw [hf2 _ (by intro r' _ lane' _; omega), hv1,
          if_pos ⟨by omega, by omega⟩]
        simp only [Nat.zero_mul, Nat.add_zero, List.getElem_cons_zero, paramOffset_zero,
          Nat.add_sub_cancel_left]
      | succ r =>
        have hr' : r < ps.length := by simpa using hr
        have := hv2 r hr' lane hlane
        have he : offRc + (r + 1) * L + lane = offRc + L + r * L + lane := by
          rw [Nat.succ_mul]; omega
        rw [he, this]
        simp only [List.getElem_cons_succ, paramOffset_cons_succ, Nat.add_mul, Nat.add_assoc]
    · intro i hi
      rw [hf2 i, hv1 i, if_neg]
      · intro hc
        exact hi 0 (by simp) (i - offRc) (by omega) (by omega)
      · intro r hr lane hlane hc
        refine hi (r + 1) (by simpa using hr) lane hlane ?_
        rw [Nat.succ_mul]; omega

/-- `rate_const_size` of group `g` -/
abbrev rcSize (L nCells g : Nat) : Nat := min L (nCells - g * L)

theorem vecGroups_spec (nCells : Nat) (procs : List (RateProc α)) (vrc : Array α) (G : Nat)
    (hsz : G * (L * procs.length) ≤ vrc.size) :
    let res := (List.range G).foldl (fun vrc iGroup =>
      vecProcLoop t pi av L conds vcp iGroup (rcSize L nCells iGroup) procs
        (iGroup * (L * nParamsTotal procs)) (iGroup * (L * procs.length)) vrc) vrc
    res.size = vrc.size ∧
    (∀ g, g < G → ∀ r (hr : r < procs.length) lane, lane < rcSize L nCells g →
      rd res (g * (L * procs.length) + r * L + lane) =
        vecCellValue t pi av L conds vcp g procs[r]
          (g * (L * nParamsTotal procs) + paramOffset procs r * L) lane) ∧
    (∀ i, (∀ g, g < G → ∀ r, r < procs.length → ∀ lane, lane < rcSize L nCells g →
        i ≠ g * (L * procs.length) + r * L + lane) → rd res i = rd vrc i) := by
  induction G with
  | zero =>
    exact ⟨rfl, fun g hg => by omega, fun i _ => rfl⟩
  | succ G ih =>
    intro res
    have hmul : (G + 1) * (L * procs.length) = G * (L * procs.length) + procs.length * L := by
      rw [Nat.succ_mul, Nat.mul_comm L]
    rw [hmul] at hsz
    obtain ⟨hs, hv, hf⟩ := ih (by omega)
    have hres : res = vecProcLoop t pi av L conds vcp G (rcSize L nCells G) procs
        (G * (L * nParamsTotal procs)) (G * (L * procs.length))
        ((List.range G).foldl (fun vrc iGroup =>
          vecProcLoop t pi av L conds vcp iGroup (rcSize L nCells iGroup) procs
            (iGroup * (L * nParamsTotal procs)) (iGroup * (L * procs.length)) vrc) vrc) := by
      simp only [res, List.range_succ, List.foldl_append, List.foldl_cons, List.foldl_nil]
    obtain ⟨hs2, hv2, hf2⟩ := vecProcLoop_spec t pi av L conds vcp G (rcSize L nCells G)
      (Nat.min_le_left _ _) procs (G * (L * nParamsTotal procs)) (G * (L * procs.length))
      _ (by rw [hs]; omega)
    rw [hres]
    refine ⟨hs2.trans hs, ?_, ?_⟩
    · intro g hg r hr lane hlane
      by_cases hgG : g = G
      · subst hgG; exact hv2 r hr lane hlane
      · have hg' : g < G := by omega
        have hlt : g * (L * procs.length) + r * L + lane < G * (L * procs.length) := by
          have h1 : r * L + lane < procs.length * L :=
            mul_add_lt hr (Nat.lt_of_lt_of_le hlane (Nat.min_le_left _ _))
          have h2 : (g + 1) * (L * procs.length) ≤ G * (L * procs.length) :=
            Nat.mul_le_mul_right _ hg'
          rw [Nat.succ_mul, Nat.mul_comm L procs.length] at h2
          rw [Nat.mul_comm L procs.length]
          omega
        rw [hf2 _ (by intro r' _ lane' _; omega)]
        exact hv g hg' r hr lane hlane
    · intro i hi
      rw [hf2 i (fun r hr lane hlane => hi G (by omega) r hr lane hlane)]
      exact hf i (fun g hg => hi g (by omega))

end Vec


section VecMain
variable {α : Type} [OfNat α 0] [OfNat α 1] [Add α] [Sub α] [Mul α] [Div α] [Neg α]
variable (t : TOps α) (pi av : α) (L : Nat) (conds : Array (Conditions α)) (vcp : Array α)

/-- grouped address, split the way the C++ offsets are accumulated -/
theorem addr_split (s : DenseShape) (hL : 0 < s.L) (x y : Nat) :
    s.addr x y = x / s.L * (s.L * s.cols) + y * s.L + x % s.L := by
  unfold DenseShape.addr
  rw [if_neg (by omega), Nat.add_mul, Nat.mul_assoc, Nat.mul_comm s.cols s.L]

theorem lane_lt_rcSize {L nCells c : Nat} (hL : 0 < L) (hc : c < nCells) :
    c % L < rcSize L nCells (c / L) := by
  have h1 := Nat.mod_lt c hL
  have h2 := Nat.div_add_mod' c L
  simp only [rcSize]
  omega

omit [OfNat α 1] [Add α] [Sub α] [Mul α] [Div α] [Neg α] in
/-- the gathered lane-strided parameters are the reaction's slice of the cell's logical row -/
theorem gatherParams_eq_slice (P c off n : Nat) (hL : 0 < L) (h : off + n ≤ P) (nCells : Nat) :
    gatherParams L vcp (c / L * (L * P) + off * L) (c % L) n =
      ((logicalRow ⟨nCells, P, L⟩ vcp c).drop off).take n := by
  unfold logicalRow gatherParams
  rw [map_range_drop_take _ _ _ _ h]
  apply List.map_congr_left
  intro i _
  rw [addr_split _ hL]
  simp only [Nat.add_mul, Nat.add_assoc]

theorem calculateRateConstantsVec_eq (procs : List (RateProc α)) (nCells : Nat) (hL : 0 < L)
    (vrc : Array α) :
    calculateRateConstantsVec t pi av L nCells procs conds vcp vrc =
      (List.range ((nCells + L - 1) / L)).foldl (fun vrc iGroup =>
        vecProcLoop t pi av L conds vcp iGroup (rcSize L nCells iGroup) procs
          (iGroup * (L * nParamsTotal procs)) (iGroup * (L * procs.length)) vrc) vrc := by
  unfold calculateRateConstantsVec DenseShape.groups
  rw [if_neg (by simp only; omega)]

theorem calculateRateConstantsVec_size (procs : List (RateProc α)) (nCells : Nat) (hL : 0 < L)
    (vrc : Array α) (hvrc : vrc.size = (DenseShape.mk nCells procs.length L).size) :
    (calculateRateConstantsVec t pi av L nCells procs conds vcp vrc).size = vrc.size := by
  rw [calculateRateConstantsVec_eq _ _ _ _ _ _ _ _ hL]
  refine (vecGroups_spec t pi av L conds vcp nCells procs vrc _ ?_).1
  rw [hvrc, DenseShape.size, if_neg (by simp only; omega), Nat.mul_assoc]
  exact Nat.le_refl _

/-- main lemma: slot `addr c r` of the flat rate-constant storage receives the row-wise value -/
theorem calculateRateConstantsVec_addr (procs : List (RateProc α)) (hL : 0 < L)
    (vrc : Array α) (hvrc : vrc.size = (DenseShape.mk conds.size procs.length L).size)
    (c : Nat) (hc : c < conds.size) (r : Nat) (hr : r < procs.length) :
    rd (calculateRateConstantsVec t pi av L conds.size procs conds vcp vrc)
        ((DenseShape.mk conds.size procs.length L).addr c r) =
      (rateConstGo t pi av conds[c] procs
        (logicalRow ⟨conds.size, nParamsTotal procs, L⟩ vcp c))[r]'(by
          rw [rateConstGo_length]; exact hr) := by
  rw [calculateRateConstantsVec_eq _ _ _ _ _ _ _ _ hL, rateConstGo_getElem _ _ _ _ _ _ _ hr]
  have hG : (conds.size + L - 1) / L * (L * procs.length) ≤ vrc.size := by
    rw [hvrc, DenseShape.size, if_neg (by simp only; omega), Nat.mul_assoc]
    exact Nat.le_refl _
  obtain ⟨_, hv, _⟩ := vecGroups_spec t pi av L conds vcp conds.size procs vrc _ hG
  rw [addr_split _ hL]
  simp only
  rw [hv (c / L) (div_lt_ceil hL hc) r hr (c % L) (lane_lt_rcSize hL hc)]
  unfold vecCellValue
  have hcond : conds.getD (c / L * L + c % L) ⟨0, 0, 0⟩ = conds[c] := by
    rw [Nat.div_add_mod' c L, Array.getD_eq_getD_getElem?, Array.getElem?_eq_getElem hc]; rfl
  simp only [hcond]
  rw [gatherParams_eq_slice L vcp (nParamsTotal procs) c _ _ hL (paramOffset_add_le procs r hr)
    conds.size]

/-- frame: a slot that is not the address of a (real cell, reaction) pair — a padding lane of the
    last group, or anything past the storage — is left untouched -/
theorem calculateRateConstantsVec_frame (procs : List (RateProc α)) (nCells : Nat) (hL : 0 < L)
    (vrc : Array α) (hvrc : vrc.size = (DenseShape.mk nCells procs.length L).size) (i : Nat)
    (hi : ∀ c, c < nCells → ∀ r, r < procs.length →
      i ≠ (DenseShape.mk nCells procs.length L).addr c r) :
    rd (calculateRateConstantsVec t pi av L nCells procs conds vcp vrc) i = rd vrc i := by
  rw [calculateRateConstantsVec_eq _ _ _ _ _ _ _ _ hL]
  have hG : (nCells + L - 1) / L * (L * procs.length) ≤ vrc.size := by
    rw [hvrc, DenseShape.size, if_neg (by simp only; omega), Nat.mul_assoc]
    exact Nat.le_refl _
  obtain ⟨_, _, hf⟩ := vecGroups_spec t pi av L conds vcp nCells procs vrc _ hG
  apply hf
  intro g _ r hr lane hlane
  have hl : lane < L := Nat.lt_of_lt_of_le hlane (Nat.min_le_left _ _)
  have hcl : g * L + lane < nCells := by simp only [rcSize] at hlane; omega
  have := hi (g * L + lane) hcl r hr
  rw [addr_split _ hL] at this
  simp only [mul_add_div hl, mul_add_mod hl] at this
  exact this

end VecMain

end Micm
