/-
Field-dependent helper lemmas for C01 (mass-action closed form of `forcingSpec`) and C09
(weighted sums with `w · S = 0` are preserved by the forcing update).
-/
import Micm.Lemmas.Forcing
import Mathlib.Tactic.Ring
import Mathlib.Algebra.BigOperators.Group.List.Basic
import Mathlib.Algebra.BigOperators.Group.Finset.Basic
import Mathlib.Algebra.BigOperators.Group.Finset.Piecewise
import Mathlib.Algebra.Field.Basic

namespace Micm
section MassAction
variable {K : Type} [Field K]

/-- net stoichiometric coefficient of species `i` in a resolved reaction: sum of the yields of
    the products with id `i` minus the number of occurrences of `i` among the reactants -/
def netCoeff (rx : RRxn K) (i : Nat) : K :=
  ((rx.2.filter (fun p => p.1 = i)).map (·.2)).sum - (rx.1.count i : K)

theorem rxnRate_eq (y : Array K) (k : K) (rs : List Nat) :
    rxnRate y k rs = k * (rs.map (rd y)).prod := by
  unfold rxnRate
  induction rs generalizing k with
  | nil => simp
  | cons a l ih => simp [List.foldl, ih, mul_assoc]

theorem rd_wr_lt (f : Array K) (j i : Nat) (v : K) (hi : i < f.size) :
    rd (wr f j v) i = if j = i then v else rd f i := by
  rw [rd_wr]
  by_cases h : j = i
  · subst h; simp [hi]
  · simp [h]

theorem rd_sub_fold (f : Array K) (l : List Nat) (rt : K) (i : Nat) (hi : i < f.size) :
    rd (l.foldl (fun f j => wr f j (rd f j - rt)) f) i = rd f i - (l.count i : K) * rt := by
  induction l generalizing f with
  | nil => simp
  | cons a l ih =>
    simp only [List.foldl_cons]
    rw [ih _ (by simpa using hi), rd_wr_lt _ _ _ _ hi, List.count_cons]
    by_cases h : a = i
    · subst h; simp; ring
    · simp [h]

theorem rd_add_fold (f : Array K) (l : List (Nat × K)) (rt : K) (i : Nat) (hi : i < f.size) :
    rd (l.foldl (fun f p => wr f p.1 (rd f p.1 + p.2 * rt)) f) i
      = rd f i + ((l.filter (fun p => p.1 = i)).map (·.2)).sum * rt := by
  induction l generalizing f with
  | nil => simp
  | cons a l ih =>
    simp only [List.foldl_cons]
    rw [ih _ (by simpa using hi), rd_wr_lt _ _ _ _ hi, List.filter_cons]
    by_cases h : a.1 = i
    · simp [h]; ring
    · simp [h]

theorem rd_rxnStep (y f : Array K) (k : K) (rx : RRxn K) (i : Nat) (hi : i < f.size) :
    rd (rxnStep y f k rx) i = rd f i + netCoeff rx i * (k * (rx.1.map (rd y)).prod) := by
  unfold rxnStep
  simp only
  rw [rd_add_fold _ _ _ _ (by rw [foldl_wr_size (fun i : Nat => i) (fun f i => rd f i - rxnRate y k rx.1)]; exact hi),
    rd_sub_fold _ _ _ _ hi, rxnRate_eq, netCoeff]
  ring

theorem rd_forcingSpec (y : Array K) (rxns : List (RRxn K)) (ks : List K) (f : Array K) (i : Nat)
    (hi : i < f.size) :
    rd (forcingSpec y rxns ks f) i
      = rd f i + ((rxns.zip ks).map fun rk => netCoeff rk.1 i * (rk.2 * (rk.1.1.map (rd y)).prod)).sum := by
  induction rxns generalizing ks f with
  | nil => simp
  | cons rx rest ih =>
    cases ks with
    | nil => simp
    | cons k ks =>
      rw [forcingSpec_cons, ih _ _ (by rw [rxnStep_size]; exact hi), rd_rxnStep _ _ _ _ _ hi]
      simp only [List.zip_cons_cons, List.map_cons, List.sum_cons]
      ring

end MassAction

/-! ### C09: weighted sums -/
section Conservation
variable {K : Type} [Field K]
open Finset

theorem wsum_wr (w : Nat → K) (n : Nat) (f : Array K) (hf : f.size = n) (j : Nat) (v : K) (hj : j < n) :
    ∑ i ∈ range n, w i * rd (wr f j v) i = ∑ i ∈ range n, w i * rd f i + w j * (v - rd f j) := by
  have key : ∀ i, w i * rd (wr f j v) i = w i * rd f i + if j = i then w j * (v - rd f j) else 0 := by
    intro i
    rw [rd_wr]
    by_cases h : j = i
    · subst h; simp [hf, hj]; ring
    · simp [h]
  simp only [key, sum_add_distrib, sum_ite_eq, mem_range, hj, if_true]

theorem wsum_sub_fold (w : Nat → K) (n : Nat) (l : List Nat) (rt : K) (f : Array K) (hf : f.size = n)
    (hl : ∀ j ∈ l, j < n) :
    ∑ i ∈ range n, w i * rd (l.foldl (fun f j => wr f j (rd f j - rt)) f) i
      = ∑ i ∈ range n, w i * rd f i - (l.map w).sum * rt := by
  induction l generalizing f with
  | nil => simp
  | cons a l ih =>
    simp only [List.foldl_cons, List.map_cons, List.sum_cons]
    rw [ih _ (by simpa using hf) (fun j hj => hl j (List.mem_cons_of_mem _ hj)),
      wsum_wr w n f hf a _ (hl a List.mem_cons_self)]
    ring

theorem wsum_add_fold (w : Nat → K) (n : Nat) (l : List (Nat × K)) (rt : K) (f : Array K) (hf : f.size = n)
    (hl : ∀ p ∈ l, p.1 < n) :
    ∑ i ∈ range n, w i * rd (l.foldl (fun f p => wr f p.1 (rd f p.1 + p.2 * rt)) f) i
      = ∑ i ∈ range n, w i * rd f i + (l.map fun p => w p.1 * p.2).sum * rt := by
  induction l generalizing f with
  | nil => simp
  | cons a l ih =>
    simp only [List.foldl_cons, List.map_cons, List.sum_cons]
    rw [ih _ (by simpa using hf) (fun j hj => hl j (List.mem_cons_of_mem _ hj)),
      wsum_wr w n f hf a.1 _ (hl a List.mem_cons_self)]
    ring

/-- one reaction whose stoichiometry is orthogonal to `w` leaves `w · f` unchanged -/
theorem wsum_rxnStep (w : Nat → K) (n : Nat) (y f : Array K) (hf : f.size = n) (k : K) (rx : RRxn K)
    (hr : ∀ j ∈ rx.1, j < n) (hp : ∀ p ∈ rx.2, p.1 < n)
    (hbal : (rx.2.map fun p => w p.1 * p.2).sum = (rx.1.map w).sum) :
    ∑ i ∈ range n, w i * rd (rxnStep y f k rx) i = ∑ i ∈ range n, w i * rd f i := by
  unfold rxnStep
  simp only
  rw [wsum_add_fold w n _ _ _
      (by rw [foldl_wr_size (fun i : Nat => i) (fun f i => rd f i - rxnRate y k rx.1)]; exact hf) hp,
    wsum_sub_fold w n _ _ _ hf hr, hbal]
  ring

theorem wsum_forcingSpec (w : Nat → K) (n : Nat) (y : Array K) (rxns : List (RRxn K)) (ks : List K)
    (f : Array K) (hf : f.size = n)
    (hb : ∀ rx ∈ rxns, (∀ j ∈ rx.1, j < n) ∧ ∀ p ∈ rx.2, p.1 < n)
    (hbal : ∀ rx ∈ rxns, (rx.2.map fun p => w p.1 * p.2).sum = (rx.1.map w).sum) :
    ∑ i ∈ range n, w i * rd (forcingSpec y rxns ks f) i = ∑ i ∈ range n, w i * rd f i := by
  induction rxns generalizing ks f with
  | nil => simp
  | cons rx rest ih =>
    cases ks with
    | nil => simp
    | cons k ks =>
      rw [forcingSpec_cons,
        ih _ _ (by rw [rxnStep_size]; exact hf) (fun r hr => hb r (List.mem_cons_of_mem _ hr))
          (fun r hr => hbal r (List.mem_cons_of_mem _ hr)),
        wsum_rxnStep w n y f hf k rx (hb rx List.mem_cons_self).1 (hb rx List.mem_cons_self).2
          (hbal rx List.mem_cons_self)]

end Conservation
end Micm
