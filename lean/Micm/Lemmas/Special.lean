/-
Helper lemmas for C17 (value semantics of `State`: the store machine of `Model/History.lean`)
and C10 (clamp / NaN propagation facts about `Model/Rosenbrock.lean`, `Model/BackwardEuler.lean`).
Core Lean only.
-/
import Micm.Model.History
import Micm.Model.BackwardEuler
import Micm.Lemmas.Forcing
namespace Micm
set_option linter.unusedSectionVars false

/-! ## C17 : the store machine refines a store of independent plain values -/

section C17
variable {σ ρ : Type}

/-- fold of `specStep` (the abstract counterpart of `hRun`) -/
def specRun (fresh : σ) (solveF : σ → σ × ρ) :
    (Nat → Option σ) → List (HOp σ) → (Nat → Option σ) × List (HOut ρ)
  | st, [] => (st, [])
  | st, op :: ops =>
    let (st', o) := specStep fresh solveF st op
    let (st'', os) := specRun fresh solveF st' ops
    (st'', o :: os)

/-- the invariant of the fixed source: every live object holds the solver's own kind of temporaries -/
def HInv (kind : TempKind) (st : HStore σ) : Prop := ∀ i o, st i = some o → o.temp = kind

/-- abstraction function: forget `temp` -/
def absStore (st : HStore σ) : Nat → Option σ := fun i => (st i).map (·.val)

theorem HInv_empty (kind : TempKind) : HInv kind (fun _ => none : HStore σ) := by
  intro i o h; cases h

theorem absStore_empty : absStore (fun _ => none : HStore σ) = fun _ => none := rfl

theorem HInv_upd {kind : TempKind} {st : HStore σ} (h : HInv kind st) (i : Nat) (o : HObj σ)
    (ho : o.temp = kind) : HInv kind (st.upd i (some o)) := by
  intro j o' hj
  unfold HStore.upd at hj
  split at hj
  · cases hj; exact ho
  · exact h j o' hj

theorem HInv_upd_none {kind : TempKind} {st : HStore σ} (h : HInv kind st) (i : Nat) :
    HInv kind (st.upd i none) := by
  intro j o' hj
  unfold HStore.upd at hj
  split at hj
  · cases hj
  · exact h j o' hj

theorem absStore_upd (st : HStore σ) (i : Nat) (o : HObj σ) :
    absStore (st.upd i (some o)) = fun j => if j = i then some o.val else absStore st j := by
  funext j; unfold absStore HStore.upd; split <;> rfl

theorem absStore_upd_none (st : HStore σ) (i : Nat) :
    absStore (st.upd i none) = fun j => if j = i then none else absStore st j := by
  funext j; unfold absStore HStore.upd; split <;> rfl

/-- one-step refinement (current source, `clone = true`) -/
theorem hStep_refines (kind : TempKind) (fresh : σ) (solveF : σ → σ × ρ) (st : HStore σ)
    (h : HInv kind st) (op : HOp σ) :
    HInv kind (hStep true kind fresh solveF st op).1 ∧
    absStore (hStep true kind fresh solveF st op).1 = (specStep fresh solveF (absStore st) op).1 ∧
    (hStep true kind fresh solveF st op).2 = (specStep fresh solveF (absStore st) op).2 := by
  cases op with
  | new d =>
    refine ⟨HInv_upd h d _ rfl, ?_, rfl⟩
    simp only [hStep, specStep, absStore_upd]
  | set s f =>
    simp only [hStep, specStep]
    cases hs : st s with
    | none => simp [absStore, hs, h]
    | some o =>
      have hk := h s o hs
      simp only [absStore, hs, Option.map_some]
      exact ⟨HInv_upd h s _ (by first | exact hk | rfl), absStore_upd st s _, trivial⟩
  | badSet s code =>
    simp only [hStep, specStep]
    cases hs : st s with
    | none => simp [absStore, hs, h]
    | some o => simp [absStore, hs, h]
  | solve s =>
    simp only [hStep, specStep]
    cases hs : st s with
    | none => simp [absStore, hs, h]
    | some o =>
      have hk := h s o hs
      simp only [absStore, hs, Option.map_some, hk, if_true]
      exact ⟨HInv_upd h s _ (by first | exact hk | rfl), absStore_upd st s _, trivial⟩
  | copyConstruct s d =>
    simp only [hStep, specStep]
    cases hs : st s with
    | none => simp [absStore, hs, h]
    | some o =>
      have hk := h s o hs
      simp only [absStore, hs, Option.map_some]
      exact ⟨HInv_upd h d _ (by simp [copyTemp, hk]), absStore_upd st d _, trivial⟩
  | copyAssign s d =>
    simp only [hStep, specStep]
    cases hs : st s with
    | none => simp [absStore, hs, h]
    | some o =>
      have hk := h s o hs
      simp only [absStore, hs, Option.map_some]
      exact ⟨HInv_upd h d _ (by simp [copyTemp, hk]), absStore_upd st d _, trivial⟩
  | moveConstruct s d =>
    simp only [hStep, specStep]
    cases hs : st s with
    | none => simp [absStore, hs, h]
    | some o =>
      have hk := h s o hs
      simp only [absStore, hs, Option.map_some]
      by_cases hsd : s = d
      · simp only [hsd, if_true]; exact ⟨h, trivial, trivial⟩
      · simp only [hsd, if_false]
        refine ⟨HInv_upd_none (HInv_upd h d _ hk) s, ?_, trivial⟩
        rw [absStore_upd_none, absStore_upd]; rfl
  | moveAssign s d =>
    simp only [hStep, specStep]
    cases hs : st s with
    | none => simp [absStore, hs, h]
    | some o =>
      have hk := h s o hs
      simp only [absStore, hs, Option.map_some]
      by_cases hsd : s = d
      · simp only [hsd, if_true]; exact ⟨h, trivial, trivial⟩
      · simp only [hsd, if_false]
        refine ⟨HInv_upd_none (HInv_upd h d _ hk) s, ?_, trivial⟩
        rw [absStore_upd_none, absStore_upd]; rfl

/-- the abstract spec never yields `ub` -/
theorem specStep_ne_ub (fresh : σ) (solveF : σ → σ × ρ) (st : Nat → Option σ) (op : HOp σ) :
    (specStep fresh solveF st op).2 = .ub → False := by
  cases op <;> simp only [specStep] <;> (try (intro h; cases h)) <;>
    (split <;> (try split) <;> intro h <;> cases h)

/-- run refinement from any store satisfying the invariant -/
theorem hRun_refines (kind : TempKind) (fresh : σ) (solveF : σ → σ × ρ) (ops : List (HOp σ)) :
    ∀ (st : HStore σ), HInv kind st →
    HInv kind (hRun true kind fresh solveF st ops).1 ∧
    absStore (hRun true kind fresh solveF st ops).1 = (specRun fresh solveF (absStore st) ops).1 ∧
    (hRun true kind fresh solveF st ops).2 = (specRun fresh solveF (absStore st) ops).2 := by
  induction ops with
  | nil => intro st h; exact ⟨h, rfl, rfl⟩
  | cons op ops ih =>
    intro st h
    obtain ⟨h1, h2, h3⟩ := hStep_refines kind fresh solveF st h op
    obtain ⟨i1, i2, i3⟩ := ih _ h1
    simp only [hRun, specRun]
    rw [← h2]
    exact ⟨i1, i2, by rw [i3, h3]⟩

theorem specRun_no_ub (fresh : σ) (solveF : σ → σ × ρ) (ops : List (HOp σ)) :
    ∀ (st : Nat → Option σ), ∀ o ∈ (specRun fresh solveF st ops).2, o = HOut.ub → False := by
  induction ops with
  | nil => intro st o ho; simp [specRun] at ho
  | cons op ops ih =>
    intro st o ho hub
    simp only [specRun, List.mem_cons] at ho
    rcases ho with ho | ho
    · exact specStep_ne_ub fresh solveF st op (ho ▸ hub)
    · exact ih _ o ho hub

end C17

/-! ## C10 : clamp and NaN facts -/

section C10Clamp
variable {α : Type}

/-- `std::max(v, 0)` is never `< 0` provided `0 < 0` is false. -/
theorem cmax_zero_not_lt [OfNat α 0] (o : Ops α) (h00 : o.lt 0 0 = false) (v : α) :
    o.lt (cmax o v 0) 0 = false := by
  unfold cmax
  cases h : o.lt v 0
  · simp [h]
  · simp [h00]

/-- every entry of `clampNonNeg o Y` is `cmax o v 0` of an entry `v` of `Y` -/
theorem mem_clampNonNeg [OfNat α 0] (o : Ops α) (Y : Mat α) (row : Array α) (x : α)
    (hrow : row ∈ clampNonNeg o Y) (hx : x ∈ row) :
    ∃ row' ∈ Y, ∃ v ∈ row', x = cmax o v 0 := by
  unfold clampNonNeg at hrow
  rw [Array.mem_map] at hrow
  obtain ⟨row', hr', rfl⟩ := hrow
  rw [Array.mem_map] at hx
  obtain ⟨v, hv, rfl⟩ := hx
  exact ⟨row', hr', v, hv, rfl⟩

theorem clampNonNeg_size [OfNat α 0] (o : Ops α) (Y : Mat α) : (clampNonNeg o Y).size = Y.size := by
  simp [clampNonNeg]

/-- total-read form: every cell/variable index, in range or not -/
theorem rd_clampNonNeg [OfNat α 0] (o : Ops α) (Y : Mat α) (c v : Nat) :
    rd ((clampNonNeg o Y).getD c #[]) v =
      if c < Y.size ∧ v < (Y.getD c #[]).size then cmax o (rd (Y.getD c #[]) v) 0 else 0 := by
  unfold clampNonNeg rd
  by_cases hc : c < Y.size
  · by_cases hv : v < (Y.getD c #[]).size
    · have hv' : v < Y[c].size := by simpa [Array.getD, hc] using hv
      simp [Array.getD, hc, hv']
    · have hv' : ¬ v < Y[c].size := by simpa [Array.getD, hc] using hv
      simp [Array.getD, hc, hv']
  · simp [Array.getD, hc]

end C10Clamp

section C10
variable {α : Type} [Add α] [Sub α] [Mul α] [Div α]

/-- The IEEE-754 facts about NaN that the C10 theorems use (assumed for `Float`, satisfied by
    `nanRatOps` below). -/
structure NaNLaws (o : Ops α) : Prop where
  add : ∀ a b : α, o.isNaN a = true ∨ o.isNaN b = true → o.isNaN (a + b) = true
  sub : ∀ a b : α, o.isNaN a = true ∨ o.isNaN b = true → o.isNaN (a - b) = true
  mul : ∀ a b : α, o.isNaN a = true ∨ o.isNaN b = true → o.isNaN (a * b) = true
  div : ∀ a b : α, o.isNaN a = true ∨ o.isNaN b = true → o.isNaN (a / b) = true
  cmp : ∀ a b : α, o.isNaN a = true ∨ o.isNaN b = true →
    o.lt a b = false ∧ o.le a b = false ∧ o.eq a b = false
  abs : ∀ a : α, o.isNaN a = true → o.isNaN (o.abs a) = true
  sqrt : ∀ a : α, o.isNaN a = true → o.isNaN (o.sqrt a) = true
  notFinite : ∀ a : α, o.isNaN a = true → o.isFinite a = false
  ofNat : ∀ n : Nat, o.isNaN (o.ofNat n) = false

variable {o : Ops α}

/-- `std::max(x, b)` with `x` NaN returns `x` (`x < b` is false) -/
theorem NaNLaws.cmax_left (hl : NaNLaws o) (x b : α) (h : o.isNaN x = true) : cmax o x b = x := by
  unfold cmax; rw [(hl.cmp x b (Or.inl h)).1]; rfl

/-- `std::max(a, x)` with `x` NaN returns `a` (`a < x` is false): the NaN is **lost** -/
theorem NaNLaws.cmax_right (hl : NaNLaws o) (a x : α) (h : o.isNaN x = true) : cmax o a x = a := by
  unfold cmax; rw [(hl.cmp a x (Or.inr h)).1]; rfl

/-- a left fold of additions with a NaN start value or a NaN term is NaN -/
theorem NaNLaws.foldl_add (hl : NaNLaws o) {β : Type} (f : β → α) (l : List β) (acc : α)
    (h : o.isNaN acc = true ∨ ∃ x ∈ l, o.isNaN (f x) = true) :
    o.isNaN (l.foldl (fun acc x => acc + f x) acc) = true := by
  induction l generalizing acc with
  | nil =>
    rcases h with h | ⟨x, hx, _⟩
    · exact h
    · cases hx
  | cons a l ih =>
    simp only [List.foldl_cons]
    apply ih
    rcases h with h | ⟨x, hx, hn⟩
    · exact Or.inl (hl.add _ _ (Or.inl h))
    · rcases List.mem_cons.1 hx with rfl | hx
      · exact Or.inl (hl.add _ _ (Or.inr hn))
      · exact Or.inr ⟨x, hx, hn⟩

variable [OfNat α 0]

/-- a NaN error-estimate entry makes its term of the norm NaN -/
theorem NaNLaws.errTerm (hl : NaNLaws o) (atol : Array α) (rtol : α) (y ynew err : Mat α) (c v : Nat)
    (h : o.isNaN (rd (err.getD c #[]) v) = true) :
    o.isNaN (errTerm o atol rtol y ynew err c v) = true := by
  unfold Micm.errTerm
  exact hl.mul _ _ (Or.inl (hl.div _ _ (Or.inl h)))

/-- a NaN term anywhere in the visiting order makes the error norm NaN -/
theorem NaNLaws.normalizedError_term (hl : NaNLaws o) (cs : Consts α) (L nVars : Nat) (atol : Array α)
    (rtol : α) (y ynew err : Mat α) (c v : Nat) (hmem : (c, v) ∈ normOrder L y.size nVars)
    (h : o.isNaN (Micm.errTerm o atol rtol y ynew err c v) = true) :
    o.isNaN (normalizedError o cs L nVars atol rtol y ynew err) = true := by
  unfold normalizedError
  have hsum := hl.foldl_add (fun cv : Nat × Nat => Micm.errTerm o atol rtol y ynew err cv.1 cv.2)
    (normOrder L y.size nVars) 0 (Or.inr ⟨(c, v), hmem, h⟩)
  have hs := hl.sqrt _ (hl.div _ (o.ofNat (y.size * nVars)) (Or.inl hsum))
  simp only []
  rw [hl.cmax_left _ _ hs]
  exact hs

end C10

/-! ### membership in the visiting order of `NormalizedError` -/

theorem mem_normOrder (L nCells nVars c v : Nat) :
    (c, v) ∈ normOrder L nCells nVars ↔ c < nCells ∧ v < nVars := by
  unfold normOrder
  by_cases hL : L = 0
  · simp only [hL, if_true, List.mem_flatMap, List.mem_range, List.mem_map, Prod.mk.injEq]
    constructor
    · rintro ⟨c', hc', v', hv', rfl, rfl⟩; exact ⟨hc', hv'⟩
    · rintro ⟨hc, hv⟩; exact ⟨c, hc, v, hv, rfl, rfl⟩
  · simp only [hL, if_false, List.mem_append, List.mem_flatMap, List.mem_range, List.mem_map,
      Prod.mk.injEq]
    have hLpos : 0 < L := Nat.pos_of_ne_zero hL
    have hdm : nCells / L * L + nCells % L = nCells := Nat.div_add_mod' nCells L
    have hml : nCells % L < L := Nat.mod_lt _ hLpos
    constructor
    · rintro (⟨g, hg, v', hv', l, hl, rfl, rfl⟩ | ⟨v', hv', l, hl, rfl, rfl⟩)
      · refine ⟨?_, hv'⟩
        have h1 : (g + 1) * L ≤ nCells / L * L := Nat.mul_le_mul_right L hg
        rw [Nat.succ_mul] at h1
        omega
      · exact ⟨by omega, hv'⟩
    · rintro ⟨hc, hv⟩
      have hcd : c / L * L + c % L = c := Nat.div_add_mod' c L
      have hcl : c % L < L := Nat.mod_lt _ hLpos
      by_cases hg : c / L < nCells / L
      · exact Or.inl ⟨c / L, hg, v, hv, c % L, hcl, hcd, rfl⟩
      · have hle : c / L ≤ nCells / L := Nat.div_le_div_right (Nat.le_of_lt hc)
        have he : c / L = nCells / L := by omega
        refine Or.inr ⟨v, hv, c % L, ?_, ?_, rfl⟩
        · rw [he] at hcd; omega
        · rw [← he]; exact hcd

/-! ### backward Euler: one Newton iteration in projection form -/

section BE
variable {α : Type} [OfNat α 0] [OfNat α 1] [OfNat α 2] [Add α] [Sub α] [Mul α] [Div α]
variable (o : Ops α) (s : SolverCfg α) (p : BEParams α) (kc : Mat α) (atol : Array α) (rtol : α)
    (timeStep : α)

/-- outer loop head -/
def beHead (r : BEState α) : BEState α :=
  if r.iterations = 0 then
    (if o.lt r.t timeStep then { r with status := .running } else { r with done := true })
  else r

def beForcing (r : BEState α) : Mat α := s.forcing kc r.Yn1 (fillM r.sc.f0 0)
def beMatrix (r : BEState α) : Mat α :=
  addDiag s.diag (s.jacobian kc r.Yn1 (fillM r.sc.jac 0)) (1 / r.h)
def beFactor (r : BEState α) : Mat α × Mat α × Mat α :=
  s.factor (beMatrix s kc r) r.sc.lower r.sc.upper
/-- the Newton update `(I/h − J)⁻¹ (f − (yₙ₊₁ − yₙ)/h)` (post-head state `r`) -/
def beResidual (r : BEState α) : Mat α :=
  s.linSolve (beFactor s kc r).1 (beFactor s kc r).2.1 (beFactor s kc r).2.2
    ((beForcing s kc r).mapIdx fun c fr => fr.mapIdx fun v f =>
      f - (rd (r.Yn1.getD c #[]) v - rd (r.Yn.getD c #[]) v) / r.h)
/-- the clamped new iterate -/
def beNewY (r : BEState α) : Mat α :=
  r.Yn1.mapIdx fun c yr => yr.mapIdx fun v y => cmax o (y + rd ((beResidual s kc r).getD c #[]) v) 0
def beConv (r : BEState α) : Bool :=
  if r.iterations = 0 then false
  else beIsConverged o p.small atol rtol (beResidual s kc r) (beNewY o s kc r)
/-- the state after the Newton update, before the convergence decision -/
def beNewton (r : BEState α) : BEState α :=
  { r with Yn1 := beNewY o s kc r,
           stats := { r.stats with numberOfSteps := r.stats.numberOfSteps + 1,
                                   functionCalls := r.stats.functionCalls + 1,
                                   jacobianUpdates := r.stats.jacobianUpdates + 1,
                                   decompositions := r.stats.decompositions + 1,
                                   solves := r.stats.solves + 1 },
           sc := { r.sc with f0 := beResidual s kc r, jac := (beFactor s kc r).1,
                             lower := (beFactor s kc r).2.1, upper := (beFactor s kc r).2.2 },
           iterations := r.iterations + 1,
           trace := { h := r.h, matrix := beMatrix s kc r : BEIter α } :: r.trace }

/-- tail of an outer iteration whose inner loop did not converge -/
def beReject (r : BEState α) : BEState α :=
  let r := { r with iterations := 0 }
  let st := { r.stats with rejected := r.stats.rejected + 1 }
  if r.nFail ≥ p.reductions.length then
    { r with stats := st, nSucc := 0, t := r.t + r.h, status := .acceptingUnconvergedIntegration, done := true }
  else
    let h := r.h * p.reductions.getD r.nFail 1
    let r := { r with stats := st, nSucc := 0, Yn1 := r.Yn, h, nFail := r.nFail + 1 }
    { r with h := cmin o r.h (timeStep - r.t) }

/-- tail of an outer iteration whose inner loop converged -/
def beAccept (r : BEState α) : BEState α :=
  let r := { r with iterations := 0 }
  let st := { r.stats with accepted := r.stats.accepted + 1 }
  let t := r.t + r.h
  let nS := r.nSucc + 1
  let nh : Nat × α := if nS ≥ 2 then (0, r.h * 2) else (nS, r.h)
  { r with stats := st, status := .converged, t, Yn := r.Yn1, nSucc := nh.1, h := cmin o nh.2 (timeStep - t) }

/-- **one iteration = head, Newton update, then continue / reject / accept** -/
theorem beStep_eq (r : BEState α) :
    beStep o s p kc atol rtol timeStep r =
      let r1 := beHead o timeStep r
      if r1.done then r1
      else if !(beConv o s p kc atol rtol r1) && r1.iterations + 1 < p.maxSteps then beNewton o s kc r1
      else if !(beConv o s p kc atol rtol r1) then beReject o p timeStep (beNewton o s kc r1)
      else beAccept o timeStep (beNewton o s kc r1) := by
  rfl

/-- `IsConverged` only answers `true` when every residual and every new value it looks at is finite -/
theorem beIsConverged_true (small : α) (res yn1 : Mat α)
    (h : beIsConverged o small atol rtol res yn1 = true) (c v : Nat) (hc : c < res.size)
    (hv : v < (res.getD c #[]).size) :
    o.isFinite (rd (res.getD c #[]) v) = true ∧ o.isFinite (rd (yn1.getD c #[]) v) = true := by
  unfold beIsConverged at h
  rw [List.all_eq_true] at h
  have h1 := h c (List.mem_range.2 hc)
  simp only [] at h1
  rw [List.all_eq_true] at h1
  have h2 := h1 v (List.mem_range.2 hv)
  simp only [Bool.and_eq_true] at h2
  exact h2.1

theorem NaNLaws.beIsConverged_false (hl : NaNLaws o) (small : α) (res yn1 : Mat α) (c v : Nat)
    (hc : c < res.size) (hv : v < (res.getD c #[]).size)
    (h : o.isNaN (rd (res.getD c #[]) v) = true ∨ o.isNaN (rd (yn1.getD c #[]) v) = true) :
    beIsConverged o small atol rtol res yn1 = false := by
  cases hb : beIsConverged o small atol rtol res yn1
  · rfl
  · obtain ⟨f1, f2⟩ := beIsConverged_true o atol rtol small res yn1 hb c v hc hv
    rcases h with h | h
    · rw [hl.notFinite _ h] at f1; cases f1
    · rw [hl.notFinite _ h] at f2; cases f2

/-- an iteration whose convergence test fails never accepts: the accepted counter and `Yn` are
    unchanged and the status is the post-head status or `acceptingUnconvergedIntegration` -/
theorem beStep_of_not_conv (r : BEState α)
    (h : beConv o s p kc atol rtol (beHead o timeStep r) = false) :
    (beStep o s p kc atol rtol timeStep r).stats.accepted = r.stats.accepted ∧
    (beStep o s p kc atol rtol timeStep r).Yn = r.Yn ∧
    ((beStep o s p kc atol rtol timeStep r).status = (beHead o timeStep r).status ∨
     (beStep o s p kc atol rtol timeStep r).status = .acceptingUnconvergedIntegration) := by
  have hh : (beHead o timeStep r).stats = r.stats ∧ (beHead o timeStep r).Yn = r.Yn := by
    unfold beHead; split
    · split <;> exact ⟨rfl, rfl⟩
    · exact ⟨rfl, rfl⟩
  rw [beStep_eq]; simp only [h, Bool.not_false, Bool.true_and, if_true]
  split
  · exact ⟨by rw [hh.1], hh.2, Or.inl rfl⟩
  · split
    · exact ⟨by simp [beNewton, hh.1], by simp [beNewton, hh.2], Or.inl rfl⟩
    · unfold beReject; simp only []
      split
      · exact ⟨by simp [beNewton, hh.1], by simp [beNewton, hh.2], Or.inr rfl⟩
      · exact ⟨by simp [beNewton, hh.1], by simp [beNewton, hh.2], Or.inl rfl⟩

/-- the post-head status is `running` at the start of an outer iteration -/
theorem beHead_status (r : BEState α) :
    (beHead o timeStep r).status = .running ∨ (beHead o timeStep r).done = true ∨
    (r.iterations ≠ 0 ∧ (beHead o timeStep r) = r) := by
  unfold beHead; split
  · split
    · exact Or.inl rfl
    · exact Or.inr (Or.inl rfl)
  · exact Or.inr (Or.inr ⟨‹_›, rfl⟩)

/-- invariant: `converged` is only ever the status between outer iterations, and then every
    residual and every value the last convergence test looked at was finite -/
def BEConvInv (r : BEState α) : Prop :=
  r.status = .converged →
    r.iterations = 0 ∧
    ∀ c v, c < r.sc.f0.size → v < (r.sc.f0.getD c #[]).size →
      o.isFinite (rd (r.sc.f0.getD c #[]) v) = true ∧ o.isFinite (rd (r.Yn1.getD c #[]) v) = true

theorem BEConvInv_step (r : BEState α) (h : BEConvInv o r) :
    BEConvInv o (beStep o s p kc atol rtol timeStep r) := by
  -- the post-head state satisfies the invariant and is not `converged` unless `done`
  have hhead : BEConvInv o (beHead o timeStep r) ∧
      ((beHead o timeStep r).done = false → (beHead o timeStep r).status ≠ .converged) := by
    unfold beHead; split
    · split
      · refine ⟨?_, ?_⟩
        · intro hc; simp at hc
        · intro _ hc; simp at hc
      · refine ⟨h, ?_⟩
        intro hd; simp at hd
    · rename_i hne
      exact ⟨h, fun _ hc => hne (h hc).1⟩
  rw [beStep_eq]; simp only []
  split
  · exact hhead.1
  · rename_i hd
    have hs := hhead.2 (by simpa using hd)
    split
    · intro hc; exact absurd hc hs
    · split
      · intro hc
        unfold beReject at hc; simp only [] at hc
        split at hc
        · simp at hc
        · exact absurd hc hs
      · rename_i _ hconv
        have hconv : beConv o s p kc atol rtol (beHead o timeStep r) = true := by simpa using hconv
        unfold beConv at hconv
        split at hconv
        · cases hconv
        · intro _
          refine ⟨rfl, ?_⟩
          intro c v hc hv
          exact beIsConverged_true o atol rtol p.small _ _ hconv c v hc hv

theorem BEConvInv_loop (fuel : Nat) (r : BEState α) (h : BEConvInv o r) :
    BEConvInv o (beLoop o s p kc atol rtol timeStep fuel r) := by
  induction fuel generalizing r with
  | zero =>
    unfold beLoop; split
    · exact h
    · intro hc; simp at hc
  | succ n ih =>
    unfold beLoop; split
    · exact h
    · exact ih _ (BEConvInv_step o s p kc atol rtol timeStep r h)

/-- `beSolve` reports `converged` only if every residual and every value examined by the last
    convergence test is finite; the residuals are returned in `sc.f0`, the values in `Y` -/
theorem beSolve_converged_finite (Y : Mat α) (sc : Scratch α) (fuel : Nat)
    (h : (beSolve o s p kc atol rtol timeStep Y sc fuel).status = .converged) :
    ∀ c v, c < (beSolve o s p kc atol rtol timeStep Y sc fuel).sc.f0.size →
      v < ((beSolve o s p kc atol rtol timeStep Y sc fuel).sc.f0.getD c #[]).size →
      o.isFinite (rd ((beSolve o s p kc atol rtol timeStep Y sc fuel).sc.f0.getD c #[]) v) = true ∧
      o.isFinite (rd ((beSolve o s p kc atol rtol timeStep Y sc fuel).Y.getD c #[]) v) = true := by
  unfold beSolve at h ⊢
  simp only [] at h ⊢
  refine (BEConvInv_loop o s p kc atol rtol timeStep fuel _ ?_ h).2
  intro hc; simp at hc

end BE


/-! ### forward propagation of a NaN through the forcing kernel -/

section ForcingNaN
variable {α : Type} [OfNat α 0] [Add α] [Sub α] [Mul α] [Div α] {o : Ops α}

/-- a fold of read-modify-writes keeps a NaN slot NaN when the modification is NaN-preserving -/
theorem foldl_rmw_nan_sticky {β : Type} (g : β → Nat) (val : α → β → α)
    (hst : ∀ x b, o.isNaN x = true → o.isNaN (val x b) = true) (l : List β) (f : Array α) (i : Nat)
    (h : o.isNaN (rd f i) = true) :
    o.isNaN (rd (l.foldl (fun f b => wr f (g b) (val (rd f (g b)) b)) f) i) = true := by
  induction l generalizing f with
  | nil => exact h
  | cons b l ih =>
    simp only [List.foldl_cons]
    apply ih
    rw [rd_wr]
    split
    · rename_i hc
      rw [hc.1]; exact hst _ _ h
    · exact h

/-- … and makes slot `i` NaN if some item targets `i` (in range) with a NaN-producing modification -/
theorem foldl_rmw_nan_create {β : Type} (g : β → Nat) (val : α → β → α)
    (hst : ∀ x b, o.isNaN x = true → o.isNaN (val x b) = true) (l : List β) (f : Array α) (i : Nat)
    (hall : ∀ x b, b ∈ l → g b = i → o.isNaN (val x b) = true)
    (hmem : ∃ b ∈ l, g b = i) (hi : i < f.size) :
    o.isNaN (rd (l.foldl (fun f b => wr f (g b) (val (rd f (g b)) b)) f) i) = true := by
  induction l generalizing f with
  | nil => obtain ⟨b, hb, _⟩ := hmem; cases hb
  | cons b l ih =>
    simp only [List.foldl_cons]
    by_cases hg : g b = i
    · apply foldl_rmw_nan_sticky g val hst
      rw [hg, rd_wr_same _ _ _ hi]
      exact hall _ b (List.mem_cons_self ..) hg
    · apply ih
      · intro x b' hb' hg'; exact hall x b' (List.mem_cons_of_mem _ hb') hg'
      · obtain ⟨b', hb', hg'⟩ := hmem
        rcases List.mem_cons.1 hb' with rfl | hb'
        · exact absurd hg' hg
        · exact ⟨b', hb', hg'⟩
      · simpa using hi

/-- the rate `k · y[r₁] · y[r₂] ⋯` is NaN when `k` or one of the concentrations is -/
theorem NaNLaws.rxnRate (hl : NaNLaws o) (y : Array α) (k : α) (rs : List Nat)
    (h : o.isNaN k = true ∨ ∃ j ∈ rs, o.isNaN (rd y j) = true) : o.isNaN (rxnRate y k rs) = true := by
  unfold Micm.rxnRate
  induction rs generalizing k with
  | nil =>
    rcases h with h | ⟨j, hj, _⟩
    · exact h
    · cases hj
  | cons r rs ih =>
    simp only [List.foldl_cons]
    apply ih
    rcases h with h | ⟨j, hj, hn⟩
    · exact Or.inl (hl.mul _ _ (Or.inl h))
    · rcases List.mem_cons.1 hj with rfl | hj
      · exact Or.inl (hl.mul _ _ (Or.inr hn))
      · exact Or.inr ⟨j, hj, hn⟩

/-- one reaction never repairs a NaN forcing entry -/
theorem NaNLaws.rxnStep_sticky (hl : NaNLaws o) (y f : Array α) (k : α) (rx : RRxn α) (i : Nat)
    (h : o.isNaN (rd f i) = true) : o.isNaN (rd (rxnStep y f k rx) i) = true := by
  unfold Micm.rxnStep
  simp only []
  apply foldl_rmw_nan_sticky (fun p : Nat × α => p.1) (fun x p => x + p.2 * Micm.rxnRate y k rx.1)
    (fun x b hx => hl.add _ _ (Or.inl hx))
  exact foldl_rmw_nan_sticky (fun i : Nat => i) (fun x _ => x - Micm.rxnRate y k rx.1)
    (fun x b hx => hl.sub _ _ (Or.inl hx)) _ _ _ h

/-- a reaction with a NaN rate makes the forcing of each of its reactants and products NaN -/
theorem NaNLaws.rxnStep_create (hl : NaNLaws o) (y f : Array α) (k : α) (rx : RRxn α) (i : Nat)
    (hrate : o.isNaN (Micm.rxnRate y k rx.1) = true) (hi : i < f.size)
    (hmem : i ∈ rx.1 ∨ ∃ p ∈ rx.2, p.1 = i) : o.isNaN (rd (rxnStep y f k rx) i) = true := by
  unfold Micm.rxnStep
  simp only []
  rcases hmem with hm | hm
  · apply foldl_rmw_nan_sticky (fun p : Nat × α => p.1) (fun x p => x + p.2 * Micm.rxnRate y k rx.1)
      (fun x b hx => hl.add _ _ (Or.inl hx))
    exact foldl_rmw_nan_create (fun i : Nat => i) (fun x _ => x - Micm.rxnRate y k rx.1)
      (fun x b hx => hl.sub _ _ (Or.inl hx)) _ _ _ (fun x b _ _ => hl.sub _ _ (Or.inr hrate))
      ⟨i, hm, rfl⟩ hi
  · refine foldl_rmw_nan_create (fun p : Nat × α => p.1) (fun x p => x + p.2 * Micm.rxnRate y k rx.1)
      (fun x b hx => hl.add _ _ (Or.inl hx)) _ _ _
      (fun x b _ _ => hl.add _ _ (Or.inr (hl.mul _ _ (Or.inr hrate)))) hm ?_
    rw [foldl_wr_size (fun i : Nat => i) (fun f i => rd f i - Micm.rxnRate y k rx.1)]
    exact hi

theorem NaNLaws.forcingSpec_sticky (hl : NaNLaws o) (y : Array α) (rxns : List (RRxn α)) (ks : List α)
    (f : Array α) (i : Nat) (h : o.isNaN (rd f i) = true) :
    o.isNaN (rd (forcingSpec y rxns ks f) i) = true := by
  induction rxns generalizing ks f with
  | nil => simpa using h
  | cons rx rest ih =>
    cases ks with
    | nil => simpa using h
    | cons k ks => rw [forcingSpec_cons]; exact ih _ _ (hl.rxnStep_sticky y f k rx i h)

/-- **NaN in ⇒ NaN forcing.**  If the `n`-th reaction has a NaN rate constant or a NaN reactant
    concentration, the forcing of every (in-range) reactant and product of that reaction is NaN. -/
theorem NaNLaws.forcingSpec_nan (hl : NaNLaws o) (y : Array α) (rxns : List (RRxn α)) (ks : List α)
    (f : Array α) (n : Nat) (rx : RRxn α) (k : α) (hrx : rxns[n]? = some rx) (hk : ks[n]? = some k)
    (hnan : o.isNaN k = true ∨ ∃ j ∈ rx.1, o.isNaN (rd y j) = true)
    (i : Nat) (hi : i < f.size) (hmem : i ∈ rx.1 ∨ ∃ p ∈ rx.2, p.1 = i) :
    o.isNaN (rd (forcingSpec y rxns ks f) i) = true := by
  induction rxns generalizing ks f n with
  | nil => simp at hrx
  | cons rx0 rest ih =>
    cases ks with
    | nil => simp at hk
    | cons k0 ks =>
      rw [forcingSpec_cons]
      cases n with
      | zero =>
        simp only [List.getElem?_cons_zero, Option.some.injEq] at hrx hk
        subst hrx; subst hk
        exact hl.forcingSpec_sticky y rest ks _ i
          (hl.rxnStep_create y f k0 rx0 i (hl.rxnRate y k0 rx0.1 hnan) hi hmem)
      | succ n =>
        simp only [List.getElem?_cons_succ] at hrx hk
        exact ih ks _ n hrx hk (by rw [rxnStep_size]; exact hi)

end ForcingNaN

/-! ### a carrier with a NaN satisfying `NaNLaws`: `Option Rat`, `none` = NaN -/

/-- rationals with one extra absorbing element (`none`) playing NaN -/
def NaNRat := Option Rat

namespace NaNRat
def bin (f : Rat → Rat → Rat) : NaNRat → NaNRat → NaNRat
  | some x, some y => some (f x y)
  | _, _ => none
def cmp (f : Rat → Rat → Bool) : NaNRat → NaNRat → Bool
  | some x, some y => f x y
  | _, _ => false
def un (f : Rat → Rat) : NaNRat → NaNRat
  | some x => some (f x)
  | none => none
instance : Add NaNRat := ⟨bin (· + ·)⟩
instance : Sub NaNRat := ⟨bin (· - ·)⟩
instance : Mul NaNRat := ⟨bin (· * ·)⟩
instance : Div NaNRat := ⟨bin (· / ·)⟩
instance (n : Nat) : OfNat NaNRat n := ⟨some (n : Rat)⟩
instance : DecidableEq NaNRat := inferInstanceAs (DecidableEq (Option Rat))
/-- the NaN -/
def nan : NaNRat := none
/-- embedding of the rationals -/
def ofRat (q : Rat) : NaNRat := some q
end NaNRat

/-- comparisons false on NaN, `abs`/`sqrt`/`pow` NaN-preserving (`sqrt`, `pow` are placeholders on
    the rationals: no C10 theorem looks at their values) -/
def nanRatOps : Ops NaNRat where
  lt := NaNRat.cmp fun x y => decide (x < y)
  le := NaNRat.cmp fun x y => decide (x ≤ y)
  eq := NaNRat.cmp fun x y => decide (x = y)
  abs := NaNRat.un fun x => if x < 0 then -x else x
  sqrt := NaNRat.un id
  pow := NaNRat.bin fun x _ => x
  isNaN := Option.isNone
  isInf := fun _ => false
  isFinite := Option.isSome
  ofNat := fun n => some (n : Rat)

theorem NaNRat.bin_isNone (f : Rat → Rat → Rat) (a b : Option Rat)
    (h : a.isNone = true ∨ b.isNone = true) : (NaNRat.bin f a b).isNone = true := by
  cases a with
  | none => rfl
  | some x =>
    cases b with
    | none => rfl
    | some y => rcases h with h | h <;> cases h

theorem NaNRat.cmp_false (f : Rat → Rat → Bool) (a b : Option Rat)
    (h : a.isNone = true ∨ b.isNone = true) : NaNRat.cmp f a b = false := by
  cases a with
  | none => rfl
  | some x =>
    cases b with
    | none => rfl
    | some y => rcases h with h | h <;> cases h

theorem NaNRat.un_isNone (f : Rat → Rat) (a : Option Rat) (h : a.isNone = true) :
    (NaNRat.un f a).isNone = true := by
  cases a with
  | none => rfl
  | some x => cases h

theorem nanRatOps_laws : NaNLaws nanRatOps where
  add a b h := NaNRat.bin_isNone _ a b h
  sub a b h := NaNRat.bin_isNone _ a b h
  mul a b h := NaNRat.bin_isNone _ a b h
  div a b h := NaNRat.bin_isNone _ a b h
  cmp a b h := ⟨NaNRat.cmp_false _ a b h, NaNRat.cmp_false _ a b h, NaNRat.cmp_false _ a b h⟩
  abs a h := NaNRat.un_isNone _ a h
  sqrt a h := NaNRat.un_isNone _ a h
  notFinite a h := by
    cases a with
    | none => rfl
    | some x => cases h
  ofNat n := rfl

end Micm
