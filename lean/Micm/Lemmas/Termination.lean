/-
Termination of the Rosenbrock retry loop and of the whole flattened loop (C06 "Solve terminates").

The inner `while (!accepted)` of `rosenbrock.inl` has no bound of its own.  Over an ordered field, with
`h_min > 0`, every rejection multiplies `H` by a factor `≤ q < 1`
(`q = max (max factor_min safety_factor) rejection_factor_decrease`), and an attempt with `H < h_min`
is accepted whatever its error.  Hence a step that starts with `H ≤ T` has at most `N` rejections, where
`N` is any number with `T · q^N < h_min`; and since a new step is only started while
`number_of_steps ≤ max_number_of_steps`, the whole solve makes at most `max_number_of_steps + N + 1`
attempts.  The fuel of the model is then never exhausted.
-/
import Micm.Lemmas.TimeBounds

namespace Micm
set_option linter.unusedSectionVars false

section Term
variable {K : Type} [Field K] [LinearOrder K] [IsStrictOrderedRing K]
variable {o : Ops K} (cs : Consts K) (s : SolverCfg K) (p : RosParams K) (kc : Mat K)
    (atol : Array K) (rtol : K) (T hm : K)

/-- the largest factor a rejection can leave: `max (max factor_min safety) rejection_factor_decrease` -/
def rejFactor (p : RosParams K) : K := max (max p.fmin p.safety) p.rejDec

theorem rejFactor_pos (lp : LegalParams p) : 0 < rejFactor p :=
  lt_of_lt_of_le lp.rejDec_pos (le_max_right _ _)

theorem rejFactor_lt_one (lp : LegalParams p) (hs1 : p.safety < 1) : rejFactor p < 1 :=
  max_lt (max_lt lp.fmin_lt_one hs1) lp.rejDec_lt_one

/-- a rejection leaves `H' ≤ H · q` -/
theorem reject_h_le_mul (ho : OrderedOps o) (lp : LegalParams p)
    (hpow : ∀ x, 1 ≤ x → 1 ≤ o.pow x (1 / p.order)) (c : Ctl K) (e : K)
    (hd : (ctlDecide o p hm c e).1 = .reject) (hh : 0 ≤ c.h) :
    (ctlDecide o p hm c e).2.h ≤ c.h * rejFactor p := by
  rw [ho.reject_next p hm c e hd]
  simp only []
  split
  · exact mul_le_mul_of_nonneg_left (le_max_right _ _) hh
  · have he := ((ho.reject_iff p hm c e).mp hd).1
    have hp := hpow e he
    have hp0 : 0 < o.pow e (1 / p.order) := lt_of_lt_of_le one_pos hp
    have h1 : p.safety / o.pow e (1 / p.order) ≤ p.safety := by
      rw [div_le_iff₀ hp0]
      calc p.safety = p.safety * 1 := (mul_one _).symm
        _ ≤ p.safety * o.pow e (1 / p.order) := mul_le_mul_of_nonneg_left hp (le_of_lt lp.safety_pos)
    have h2 : clampFac o p e ≤ max p.fmin p.safety := by
      unfold clampFac
      exact le_trans (min_le_right _ _) (max_le_max (le_refl _) h1)
    exact mul_le_mul_of_nonneg_left (le_trans h2 (le_max_left _ _)) hh

/-- the termination invariant: the total number of attempts is bounded, and inside a step the number
    `j` of rejections so far bounds both the attempt counter and the step size -/
structure TermInv (p : RosParams K) (T : K) (N : Nat) (r : RState K) : Prop where
  total : r.stats.numberOfSteps ≤ p.maxSteps + N + 1
  inner : r.inStep = true → r.status = .running →
    ∃ j, j ≤ N ∧ r.stats.numberOfSteps ≤ p.maxSteps + j ∧ r.ctl.h ≤ T * rejFactor p ^ j

theorem TermInv_init (N : Nat) (h0 : K) (Y : Mat K) (sc : Scratch K) :
    TermInv p T N (rosInit h0 Y sc) :=
  ⟨by simp [rosInit], fun h => by simp [rosInit] at h⟩

theorem TermInv_prologue (ho : OrderedOps o) (hro : 0 ≤ p.roundOff) (N : Nat) (r : RState K)
    (ht : TimeInv p T r) (h : TermInv p T N r) :
    TermInv p T N (rosPrologue o cs s p kc T r) := by
  have hc := rosPrologue_cases o cs s p kc T r
  have hf := TimeInv_prologue cs s p kc T ho hro r ht
  generalize rosPrologue o cs s p kc T r = r' at hc hf ⊢
  cases hc with
  | inStep _ => exact h
  | converged hi _ => exact ⟨h.total, fun _ hr => by simp at hr⟩
  | maxSteps hi _ _ => exact ⟨h.total, fun _ hr => by simp at hr⟩
  | tooSmall hi _ _ _ => exact ⟨h.total, fun _ hr => by simp at hr⟩
  | start hi _ hn _ =>
    have hn' : r.stats.numberOfSteps ≤ p.maxSteps := Nat.le_of_not_gt hn
    refine ⟨by simp only [startStep]; omega, fun _ _ => ⟨0, Nat.zero_le _, by simp only [startStep]; omega, ?_⟩⟩
    have h1 := hf.fits rfl
    have h2 := hf.t_nonneg
    simp only [pow_zero, mul_one]
    linarith

/-- one attempt inside a step: an acceptance leaves the step; a rejection needs `h_min ≤ H ≤ T·q^j`,
    so `j < N`, and leaves `H' ≤ T·q^(j+1)` -/
theorem TermInv_attempt (ho : OrderedOps o) (lp : LegalParams p) (hs1 : p.safety < 1)
    (hpow : ∀ x, 1 ≤ x → 1 ≤ o.pow x (1 / p.order)) (hT : 0 ≤ T) (N : Nat)
    (hN : T * rejFactor p ^ N < p.hmin) (r : RState K) (hr : r.status = .running)
    (hi : r.inStep = true) (ht : TimeInv p T r) (h : TermInv p T N r) :
    TermInv p T N (rosAttempt o cs s p kc atol rtol hm r) := by
  obtain ⟨j, hj, hn, hh⟩ := h.inner hi hr
  obtain ⟨_, a2, _, _, _, _⟩ := rosAttempt_stats o cs s p kc atol rtol hm r
  have hq0 := rejFactor_pos p lp
  have hq1 := rejFactor_lt_one p lp hs1
  by_cases hd : (attDecide o cs s p kc atol rtol hm r).1 = .reject
  · -- rejected: `h_min ≤ H`
    have hmin : p.hmin ≤ r.ctl.h := ((ho.reject_iff p hm r.ctl _).mp hd).2
    have hjN : j < N := by
      by_contra hge
      have hge : N ≤ j := Nat.le_of_not_gt hge
      have : rejFactor p ^ j ≤ rejFactor p ^ N := pow_le_pow_of_le_one (le_of_lt hq0) (le_of_lt hq1) hge
      have : T * rejFactor p ^ j ≤ T * rejFactor p ^ N := mul_le_mul_of_nonneg_left this hT
      linarith
    have hle := reject_h_le_mul p hm ho lp hpow r.ctl _ hd (ht.h_nonneg hi)
    refine ⟨by rw [a2]; omega, fun _ _ => ⟨j + 1, hjN, by rw [a2]; omega, ?_⟩⟩
    rw [rosAttempt_ctl]
    calc (attDecide o cs s p kc atol rtol hm r).2.h ≤ r.ctl.h * rejFactor p := hle
      _ ≤ (T * rejFactor p ^ j) * rejFactor p := mul_le_mul_of_nonneg_right hh (le_of_lt hq0)
      _ = T * rejFactor p ^ (j + 1) := by rw [pow_succ]; ring
  · -- accepted (there is no nan/inf over an ordered field): the step is left
    have hacc : (attDecide o cs s p kc atol rtol hm r).1 = .accept := by
      have := ho.ctlDecide_fst p hm r.ctl (attError o cs s p kc atol rtol r)
      unfold attDecide at hd ⊢
      rw [this] at hd ⊢
      split at hd <;> simp_all
    refine ⟨by rw [a2]; omega, fun hin _ => ?_⟩
    rw [rosAttempt_inStep, if_pos hacc] at hin
    cases hin

/-- the invariant pair (time, termination) is preserved by `rosStep` -/
theorem TermInv_step (ho : OrderedOps o) (lp : LegalParams p) (hs1 : p.safety < 1)
    (hpow : ∀ x, 1 ≤ x → 1 ≤ o.pow x (1 / p.order)) (hro : 0 ≤ p.roundOff) (hT : 0 ≤ T) (N : Nat)
    (hN : T * rejFactor p ^ N < p.hmin) (r : RState K)
    (h : TimeInv p T r ∧ TermInv p T N r) :
    TimeInv p T (rosStep o cs s p kc atol rtol T hm r) ∧
    TermInv p T N (rosStep o cs s p kc atol rtol T hm r) :=
  rosStep_inv o cs s p kc atol rtol T hm (fun r => TimeInv p T r ∧ TermInv p T N r) r
    (fun h => ⟨TimeInv_prologue cs s p kc T ho hro r h.1, TermInv_prologue cs s p kc T ho hro N r h.1 h.2⟩)
    (fun r' hr hi h' => ⟨TimeInv_attempt cs s p kc atol rtol T hm ho lp hs1 hpow r' hi h'.1,
      TermInv_attempt cs s p kc atol rtol T hm ho lp hs1 hpow hT N hN r' hr hi h'.1 h'.2⟩) h

theorem TermInv_loop (ho : OrderedOps o) (lp : LegalParams p) (hs1 : p.safety < 1)
    (hpow : ∀ x, 1 ≤ x → 1 ≤ o.pow x (1 / p.order)) (hro : 0 ≤ p.roundOff) (hT : 0 ≤ T) (N : Nat)
    (hN : T * rejFactor p ^ N < p.hmin) (fuel : Nat) (r : RState K)
    (h : TimeInv p T r ∧ TermInv p T N r) :
    TermInv p T N (rosLoop o cs s p kc atol rtol T hm fuel r) :=
  (rosLoop_inv o cs s p kc atol rtol T hm (fun r => TimeInv p T r ∧ TermInv p T N r)
    (fun r _ h => TermInv_step cs s p kc atol rtol T hm ho lp hs1 hpow hro hT N hN r h)
    (fun _ _ h => ⟨⟨h.1.1, h.1.2, h.1.3, h.1.4, h.1.5, h.1.6⟩, ⟨h.2.total, fun _ hr => by simp at hr⟩⟩)
    fuel r h).2

/-- **the fuel is never exhausted**: with `fuel > max_number_of_steps + N + 1` the loop ends in a status of
    the implementation -/
theorem rosLoop_terminates (ho : OrderedOps o) (lp : LegalParams p) (hs1 : p.safety < 1)
    (hpow : ∀ x, 1 ≤ x → 1 ≤ o.pow x (1 / p.order)) (hro : 0 ≤ p.roundOff) (hT : 0 ≤ T) (N : Nat)
    (hN : T * rejFactor p ^ N < p.hmin) (fuel : Nat) (hfuel : p.maxSteps + N + 1 < fuel)
    (h0 : K) (Y : Mat K) (sc : Scratch K) :
    (rosLoop o cs s p kc atol rtol T hm fuel (rosInit h0 Y sc)).status ≠ .outOfFuel := by
  intro hout
  have hlen := rosLoop_outOfFuel o cs s p kc atol rtol T hm fuel (rosInit h0 Y sc) (by simp [rosInit]) hout
  have hcnt := (CountInv_loop o cs s p kc atol rtol T hm fuel (rosInit h0 Y sc)
    (by simp [CountInv, rosInit])).2.1
  have htot := (TermInv_loop cs s p kc atol rtol T hm ho lp hs1 hpow hro hT N hN fuel (rosInit h0 Y sc)
    ⟨TimeInv_init p T h0 Y sc hT, TermInv_init p T N h0 Y sc⟩).total
  rw [hcnt, hlen] at htot
  simp [rosInit] at htot
  omega

end Term
end Micm
