/-
Lemmas for C19 (`AddToDiagonal` on the flat sparse storage): the diagonal id list is the list of
diagonal ranks mapped to block 0's slots, the loops are a read-modify-write fold over a
duplicate-free slot list whose members are exactly the diagonal slots of every (padded) block.
Core Lean only.
-/
import Micm.Lemmas.DenseOps
namespace Micm

/-! ### duplicate-free lists -/

theorem nodup_map_of_inj_on {β : Type} (l : List β) (f : β → Nat) (hl : l.Nodup)
    (hinj : ∀ a ∈ l, ∀ b ∈ l, f a = f b → a = b) : (l.map f).Nodup := by
  rw [List.nodup_iff_pairwise_ne, List.pairwise_map]
  refine List.Pairwise.imp_of_mem ?_ (List.nodup_iff_pairwise_ne.mp hl)
  intro a b ha hb hne heq
  exact hne (hinj a ha b hb heq)

theorem nodup_flatMap_of {β : Type} (l : List β) (F : β → List Nat) (hl : l.Nodup)
    (h1 : ∀ b ∈ l, (F b).Nodup)
    (h2 : ∀ b ∈ l, ∀ b' ∈ l, b ≠ b' → ∀ a ∈ F b, a ∉ F b') : (l.flatMap F).Nodup := by
  rw [List.nodup_iff_pairwise_ne, List.pairwise_flatMap]
  refine ⟨fun b hb => List.nodup_iff_pairwise_ne.mp (h1 b hb), ?_⟩
  refine List.Pairwise.imp_of_mem ?_ (List.nodup_iff_pairwise_ne.mp hl)
  intro b b' hb hb' hne x hx y hy hxy
  subst hxy
  exact h2 b hb b' hb' hne x hx hy

theorem denseOps_foldl_congr_mem {β γ : Type} (f g : γ → β → γ) (l : List β) (init : γ)
    (h : ∀ d, ∀ b ∈ l, f d b = g d b) : l.foldl f init = l.foldl g init := by
  induction l generalizing init with
  | nil => rfl
  | cons b l ih =>
    simp only [List.foldl_cons]
    rw [h init b List.mem_cons_self]
    exact ih _ (fun d b' hb' => h d b' (List.mem_cons_of_mem _ hb'))

/-! ### the diagonal id list -/

/-- number of blocks the loops cover: `blocks` (standard ordering), whole groups (vector ordering) -/
def Pattern.coveredBlocks (p : Pattern) (blocks : Nat) : Nat :=
  if p.L = 0 then blocks else (blocks + p.L - 1) / p.L * p.L

theorem Pattern.le_coveredBlocks (p : Pattern) (blocks : Nat) : blocks ≤ p.coveredBlocks blocks := by
  unfold Pattern.coveredBlocks
  split
  · exact Nat.le_refl _
  · next hL =>
    have hL' : 0 < p.L := Nat.pos_of_ne_zero hL
    have h := Nat.div_add_mod (blocks + p.L - 1) p.L
    have h2 := Nat.mod_lt (blocks + p.L - 1) hL'
    have h3 : (blocks + p.L - 1) / p.L * p.L = p.L * ((blocks + p.L - 1) / p.L) := Nat.mul_comm _ _
    omega

theorem Pattern.vectorSize_covered (p : Pattern) (blocks : Nat) :
    p.vectorSize (p.coveredBlocks blocks) = p.vectorSize blocks := by
  unfold Pattern.vectorSize Pattern.coveredBlocks
  by_cases hL : p.L = 0
  · simp only [hL, if_true]
  · simp only [hL, if_false]
    have hL' : 0 < p.L := Nat.pos_of_ne_zero hL
    have : ((blocks + p.L - 1) / p.L * p.L + p.L - 1) / p.L = (blocks + p.L - 1) / p.L := by
      have e : (blocks + p.L - 1) / p.L * p.L + p.L - 1 = (blocks + p.L - 1) / p.L * p.L + (p.L - 1) := by
        omega
      rw [e]
      exact mul_add_div (by omega)
    rw [this]

/-- slots of covered blocks are in range -/
theorem slot_lt_covered (p : Pattern) {blocks b k : Nat} (hb : b < p.coveredBlocks blocks)
    (hk : k < p.nnz) : p.slot b k < p.vectorSize blocks := by
  rw [← p.vectorSize_covered blocks]
  exact slot_lt p hb hk

theorem Pattern.Good.diagRanks_lt {p : Pattern} (h : p.Good) {k : Nat} (hk : k ∈ p.diagRanks) :
    k < p.nnz := by
  obtain ⟨i, hi⟩ := (h.mem_diagRanks k).mp hk
  rw [h.nnz]
  exact (List.getElem?_eq_some_iff.mp hi).1

/-- `DiagonalIndices(number_of_blocks, 0)`: block 0's slots of the diagonal ranks -/
theorem Pattern.Good.diagonalIndices_eq {p : Pattern} (h : p.Good) {blocks : Nat} (hb : 0 < blocks) :
    p.diagonalIndices blocks = p.diagRanks.map (p.slot 0) := by
  unfold Pattern.diagonalIndices Pattern.diagRanks
  rw [h.n1, List.map_filterMap]
  congr 1
  funext i
  rw [vectorIndex_of_lt p hb]
  cases p.rank i i <;> rfl

theorem Pattern.diagonalIndices_zero (p : Pattern) : p.diagonalIndices 0 = [] := by
  unfold Pattern.diagonalIndices
  rw [List.filterMap_eq_nil_iff]
  intro i _
  rw [vectorIndex_of_ge p (Nat.zero_le _)]

/-! ### slot arithmetic -/

theorem slot_std (p : Pattern) (hL : p.L = 0) (b k : Nat) : b * p.nnz + p.slot 0 k = p.slot b k := by
  simp only [Pattern.slot, hL, if_true, Nat.zero_mul, Nat.add_zero]
  omega

theorem denseOps_slot_vec (p : Pattern) (hL : p.L ≠ 0) (g k : Nat) {l : Nat} (hl : l < p.L) :
    g * p.L * p.nnz + p.slot 0 k + l = p.slot (g * p.L + l) k := by
  simp only [Pattern.slot, hL, if_false, Nat.zero_mod, Nat.zero_div, Nat.zero_mul, Nat.add_zero,
    mul_add_div hl, mul_add_mod hl]
  omega

/-! ### the slot list `AddToDiagonal` walks -/

/-- in the order of the source's loops -/
def diagSlots (p : Pattern) (blocks : Nat) : List Nat :=
  if p.L = 0 then
    (List.range blocks).flatMap fun b => p.diagRanks.map fun k => p.slot b k
  else
    (List.range ((blocks + p.L - 1) / p.L)).flatMap fun g =>
      p.diagRanks.flatMap fun k => (List.range p.L).map fun l => p.slot (g * p.L + l) k

theorem mem_diagSlots (p : Pattern) (blocks a : Nat) :
    a ∈ diagSlots p blocks ↔ ∃ b k, b < p.coveredBlocks blocks ∧ k ∈ p.diagRanks ∧ a = p.slot b k := by
  unfold diagSlots Pattern.coveredBlocks
  by_cases hL : p.L = 0
  · simp only [hL, if_true, List.mem_flatMap, List.mem_map, List.mem_range]
    constructor
    · rintro ⟨b, hb, k, hk, rfl⟩; exact ⟨b, k, hb, hk, rfl⟩
    · rintro ⟨b, k, hb, hk, rfl⟩; exact ⟨b, hb, k, hk, rfl⟩
  · simp only [hL, if_false, List.mem_flatMap, List.mem_map, List.mem_range]
    have hL' : 0 < p.L := Nat.pos_of_ne_zero hL
    constructor
    · rintro ⟨g, hg, k, hk, l, hl, rfl⟩
      exact ⟨g * p.L + l, k, mul_add_lt hg hl, hk, rfl⟩
    · rintro ⟨b, k, hb, hk, rfl⟩
      refine ⟨b / p.L, (Nat.div_lt_iff_lt_mul hL').mpr hb, k, hk, b % p.L, Nat.mod_lt _ hL', ?_⟩
      have : b / p.L * p.L + b % p.L = b := by rw [Nat.mul_comm]; exact Nat.div_add_mod b p.L
      rw [this]

theorem diagSlots_nodup {p : Pattern} (h : p.Good) (blocks : Nat) : (diagSlots p blocks).Nodup := by
  unfold diagSlots
  have hD := h.diagRanks_nodup
  have hlt : ∀ k ∈ p.diagRanks, k < p.nnz := fun k hk => h.diagRanks_lt hk
  by_cases hL : p.L = 0
  · simp only [hL, if_true]
    apply nodup_flatMap_of _ _ List.nodup_range
    · intro b _
      apply nodup_map_of_inj_on _ _ hD
      intro k hk k' hk' heq
      exact (slot_inj p (hlt k hk) (hlt k' hk') heq).2
    · intro b _ b' _ hne a ha ha'
      simp only [List.mem_map] at ha ha'
      obtain ⟨k, hk, rfl⟩ := ha
      obtain ⟨k', hk', heq⟩ := ha'
      exact hne (slot_inj p (hlt k' hk') (hlt k hk) heq).1.symm
  · simp only [hL, if_false]
    apply nodup_flatMap_of _ _ List.nodup_range
    · intro g _
      apply nodup_flatMap_of _ _ hD
      · intro k hk
        apply nodup_map_of_inj_on _ _ List.nodup_range
        intro l _ l' _ heq
        have := (slot_inj p (hlt k hk) (hlt k hk) heq).1
        omega
      · intro k hk k' hk' hne a ha ha'
        simp only [List.mem_map] at ha ha'
        obtain ⟨l, _, rfl⟩ := ha
        obtain ⟨l', _, heq⟩ := ha'
        exact hne (slot_inj p (hlt k' hk') (hlt k hk) heq).2.symm
    · intro g _ g' _ hne a ha ha'
      simp only [List.mem_flatMap, List.mem_map, List.mem_range] at ha ha'
      obtain ⟨k, hk, l, hl, rfl⟩ := ha
      obtain ⟨k', hk', l', hl', heq⟩ := ha'
      have := (slot_inj p (hlt k' hk') (hlt k hk) heq).1
      exact hne (mul_add_inj hl' hl this).1.symm

section
variable {α : Type} [OfNat α 0] [Add α]

/-- the loops of `AddToDiagonal` are one read-modify-write pass over `diagSlots` -/
theorem addToDiagonalFlat_eq {p : Pattern} (h : p.Good) (blocks : Nat) (data : Array α) (v : α) :
    addToDiagonalFlat p blocks data v
      = (diagSlots p blocks).foldl (fun d a => wr d a ((fun _ o => o + v) a (rd d a))) data := by
  rcases Nat.eq_zero_or_pos blocks with hb | hb
  · subst hb
    unfold addToDiagonalFlat diagSlots
    by_cases hL : p.L = 0
    · simp [hL]
    · have hL' : 0 < p.L := Nat.pos_of_ne_zero hL
      have : (p.L - 1) / p.L = 0 := Nat.div_eq_of_lt (by omega)
      simp [hL, this]
  · unfold addToDiagonalFlat diagSlots
    rw [h.diagonalIndices_eq hb]
    by_cases hL : p.L = 0
    · simp only [hL, if_true, List.foldl_flatMap, List.foldl_map]
      apply denseOps_foldl_congr_mem
      intro d b _
      apply denseOps_foldl_congr_mem
      intro d k _
      rw [slot_std p hL]
    · simp only [hL, if_false, List.foldl_flatMap, List.foldl_map]
      apply denseOps_foldl_congr_mem
      intro d g _
      apply denseOps_foldl_congr_mem
      intro d k _
      apply denseOps_foldl_congr_mem
      intro d l hl
      rw [denseOps_slot_vec p hL g k (List.mem_range.mp hl)]

theorem addToDiagonalFlat_size {p : Pattern} (h : p.Good) (blocks : Nat) (data : Array α) (v : α) :
    (addToDiagonalFlat p blocks data v).size = data.size := by
  rw [addToDiagonalFlat_eq h]
  exact foldl_rmw_size (fun _ o => o + v) _ _

theorem addToDiagonalFlat_rd {p : Pattern} (h : p.Good) (blocks : Nat) (data : Array α) (v : α)
    (hd : data.size = p.vectorSize blocks) (j : Nat) :
    rd (addToDiagonalFlat p blocks data v) j
      = if j ∈ diagSlots p blocks then rd data j + v else rd data j := by
  rw [addToDiagonalFlat_eq h]
  refine (foldl_rmw_rd (fun _ o => o + v) _ _ (diagSlots_nodup h blocks) j).trans ?_
  by_cases hj : j ∈ diagSlots p blocks
  · obtain ⟨b, k, hb, hk, rfl⟩ := (mem_diagSlots p blocks j).mp hj
    have := slot_lt_covered p hb (h.diagRanks_lt hk)
    simp [hj, hd, this]
  · simp [hj]

end
end Micm
