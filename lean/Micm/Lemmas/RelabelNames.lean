import Micm.Lemmas.RelabelLoop
import Micm.Lemmas.Builder

/-!
Two `std::map` name maps with the same key set, both bijections onto `0 … n−1`, differ by a
relabelling of the indices: `m₂ = relabel σ m₁` with `σ = nameSigma m₁ m₂` (index ↦ name in `m₁` ↦
index in `m₂`), a permutation of `0 … n−1`.  Used by C14b to bring two builds (reordering on/off,
species listed in another order) under `C12_solve_relabel`.
-/
namespace Micm

/-- two strictly sorted key lists with the same elements are equal -/
theorem nmKeys_eq_of_sorted_perm {m₁ m₂ : NameMap} (h₁ : NmSorted m₁) (h₂ : NmSorted m₂)
    (hp : (nmKeys m₁).Perm (nmKeys m₂)) : nmKeys m₁ = nmKeys m₂ := by
  refine List.Perm.eq_of_pairwise (le := fun a b : String => a < b) ?_ ?_ ?_ hp
  · intro a b _ _ h1 h2
    exact absurd (String.lt_trans h1 h2) (String.lt_irrefl a)
  · unfold nmKeys; rw [List.pairwise_map]; exact h₁
  · unfold nmKeys; rw [List.pairwise_map]; exact h₂

/-- a map with distinct keys is determined by its key list and its lookup function -/
theorem nm_eq_map_keys {m : NameMap} (hn : (nmKeys m).Nodup) :
    m = (nmKeys m).map (fun k => (k, (nmLookup m k).getD 0)) := by
  unfold nmKeys
  rw [List.map_map]
  conv_lhs => rw [← List.map_id m]
  apply List.map_congr_left
  intro e he
  simp [nmLookup_of_mem hn he]

/-- the name map is a bijection between its keys and `0 … n−1` (what `C14_bijection` proves of the
    builder's `species_map`) -/
structure NmBij (m : NameMap) (n : Nat) : Prop where
  sorted : NmSorted m
  lt : ∀ k i, nmLookup m k = some i → i < n
  inj : ∀ k k' i, nmLookup m k = some i → nmLookup m k' = some i → k = k'
  surj : ∀ i, i < n → ∃ k, nmLookup m k = some i

/-- index in `m₁` ↦ name ↦ index in `m₂` (identity on indices `m₁` does not use) -/
def nameSigma (m₁ m₂ : NameMap) (i : Nat) : Nat :=
  match m₁.find? (·.2 == i) with
  | some e => (nmLookup m₂ e.1).getD 0
  | none => i

theorem nameSigma_of_lookup {m₁ m₂ : NameMap} {n : Nat} (h₁ : NmBij m₁ n) {k : String} {i : Nat}
    (hk : nmLookup m₁ k = some i) : nameSigma m₁ m₂ i = (nmLookup m₂ k).getD 0 := by
  unfold nameSigma
  cases h : m₁.find? (·.2 == i) with
  | none =>
    have := List.find?_eq_none.mp h (k, i) (nmLookup_eq_some_mem hk)
    simp at this
  | some e =>
    have he : e ∈ m₁ := List.mem_of_find?_eq_some h
    have hp : e.2 = i := by simpa using List.find?_some h
    have hl : nmLookup m₁ e.1 = some i := by rw [← hp]; exact nmLookup_of_mem h₁.sorted.nodup_keys he
    show (nmLookup m₂ e.1).getD 0 = _
    rw [h₁.inj e.1 k i hl hk]

theorem nmLookup_of_mem_keys {m : NameMap} {k : String} (hk : k ∈ nmKeys m) :
    ∃ i, nmLookup m k = some i :=
  Option.isSome_iff_exists.mp ((nmLookup_isSome_iff m k).mpr hk)

/-- **two bijective name maps with the same keys differ by a permutation of the indices** -/
theorem nameSigma_spec {m₁ m₂ : NameMap} {n : Nat} (h₁ : NmBij m₁ n) (h₂ : NmBij m₂ n)
    (hp : (nmKeys m₁).Perm (nmKeys m₂)) :
    (∀ i, i < n → ∀ j, j < n → nameSigma m₁ m₂ i = nameSigma m₁ m₂ j → i = j) ∧
    (∀ i, i < n → nameSigma m₁ m₂ i < n) ∧
    m₂ = relabel (nameSigma m₁ m₂) m₁ := by
  have hkeys := nmKeys_eq_of_sorted_perm h₁.sorted h₂.sorted hp
  have hmem : ∀ k, k ∈ nmKeys m₁ → ∃ i₂, nmLookup m₂ k = some i₂ := fun k hk =>
    nmLookup_of_mem_keys (hkeys ▸ hk)
  have hkey_of : ∀ {k i}, nmLookup m₁ k = some i → k ∈ nmKeys m₁ := fun {k i} h =>
    (nmLookup_isSome_iff m₁ k).mp (by simp [h])
  refine ⟨?_, ?_, ?_⟩
  · intro i hi j hj hij
    obtain ⟨k, hk⟩ := h₁.surj i hi
    obtain ⟨k', hk'⟩ := h₁.surj j hj
    obtain ⟨a, ha⟩ := hmem k (hkey_of hk)
    obtain ⟨b, hb⟩ := hmem k' (hkey_of hk')
    rw [nameSigma_of_lookup h₁ hk, nameSigma_of_lookup h₁ hk', ha, hb] at hij
    simp only [Option.getD_some] at hij
    subst hij
    have := h₂.inj k k' a ha hb
    subst this
    rw [hk] at hk'
    exact Option.some.inj hk'
  · intro i hi
    obtain ⟨k, hk⟩ := h₁.surj i hi
    obtain ⟨a, ha⟩ := hmem k (hkey_of hk)
    rw [nameSigma_of_lookup h₁ hk, ha]
    exact h₂.lt k a ha
  · conv_lhs => rw [nm_eq_map_keys h₂.sorted.nodup_keys, ← hkeys]
    unfold relabel nmKeys
    rw [List.map_map]
    apply List.map_congr_left
    intro e he
    have hl := nmLookup_of_mem h₁.sorted.nodup_keys he
    simp only [Function.comp_apply]
    rw [nameSigma_of_lookup h₁ hl]

section
variable {K : Type}

/-- the hypotheses of C02 on the mechanism follow from the bijection property of the name map -/
theorem Mechanism.of_bij {procs : List (Process K)} {m : NameMap} {t : PSTables K} {n : Nat}
    (hb : ProcessSet.build procs m = .ok t) (h : NmBij m n)
    (hparam : ∀ p ∈ procs, ∀ r ∈ p.reactants, r.param = true → r.name ∉ nmKeys m) :
    Mechanism procs m t n where
  built := hb
  names := h.sorted.nodup_keys
  ids := by
    have hn := h.sorted.nodup_keys
    have hm : m.Nodup := List.Nodup.of_map _ hn
    refine List.Nodup.map_on (fun e he e' he' hee => ?_) hm
    have h1 := nmLookup_of_mem hn he
    have h2 := nmLookup_of_mem hn he'
    rw [← hee] at h2
    exact Prod.ext (h.inj e.1 e'.1 e.2 h1 h2) hee
  param := fun p hp r hr hpar => (nmLookup_eq_none_iff m r.name).mpr (hparam p hp r hr hpar)
  range := fun e he => h.lt e.1 e.2 (nmLookup_of_mem h.sorted.nodup_keys he)

end

/-- two per-species vectors, indexed through two name maps, hold the same value for every name -/
def ByName {K : Type} [OfNat K 0] (m₁ m₂ : NameMap) (x₁ x₂ : Array K) : Prop :=
  ∀ name i₁ i₂, nmLookup m₁ name = some i₁ → nmLookup m₂ name = some i₂ → rd x₂ i₂ = rd x₁ i₁

/-- "by name" through `m₁` and `relabel σ m₁` is "up to `σ`" on the indices `m₁` uses -/
theorem byName_relabel_iff {K : Type} [OfNat K 0] {m₁ : NameMap} {n : Nat} (h₁ : NmBij m₁ n)
    (σ : Nat → Nat) (x₁ x₂ : Array K) :
    ByName m₁ (relabel σ m₁) x₁ x₂ ↔ ∀ v, v < n → rd x₂ (σ v) = rd x₁ v := by
  constructor
  · intro h v hv
    obtain ⟨k, hk⟩ := h₁.surj v hv
    exact h k v (σ v) hk (by rw [nmLookup_relabel, hk]; rfl)
  · intro h name i₁ i₂ hl₁ hl₂
    rw [nmLookup_relabel, hl₁] at hl₂
    have : σ i₁ = i₂ := Option.some.inj hl₂
    rw [← this]
    exact h i₁ (h₁.lt name i₁ hl₁)

end Micm
