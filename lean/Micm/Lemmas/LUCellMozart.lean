import Micm.Lemmas.LUCell

/-!
C03, Mozart (right-looking) variants.  Invariant after stage `i`: the rows `< i` of `U` and the
columns `< i` of `L` are final (equal to the dense Doolittle factors), and every working entry
`(r,c)` with `min r c ≥ i` holds the Schur complement `A r c − Σ_{m<i} L r m · U m c`.
-/
open Finset
namespace Micm
open DenseLU (LU)
open SparseLU (Closed Rel)
variable {K : Type} [Field K]

/-! ### a fold of *blocks* of writes -/

omit [Field K] in
/-- like `phase_generic`, but step `k` rewrites the whole block of locations `slot k j`, `Q k j`,
    of an abstract state read through `get` (one array, or a pair of arrays) -/
theorem phase_blocks_gen {σ ι β : Type} (get : σ → ι → K) (ok : σ → Prop) (a len : Nat)
    (f : Nat → Option β) (step : σ → β → σ) (S0 : σ) (hok : ok S0)
    (slot : Nat → Nat → ι) (Q : Nat → Nat → Prop) (newv : Nat → Nat → K)
    (hdisj : ∀ k k' j j', a ≤ k → k < a + len → a ≤ k' → k' < a + len → Q k j → Q k' j' →
      slot k j = slot k' j' → k = k')
    (hstep : ∀ S k e, a ≤ k → k < a + len → f k = some e → ok S →
      (∀ x, (∀ k' j', a ≤ k' → k' < a + len → Q k' j' → x ≠ slot k' j') → get S x = get S0 x) →
      (∀ j, Q k j → get S (slot k j) = get S0 (slot k j)) →
      ok (step S e) ∧ (∀ j, Q k j → get (step S e) (slot k j) = newv k j) ∧
      (∀ x, (∀ j, Q k j → x ≠ slot k j) → get (step S e) x = get S x))
    (m : Nat) (hm : m ≤ len) :
    ok (((List.range' a m).filterMap f).foldl step S0) ∧
    (∀ x, (∀ k j, a ≤ k → k < a + m → Q k j → x ≠ slot k j) →
      get (((List.range' a m).filterMap f).foldl step S0) x = get S0 x) ∧
    (∀ k e j, a ≤ k → k < a + m → f k = some e → Q k j →
      get (((List.range' a m).filterMap f).foldl step S0) (slot k j) = newv k j) := by
  induction m with
  | zero => exact ⟨hok, fun _ _ => rfl, by intro k e j h1 h2; omega⟩
  | succ m ih =>
    obtain ⟨g1, g2, g3⟩ := ih (by omega)
    rw [List.range'_concat, List.filterMap_append, List.foldl_append, Nat.one_mul]
    generalize ((List.range' a m).filterMap f).foldl step S0 = M at g1 g2 g3
    cases hfk : f (a + m) with
    | none =>
      simp only [List.filterMap_cons, hfk, List.filterMap_nil, List.foldl_nil]
      refine ⟨g1, ?_, ?_⟩
      · intro x hx
        exact g2 x (fun k j h1 h2 hq => hx k j h1 (by omega) hq)
      · intro k e j h1 h2 he hq
        have : k ≠ a + m := by intro h; subst h; rw [hfk] at he; cases he
        exact g3 k e j h1 (by omega) he hq
    | some e =>
      simp only [List.filterMap_cons, hfk, List.filterMap_nil, List.foldl_cons, List.foldl_nil]
      obtain ⟨s1, s2, s3⟩ := hstep M (a + m) e (by omega) (by omega) hfk g1
        (fun x hx => g2 x (fun k j h1 h2 hq => hx k j h1 (by omega) hq))
        (fun j hq => g2 _ (fun k j' h1 h2 hq' heq => by
          have := hdisj _ _ _ _ (by omega) (by omega) h1 (by omega) hq hq' heq
          omega))
      refine ⟨s1, ?_, ?_⟩
      · intro x hx
        rw [s3 x (fun j hq => hx (a + m) j (by omega) (by omega) hq)]
        exact g2 x (fun k j h1 h2 hq => hx k j h1 (by omega) hq)
      · intro k e' j h1 h2 he' hq
        by_cases hk : k = a + m
        · subst hk
          exact s2 j hq
        · rw [s3 _ (fun j' hq' heq => by
            have := hdisj _ _ _ _ h1 (by omega) (by omega) (by omega) hq hq' heq
            omega)]
          exact g3 k e' j h1 (by omega) he' hq

/-- single-array instance -/
theorem phase_blocks_aux {β : Type} (a len : Nat) (f : Nat → Option β)
    (step : Array K → β → Array K) (M0 : Array K) (slot : Nat → Nat → Nat) (Q : Nat → Nat → Prop)
    (newv : Nat → Nat → K)
    (hdisj : ∀ k k' j j', a ≤ k → k < a + len → a ≤ k' → k' < a + len → Q k j → Q k' j' →
      slot k j = slot k' j' → k = k')
    (hstep : ∀ M k e, a ≤ k → k < a + len → f k = some e → M.size = M0.size →
      (∀ x, (∀ k' j', a ≤ k' → k' < a + len → Q k' j' → x ≠ slot k' j') → rd M x = rd M0 x) →
      (∀ j, Q k j → rd M (slot k j) = rd M0 (slot k j)) →
      (step M e).size = M.size ∧ (∀ j, Q k j → rd (step M e) (slot k j) = newv k j) ∧
      (∀ x, (∀ j, Q k j → x ≠ slot k j) → rd (step M e) x = rd M x))
    (m : Nat) (hm : m ≤ len) :
    (((List.range' a m).filterMap f).foldl step M0).size = M0.size ∧
    (∀ x, (∀ k j, a ≤ k → k < a + m → Q k j → x ≠ slot k j) →
      rd (((List.range' a m).filterMap f).foldl step M0) x = rd M0 x) ∧
    (∀ k e j, a ≤ k → k < a + m → f k = some e → Q k j →
      rd (((List.range' a m).filterMap f).foldl step M0) (slot k j) = newv k j) :=
  phase_blocks_gen (fun M x => rd M x) (fun M => M.size = M0.size) a len f step M0 rfl slot Q newv
    hdisj (fun M k e h1 h2 he hM hx hown => by
      obtain ⟨s1, s2, s3⟩ := hstep M k e h1 h2 he hM hx hown
      exact ⟨by rw [s1, hM], s2, s3⟩) m hm

/-! ### Schur complements of the dense factors -/

/-- `A r c − Σ_{m<i} L r m · U m c` -/
def schur (Am : Nat → Nat → K) (d : LU K) (i r c : Nat) : K :=
  Am r c - ∑ m ∈ range i, d.L r m * d.U m c

theorem schur_zero (Am : Nat → Nat → K) (d : LU K) (r c : Nat) : schur Am d 0 r c = Am r c := by
  simp [schur]

theorem schur_succ (Am : Nat → Nat → K) (d : LU K) (i r c : Nat) :
    schur Am d (i + 1) r c = schur Am d i r c - d.L r i * d.U i c := by
  simp only [schur, Finset.sum_range_succ]; ring

theorem lu_U_schur (Am : Nat → Nat → K) (n i c : Nat) (hi : i < n) (hic : i ≤ c) :
    (DenseLU.lu Am n).U i c = schur Am (DenseLU.lu Am n) i i c :=
  DenseLU.lu_U_eq Am n i c hi hic

theorem lu_L_schur (Am : Nat → Nat → K) (n i r : Nat) (hi : i < n) (hir : i < r) :
    (DenseLU.lu Am n).L r i
      = schur Am (DenseLU.lu Am n) i r i * (1 / schur Am (DenseLU.lu Am n) i i i) := by
  rw [DenseLU.lu_L_eq Am n i r hi hir, ← lu_U_schur Am n i i hi (le_refl i)]
  unfold schur
  rw [mul_one_div]

/-! ### Mozart in place -/

def miPairs (P : Pattern) (n i k : Nat) : List (Nat × Nat) :=
  (rangeFrom (i + 1) n).filterMap fun j => if P.zero? j i then none else some (P.rk j k, P.rk j i)

def miAji (P : Pattern) (i j : Nat) : Option Nat := if P.zero? j i then none else some (P.rk j i)

def miK (P : Pattern) (n i k : Nat) : Option MIK :=
  if P.zero? i k then none else some ⟨P.rk i k, miPairs P n i k⟩

def miRow (P : Pattern) (n i : Nat) : MIRow :=
  { aii := P.rk i i, aji := (rangeFrom (i + 1) n).filterMap (miAji P i),
    ks := (rangeFrom (i + 1) n).filterMap (miK P n i) }

theorem mozartInPlaceRows_eq (P : Pattern) :
    mozartInPlaceRows P = (List.range P.n).map (miRow P P.n) := rfl

def miStepK (M : Array K) (k : MIK) : Array K :=
  let aik := rd M k.aik
  k.pairs.foldl (fun M p => wr M p.1 (rd M p.1 - rd M p.2 * aik)) M

def miStep (M : Array K) (r : MIRow) : Array K :=
  let inv : K := 1 / rd M r.aii
  let M := r.aji.foldl (fun M i => wr M i (rd M i * inv)) M
  r.ks.foldl miStepK M

theorem mozartInPlaceCell_eq (rows : List MIRow) (M : Array K) :
    mozartInPlaceCell rows M = rows.foldl miStep M := rfl

section mip
variable {n : Nat} {P : Pattern}

/-- phase 1 of stage `i`: scale the present sub-diagonal entries of column `i` by `inv` -/
theorem miPhase1 (g : GoodPattern n P) (M : Array K) (inv : K) (i : Nat) (hi : i < n)
    (hMs : M.size = P.nnz) :
    (((rangeFrom (i + 1) n).filterMap (miAji P i)).foldl
        (fun M t => wr M t (rd M t * inv)) M).size = P.nnz ∧
    (∀ j, i < j → j < n → P.zero? j i = false →
      rd (((rangeFrom (i + 1) n).filterMap (miAji P i)).foldl
        (fun M t => wr M t (rd M t * inv)) M) (P.rk j i) = rd M (P.rk j i) * inv) ∧
    (∀ r c, r < n → c < n → P.zero? r c = false → ¬ (c = i ∧ i < r) →
      rd (((rangeFrom (i + 1) n).filterMap (miAji P i)).foldl
        (fun M t => wr M t (rd M t * inv)) M) (P.rk r c) = rd M (P.rk r c)) := by
  have hsome : ∀ j t, miAji P i j = some t → P.zero? j i = false ∧ t = P.rk j i := by
    intro j t ht
    unfold miAji at ht
    cases hz : P.zero? j i <;> simp [hz] at ht
    exact ⟨rfl, ht.symm⟩
  obtain ⟨g1, g2, g3⟩ := phase_generic (i + 1) (n - (i + 1)) (miAji P i)
    (fun t => rd M t * inv) (fun M t => wr M t (rd M t * inv)) M (fun j => P.rk j i)
    (fun j => P.zero? j i = false)
    (fun j t h1 h2 ht => (hsome j t ht).1)
    (fun j j' h1 h2 h1' h2' hp hp' heq =>
      (g.rk_inj j i j' i (by omega) hi (by omega) hi hp hp' heq).1)
    (fun j h1 h2 hp => by rw [hMs]; exact g.rk_lt j i (by omega) hi hp)
    (by
      intro M' j t h1 h2 ht hMs' hM hown
      obtain ⟨_, rfl⟩ := hsome j t ht
      show wr M' (P.rk j i) (rd M' (P.rk j i) * inv) = _
      rw [hown])
  unfold rangeFrom
  refine ⟨by rw [g1, hMs], ?_, ?_⟩
  · intro j h1 h2 hp
    have : miAji P i j = some (P.rk j i) := by simp [miAji, hp]
    exact g3 j _ (by omega) (by omega) this
  · intro r c hr hc hp hnot
    apply g2
    intro j h1 h2 hpj heq
    have := g.rk_inj r c j i hr hc (by omega) hi hp hpj heq
    omega

/-- inner loop of phase 2 for a fixed column `k > i`: `M(j,k) -= M(j,i)·aik` for every present
    `(j,i)`, `j > i` -/
theorem miInner (h : IPSetup n P) (M : Array K) (aik : K) (i k : Nat) (hi : i < n) (hik : i < k)
    (hk : k < n) (hpk : P.zero? i k = false) (hMs : M.size = P.nnz) :
    ((miPairs P n i k).foldl (fun M p => wr M p.1 (rd M p.1 - rd M p.2 * aik)) M).size = M.size ∧
    (∀ j, i < j → j < n → P.zero? j i = false →
      rd ((miPairs P n i k).foldl (fun M p => wr M p.1 (rd M p.1 - rd M p.2 * aik)) M) (P.rk j k)
        = rd M (P.rk j k) - rd M (P.rk j i) * aik) ∧
    (∀ x, (∀ j, i < j → j < n → P.zero? j i = false → x ≠ P.rk j k) →
      rd ((miPairs P n i k).foldl (fun M p => wr M p.1 (rd M p.1 - rd M p.2 * aik)) M) x
        = rd M x) := by
  have hjk : ∀ j, i < j → j < n → P.zero? j i = false → P.zero? j k = false :=
    fun j h1 h2 hp => h.fill j k i h2 hk h1 hik hp hpk
  have hsome : ∀ j p, (if P.zero? j i then none else some (P.rk j k, P.rk j i)) = some p →
      P.zero? j i = false ∧ p = (P.rk j k, P.rk j i) := by
    intro j p hp
    cases hz : P.zero? j i <;> simp [hz] at hp
    exact ⟨rfl, hp.symm⟩
  obtain ⟨g1, g2, g3⟩ := phase_generic (i + 1) (n - (i + 1))
    (fun j => if P.zero? j i then none else some (P.rk j k, P.rk j i))
    (fun p => rd M p.1 - rd M p.2 * aik)
    (fun M p => wr M p.1 (rd M p.1 - rd M p.2 * aik)) M (fun j => P.rk j k)
    (fun j => P.zero? j i = false)
    (fun j p h1 h2 hp => (hsome j p hp).1)
    (fun j j' h1 h2 h1' h2' hp hp' heq =>
      (h.g.rk_inj j k j' k (by omega) hk (by omega) hk (hjk j (by omega) (by omega) hp)
        (hjk j' (by omega) (by omega) hp') heq).1)
    (fun j h1 h2 hp => by
      rw [hMs]; exact h.g.rk_lt j k (by omega) hk (hjk j (by omega) (by omega) hp))
    (by
      intro M' j p h1 h2 hp hMs' hM hown
      obtain ⟨hpj, rfl⟩ := hsome j p hp
      show wr M' (P.rk j k) (rd M' (P.rk j k) - rd M' (P.rk j i) * aik) = _
      rw [hown, hM (P.rk j i) (by
        intro j' h1' h2' hp' heq
        have := h.g.rk_inj j i j' k (by omega) hi (by omega) hk hpj
          (hjk j' (by omega) (by omega) hp') heq
        omega)])
  unfold miPairs rangeFrom
  refine ⟨g1, ?_, ?_⟩
  · intro j h1 h2 hp
    exact g3 j (P.rk j k, P.rk j i) (by omega) (by omega) (by simp [hp])
  · intro x hx
    exact g2 x (fun j h1 h2 hp => hx j (by omega) (by omega) hp)

/-- phase 2 of stage `i`: the rank-one update of the trailing block -/
theorem miPhase2 (h : IPSetup n P) (M : Array K) (i : Nat) (hi : i < n) (hMs : M.size = P.nnz) :
    (((rangeFrom (i + 1) n).filterMap (miK P n i)).foldl miStepK M).size = P.nnz ∧
    (∀ j k, i < j → j < n → i < k → k < n → P.zero? j i = false → P.zero? i k = false →
      rd (((rangeFrom (i + 1) n).filterMap (miK P n i)).foldl miStepK M) (P.rk j k)
        = rd M (P.rk j k) - rd M (P.rk j i) * rd M (P.rk i k)) ∧
    (∀ r c, r < n → c < n → P.zero? r c = false →
      ¬ (i < r ∧ i < c ∧ P.zero? r i = false ∧ P.zero? i c = false) →
      rd (((rangeFrom (i + 1) n).filterMap (miK P n i)).foldl miStepK M) (P.rk r c)
        = rd M (P.rk r c)) := by
  have hjk : ∀ j k, i < j → j < n → i < k → k < n → P.zero? j i = false → P.zero? i k = false →
      P.zero? j k = false :=
    fun j k h1 h2 h3 h4 hp hq => h.fill j k i h2 h4 h1 h3 hp hq
  have hsome : ∀ k e, miK P n i k = some e → P.zero? i k = false ∧ e = ⟨P.rk i k, miPairs P n i k⟩ := by
    intro k e he
    unfold miK at he
    cases hz : P.zero? i k <;> simp [hz] at he
    exact ⟨rfl, he.symm⟩
  obtain ⟨g1, g2, g3⟩ := phase_blocks_aux (i + 1) (n - (i + 1)) (miK P n i) miStepK M
    (fun k j => P.rk j k)
    (fun k j => i < j ∧ j < n ∧ P.zero? j i = false ∧ P.zero? i k = false)
    (fun k j => rd M (P.rk j k) - rd M (P.rk j i) * rd M (P.rk i k))
    (by
      intro k k' j j' h1 h2 h1' h2' hq hq' heq
      exact (h.g.rk_inj j k j' k' (by omega) (by omega) (by omega) (by omega)
        (hjk j k hq.1 hq.2.1 (by omega) (by omega) hq.2.2.1 hq.2.2.2)
        (hjk j' k' hq'.1 hq'.2.1 (by omega) (by omega) hq'.2.2.1 hq'.2.2.2) heq).2)
    (by
      intro M' k e h1 h2 he hMs' hM hown
      obtain ⟨hpk, rfl⟩ := hsome k e he
      have haik : rd M' (P.rk i k) = rd M (P.rk i k) := by
        apply hM
        intro k' j' h1' h2' hq heq
        have := h.g.rk_inj i k j' k' hi (by omega) (by omega) (by omega) hpk
          (hjk j' k' hq.1 hq.2.1 (by omega) (by omega) hq.2.2.1 hq.2.2.2) heq
        omega
      obtain ⟨i1, i2, i3⟩ := miInner h M' (rd M' (P.rk i k)) i k hi (by omega) (by omega) hpk
        (by rw [hMs', hMs])
      refine ⟨i1, ?_, ?_⟩
      · intro j hq
        show rd ((miPairs P n i k).foldl _ M') (P.rk j k) = _
        rw [i2 j hq.1 hq.2.1 hq.2.2.1, hown j hq, haik]
        congr 2
        apply hM
        intro k' j' h1' h2' hq' heq
        have := h.g.rk_inj j i j' k' (by omega) hi (by omega) (by omega) hq.2.2.1
          (hjk j' k' hq'.1 hq'.2.1 (by omega) (by omega) hq'.2.2.1 hq'.2.2.2) heq
        omega
      · intro x hx
        exact i3 x (fun j h1 h2 hp => hx j ⟨h1, h2, hp, hpk⟩))
    (n - (i + 1)) (le_refl _)
  unfold rangeFrom
  refine ⟨by rw [g1, hMs], ?_, ?_⟩
  · intro j k h1 h2 h3 h4 hp hq
    have : miK P n i k = some ⟨P.rk i k, miPairs P n i k⟩ := by simp [miK, hq]
    exact g3 k _ j (by omega) (by omega) this ⟨h1, h2, hp, hq⟩
  · intro r c hr hc hp hnot
    apply g2
    intro k j h1 h2 hq heq
    have := h.g.rk_inj r c j k hr hc (by omega) (by omega) hp
      (hjk j k hq.1 hq.2.1 (by omega) (by omega) hq.2.2.1 hq.2.2.2) heq
    apply hnot
    obtain ⟨rfl, rfl⟩ := this
    exact ⟨hq.1, by omega, hq.2.2.1, hq.2.2.2⟩

end mip

/-- the dense factors vanish off a fill-closed in-place pattern -/
theorem ip_dense_off {n : Nat} {P : Pattern} (h : IPSetup n P) (Am : Nat → Nat → K)
    (hA : ∀ r c, pres P r c = false → Am r c = 0) :
    (∀ r c, r < n → c < n → P.zero? r c = true → r ≤ c → (DenseLU.lu Am n).U r c = 0) ∧
    (∀ r c, r < n → c < n → P.zero? r c = true → c < r → (DenseLU.lu Am n).L r c = 0) := by
  have hrel := SparseLU.rel_slu n Am (pres P) (lowB P) (uppB P) h.closed hA DenseLU.init n
    (le_refl n)
  constructor
  · intro r c hr hc hp hrc
    exact hrel.U_off r c hr hrc hc (by rw [uppB_eq _ _ _ hrc]; exact (pres_false _ _ _).mpr hp)
  · intro r c hr hc hp hcr
    exact hrel.L_off r c hc hcr hr (by rw [lowB_eq _ _ _ hcr]; exact (pres_false _ _ _).mpr hp)

/-- right-looking invariant after `i` stages -/
structure MozInv (n : Nat) (P : Pattern) (Am : Nat → Nat → K) (d : LU K) (i : Nat)
    (M : Array K) : Prop where
  U_eq : ∀ r c, r < n → c < n → P.zero? r c = false → r ≤ c → r < i → rd M (P.rk r c) = d.U r c
  L_eq : ∀ r c, r < n → c < n → P.zero? r c = false → c < r → c < i → rd M (P.rk r c) = d.L r c
  rest : ∀ r c, r < n → c < n → P.zero? r c = false → i ≤ r → i ≤ c →
    rd M (P.rk r c) = schur Am d i r c

section mipRows
variable {n : Nat} {P : Pattern}

theorem miStep_inv (h : IPSetup n P) (Am : Nat → Nat → K)
    (hA : ∀ r c, pres P r c = false → Am r c = 0) (M : Array K) (i : Nat) (hi : i < n)
    (hMs : M.size = P.nnz) (hinv : MozInv n P Am (DenseLU.lu Am n) i M) :
    (miStep M (miRow P n i)).size = P.nnz ∧
    MozInv n P Am (DenseLU.lu Am n) (i + 1) (miStep M (miRow P n i)) := by
  obtain ⟨offU, offL⟩ := ip_dense_off h Am hA
  simp only [miStep, miRow]
  obtain ⟨p1, p2, p3⟩ := miPhase1 h.g M (1 / rd M (P.rk i i)) i hi hMs
  generalize ((rangeFrom (i + 1) n).filterMap (miAji P i)).foldl
    (fun M' t => wr M' t (rd M' t * (1 / rd M (P.rk i i)))) M = M1 at p1 p2 p3
  obtain ⟨q1, q2, q3⟩ := miPhase2 h M1 i hi p1
  generalize ((rangeFrom (i + 1) n).filterMap (miK P n i)).foldl miStepK M1 = M2 at q1 q2 q3
  have hii := h.diag i hi
  -- column i of L as held by M1
  have hLi : ∀ r, i < r → r < n → P.zero? r i = false →
      rd M1 (P.rk r i) = (DenseLU.lu Am n).L r i := by
    intro r hir hr hp
    rw [p2 r hir hr hp, hinv.rest r i hr hi hp (by omega) (le_refl i),
      hinv.rest i i hi hi hii (le_refl i) (le_refl i), lu_L_schur Am n i r hi hir]
  -- row i of U as held by M1
  have hUi : ∀ c, i ≤ c → c < n → P.zero? i c = false →
      rd M1 (P.rk i c) = (DenseLU.lu Am n).U i c := by
    intro c hic hc hp
    rw [p3 i c hi hc hp (by omega), hinv.rest i c hi hc hp (le_refl i) hic,
      lu_U_schur Am n i c hi hic]
  refine ⟨q1, ⟨?_, ?_, ?_⟩⟩
  · intro r c hr hc hp hrc hri
    rw [q3 r c hr hc hp (by omega)]
    by_cases hr' : r = i
    · subst hr'; exact hUi c hrc hc hp
    · rw [p3 r c hr hc hp (by omega)]
      exact hinv.U_eq r c hr hc hp hrc (by omega)
  · intro r c hr hc hp hcr hci
    rw [q3 r c hr hc hp (by omega)]
    by_cases hc' : c = i
    · subst hc'; exact hLi r hcr hr hp
    · rw [p3 r c hr hc hp (by omega)]
      exact hinv.L_eq r c hr hc hp hcr (by omega)
  · intro r c hr hc hp hir hic
    rw [schur_succ]
    by_cases ht : P.zero? r i = false ∧ P.zero? i c = false
    · rw [q2 r c (by omega) hr (by omega) hc ht.1 ht.2, hLi r (by omega) hr ht.1,
        hUi c (by omega) hc ht.2, p3 r c hr hc hp (by omega),
        hinv.rest r c hr hc hp (by omega) (by omega)]
    · rw [q3 r c hr hc hp (fun hh => ht ⟨hh.2.2.1, hh.2.2.2⟩), p3 r c hr hc hp (by omega),
        hinv.rest r c hr hc hp (by omega) (by omega)]
      have hz : (DenseLU.lu Am n).L r i * (DenseLU.lu Am n).U i c = 0 := by
        cases h1 : P.zero? r i
        · cases h2 : P.zero? i c
          · exact absurd ⟨h1, h2⟩ ht
          · rw [offU i c hi hc h2 (by omega)]; ring
        · rw [offL r i hr hi h1 (by omega)]; ring
      rw [hz]; ring

theorem miRows_inv (h : IPSetup n P) (m0 : Array K) (hMs : m0.size = P.nnz) (m : Nat)
    (hm : m ≤ n) :
    (((List.range m).map (miRow P n)).foldl miStep m0).size = P.nnz ∧
    MozInv n P (view P m0) (DenseLU.lu (view P m0) n) m
      (((List.range m).map (miRow P n)).foldl miStep m0) := by
  induction m with
  | zero =>
    refine ⟨hMs, ⟨by intros; omega, by intros; omega, ?_⟩⟩
    intro r c _ _ hp _ _
    rw [schur_zero, view_present _ _ _ _ hp]
    rfl
  | succ m ih =>
    obtain ⟨g1, g2⟩ := ih (by omega)
    rw [List.range_succ, List.map_append, List.foldl_append]
    simp only [List.map_cons, List.map_nil, List.foldl_cons, List.foldl_nil]
    exact miStep_inv h (view P m0)
      (fun r c hp => view_absent _ _ _ _ ((pres_false _ _ _).mp hp)) _ m (by omega) g1 g2

/-- C03 core for `mozartInPlaceCell` -/
theorem mozartInPlaceCell_view (h : IPSetup n P) (hn : P.n = n) (m0 : Array K)
    (hMs : m0.size = P.nnz) (r c : Nat) (hr : r < n) (hc : c < n) :
    view P (mozartInPlaceCell (mozartInPlaceRows P) m0) r c
      = if c < r then (DenseLU.lu (view P m0) n).L r c else (DenseLU.lu (view P m0) n).U r c := by
  rw [mozartInPlaceCell_eq, mozartInPlaceRows_eq, hn]
  obtain ⟨_, hinv⟩ := miRows_inv h m0 hMs n (le_refl n)
  obtain ⟨offU, offL⟩ := ip_dense_off h (view P m0)
    (fun r c hp => view_absent _ _ _ _ ((pres_false _ _ _).mp hp))
  generalize ((List.range n).map (miRow P n)).foldl miStep m0 = M at hinv
  cases hp : P.zero? r c
  · rw [view_present _ _ _ _ hp]
    split
    · next hcr => exact hinv.L_eq r c hr hc hp hcr hc
    · next hcr => exact hinv.U_eq r c hr hc hp (by omega) hr
  · rw [view_absent _ _ _ _ hp]
    split
    · next hcr => exact (offL r c hr hc hp hcr).symm
    · next hcr => exact (offU r c hr hc hp (by omega)).symm

end mipRows

/-! ### Mozart with separate `L`, `U`: initialisation -/

/-- a list of constant writes -/
def applyWrites (ws : List (Nat × K)) (M : Array K) : Array K :=
  ws.foldl (fun M w => wr M w.1 w.2) M

theorem applyWrites_spec (ws : List (Nat × K)) (M : Array K) :
    (applyWrites ws M).size = M.size ∧
    (∀ x, (∀ w ∈ ws, w.1 ≠ x) → rd (applyWrites ws M) x = rd M x) ∧
    (∀ x v, x < M.size → (∃ w ∈ ws, w.1 = x) → (∀ w ∈ ws, w.1 = x → w.2 = v) →
      rd (applyWrites ws M) x = v) := by
  induction ws generalizing M with
  | nil => exact ⟨rfl, fun _ _ => rfl, by intro x v _ ⟨w, hw, _⟩; cases hw⟩
  | cons w ws ih =>
    obtain ⟨g1, g2, g3⟩ := ih (wr M w.1 w.2)
    have e : applyWrites (w :: ws) M = applyWrites ws (wr M w.1 w.2) := rfl
    rw [e]
    refine ⟨by rw [g1, wr_size], ?_, ?_⟩
    · intro x hx
      rw [g2 x (fun w' hw' => hx w' (List.mem_cons_of_mem _ hw')),
        rd_wr_ne _ _ _ _ (hx w List.mem_cons_self)]
    · intro x v hlt hex hall
      by_cases hlater : ∃ w' ∈ ws, w'.1 = x
      · exact g3 x v (by rw [wr_size]; exact hlt) hlater
          (fun w' hw' => hall w' (List.mem_cons_of_mem _ hw'))
      · have hnot : ∀ w' ∈ ws, w'.1 ≠ x := fun w' hw' heq => hlater ⟨w', hw', heq⟩
        obtain ⟨w0, hw0, hx0⟩ := hex
        rcases List.mem_cons.mp hw0 with h | h
        · subst h
          rw [g2 x hnot, ← hx0, rd_wr_same _ _ _ (by rw [hx0]; exact hlt)]
          exact hall w0 List.mem_cons_self hx0
        · exact absurd hx0 (hnot w0 h)

theorem foldl_pair {α β γ : Type} (fL : α → γ → α) (fU : β → γ → β) (l : List γ) (L : α) (U : β) :
    l.foldl (fun (LU : α × β) r => (fL LU.1 r, fU LU.2 r)) (L, U) = (l.foldl fL L, l.foldl fU U) := by
  induction l generalizing L U with
  | nil => rfl
  | cons r l ih => simp only [List.foldl_cons, ih]

def mzInit (A Lp Up : Pattern) (n i : Nat) : MInit :=
  { lii := Lp.rk i i
    ujiAji := (List.range (i + 1)).filterMap fun j =>
      if A.zero? j i then none else some (Up.rk j i, A.rk j i)
    fillU := (List.range (i + 1)).filterMap fun j =>
      if A.zero? j i && !Up.zero? j i then some (Up.rk j i) else none
    ljiAji := (rangeFrom (i + 1) n).filterMap fun j =>
      if A.zero? j i then none else some (Lp.rk j i, A.rk j i)
    fillL := (rangeFrom (i + 1) n).filterMap fun j =>
      if A.zero? j i && !Lp.zero? j i then some (Lp.rk j i) else none }

theorem mozartInit_eq (A Lp Up : Pattern) :
    mozartInit A Lp Up = (List.range A.n).map (mzInit A Lp Up A.n) := rfl

/-- the writes performed on `U` by the initialisation part of `mozartCell` -/
def mzWritesU (a : Array K) (ini : List MInit) : List (Nat × K) :=
  (ini.flatMap fun r => r.ujiAji.map fun p => (p.1, rd a p.2)) ++
  (ini.flatMap fun r => r.fillU.map fun t => (t, (0 : K)))

/-- the writes performed on `L` by the initialisation part of `mozartCell` -/
def mzWritesL (a : Array K) (ini : List MInit) : List (Nat × K) :=
  (ini.flatMap fun r => (r.lii, (1 : K)) :: r.ljiAji.map fun p => (p.1, rd a p.2)) ++
  (ini.flatMap fun r => r.fillL.map fun t => (t, (0 : K)))

/-- main loop step of `mozartCell` -/
def mzStepK (LU : Array K × Array K) (k : MK) : Array K × Array K :=
  let U := k.ujk.foldl (fun U p => wr U p.1 (rd U p.1 - rd LU.1 p.2 * rd U k.uik)) LU.2
  let L := k.ljk.foldl (fun L p => wr L p.1 (rd L p.1 - rd L p.2 * rd U k.uik)) LU.1
  (L, U)

def mzStep (LU : Array K × Array K) (r : MRow) : Array K × Array K :=
  let inv : K := 1 / rd LU.2 r.uii
  let L := r.lji.foldl (fun L i => wr L i (rd L i * inv)) LU.1
  r.ks.foldl mzStepK (L, LU.2)

theorem mozartCell_eq (ini : List MInit) (rows : List MRow) (a : Array K) (l0 u0 : Array K) :
    mozartCell ini rows a (l0, u0)
      = rows.foldl mzStep (applyWrites (mzWritesL a ini) l0, applyWrites (mzWritesU a ini) u0) := by
  have h1 : ini.foldl (fun (LU : Array K × Array K) r =>
      let U := r.ujiAji.foldl (fun U p => wr U p.1 (rd a p.2)) LU.2
      let L := wr LU.1 r.lii 1
      let L := r.ljiAji.foldl (fun L p => wr L p.1 (rd a p.2)) L
      (L, U)) (l0, u0)
      = (ini.foldl (fun L r => r.ljiAji.foldl (fun L p => wr L p.1 (rd a p.2)) (wr L r.lii 1)) l0,
         ini.foldl (fun U r => r.ujiAji.foldl (fun U p => wr U p.1 (rd a p.2)) U) u0) :=
    foldl_pair (fun (L : Array K) (r : MInit) =>
        r.ljiAji.foldl (fun L p => wr L p.1 (rd a p.2)) (wr L r.lii 1))
      (fun (U : Array K) (r : MInit) => r.ujiAji.foldl (fun U p => wr U p.1 (rd a p.2)) U) ini l0 u0
  unfold mozartCell
  simp only [h1, applyWrites, mzWritesL, mzWritesU, List.foldl_append, List.foldl_flatMap,
    List.foldl_map, List.foldl_cons]
  rfl

/-- hypotheses for the Mozart variant: as `LUSetup` without minimality (Mozart zero-fills every
    fill-in slot, so patterns larger than the fill closure are fine) -/
structure MozSetup (n : Nat) (A Lp Up : Pattern) : Prop where
  gL : GoodPattern n Lp
  gU : GoodPattern n Up
  closed : Closed n (pres A) (pres Lp) (pres Up)
  diagL : ∀ i, i < n → Lp.zero? i i = false
  lowL : ∀ r c, r < n → c < n → Lp.zero? r c = false → c ≤ r
  uppU : ∀ r c, r < n → c < n → Up.zero? r c = false → r ≤ c

theorem LUSetup.toMoz {n : Nat} {A Lp Up : Pattern} (h : LUSetup n A Lp Up) :
    MozSetup n A Lp Up :=
  ⟨h.gL, h.gU, h.closed, h.diagL, h.lowL, h.uppU⟩

section mzinit
variable {n : Nat} {A Lp Up : Pattern}

theorem mem_mzWritesU (h : MozSetup n A Lp Up) (a : Array K) (w : Nat × K)
    (hw : w ∈ mzWritesU a ((List.range n).map (mzInit A Lp Up n))) :
    ∃ r c, c < n ∧ r ≤ c ∧ Up.zero? r c = false ∧ w = (Up.rk r c, view A a r c) := by
  unfold mzWritesU at hw
  rw [List.mem_append] at hw
  rcases hw with hw | hw
  · rw [List.mem_flatMap] at hw
    obtain ⟨ri, hri, hw⟩ := hw
    rw [List.mem_map] at hri hw
    obtain ⟨i, hi, rfl⟩ := hri
    obtain ⟨p, hp, rfl⟩ := hw
    have hi' := List.mem_range.mp hi
    obtain ⟨j, hj, hg⟩ := mem_filterMap_range _ _ _ hp
    cases hz : A.zero? j i <;> simp [hz] at hg
    subst hg
    refine ⟨j, i, hi', by omega, ?_, ?_⟩
    · exact (pres_true _ _ _).mp (h.closed.supU j i (by omega) hi' ((pres_true _ _ _).mpr hz))
    · simp [view, hz]
  · rw [List.mem_flatMap] at hw
    obtain ⟨ri, hri, hw⟩ := hw
    rw [List.mem_map] at hri hw
    obtain ⟨i, hi, rfl⟩ := hri
    obtain ⟨t, ht, rfl⟩ := hw
    have hi' := List.mem_range.mp hi
    obtain ⟨j, hj, hg⟩ := mem_filterMap_range _ _ _ ht
    cases hz : A.zero? j i <;> cases hu : Up.zero? j i <;> simp [hz, hu] at hg
    subst hg
    exact ⟨j, i, hi', by omega, hu, by simp [view, hz]⟩

theorem mzWritesU_mem (a : Array K) (r c : Nat) (hc : c < n) (hrc : r ≤ c)
    (hp : Up.zero? r c = false) :
    ∃ w ∈ mzWritesU a ((List.range n).map (mzInit A Lp Up n)), w.1 = Up.rk r c := by
  unfold mzWritesU
  cases hz : A.zero? r c
  · refine ⟨(Up.rk r c, rd a (A.rk r c)), ?_, rfl⟩
    rw [List.mem_append]; left
    rw [List.mem_flatMap]
    refine ⟨mzInit A Lp Up n c, List.mem_map.mpr ⟨c, List.mem_range.mpr hc, rfl⟩, ?_⟩
    rw [List.mem_map]
    refine ⟨(Up.rk r c, A.rk r c), ?_, rfl⟩
    show _ ∈ (List.range (c + 1)).filterMap _
    rw [List.mem_filterMap]
    exact ⟨r, List.mem_range.mpr (by omega), by simp [hz]⟩
  · refine ⟨(Up.rk r c, 0), ?_, rfl⟩
    rw [List.mem_append]; right
    rw [List.mem_flatMap]
    refine ⟨mzInit A Lp Up n c, List.mem_map.mpr ⟨c, List.mem_range.mpr hc, rfl⟩, ?_⟩
    rw [List.mem_map]
    refine ⟨Up.rk r c, ?_, rfl⟩
    show _ ∈ (List.range (c + 1)).filterMap _
    rw [List.mem_filterMap]
    exact ⟨r, List.mem_range.mpr (by omega), by simp [hz, hp]⟩

theorem mem_mzWritesL (h : MozSetup n A Lp Up) (a : Array K) (w : Nat × K)
    (hw : w ∈ mzWritesL a ((List.range n).map (mzInit A Lp Up n))) :
    ∃ r c, r < n ∧ c ≤ r ∧ Lp.zero? r c = false ∧
      w = (Lp.rk r c, if r = c then 1 else view A a r c) := by
  unfold mzWritesL at hw
  rw [List.mem_append] at hw
  rcases hw with hw | hw
  · rw [List.mem_flatMap] at hw
    obtain ⟨ri, hri, hw⟩ := hw
    rw [List.mem_map] at hri
    obtain ⟨i, hi, rfl⟩ := hri
    have hi' := List.mem_range.mp hi
    rcases List.mem_cons.mp hw with hw | hw
    · subst hw
      exact ⟨i, i, hi', le_refl i, h.diagL i hi', by simp [mzInit]⟩
    · rw [List.mem_map] at hw
      obtain ⟨p, hp, rfl⟩ := hw
      obtain ⟨j, hj1, hj2, hg⟩ := mem_filterMap_range' _ _ _ _ hp
      have hjn : j < n := by omega
      cases hz : A.zero? j i <;> simp [hz] at hg
      subst hg
      refine ⟨j, i, hjn, by omega, ?_, ?_⟩
      · exact (pres_true _ _ _).mp (h.closed.supL j i (by omega) hjn ((pres_true _ _ _).mpr hz))
      · have : j ≠ i := by omega
        simp [view, hz, this]
  · rw [List.mem_flatMap] at hw
    obtain ⟨ri, hri, hw⟩ := hw
    rw [List.mem_map] at hri hw
    obtain ⟨i, hi, rfl⟩ := hri
    obtain ⟨t, ht, rfl⟩ := hw
    have hi' := List.mem_range.mp hi
    obtain ⟨j, hj1, hj2, hg⟩ := mem_filterMap_range' _ _ _ _ ht
    have hjn : j < n := by omega
    cases hz : A.zero? j i <;> cases hu : Lp.zero? j i <;> simp [hz, hu] at hg
    subst hg
    have : j ≠ i := by omega
    exact ⟨j, i, hjn, by omega, hu, by simp [view, hz, this]⟩

theorem mzWritesL_mem (a : Array K) (r c : Nat) (hr : r < n) (hcr : c ≤ r)
    (hp : Lp.zero? r c = false) :
    ∃ w ∈ mzWritesL a ((List.range n).map (mzInit A Lp Up n)), w.1 = Lp.rk r c := by
  unfold mzWritesL
  by_cases hd : r = c
  · subst hd
    refine ⟨(Lp.rk r r, 1), ?_, rfl⟩
    rw [List.mem_append]; left
    rw [List.mem_flatMap]
    exact ⟨mzInit A Lp Up n r, List.mem_map.mpr ⟨r, List.mem_range.mpr hr, rfl⟩,
      List.mem_cons_self⟩
  · have hlt : c < r := by omega
    cases hz : A.zero? r c
    · refine ⟨(Lp.rk r c, rd a (A.rk r c)), ?_, rfl⟩
      rw [List.mem_append]; left
      rw [List.mem_flatMap]
      refine ⟨mzInit A Lp Up n c, List.mem_map.mpr ⟨c, List.mem_range.mpr (by omega), rfl⟩, ?_⟩
      apply List.mem_cons_of_mem
      rw [List.mem_map]
      refine ⟨(Lp.rk r c, A.rk r c), ?_, rfl⟩
      show _ ∈ (rangeFrom (c + 1) n).filterMap _
      rw [List.mem_filterMap]
      exact ⟨r, (List.mem_range'_1).mpr (by omega), by simp [hz]⟩
    · refine ⟨(Lp.rk r c, 0), ?_, rfl⟩
      rw [List.mem_append]; right
      rw [List.mem_flatMap]
      refine ⟨mzInit A Lp Up n c, List.mem_map.mpr ⟨c, List.mem_range.mpr (by omega), rfl⟩, ?_⟩
      rw [List.mem_map]
      refine ⟨Lp.rk r c, ?_, rfl⟩
      show _ ∈ (rangeFrom (c + 1) n).filterMap _
      rw [List.mem_filterMap]
      exact ⟨r, (List.mem_range'_1).mpr (by omega), by simp [hz, hp]⟩

/-- state after the initialisation part of `mozartCell`: every present slot is defined -/
theorem mzInit_spec (h : MozSetup n A Lp Up) (a l0 u0 : Array K) (hLs : l0.size = Lp.nnz)
    (hUs : u0.size = Up.nnz) :
    (applyWrites (mzWritesL a ((List.range n).map (mzInit A Lp Up n))) l0).size = Lp.nnz ∧
    (applyWrites (mzWritesU a ((List.range n).map (mzInit A Lp Up n))) u0).size = Up.nnz ∧
    (∀ r c, r < n → c < n → Up.zero? r c = false →
      rd (applyWrites (mzWritesU a ((List.range n).map (mzInit A Lp Up n))) u0) (Up.rk r c)
        = view A a r c) ∧
    (∀ r c, r < n → c < n → Lp.zero? r c = false →
      rd (applyWrites (mzWritesL a ((List.range n).map (mzInit A Lp Up n))) l0) (Lp.rk r c)
        = if r = c then 1 else view A a r c) := by
  obtain ⟨l1, _, l3⟩ := applyWrites_spec (mzWritesL a ((List.range n).map (mzInit A Lp Up n))) l0
  obtain ⟨u1, _, u3⟩ := applyWrites_spec (mzWritesU a ((List.range n).map (mzInit A Lp Up n))) u0
  refine ⟨by rw [l1, hLs], by rw [u1, hUs], ?_, ?_⟩
  · intro r c hr hc hp
    apply u3 _ _ (by rw [hUs]; exact h.gU.rk_lt r c hr hc hp)
      (mzWritesU_mem a r c hc (h.uppU r c hr hc hp) hp)
    intro w hw heq
    obtain ⟨r', c', hc', hrc', hp', rfl⟩ := mem_mzWritesU h a w hw
    obtain ⟨rfl, rfl⟩ := h.gU.rk_inj r' c' r c (by omega) hc' hr hc hp' hp heq
    rfl
  · intro r c hr hc hp
    apply l3 _ _ (by rw [hLs]; exact h.gL.rk_lt r c hr hc hp)
      (mzWritesL_mem a r c hr (h.lowL r c hr hc hp) hp)
    intro w hw heq
    obtain ⟨r', c', hr', hcr', hp', rfl⟩ := mem_mzWritesL h a w hw
    obtain ⟨rfl, rfl⟩ := h.gL.rk_inj r' c' r c hr' (by omega) hr hc hp' hp heq
    rfl

end mzinit

/-! ### Mozart with separate `L`, `U`: main loop -/

def mzUjk (Lp Up : Pattern) (i k : Nat) : List (Nat × Nat) :=
  (rangeFrom (i + 1) (k + 1)).filterMap fun j =>
    if Lp.zero? j i then none else some (Up.rk j k, Lp.rk j i)

def mzLjk (Lp : Pattern) (n i k : Nat) : List (Nat × Nat) :=
  (rangeFrom (k + 1) n).filterMap fun j =>
    if Lp.zero? j i then none else some (Lp.rk j k, Lp.rk j i)

def mzK (Lp Up : Pattern) (n i k : Nat) : Option MK :=
  if Up.zero? i k then none
  else some { uik := Up.rk i k, ujk := mzUjk Lp Up i k, ljk := mzLjk Lp n i k }

def mzRow (Lp Up : Pattern) (n i : Nat) : MRow :=
  { uii := Up.rk i i, lji := (rangeFrom (i + 1) n).filterMap (miAji Lp i),
    ks := (rangeFrom (i + 1) n).filterMap (mzK Lp Up n i) }

theorem mozartRows_eq (A Lp Up : Pattern) :
    mozartRows A Lp Up = (List.range A.n).map (mzRow Lp Up A.n) := rfl

/-- inner `L` loop for a fixed column `k`: rows `lo ≤ j < n`, source column `i ≠ k` of the same
    array, constant factor `c` -/
theorem innerSame {n : Nat} {P : Pattern} (g : GoodPattern n P) (M : Array K) (c : K)
    (i k lo : Nat) (hi : i < n) (hk : k < n) (hik : i ≠ k) (hMs : M.size = P.nnz)
    (hjk : ∀ j, lo ≤ j → j < n → P.zero? j i = false → P.zero? j k = false) :
    (((rangeFrom lo n).filterMap fun j =>
        if P.zero? j i then none else some (P.rk j k, P.rk j i)).foldl
        (fun M p => wr M p.1 (rd M p.1 - rd M p.2 * c)) M).size = M.size ∧
    (∀ j, lo ≤ j → j < n → P.zero? j i = false →
      rd (((rangeFrom lo n).filterMap fun j =>
        if P.zero? j i then none else some (P.rk j k, P.rk j i)).foldl
        (fun M p => wr M p.1 (rd M p.1 - rd M p.2 * c)) M) (P.rk j k)
        = rd M (P.rk j k) - rd M (P.rk j i) * c) ∧
    (∀ x, (∀ j, lo ≤ j → j < n → P.zero? j i = false → x ≠ P.rk j k) →
      rd (((rangeFrom lo n).filterMap fun j =>
        if P.zero? j i then none else some (P.rk j k, P.rk j i)).foldl
        (fun M p => wr M p.1 (rd M p.1 - rd M p.2 * c)) M) x = rd M x) := by
  by_cases hlo : lo ≤ n
  swap
  · have : rangeFrom lo n = [] := by unfold rangeFrom; rw [show n - lo = 0 by omega]; rfl
    rw [this]
    exact ⟨rfl, by intro j h1 h2; omega, fun _ _ => rfl⟩
  have hsome : ∀ j p, (if P.zero? j i then none else some (P.rk j k, P.rk j i)) = some p →
      P.zero? j i = false ∧ p = (P.rk j k, P.rk j i) := by
    intro j p hp
    cases hz : P.zero? j i <;> simp [hz] at hp
    exact ⟨rfl, hp.symm⟩
  obtain ⟨g1, g2, g3⟩ := phase_generic lo (n - lo)
    (fun j => if P.zero? j i then none else some (P.rk j k, P.rk j i))
    (fun p => rd M p.1 - rd M p.2 * c)
    (fun M p => wr M p.1 (rd M p.1 - rd M p.2 * c)) M (fun j => P.rk j k)
    (fun j => P.zero? j i = false)
    (fun j p h1 h2 hp => (hsome j p hp).1)
    (fun j j' h1 h2 h1' h2' hp hp' heq =>
      (g.rk_inj j k j' k (by omega) hk (by omega) hk (hjk j (by omega) (by omega) hp)
        (hjk j' (by omega) (by omega) hp') heq).1)
    (fun j h1 h2 hp => by
      rw [hMs]; exact g.rk_lt j k (by omega) hk (hjk j (by omega) (by omega) hp))
    (by
      intro M' j p h1 h2 hp hMs' hM hown
      obtain ⟨hpj, rfl⟩ := hsome j p hp
      show wr M' (P.rk j k) (rd M' (P.rk j k) - rd M' (P.rk j i) * c) = _
      rw [hown, hM (P.rk j i) (by
        intro j' h1' h2' hp' heq
        have := g.rk_inj j i j' k (by omega) hi (by omega) hk hpj
          (hjk j' (by omega) (by omega) hp') heq
        omega)])
  unfold rangeFrom
  refine ⟨g1, ?_, ?_⟩
  · intro j h1 h2 hp
    exact g3 j (P.rk j k, P.rk j i) (by omega) (by omega) (by simp [hp])
  · intro x hx
    exact g2 x (fun j h1 h2 hp => hx j (by omega) (by omega) hp)

/-- inner `U` loop for a fixed column `k > i`: rows `i < j ≤ k`, source column `i` of the other
    (fixed) array `L`, factor `U(i,k)` re-read at every iteration -/
theorem innerOther {n : Nat} {Lp Up : Pattern} (gU : GoodPattern n Up) (L U : Array K)
    (i k : Nat) (hik : i < k) (hk : k < n) (hUs : U.size = Up.nnz)
    (hpk : Up.zero? i k = false)
    (hjk : ∀ j, i < j → j ≤ k → Lp.zero? j i = false → Up.zero? j k = false) :
    ((mzUjk Lp Up i k).foldl
        (fun U p => wr U p.1 (rd U p.1 - rd L p.2 * rd U (Up.rk i k))) U).size = U.size ∧
    (∀ j, i < j → j ≤ k → Lp.zero? j i = false →
      rd ((mzUjk Lp Up i k).foldl
        (fun U p => wr U p.1 (rd U p.1 - rd L p.2 * rd U (Up.rk i k))) U) (Up.rk j k)
        = rd U (Up.rk j k) - rd L (Lp.rk j i) * rd U (Up.rk i k)) ∧
    (∀ x, (∀ j, i < j → j ≤ k → Lp.zero? j i = false → x ≠ Up.rk j k) →
      rd ((mzUjk Lp Up i k).foldl
        (fun U p => wr U p.1 (rd U p.1 - rd L p.2 * rd U (Up.rk i k))) U) x = rd U x) := by
  have hsome : ∀ j p, (if Lp.zero? j i then none else some (Up.rk j k, Lp.rk j i)) = some p →
      Lp.zero? j i = false ∧ p = (Up.rk j k, Lp.rk j i) := by
    intro j p hp
    cases hz : Lp.zero? j i <;> simp [hz] at hp
    exact ⟨rfl, hp.symm⟩
  have hlen : i + 1 + (k + 1 - (i + 1)) = k + 1 := by omega
  obtain ⟨g1, g2, g3⟩ := phase_generic (i + 1) (k + 1 - (i + 1))
    (fun j => if Lp.zero? j i then none else some (Up.rk j k, Lp.rk j i))
    (fun p => rd U p.1 - rd L p.2 * rd U (Up.rk i k))
    (fun U p => wr U p.1 (rd U p.1 - rd L p.2 * rd U (Up.rk i k))) U (fun j => Up.rk j k)
    (fun j => Lp.zero? j i = false)
    (fun j p h1 h2 hp => (hsome j p hp).1)
    (fun j j' h1 h2 h1' h2' hp hp' heq =>
      (gU.rk_inj j k j' k (by omega) hk (by omega) hk (hjk j (by omega) (by omega) hp)
        (hjk j' (by omega) (by omega) hp') heq).1)
    (fun j h1 h2 hp => by
      rw [hUs]; exact gU.rk_lt j k (by omega) hk (hjk j (by omega) (by omega) hp))
    (by
      intro U' j p h1 h2 hp hUs' hM hown
      obtain ⟨hpj, rfl⟩ := hsome j p hp
      show wr U' (Up.rk j k) (rd U' (Up.rk j k) - rd L (Lp.rk j i) * rd U' (Up.rk i k)) = _
      rw [hown, hM (Up.rk i k) (by
        intro j' h1' h2' hp' heq
        have := gU.rk_inj i k j' k (by omega) hk (by omega) hk hpk
          (hjk j' (by omega) (by omega) hp') heq
        omega)])
  unfold mzUjk rangeFrom
  refine ⟨g1, ?_, ?_⟩
  · intro j h1 h2 hp
    exact g3 j (Up.rk j k, Lp.rk j i) (by omega) (by omega) (by simp [hp])
  · intro x hx
    exact g2 x (fun j h1 h2 hp => hx j (by omega) (by omega) hp)

/-- read a location of the pair state: `(true, x)` is `U[x]`, `(false, x)` is `L[x]` -/
def getLU (S : Array K × Array K) (x : Bool × Nat) : K := if x.1 then rd S.2 x.2 else rd S.1 x.2

section mzloop
variable {n : Nat} {A Lp Up : Pattern}

theorem moz_fillU (h : MozSetup n A Lp Up) (i j k : Nat) (hij : i < j) (hjk : j ≤ k) (hk : k < n)
    (h1 : Lp.zero? j i = false) (h2 : Up.zero? i k = false) : Up.zero? j k = false :=
  (pres_true _ _ _).mp (h.closed.fillU j i k hij hjk hk ((pres_true _ _ _).mpr h1)
    ((pres_true _ _ _).mpr h2))

theorem moz_fillL (h : MozSetup n A Lp Up) (i j k : Nat) (hik : i < k) (hkj : k < j) (hj : j < n)
    (h1 : Lp.zero? j i = false) (h2 : Up.zero? i k = false) : Lp.zero? j k = false :=
  (pres_true _ _ _).mp (h.closed.fillL k i j hik hkj hj ((pres_true _ _ _).mpr h1)
    ((pres_true _ _ _).mpr h2))

/-- phase 2 of stage `i` on the pair `(L, U)` -/
theorem mzPhase2 (h : MozSetup n A Lp Up) (L1 U0 : Array K) (i : Nat) (hi : i < n)
    (hLs : L1.size = Lp.nnz) (hUs : U0.size = Up.nnz) :
    (((rangeFrom (i + 1) n).filterMap (mzK Lp Up n i)).foldl mzStepK (L1, U0)).1.size = Lp.nnz ∧
    (((rangeFrom (i + 1) n).filterMap (mzK Lp Up n i)).foldl mzStepK (L1, U0)).2.size = Up.nnz ∧
    (∀ j k, i < j → j ≤ k → k < n → Lp.zero? j i = false → Up.zero? i k = false →
      rd (((rangeFrom (i + 1) n).filterMap (mzK Lp Up n i)).foldl mzStepK (L1, U0)).2 (Up.rk j k)
        = rd U0 (Up.rk j k) - rd L1 (Lp.rk j i) * rd U0 (Up.rk i k)) ∧
    (∀ j k, i < k → k < j → j < n → Lp.zero? j i = false → Up.zero? i k = false →
      rd (((rangeFrom (i + 1) n).filterMap (mzK Lp Up n i)).foldl mzStepK (L1, U0)).1 (Lp.rk j k)
        = rd L1 (Lp.rk j k) - rd L1 (Lp.rk j i) * rd U0 (Up.rk i k)) ∧
    (∀ r c, r < n → c < n → Up.zero? r c = false →
      ¬ (i < r ∧ r ≤ c ∧ Lp.zero? r i = false ∧ Up.zero? i c = false) →
      rd (((rangeFrom (i + 1) n).filterMap (mzK Lp Up n i)).foldl mzStepK (L1, U0)).2 (Up.rk r c)
        = rd U0 (Up.rk r c)) ∧
    (∀ r c, r < n → c < n → Lp.zero? r c = false →
      ¬ (i < c ∧ c < r ∧ Lp.zero? r i = false ∧ Up.zero? i c = false) →
      rd (((rangeFrom (i + 1) n).filterMap (mzK Lp Up n i)).foldl mzStepK (L1, U0)).1 (Lp.rk r c)
        = rd L1 (Lp.rk r c)) := by
  have hsome : ∀ k e, mzK Lp Up n i k = some e → Up.zero? i k = false ∧
      e = { uik := Up.rk i k, ujk := mzUjk Lp Up i k, ljk := mzLjk Lp n i k } := by
    intro k e he
    unfold mzK at he
    cases hz : Up.zero? i k <;> simp [hz] at he
    exact ⟨rfl, he.symm⟩
  -- presence of the block slots
  have hQU : ∀ k j, i < j → j ≤ k → k < n → Lp.zero? j i = false → Up.zero? i k = false →
      Up.zero? j k = false := fun k j a b c d e => moz_fillU h i j k a b c d e
  have hQL : ∀ k j, i < k → k < j → j < n → Lp.zero? j i = false → Up.zero? i k = false →
      Lp.zero? j k = false := fun k j a b c d e => moz_fillL h i j k a b c d e
  obtain ⟨g1, g2, g3⟩ := phase_blocks_gen (getLU (K := K))
    (fun S => S.1.size = Lp.nnz ∧ S.2.size = Up.nnz) (i + 1) (n - (i + 1)) (mzK Lp Up n i)
    mzStepK (L1, U0) ⟨hLs, hUs⟩
    (fun k j => if j ≤ k then (true, Up.rk j k) else (false, Lp.rk j k))
    (fun k j => i < j ∧ j < n ∧ Lp.zero? j i = false ∧ Up.zero? i k = false)
    (fun k j => (if j ≤ k then rd U0 (Up.rk j k) else rd L1 (Lp.rk j k))
      - rd L1 (Lp.rk j i) * rd U0 (Up.rk i k))
    (by
      intro k k' j j' h1 h2 h1' h2' hq hq' heq
      by_cases c1 : j ≤ k <;> by_cases c2 : j' ≤ k' <;>
        simp only [c1, c2, if_true, if_false, Prod.mk.injEq, true_and, Bool.true_eq_false,
          Bool.false_eq_true, false_and] at heq
      · exact (h.gU.rk_inj j k j' k' (by omega) (by omega) (by omega) (by omega)
          (hQU k j hq.1 c1 (by omega) hq.2.2.1 hq.2.2.2)
          (hQU k' j' hq'.1 c2 (by omega) hq'.2.2.1 hq'.2.2.2) heq).2
      · exact (h.gL.rk_inj j k j' k' (by omega) (by omega) (by omega) (by omega)
          (hQL k j (by omega) (by omega) hq.2.1 hq.2.2.1 hq.2.2.2)
          (hQL k' j' (by omega) (by omega) hq'.2.1 hq'.2.2.1 hq'.2.2.2) heq).2)
    (by
      intro S k e h1 h2 he hok hM hown
      obtain ⟨L, U⟩ := S
      obtain ⟨hpk, rfl⟩ := hsome k e he
      have hkn : k < n := by omega
      have hik : i < k := by omega
      -- row i of U and column i of L are not in any block
      have haU : rd U (Up.rk i k) = rd U0 (Up.rk i k) := by
        have := hM (true, Up.rk i k) (by
          intro k' j' h1' h2' hq heq
          by_cases c : j' ≤ k' <;>
            simp only [c, if_true, if_false, Prod.mk.injEq, true_and, Bool.true_eq_false,
              false_and] at heq
          have := h.gU.rk_inj i k j' k' hi hkn (by omega) (by omega) hpk
            (hQU k' j' hq.1 c (by omega) hq.2.2.1 hq.2.2.2) heq
          omega)
        simpa [getLU] using this
      have hLcol : ∀ j, i < j → j < n → Lp.zero? j i = false →
          rd L (Lp.rk j i) = rd L1 (Lp.rk j i) := by
        intro j hj1 hj2 hpj
        have := hM (false, Lp.rk j i) (by
          intro k' j' h1' h2' hq heq
          by_cases c : j' ≤ k' <;>
            simp only [c, if_true, if_false, Prod.mk.injEq, true_and, Bool.false_eq_true,
              false_and] at heq
          have := h.gL.rk_inj j i j' k' hj2 hi (by omega) (by omega) hpj
            (hQL k' j' (by omega) (by omega) hq.2.1 hq.2.2.1 hq.2.2.2) heq
          omega)
        simpa [getLU] using this
      obtain ⟨a1, a2, a3⟩ := innerOther (Lp := Lp) h.gU L U i k hik hkn hok.2 hpk
        (fun j c1 c2 c3 => hQU k j c1 c2 hkn c3 hpk)
      generalize hU' : (mzUjk Lp Up i k).foldl
        (fun U p => wr U p.1 (rd U p.1 - rd L p.2 * rd U (Up.rk i k))) U = U' at a1 a2 a3
      have hc : rd U' (Up.rk i k) = rd U (Up.rk i k) := by
        apply a3
        intro j c1 c2 c3 heq
        have := h.gU.rk_inj i k j k hi hkn (by omega) hkn hpk (hQU k j c1 c2 hkn c3 hpk) heq
        omega
      obtain ⟨b1, b2, b3⟩ := innerSame h.gL L (rd U' (Up.rk i k)) i k (k + 1) hi hkn (by omega)
        hok.1 (fun j c1 c2 c3 => hQL k j hik (by omega) c2 c3 hpk)
      have hstepEq : mzStepK (L, U) { uik := Up.rk i k, ujk := mzUjk Lp Up i k, ljk := mzLjk Lp n i k }
          = (((rangeFrom (k + 1) n).filterMap fun j =>
              if Lp.zero? j i then none else some (Lp.rk j k, Lp.rk j i)).foldl
              (fun M p => wr M p.1 (rd M p.1 - rd M p.2 * rd U' (Up.rk i k))) L, U') := by
        simp only [mzStepK, mzLjk, hU']
      rw [hstepEq]
      refine ⟨⟨by rw [b1]; exact hok.1, by rw [a1]; exact hok.2⟩, ?_, ?_⟩
      · intro j hq
        have ownj := hown j hq
        by_cases c : j ≤ k
        · simp only [c, if_true, getLU] at ownj ⊢
          rw [a2 j hq.1 c hq.2.2.1, ownj, haU, hLcol j hq.1 hq.2.1 hq.2.2.1]
        · simp only [c, if_false, getLU, Bool.false_eq_true] at ownj ⊢
          rw [b2 j (by omega) hq.2.1 hq.2.2.1, ownj, hc, haU, hLcol j hq.1 hq.2.1 hq.2.2.1]
      · intro x hx
        obtain ⟨b, y⟩ := x
        cases b
        · simp only [getLU, Bool.false_eq_true, if_false]
          apply b3
          intro j c1 c2 c3 heq
          have := hx j ⟨by omega, c2, c3, hpk⟩
          have c : ¬ j ≤ k := by omega
          simp only [c, if_false] at this
          exact this (by rw [heq])
        · simp only [getLU, if_true]
          apply a3
          intro j c1 c2 c3 heq
          have := hx j ⟨c1, by omega, c3, hpk⟩
          simp only [c2, if_true] at this
          exact this (by rw [heq]))
    (n - (i + 1)) (le_refl _)
  unfold rangeFrom
  generalize ((List.range' (i + 1) (n - (i + 1))).filterMap (mzK Lp Up n i)).foldl mzStepK (L1, U0)
    = S at g1 g2 g3
  have hK : ∀ k, Up.zero? i k = false → mzK Lp Up n i k
      = some { uik := Up.rk i k, ujk := mzUjk Lp Up i k, ljk := mzLjk Lp n i k } := by
    intro k hq; simp [mzK, hq]
  refine ⟨g1.1, g1.2, ?_, ?_, ?_, ?_⟩
  · intro j k c1 c2 c3 c4 c5
    have := g3 k _ j (by omega) (by omega) (hK k c5) ⟨c1, by omega, c4, c5⟩
    simpa [getLU, c2] using this
  · intro j k c1 c2 c3 c4 c5
    have := g3 k _ j (by omega) (by omega) (hK k c5) ⟨by omega, c3, c4, c5⟩
    have c : ¬ j ≤ k := by omega
    simpa [getLU, c] using this
  · intro r c hr hc hp hnot
    have := g2 (true, Up.rk r c) (by
      intro k j c1 c2 hq heq
      by_cases cc : j ≤ k <;>
        simp only [cc, if_true, if_false, Prod.mk.injEq, true_and, Bool.true_eq_false,
          false_and] at heq
      have := h.gU.rk_inj r c j k hr hc (by omega) (by omega) hp
        (hQU k j hq.1 cc (by omega) hq.2.2.1 hq.2.2.2) heq
      obtain ⟨rfl, rfl⟩ := this
      exact hnot ⟨hq.1, cc, hq.2.2.1, hq.2.2.2⟩)
    simpa [getLU] using this
  · intro r c hr hc hp hnot
    have := g2 (false, Lp.rk r c) (by
      intro k j c1 c2 hq heq
      by_cases cc : j ≤ k <;>
        simp only [cc, if_true, if_false, Prod.mk.injEq, true_and, Bool.false_eq_true,
          false_and] at heq
      have := h.gL.rk_inj r c j k hr hc (by omega) (by omega) hp
        (hQL k j (by omega) (by omega) hq.2.1 hq.2.2.1 hq.2.2.2) heq
      obtain ⟨rfl, rfl⟩ := this
      exact hnot ⟨by omega, by omega, hq.2.2.1, hq.2.2.2⟩)
    simpa [getLU] using this

end mzloop

/-- right-looking invariant for the pair `(L, U)` after `i` stages -/
structure MozInvS (n : Nat) (Lp Up : Pattern) (Am : Nat → Nat → K) (d : LU K) (i : Nat)
    (L U : Array K) : Prop where
  U_fin : ∀ r c, r < n → c < n → Up.zero? r c = false → r < i → rd U (Up.rk r c) = d.U r c
  U_rest : ∀ r c, r < n → c < n → Up.zero? r c = false → i ≤ r →
    rd U (Up.rk r c) = schur Am d i r c
  L_fin : ∀ r c, r < n → c < n → Lp.zero? r c = false → c < r → c < i →
    rd L (Lp.rk r c) = d.L r c
  L_rest : ∀ r c, r < n → c < n → Lp.zero? r c = false → c < r → i ≤ c →
    rd L (Lp.rk r c) = schur Am d i r c
  L_diag : ∀ r, r < n → rd L (Lp.rk r r) = 1

section mzrows
variable {n : Nat} {A Lp Up : Pattern}

theorem moz_dense_off (h : MozSetup n A Lp Up) (Am : Nat → Nat → K)
    (hA : ∀ r c, pres A r c = false → Am r c = 0) :
    (∀ r c, r < n → c < n → Up.zero? r c = true → r ≤ c → (DenseLU.lu Am n).U r c = 0) ∧
    (∀ r c, r < n → c < n → Lp.zero? r c = true → c < r → (DenseLU.lu Am n).L r c = 0) := by
  have hrel := SparseLU.rel_slu n Am (pres A) (pres Lp) (pres Up) h.closed hA DenseLU.init n
    (le_refl n)
  exact ⟨fun r c hr hc hp hrc => hrel.U_off r c hr hrc hc ((pres_false _ _ _).mpr hp),
    fun r c hr hc hp hcr => hrel.L_off r c hc hcr hr ((pres_false _ _ _).mpr hp)⟩

theorem mzStep_inv (h : MozSetup n A Lp Up) (Am : Nat → Nat → K)
    (hA : ∀ r c, pres A r c = false → Am r c = 0) (L U : Array K) (i : Nat) (hi : i < n)
    (hLs : L.size = Lp.nnz) (hUs : U.size = Up.nnz)
    (hinv : MozInvS n Lp Up Am (DenseLU.lu Am n) i L U) :
    (mzStep (L, U) (mzRow Lp Up n i)).1.size = Lp.nnz ∧
    (mzStep (L, U) (mzRow Lp Up n i)).2.size = Up.nnz ∧
    MozInvS n Lp Up Am (DenseLU.lu Am n) (i + 1) (mzStep (L, U) (mzRow Lp Up n i)).1
      (mzStep (L, U) (mzRow Lp Up n i)).2 := by
  obtain ⟨offU, offL⟩ := moz_dense_off h Am hA
  simp only [mzStep, mzRow]
  obtain ⟨p1, p2, p3⟩ := miPhase1 h.gL L (1 / rd U (Up.rk i i)) i hi hLs
  generalize ((rangeFrom (i + 1) n).filterMap (miAji Lp i)).foldl
    (fun M' t => wr M' t (rd M' t * (1 / rd U (Up.rk i i)))) L = L1 at p1 p2 p3
  obtain ⟨q1, q2, q3, q4, q5, q6⟩ := mzPhase2 h L1 U i hi p1 hUs
  generalize ((rangeFrom (i + 1) n).filterMap (mzK Lp Up n i)).foldl mzStepK (L1, U) = S
    at q1 q2 q3 q4 q5 q6
  have hUii : Up.zero? i i = false := (pres_true _ _ _).mp (h.closed.diagU i hi)
  have hLi : ∀ r, i < r → r < n → Lp.zero? r i = false →
      rd L1 (Lp.rk r i) = (DenseLU.lu Am n).L r i := by
    intro r hir hr hp
    rw [p2 r hir hr hp, hinv.L_rest r i hr hi hp hir (le_refl i),
      hinv.U_rest i i hi hi hUii (le_refl i), lu_L_schur Am n i r hi hir]
  have hUi : ∀ c, c < n → Up.zero? i c = false → rd U (Up.rk i c) = (DenseLU.lu Am n).U i c := by
    intro c hc hp
    rw [hinv.U_rest i c hi hc hp (le_refl i), lu_U_schur Am n i c hi (h.uppU i c hi hc hp)]
  have hzero : ∀ r c, i < r → r < n → i < c → c < n →
      ¬ (Lp.zero? r i = false ∧ Up.zero? i c = false) →
      (DenseLU.lu Am n).L r i * (DenseLU.lu Am n).U i c = 0 := by
    intro r c hir hr hic hc ht
    cases h1 : Lp.zero? r i
    · cases h2 : Up.zero? i c
      · exact absurd ⟨h1, h2⟩ ht
      · rw [offU i c hi hc h2 (by omega)]; ring
    · rw [offL r i hr hi h1 hir]; ring
  refine ⟨q1, q2, ⟨?_, ?_, ?_, ?_, ?_⟩⟩
  · intro r c hr hc hp hri
    rw [q5 r c hr hc hp (by omega)]
    by_cases hr' : r = i
    · subst hr'; exact hUi c hc hp
    · exact hinv.U_fin r c hr hc hp (by omega)
  · intro r c hr hc hp hir
    have hrc := h.uppU r c hr hc hp
    rw [schur_succ]
    by_cases ht : Lp.zero? r i = false ∧ Up.zero? i c = false
    · rw [q3 r c (by omega) hrc hc ht.1 ht.2, hLi r (by omega) hr ht.1, hUi c hc ht.2,
        hinv.U_rest r c hr hc hp (by omega)]
    · rw [q5 r c hr hc hp (fun hh => ht ⟨hh.2.2.1, hh.2.2.2⟩),
        hinv.U_rest r c hr hc hp (by omega),
        hzero r c (by omega) hr (by omega) hc ht]
      ring
  · intro r c hr hc hp hcr hci
    rw [q6 r c hr hc hp (by omega)]
    by_cases hc' : c = i
    · subst hc'; exact hLi r hcr hr hp
    · rw [p3 r c hr hc hp (by omega)]
      exact hinv.L_fin r c hr hc hp hcr (by omega)
  · intro r c hr hc hp hcr hic
    rw [schur_succ]
    by_cases ht : Lp.zero? r i = false ∧ Up.zero? i c = false
    · rw [q4 r c (by omega) hcr hr ht.1 ht.2, hLi r (by omega) hr ht.1, hUi c hc ht.2,
        p3 r c hr hc hp (by omega), hinv.L_rest r c hr hc hp hcr (by omega)]
    · rw [q6 r c hr hc hp (fun hh => ht ⟨hh.2.2.1, hh.2.2.2⟩), p3 r c hr hc hp (by omega),
        hinv.L_rest r c hr hc hp hcr (by omega),
        hzero r c (by omega) hr (by omega) hc ht]
      ring
  · intro r hr
    rw [q6 r r hr hr (h.diagL r hr) (by omega), p3 r r hr hr (h.diagL r hr) (by omega)]
    exact hinv.L_diag r hr

theorem mzRows_inv (h : MozSetup n A Lp Up) (Am : Nat → Nat → K)
    (hA : ∀ r c, pres A r c = false → Am r c = 0) (L0 U0 : Array K)
    (hLs : L0.size = Lp.nnz) (hUs : U0.size = Up.nnz)
    (h0 : MozInvS n Lp Up Am (DenseLU.lu Am n) 0 L0 U0) (m : Nat) (hm : m ≤ n) :
    (((List.range m).map (mzRow Lp Up n)).foldl mzStep (L0, U0)).1.size = Lp.nnz ∧
    (((List.range m).map (mzRow Lp Up n)).foldl mzStep (L0, U0)).2.size = Up.nnz ∧
    MozInvS n Lp Up Am (DenseLU.lu Am n) m
      (((List.range m).map (mzRow Lp Up n)).foldl mzStep (L0, U0)).1
      (((List.range m).map (mzRow Lp Up n)).foldl mzStep (L0, U0)).2 := by
  induction m with
  | zero => exact ⟨hLs, hUs, h0⟩
  | succ m ih =>
    obtain ⟨g1, g2, g3⟩ := ih (by omega)
    rw [List.range_succ, List.map_append, List.foldl_append]
    simp only [List.map_cons, List.map_nil, List.foldl_cons, List.foldl_nil]
    generalize ((List.range m).map (mzRow Lp Up n)).foldl mzStep (L0, U0) = S at g1 g2 g3
    obtain ⟨L, U⟩ := S
    exact mzStep_inv h Am hA L U m (by omega) g1 g2 g3

/-- C03 core for `mozartCell`: same statement as for `doolittleCell` -/
theorem mozartCell_view (h : MozSetup n A Lp Up) (hn : A.n = n) (a l0 u0 : Array K)
    (hLs : l0.size = Lp.nnz) (hUs : u0.size = Up.nnz) (r c : Nat) (hr : r < n) (hc : c < n) :
    view Lp (mozartCell (mozartInit A Lp Up) (mozartRows A Lp Up) a (l0, u0)).1 r c
        = (DenseLU.lu (view A a) n).L r c ∧
    view Up (mozartCell (mozartInit A Lp Up) (mozartRows A Lp Up) a (l0, u0)).2 r c
        = (DenseLU.lu (view A a) n).U r c := by
  rw [mozartCell_eq, mozartInit_eq, mozartRows_eq, hn]
  have hA : ∀ r c, pres A r c = false → view A a r c = 0 :=
    fun r c hp => view_absent _ _ _ _ ((pres_false _ _ _).mp hp)
  obtain ⟨i1, i2, i3, i4⟩ := mzInit_spec h a l0 u0 hLs hUs
  generalize applyWrites (mzWritesL a ((List.range n).map (mzInit A Lp Up n))) l0 = L0
    at i1 i3 i4
  generalize applyWrites (mzWritesU a ((List.range n).map (mzInit A Lp Up n))) u0 = U0
    at i2 i3 i4
  have h0 : MozInvS n Lp Up (view A a) (DenseLU.lu (view A a) n) 0 L0 U0 := by
    refine ⟨by intros; omega, ?_, by intros; omega, ?_, ?_⟩
    · intro r c hr hc hp _
      rw [schur_zero]; exact i3 r c hr hc hp
    · intro r c hr hc hp hcr _
      rw [schur_zero, i4 r c hr hc hp, if_neg (by omega)]
    · intro r hr
      rw [i4 r r hr hr (h.diagL r hr), if_pos rfl]
  obtain ⟨_, _, hinv⟩ := mzRows_inv h (view A a) hA L0 U0 i1 i2 h0 n (le_refl n)
  obtain ⟨offU, offL⟩ := moz_dense_off h (view A a) hA
  have hsh := DenseLU.lu_shape (view A a) n
  generalize ((List.range n).map (mzRow Lp Up n)).foldl mzStep (L0, U0) = S at hinv
  constructor
  · cases hp : Lp.zero? r c
    · rw [view_present _ _ _ _ hp]
      have hcr := h.lowL r c hr hc hp
      by_cases hd : c = r
      · subst hd; rw [hinv.L_diag c hc, hsh.L_diag c hc]
      · exact hinv.L_fin r c hr hc hp (by omega) hc
    · rw [view_absent _ _ _ _ hp]
      by_cases hcr : c < r
      · exact (offL r c hr hc hp hcr).symm
      · have : r ≠ c := by intro h'; subst h'; rw [h.diagL r hr] at hp; cases hp
        exact (hsh.L_up r c (by omega)).symm
  · cases hp : Up.zero? r c
    · rw [view_present _ _ _ _ hp]
      exact hinv.U_fin r c hr hc hp hr
    · rw [view_absent _ _ _ _ hp]
      by_cases hrc : r ≤ c
      · exact (offU r c hr hc hp hrc).symm
      · exact (hsh.U_low r c (by omega)).symm

end mzrows

end Micm
