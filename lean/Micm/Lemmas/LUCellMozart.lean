import Micm.Lemmas.LUCell

/-!
C03, Mozart (right-looking) variants.  Invariant after stage `i`: the rows `< i` of `U` and the
columns `< i` of `L` are final (equal to the dense Doolittle factors), and every working entry
`(r,c)` with `min r c ≥ i` holds the Schur complement `A r c − Σ_{m<i} L r m · U m c`.
-/
open Finset
namespace Micm
open DenseLU (LU)
open SparseLU (Closed Rel)
variable {K : Type} [Field K]

/-! ### a fold of *blocks* of writes -/

/-- like `phase_generic`, but step `k` rewrites the whole block of slots `slot k j`, `Q k j` -/
theorem phase_blocks_aux {β : Type} (a len : Nat) (f : Nat → Option β)
    (step : Array K → β → Array K) (M0 : Array K) (slot : Nat → Nat → Nat) (Q : Nat → Nat → Prop)
    (newv : Nat → Nat → K)
    (hdisj : ∀ k k' j j', a ≤ k → k < a + len → a ≤ k' → k' < a + len → Q k j → Q k' j' →
      slot k j = slot k' j' → k = k')
    (hstep : ∀ M k e, a ≤ k → k < a + len → f k = some e → M.size = M0.size →
      (∀ x, (∀ k' j', a ≤ k' → k' < a + len → Q k' j' → x ≠ slot k' j') → rd M x = rd M0 x) →
      (∀ j, Q k j → rd M (slot k j) = rd M0 (slot k j)) →
      (step M e).size = M.size ∧ (∀ j, Q k j → rd (step M e) (slot k j) = newv k j) ∧
      (∀ x, (∀ j, Q k j → x ≠ slot k j) → rd (step M e) x = rd M x))
    (m : Nat) (hm : m ≤ len) :
    (((List.range' a m).filterMap f).foldl step M0).size = M0.size ∧
    (∀ x, (∀ k j, a ≤ k → k < a + m → Q k j → x ≠ slot k j) →
      rd (((List.range' a m).filterMap f).foldl step M0) x = rd M0 x) ∧
    (∀ k e j, a ≤ k → k < a + m → f k = some e → Q k j →
      rd (((List.range' a m).filterMap f).foldl step M0) (slot k j) = newv k j) := by
  induction m with
  | zero => exact ⟨rfl, fun _ _ => rfl, by intro k e j h1 h2; omega⟩
  | succ m ih =>
    obtain ⟨g1, g2, g3⟩ := ih (by omega)
    rw [List.range'_concat, List.filterMap_append, List.foldl_append, Nat.one_mul]
    generalize ((List.range' a m).filterMap f).foldl step M0 = M at g1 g2 g3
    cases hfk : f (a + m) with
    | none =>
      simp only [List.filterMap_cons, hfk, List.filterMap_nil, List.foldl_nil]
      refine ⟨g1, ?_, ?_⟩
      · intro x hx
        exact g2 x (fun k j h1 h2 hq => hx k j h1 (by omega) hq)
      · intro k e j h1 h2 he hq
        have : k ≠ a + m := by intro h; subst h; rw [hfk] at he; cases he
        exact g3 k e j h1 (by omega) he hq
    | some e =>
      simp only [List.filterMap_cons, hfk, List.filterMap_nil, List.foldl_cons, List.foldl_nil]
      obtain ⟨s1, s2, s3⟩ := hstep M (a + m) e (by omega) (by omega) hfk g1
        (fun x hx => g2 x (fun k j h1 h2 hq => hx k j h1 (by omega) hq))
        (fun j hq => g2 _ (fun k j' h1 h2 hq' heq => by
          have := hdisj _ _ _ _ (by omega) (by omega) h1 (by omega) hq hq' heq
          omega))
      refine ⟨by rw [s1, g1], ?_, ?_⟩
      · intro x hx
        rw [s3 x (fun j hq => hx (a + m) j (by omega) (by omega) hq)]
        exact g2 x (fun k j h1 h2 hq => hx k j h1 (by omega) hq)
      · intro k e' j h1 h2 he' hq
        by_cases hk : k = a + m
        · subst hk
          exact s2 j hq
        · rw [s3 _ (fun j' hq' heq => by
            have := hdisj _ _ _ _ h1 (by omega) (by omega) (by omega) hq hq' heq
            omega)]
          exact g3 k e' j h1 (by omega) he' hq

/-! ### Schur complements of the dense factors -/

/-- `A r c − Σ_{m<i} L r m · U m c` -/
def schur (Am : Nat → Nat → K) (d : LU K) (i r c : Nat) : K :=
  Am r c - ∑ m ∈ range i, d.L r m * d.U m c

theorem schur_zero (Am : Nat → Nat → K) (d : LU K) (r c : Nat) : schur Am d 0 r c = Am r c := by
  simp [schur]

theorem schur_succ (Am : Nat → Nat → K) (d : LU K) (i r c : Nat) :
    schur Am d (i + 1) r c = schur Am d i r c - d.L r i * d.U i c := by
  simp only [schur, Finset.sum_range_succ]; ring

theorem lu_U_schur (Am : Nat → Nat → K) (n i c : Nat) (hi : i < n) (hic : i ≤ c) :
    (DenseLU.lu Am n).U i c = schur Am (DenseLU.lu Am n) i i c :=
  DenseLU.lu_U_eq Am n i c hi hic

theorem lu_L_schur (Am : Nat → Nat → K) (n i r : Nat) (hi : i < n) (hir : i < r) :
    (DenseLU.lu Am n).L r i
      = schur Am (DenseLU.lu Am n) i r i * (1 / schur Am (DenseLU.lu Am n) i i i) := by
  rw [DenseLU.lu_L_eq Am n i r hi hir, ← lu_U_schur Am n i i hi (le_refl i)]
  unfold schur
  rw [mul_one_div]

/-! ### Mozart in place -/

def miPairs (P : Pattern) (n i k : Nat) : List (Nat × Nat) :=
  (rangeFrom (i + 1) n).filterMap fun j => if P.zero? j i then none else some (P.rk j k, P.rk j i)

def miAji (P : Pattern) (i j : Nat) : Option Nat := if P.zero? j i then none else some (P.rk j i)

def miK (P : Pattern) (n i k : Nat) : Option MIK :=
  if P.zero? i k then none else some ⟨P.rk i k, miPairs P n i k⟩

def miRow (P : Pattern) (n i : Nat) : MIRow :=
  { aii := P.rk i i, aji := (rangeFrom (i + 1) n).filterMap (miAji P i),
    ks := (rangeFrom (i + 1) n).filterMap (miK P n i) }

theorem mozartInPlaceRows_eq (P : Pattern) :
    mozartInPlaceRows P = (List.range P.n).map (miRow P P.n) := rfl

def miStepK (M : Array K) (k : MIK) : Array K :=
  let aik := rd M k.aik
  k.pairs.foldl (fun M p => wr M p.1 (rd M p.1 - rd M p.2 * aik)) M

def miStep (M : Array K) (r : MIRow) : Array K :=
  let inv : K := 1 / rd M r.aii
  let M := r.aji.foldl (fun M i => wr M i (rd M i * inv)) M
  r.ks.foldl miStepK M

theorem mozartInPlaceCell_eq (rows : List MIRow) (M : Array K) :
    mozartInPlaceCell rows M = rows.foldl miStep M := rfl

section mip
variable {n : Nat} {P : Pattern}

/-- phase 1 of stage `i`: scale the present sub-diagonal entries of column `i` by `inv` -/
theorem miPhase1 (h : IPSetup n P) (M : Array K) (inv : K) (i : Nat) (hi : i < n)
    (hMs : M.size = P.nnz) :
    (((rangeFrom (i + 1) n).filterMap (miAji P i)).foldl
        (fun M t => wr M t (rd M t * inv)) M).size = P.nnz ∧
    (∀ j, i < j → j < n → P.zero? j i = false →
      rd (((rangeFrom (i + 1) n).filterMap (miAji P i)).foldl
        (fun M t => wr M t (rd M t * inv)) M) (P.rk j i) = rd M (P.rk j i) * inv) ∧
    (∀ r c, r < n → c < n → P.zero? r c = false → ¬ (c = i ∧ i < r) →
      rd (((rangeFrom (i + 1) n).filterMap (miAji P i)).foldl
        (fun M t => wr M t (rd M t * inv)) M) (P.rk r c) = rd M (P.rk r c)) := by
  have hsome : ∀ j t, miAji P i j = some t → P.zero? j i = false ∧ t = P.rk j i := by
    intro j t ht
    unfold miAji at ht
    cases hz : P.zero? j i <;> simp [hz] at ht
    exact ⟨rfl, ht.symm⟩
  obtain ⟨g1, g2, g3⟩ := phase_generic (i + 1) (n - (i + 1)) (miAji P i)
    (fun t => rd M t * inv) (fun M t => wr M t (rd M t * inv)) M (fun j => P.rk j i)
    (fun j => P.zero? j i = false)
    (fun j t h1 h2 ht => (hsome j t ht).1)
    (fun j j' h1 h2 h1' h2' hp hp' heq =>
      (h.g.rk_inj j i j' i (by omega) hi (by omega) hi hp hp' heq).1)
    (fun j h1 h2 hp => by rw [hMs]; exact h.g.rk_lt j i (by omega) hi hp)
    (by
      intro M' j t h1 h2 ht hMs' hM hown
      obtain ⟨_, rfl⟩ := hsome j t ht
      show wr M' (P.rk j i) (rd M' (P.rk j i) * inv) = _
      rw [hown])
  unfold rangeFrom
  refine ⟨by rw [g1, hMs], ?_, ?_⟩
  · intro j h1 h2 hp
    have : miAji P i j = some (P.rk j i) := by simp [miAji, hp]
    exact g3 j _ (by omega) (by omega) this
  · intro r c hr hc hp hnot
    apply g2
    intro j h1 h2 hpj heq
    have := h.g.rk_inj r c j i hr hc (by omega) hi hp hpj heq
    omega

/-- inner loop of phase 2 for a fixed column `k > i`: `M(j,k) -= M(j,i)·aik` for every present
    `(j,i)`, `j > i` -/
theorem miInner (h : IPSetup n P) (M : Array K) (aik : K) (i k : Nat) (hi : i < n) (hik : i < k)
    (hk : k < n) (hpk : P.zero? i k = false) (hMs : M.size = P.nnz) :
    ((miPairs P n i k).foldl (fun M p => wr M p.1 (rd M p.1 - rd M p.2 * aik)) M).size = M.size ∧
    (∀ j, i < j → j < n → P.zero? j i = false →
      rd ((miPairs P n i k).foldl (fun M p => wr M p.1 (rd M p.1 - rd M p.2 * aik)) M) (P.rk j k)
        = rd M (P.rk j k) - rd M (P.rk j i) * aik) ∧
    (∀ x, (∀ j, i < j → j < n → P.zero? j i = false → x ≠ P.rk j k) →
      rd ((miPairs P n i k).foldl (fun M p => wr M p.1 (rd M p.1 - rd M p.2 * aik)) M) x
        = rd M x) := by
  have hjk : ∀ j, i < j → j < n → P.zero? j i = false → P.zero? j k = false :=
    fun j h1 h2 hp => h.fill j k i h2 hk h1 hik hp hpk
  have hsome : ∀ j p, (if P.zero? j i then none else some (P.rk j k, P.rk j i)) = some p →
      P.zero? j i = false ∧ p = (P.rk j k, P.rk j i) := by
    intro j p hp
    cases hz : P.zero? j i <;> simp [hz] at hp
    exact ⟨rfl, hp.symm⟩
  obtain ⟨g1, g2, g3⟩ := phase_generic (i + 1) (n - (i + 1))
    (fun j => if P.zero? j i then none else some (P.rk j k, P.rk j i))
    (fun p => rd M p.1 - rd M p.2 * aik)
    (fun M p => wr M p.1 (rd M p.1 - rd M p.2 * aik)) M (fun j => P.rk j k)
    (fun j => P.zero? j i = false)
    (fun j p h1 h2 hp => (hsome j p hp).1)
    (fun j j' h1 h2 h1' h2' hp hp' heq =>
      (h.g.rk_inj j k j' k (by omega) hk (by omega) hk (hjk j (by omega) (by omega) hp)
        (hjk j' (by omega) (by omega) hp') heq).1)
    (fun j h1 h2 hp => by
      rw [hMs]; exact h.g.rk_lt j k (by omega) hk (hjk j (by omega) (by omega) hp))
    (by
      intro M' j p h1 h2 hp hMs' hM hown
      obtain ⟨hpj, rfl⟩ := hsome j p hp
      show wr M' (P.rk j k) (rd M' (P.rk j k) - rd M' (P.rk j i) * aik) = _
      rw [hown, hM (P.rk j i) (by
        intro j' h1' h2' hp' heq
        have := h.g.rk_inj j i j' k (by omega) hi (by omega) hk hpj
          (hjk j' (by omega) (by omega) hp') heq
        omega)])
  unfold miPairs rangeFrom
  refine ⟨g1, ?_, ?_⟩
  · intro j h1 h2 hp
    exact g3 j (P.rk j k, P.rk j i) (by omega) (by omega) (by simp [hp])
  · intro x hx
    exact g2 x (fun j h1 h2 hp => hx j (by omega) (by omega) hp)

/-- phase 2 of stage `i`: the rank-one update of the trailing block -/
theorem miPhase2 (h : IPSetup n P) (M : Array K) (i : Nat) (hi : i < n) (hMs : M.size = P.nnz) :
    (((rangeFrom (i + 1) n).filterMap (miK P n i)).foldl miStepK M).size = P.nnz ∧
    (∀ j k, i < j → j < n → i < k → k < n → P.zero? j i = false → P.zero? i k = false →
      rd (((rangeFrom (i + 1) n).filterMap (miK P n i)).foldl miStepK M) (P.rk j k)
        = rd M (P.rk j k) - rd M (P.rk j i) * rd M (P.rk i k)) ∧
    (∀ r c, r < n → c < n → P.zero? r c = false →
      ¬ (i < r ∧ i < c ∧ P.zero? r i = false ∧ P.zero? i c = false) →
      rd (((rangeFrom (i + 1) n).filterMap (miK P n i)).foldl miStepK M) (P.rk r c)
        = rd M (P.rk r c)) := by
  have hjk : ∀ j k, i < j → j < n → i < k → k < n → P.zero? j i = false → P.zero? i k = false →
      P.zero? j k = false :=
    fun j k h1 h2 h3 h4 hp hq => h.fill j k i h2 h4 h1 h3 hp hq
  have hsome : ∀ k e, miK P n i k = some e → P.zero? i k = false ∧ e = ⟨P.rk i k, miPairs P n i k⟩ := by
    intro k e he
    unfold miK at he
    cases hz : P.zero? i k <;> simp [hz] at he
    exact ⟨rfl, he.symm⟩
  obtain ⟨g1, g2, g3⟩ := phase_blocks_aux (i + 1) (n - (i + 1)) (miK P n i) miStepK M
    (fun k j => P.rk j k)
    (fun k j => i < j ∧ j < n ∧ P.zero? j i = false ∧ P.zero? i k = false)
    (fun k j => rd M (P.rk j k) - rd M (P.rk j i) * rd M (P.rk i k))
    (by
      intro k k' j j' h1 h2 h1' h2' hq hq' heq
      exact (h.g.rk_inj j k j' k' (by omega) (by omega) (by omega) (by omega)
        (hjk j k hq.1 hq.2.1 (by omega) (by omega) hq.2.2.1 hq.2.2.2)
        (hjk j' k' hq'.1 hq'.2.1 (by omega) (by omega) hq'.2.2.1 hq'.2.2.2) heq).2)
    (by
      intro M' k e h1 h2 he hMs' hM hown
      obtain ⟨hpk, rfl⟩ := hsome k e he
      have haik : rd M' (P.rk i k) = rd M (P.rk i k) := by
        apply hM
        intro k' j' h1' h2' hq heq
        have := h.g.rk_inj i k j' k' hi (by omega) (by omega) (by omega) hpk
          (hjk j' k' hq.1 hq.2.1 (by omega) (by omega) hq.2.2.1 hq.2.2.2) heq
        omega
      obtain ⟨i1, i2, i3⟩ := miInner h M' (rd M' (P.rk i k)) i k hi (by omega) (by omega) hpk
        (by rw [hMs', hMs])
      refine ⟨i1, ?_, ?_⟩
      · intro j hq
        show rd ((miPairs P n i k).foldl _ M') (P.rk j k) = _
        rw [i2 j hq.1 hq.2.1 hq.2.2.1, hown j hq, haik]
        congr 2
        apply hM
        intro k' j' h1' h2' hq' heq
        have := h.g.rk_inj j i j' k' (by omega) hi (by omega) (by omega) hq.2.2.1
          (hjk j' k' hq'.1 hq'.2.1 (by omega) (by omega) hq'.2.2.1 hq'.2.2.2) heq
        omega
      · intro x hx
        exact i3 x (fun j h1 h2 hp => hx j ⟨h1, h2, hp, hpk⟩))
    (n - (i + 1)) (le_refl _)
  unfold rangeFrom
  refine ⟨by rw [g1, hMs], ?_, ?_⟩
  · intro j k h1 h2 h3 h4 hp hq
    have : miK P n i k = some ⟨P.rk i k, miPairs P n i k⟩ := by simp [miK, hq]
    exact g3 k _ j (by omega) (by omega) this ⟨h1, h2, hp, hq⟩
  · intro r c hr hc hp hnot
    apply g2
    intro k j h1 h2 hq heq
    have := h.g.rk_inj r c j k hr hc (by omega) (by omega) hp
      (hjk j k hq.1 hq.2.1 (by omega) (by omega) hq.2.2.1 hq.2.2.2) heq
    apply hnot
    obtain ⟨rfl, rfl⟩ := this
    exact ⟨hq.1, by omega, hq.2.2.1, hq.2.2.2⟩

end mip

/-- the dense factors vanish off a fill-closed in-place pattern -/
theorem ip_dense_off {n : Nat} {P : Pattern} (h : IPSetup n P) (Am : Nat → Nat → K)
    (hA : ∀ r c, pres P r c = false → Am r c = 0) :
    (∀ r c, r < n → c < n → P.zero? r c = true → r ≤ c → (DenseLU.lu Am n).U r c = 0) ∧
    (∀ r c, r < n → c < n → P.zero? r c = true → c < r → (DenseLU.lu Am n).L r c = 0) := by
  have hrel := SparseLU.rel_slu n Am (pres P) (lowB P) (uppB P) h.closed hA DenseLU.init n
    (le_refl n)
  constructor
  · intro r c hr hc hp hrc
    exact hrel.U_off r c hr hrc hc (by rw [uppB_eq _ _ _ hrc]; exact (pres_false _ _ _).mpr hp)
  · intro r c hr hc hp hcr
    exact hrel.L_off r c hc hcr hr (by rw [lowB_eq _ _ _ hcr]; exact (pres_false _ _ _).mpr hp)

/-- right-looking invariant after `i` stages -/
structure MozInv (n : Nat) (P : Pattern) (Am : Nat → Nat → K) (d : LU K) (i : Nat)
    (M : Array K) : Prop where
  U_eq : ∀ r c, r < n → c < n → P.zero? r c = false → r ≤ c → r < i → rd M (P.rk r c) = d.U r c
  L_eq : ∀ r c, r < n → c < n → P.zero? r c = false → c < r → c < i → rd M (P.rk r c) = d.L r c
  rest : ∀ r c, r < n → c < n → P.zero? r c = false → i ≤ r → i ≤ c →
    rd M (P.rk r c) = schur Am d i r c

section mipRows
variable {n : Nat} {P : Pattern}

theorem miStep_inv (h : IPSetup n P) (Am : Nat → Nat → K)
    (hA : ∀ r c, pres P r c = false → Am r c = 0) (M : Array K) (i : Nat) (hi : i < n)
    (hMs : M.size = P.nnz) (hinv : MozInv n P Am (DenseLU.lu Am n) i M) :
    (miStep M (miRow P n i)).size = P.nnz ∧
    MozInv n P Am (DenseLU.lu Am n) (i + 1) (miStep M (miRow P n i)) := by
  obtain ⟨offU, offL⟩ := ip_dense_off h Am hA
  simp only [miStep, miRow]
  obtain ⟨p1, p2, p3⟩ := miPhase1 h M (1 / rd M (P.rk i i)) i hi hMs
  generalize ((rangeFrom (i + 1) n).filterMap (miAji P i)).foldl
    (fun M' t => wr M' t (rd M' t * (1 / rd M (P.rk i i)))) M = M1 at p1 p2 p3
  obtain ⟨q1, q2, q3⟩ := miPhase2 h M1 i hi p1
  generalize ((rangeFrom (i + 1) n).filterMap (miK P n i)).foldl miStepK M1 = M2 at q1 q2 q3
  have hii := h.diag i hi
  -- column i of L as held by M1
  have hLi : ∀ r, i < r → r < n → P.zero? r i = false →
      rd M1 (P.rk r i) = (DenseLU.lu Am n).L r i := by
    intro r hir hr hp
    rw [p2 r hir hr hp, hinv.rest r i hr hi hp (by omega) (le_refl i),
      hinv.rest i i hi hi hii (le_refl i) (le_refl i), lu_L_schur Am n i r hi hir]
  -- row i of U as held by M1
  have hUi : ∀ c, i ≤ c → c < n → P.zero? i c = false →
      rd M1 (P.rk i c) = (DenseLU.lu Am n).U i c := by
    intro c hic hc hp
    rw [p3 i c hi hc hp (by omega), hinv.rest i c hi hc hp (le_refl i) hic,
      lu_U_schur Am n i c hi hic]
  refine ⟨q1, ⟨?_, ?_, ?_⟩⟩
  · intro r c hr hc hp hrc hri
    rw [q3 r c hr hc hp (by omega)]
    by_cases hr' : r = i
    · subst hr'; exact hUi c hrc hc hp
    · rw [p3 r c hr hc hp (by omega)]
      exact hinv.U_eq r c hr hc hp hrc (by omega)
  · intro r c hr hc hp hcr hci
    rw [q3 r c hr hc hp (by omega)]
    by_cases hc' : c = i
    · subst hc'; exact hLi r hcr hr hp
    · rw [p3 r c hr hc hp (by omega)]
      exact hinv.L_eq r c hr hc hp hcr (by omega)
  · intro r c hr hc hp hir hic
    rw [schur_succ]
    by_cases ht : P.zero? r i = false ∧ P.zero? i c = false
    · rw [q2 r c (by omega) hr (by omega) hc ht.1 ht.2, hLi r (by omega) hr ht.1,
        hUi c (by omega) hc ht.2, p3 r c hr hc hp (by omega),
        hinv.rest r c hr hc hp (by omega) (by omega)]
    · rw [q3 r c hr hc hp (fun hh => ht ⟨hh.2.2.1, hh.2.2.2⟩), p3 r c hr hc hp (by omega),
        hinv.rest r c hr hc hp (by omega) (by omega)]
      have hz : (DenseLU.lu Am n).L r i * (DenseLU.lu Am n).U i c = 0 := by
        cases h1 : P.zero? r i
        · cases h2 : P.zero? i c
          · exact absurd ⟨h1, h2⟩ ht
          · rw [offU i c hi hc h2 (by omega)]; ring
        · rw [offL r i hr hi h1 (by omega)]; ring
      rw [hz]; ring

theorem miRows_inv (h : IPSetup n P) (m0 : Array K) (hMs : m0.size = P.nnz) (m : Nat)
    (hm : m ≤ n) :
    (((List.range m).map (miRow P n)).foldl miStep m0).size = P.nnz ∧
    MozInv n P (view P m0) (DenseLU.lu (view P m0) n) m
      (((List.range m).map (miRow P n)).foldl miStep m0) := by
  induction m with
  | zero =>
    refine ⟨hMs, ⟨by intros; omega, by intros; omega, ?_⟩⟩
    intro r c _ _ hp _ _
    rw [schur_zero, view_present _ _ _ _ hp]
    rfl
  | succ m ih =>
    obtain ⟨g1, g2⟩ := ih (by omega)
    rw [List.range_succ, List.map_append, List.foldl_append]
    simp only [List.map_cons, List.map_nil, List.foldl_cons, List.foldl_nil]
    exact miStep_inv h (view P m0)
      (fun r c hp => view_absent _ _ _ _ ((pres_false _ _ _).mp hp)) _ m (by omega) g1 g2

/-- C03 core for `mozartInPlaceCell` -/
theorem mozartInPlaceCell_view (h : IPSetup n P) (hn : P.n = n) (m0 : Array K)
    (hMs : m0.size = P.nnz) (r c : Nat) (hr : r < n) (hc : c < n) :
    view P (mozartInPlaceCell (mozartInPlaceRows P) m0) r c
      = if c < r then (DenseLU.lu (view P m0) n).L r c else (DenseLU.lu (view P m0) n).U r c := by
  rw [mozartInPlaceCell_eq, mozartInPlaceRows_eq, hn]
  obtain ⟨_, hinv⟩ := miRows_inv h m0 hMs n (le_refl n)
  obtain ⟨offU, offL⟩ := ip_dense_off h (view P m0)
    (fun r c hp => view_absent _ _ _ _ ((pres_false _ _ _).mp hp))
  generalize ((List.range n).map (miRow P n)).foldl miStep m0 = M at hinv
  cases hp : P.zero? r c
  · rw [view_present _ _ _ _ hp]
    split
    · next hcr => exact hinv.L_eq r c hr hc hp hcr hc
    · next hcr => exact hinv.U_eq r c hr hc hp (by omega) hr
  · rw [view_absent _ _ _ _ hp]
    split
    · next hcr => exact (offL r c hr hc hp hcr).symm
    · next hcr => exact (offU r c hr hc hp (by omega)).symm

end mipRows

end Micm
