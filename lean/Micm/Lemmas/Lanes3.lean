/-
Lemmas for C13 (third part) and C07 (flat norm): lane theorems for the remaining flat-storage kernels
of `Micm/Model/FlatKernels3.lean` — Mozart, Doolittle-in-place and Mozart-in-place `Decompose`,
`LinearSolverInPlace::Solve`, `AlphaMinusJacobian`, `NormalizedError` — against the per-cell /
logical definitions of `Micm/Model/LU.lean`, `Micm/Model/Rosenbrock.lean`.

Method as in `Lanes.lean` / `Lanes2.lean` (`View n p F f`, `View.lanes_step`, `foldl_rel`,
`foldl_cells_rel`), plus
 * `l3_Keeps nnz nc L off X0 X`: `X` has the size of `X0` and differs from it at most at the lane
   addresses `off + k*L + l`, `k < nnz`, `l < nc` (the frame of one group, composable);
 * generic block loops `l3_flat_view`, `l3_flat_frame` (one array) and `l3_flat_views2`,
   `l3_flat_frame2` (pair `(L, U)` + read-only `A`): from "one group seen through lane `m` is the
   per-cell kernel" and "one group keeps everything but its own lanes" to the statement about
   `sparseRow`s, for `L = 0` and every `L ≥ 1`.
Core Lean only, no algebraic law on the carrier.
-/
import Micm.Model.FlatKernels3
import Micm.Lemmas.Lanes2
namespace Micm

/-! ### frames of one group -/
section Keeps
variable {α : Type} [OfNat α 0]

/-- `X` has the size of `X0` and agrees with it outside the lane addresses `off + k*L + l`,
    `k < nnz`, `l < nc` -/
def l3_Keeps (nnz nc L off : Nat) (X0 X : Array α) : Prop :=
  X.size = X0.size ∧ ∀ x, (∀ k l, k < nnz → l < nc → off + k * L + l ≠ x) → rd X x = rd X0 x

theorem l3_Keeps.refl (nnz nc L off : Nat) (X : Array α) : l3_Keeps nnz nc L off X X :=
  ⟨rfl, fun _ _ => rfl⟩

theorem l3_Keeps.trans {nnz nc L off : Nat} {X0 X1 X2 : Array α} (h1 : l3_Keeps nnz nc L off X0 X1)
    (h2 : l3_Keeps nnz nc L off X1 X2) : l3_Keeps nnz nc L off X0 X2 :=
  ⟨h2.1.trans h1.1, fun x hx => (h2.2 x hx).trans (h1.2 x hx)⟩

/-- a lane loop on element rank `t < nnz` -/
theorem l3_Keeps.lanes (nnz nc L off : Nat) (t : Nat) (ht : t < nnz) (v : Array α → Nat → α)
    (X : Array α) :
    l3_Keeps nnz nc L off X (lanesDo nc (fun F l => wr F (off + t * L + l) (v F l)) X) :=
  ⟨lanesDo_size nc _ v X, fun x hx => lanesDo_rd_miss nc _ v X x (fun l hl => hx t l ht hl)⟩

/-- a fold of steps each of which keeps the frame -/
theorem l3_Keeps.foldl {β : Type} {nnz nc L off : Nat} (S : Array α → β → Array α) (bs : List β)
    (h : ∀ b ∈ bs, ∀ X, l3_Keeps nnz nc L off X (S X b)) (X : Array α) :
    l3_Keeps nnz nc L off X (bs.foldl S X) := by
  induction bs generalizing X with
  | nil => exact l3_Keeps.refl ..
  | cons b bs ih =>
    rw [List.foldl_cons]
    exact (h b List.mem_cons_self X).trans (ih (fun c hc => h c (List.mem_cons_of_mem _ hc)) _)

/-- what a group keeps, every view at addresses it does not write keeps -/
theorem l3_Keeps.view {nnz nc L off : Nat} {X0 X : Array α} (hk : l3_Keeps nnz nc L off X0 X)
    {n : Nat} {p : Nat → Nat} {f : Array α} (h : View n p X0 f)
    (hp : ∀ j k l, j < n → k < nnz → l < nc → off + k * L + l ≠ p j) : View n p X f :=
  h.frame hk.1 (fun j hj => hk.2 _ (fun k l hk' hl => hp j k l hj hk' hl))

end Keeps

/-! ### generic block loops -/
section Loops
variable {α : Type} [OfNat α 0]

/-- one array: the flat loop over blocks (`L = 0`, one lane of stride 1) resp. groups (`L ≥ 1`,
    `min L (blocks - g*L)` lanes), block by block -/
theorem l3_flat_view (nnz : Nat) (G : Nat → Nat → Nat → Array α → Array α) (g : Array α → Array α)
    (hview : ∀ L nc m off, m < nc → nc ≤ L → ∀ M mm, View nnz (fun j => off + j * L + m) M mm →
      View nnz (fun j => off + j * L + m) (G L nc off M) (g mm))
    (hkeep : ∀ L nc off M, l3_Keeps nnz nc L off M (G L nc off M))
    (L blocks : Nat) (M : Array α) (hM : M.size = vectorSize L nnz blocks) (b : Nat) (hb : b < blocks) :
    View nnz (slot L nnz b)
      (if L = 0 then (List.range blocks).foldl (fun M b => G 1 1 (b * nnz) M) M
       else (List.range ((blocks + L - 1) / L)).foldl
        (fun M g => G L (min L (blocks - g * L)) (g * (L * nnz)) M) M)
      (g (sparseRow L nnz M b)) := by
  have V0 := View.initSparse L nnz blocks M hM b hb
  by_cases hL : L = 0
  · subst hL
    rw [if_pos rfl]
    simp only [slot_row] at V0 ⊢
    refine View.foldl_cells (fun M b' => G 1 1 (b' * nnz) M) g b (List.range blocks) List.nodup_range
      (List.mem_range.2 hb) ?_ ?_ V0
    · intro b' _ hne F f h
      refine (hkeep 1 1 (b' * nnz) F).view h ?_
      intro j k l hj hk hl e
      exact hne (mul_add_inj hk hj (by omega : b' * nnz + k = b * nnz + j)).1
    · intro F f h
      exact hview 1 1 0 (b * nnz) (by omega) (by omega) F f h
  · rw [if_neg hL]
    have hL' : 0 < L := Nat.pos_of_ne_zero hL
    have hm : b % L < L := Nat.mod_lt b hL'
    have hmc : b % L < min L (blocks - b / L * L) := by
      have := Nat.div_add_mod b L
      have e : L * (b / L) = b / L * L := Nat.mul_comm _ _
      omega
    simp only [slot_vec _ _ _ hL] at V0 ⊢
    refine View.foldl_cells (fun M g' => G L (min L (blocks - g' * L)) (g' * (L * nnz)) M) g (b / L)
      (List.range ((blocks + L - 1) / L)) List.nodup_range (List.mem_range.2 (div_lt_ceil hL' hb)) ?_ ?_ V0
    · intro g' _ hne F f h
      refine (hkeep L _ (g' * (L * nnz)) F).view h ?_
      intro j k l hj hk hl e
      rw [vec_addr_eq, vec_addr_eq] at e
      exact hne (mul_add_inj hk hj (mul_add_inj (by omega) hm e).1).1
    · intro F f h
      exact hview L _ (b % L) (b / L * (L * nnz)) hmc (Nat.min_le_left _ _) F f h

/-- one array: the flat loop keeps the size and writes only slots of real blocks -/
theorem l3_flat_frame (nnz : Nat) (G : Nat → Nat → Nat → Array α → Array α)
    (hkeep : ∀ L nc off M, l3_Keeps nnz nc L off M (G L nc off M)) (L blocks : Nat) (M : Array α) :
    (if L = 0 then (List.range blocks).foldl (fun M b => G 1 1 (b * nnz) M) M
       else (List.range ((blocks + L - 1) / L)).foldl
        (fun M g => G L (min L (blocks - g * L)) (g * (L * nnz)) M) M).size = M.size ∧
    ∀ x, (∀ b k, b < blocks → k < nnz → slot L nnz b k ≠ x) →
      rd (if L = 0 then (List.range blocks).foldl (fun M b => G 1 1 (b * nnz) M) M
       else (List.range ((blocks + L - 1) / L)).foldl
        (fun M g => G L (min L (blocks - g * L)) (g * (L * nnz)) M) M) x = rd M x := by
  by_cases hL : L = 0
  · subst hL
    rw [if_pos rfl]
    refine foldl_inv (fun X : Array α => X.size = M.size ∧
      ∀ x, (∀ b k, b < blocks → k < nnz → slot 0 nnz b k ≠ x) → rd X x = rd M x) _ _ ?_
      ⟨rfl, fun _ _ => rfl⟩
    intro b hb X hX
    have hb' := List.mem_range.1 hb
    obtain ⟨fs, fr⟩ := hkeep 1 1 (b * nnz) X
    refine ⟨fs.trans hX.1, fun x hx => ?_⟩
    rw [fr x (fun k l hk hl e => hx b k hb' hk (by simp only [slot_row]; omega)), hX.2 x hx]
  · rw [if_neg hL]
    refine foldl_inv (fun X : Array α => X.size = M.size ∧
      ∀ x, (∀ b k, b < blocks → k < nnz → slot L nnz b k ≠ x) → rd X x = rd M x) _ _ ?_
      ⟨rfl, fun _ _ => rfl⟩
    intro g _ X hX
    obtain ⟨fs, fr⟩ := hkeep L (min L (blocks - g * L)) (g * (L * nnz)) X
    refine ⟨fs.trans hX.1, fun x hx => ?_⟩
    rw [fr x (fun k l hk hl e => hx (g * L + l) k (by omega) hk
      (by rw [slot_vec_lane L nnz g l k hL (by omega)]; exact e)), hX.2 x hx]

/-- pair `(L, U)` written, `A` read: the flat loop, block by block -/
theorem l3_flat_views2 (nnzA nnzL nnzU : Nat) (A : Array α)
    (G : Nat → Nat → Nat → Nat → Nat → Array α × Array α → Array α × Array α)
    (g : Array α → Array α × Array α → Array α × Array α)
    (hview : ∀ L nc m offA offL offU a, m < nc → nc ≤ L →
      (∀ k, k < nnzA → rd A (offA + k * L + m) = rd a k) → ∀ S s : Array α × Array α,
      View nnzL (fun j => offL + j * L + m) S.1 s.1 ∧ View nnzU (fun j => offU + j * L + m) S.2 s.2 →
      View nnzL (fun j => offL + j * L + m) (G L nc offA offL offU S).1 (g a s).1 ∧
      View nnzU (fun j => offU + j * L + m) (G L nc offA offL offU S).2 (g a s).2)
    (hkeep : ∀ L nc offA offL offU S, l3_Keeps nnzL nc L offL S.1 (G L nc offA offL offU S).1 ∧
      l3_Keeps nnzU nc L offU S.2 (G L nc offA offL offU S).2)
    (L blocks : Nat) (Lo Up : Array α)
    (hLo : Lo.size = vectorSize L nnzL blocks) (hUp : Up.size = vectorSize L nnzU blocks)
    (b : Nat) (hb : b < blocks) :
    View nnzL (slot L nnzL b)
      (if L = 0 then (List.range blocks).foldl (fun LU b => G 1 1 (b * nnzA) (b * nnzL) (b * nnzU) LU) (Lo, Up)
       else (List.range ((blocks + L - 1) / L)).foldl (fun LU g =>
        G L (min L (blocks - g * L)) (g * (L * nnzA)) (g * (L * nnzL)) (g * (L * nnzU)) LU) (Lo, Up)).1
      (g (sparseRow L nnzA A b) (sparseRow L nnzL Lo b, sparseRow L nnzU Up b)).1 ∧
    View nnzU (slot L nnzU b)
      (if L = 0 then (List.range blocks).foldl (fun LU b => G 1 1 (b * nnzA) (b * nnzL) (b * nnzU) LU) (Lo, Up)
       else (List.range ((blocks + L - 1) / L)).foldl (fun LU g =>
        G L (min L (blocks - g * L)) (g * (L * nnzA)) (g * (L * nnzL)) (g * (L * nnzU)) LU) (Lo, Up)).2
      (g (sparseRow L nnzA A b) (sparseRow L nnzL Lo b, sparseRow L nnzU Up b)).2 := by
  have VL := View.initSparse L nnzL blocks Lo hLo b hb
  have VU := View.initSparse L nnzU blocks Up hUp b hb
  by_cases hL : L = 0
  · subst hL
    rw [if_pos rfl]
    simp only [slot_row] at VL VU ⊢
    have hA : ∀ k, k < nnzA → rd A (b * nnzA + k * 1 + 0) = rd (sparseRow 0 nnzA A b) k := by
      intro k hk
      rw [rd_sparseRow _ _ _ _ _ hk, slot_row]
    refine foldl_cells_rel
      (fun (S s : Array α × Array α) => View nnzL (fun k => b * nnzL + k * 1 + 0) S.1 s.1 ∧
        View nnzU (fun k => b * nnzU + k * 1 + 0) S.2 s.2)
      (fun S b' => G 1 1 (b' * nnzA) (b' * nnzL) (b' * nnzU) S)
      (fun s => g (sparseRow 0 nnzA A b) s)
      b (List.range blocks) List.nodup_range (List.mem_range.2 hb) ?_ ?_
      (S := (Lo, Up)) (s := (sparseRow 0 nnzL Lo b, sparseRow 0 nnzU Up b)) ⟨VL, VU⟩
    · intro b' _ hne S s h
      obtain ⟨kL, kU⟩ := hkeep 1 1 (b' * nnzA) (b' * nnzL) (b' * nnzU) S
      refine ⟨kL.view h.1 ?_, kU.view h.2 ?_⟩
      · intro j k l hj hk hl e
        exact hne (mul_add_inj hk hj (by omega : b' * nnzL + k = b * nnzL + j)).1
      · intro j k l hj hk hl e
        exact hne (mul_add_inj hk hj (by omega : b' * nnzU + k = b * nnzU + j)).1
    · intro S s h
      exact hview 1 1 0 _ _ _ _ (by omega) (by omega) hA S s h
  · rw [if_neg hL]
    have hL' : 0 < L := Nat.pos_of_ne_zero hL
    have hm : b % L < L := Nat.mod_lt b hL'
    have hmc : b % L < min L (blocks - b / L * L) := by
      have := Nat.div_add_mod b L
      have e : L * (b / L) = b / L * L := Nat.mul_comm _ _
      omega
    simp only [slot_vec _ _ _ hL] at VL VU ⊢
    have hA : ∀ k, k < nnzA →
        rd A (b / L * (L * nnzA) + k * L + b % L) = rd (sparseRow L nnzA A b) k := by
      intro k hk
      rw [rd_sparseRow _ _ _ _ _ hk, slot_vec _ _ _ hL]
    refine foldl_cells_rel
      (fun (S s : Array α × Array α) => View nnzL (fun k => b / L * (L * nnzL) + k * L + b % L) S.1 s.1 ∧
        View nnzU (fun k => b / L * (L * nnzU) + k * L + b % L) S.2 s.2)
      (fun S g' => G L (min L (blocks - g' * L)) (g' * (L * nnzA)) (g' * (L * nnzL)) (g' * (L * nnzU)) S)
      (fun s => g (sparseRow L nnzA A b) s)
      (b / L) (List.range ((blocks + L - 1) / L)) List.nodup_range
      (List.mem_range.2 (div_lt_ceil hL' hb)) ?_ ?_
      (S := (Lo, Up)) (s := (sparseRow L nnzL Lo b, sparseRow L nnzU Up b)) ⟨VL, VU⟩
    · intro g' _ hne S s h
      obtain ⟨kL, kU⟩ := hkeep L (min L (blocks - g' * L)) (g' * (L * nnzA)) (g' * (L * nnzL))
        (g' * (L * nnzU)) S
      refine ⟨kL.view h.1 ?_, kU.view h.2 ?_⟩
      · intro j k l hj hk hl e
        rw [vec_addr_eq, vec_addr_eq] at e
        exact hne (mul_add_inj hk hj (mul_add_inj (by omega) hm e).1).1
      · intro j k l hj hk hl e
        rw [vec_addr_eq, vec_addr_eq] at e
        exact hne (mul_add_inj hk hj (mul_add_inj (by omega) hm e).1).1
    · intro S s h
      exact hview L _ (b % L) _ _ _ _ hmc (Nat.min_le_left _ _) hA S s h

/-- pair: the flat loop keeps the sizes and writes only slots of real blocks -/
theorem l3_flat_frame2 (nnzA nnzL nnzU : Nat)
    (G : Nat → Nat → Nat → Nat → Nat → Array α × Array α → Array α × Array α)
    (hkeep : ∀ L nc offA offL offU S, l3_Keeps nnzL nc L offL S.1 (G L nc offA offL offU S).1 ∧
      l3_Keeps nnzU nc L offU S.2 (G L nc offA offL offU S).2)
    (L blocks : Nat) (LU : Array α × Array α) (R : Array α × Array α)
    (hR : R = if L = 0 then (List.range blocks).foldl (fun LU b => G 1 1 (b * nnzA) (b * nnzL) (b * nnzU) LU) LU
       else (List.range ((blocks + L - 1) / L)).foldl (fun LU g =>
        G L (min L (blocks - g * L)) (g * (L * nnzA)) (g * (L * nnzL)) (g * (L * nnzU)) LU) LU) :
    (R.1.size = LU.1.size ∧
      ∀ x, (∀ b k, b < blocks → k < nnzL → slot L nnzL b k ≠ x) → rd R.1 x = rd LU.1 x) ∧
    (R.2.size = LU.2.size ∧
      ∀ x, (∀ b k, b < blocks → k < nnzU → slot L nnzU b k ≠ x) → rd R.2 x = rd LU.2 x) := by
  subst hR
  by_cases hL : L = 0
  · subst hL
    rw [if_pos rfl]
    refine foldl_inv (fun X : Array α × Array α =>
      (X.1.size = LU.1.size ∧ ∀ x, (∀ b k, b < blocks → k < nnzL → slot 0 nnzL b k ≠ x) → rd X.1 x = rd LU.1 x) ∧
      (X.2.size = LU.2.size ∧ ∀ x, (∀ b k, b < blocks → k < nnzU → slot 0 nnzU b k ≠ x) → rd X.2 x = rd LU.2 x))
      _ _ ?_ ⟨⟨rfl, fun _ _ => rfl⟩, ⟨rfl, fun _ _ => rfl⟩⟩
    intro b hb X ⟨hXL, hXU⟩
    have hb' := List.mem_range.1 hb
    obtain ⟨fL, fU⟩ := hkeep 1 1 (b * nnzA) (b * nnzL) (b * nnzU) X
    refine ⟨⟨fL.1.trans hXL.1, fun x hx => ?_⟩, ⟨fU.1.trans hXU.1, fun x hx => ?_⟩⟩
    · rw [fL.2 x (fun k l hk hl e => hx b k hb' hk (by simp only [slot_row]; omega)), hXL.2 x hx]
    · rw [fU.2 x (fun k l hk hl e => hx b k hb' hk (by simp only [slot_row]; omega)), hXU.2 x hx]
  · rw [if_neg hL]
    refine foldl_inv (fun X : Array α × Array α =>
      (X.1.size = LU.1.size ∧ ∀ x, (∀ b k, b < blocks → k < nnzL → slot L nnzL b k ≠ x) → rd X.1 x = rd LU.1 x) ∧
      (X.2.size = LU.2.size ∧ ∀ x, (∀ b k, b < blocks → k < nnzU → slot L nnzU b k ≠ x) → rd X.2 x = rd LU.2 x))
      _ _ ?_ ⟨⟨rfl, fun _ _ => rfl⟩, ⟨rfl, fun _ _ => rfl⟩⟩
    intro g _ X ⟨hXL, hXU⟩
    obtain ⟨fL, fU⟩ := hkeep L (min L (blocks - g * L)) (g * (L * nnzA)) (g * (L * nnzL)) (g * (L * nnzU)) X
    refine ⟨⟨fL.1.trans hXL.1, fun x hx => ?_⟩, ⟨fU.1.trans hXU.1, fun x hx => ?_⟩⟩
    · rw [fL.2 x (fun k l hk hl e => hx (g * L + l) k (by omega) hk
        (by rw [slot_vec_lane L nnzL g l k hL (by omega)]; exact e)), hXL.2 x hx]
    · rw [fU.2 x (fun k l hk hl e => hx (g * L + l) k (by omega) hk
        (by rw [slot_vec_lane L nnzU g l k hL (by omega)]; exact e)), hXU.2 x hx]

/-- slots of a block beyond the real ones are not slots of real blocks -/
theorem l3_sparseRow_padding {nnz L blocks : Nat} {R M : Array α}
    (h : ∀ x, (∀ b k, b < blocks → k < nnz → slot L nnz b k ≠ x) → rd R x = rd M x)
    (b : Nat) (hb : blocks ≤ b) : sparseRow L nnz R b = sparseRow L nnz M b := by
  unfold sparseRow
  congr 1
  refine List.map_congr_left (fun k hk => h _ (fun b' k' hb' hk' e => ?_))
  have := (slot_inj' hk' (List.mem_range.1 hk) e).1
  omega

end Loops

/-! ### range predicates on the tables -/

/-- element ranks of an in-place Doolittle entry are inside the pattern -/
def DIEntry.InRange (e : DIEntry) (nnz : Nat) : Prop :=
  e.t < nnz ∧ ∀ p ∈ e.pairs, p.1 < nnz ∧ p.2 < nnz

/-- all element ranks of one row of the in-place Doolittle tables are inside the pattern -/
def DIRow.InRange (r : DIRow) (nnz : Nat) : Prop :=
  r.aii < nnz ∧ (∀ e ∈ r.u, e.InRange nnz) ∧ ∀ e ∈ r.l, e.InRange nnz

/-- all element ranks of one row of the in-place Mozart tables are inside the pattern -/
def MIRow.InRange (r : MIRow) (nnz : Nat) : Prop :=
  r.aii < nnz ∧ (∀ i ∈ r.aji, i < nnz) ∧
  ∀ k ∈ r.ks, k.aik < nnz ∧ ∀ p ∈ k.pairs, p.1 < nnz ∧ p.2 < nnz

/-- the element `a_ik` the vector kernel re-reads in every iteration of the `(a_jk, a_ji)` loop is
    not one of the elements `a_jk` that loop writes (the per-cell kernel reads it once, before) -/
def MIRow.Distinct (r : MIRow) : Prop := ∀ k ∈ r.ks, ∀ p ∈ k.pairs, p.1 ≠ k.aik

/-- element ranks of one column of the Mozart initialisation tables are inside the patterns -/
def MInit.InRange (r : MInit) (nnzA nnzL nnzU : Nat) : Prop :=
  r.lii < nnzL ∧ (∀ p ∈ r.ujiAji, p.1 < nnzU ∧ p.2 < nnzA) ∧ (∀ p ∈ r.ljiAji, p.1 < nnzL ∧ p.2 < nnzA) ∧
  (∀ i ∈ r.fillU, i < nnzU) ∧ ∀ i ∈ r.fillL, i < nnzL

/-- element ranks of one stage of the Mozart tables are inside the patterns of L, U -/
def MRow.InRange (r : MRow) (nnzL nnzU : Nat) : Prop :=
  r.uii < nnzU ∧ (∀ i ∈ r.lji, i < nnzL) ∧
  ∀ k ∈ r.ks, k.uik < nnzU ∧ (∀ p ∈ k.ujk, p.1 < nnzU ∧ p.2 < nnzL) ∧ ∀ p ∈ k.ljk, p.1 < nnzL ∧ p.2 < nnzL

instance (e : DIEntry) (nnz : Nat) : Decidable (e.InRange nnz) := by
  unfold DIEntry.InRange; infer_instance
instance (r : DIRow) (nnz : Nat) : Decidable (r.InRange nnz) := by
  unfold DIRow.InRange; infer_instance
instance (r : MIRow) (nnz : Nat) : Decidable (r.InRange nnz) := by
  unfold MIRow.InRange; infer_instance
instance (r : MIRow) : Decidable r.Distinct := by
  unfold MIRow.Distinct; infer_instance
instance (r : MInit) (nnzA nnzL nnzU : Nat) : Decidable (r.InRange nnzA nnzL nnzU) := by
  unfold MInit.InRange; infer_instance
instance (r : MRow) (nnzL nnzU : Nat) : Decidable (r.InRange nnzL nnzU) := by
  unfold MRow.InRange; infer_instance

/-! ### in-place decompositions -/
section InPlace
variable {α : Type} [OfNat α 0] [OfNat α 1] [Sub α] [Mul α] [Div α]

omit [OfNat α 1] [Div α] in
/-- `for l: M[t] -= M[p1] * M[p2]` on one lane -/
theorem l3_subMul_step {nnz : Nat} (L nc m off : Nat) (hm : m < nc) (hnc : nc ≤ L) (t p1 p2 : Nat)
    (ht : t < nnz) (h1 : p1 < nnz) (h2 : p2 < nnz) {X x : Array α}
    (h : View nnz (fun j => off + j * L + m) X x) :
    View nnz (fun j => off + j * L + m)
      (lanesDo nc (fun M l => wr M (off + t * L + l)
        (rd M (off + t * L + l) - rd M (off + p1 * L + l) * rd M (off + p2 * L + l))) X)
      (wr x t (rd x t - rd x p1 * rd x p2)) := by
  refine View.lanes_step L nc m off hm hnc t ht
    (fun M l => rd M (off + t * L + l) - rd M (off + p1 * L + l) * rd M (off + p2 * L + l))
    (fun x => rd x t - rd x p1 * rd x p2) ?_ h
  intro F f hF
  rw [hF.val t ht, hF.val p1 h1, hF.val p2 h2]

omit [OfNat α 1] in
/-- one group of the in-place Doolittle kernel, seen through lane `m < nc`, is
    `doolittleInPlaceCell` on that lane's block -/
theorem doolittleInPlaceVecGroup_view (L nc m : Nat) (hm : m < nc) (hnc : nc ≤ L) (rows : List DIRow)
    (nnz : Nat) (hrows : ∀ r ∈ rows, r.InRange nnz) (off : Nat) (M mm : Array α)
    (h : View nnz (fun j => off + j * L + m) M mm) :
    View nnz (fun j => off + j * L + m) (doolittleInPlaceVecGroup L nc rows off M)
      (doolittleInPlaceCell rows mm) := by
  unfold doolittleInPlaceVecGroup doolittleInPlaceCell
  refine foldl_rel (View nnz (fun j => off + j * L + m)) _ _ rows ?_ h
  intro r hr X x hX
  obtain ⟨haii, hu, hl⟩ := hrows r hr
  simp only
  refine foldl_rel (View nnz (fun j => off + j * L + m)) _ _ r.l ?_
    (foldl_rel (View nnz (fun j => off + j * L + m)) _ _ r.u ?_ hX)
  · intro e he X x hX
    obtain ⟨het, hep⟩ := hl e he
    refine View.lanes_step L nc m off hm hnc e.t het
      (fun M l => rd M (off + e.t * L + l) / rd M (off + r.aii * L + l))
      (fun x => rd x e.t / rd x r.aii) ?_ ?_
    · intro F f hF
      rw [hF.val e.t het, hF.val r.aii haii]
    refine foldl_rel (View nnz (fun j => off + j * L + m)) _ _ e.pairs ?_ hX
    intro p hp X x hX
    exact l3_subMul_step L nc m off hm hnc e.t p.1 p.2 het (hep p hp).1 (hep p hp).2 hX
  · intro e he X x hX
    obtain ⟨het, hep⟩ := hu e he
    refine foldl_rel (View nnz (fun j => off + j * L + m)) _ _ e.pairs ?_ hX
    intro p hp X x hX
    exact l3_subMul_step L nc m off hm hnc e.t p.1 p.2 het (hep p hp).1 (hep p hp).2 hX

omit [OfNat α 1] in
/-- one group writes only `off + k * L + l`, `k < nnz`, `l < nc` -/
theorem doolittleInPlaceVecGroup_keeps (L nc : Nat) (rows : List DIRow) (nnz : Nat)
    (hrows : ∀ r ∈ rows, r.InRange nnz) (off : Nat) (M : Array α) :
    l3_Keeps nnz nc L off M (doolittleInPlaceVecGroup L nc rows off M) := by
  unfold doolittleInPlaceVecGroup
  refine l3_Keeps.foldl _ rows ?_ M
  intro r hr X
  obtain ⟨_, hu, hl⟩ := hrows r hr
  simp only
  refine (l3_Keeps.foldl _ r.u ?_ X).trans (l3_Keeps.foldl _ r.l ?_ _)
  · intro e he X
    refine l3_Keeps.foldl _ e.pairs ?_ X
    intro p _ X
    exact l3_Keeps.lanes nnz nc L off e.t (hu e he).1 _ X
  · intro e he X
    refine (l3_Keeps.foldl _ e.pairs ?_ X).trans (l3_Keeps.lanes nnz nc L off e.t (hl e he).1 _ _)
    intro p _ X
    exact l3_Keeps.lanes nnz nc L off e.t (hl e he).1 _ X

omit [OfNat α 1] [Div α] in
/-- the `(a_jk, a_ji)` loop of one `k` of the in-place Mozart kernel: the vector kernel re-reads
    `a_ik` in every iteration, the per-cell kernel uses the value `a` read before the loop; they
    agree because the loop does not write `a_ik` -/
theorem l3_mipK_view {nnz : Nat} (L nc m off : Nat) (hm : m < nc) (hnc : nc ≤ L) (aik : Nat)
    (haik : aik < nnz) (ps : List (Nat × Nat)) (hps : ∀ p ∈ ps, p.1 < nnz ∧ p.2 < nnz)
    (hd : ∀ p ∈ ps, p.1 ≠ aik) (a : α) (X x : Array α) (hx : rd x aik = a)
    (h : View nnz (fun j => off + j * L + m) X x) :
    View nnz (fun j => off + j * L + m)
      (ps.foldl (fun M p => lanesDo nc (fun M l => wr M (off + p.1 * L + l)
        (rd M (off + p.1 * L + l) - rd M (off + p.2 * L + l) * rd M (off + aik * L + l))) M) X)
      (ps.foldl (fun M p => wr M p.1 (rd M p.1 - rd M p.2 * a)) x) := by
  induction ps generalizing X x with
  | nil => exact h
  | cons p ps ih =>
    rw [List.foldl_cons, List.foldl_cons]
    have hp := hps p List.mem_cons_self
    refine ih (fun q hq => hps q (List.mem_cons_of_mem _ hq)) (fun q hq => hd q (List.mem_cons_of_mem _ hq))
      _ _ ?_ ?_
    · rw [rd_wr_ne _ _ _ _ (hd p List.mem_cons_self), hx]
    · have := l3_subMul_step L nc m off hm hnc p.1 p.2 aik hp.1 hp.2 haik h
      rw [hx] at this
      exact this

/-- one group of the in-place Mozart kernel, seen through lane `m < nc`, is `mozartInPlaceCell` on
    that lane's block.  The `L`-lane buffer `inv` is computed before the `a_ji` loop, as is the
    per-cell `inv`: no hypothesis on `aii` versus `aji` is needed. -/
theorem mozartInPlaceVecGroup_view (L nc m : Nat) (hm : m < nc) (hnc : nc ≤ L) (rows : List MIRow)
    (nnz : Nat) (hrows : ∀ r ∈ rows, r.InRange nnz) (hdist : ∀ r ∈ rows, r.Distinct) (off : Nat)
    (M mm : Array α) (h : View nnz (fun j => off + j * L + m) M mm) :
    View nnz (fun j => off + j * L + m) (mozartInPlaceVecGroup L nc rows off M)
      (mozartInPlaceCell rows mm) := by
  unfold mozartInPlaceVecGroup mozartInPlaceCell
  refine foldl_rel (View nnz (fun j => off + j * L + m)) _ _ rows ?_ h
  intro r hr X x hX
  obtain ⟨haii, haji, hks⟩ := hrows r hr
  simp only
  refine foldl_rel (View nnz (fun j => off + j * L + m)) _ _ r.ks ?_
    (foldl_rel (View nnz (fun j => off + j * L + m)) _ _ r.aji ?_ hX)
  · intro k hk Y y hY
    exact l3_mipK_view L nc m off hm hnc k.aik (hks k hk).1 k.pairs (hks k hk).2 (hdist r hr k hk)
      _ Y y rfl hY
  · intro i hi Y y hY
    refine View.lanes_step L nc m off hm hnc i (haji i hi)
      (fun M l => rd M (off + i * L + l) *
        rd ((List.range nc).map fun l => (1 : α) / rd X (off + r.aii * L + l)).toArray l)
      (fun y => rd y i * (1 / rd x r.aii)) ?_ hY
    intro F f hF
    rw [hF.val i (haji i hi), rd_map_range _ _ _ hm, hX.val r.aii haii]

theorem mozartInPlaceVecGroup_keeps (L nc : Nat) (rows : List MIRow) (nnz : Nat)
    (hrows : ∀ r ∈ rows, r.InRange nnz) (off : Nat) (M : Array α) :
    l3_Keeps nnz nc L off M (mozartInPlaceVecGroup L nc rows off M) := by
  unfold mozartInPlaceVecGroup
  refine l3_Keeps.foldl _ rows ?_ M
  intro r hr X
  obtain ⟨_, haji, hks⟩ := hrows r hr
  simp only
  refine (l3_Keeps.foldl _ r.aji ?_ X).trans (l3_Keeps.foldl _ r.ks ?_ _)
  · intro i hi X'
    exact l3_Keeps.lanes nnz nc L off i (haji i hi) _ X'
  · intro k hk X'
    refine l3_Keeps.foldl _ k.pairs ?_ X'
    intro p hp X''
    exact l3_Keeps.lanes nnz nc L off p.1 ((hks k hk).2 p hp).1 _ X''

end InPlace

/-! ### LuDecompositionMozart::Decompose -/
section Mozart
variable {α : Type} [OfNat α 0] [OfNat α 1] [Sub α] [Mul α] [Div α]

omit [OfNat α 1] [Sub α] [Mul α] [Div α] in
/-- `for (t, s) in ps: for l: X[t] := A[s]` on one lane -/
theorem l3_copy_view {nnz nnzA : Nat} (L nc m off offA : Nat) (hm : m < nc) (hnc : nc ≤ L) (A a : Array α)
    (hA : ∀ k, k < nnzA → rd A (offA + k * L + m) = rd a k) (ps : List (Nat × Nat))
    (hps : ∀ p ∈ ps, p.1 < nnz ∧ p.2 < nnzA) {X x : Array α}
    (h : View nnz (fun j => off + j * L + m) X x) :
    View nnz (fun j => off + j * L + m)
      (ps.foldl (fun U p => lanesDo nc (fun U l => wr U (off + p.1 * L + l) (rd A (offA + p.2 * L + l))) U) X)
      (ps.foldl (fun U p => wr U p.1 (rd a p.2)) x) := by
  refine foldl_rel (View nnz (fun j => off + j * L + m)) _ _ ps ?_ h
  intro p hp Y y hY
  refine View.lanes_step L nc m off hm hnc p.1 (hps p hp).1 (fun _ l => rd A (offA + p.2 * L + l))
    (fun _ => rd a p.2) ?_ hY
  intro _ _ _
  exact hA p.2 (hps p hp).2

omit [OfNat α 1] [Sub α] [Mul α] [Div α] in
/-- `for t in ts: for l: X[t] := c` on one lane -/
theorem l3_fill_view {nnz : Nat} (L nc m off : Nat) (hm : m < nc) (hnc : nc ≤ L) (c : α) (ts : List Nat)
    (hts : ∀ i ∈ ts, i < nnz) {X x : Array α} (h : View nnz (fun j => off + j * L + m) X x) :
    View nnz (fun j => off + j * L + m)
      (ts.foldl (fun U i => lanesDo nc (fun U l => wr U (off + i * L + l) c) U) X)
      (ts.foldl (fun U i => wr U i c) x) := by
  refine foldl_rel (View nnz (fun j => off + j * L + m)) _ _ ts ?_ h
  intro i hi Y y hY
  exact View.lanes_step L nc m off hm hnc i (hts i hi) (fun _ _ => c) (fun _ => c) (fun _ _ _ => rfl) hY

omit [OfNat α 1] [Div α] in
/-- the `(u_jk, l_ji)` loop of one `k`: `U[ujk] -= Lo[lji] * U[uik]` (`Lo` read only) -/
theorem l3_moz_ujk_view {nnzL nnzU : Nat} (L nc m offL offU : Nat) (hm : m < nc) (hnc : nc ≤ L)
    (Lo lo : Array α) (hLo : ∀ k, k < nnzL → rd Lo (offL + k * L + m) = rd lo k) (uik : Nat)
    (huik : uik < nnzU) (ps : List (Nat × Nat)) (hps : ∀ p ∈ ps, p.1 < nnzU ∧ p.2 < nnzL) {U u : Array α}
    (h : View nnzU (fun j => offU + j * L + m) U u) :
    View nnzU (fun j => offU + j * L + m)
      (ps.foldl (fun U p => lanesDo nc (fun U l => wr U (offU + p.1 * L + l)
        (rd U (offU + p.1 * L + l) - rd Lo (offL + p.2 * L + l) * rd U (offU + uik * L + l))) U) U)
      (ps.foldl (fun U p => wr U p.1 (rd U p.1 - rd lo p.2 * rd U uik)) u) := by
  refine foldl_rel (View nnzU (fun j => offU + j * L + m)) _ _ ps ?_ h
  intro p hp Y y hY
  refine View.lanes_step L nc m offU hm hnc p.1 (hps p hp).1
    (fun U l => rd U (offU + p.1 * L + l) - rd Lo (offL + p.2 * L + l) * rd U (offU + uik * L + l))
    (fun u => rd u p.1 - rd lo p.2 * rd u uik) ?_ hY
  intro F f hF
  rw [hF.val p.1 (hps p hp).1, hF.val uik huik, hLo p.2 (hps p hp).2]

omit [OfNat α 1] [Div α] in
/-- the `(l_jk, l_ji)` loop of one `k`: `Lo[ljk] -= Lo[lji] * U[uik]` (`U` read only) -/
theorem l3_moz_ljk_view {nnzL nnzU : Nat} (L nc m offL offU : Nat) (hm : m < nc) (hnc : nc ≤ L)
    (U u : Array α) (hU : ∀ k, k < nnzU → rd U (offU + k * L + m) = rd u k) (uik : Nat)
    (huik : uik < nnzU) (ps : List (Nat × Nat)) (hps : ∀ p ∈ ps, p.1 < nnzL ∧ p.2 < nnzL) {Lo lo : Array α}
    (h : View nnzL (fun j => offL + j * L + m) Lo lo) :
    View nnzL (fun j => offL + j * L + m)
      (ps.foldl (fun Lo p => lanesDo nc (fun Lo l => wr Lo (offL + p.1 * L + l)
        (rd Lo (offL + p.1 * L + l) - rd Lo (offL + p.2 * L + l) * rd U (offU + uik * L + l))) Lo) Lo)
      (ps.foldl (fun Lo p => wr Lo p.1 (rd Lo p.1 - rd Lo p.2 * rd u uik)) lo) := by
  refine foldl_rel (View nnzL (fun j => offL + j * L + m)) _ _ ps ?_ h
  intro p hp Y y hY
  refine View.lanes_step L nc m offL hm hnc p.1 (hps p hp).1
    (fun Lo l => rd Lo (offL + p.1 * L + l) - rd Lo (offL + p.2 * L + l) * rd U (offU + uik * L + l))
    (fun lo => rd lo p.1 - rd lo p.2 * rd u uik) ?_ hY
  intro F f hF
  rw [hF.val p.1 (hps p hp).1, hF.val p.2 (hps p hp).2, hU uik huik]

/-- one group of the Mozart kernel, seen through lane `m < nc`, is `mozartCell` on that lane's
    block.  The `L`-lane buffer `inv` reads `U`, the `l_ji` loop writes `L`: no extra hypothesis. -/
theorem mozartVecGroup_view (L nc m : Nat) (hm : m < nc) (hnc : nc ≤ L) (ini : List MInit)
    (rows : List MRow) (nnzA nnzL nnzU : Nat) (hini : ∀ r ∈ ini, r.InRange nnzA nnzL nnzU)
    (hrows : ∀ r ∈ rows, r.InRange nnzL nnzU) (A a : Array α) (offA offL offU : Nat)
    (hA : ∀ k, k < nnzA → rd A (offA + k * L + m) = rd a k) (S s : Array α × Array α)
    (h : View nnzL (fun j => offL + j * L + m) S.1 s.1 ∧ View nnzU (fun j => offU + j * L + m) S.2 s.2) :
    View nnzL (fun j => offL + j * L + m) (mozartVecGroup L nc ini rows A offA offL offU S).1
        (mozartCell ini rows a s).1 ∧
    View nnzU (fun j => offU + j * L + m) (mozartVecGroup L nc ini rows A offA offL offU S).2
        (mozartCell ini rows a s).2 := by
  unfold mozartVecGroup mozartCell
  simp only
  -- phase 1: copy A
  have h1 := foldl_rel (fun (S s : Array α × Array α) =>
      View nnzL (fun j => offL + j * L + m) S.1 s.1 ∧ View nnzU (fun j => offU + j * L + m) S.2 s.2)
    (fun (LU : Array α × Array α) (r : MInit) =>
      ((r.ljiAji.foldl (fun Lo p => lanesDo nc (fun Lo l => wr Lo (offL + p.1 * L + l) (rd A (offA + p.2 * L + l))) Lo)
          (lanesDo nc (fun Lo l => wr Lo (offL + r.lii * L + l) 1) LU.1)),
       (r.ujiAji.foldl (fun U p => lanesDo nc (fun U l => wr U (offU + p.1 * L + l) (rd A (offA + p.2 * L + l))) U) LU.2)))
    (fun (LU : Array α × Array α) (r : MInit) =>
      ((r.ljiAji.foldl (fun L p => wr L p.1 (rd a p.2)) (wr LU.1 r.lii 1)),
       (r.ujiAji.foldl (fun U p => wr U p.1 (rd a p.2)) LU.2)))
    ini (by
      intro r hr X x ⟨hXL, hXU⟩
      obtain ⟨hlii, hu, hl, _, _⟩ := hini r hr
      exact ⟨l3_copy_view L nc m offL offA hm hnc A a hA r.ljiAji hl
          (View.lanes_step L nc m offL hm hnc r.lii hlii (fun _ _ => 1) (fun _ => 1) (fun _ _ _ => rfl) hXL),
        l3_copy_view L nc m offU offA hm hnc A a hA r.ujiAji hu hXU⟩) h
  -- phases 2, 3: fill
  have h2U := foldl_rel (View nnzU (fun j => offU + j * L + m))
    (fun U (r : MInit) => r.fillU.foldl (fun U i => lanesDo nc (fun U l => wr U (offU + i * L + l) 0) U) U)
    (fun U (r : MInit) => r.fillU.foldl (fun U i => wr U i 0) U) ini
    (fun r hr X x hX => l3_fill_view L nc m offU hm hnc 0 r.fillU (hini r hr).2.2.2.1 hX) h1.2
  have h2L := foldl_rel (View nnzL (fun j => offL + j * L + m))
    (fun Lo (r : MInit) => r.fillL.foldl (fun Lo i => lanesDo nc (fun Lo l => wr Lo (offL + i * L + l) 0) Lo) Lo)
    (fun Lo (r : MInit) => r.fillL.foldl (fun Lo i => wr Lo i 0) Lo) ini
    (fun r hr X x hX => l3_fill_view L nc m offL hm hnc 0 r.fillL (hini r hr).2.2.2.2 hX) h1.1
  -- the stages
  refine foldl_rel (fun (S s : Array α × Array α) =>
      View nnzL (fun j => offL + j * L + m) S.1 s.1 ∧ View nnzU (fun j => offU + j * L + m) S.2 s.2)
    _ _ rows ?_ ⟨h2L, h2U⟩
  intro r hr X x ⟨hXL, hXU⟩
  obtain ⟨huii, hlji, hks⟩ := hrows r hr
  refine foldl_rel (fun (S s : Array α × Array α) =>
      View nnzL (fun j => offL + j * L + m) S.1 s.1 ∧ View nnzU (fun j => offU + j * L + m) S.2 s.2)
    _ _ r.ks ?_ ⟨?_, hXU⟩
  · intro k hk Y y ⟨hYL, hYU⟩
    obtain ⟨huik, hujk, hljk⟩ := hks k hk
    have hU' := l3_moz_ujk_view L nc m offL offU hm hnc Y.1 y.1 (fun j hj => hYL.val j hj) k.uik huik
      k.ujk hujk hYU
    exact ⟨l3_moz_ljk_view L nc m offL offU hm hnc _ _ (fun j hj => hU'.val j hj) k.uik huik k.ljk hljk hYL,
      hU'⟩
  · refine foldl_rel (View nnzL (fun j => offL + j * L + m)) _ _ r.lji ?_ hXL
    intro i hi Y y hY
    refine View.lanes_step L nc m offL hm hnc i (hlji i hi)
      (fun Lo l => rd Lo (offL + i * L + l) *
        rd ((List.range nc).map fun l => (1 : α) / rd X.2 (offU + r.uii * L + l)).toArray l)
      (fun lo => rd lo i * (1 / rd x.2 r.uii)) ?_ hY
    intro F f hF
    rw [hF.val i (hlji i hi), rd_map_range _ _ _ hm, hXU.val r.uii huii]

omit [OfNat α 1] [Sub α] [Mul α] [Div α] in
/-- pair frame as an invariant of a fold -/
theorem l3_keeps2_foldl {β : Type} {nnzL nnzU nc L offL offU : Nat}
    (T : Array α × Array α → β → Array α × Array α) (bs : List β)
    (h : ∀ b ∈ bs, ∀ X, l3_Keeps nnzL nc L offL X.1 (T X b).1 ∧ l3_Keeps nnzU nc L offU X.2 (T X b).2)
    (X : Array α × Array α) :
    l3_Keeps nnzL nc L offL X.1 (bs.foldl T X).1 ∧ l3_Keeps nnzU nc L offU X.2 (bs.foldl T X).2 := by
  induction bs generalizing X with
  | nil => exact ⟨l3_Keeps.refl .., l3_Keeps.refl ..⟩
  | cons b bs ih =>
    rw [List.foldl_cons]
    have h1 := h b List.mem_cons_self X
    have h2 := ih (fun c hc => h c (List.mem_cons_of_mem _ hc)) (T X b)
    exact ⟨h1.1.trans h2.1, h1.2.trans h2.2⟩

/-- one group writes only `offL + k*L + l` (`k < nnzL`) in `L` and `offU + k*L + l` (`k < nnzU`)
    in `U`, `l < nc` -/
theorem mozartVecGroup_keeps (L nc : Nat) (ini : List MInit) (rows : List MRow) (nnzA nnzL nnzU : Nat)
    (hini : ∀ r ∈ ini, r.InRange nnzA nnzL nnzU) (hrows : ∀ r ∈ rows, r.InRange nnzL nnzU)
    (A : Array α) (offA offL offU : Nat) (S : Array α × Array α) :
    l3_Keeps nnzL nc L offL S.1 (mozartVecGroup L nc ini rows A offA offL offU S).1 ∧
    l3_Keeps nnzU nc L offU S.2 (mozartVecGroup L nc ini rows A offA offL offU S).2 := by
  unfold mozartVecGroup
  simp only
  have h1 := l3_keeps2_foldl (nnzL := nnzL) (nnzU := nnzU) (nc := nc) (L := L) (offL := offL) (offU := offU)
    (fun (LU : Array α × Array α) (r : MInit) =>
      ((r.ljiAji.foldl (fun Lo p => lanesDo nc (fun Lo l => wr Lo (offL + p.1 * L + l) (rd A (offA + p.2 * L + l))) Lo)
          (lanesDo nc (fun Lo l => wr Lo (offL + r.lii * L + l) 1) LU.1)),
       (r.ujiAji.foldl (fun U p => lanesDo nc (fun U l => wr U (offU + p.1 * L + l) (rd A (offA + p.2 * L + l))) U) LU.2)))
    ini (by
      intro r hr X
      obtain ⟨hlii, hu, hl, _, _⟩ := hini r hr
      refine ⟨(l3_Keeps.lanes nnzL nc L offL r.lii hlii _ X.1).trans (l3_Keeps.foldl _ r.ljiAji ?_ _),
        l3_Keeps.foldl _ r.ujiAji ?_ _⟩
      · intro p hp Y
        exact l3_Keeps.lanes nnzL nc L offL p.1 (hl p hp).1 _ Y
      · intro p hp Y
        exact l3_Keeps.lanes nnzU nc L offU p.1 (hu p hp).1 _ Y) S
  have h2U : ∀ U : Array α, l3_Keeps nnzU nc L offU U (ini.foldl (fun U (r : MInit) =>
      r.fillU.foldl (fun U i => lanesDo nc (fun U l => wr U (offU + i * L + l) 0) U) U) U) := by
    intro U
    refine l3_Keeps.foldl _ ini ?_ U
    intro r hr Y
    refine l3_Keeps.foldl _ r.fillU ?_ Y
    intro i hi Z
    exact l3_Keeps.lanes nnzU nc L offU i ((hini r hr).2.2.2.1 i hi) _ Z
  have h2L : ∀ Lo : Array α, l3_Keeps nnzL nc L offL Lo (ini.foldl (fun Lo (r : MInit) =>
      r.fillL.foldl (fun Lo i => lanesDo nc (fun Lo l => wr Lo (offL + i * L + l) 0) Lo) Lo) Lo) := by
    intro Lo
    refine l3_Keeps.foldl _ ini ?_ Lo
    intro r hr Y
    refine l3_Keeps.foldl _ r.fillL ?_ Y
    intro i hi Z
    exact l3_Keeps.lanes nnzL nc L offL i ((hini r hr).2.2.2.2 i hi) _ Z
  have h3 := l3_keeps2_foldl (nnzL := nnzL) (nnzU := nnzU) (nc := nc) (L := L) (offL := offL) (offU := offU)
    (fun (LU : Array α × Array α) (r : MRow) =>
      r.ks.foldl (fun (LU' : Array α × Array α) k =>
        ((k.ljk.foldl (fun Lo p => lanesDo nc (fun Lo l =>
            wr Lo (offL + p.1 * L + l) (rd Lo (offL + p.1 * L + l) - rd Lo (offL + p.2 * L + l) *
              rd (k.ujk.foldl (fun U p => lanesDo nc (fun U l =>
                wr U (offU + p.1 * L + l) (rd U (offU + p.1 * L + l) - rd LU'.1 (offL + p.2 * L + l) * rd U (offU + k.uik * L + l))) U) LU'.2)
                (offU + k.uik * L + l))) Lo) LU'.1),
         (k.ujk.foldl (fun U p => lanesDo nc (fun U l =>
            wr U (offU + p.1 * L + l) (rd U (offU + p.1 * L + l) - rd LU'.1 (offL + p.2 * L + l) * rd U (offU + k.uik * L + l))) U) LU'.2)))
        ((r.lji.foldl (fun Lo i => lanesDo nc (fun Lo l => wr Lo (offL + i * L + l) (rd Lo (offL + i * L + l) *
            rd ((List.range nc).map fun l => (1 : α) / rd LU.2 (offU + r.uii * L + l)).toArray l)) Lo) LU.1), LU.2))
    rows (by
      intro r hr X
      obtain ⟨_, hlji, hks⟩ := hrows r hr
      have hk := l3_keeps2_foldl (nnzL := nnzL) (nnzU := nnzU) (nc := nc) (L := L) (offL := offL) (offU := offU)
        (fun (LU' : Array α × Array α) (k : MK) =>
        ((k.ljk.foldl (fun Lo p => lanesDo nc (fun Lo l =>
            wr Lo (offL + p.1 * L + l) (rd Lo (offL + p.1 * L + l) - rd Lo (offL + p.2 * L + l) *
              rd (k.ujk.foldl (fun U p => lanesDo nc (fun U l =>
                wr U (offU + p.1 * L + l) (rd U (offU + p.1 * L + l) - rd LU'.1 (offL + p.2 * L + l) * rd U (offU + k.uik * L + l))) U) LU'.2)
                (offU + k.uik * L + l))) Lo) LU'.1),
         (k.ujk.foldl (fun U p => lanesDo nc (fun U l =>
            wr U (offU + p.1 * L + l) (rd U (offU + p.1 * L + l) - rd LU'.1 (offL + p.2 * L + l) * rd U (offU + k.uik * L + l))) U) LU'.2)))
        r.ks (by
          intro k hk Y
          obtain ⟨_, hujk, hljk⟩ := hks k hk
          refine ⟨l3_Keeps.foldl _ k.ljk ?_ _, l3_Keeps.foldl _ k.ujk ?_ _⟩
          · intro p hp Z
            exact l3_Keeps.lanes nnzL nc L offL p.1 (hljk p hp).1 _ Z
          · intro p hp Z
            exact l3_Keeps.lanes nnzU nc L offU p.1 (hujk p hp).1 _ Z)
        ((r.lji.foldl (fun Lo i => lanesDo nc (fun Lo l => wr Lo (offL + i * L + l) (rd Lo (offL + i * L + l) *
            rd ((List.range nc).map fun l => (1 : α) / rd X.2 (offU + r.uii * L + l)).toArray l)) Lo) X.1), X.2)
      refine ⟨(l3_Keeps.foldl _ r.lji ?_ X.1).trans hk.1, hk.2⟩
      intro i hi Z
      exact l3_Keeps.lanes nnzL nc L offL i (hlji i hi) _ Z)
  refine ⟨(h1.1.trans (h2L _)).trans (h3 _).1, (h1.2.trans (h2U _)).trans (h3 _).2⟩

end Mozart

/-! ### LinearSolverInPlace::Solve -/
section SolveIP
variable {α : Type} [OfNat α 0] [Sub α] [Mul α] [Div α]

/-- one forward row of `solveInPlaceVecGroup` (unit diagonal: no division) -/
def l3_fwRowFlat (L : Nat) (M : Array α) (offX offM : Nat) (r : SubRow) (i : Nat) (x : Array α) : Array α :=
  r.pairs.foldl (fun x p => lanesDo L (fun x l =>
    wr x (offX + i * L + l) (rd x (offX + i * L + l) - rd M (offM + p.1 * L + l) * rd x (offX + p.2 * L + l))) x) x

/-- one forward row of `solveInPlaceCell` -/
def l3_fwRowCell (M : Array α) (r : SubRow) (i : Nat) (x : Array α) : Array α :=
  r.pairs.foldl (fun x p => wr x i (rd x i - rd M p.1 * rd x p.2)) x

/-- a substitution pass with row program `row` and index successor `next` -/
def l3_pass (row : SubRow → Nat → Array α → Array α) (next : Nat → Nat) (rows : List SubRow)
    (s : Array α × Nat) : Array α × Nat :=
  rows.foldl (fun s r => (row r s.2 s.1, next s.2)) s

theorem solveInPlaceVecGroup_eq (L n : Nat) (fw bw : List SubRow) (M : Array α) (offX offM : Nat)
    (x : Array α) :
    solveInPlaceVecGroup L n fw bw M offX offM x =
      (l3_pass (subRowFlat L M offX offM) (fun i => if i = 0 then 0 else i - 1) bw
        ((l3_pass (l3_fwRowFlat L M offX offM) (fun i => i + 1) fw (x, 0)).1, n - 1)).1 := rfl

theorem solveInPlaceCell_eq_split (fw bw : List SubRow) (M x : Array α) :
    solveInPlaceCell fw bw M x =
      (l3_pass (subRowCell M) (fun i => if i = 0 then 0 else i - 1) bw
        ((l3_pass (l3_fwRowCell M) (fun i => i + 1) fw (x, 0)).1,
          (l3_pass (l3_fwRowCell M) (fun i => i + 1) fw (x, 0)).1.size - 1)).1 := rfl

omit [Sub α] [Mul α] [Div α] in
/-- a pass of a group, seen through a view, is the per-cell pass when every row is.  `Q i k` (index
    `i` with `k` rows still to do) keeps the row index inside `[0, n)`. -/
theorem l3_pass_view {n : Nat} (p : Nat → Nat) (R : SubRow → Prop)
    (rowF rowC : SubRow → Nat → Array α → Array α)
    (hrow : ∀ r i, R r → i < n → ∀ X x, View n p X x → View n p (rowF r i X) (rowC r i x))
    (next : Nat → Nat) (Q : Nat → Nat → Prop) (hQ : ∀ i k, Q i (k + 1) → i < n ∧ Q (next i) k)
    (rows : List SubRow) (hrows : ∀ r ∈ rows, R r) (X x : Array α) (i : Nat)
    (hi : Q i rows.length) (h : View n p X x) :
    View n p (l3_pass rowF next rows (X, i)).1 (l3_pass rowC next rows (x, i)).1 := by
  induction rows generalizing X x i with
  | nil => exact h
  | cons r rows ih =>
    obtain ⟨hi', hq⟩ := hQ i rows.length hi
    show View n p (l3_pass rowF next rows (rowF r i X, next i)).1 (l3_pass rowC next rows (rowC r i x, next i)).1
    exact ih (fun r' hr' => hrows r' (List.mem_cons_of_mem _ hr')) _ _ _ hq
      (hrow r i (hrows r List.mem_cons_self) hi' X x h)

omit [Sub α] [Mul α] [Div α] in
theorem l3_pass_keeps {n L offX : Nat} (rowF : SubRow → Nat → Array α → Array α)
    (hrow : ∀ r i, i < n → ∀ X, l3_Keeps n L L offX X (rowF r i X))
    (next : Nat → Nat) (Q : Nat → Nat → Prop) (hQ : ∀ i k, Q i (k + 1) → i < n ∧ Q (next i) k)
    (rows : List SubRow) (X : Array α) (i : Nat) (hi : Q i rows.length) :
    l3_Keeps n L L offX X (l3_pass rowF next rows (X, i)).1 := by
  induction rows generalizing X i with
  | nil => exact l3_Keeps.refl ..
  | cons r rows ih =>
    obtain ⟨hi', hq⟩ := hQ i rows.length hi
    show l3_Keeps n L L offX X (l3_pass rowF next rows (rowF r i X, next i)).1
    exact (hrow r i hi' X).trans (ih _ _ hq)

omit [Div α] in
theorem l3_fwRowFlat_view (L m : Nat) (hm : m < L) (n nnz : Nat) (M mm : Array α) (offX offM : Nat)
    (hM : ∀ k, k < nnz → rd M (offM + k * L + m) = rd mm k) (r : SubRow)
    (hr : ∀ p ∈ r.pairs, p.1 < nnz ∧ p.2 < n) (i : Nat) (hi : i < n) (X x : Array α)
    (h : View n (fun j => offX + j * L + m) X x) :
    View n (fun j => offX + j * L + m) (l3_fwRowFlat L M offX offM r i X) (l3_fwRowCell mm r i x) := by
  unfold l3_fwRowFlat l3_fwRowCell
  refine foldl_rel (View n (fun j => offX + j * L + m)) _ _ r.pairs ?_ h
  intro p hp X x hX
  refine View.lanes_step L L m offX hm (Nat.le_refl _) i hi
    (fun x l => rd x (offX + i * L + l) - rd M (offM + p.1 * L + l) * rd x (offX + p.2 * L + l))
    (fun x => rd x i - rd mm p.1 * rd x p.2) ?_ hX
  intro F f hF
  rw [hF.val i hi, hF.val p.2 (hr p hp).2, hM p.1 (hr p hp).1]

omit [Div α] in
theorem l3_fwRowFlat_keeps (L n : Nat) (M : Array α) (offX offM : Nat) (r : SubRow) (i : Nat) (hi : i < n)
    (X : Array α) : l3_Keeps n L L offX X (l3_fwRowFlat L M offX offM r i X) := by
  unfold l3_fwRowFlat
  refine l3_Keeps.foldl _ r.pairs ?_ X
  intro p _ Y
  exact l3_Keeps.lanes n L L offX i hi _ Y

theorem l3_subRowFlat_keeps (L n : Nat) (M : Array α) (offX offM : Nat) (r : SubRow) (i : Nat) (hi : i < n)
    (X : Array α) : l3_Keeps n L L offX X (subRowFlat L M offX offM r i X) := by
  obtain ⟨fs, fr⟩ := subRowFlat_frame L M offX offM r i X
  exact ⟨fs, fun x hx => fr x (fun l hl => hx i l hi hl)⟩

/-- one group of the in-place solve, seen through lane `m`, is `solveInPlaceCell` on that lane's
    cell.  The forward pass never reads the diagonal rank. -/
theorem solveInPlaceVecGroup_view (L m : Nat) (hm : m < L) (n nnz : Nat) (fw bw : List SubRow)
    (hfw : ∀ r ∈ fw, ∀ p ∈ r.pairs, p.1 < nnz ∧ p.2 < n) (hbw : ∀ r ∈ bw, r.InRange nnz n)
    (hfwl : fw.length ≤ n) (hbwl : bw.length ≤ n) (M mm : Array α) (offX offM : Nat)
    (hM : ∀ k, k < nnz → rd M (offM + k * L + m) = rd mm k)
    (X x : Array α) (h : View n (fun j => offX + j * L + m) X x) :
    View n (fun j => offX + j * L + m) (solveInPlaceVecGroup L n fw bw M offX offM X)
      (solveInPlaceCell fw bw mm x) := by
  rw [solveInPlaceVecGroup_eq, solveInPlaceCell_eq_split]
  have h1 := l3_pass_view (fun j => offX + j * L + m) (fun r : SubRow => ∀ p ∈ r.pairs, p.1 < nnz ∧ p.2 < n)
    (l3_fwRowFlat L M offX offM) (l3_fwRowCell mm)
    (fun r i hr hi X x hX => l3_fwRowFlat_view L m hm n nnz M mm offX offM hM r hr i hi X x hX)
    (fun i => i + 1) (fun i k => i + k ≤ n) (fun i k hik => ⟨by omega, by omega⟩) fw hfw X x 0 (by omega) h
  rw [h1.size]
  exact l3_pass_view (fun j => offX + j * L + m) (fun r : SubRow => r.InRange nnz n)
    (subRowFlat L M offX offM) (subRowCell mm)
    (fun r i hr hi X x hX => subRowFlat_view L m hm n nnz M mm offX offM hM r hr i hi X x hX)
    (fun i => if i = 0 then 0 else i - 1) (fun i k => k = 0 ∨ i < n)
    (fun i k hik => by
      have hi : i < n := by omega
      refine ⟨hi, Or.inr ?_⟩
      show (if i = 0 then 0 else i - 1) < n
      split <;> omega) bw hbw _ _ (n - 1) (by omega) h1

/-- a group keeps the size and writes only `offX + j * L + l`, `j < n`, `l < L` -/
theorem solveInPlaceVecGroup_keeps (L n : Nat) (fw bw : List SubRow) (hfwl : fw.length ≤ n)
    (hbwl : bw.length ≤ n) (M : Array α) (offX offM : Nat) (X : Array α) :
    l3_Keeps n L L offX X (solveInPlaceVecGroup L n fw bw M offX offM X) := by
  rw [solveInPlaceVecGroup_eq]
  have f1 := l3_pass_keeps (n := n) (L := L) (offX := offX) (l3_fwRowFlat L M offX offM)
    (fun r i hi X => l3_fwRowFlat_keeps L n M offX offM r i hi X)
    (fun i => i + 1) (fun i k => i + k ≤ n) (fun i k hik => ⟨by omega, by omega⟩) fw X 0 (by omega)
  have f2 := l3_pass_keeps (n := n) (L := L) (offX := offX) (subRowFlat L M offX offM)
    (fun r i hi X => l3_subRowFlat_keeps L n M offX offM r i hi X)
    (fun i => if i = 0 then 0 else i - 1) (fun i k => k = 0 ∨ i < n)
    (fun i k hik => by
      have hi : i < n := by omega
      refine ⟨hi, Or.inr ?_⟩
      show (if i = 0 then 0 else i - 1) < n
      split <;> omega) bw (l3_pass (l3_fwRowFlat L M offX offM) (fun i => i + 1) fw (X, 0)).1 (n - 1) (by omega)
  exact f1.trans f2

theorem solveInPlaceFlat_size (L nCells n : Nat) (fw bw : List SubRow) (hfwl : fw.length ≤ n)
    (hbwl : bw.length ≤ n) (nnz : Nat) (M x : Array α) :
    (solveInPlaceFlat L nCells n fw bw nnz M x).size = x.size := by
  unfold solveInPlaceFlat
  split
  · exact foldl_size_of_step _ (fun F _ => (solveInPlaceVecGroup_keeps 1 n fw bw hfwl hbwl M _ _ F).1) _ x
  · exact foldl_size_of_step _ (fun F _ => (solveInPlaceVecGroup_keeps L n fw bw hfwl hbwl M _ _ F).1) _ x

/-- the flat in-place solve, cell by cell: both layouts, every cell count -/
theorem solveInPlaceFlat_cell (L nCells n : Nat) (fw bw : List SubRow) (nnz : Nat)
    (hfw : ∀ r ∈ fw, ∀ p ∈ r.pairs, p.1 < nnz ∧ p.2 < n) (hbw : ∀ r ∈ bw, r.InRange nnz n)
    (hfwl : fw.length ≤ n) (hbwl : bw.length ≤ n) (M x : Array α)
    (hx : x.size = (DenseShape.mk nCells n L).size) (c : Nat) (hc : c < nCells) :
    flatRow ⟨nCells, n, L⟩ (solveInPlaceFlat L nCells n fw bw nnz M x) c
      = solveInPlaceCell fw bw (sparseRow L nnz M c) (flatRow ⟨nCells, n, L⟩ x c) := by
  have V0 := View.init ⟨nCells, n, L⟩ x hx c hc
  apply View.flatRow_eq
  unfold solveInPlaceFlat
  by_cases hL : L = 0
  · subst hL
    rw [if_pos rfl]
    simp only [addr_row1] at V0 ⊢
    have hM : ∀ k, k < nnz → rd M (c * nnz + k * 1 + 0) = rd (sparseRow 0 nnz M c) k := by
      intro k hk
      rw [rd_sparseRow _ _ _ _ _ hk, slot_row]
    refine View.foldl_cells
      (fun x c' => solveInPlaceVecGroup 1 n fw bw M (c' * n) (c' * nnz) x)
      (fun x => solveInPlaceCell fw bw (sparseRow 0 nnz M c) x)
      c (List.range nCells) List.nodup_range (List.mem_range.2 hc) ?_ ?_ V0
    · intro c' _ hne F f h
      refine (solveInPlaceVecGroup_keeps 1 n fw bw hfwl hbwl M (c' * n) (c' * nnz) F).view h ?_
      intro j i l hj hi hl e
      exact hne (mul_add_inj hi hj (by omega : c' * n + i = c * n + j)).1
    · intro F f h
      exact solveInPlaceVecGroup_view 1 0 (by omega) n nnz fw bw hfw hbw hfwl hbwl M _ _ _ hM F f h
  · rw [if_neg hL]
    have hL' : 0 < L := Nat.pos_of_ne_zero hL
    have hm : c % L < L := Nat.mod_lt c hL'
    simp only [addr_vec _ _ _ _ hL] at V0 ⊢
    have hM : ∀ k, k < nnz → rd M (c / L * (L * nnz) + k * L + c % L) = rd (sparseRow L nnz M c) k := by
      intro k hk
      rw [rd_sparseRow _ _ _ _ _ hk, slot_vec _ _ _ hL]
    refine View.foldl_cells
      (fun x g => solveInPlaceVecGroup L n fw bw M (g * (L * n)) (g * (L * nnz)) x)
      (fun x => solveInPlaceCell fw bw (sparseRow L nnz M c) x)
      (c / L) (List.range ((nCells + L - 1) / L)) List.nodup_range
      (List.mem_range.2 (div_lt_ceil hL' hc)) ?_ ?_ V0
    · intro g _ hne F f h
      refine (solveInPlaceVecGroup_keeps L n fw bw hfwl hbwl M (g * (L * n)) (g * (L * nnz)) F).view h ?_
      intro j i l hj hi hl e
      rw [vec_addr_eq, vec_addr_eq] at e
      exact hne (mul_add_inj hi hj (mul_add_inj hl hm e).1).1
    · intro F f h
      exact solveInPlaceVecGroup_view L (c % L) hm n nnz fw bw hfw hbw hfwl hbwl M _ _ _ hM F f h

end SolveIP

/-! ### AlphaMinusJacobian -/
section Alpha
variable {α : Type} [OfNat α 0] [Add α]

theorem l3_slot_row' (nnz b : Nat) : slot 0 nnz b = fun k => b * nnz + k := by
  funext k; simp only [slot, if_true]; omega

/-- number of blocks the vector kernels that run all `L` lanes process: `⌈blocks / L⌉ · L` -/
def paddedBlocks (L blocks : Nat) : Nat := if L = 0 then blocks else (blocks + L - 1) / L * L

theorem le_paddedBlocks (L blocks : Nat) : blocks ≤ paddedBlocks L blocks := by
  unfold paddedBlocks
  split
  · exact Nat.le_refl _
  · next hL =>
    have hL' : 0 < L := Nat.pos_of_ne_zero hL
    have h := Nat.div_add_mod (blocks + L - 1) L
    have h2 := Nat.mod_lt (blocks + L - 1) hL'
    have h3 : (blocks + L - 1) / L * L = L * ((blocks + L - 1) / L) := Nat.mul_comm _ _
    omega

theorem ceil_paddedBlocks (L blocks : Nat) (hL : L ≠ 0) :
    (paddedBlocks L blocks + L - 1) / L = (blocks + L - 1) / L := by
  have hL' : 0 < L := Nat.pos_of_ne_zero hL
  simp only [paddedBlocks, hL, if_false]
  have e : (blocks + L - 1) / L * L + L - 1 = (blocks + L - 1) / L * L + (L - 1) := by omega
  rw [e, mul_add_div (by omega)]

theorem vectorSize_paddedBlocks (L nnz blocks : Nat) :
    vectorSize L nnz (paddedBlocks L blocks) = vectorSize L nnz blocks := by
  by_cases hL : L = 0
  · simp [paddedBlocks, hL]
  · simp only [vectorSize, hL, if_false, ceil_paddedBlocks L blocks hL]

theorem alphaMinusJacobianFlat_padded (L blocks nnz : Nat) (diag : List Nat) (J : Array α) (alpha : α) :
    alphaMinusJacobianFlat L (paddedBlocks L blocks) nnz diag J alpha
      = alphaMinusJacobianFlat L blocks nnz diag J alpha := by
  unfold alphaMinusJacobianFlat
  by_cases hL : L = 0
  · simp [paddedBlocks, hL]
  · simp only [hL, if_false, ceil_paddedBlocks L blocks hL]

theorem alphaMinusJacobianFlat_size (L blocks nnz : Nat) (diag : List Nat) (J : Array α) (alpha : α) :
    (alphaMinusJacobianFlat L blocks nnz diag J alpha).size = J.size := by
  unfold alphaMinusJacobianFlat
  split
  · exact foldl_size_of_step _ (fun F b => foldl_wr_size (fun i => b * nnz + i) _ diag F) _ J
  · exact foldl_size_of_step _
      (fun F g => foldl_size_of_step _ (fun F i => lanesDo_size L _ _ F) diag F) _ J

/-- `AlphaMinusJacobian` on flat storage, block by block: both layouts, every block count -/
theorem alphaMinusJacobianFlat_cell (L blocks nnz : Nat) (diag : List Nat) (hdiag : ∀ i ∈ diag, i < nnz)
    (J : Array α) (alpha : α) (hJ : J.size = vectorSize L nnz blocks) (b : Nat) (hb : b < blocks) :
    sparseRow L nnz (alphaMinusJacobianFlat L blocks nnz diag J alpha) b
      = diag.foldl (fun Jr i => wr Jr i (rd Jr i + alpha)) (sparseRow L nnz J b) := by
  have V0 := View.initSparse L nnz blocks J hJ b hb
  apply View.sparseRow_eq
  unfold alphaMinusJacobianFlat
  by_cases hL : L = 0
  · subst hL
    rw [if_pos rfl]
    simp only [l3_slot_row'] at V0 ⊢
    have hinj : ∀ i j, i < nnz → j < nnz → (fun k => b * nnz + k) i = (fun k => b * nnz + k) j → i = j := by
      intro i j _ _ e; simp only at e; omega
    refine View.foldl_cells
      (fun J b' => diag.foldl (fun J i => wr J (b' * nnz + i) (rd J (b' * nnz + i) + alpha)) J)
      (fun Jr => diag.foldl (fun Jr i => wr Jr i (rd Jr i + alpha)) Jr)
      b (List.range blocks) List.nodup_range (List.mem_range.2 hb) ?_ ?_ V0
    · intro b' _ hne F f h
      refine h.frame (foldl_wr_size (fun i => b' * nnz + i) _ diag F) (fun j hj => ?_)
      refine foldl_wr_rd_of_not_mem (fun i => b' * nnz + i) _ diag F _ ?_
      intro i hi e
      exact hne (mul_add_inj (hdiag i hi) hj e).1
    · intro F f h
      exact View.foldl_wr hinj (fun i : Nat => i) (fun _ x => x + alpha) diag hdiag h
  · rw [if_neg hL]
    have hL' : 0 < L := Nat.pos_of_ne_zero hL
    have hm : b % L < L := Nat.mod_lt b hL'
    simp only [slot_vec _ _ _ hL] at V0 ⊢
    refine View.foldl_cells
      (fun J g => diag.foldl (fun J i => lanesDo L (fun J l =>
        wr J (g * (L * nnz) + i * L + l) (rd J (g * (L * nnz) + i * L + l) + alpha)) J) J)
      (fun Jr => diag.foldl (fun Jr i => wr Jr i (rd Jr i + alpha)) Jr)
      (b / L) (List.range ((blocks + L - 1) / L)) List.nodup_range
      (List.mem_range.2 (div_lt_ceil hL' hb)) ?_ ?_ V0
    · intro g _ hne F f h
      have hk : l3_Keeps nnz L L (g * (L * nnz)) F (diag.foldl (fun J i => lanesDo L (fun J l =>
          wr J (g * (L * nnz) + i * L + l) (rd J (g * (L * nnz) + i * L + l) + alpha)) J) F) :=
        l3_Keeps.foldl _ diag (fun i hi X => l3_Keeps.lanes nnz L L _ i (hdiag i hi) _ X) F
      refine hk.view h ?_
      intro j k l hj hk' hl e
      rw [vec_addr_eq, vec_addr_eq] at e
      exact hne (mul_add_inj hk' hj (mul_add_inj hl hm e).1).1
    · intro F f h
      exact View.foldl_lanes L (b % L) (b / L * (L * nnz)) hm (fun i : Nat => i) (fun _ _ x => x + alpha)
        diag hdiag h

/-- the frame: only diagonal slots are written — of the real blocks (standard layout), resp. of
    all `L` lanes of every group, padding blocks included (vector layout) -/
theorem alphaMinusJacobianFlat_frame (L blocks nnz : Nat) (diag : List Nat) (J : Array α) (alpha : α)
    (x : Nat) (hx : ∀ b k, b < paddedBlocks L blocks → k ∈ diag → slot L nnz b k ≠ x) :
    rd (alphaMinusJacobianFlat L blocks nnz diag J alpha) x = rd J x := by
  unfold alphaMinusJacobianFlat
  by_cases hL : L = 0
  · subst hL
    rw [if_pos rfl]
    refine foldl_rd_of_step _ x _ ?_ J
    intro F b hb
    refine foldl_wr_rd_of_not_mem (fun i => b * nnz + i) _ diag F x ?_
    intro i hi e
    refine hx b i (by simpa [paddedBlocks] using List.mem_range.1 hb) hi ?_
    rw [l3_slot_row']; exact e
  · rw [if_neg hL]
    refine foldl_rd_of_step _ x _ ?_ J
    intro F g hg
    refine foldl_rd_of_step _ x _ ?_ F
    intro F' i hi
    refine lanesDo_rd_miss L _ _ F' x ?_
    intro l hl e
    refine hx (g * L + l) i ?_ hi ?_
    · simp only [paddedBlocks, hL, if_false]
      exact mul_add_lt (List.mem_range.1 hg) hl
    · rw [slot_vec_lane L nnz g l i hL hl]; exact e

end Alpha

/-! ### NormalizedError -/
section Norm

theorem l3_foldl_congr {β γ : Type} (f g : γ → β → γ) (l : List β) (H : ∀ a, ∀ b ∈ l, f a b = g a b)
    (a : γ) : l.foldl f a = l.foldl g a := by
  induction l generalizing a with
  | nil => rfl
  | cons b l ih =>
    rw [List.foldl_cons, List.foldl_cons, H a b List.mem_cons_self,
      ih (fun a c hc => H a c (List.mem_cons_of_mem _ hc))]

/-- `0 … a*b - 1` in two digits -/
theorem l3_range_mul (a b : Nat) :
    List.range (a * b) = (List.range a).flatMap fun c => (List.range b).map fun v => c * b + v := by
  induction a with
  | zero => simp
  | succ a ih =>
    rw [Nat.succ_mul, List.range_add, ih, List.range_succ, List.flatMap_append]
    simp

theorem l3_foldl_range_mul {γ : Type} (f : γ → Nat → γ) (a b : Nat) (z : γ) :
    (List.range (a * b)).foldl f z
      = (List.range a).foldl (fun acc c => (List.range b).foldl (fun acc v => f acc (c * b + v)) acc) z := by
  rw [l3_range_mul, List.foldl_flatMap]
  simp only [List.foldl_map]

variable {α : Type} [OfNat α 0] [Add α] [Mul α] [Div α]

/-- the logical rows of a dense flat array of shape `⟨nCells, nVars, L⟩` -/
def denseRows (nCells nVars L : Nat) (D : Array α) : Mat α :=
  ((List.range nCells).map (flatRow ⟨nCells, nVars, L⟩ D)).toArray

omit [Add α] [Mul α] [Div α] in
theorem denseRows_size (nCells nVars L : Nat) (D : Array α) : (denseRows nCells nVars L D).size = nCells := by
  simp [denseRows]

omit [Add α] [Mul α] [Div α] in
theorem denseRows_getD (nCells nVars L : Nat) (D : Array α) (c : Nat) (hc : c < nCells) :
    (denseRows nCells nVars L D).getD c #[] = flatRow ⟨nCells, nVars, L⟩ D c := by
  simp [denseRows, hc]

/-- one term of the flat norm loops: slot `i`, tolerance index `a` -/
def l3_normTerm (o : Ops α) (atol : Array α) (rtol : α) (Y Yn E : Array α) (i a : Nat) : α :=
  (rd E i / (rd atol a + rtol * cmax o (o.abs (rd Y i)) (o.abs (rd Yn i)))) *
  (rd E i / (rd atol a + rtol * cmax o (o.abs (rd Y i)) (o.abs (rd Yn i))))

theorem l3_errTerm_rows (o : Ops α) (atol : Array α) (rtol : α) (nCells nVars L : Nat) (Y Yn E : Array α)
    (c v : Nat) (hc : c < nCells) (hv : v < nVars) :
    errTerm o atol rtol (denseRows nCells nVars L Y) (denseRows nCells nVars L Yn) (denseRows nCells nVars L E) c v
      = l3_normTerm o atol rtol Y Yn E ((DenseShape.mk nCells nVars L).addr c v) v := by
  unfold errTerm l3_normTerm
  rw [denseRows_getD nCells nVars L Y c hc, denseRows_getD nCells nVars L Yn c hc,
    denseRows_getD nCells nVars L E c hc, rd_flatRow ⟨nCells, nVars, L⟩ Y c v hv,
    rd_flatRow ⟨nCells, nVars, L⟩ Yn c v hv, rd_flatRow ⟨nCells, nVars, L⟩ E c v hv]

theorem normFlatRow_eq (o : Ops α) (cs : Consts α) (nCells nVars : Nat) (atol : Array α) (rtol : α)
    (Y Yn E : Array α) :
    normFlatRow o cs nCells nVars atol rtol Y Yn E
      = cmax o (o.sqrt ((List.range (nCells * nVars)).foldl
          (fun acc i => acc + l3_normTerm o atol rtol Y Yn E i (i % nVars)) 0 / o.ofNat (nCells * nVars)))
          cs.errorMin := rfl

theorem normFlatVec_eq (o : Ops α) (cs : Consts α) (L nCells nVars : Nat) (atol : Array α) (rtol : α)
    (Y Yn E : Array α) :
    normFlatVec o cs L nCells nVars atol rtol Y Yn E
      = cmax o (o.sqrt ((List.range nVars).foldl (fun acc y => (List.range (nCells % L)).foldl
          (fun acc x => acc + l3_normTerm o atol rtol Y Yn E (nCells / L * (L * nVars) + y * L + x) y) acc)
          ((List.range (nCells / L * (L * nVars))).foldl
            (fun acc i => acc + l3_normTerm o atol rtol Y Yn E i (i / L % nVars)) 0)
          / o.ofNat (nCells * nVars))) cs.errorMin := rfl

/-- row-major: the linear loop visits the terms of `normOrder 0` in order -/
theorem l3_sum_row (o : Ops α) (nCells nVars : Nat) (atol : Array α) (rtol : α) (Y Yn E : Array α) (z : α) :
    (List.range (nCells * nVars)).foldl (fun acc i => acc + l3_normTerm o atol rtol Y Yn E i (i % nVars)) z
      = (normOrder 0 nCells nVars).foldl (fun acc cv => acc + errTerm o atol rtol
          (denseRows nCells nVars 0 Y) (denseRows nCells nVars 0 Yn) (denseRows nCells nVars 0 E) cv.1 cv.2) z := by
  have hN : normOrder 0 nCells nVars
      = (List.range nCells).flatMap fun c => (List.range nVars).map fun v => (c, v) := by
    simp [normOrder]
  rw [hN, l3_foldl_range_mul, List.foldl_flatMap]
  refine l3_foldl_congr _ _ _ ?_ z
  intro acc c hc
  rw [List.foldl_map]
  refine l3_foldl_congr _ _ _ ?_ acc
  intro acc' v hv
  have hc' := List.mem_range.1 hc
  have hv' := List.mem_range.1 hv
  have e : (DenseShape.mk nCells nVars 0).addr c v = c * nVars + v := by simp [DenseShape.addr]
  rw [l3_errTerm_rows o atol rtol nCells nVars 0 Y Yn E c v hc' hv', e, mul_add_mod hv']

/-- vector layout: whole groups linearly, then the rows of the partial group, visit the terms of
    `normOrder L` in order -/
theorem l3_sum_vec (o : Ops α) (L nCells nVars : Nat) (hL : L ≠ 0) (atol : Array α) (rtol : α)
    (Y Yn E : Array α) (z : α) :
    (List.range nVars).foldl (fun acc y => (List.range (nCells % L)).foldl
        (fun acc x => acc + l3_normTerm o atol rtol Y Yn E (nCells / L * (L * nVars) + y * L + x) y) acc)
      ((List.range (nCells / L * (L * nVars))).foldl
        (fun acc i => acc + l3_normTerm o atol rtol Y Yn E i (i / L % nVars)) z)
      = (normOrder L nCells nVars).foldl (fun acc cv => acc + errTerm o atol rtol
          (denseRows nCells nVars L Y) (denseRows nCells nVars L Yn) (denseRows nCells nVars L E) cv.1 cv.2) z := by
  have hL' : 0 < L := Nat.pos_of_ne_zero hL
  have hN : normOrder L nCells nVars
      = ((List.range (nCells / L)).flatMap fun g => (List.range nVars).flatMap fun v =>
          (List.range L).map fun l => (g * L + l, v)) ++
        ((List.range nVars).flatMap fun v => (List.range (nCells % L)).map fun l => (nCells / L * L + l, v)) := by
    simp only [normOrder, hL, if_false]
  have hq : nCells / L * L ≤ nCells := Nat.div_mul_le_self nCells L
  have h1 : (List.range (nCells / L * (L * nVars))).foldl
        (fun acc i => acc + l3_normTerm o atol rtol Y Yn E i (i / L % nVars)) z
      = ((List.range (nCells / L)).flatMap fun g => (List.range nVars).flatMap fun v =>
          (List.range L).map fun l => (g * L + l, v)).foldl (fun acc cv => acc + errTerm o atol rtol
          (denseRows nCells nVars L Y) (denseRows nCells nVars L Yn) (denseRows nCells nVars L E) cv.1 cv.2) z := by
    rw [l3_foldl_range_mul, List.foldl_flatMap]
    refine l3_foldl_congr _ _ _ ?_ z
    intro acc g hg
    rw [Nat.mul_comm L nVars, l3_foldl_range_mul, List.foldl_flatMap]
    refine l3_foldl_congr _ _ _ ?_ acc
    intro acc v hv
    rw [List.foldl_map]
    refine l3_foldl_congr _ _ _ ?_ acc
    intro acc l hl
    have hg' := List.mem_range.1 hg
    have hv' := List.mem_range.1 hv
    have hl' := List.mem_range.1 hl
    have hc : g * L + l < nCells := Nat.lt_of_lt_of_le (mul_add_lt hg' hl') hq
    have e1 : g * (nVars * L) + (v * L + l) = (g * nVars + v) * L + l := by
      rw [Nat.add_mul, Nat.mul_assoc, Nat.add_assoc]
    have e2 : (DenseShape.mk nCells nVars L).addr (g * L + l) v = (g * nVars + v) * L + l := by
      simp only [DenseShape.addr, hL, if_false, mul_add_div hl', mul_add_mod hl']
    rw [l3_errTerm_rows o atol rtol nCells nVars L Y Yn E (g * L + l) v hc hv', e1, e2, mul_add_div hl',
      mul_add_mod hv']
  rw [hN, List.foldl_append, ← h1, List.foldl_flatMap]
  refine l3_foldl_congr _ _ _ ?_ _
  intro acc y hy
  rw [List.foldl_map]
  refine l3_foldl_congr _ _ _ ?_ acc
  intro acc x hx
  have hy' := List.mem_range.1 hy
  have hx' := List.mem_range.1 hx
  have hxL : x < L := Nat.lt_trans hx' (Nat.mod_lt _ hL')
  have hc : nCells / L * L + x < nCells := by
    have := Nat.div_add_mod nCells L
    have e : L * (nCells / L) = nCells / L * L := Nat.mul_comm _ _
    omega
  have e2 : (DenseShape.mk nCells nVars L).addr (nCells / L * L + x) y = (nCells / L * nVars + y) * L + x := by
    simp only [DenseShape.addr, hL, if_false, mul_add_div hxL, mul_add_mod hxL]
  rw [l3_errTerm_rows o atol rtol nCells nVars L Y Yn E (nCells / L * L + x) y hc hy', e2, vec_addr_eq]

theorem l3_flatMap_congr {β γ : Type} (l : List β) (f g : β → List γ) (h : ∀ a ∈ l, f a = g a) :
    l.flatMap f = l.flatMap g := by
  induction l with
  | nil => rfl
  | cons a l ih =>
    rw [List.flatMap_cons, List.flatMap_cons, h a List.mem_cons_self,
      ih (fun b hb => h b (List.mem_cons_of_mem _ hb))]

/-- the slots `NormalizedError` visits, in its order, are the slots `ForEach` / `Axpy` visit, in
    their order -/
theorem normOrder_map_addr (L nCells nVars : Nat) :
    (normOrder L nCells nVars).map (fun cv => (DenseShape.mk nCells nVars L).addr cv.1 cv.2)
      = visitSlots ⟨nCells, nVars, L⟩ := by
  by_cases hL : L = 0
  · subst hL
    simp only [normOrder, visitSlots, if_true, List.map_flatMap, List.map_map, l3_range_mul]
    refine l3_flatMap_congr _ _ _ (fun c _ => List.map_congr_left (fun v _ => ?_))
    simp [DenseShape.addr]
  · have hL' : 0 < L := Nat.pos_of_ne_zero hL
    simp only [normOrder, visitSlots, hL, if_false, List.map_append, List.map_flatMap, List.map_map]
    congr 1
    · have e : nCells / L * L * nVars = nCells / L * (nVars * L) := by
        rw [Nat.mul_assoc, Nat.mul_comm L nVars]
      rw [e, l3_range_mul (nCells / L) (nVars * L)]
      refine l3_flatMap_congr _ _ _ (fun g _ => ?_)
      rw [l3_range_mul nVars L, List.map_flatMap]
      refine l3_flatMap_congr _ _ _ (fun v _ => ?_)
      rw [List.map_map]
      refine List.map_congr_left (fun l hl => ?_)
      have hl' := List.mem_range.1 hl
      simp only [Function.comp, DenseShape.addr, hL, if_false, mul_add_div hl', mul_add_mod hl']
      rw [Nat.add_mul, Nat.mul_assoc, Nat.add_assoc]
    · refine l3_flatMap_congr _ _ _ (fun v _ => List.map_congr_left (fun l hl => ?_))
      have hl' : l < L := Nat.lt_trans (List.mem_range.1 hl) (Nat.mod_lt _ hL')
      simp only [Function.comp, DenseShape.addr, hL, if_false, mul_add_div hl', mul_add_mod hl']
      rw [Nat.add_mul, Nat.mul_assoc, Nat.mul_comm nVars L, ← Nat.mul_assoc]

/-- **the flat norm is the logical norm** of the logical rows: both layouts, every cell count, any
    carrier; no size hypothesis (both sides read the same slots in the same order) -/
theorem normFlat_eq_logical (o : Ops α) (cs : Consts α) (L nCells nVars : Nat) (atol : Array α) (rtol : α)
    (Y Yn E : Array α) :
    normFlat o cs L nCells nVars atol rtol Y Yn E
      = normalizedError o cs L nVars atol rtol (denseRows nCells nVars L Y) (denseRows nCells nVars L Yn)
          (denseRows nCells nVars L E) := by
  unfold normFlat normalizedError
  simp only [denseRows_size]
  by_cases hL : L = 0
  · subst hL
    rw [if_pos rfl, normFlatRow_eq, l3_sum_row]
  · rw [if_neg hL, normFlatVec_eq, l3_sum_vec o L nCells nVars hL]

end Norm

/-! ### whole kernels -/
section Whole
variable {α : Type} [OfNat α 0] [OfNat α 1] [Sub α] [Mul α] [Div α]

/-- the flat Mozart LU, block by block: both layouts, every block count -/
theorem mozartFlat_views (L blocks : Nat) (ini : List MInit) (rows : List MRow) (nnzA nnzL nnzU : Nat)
    (hini : ∀ r ∈ ini, r.InRange nnzA nnzL nnzU) (hrows : ∀ r ∈ rows, r.InRange nnzL nnzU)
    (A Lo Up : Array α) (hLo : Lo.size = vectorSize L nnzL blocks) (hUp : Up.size = vectorSize L nnzU blocks)
    (b : Nat) (hb : b < blocks) :
    View nnzL (slot L nnzL b) (mozartFlat L blocks ini rows nnzA nnzL nnzU A (Lo, Up)).1
      (mozartCell ini rows (sparseRow L nnzA A b) (sparseRow L nnzL Lo b, sparseRow L nnzU Up b)).1 ∧
    View nnzU (slot L nnzU b) (mozartFlat L blocks ini rows nnzA nnzL nnzU A (Lo, Up)).2
      (mozartCell ini rows (sparseRow L nnzA A b) (sparseRow L nnzL Lo b, sparseRow L nnzU Up b)).2 :=
  l3_flat_views2 nnzA nnzL nnzU A
    (fun L nc offA offL offU S => mozartVecGroup L nc ini rows A offA offL offU S)
    (fun a s => mozartCell ini rows a s)
    (fun L nc m offA offL offU a hm hnc hA S s h =>
      mozartVecGroup_view L nc m hm hnc ini rows nnzA nnzL nnzU hini hrows A a offA offL offU hA S s h)
    (fun L nc offA offL offU S => mozartVecGroup_keeps L nc ini rows nnzA nnzL nnzU hini hrows A offA offL offU S)
    L blocks Lo Up hLo hUp b hb

/-- the flat Mozart LU keeps the sizes and writes only slots of real blocks -/
theorem mozartFlat_frame (L blocks : Nat) (ini : List MInit) (rows : List MRow) (nnzA nnzL nnzU : Nat)
    (hini : ∀ r ∈ ini, r.InRange nnzA nnzL nnzU) (hrows : ∀ r ∈ rows, r.InRange nnzL nnzU)
    (A : Array α) (LU : Array α × Array α) :
    ((mozartFlat L blocks ini rows nnzA nnzL nnzU A LU).1.size = LU.1.size ∧
      ∀ x, (∀ b k, b < blocks → k < nnzL → slot L nnzL b k ≠ x) →
        rd (mozartFlat L blocks ini rows nnzA nnzL nnzU A LU).1 x = rd LU.1 x) ∧
    ((mozartFlat L blocks ini rows nnzA nnzL nnzU A LU).2.size = LU.2.size ∧
      ∀ x, (∀ b k, b < blocks → k < nnzU → slot L nnzU b k ≠ x) →
        rd (mozartFlat L blocks ini rows nnzA nnzL nnzU A LU).2 x = rd LU.2 x) :=
  l3_flat_frame2 nnzA nnzL nnzU
    (fun L nc offA offL offU S => mozartVecGroup L nc ini rows A offA offL offU S)
    (fun L nc offA offL offU S => mozartVecGroup_keeps L nc ini rows nnzA nnzL nnzU hini hrows A offA offL offU S)
    L blocks LU _ rfl

omit [OfNat α 1] in
theorem doolittleInPlaceFlat_view (L blocks : Nat) (rows : List DIRow) (nnz : Nat)
    (hrows : ∀ r ∈ rows, r.InRange nnz) (M : Array α) (hM : M.size = vectorSize L nnz blocks)
    (b : Nat) (hb : b < blocks) :
    View nnz (slot L nnz b) (doolittleInPlaceFlat L blocks rows nnz M)
      (doolittleInPlaceCell rows (sparseRow L nnz M b)) :=
  l3_flat_view nnz (fun L nc off M => doolittleInPlaceVecGroup L nc rows off M) (doolittleInPlaceCell rows)
    (fun L nc m off hm hnc M mm h => doolittleInPlaceVecGroup_view L nc m hm hnc rows nnz hrows off M mm h)
    (fun L nc off M => doolittleInPlaceVecGroup_keeps L nc rows nnz hrows off M) L blocks M hM b hb

omit [OfNat α 1] in
theorem doolittleInPlaceFlat_frame (L blocks : Nat) (rows : List DIRow) (nnz : Nat)
    (hrows : ∀ r ∈ rows, r.InRange nnz) (M : Array α) :
    (doolittleInPlaceFlat L blocks rows nnz M).size = M.size ∧
    ∀ x, (∀ b k, b < blocks → k < nnz → slot L nnz b k ≠ x) →
      rd (doolittleInPlaceFlat L blocks rows nnz M) x = rd M x :=
  l3_flat_frame nnz (fun L nc off M => doolittleInPlaceVecGroup L nc rows off M)
    (fun L nc off M => doolittleInPlaceVecGroup_keeps L nc rows nnz hrows off M) L blocks M

theorem mozartInPlaceFlat_view (L blocks : Nat) (rows : List MIRow) (nnz : Nat)
    (hrows : ∀ r ∈ rows, r.InRange nnz) (hdist : ∀ r ∈ rows, r.Distinct) (M : Array α)
    (hM : M.size = vectorSize L nnz blocks) (b : Nat) (hb : b < blocks) :
    View nnz (slot L nnz b) (mozartInPlaceFlat L blocks rows nnz M)
      (mozartInPlaceCell rows (sparseRow L nnz M b)) :=
  l3_flat_view nnz (fun L nc off M => mozartInPlaceVecGroup L nc rows off M) (mozartInPlaceCell rows)
    (fun L nc m off hm hnc M mm h => mozartInPlaceVecGroup_view L nc m hm hnc rows nnz hrows hdist off M mm h)
    (fun L nc off M => mozartInPlaceVecGroup_keeps L nc rows nnz hrows off M) L blocks M hM b hb

theorem mozartInPlaceFlat_frame (L blocks : Nat) (rows : List MIRow) (nnz : Nat)
    (hrows : ∀ r ∈ rows, r.InRange nnz) (M : Array α) :
    (mozartInPlaceFlat L blocks rows nnz M).size = M.size ∧
    ∀ x, (∀ b k, b < blocks → k < nnz → slot L nnz b k ≠ x) →
      rd (mozartInPlaceFlat L blocks rows nnz M) x = rd M x :=
  l3_flat_frame nnz (fun L nc off M => mozartInPlaceVecGroup L nc rows off M)
    (fun L nc off M => mozartInPlaceVecGroup_keeps L nc rows nnz hrows off M) L blocks M

end Whole

/-! ### logical blocks of a flat sparse block matrix, all at once -/
section SparseRows
variable {α : Type} [OfNat α 0] [Add α]

/-- the logical blocks `0 … blocks-1` -/
def sparseRows (L nnz blocks : Nat) (D : Array α) : Mat α :=
  ((List.range blocks).map (sparseRow L nnz D)).toArray

/-- `AlphaMinusJacobian` on flat storage is `SolverCfg.alphaMinusJacobian` on the logical blocks -/
theorem alphaMinusJacobianFlat_eq_cfg (s : SolverCfg α) (L blocks nnz : Nat) (hdiag : ∀ i ∈ s.diag, i < nnz)
    (J : Array α) (alpha : α) (hJ : J.size = vectorSize L nnz blocks) :
    sparseRows L nnz blocks (alphaMinusJacobianFlat L blocks nnz s.diag J alpha)
      = s.alphaMinusJacobian (sparseRows L nnz blocks J) alpha := by
  unfold sparseRows SolverCfg.alphaMinusJacobian
  rw [List.map_toArray, List.map_map]
  congr 1
  refine List.map_congr_left (fun b hb => ?_)
  exact alphaMinusJacobianFlat_cell L blocks nnz s.diag hdiag J alpha hJ b (List.mem_range.1 hb)

end SparseRows

end Micm
