/-
Lemmas for C13 (lane theorem): the flat-storage forcing kernels of `Micm/Model/FlatKernels.lean`
(row-major `forcingRowGo`, grouped `forcingVecGo` with its `L`-lane rate buffer) compute, on the
slots of one logical cell, exactly the per-cell kernel `forcingGo`; all other cells / lanes /
groups are framed out by address disjointness.  Core Lean only, no algebraic laws on the carrier.

Method: `View n p F f` says that the small array `f` (one cell, `n` entries) is what the big flat
array `F` holds at the addresses `p 0 … p (n-1)`.  Every loop of the flat kernels either
 * "hits" the view (performs on `p i` the same update the per-cell kernel performs on `i`), or
 * leaves every `p j` alone (frame).
-/
import Micm.Model.FlatKernels
import Micm.Lemmas.DenseAddr
import Micm.Lemmas.Forcing
namespace Micm

/-! ### generic array / fold facts -/
section Generic
variable {α : Type} [OfNat α 0]

theorem rd_map_range (f : Nat → α) (n j : Nat) (h : j < n) :
    rd ((List.range n).map f).toArray j = f j := by
  simp [rd, h]

theorem rd_map_range_ge (f : Nat → α) (n j : Nat) (h : n ≤ j) :
    rd ((List.range n).map f).toArray j = 0 := by
  simp [rd, h]

theorem rd_eq_getElem (a : Array α) (i : Nat) (h : i < a.size) : rd a i = a[i] := by
  simp [rd, h]

omit [OfNat α 0] in
/-- a fold of size-preserving steps preserves the size -/
theorem foldl_size_of_step {β : Type} (S : Array α → β → Array α)
    (hS : ∀ F b, (S F b).size = F.size) (l : List β) (F : Array α) :
    (l.foldl S F).size = F.size := by
  induction l generalizing F with
  | nil => rfl
  | cons b l ih => rw [List.foldl_cons, ih, hS]

/-- a fold of steps that leave slot `x` alone leaves slot `x` alone -/
theorem foldl_rd_of_step {β : Type} (S : Array α → β → Array α) (x : Nat) (l : List β)
    (hS : ∀ F, ∀ b ∈ l, rd (S F b) x = rd F x) (F : Array α) :
    rd (l.foldl S F) x = rd F x := by
  induction l generalizing F with
  | nil => rfl
  | cons b l ih =>
    rw [List.foldl_cons, ih (fun F c hc => hS F c (List.mem_cons_of_mem _ hc)),
      hS F b List.mem_cons_self]

/-- one pass `for l in ls: A[g l] := φ l A[g l]` over pairwise distinct addresses: the slot of
    `m ∈ ls` receives `φ m` of its old content -/
theorem foldl_wr_hit (g : Nat → Nat) (φ : Nat → α → α) (ls : List Nat) (hnd : ls.Nodup) (m : Nat)
    (hm : m ∈ ls) (hinj : ∀ l ∈ ls, g l = g m → l = m) (A : Array α) (hin : g m < A.size) :
    rd (ls.foldl (fun A l => wr A (g l) (φ l (rd A (g l)))) A) (g m) = φ m (rd A (g m)) := by
  induction ls generalizing A with
  | nil => cases hm
  | cons l ls ih =>
    rw [List.foldl_cons]
    have hnd' := List.nodup_cons.1 hnd
    by_cases e : l = m
    · subst e
      rw [foldl_wr_rd_of_not_mem g (fun A l => φ l (rd A (g l)))]
      · exact rd_wr_same _ _ _ hin
      · intro b hb hgb
        have := hinj b (List.mem_cons_of_mem _ hb) hgb
        exact hnd'.1 (this ▸ hb)
    · have hm' : m ∈ ls := by
        rcases List.mem_cons.1 hm with h | h
        · exact absurd h.symm e
        · exact h
      rw [ih hnd'.2 hm' (fun b hb => hinj b (List.mem_cons_of_mem _ hb)) _ (by rw [wr_size]; exact hin)]
      rw [rd_wr_ne]
      intro hg
      exact e (hinj l List.mem_cons_self hg)

/-- the lane loop `for l < L: A[a l] := φ l A[a l]` -/
theorem lanes_fold_hit (a : Nat → Nat) (φ : Nat → α → α) (L : Nat) (A : Array α) (m : Nat)
    (hm : m < L) (hinj : ∀ l, l < L → a l = a m → l = m) (hin : a m < A.size) :
    rd ((List.range L).foldl (fun A l => wr A (a l) (φ l (rd A (a l)))) A) (a m) = φ m (rd A (a m)) :=
  foldl_wr_hit a φ _ List.nodup_range m (List.mem_range.2 hm)
    (fun l hl => hinj l (List.mem_range.1 hl)) A hin

theorem lanes_fold_miss (a : Nat → Nat) (φ : Nat → α → α) (L : Nat) (A : Array α) (x : Nat)
    (h : ∀ l, l < L → a l ≠ x) :
    rd ((List.range L).foldl (fun A l => wr A (a l) (φ l (rd A (a l)))) A) x = rd A x :=
  foldl_wr_rd_of_not_mem a (fun A l => φ l (rd A (a l))) _ A x (fun b hb => h b (List.mem_range.1 hb))

omit [OfNat α 0] in
theorem lanes_fold_size (a : Nat → Nat) (v : Array α → Nat → α) (L : Nat) (A : Array α) :
    ((List.range L).foldl (fun A l => wr A (a l) (v A l)) A).size = A.size :=
  foldl_wr_size a v _ A

/-! ### views -/

/-- the small array `f` (size `n`) is what the flat array `F` holds at the in-range addresses
    `p 0 … p (n-1)` -/
structure View (n : Nat) (p : Nat → Nat) (F f : Array α) : Prop where
  size : f.size = n
  inb : ∀ j, j < n → p j < F.size
  val : ∀ j, j < n → rd F (p j) = rd f j

/-- a step on the flat array that updates `p i` by `φ` and leaves the other `p j` alone is the
    write `f[i] := φ f[i]` on the view -/
theorem View.step {n : Nat} {p : Nat → Nat} {F f F' : Array α} (h : View n p F f) (i : Nat)
    (φ : α → α) (hi : i < n) (hsize : F'.size = F.size)
    (hhit : rd F' (p i) = φ (rd F (p i)))
    (hmiss : ∀ j, j < n → j ≠ i → rd F' (p j) = rd F (p j)) :
    View n p F' (wr f i (φ (rd f i))) := by
  refine ⟨by rw [wr_size]; exact h.size, fun j hj => by rw [hsize]; exact h.inb j hj, fun j hj => ?_⟩
  by_cases e : j = i
  · subst e
    rw [hhit, rd_wr_same _ _ _ (by rw [h.size]; exact hj), h.val j hj]
  · rw [hmiss j hj e, rd_wr_ne _ _ _ _ (fun e' => e e'.symm), h.val j hj]

/-- a step that leaves every `p j` alone keeps the view -/
theorem View.frame {n : Nat} {p : Nat → Nat} {F f F' : Array α} (h : View n p F f)
    (hsize : F'.size = F.size) (hmiss : ∀ j, j < n → rd F' (p j) = rd F (p j)) :
    View n p F' f :=
  ⟨h.size, fun j hj => by rw [hsize]; exact h.inb j hj, fun j hj => by rw [hmiss j hj, h.val j hj]⟩

/-- loop of hitting steps -/
theorem View.foldl {β : Type} {n : Nat} {p : Nat → Nat} (g : β → Nat) (φ : β → α → α)
    (S : Array α → β → Array α)
    (hsize : ∀ F b, (S F b).size = F.size)
    (hhit : ∀ F b, g b < n → p (g b) < F.size → rd (S F b) (p (g b)) = φ b (rd F (p (g b))))
    (hmiss : ∀ F b j, g b < n → j < n → j ≠ g b → rd (S F b) (p j) = rd F (p j))
    (bs : List β) (hb : ∀ b ∈ bs, g b < n) {F f : Array α} (h : View n p F f) :
    View n p (bs.foldl S F) (bs.foldl (fun f b => wr f (g b) (φ b (rd f (g b)))) f) := by
  induction bs generalizing F f with
  | nil => exact h
  | cons b bs ih =>
    rw [List.foldl_cons, List.foldl_cons]
    have hgb := hb b List.mem_cons_self
    exact ih (fun c hc => hb c (List.mem_cons_of_mem _ hc))
      (h.step (g b) (φ b) hgb (hsize F b) (hhit F b hgb (h.inb _ hgb))
        (fun j hj hne => hmiss F b j hgb hj hne))

/-- loop of single writes through the view (row-major kernels) -/
theorem View.foldl_wr {β : Type} {n : Nat} {p : Nat → Nat}
    (hinj : ∀ i j, i < n → j < n → p i = p j → i = j) (g : β → Nat) (φ : β → α → α)
    (bs : List β) (hb : ∀ b ∈ bs, g b < n) {F f : Array α} (h : View n p F f) :
    View n p (bs.foldl (fun F b => wr F (p (g b)) (φ b (rd F (p (g b))))) F)
      (bs.foldl (fun f b => wr f (g b) (φ b (rd f (g b)))) f) := by
  refine View.foldl g φ _ (fun F b => wr_size _ _ _) ?_ ?_ bs hb h
  · intro F b _ hin
    exact rd_wr_same _ _ _ hin
  · intro F b j hgb hj hne
    exact rd_wr_ne _ _ _ _ (fun e => hne (hinj _ _ hgb hj e).symm)

/-- loop of lane loops through the view (vector kernels): lane `m` of the group at `offY` -/
theorem View.foldl_lanes {β : Type} {n : Nat} (L m offY : Nat) (hm : m < L) (g : β → Nat)
    (ψ : β → Nat → α → α) (bs : List β) (hb : ∀ b ∈ bs, g b < n) {F f : Array α}
    (h : View n (fun j => offY + j * L + m) F f) :
    View n (fun j => offY + j * L + m)
      (bs.foldl (fun F b => (List.range L).foldl
        (fun F l => wr F (offY + g b * L + l) (ψ b l (rd F (offY + g b * L + l)))) F) F)
      (bs.foldl (fun f b => wr f (g b) (ψ b m (rd f (g b)))) f) := by
  refine View.foldl g (fun b => ψ b m) _ ?_ ?_ ?_ bs hb h
  · intro F b
    exact lanes_fold_size (fun l => offY + g b * L + l) (fun F l => ψ b l (rd F (offY + g b * L + l))) L F
  · intro F b _ hin
    exact lanes_fold_hit (fun l => offY + g b * L + l) (ψ b) L F m hm (fun l _ e => by omega) hin
  · intro F b j _ _ hne
    refine lanes_fold_miss (fun l => offY + g b * L + l) (ψ b) L F _ ?_
    intro l hl e
    have e' : g b * L + l = j * L + m := by omega
    exact hne (mul_add_inj hl hm e').1.symm

/-- cell / group loop: one iteration hits the view (transforming `f` into `G f`), the others
    leave it alone -/
theorem View.foldl_cells {n : Nat} {p : Nat → Nat} (T : Array α → Nat → Array α)
    (G : Array α → Array α) (c : Nat) (cs : List Nat) (hnd : cs.Nodup) (hc : c ∈ cs)
    (hframe : ∀ c' ∈ cs, c' ≠ c → ∀ F f, View n p F f → View n p (T F c') f)
    (hhit : ∀ F f, View n p F f → View n p (T F c) (G f)) {F f : Array α} (h : View n p F f) :
    View n p (cs.foldl T F) (G f) := by
  have frames : ∀ (l : List Nat), (∀ c' ∈ l, c' ∈ cs ∧ c' ≠ c) → ∀ F f, View n p F f →
      View n p (l.foldl T F) f := by
    intro l
    induction l with
    | nil => intro _ F f h; exact h
    | cons a l ih =>
      intro hl F f h
      rw [List.foldl_cons]
      exact ih (fun c' hc' => hl c' (List.mem_cons_of_mem _ hc')) _ _
        (hframe a (hl a List.mem_cons_self).1 (hl a List.mem_cons_self).2 F f h)
  have key : ∀ (l : List Nat), l.Nodup → c ∈ l → (∀ c' ∈ l, c' ∈ cs) → ∀ F f, View n p F f →
      View n p (l.foldl T F) (G f) := by
    intro l
    induction l with
    | nil => intro _ hc; cases hc
    | cons a l ih =>
      intro hnd hc hsub F f h
      rw [List.foldl_cons]
      have hnd' := List.nodup_cons.1 hnd
      by_cases e : a = c
      · subst e
        refine frames l (fun c' hc' => ⟨hsub c' (List.mem_cons_of_mem _ hc'), ?_⟩) _ _ (hhit F f h)
        intro e'
        exact hnd'.1 (e' ▸ hc')
      · have hc' : c ∈ l := by
          rcases List.mem_cons.1 hc with h' | h'
          · exact absurd h'.symm e
          · exact h'
        exact ih hnd'.2 hc' (fun c' hc'' => hsub c' (List.mem_cons_of_mem _ hc'')) _ _
          (hframe a (hsub a List.mem_cons_self) e F f h)
  exact key cs hnd hc (fun _ h => h) F f h

end Generic

/-! ### the kernels -/
section Kernels
variable {α : Type} [OfNat α 0] [Add α] [Sub α] [Mul α]

omit [Add α] [Sub α] in
/-- the rate product read through a view of `Y` -/
theorem foldl_rate_congr (Y y : Array α) (q : Nat → Nat) (n : Nat)
    (hY : ∀ j, j < n → rd Y (q j) = rd y j) (rs : List Nat) (hr : ∀ i ∈ rs, i < n) (k : α) :
    rs.foldl (fun acc i => acc * rd Y (q i)) k = rs.foldl (fun acc i => acc * rd y i) k := by
  induction rs generalizing k with
  | nil => rfl
  | cons i rs ih =>
    simp only [List.foldl_cons]
    rw [hY i (hr i List.mem_cons_self), ih (fun j hj => hr j (List.mem_cons_of_mem _ hj))]

omit [OfNat α 0] [Add α] [Sub α] [Mul α] in
theorem zip_take_fst_lt {n np : Nat} {pids : List Nat} {ylds : List α} (hp : ∀ i ∈ pids, i < n) :
    ∀ b ∈ (pids.take np).zip (ylds.take np), b.1 < n := by
  intro b hb
  exact hp _ (List.mem_of_mem_take (List.of_mem_zip (a := b.1) (b := b.2) hb).1)

/-! #### row-major -/

/-- one cell of the row-major kernel, seen through the view of its own slots, is `forcingGo` -/
theorem forcingRowGo_view (Y K y : Array α) (offK offY n : Nat)
    (hY : ∀ j, j < n → rd Y (offY + j) = rd y j)
    (nrs nps rids pids : List Nat) (ylds : List α) (iRxn len : Nat)
    (hlen : min nrs.length nps.length ≤ len)
    (hr : ∀ i ∈ rids, i < n) (hp : ∀ i ∈ pids, i < n) (F f : Array α)
    (h : View n (fun j => offY + j) F f) :
    View n (fun j => offY + j) (forcingRowGo Y K offK offY nrs nps rids pids ylds iRxn F)
      (forcingGo y nrs nps rids pids ylds ((List.range' iRxn len).map fun q => rd K (offK + q)) f) := by
  induction nrs generalizing nps rids pids ylds iRxn len F f with
  | nil => simpa [forcingRowGo, forcingGo] using h
  | cons nr nrs ih =>
    cases nps with
    | nil => simpa [forcingRowGo, forcingGo] using h
    | cons np nps =>
      cases len with
      | zero => simp at hlen
      | succ len =>
        rw [List.range'_succ, List.map_cons]
        simp only [forcingRowGo, forcingGo]
        have hrt : ∀ i ∈ rids.take nr, i < n := fun i hi => hr i (List.mem_of_mem_take hi)
        rw [foldl_rate_congr Y y (fun i => offY + i) n hY _ hrt]
        apply ih
        · simp only [List.length_cons] at hlen; omega
        · exact fun i hi => hr i (List.mem_of_mem_drop hi)
        · exact fun i hi => hp i (List.mem_of_mem_drop hi)
        · have hinj : ∀ i j, i < n → j < n → (fun j => offY + j) i = (fun j => offY + j) j → i = j := by
            intro i j _ _ e; simp only at e; omega
          exact View.foldl_wr hinj (fun b : Nat × α => b.1) (fun b x => x + b.2 * _) _ (zip_take_fst_lt hp)
            (View.foldl_wr hinj (fun i : Nat => i) (fun _ x => x - _) _ hrt h)

theorem forcingRowGo_size (Y K : Array α) (offK offY : Nat) (nrs nps rids pids : List Nat)
    (ylds : List α) (iRxn : Nat) (F : Array α) :
    (forcingRowGo Y K offK offY nrs nps rids pids ylds iRxn F).size = F.size := by
  induction nrs generalizing nps rids pids ylds iRxn F with
  | nil => simp [forcingRowGo]
  | cons nr nrs ih =>
    cases nps with
    | nil => simp [forcingRowGo]
    | cons np nps =>
      simp only [forcingRowGo]
      rw [ih, foldl_wr_size (fun p : Nat × α => offY + p.1), foldl_wr_size (fun i : Nat => offY + i)]

/-- a cell of the row-major kernel writes only `offY + i`, `i` an id of the tables -/
theorem forcingRowGo_frame (Y K : Array α) (offK offY n : Nat) (nrs nps rids pids : List Nat)
    (ylds : List α) (iRxn : Nat) (F : Array α) (hr : ∀ i ∈ rids, i < n) (hp : ∀ i ∈ pids, i < n)
    (x : Nat) (hx : ∀ i, i < n → offY + i ≠ x) :
    rd (forcingRowGo Y K offK offY nrs nps rids pids ylds iRxn F) x = rd F x := by
  induction nrs generalizing nps rids pids ylds iRxn F with
  | nil => simp [forcingRowGo]
  | cons nr nrs ih =>
    cases nps with
    | nil => simp [forcingRowGo]
    | cons np nps =>
      simp only [forcingRowGo]
      rw [ih _ _ _ _ _ _ (fun i hi => hr i (List.mem_of_mem_drop hi))
          (fun i hi => hp i (List.mem_of_mem_drop hi)),
        foldl_wr_rd_of_not_mem (fun p : Nat × α => offY + p.1),
        foldl_wr_rd_of_not_mem (fun i : Nat => offY + i)]
      · exact fun i hi => hx i (hr i (List.mem_of_mem_take hi))
      · exact fun b hb => hx b.1 (zip_take_fst_lt hp b hb)

/-! #### grouped (`VectorMatrix<L>`) -/

omit [Add α] [Sub α] in
/-- lane `m` of the rate buffer after the `rate[l] *= Y[…]` loops is the scalar rate product -/
theorem rate_fold (L : Nat) (Y : Array α) (offY : Nat) (rs : List Nat) (rate0 : Array α) (m : Nat)
    (hm : m < L) (hsz : rate0.size = L) :
    rd (rs.foldl (fun rate i => (List.range L).foldl
        (fun rate l => wr rate l (rd rate l * rd Y (offY + i * L + l))) rate) rate0) m
      = rs.foldl (fun acc i => acc * rd Y (offY + i * L + m)) (rd rate0 m) := by
  induction rs generalizing rate0 with
  | nil => rfl
  | cons i rs ih =>
    simp only [List.foldl_cons]
    rw [ih _ (by rw [lanes_fold_size (fun l => l)]; exact hsz)]
    congr 1
    exact lanes_fold_hit (fun l => l) (fun l x => x * rd Y (offY + i * L + l)) L rate0 m hm
      (fun l _ e => e) (by rw [hsz]; exact hm)

/-- one reaction of the vector kernel for the group at `offY`, seen through lane `m`, is the
    per-cell reaction step with `rate0[m]` as rate constant -/
theorem forcingVecRxn_view (L m : Nat) (hm : m < L) (Y y : Array α) (offY n : Nat)
    (hY : ∀ j, j < n → rd Y (offY + j * L + m) = rd y j)
    (rs : List Nat) (ps : List (Nat × α)) (hr : ∀ i ∈ rs, i < n) (hp : ∀ b ∈ ps, b.1 < n)
    (rate0 : Array α) (hsz : rate0.size = L) (F f : Array α)
    (h : View n (fun j => offY + j * L + m) F f) :
    View n (fun j => offY + j * L + m) (forcingVecRxn L Y offY rs ps rate0 F)
      (ps.foldl (fun f p => wr f p.1 (rd f p.1 + p.2 * rs.foldl (fun acc i => acc * rd y i) (rd rate0 m)))
        (rs.foldl (fun f i => wr f i (rd f i - rs.foldl (fun acc i => acc * rd y i) (rd rate0 m))) f)) := by
  unfold forcingVecRxn
  simp only
  rw [← foldl_rate_congr Y y (fun i => offY + i * L + m) n hY rs hr, ← rate_fold L Y offY rs rate0 m hm hsz]
  exact View.foldl_lanes L m offY hm (fun b : Nat × α => b.1) (fun b l x => x + b.2 * rd _ l) ps hp
    (View.foldl_lanes L m offY hm (fun i : Nat => i) (fun _ l x => x - rd _ l) rs hr h)

/-- one group of the vector kernel, seen through lane `m`, is `forcingGo` on that lane's cell -/
theorem forcingVecGo_view (L m : Nat) (hm : m < L) (Y K y : Array α) (offK offY n : Nat)
    (hY : ∀ j, j < n → rd Y (offY + j * L + m) = rd y j)
    (nrs nps rids pids : List Nat) (ylds : List α) (iRxn len : Nat)
    (hlen : min nrs.length nps.length ≤ len)
    (hr : ∀ i ∈ rids, i < n) (hp : ∀ i ∈ pids, i < n) (F f : Array α)
    (h : View n (fun j => offY + j * L + m) F f) :
    View n (fun j => offY + j * L + m) (forcingVecGo L Y K offK offY nrs nps rids pids ylds iRxn F)
      (forcingGo y nrs nps rids pids ylds
        ((List.range' iRxn len).map fun q => rd K (offK + q * L + m)) f) := by
  induction nrs generalizing nps rids pids ylds iRxn len F f with
  | nil => simpa [forcingVecGo, forcingGo] using h
  | cons nr nrs ih =>
    cases nps with
    | nil => simpa [forcingVecGo, forcingGo] using h
    | cons np nps =>
      cases len with
      | zero => simp at hlen
      | succ len =>
        rw [List.range'_succ, List.map_cons]
        simp only [forcingVecGo, forcingGo]
        apply ih
        · simp only [List.length_cons] at hlen; omega
        · exact fun i hi => hr i (List.mem_of_mem_drop hi)
        · exact fun i hi => hp i (List.mem_of_mem_drop hi)
        · have hv := forcingVecRxn_view L m hm Y y offY n hY (rids.take nr)
            ((pids.take np).zip (ylds.take np)) (fun i hi => hr i (List.mem_of_mem_take hi))
            (zip_take_fst_lt hp)
            ((List.range L).map fun l => rd K (offK + iRxn * L + l)).toArray (by simp) F f h
          rw [rd_map_range _ _ _ hm] at hv
          exact hv

theorem forcingVecRxn_size (L : Nat) (Y : Array α) (offY : Nat) (rs : List Nat) (ps : List (Nat × α))
    (rate0 F : Array α) : (forcingVecRxn L Y offY rs ps rate0 F).size = F.size := by
  unfold forcingVecRxn
  simp only
  rw [foldl_size_of_step _ (fun F b => lanes_fold_size _ _ L F),
    foldl_size_of_step _ (fun F b => lanes_fold_size _ _ L F)]

/-- a reaction of a group writes only `offY + i * L + l`, `i` an id, `l < L` -/
theorem forcingVecRxn_frame (L : Nat) (Y : Array α) (offY n : Nat) (rs : List Nat)
    (ps : List (Nat × α)) (rate0 F : Array α) (hr : ∀ i ∈ rs, i < n) (hp : ∀ b ∈ ps, b.1 < n)
    (x : Nat) (hx : ∀ i l, i < n → l < L → offY + i * L + l ≠ x) :
    rd (forcingVecRxn L Y offY rs ps rate0 F) x = rd F x := by
  unfold forcingVecRxn
  simp only
  rw [foldl_rd_of_step, foldl_rd_of_step]
  · intro F i hi
    exact lanes_fold_miss (fun l => offY + i * L + l) (fun l x => x - rd _ l) L F x
      (fun l hl => hx i l (hr i hi) hl)
  · intro F b hb
    exact lanes_fold_miss (fun l => offY + b.1 * L + l) (fun l x => x + b.2 * rd _ l) L F x
      (fun l hl => hx b.1 l (hp b hb) hl)

theorem forcingVecGo_size (L : Nat) (Y K : Array α) (offK offY : Nat) (nrs nps rids pids : List Nat)
    (ylds : List α) (iRxn : Nat) (F : Array α) :
    (forcingVecGo L Y K offK offY nrs nps rids pids ylds iRxn F).size = F.size := by
  induction nrs generalizing nps rids pids ylds iRxn F with
  | nil => simp [forcingVecGo]
  | cons nr nrs ih =>
    cases nps with
    | nil => simp [forcingVecGo]
    | cons np nps =>
      simp only [forcingVecGo]
      rw [ih, forcingVecRxn_size]

theorem forcingVecGo_frame (L : Nat) (Y K : Array α) (offK offY n : Nat) (nrs nps rids pids : List Nat)
    (ylds : List α) (iRxn : Nat) (F : Array α) (hr : ∀ i ∈ rids, i < n) (hp : ∀ i ∈ pids, i < n)
    (x : Nat) (hx : ∀ i l, i < n → l < L → offY + i * L + l ≠ x) :
    rd (forcingVecGo L Y K offK offY nrs nps rids pids ylds iRxn F) x = rd F x := by
  induction nrs generalizing nps rids pids ylds iRxn F with
  | nil => simp [forcingVecGo]
  | cons nr nrs ih =>
    cases nps with
    | nil => simp [forcingVecGo]
    | cons np nps =>
      simp only [forcingVecGo]
      rw [ih _ _ _ _ _ _ (fun i hi => hr i (List.mem_of_mem_drop hi))
          (fun i hi => hp i (List.mem_of_mem_drop hi)),
        forcingVecRxn_frame L Y offY n _ _ _ _ (fun i hi => hr i (List.mem_of_mem_take hi))
          (zip_take_fst_lt hp) x hx]

/-! #### addresses -/

theorem vec_addr_eq (g L n j m : Nat) : g * (L * n) + j * L + m = (g * n + j) * L + m := by
  rw [Nat.add_mul, Nat.mul_comm L n, Nat.mul_assoc g n L]

theorem addr_row (r n c : Nat) : (DenseShape.mk r n 0).addr c = fun j => c * n + j := by
  funext j; simp [DenseShape.addr]

/-- the kernel's `offset + id * L + lane` is the container's address of (cell, id) -/
theorem addr_vec (r n L c : Nat) (hL : L ≠ 0) :
    (DenseShape.mk r n L).addr c = fun j => c / L * (L * n) + j * L + c % L := by
  funext j; rw [vec_addr_eq]; simp [DenseShape.addr, hL]

omit [Add α] [Sub α] [Mul α] in
theorem rd_flatRow (s : DenseShape) (F : Array α) (c j : Nat) (hj : j < s.cols) :
    rd (flatRow s F c) j = rd F (s.addr c j) := by
  unfold flatRow; exact rd_map_range _ _ _ hj

omit [Add α] [Sub α] [Mul α] in
theorem flatRow_size (s : DenseShape) (F : Array α) (c : Nat) : (flatRow s F c).size = s.cols := by
  simp [flatRow]

omit [Add α] [Sub α] [Mul α] in
/-- a logical row is a view of the flat storage -/
theorem View.init (s : DenseShape) (F : Array α) (hF : F.size = s.size) (c : Nat) (hc : c < s.rows) :
    View s.cols (s.addr c) F (flatRow s F c) :=
  ⟨flatRow_size s F c, fun j hj => by rw [hF]; exact dense_addr_lt s hc hj,
    fun j hj => (rd_flatRow s F c j hj).symm⟩

omit [Add α] [Sub α] [Mul α] in
theorem View.flatRow_eq {s : DenseShape} {F f : Array α} {c : Nat} (h : View s.cols (s.addr c) F f) :
    flatRow s F c = f := by
  apply Array.ext
  · rw [flatRow_size, h.size]
  · intro i h1 h2
    rw [← rd_eq_getElem _ _ h1, ← rd_eq_getElem _ _ h2,
      rd_flatRow s F c i (by rw [flatRow_size] at h1; exact h1), h.val i (by rw [← h.size]; exact h2)]

omit [Add α] [Sub α] [Mul α] in
theorem flatRow_toList (s : DenseShape) (K : Array α) (c : Nat) :
    (flatRow s K c).toList = (List.range' 0 s.cols).map fun q => rd K (s.addr c q) := by
  simp [flatRow, List.range_eq_range']

/-! #### whole kernels -/

theorem addForcingFlatRow_size (t : PSTables α) (nCells nRxn nSpecies : Nat) (K Y F : Array α) :
    (t.addForcingFlatRow nCells nRxn nSpecies K Y F).size = F.size :=
  foldl_size_of_step _ (fun F _ => forcingRowGo_size Y K _ _ _ _ _ _ _ _ F) _ F

theorem addForcingFlatVec_size (t : PSTables α) (L nCells nRxn nSpecies : Nat) (K Y F : Array α) :
    (t.addForcingFlatVec L nCells nRxn nSpecies K Y F).size = F.size :=
  foldl_size_of_step _ (fun F _ => forcingVecGo_size L Y K _ _ _ _ _ _ _ _ F) _ F

theorem addForcingFlat_size (t : PSTables α) (L nCells nRxn nSpecies : Nat) (K Y F : Array α) :
    (t.addForcingFlat L nCells nRxn nSpecies K Y F).size = F.size := by
  unfold PSTables.addForcingFlat
  split
  · exact addForcingFlatRow_size ..
  · exact addForcingFlatVec_size ..

/-- row-major lane theorem -/
theorem addForcingFlatRow_cell (t : PSTables α) (nCells nRxn nSpecies : Nat) (K Y F : Array α)
    (hF : F.size = (DenseShape.mk nCells nSpecies 0).size)
    (hr : ∀ i ∈ t.reactIds, i < nSpecies) (hp : ∀ i ∈ t.prodIds, i < nSpecies)
    (hlen : min t.nReact.length t.nProd.length ≤ nRxn) (c : Nat) (hc : c < nCells) :
    flatRow ⟨nCells, nSpecies, 0⟩ (t.addForcingFlatRow nCells nRxn nSpecies K Y F) c
      = t.addForcingCell (flatRow ⟨nCells, nRxn, 0⟩ K c) (flatRow ⟨nCells, nSpecies, 0⟩ Y c)
          (flatRow ⟨nCells, nSpecies, 0⟩ F c) := by
  have V0 := View.init ⟨nCells, nSpecies, 0⟩ F hF c hc
  apply View.flatRow_eq
  unfold PSTables.addForcingFlatRow PSTables.addForcingCell
  rw [flatRow_toList]
  simp only [addr_row] at V0 ⊢
  have hY : ∀ j, j < nSpecies → rd Y (c * nSpecies + j) = rd (flatRow ⟨nCells, nSpecies, 0⟩ Y c) j := by
    intro j hj
    rw [rd_flatRow _ _ _ _ hj, addr_row]
  refine View.foldl_cells
    (fun F c' => forcingRowGo Y K (c' * nRxn) (c' * nSpecies) t.nReact t.nProd t.reactIds t.prodIds t.yields 0 F)
    (fun f => forcingGo (flatRow ⟨nCells, nSpecies, 0⟩ Y c) t.nReact t.nProd t.reactIds t.prodIds t.yields
      ((List.range' 0 nRxn).map fun q => rd K (c * nRxn + q)) f)
    c (List.range nCells) List.nodup_range (List.mem_range.2 hc) ?_ ?_ V0
  · intro c' _ hne F f h
    refine h.frame (forcingRowGo_size ..) (fun j hj => ?_)
    refine forcingRowGo_frame Y K _ _ nSpecies _ _ _ _ _ _ F hr hp _ ?_
    intro i hi e
    exact hne (mul_add_inj hi hj e).1
  · intro F f h
    exact forcingRowGo_view Y K _ (c * nRxn) (c * nSpecies) nSpecies hY _ _ _ _ _ 0 nRxn hlen hr hp F f h

/-- grouped lane theorem: every `L ≥ 1`, every cell count (partial last group included) -/
theorem addForcingFlatVec_cell (t : PSTables α) (L nCells nRxn nSpecies : Nat) (hL : L ≠ 0)
    (K Y F : Array α) (hF : F.size = (DenseShape.mk nCells nSpecies L).size)
    (hr : ∀ i ∈ t.reactIds, i < nSpecies) (hp : ∀ i ∈ t.prodIds, i < nSpecies)
    (hlen : min t.nReact.length t.nProd.length ≤ nRxn) (c : Nat) (hc : c < nCells) :
    flatRow ⟨nCells, nSpecies, L⟩ (t.addForcingFlatVec L nCells nRxn nSpecies K Y F) c
      = t.addForcingCell (flatRow ⟨nCells, nRxn, L⟩ K c) (flatRow ⟨nCells, nSpecies, L⟩ Y c)
          (flatRow ⟨nCells, nSpecies, L⟩ F c) := by
  have hL' : 0 < L := Nat.pos_of_ne_zero hL
  have hm : c % L < L := Nat.mod_lt c hL'
  have V0 := View.init ⟨nCells, nSpecies, L⟩ F hF c hc
  apply View.flatRow_eq
  unfold PSTables.addForcingFlatVec PSTables.addForcingCell
  rw [flatRow_toList]
  simp only [addr_vec _ _ _ _ hL] at V0 ⊢
  have hY : ∀ j, j < nSpecies →
      rd Y (c / L * (L * nSpecies) + j * L + c % L) = rd (flatRow ⟨nCells, nSpecies, L⟩ Y c) j := by
    intro j hj
    rw [rd_flatRow _ _ _ _ hj, addr_vec _ _ _ _ hL]
  refine View.foldl_cells
    (fun F g => forcingVecGo L Y K (g * (L * nRxn)) (g * (L * nSpecies)) t.nReact t.nProd t.reactIds
      t.prodIds t.yields 0 F)
    (fun f => forcingGo (flatRow ⟨nCells, nSpecies, L⟩ Y c) t.nReact t.nProd t.reactIds t.prodIds t.yields
      ((List.range' 0 nRxn).map fun q => rd K (c / L * (L * nRxn) + q * L + c % L)) f)
    (c / L) (List.range ((nCells + L - 1) / L)) List.nodup_range
    (List.mem_range.2 (div_lt_ceil hL' hc)) ?_ ?_ V0
  · intro g _ hne F f h
    refine h.frame (forcingVecGo_size ..) (fun j hj => ?_)
    refine forcingVecGo_frame L Y K _ _ nSpecies _ _ _ _ _ _ F hr hp _ ?_
    intro i l hi hl e
    rw [vec_addr_eq, vec_addr_eq] at e
    exact hne (mul_add_inj hi hj (mul_add_inj hl hm e).1).1
  · intro F f h
    exact forcingVecGo_view L (c % L) hm Y K _ (c / L * (L * nRxn)) (c / L * (L * nSpecies)) nSpecies hY
      _ _ _ _ _ 0 nRxn hlen hr hp F f h

/-! #### every kernel address is inside the storage -/

theorem row_addr_lt {nCells n c i : Nat} (hc : c < nCells) (hi : i < n) :
    c * n + i < (DenseShape.mk nCells n 0).size := by
  simp only [DenseShape.size, if_true]
  exact mul_add_lt hc hi

theorem vec_addr_lt {nCells n L g i l : Nat} (hL : L ≠ 0) (hg : g < (nCells + L - 1) / L)
    (hi : i < n) (hl : l < L) :
    g * (L * n) + i * L + l < (DenseShape.mk nCells n L).size := by
  simp only [DenseShape.size, hL, if_false]
  rw [vec_addr_eq, Nat.mul_assoc, Nat.mul_comm L n, ← Nat.mul_assoc]
  exact mul_add_lt (mul_add_lt hg hi) hl


end Kernels

end Micm
