/-
Lemmas for C19 (dense part): mixed-radix arithmetic, `DenseShape.addr` range/injectivity for the
row-major (`L = 0`) and grouped (`L ≥ 1`) layouts, characterisation of `visitSlots`.
Core Lean only.
-/
import Micm.Model.Dense
namespace Micm

/-! ### mixed-radix arithmetic -/

/-- `a < A`, `b < B` ⇒ `a * B + b < A * B` (two-digit number below the radix product) -/
theorem mul_add_lt {a b A B : Nat} (ha : a < A) (hb : b < B) : a * B + b < A * B := by
  have h1 : (a + 1) * B ≤ A * B := Nat.mul_le_mul_right B ha
  rw [Nat.add_mul, Nat.one_mul] at h1
  omega

theorem mul_add_div {a b B : Nat} (hb : b < B) : (a * B + b) / B = a := by
  have hB : 0 < B := by omega
  rw [Nat.add_comm, Nat.add_mul_div_right _ _ hB, Nat.div_eq_of_lt hb, Nat.zero_add]

theorem mul_add_mod {a b B : Nat} (hb : b < B) : (a * B + b) % B = b := by
  rw [Nat.add_comm, Nat.add_mul_mod_self_right, Nat.mod_eq_of_lt hb]

/-- two-digit representations are unique -/
theorem mul_add_inj {a b a' b' B : Nat} (hb : b < B) (hb' : b' < B)
    (h : a * B + b = a' * B + b') : a = a' ∧ b = b' := by
  have h1 := congrArg (· / B) h
  have h2 := congrArg (· % B) h
  simp only [mul_add_div hb, mul_add_div hb', mul_add_mod hb, mul_add_mod hb'] at h1 h2
  exact ⟨h1, h2⟩

/-- `x < rows` ⇒ the group of `x` is one of the `⌈rows/L⌉` groups -/
theorem div_lt_ceil {x rows L : Nat} (hL : 0 < L) (hx : x < rows) : x / L < (rows + L - 1) / L := by
  rw [Nat.div_lt_iff_lt_mul hL]
  have h := Nat.div_add_mod (rows + L - 1) L
  have h2 := Nat.mod_lt (rows + L - 1) hL
  have h3 : (rows + L - 1) / L * L = L * ((rows + L - 1) / L) := Nat.mul_comm _ _
  omega

/-! ### `DenseShape.addr` -/

theorem dense_addr_lt (s : DenseShape) {x y : Nat} (hx : x < s.rows) (hy : y < s.cols) :
    s.addr x y < s.size := by
  unfold DenseShape.addr DenseShape.size
  by_cases hL : s.L = 0
  · simp only [hL, if_true]
    exact mul_add_lt hx hy
  · simp only [hL, if_false]
    have hL' : 0 < s.L := Nat.pos_of_ne_zero hL
    have h1 : x / s.L * s.cols + y < (s.rows + s.L - 1) / s.L * s.cols :=
      mul_add_lt (div_lt_ceil hL' hx) hy
    have h2 := mul_add_lt h1 (Nat.mod_lt x hL')
    rw [Nat.mul_assoc, Nat.mul_comm s.L s.cols, ← Nat.mul_assoc]
    exact h2

theorem dense_addr_inj (s : DenseShape) {x y x' y' : Nat}
    (hy : y < s.cols) (hy' : y' < s.cols)
    (h : s.addr x y = s.addr x' y') : x = x' ∧ y = y' := by
  unfold DenseShape.addr at h
  by_cases hL : s.L = 0
  · simp only [hL, if_true] at h
    exact mul_add_inj hy hy' h
  · simp only [hL, if_false] at h
    have hL' : 0 < s.L := Nat.pos_of_ne_zero hL
    obtain ⟨h1, h2⟩ := mul_add_inj (Nat.mod_lt x hL') (Nat.mod_lt x' hL') h
    obtain ⟨h3, h4⟩ := mul_add_inj hy hy' h1
    refine ⟨?_, h4⟩
    rw [← Nat.div_add_mod x s.L, ← Nat.div_add_mod x' s.L, h3, h2]

/-! ### `visitSlots` -/

theorem visitSlots_length (s : DenseShape) : (visitSlots s).length = s.rows * s.cols := by
  unfold visitSlots
  by_cases hL : s.L = 0
  · simp [hL]
  · simp only [hL, if_false, List.length_append, List.length_range, List.length_flatMap,
      List.length_map, List.map_const', List.sum_replicate_nat]
    have h := Nat.div_add_mod s.rows s.L
    calc s.rows / s.L * s.L * s.cols + s.cols * (s.rows % s.L)
        = (s.L * (s.rows / s.L) + s.rows % s.L) * s.cols := by
          rw [Nat.add_mul, Nat.mul_comm s.L, Nat.mul_comm s.cols]
      _ = s.rows * s.cols := by rw [h]

/-- the second-part enumeration `i * L + j`, `i < cols`, `j < m ≤ L`, has no duplicates -/
theorem nodup_tail (n L m cols : Nat) (hm : m ≤ L) :
    ((List.range cols).flatMap fun i => (List.range m).map fun j => n + i * L + j).Nodup := by
  rw [List.nodup_iff_pairwise_ne, List.pairwise_flatMap]
  refine ⟨?_, ?_⟩
  · intro i _
    rw [List.pairwise_map]
    apply List.Pairwise.imp _ (List.nodup_iff_pairwise_ne.mp List.nodup_range)
    intro a b h; omega
  · apply List.Pairwise.imp _ (List.nodup_iff_pairwise_ne.mp List.nodup_range)
    intro i i' hne
    simp only [List.mem_map, List.mem_range]
    rintro a ⟨j, hj, rfl⟩ b ⟨j', hj', rfl⟩ h
    have h' : i * L + j = i' * L + j' := by omega
    exact hne (mul_add_inj (by omega) (by omega) h').1

theorem visitSlots_nodup (s : DenseShape) : (visitSlots s).Nodup := by
  unfold visitSlots
  by_cases hL : s.L = 0
  · simp [hL, List.nodup_range]
  · simp only [hL, if_false]
    have hL' : 0 < s.L := Nat.pos_of_ne_zero hL
    rw [List.nodup_append]
    refine ⟨List.nodup_range, nodup_tail _ _ _ _ (Nat.le_of_lt (Nat.mod_lt _ hL')), ?_⟩
    intro a ha b hb
    simp only [List.mem_range, List.mem_flatMap, List.mem_map] at ha hb
    obtain ⟨i, _, j, _, rfl⟩ := hb
    omega

/-- every logical element's address is visited -/
theorem addr_mem_visitSlots (s : DenseShape) {x y : Nat} (hx : x < s.rows) (hy : y < s.cols) :
    s.addr x y ∈ visitSlots s := by
  unfold visitSlots
  by_cases hL : s.L = 0
  · have := dense_addr_lt s hx hy
    simp only [DenseShape.size, hL, if_true] at this
    simp [hL, this]
  · simp only [hL, if_false, List.mem_append, List.mem_range, List.mem_flatMap, List.mem_map]
    have hL' : 0 < s.L := Nat.pos_of_ne_zero hL
    have hxm := Nat.mod_lt x hL'
    by_cases hg : x / s.L < s.rows / s.L
    · left
      simp only [DenseShape.addr, hL, if_false]
      have h1 : x / s.L * s.cols + y < s.rows / s.L * s.cols := mul_add_lt hg hy
      have h2 := mul_add_lt h1 hxm
      rw [Nat.mul_assoc, Nat.mul_comm s.L s.cols, ← Nat.mul_assoc]
      exact h2
    · right
      have hle : x / s.L ≤ s.rows / s.L := Nat.div_le_div_right (Nat.le_of_lt hx)
      have hg' : x / s.L = s.rows / s.L := by omega
      refine ⟨y, hy, x % s.L, ?_, ?_⟩
      · have h1 := Nat.div_add_mod x s.L
        have h2 := Nat.div_add_mod s.rows s.L
        rw [hg'] at h1
        omega
      · simp only [DenseShape.addr, hL, if_false, hg']
        rw [Nat.add_mul]; ac_rfl

/-- every visited slot is the address of a logical element -/
theorem visitSlots_mem_addr (s : DenseShape) {a : Nat} (ha : a ∈ visitSlots s) :
    ∃ x y, x < s.rows ∧ y < s.cols ∧ s.addr x y = a := by
  unfold visitSlots at ha
  by_cases hL : s.L = 0
  · simp only [hL, if_true, List.mem_range] at ha
    have hc : 0 < s.cols := by
      rcases Nat.eq_zero_or_pos s.cols with h | h
      · rw [h] at ha; simp at ha
      · exact h
    refine ⟨a / s.cols, a % s.cols, ?_, Nat.mod_lt _ hc, ?_⟩
    · rw [Nat.div_lt_iff_lt_mul hc]; exact ha
    · simp only [DenseShape.addr, hL, if_true]
      rw [Nat.mul_comm]; exact Nat.div_add_mod a s.cols
  · simp only [hL, if_false, List.mem_append, List.mem_range, List.mem_flatMap, List.mem_map] at ha
    have hL' : 0 < s.L := Nat.pos_of_ne_zero hL
    rcases ha with ha | ⟨i, hi, j, hj, rfl⟩
    · have hc : 0 < s.cols := by
        rcases Nat.eq_zero_or_pos s.cols with h | h
        · rw [h] at ha; simp at ha
        · exact h
      -- a = q * L + l,  q = g * cols + y
      have hq : a / s.L < s.rows / s.L * s.cols := by
        rw [Nat.div_lt_iff_lt_mul hL']
        rw [Nat.mul_assoc, Nat.mul_comm s.L s.cols, ← Nat.mul_assoc] at ha
        exact ha
      have hg : a / s.L / s.cols < s.rows / s.L := by
        rw [Nat.div_lt_iff_lt_mul hc]; exact hq
      have hl := Nat.mod_lt a hL'
      refine ⟨a / s.L / s.cols * s.L + a % s.L, a / s.L % s.cols, ?_, Nat.mod_lt _ hc, ?_⟩
      · have h1 := mul_add_lt hg hl
        have h2 : s.rows / s.L * s.L ≤ s.rows := Nat.div_mul_le_self _ _
        omega
      · simp only [DenseShape.addr, hL, if_false, mul_add_div hl, mul_add_mod hl]
        have h1 : a / s.L / s.cols * s.cols + a / s.L % s.cols = a / s.L := by
          rw [Nat.mul_comm]; exact Nat.div_add_mod _ _
        rw [h1, Nat.mul_comm]; exact Nat.div_add_mod _ _
    · have hjl : j < s.L := Nat.lt_trans hj (Nat.mod_lt _ hL')
      refine ⟨s.rows / s.L * s.L + j, i, ?_, hi, ?_⟩
      · have h2 := Nat.div_add_mod s.rows s.L
        have h3 : s.rows / s.L * s.L = s.L * (s.rows / s.L) := Nat.mul_comm _ _
        omega
      · simp only [DenseShape.addr, hL, if_false, mul_add_div hjl, mul_add_mod hjl]
        rw [Nat.add_mul]; ac_rfl

end Micm
