/-
Lemmas for C09 (conservation of linear invariants through the Rosenbrock solve).

* `negJac`            : the logical matrix `−∂f_i/∂y_j` of C02 (same expression as `C02_jacobian_zero`)
* `negJac_orthogonal` : `w·S = 0 ⇒ wᵀ·(−J) = 0`  (A1)
* `wdot_of_solve`     : `wᵀM = α wᵀ`, `M x = b` ⇒ `w·b = α (w·x)`  (A2)
* `attempt_conserves` : one attempt — every stage vector is orthogonal to `w`, `w·Ynew = w·Y`,
                        `w·Yerr = 0` (A3, for an abstract per-cell solver property `WSolve`)
* `ConsInv_loop`, `ConsInv_iter` : the whole loop for the abstract solver (A4)
* `view_shifted_jacobian` : the matrix of an attempt read through the sparse pattern is `a·I − ∂f/∂y`
* `factor_solve_cell`, `wsolve_attempt` : `WSolve` for the four LU variants of `LinAlg.build` from
                        "no zero pivot" (via `C04_build_*`)
* `FullInv_step/_loop/_iter`, `step_conserves` : the whole loop for the model's `Factor`/`Solve`
* `builtCfg_of_builder` : the configuration hypotheses `BuiltCfg` hold for what the builder constructs
-/
import Micm.Properties.C09
import Micm.Lemmas.JacobianPattern
import Micm.Lemmas.LUCellBridge
import Micm.Lemmas.RosLoop
import Micm.Lemmas.Scratch

namespace Micm
set_option linter.unusedSectionVars false
open Finset

/-! ### A1: `wᵀ J = 0` -/

section A1
variable {K : Type} [Field K]

/-- the logical matrix `−∂f_i/∂y_j` of the mass-action forcing (the right-hand side of
    `C02_jacobian_zero` / `C02_jacobian_built_pattern`) -/
def negJac (m : NameMap) (procs : List (Process K)) (k y : Array K) (i j : Nat) : K :=
  - (procs.zipIdx.map fun pi =>
      jacNet (specReactIds m pi.1.reactants) (specProdIds m pi.1.products) i
        * (rd k pi.2 * dMonomial (rd y) (specReactIds m pi.1.reactants) j)).sum

theorem wsum_filter_yields (w : Nat → K) (n : Nat) (pr : List (Nat × K)) (hp : ∀ q ∈ pr, q.1 < n) :
    ∑ i ∈ range n, w i * ((pr.filter (fun q => q.1 = i)).map (·.2)).sum
      = (pr.map fun q => w q.1 * q.2).sum := by
  induction pr with
  | nil => simp
  | cons q pr ih =>
    have key : ∀ i, w i * (((q :: pr).filter (fun q => q.1 = i)).map (·.2)).sum
        = (if q.1 = i then w q.1 * q.2 else 0) + w i * ((pr.filter (fun q => q.1 = i)).map (·.2)).sum := by
      intro i
      rw [List.filter_cons]
      by_cases h : q.1 = i
      · subst h; simp; ring
      · simp [h]
    simp only [key, sum_add_distrib, sum_ite_eq, mem_range, hp q List.mem_cons_self, if_true,
      List.map_cons, List.sum_cons]
    rw [ih (fun q hq => hp q (List.mem_cons_of_mem _ hq))]

theorem wsum_count (w : Nat → K) (n : Nat) (rs : List Nat) (hr : ∀ x ∈ rs, x < n) :
    ∑ i ∈ range n, w i * (rs.count i : K) = (rs.map w).sum := by
  induction rs with
  | nil => simp
  | cons a rs ih =>
    have key : ∀ i, w i * (((a :: rs).count i : Nat) : K)
        = (if a = i then w a else 0) + w i * (rs.count i : K) := by
      intro i
      rw [List.count_cons]
      by_cases h : a = i
      · subst h; simp; ring
      · have : (a == i) = false := by simpa using h
        simp [h, this]
    simp only [key, sum_add_distrib, sum_ite_eq, mem_range, hr a List.mem_cons_self, if_true,
      List.map_cons, List.sum_cons]
    rw [ih (fun x hx => hr x (List.mem_cons_of_mem _ hx))]

/-- `Σ_i w_i · net(i) = Σ_products w·yield − Σ_reactants w` for ids in range -/
theorem wsum_jacNet (w : Nat → K) (n : Nat) (rs : List Nat) (pr : List (Nat × K))
    (hr : ∀ x ∈ rs, x < n) (hp : ∀ q ∈ pr, q.1 < n) :
    ∑ i ∈ range n, w i * jacNet rs pr i = (pr.map fun q => w q.1 * q.2).sum - (rs.map w).sum := by
  unfold jacNet
  simp only [mul_sub, sum_sub_distrib]
  rw [wsum_filter_yields w n pr hp, wsum_count w n rs hr]

theorem wsum_list_sum {β : Type} (w : Nat → K) (n : Nat) (l : List β) (g : Nat → β → K) :
    ∑ i ∈ range n, w i * (l.map (g i)).sum = (l.map fun a => ∑ i ∈ range n, w i * g i a).sum := by
  induction l with
  | nil => simp
  | cons a l ih => simp only [List.map_cons, List.sum_cons, mul_add, sum_add_distrib, ih]

/-- **A1**: if every resolved reaction balances `w` (`Σ_products w·yield = Σ_reactants w`) and all
    species ids are `< n`, every column of `−J` is orthogonal to `w`. -/
theorem negJac_orthogonal (m : NameMap) (procs : List (Process K)) (rxns : List (RRxn K))
    (hr : Resolves m procs rxns) (n : Nat) (hm : ∀ e ∈ m, e.2 < n) (w : Nat → K)
    (hbal : ∀ rx ∈ rxns, (rx.2.map fun p => w p.1 * p.2).sum = (rx.1.map w).sum)
    (k y : Array K) (j : Nat) :
    ∑ i ∈ range n, w i * negJac m procs k y i j = 0 := by
  have hb := resolves_bounds hm hr
  obtain ⟨-, rfl⟩ := (resolves_iff m procs rxns).1 hr
  unfold negJac
  simp only [mul_neg, sum_neg_distrib, neg_eq_zero]
  rw [wsum_list_sum]
  apply jac_sum_map_zero
  intro pi hpi
  have hmem : resolveP m pi.1 ∈ procs.map (resolveP m) :=
    List.mem_map.mpr ⟨pi.1, List.fst_mem_of_mem_zipIdx hpi, rfl⟩
  have h1 : (∀ x ∈ specReactIds m pi.1.reactants, x < n) ∧ ∀ q ∈ specProdIds m pi.1.products, q.1 < n :=
    hb _ hmem
  have h2 : ((specProdIds m pi.1.products).map fun p => w p.1 * p.2).sum
      = ((specReactIds m pi.1.reactants).map w).sum := hbal _ hmem
  have : ∑ i ∈ range n, w i * jacNet (specReactIds m pi.1.reactants) (specProdIds m pi.1.products) i = 0 := by
    rw [wsum_jacNet w n _ _ h1.1 h1.2]
    exact sub_eq_zero.mpr h2
  have e : ∀ i, w i * (jacNet (specReactIds m pi.1.reactants) (specProdIds m pi.1.products) i *
        (rd k pi.2 * dMonomial (rd y) (specReactIds m pi.1.reactants) j))
      = (w i * jacNet (specReactIds m pi.1.reactants) (specProdIds m pi.1.products) i) *
        (rd k pi.2 * dMonomial (rd y) (specReactIds m pi.1.reactants) j) := fun i => by ring
  simp only [e, ← sum_mul, this, zero_mul]

end A1

/-! ### A2: a solve with a matrix whose columns are `α`-eigen-orthogonal to `w` -/

section A2
variable {K : Type} [Field K]

/-- **A2**: `Σ_i w_i M_ij = α w_j` and `M x = b` give `w·b = α (w·x)` -/
theorem wdot_of_solve (n : Nat) (w : Nat → K) (M : Nat → Nat → K) (α : K) (x b : Nat → K)
    (hM : ∀ j, j < n → ∑ i ∈ range n, w i * M i j = α * w j)
    (hx : ∀ i, i < n → ∑ j ∈ range n, M i j * x j = b i) :
    ∑ i ∈ range n, w i * b i = α * ∑ j ∈ range n, w j * x j := by
  calc ∑ i ∈ range n, w i * b i
      = ∑ i ∈ range n, ∑ j ∈ range n, w i * M i j * x j := by
        apply sum_congr rfl
        intro i hi
        rw [← hx i (mem_range.mp hi), mul_sum]
        apply sum_congr rfl
        intro j _; ring
    _ = ∑ j ∈ range n, ∑ i ∈ range n, w i * M i j * x j := sum_comm
    _ = ∑ j ∈ range n, α * (w j * x j) := by
        apply sum_congr rfl
        intro j hj
        rw [← sum_mul, hM j (mem_range.mp hj)]; ring
    _ = α * ∑ j ∈ range n, w j * x j := by rw [mul_sum]

/-- in particular `w·b = 0 ⇒ w·x = 0` when `α ≠ 0` (and `w·x = (w·b)/α` in general) -/
theorem wdot_solve_eq (n : Nat) (w : Nat → K) (M : Nat → Nat → K) (α : K) (hα : α ≠ 0) (x b : Nat → K)
    (hM : ∀ j, j < n → ∑ i ∈ range n, w i * M i j = α * w j)
    (hx : ∀ i, i < n → ∑ j ∈ range n, M i j * x j = b i) :
    ∑ j ∈ range n, w j * x j = (∑ i ∈ range n, w i * b i) / α := by
  rw [wdot_of_solve n w M α x b hM hx, mul_div_cancel_left₀ _ hα]

end A2

/-! ### cell vocabulary: shapes and weighted sums of one cell -/

section Shape
variable {α : Type}

/-- cell `c` exists in the dense/sparse per-cell matrix `M` and has `n` entries -/
def CellShape (n c : Nat) (M : Mat α) : Prop := c < M.size ∧ (M.getD c #[]).size = n

instance (n c : Nat) (M : Mat α) : Decidable (CellShape n c M) := by
  unfold CellShape; infer_instance

theorem cellShape_fillM {n c : Nat} {M : Mat α} (h : CellShape n c M) (v : α) :
    CellShape n c (fillM M v) ∧ (fillM M v).getD c #[] = Array.replicate n v := by
  obtain ⟨h1, h2⟩ := h
  have e : (fillM M v).getD c #[] = Array.replicate n v := by
    have : (M.getD c #[]) = M[c] := by simp [Array.getD, h1]
    rw [this] at h2
    simp [fillM, Array.getD, h1, ← h2, Array.map_const']
  exact ⟨⟨by simpa [fillM] using h1, by rw [e]; simp⟩, e⟩

theorem getD_mapIdx {β γ : Type} (f : Nat → β → γ) (M : Array β) (c : Nat) (hc : c < M.size) (d : γ) (d' : β) :
    (M.mapIdx f).getD c d = f c (M.getD c d') := by
  simp [Array.getD, hc]

theorem getD_map' {β γ : Type} (f : β → γ) (M : Array β) (c : Nat) (hc : c < M.size) (d : γ) (d' : β) :
    (M.map f).getD c d = f (M.getD c d') := by
  simp [Array.getD, hc]

end Shape

section Cell
variable {K : Type} [Field K]

/-- the weighted sum `Σ_{i<n} w_i · v[i]` of one cell's row -/
def wdot (w : Nat → K) (n : Nat) (v : Array K) : K := ∑ i ∈ range n, w i * rd v i

theorem rd_replicate_zero (n i : Nat) : rd (Array.replicate n (0 : K)) i = 0 := by
  unfold rd
  rw [Array.getD_eq_getD_getElem?, Array.getElem?_replicate]
  split <;> rfl

theorem wdot_replicate_zero (w : Nat → K) (n m : Nat) : wdot w n (Array.replicate m (0 : K)) = 0 := by
  unfold wdot
  apply sum_eq_zero
  intro i _
  rw [rd_replicate_zero, mul_zero]

/-! forcing -/

theorem forcing_size (s : SolverCfg K) (kc Y F : Mat K) : (s.forcing kc Y F).size = F.size := by
  simp [SolverCfg.forcing]

theorem forcing_getD (s : SolverCfg K) (kc Y F : Mat K) (c : Nat) (hc : c < F.size) :
    (s.forcing kc Y F).getD c #[] =
      s.tables.addForcingCell (kc.getD c #[]) (Y.getD c #[]) (F.getD c #[]) := by
  unfold SolverCfg.forcing
  exact getD_mapIdx _ F c hc #[] #[]

theorem addForcingCell_size (t : PSTables K) (k y f : Array K) : (t.addForcingCell k y f).size = f.size := by
  unfold PSTables.addForcingCell
  exact forcingGo_size _ _ _ _ _ _ _ _

theorem cellShape_forcing (s : SolverCfg K) (kc Y F : Mat K) {n c : Nat} (h : CellShape n c F) :
    CellShape n c (s.forcing kc Y F) :=
  ⟨by rw [forcing_size]; exact h.1, by rw [forcing_getD s kc Y F c h.1, addForcingCell_size]; exact h.2⟩

/-! `Axpy` folds -/

theorem cellShape_axpyM {n c : Nat} (a : K) (x y : Mat K) (h : CellShape n c y) :
    CellShape n c (axpyM a x y) :=
  ⟨by rw [axpyM_size]; exact h.1, by rw [axpyM_getD a x y c h.1, axpyRow_size]; exact h.2⟩

theorem wdot_axpyM {n c : Nat} (w : Nat → K) (a : K) (x y : Mat K) (h : CellShape n c y) :
    wdot w n ((axpyM a x y).getD c #[]) = wdot w n (y.getD c #[]) + a * wdot w n (x.getD c #[]) := by
  rw [axpyM_getD a x y c h.1]
  unfold wdot
  rw [mul_sum, ← sum_add_distrib]
  apply sum_congr rfl
  intro i hi
  rw [rd_axpyRow _ _ _ _ (by rw [h.2]; exact mem_range.mp hi)]
  ring

theorem axpy_fold_cell {n c : Nat} (w : Nat → K) (coef : Nat → K) (X : Nat → Mat K) (l : List Nat)
    (F : Mat K) (h : CellShape n c F) :
    CellShape n c (l.foldl (fun ks j => axpyM (coef j) (X j) ks) F) ∧
    wdot w n ((l.foldl (fun ks j => axpyM (coef j) (X j) ks) F).getD c #[]) =
      wdot w n (F.getD c #[]) + (l.map fun j => coef j * wdot w n ((X j).getD c #[])).sum := by
  induction l generalizing F with
  | nil => simp [h]
  | cons j l ih =>
    simp only [List.foldl_cons, List.map_cons, List.sum_cons]
    obtain ⟨i1, i2⟩ := ih (axpyM (coef j) (X j) F) (cellShape_axpyM _ _ _ h)
    refine ⟨i1, ?_⟩
    rw [i2, wdot_axpyM w _ _ _ h]; ring

/-- a fold of `Axpy`s of vectors orthogonal to `w` does not change `w·` -/
theorem axpy_fold_cell_zero {n c : Nat} (w : Nat → K) (coef : Nat → K) (X : Nat → Mat K) (l : List Nat)
    (F : Mat K) (h : CellShape n c F) (hX : ∀ j ∈ l, wdot w n ((X j).getD c #[]) = 0) :
    CellShape n c (l.foldl (fun ks j => axpyM (coef j) (X j) ks) F) ∧
    wdot w n ((l.foldl (fun ks j => axpyM (coef j) (X j) ks) F).getD c #[]) = wdot w n (F.getD c #[]) := by
  obtain ⟨h1, h2⟩ := axpy_fold_cell w coef X l F h
  refine ⟨h1, ?_⟩
  rw [h2, jac_sum_map_zero l _ (fun j hj => by rw [hX j hj, mul_zero]), add_zero]

/-! the linear solve acts cell by cell and keeps the shape -/

theorem foldl_state_size {β : Type} (f : Array K × Nat → β → Array K × Nat)
    (hf : ∀ a b, (f a b).1.size = a.1.size) (l : List β) (a : Array K × Nat) :
    (l.foldl f a).1.size = a.1.size := by
  induction l generalizing a with
  | nil => rfl
  | cons x l ih => simp only [List.foldl_cons]; rw [ih, hf]

theorem solveCell_size (fw bw : List SubRow) (L U x : Array K) : (solveCell fw bw L U x).size = x.size := by
  unfold solveCell
  simp only []
  rw [foldl_state_size, foldl_state_size]
  · intro a b; simp only [wr_size]
    exact foldl_size _ (fun a b => by simp) _ _
  · intro a b; simp only [wr_size]
    exact foldl_size _ (fun a b => by simp) _ _

theorem solveInPlaceCell_size (fw bw : List SubRow) (M x : Array K) :
    (solveInPlaceCell fw bw M x).size = x.size := by
  unfold solveInPlaceCell
  simp only []
  rw [foldl_state_size, foldl_state_size]
  · intro a b
    exact foldl_size _ (fun a b => by simp) _ _
  · intro a b; simp only [wr_size]
    exact foldl_size _ (fun a b => by simp) _ _

theorem linSolve_size (s : SolverCfg K) (J Lo Up X : Mat K) : (s.linSolve J Lo Up X).size = X.size := by
  unfold SolverCfg.linSolve; split <;> simp

theorem linSolve_getD (s : SolverCfg K) (J Lo Up X : Mat K) (c : Nat) (hc : c < X.size) :
    (s.linSolve J Lo Up X).getD c #[] =
      if s.la.kind.inPlace then solveInPlaceCell s.la.fw s.la.bw (J.getD c #[]) (X.getD c #[])
      else solveCell s.la.fw s.la.bw (Lo.getD c #[]) (Up.getD c #[]) (X.getD c #[]) := by
  unfold SolverCfg.linSolve
  by_cases hk : s.la.kind.inPlace = true
  · rw [if_pos hk, if_pos hk]; exact getD_mapIdx _ X c hc #[] #[]
  · rw [if_neg hk, if_neg hk]; exact getD_mapIdx _ X c hc #[] #[]

theorem cellShape_linSolve (s : SolverCfg K) (J Lo Up X : Mat K) {n c : Nat} (h : CellShape n c X) :
    CellShape n c (s.linSolve J Lo Up X) := by
  refine ⟨by rw [linSolve_size]; exact h.1, ?_⟩
  rw [linSolve_getD s J Lo Up X c h.1]
  split
  · rw [solveInPlaceCell_size]; exact h.2
  · rw [solveCell_size]; exact h.2

end Cell

/-! ### A3: one attempt -/

section Attempt
variable {K : Type} [Field K]
variable (s : SolverCfg K) (p : RosParams K) (kc : Mat K) (w : Nat → K) (n c : Nat)

/-- the forcing of cell `c`, computed into a zeroed buffer, is orthogonal to `w` — at every state -/
def ForcOrth : Prop :=
  ∀ (Y F : Mat K), CellShape n c F → wdot w n ((s.forcing kc Y (fillM F 0)).getD c #[]) = 0

/-- the per-cell linear solve with the factorisation `(J, Lo, Up)` maps right-hand sides orthogonal
    to `w` to solutions orthogonal to `w` -/
def WSolve (J Lo Up : Mat K) : Prop :=
  ∀ X : Mat K, CellShape n c X → wdot w n (X.getD c #[]) = 0 →
    wdot w n ((s.linSolve J Lo Up X).getD c #[]) = 0

/-- the function value used by each stage is orthogonal to `w` -/
theorem stageForcing_cell (hf : ForcOrth s kc w n c) (Y : Mat K) (K0 Kf : Array (Mat K))
    (hsh : ∀ i, i < p.stages → CellShape n c (K0.getD i #[]))
    (h0 : wdot w n ((K0.getD 0 #[]).getD c #[]) = 0) (i : Nat) (hi : i < p.stages) :
    CellShape n c (stageForcing s p kc Y K0 Kf i) ∧
    wdot w n ((stageForcing s p kc Y K0 Kf i).getD c #[]) = 0 := by
  induction i with
  | zero => exact ⟨hsh 0 hi, h0⟩
  | succ i ih =>
    unfold stageForcing
    split
    · exact ⟨cellShape_forcing s kc _ _ (cellShape_fillM (hsh (i + 1) hi) 0).1, hf _ _ (hsh (i + 1) hi)⟩
    · exact ih (by omega)

/-- all stage vectors of `stagesGo` are orthogonal to `w` -/
theorem stagesGo_cell (hf : ForcOrth s kc w n c) (Y J Lo Up : Mat K) (hs : WSolve s w n c J Lo Up)
    (h : K) (K0 : Array (Mat K)) (hK0 : p.stages ≤ K0.size)
    (hsh : ∀ i, i < p.stages → CellShape n c (K0.getD i #[]))
    (h0 : wdot w n ((K0.getD 0 #[]).getD c #[]) = 0) (ynew : Mat K) (st : Stats)
    (i : Nat) (hi : i < p.stages) :
    CellShape n c ((stagesGo s p kc Y J Lo Up h p.stages 0 K0 ynew st).1.getD i #[]) ∧
    wdot w n (((stagesGo s p kc Y J Lo Up h p.stages 0 K0 ynew st).1.getD i #[]).getD c #[]) = 0 := by
  induction i using Nat.strong_induction_on with
  | _ i ih =>
    rw [stagesGo_equations s p kc Y J Lo Up h K0 hK0 ynew st i hi]
    generalize (stagesGo s p kc Y J Lo Up h p.stages 0 K0 ynew st).1 = Kf at ih ⊢
    obtain ⟨f1, f2⟩ := stageForcing_cell s p kc w n c hf Y K0 Kf hsh h0 i hi
    unfold stageRhsOf
    obtain ⟨x1, x2⟩ := axpy_fold_cell_zero w (fun j => rd p.c (i * (i - 1) / 2 + j) / h)
      (fun j => Kf.getD j #[]) (List.range i) _ f1
      (fun j hj => (ih j (List.mem_range.mp hj) (by have := List.mem_range.mp hj; omega)).2)
    exact ⟨cellShape_linSolve s J Lo Up _ x1, hs _ x1 (by rw [x2, f2])⟩

/-- **A3** (abstract solver): for an attempt started from the post-prologue state `r`, if the cell's
    dense buffers have `n` entries, the initial forcing is orthogonal to `w`, every forcing is
    (`ForcOrth`) and the solve of this attempt preserves orthogonality (`WSolve`), then every stage
    vector is orthogonal to `w`, `w·Ynew = w·Y` and `w·Yerr = 0`. -/
theorem attempt_conserves (hf : ForcOrth s kc w n c) (r : RState K)
    (hs : WSolve s w n c (attFactor s p r).1 (attFactor s p r).2.1 (attFactor s p r).2.2)
    (hk : p.stages ≤ r.sc.k.size)
    (hksh : ∀ i, i < p.stages → CellShape n c (r.sc.k.getD i #[]))
    (hf0s : CellShape n c r.sc.f0) (hf0 : wdot w n (r.sc.f0.getD c #[]) = 0)
    (hY : CellShape n c r.Y) (hye : CellShape n c r.sc.yerr) :
    (∀ i, i < p.stages → CellShape n c ((attStages s p kc r).1.getD i #[]) ∧
      wdot w n (((attStages s p kc r).1.getD i #[]).getD c #[]) = 0) ∧
    (CellShape n c (attYnew s p kc r) ∧
      wdot w n ((attYnew s p kc r).getD c #[]) = wdot w n (r.Y.getD c #[])) ∧
    (CellShape n c (attYerr s p kc r) ∧ wdot w n ((attYerr s p kc r).getD c #[]) = 0) := by
  have hst : ∀ i, i < p.stages → CellShape n c ((attStages s p kc r).1.getD i #[]) ∧
      wdot w n (((attStages s p kc r).1.getD i #[]).getD c #[]) = 0 := by
    intro i hi
    unfold attStages
    have hsz : p.stages ≤ (r.sc.k.setIfInBounds 0 r.sc.f0).size := by simpa using hk
    apply stagesGo_cell s p kc w n c hf r.Y _ _ _ hs r.ctl.h _ hsz _ _ _ _ i hi
    · intro j hj
      by_cases h0 : j = 0
      · subst h0; rw [getD_set_eq _ _ _ _ (by omega)]; exact hf0s
      · rw [getD_set_ne _ _ _ _ _ (by omega)]; exact hksh j hj
    · by_cases hp : 0 < r.sc.k.size
      · rw [getD_set_eq _ _ _ _ hp]; exact hf0
      · have : (r.sc.k.setIfInBounds 0 r.sc.f0).getD 0 #[] = #[] := by
          simp [Array.getD, show ¬ 0 < r.sc.k.size from hp]
        rw [this]; simp [wdot, rd]
  refine ⟨hst, ?_, ?_⟩
  · unfold attYnew
    exact axpy_fold_cell_zero w (fun i => rd p.m i) (fun i => (attStages s p kc r).1.getD i #[])
      (List.range p.stages) r.Y hY (fun i hi => (hst i (List.mem_range.mp hi)).2)
  · unfold attYerr
    obtain ⟨z1, z2⟩ := cellShape_fillM hye (0 : K)
    obtain ⟨e1, e2⟩ := axpy_fold_cell_zero w (fun i => rd p.e i) (fun i => (attStages s p kc r).1.getD i #[])
      (List.range p.stages) (fillM r.sc.yerr 0) z1 (fun i hi => (hst i (List.mem_range.mp hi)).2)
    exact ⟨e1, by rw [e2, z2, wdot_replicate_zero]⟩

end Attempt

/-! ### A4: the whole loop -/

section Loop
variable {K : Type} [Field K]
variable (o : Ops K) (cs : Consts K) (s : SolverCfg K) (p : RosParams K) (kc : Mat K)
    (atol : Array K) (rtol : K) (T hm : K) (w : Nat → K) (n c : Nat)

/-- cell `c` of the dense data of the state has `n` entries -/
structure DenseOK (p : RosParams K) (n c : Nat) (r : RState K) : Prop where
  Y : CellShape n c r.Y
  f0 : CellShape n c r.sc.f0
  yerr : CellShape n c r.sc.yerr
  ksz : p.stages ≤ r.sc.k.size
  k : ∀ i, i < p.stages → CellShape n c (r.sc.k.getD i #[])

/-- the conservation invariant of cell `c`: shapes, `w·Y = σ`, and inside a step the initial forcing
    is orthogonal to `w` -/
structure ConsInv (p : RosParams K) (w : Nat → K) (n c : Nat) (σ : K) (r : RState K) : Prop where
  dense : DenseOK p n c r
  sum : wdot w n (r.Y.getD c #[]) = σ
  f0 : r.status = .running → r.inStep = true → wdot w n (r.sc.f0.getD c #[]) = 0

theorem ConsInv_prologue (hf : ForcOrth s kc w n c) (σ : K) (r : RState K) (h : ConsInv p w n c σ r) :
    ConsInv p w n c σ (rosPrologue o cs s p kc T r) := by
  have hc := rosPrologue_cases o cs s p kc T r
  generalize rosPrologue o cs s p kc T r = r' at hc ⊢
  cases hc with
  | inStep _ => exact h
  | converged => exact ⟨⟨h.1.1, h.1.2, h.1.3, h.1.4, h.1.5⟩, h.2, fun h1 => by cases h1⟩
  | maxSteps => exact ⟨⟨h.1.1, h.1.2, h.1.3, h.1.4, h.1.5⟩, h.2, fun h1 => by cases h1⟩
  | tooSmall => exact ⟨⟨h.1.1, h.1.2, h.1.3, h.1.4, h.1.5⟩, h.2, fun h1 => by cases h1⟩
  | start =>
    refine ⟨⟨h.1.1, ?_, h.1.3, h.1.4, h.1.5⟩, h.2, fun _ _ => hf _ _ h.1.2⟩
    exact cellShape_forcing s kc _ _ (cellShape_fillM h.1.2 0).1

theorem ConsInv_attempt (hf : ForcOrth s kc w n c) (σ : K) (r : RState K) (hr : r.status = .running)
    (hi : r.inStep = true) (h : ConsInv p w n c σ r)
    (hs : WSolve s w n c (attFactor s p r).1 (attFactor s p r).2.1 (attFactor s p r).2.2) :
    ConsInv p w n c σ (rosAttempt o cs s p kc atol rtol hm r) := by
  obtain ⟨a1, ⟨a2, a3⟩, ⟨a4, _⟩⟩ := attempt_conserves s p kc w n c hf r hs h.1.ksz h.1.k h.1.f0
    (h.f0 hr hi) h.1.Y h.1.yerr
  have hY : CellShape n c (rosAttempt o cs s p kc atol rtol hm r).Y ∧
      wdot w n ((rosAttempt o cs s p kc atol rtol hm r).Y.getD c #[]) = σ := by
    rw [rosAttempt_Y]; split
    · exact ⟨h.1.Y, h.2⟩
    · exact ⟨a2, a3.trans h.2⟩
  refine ⟨⟨hY.1, ?_, ?_, ?_, ?_⟩, hY.2, ?_⟩
  · rw [rosAttempt_f0]; exact h.1.f0
  · rw [rosAttempt_yerr]; exact a4
  · rw [rosAttempt_k]; unfold attStages; rw [stagesGo_K_size]; simpa using h.1.ksz
  · intro i hi'; rw [rosAttempt_k]; exact (a1 i hi').1
  · intro h1 h2
    rw [rosAttempt_inStep] at h2
    rw [rosAttempt_f0]
    exact h.f0 hr hi

/-- one iteration preserves the invariant, given that the solve of the attempt it makes (if any)
    preserves orthogonality -/
theorem ConsInv_step (hf : ForcOrth s kc w n c) (σ : K) (r : RState K) (h : ConsInv p w n c σ r)
    (hs : (rosPrologue o cs s p kc T r).status = .running →
      WSolve s w n c (attFactor s p (rosPrologue o cs s p kc T r)).1
        (attFactor s p (rosPrologue o cs s p kc T r)).2.1
        (attFactor s p (rosPrologue o cs s p kc T r)).2.2) :
    ConsInv p w n c σ (rosStep o cs s p kc atol rtol T hm r) := by
  have hp := ConsInv_prologue o cs s p kc T w n c hf σ r h
  rw [rosStep_eq]; split
  · rename_i hrun
    exact ConsInv_attempt o cs s p kc atol rtol hm w n c hf σ _ hrun
      (rosPrologue_running_inStep o cs s p kc T r hrun) hp (hs hrun)
  · exact hp

/-- **A4**: the invariant holds in the state where `rosLoop` stops, provided the solve of every
    attempt made along the way (iteration `k < fuel`, from the `k`-th iterate of `rosStep`) preserves
    orthogonality -/
theorem ConsInv_loop (hf : ForcOrth s kc w n c) (σ : K) (fuel : Nat) (r : RState K)
    (h : ConsInv p w n c σ r)
    (hs : ∀ k, k < fuel →
      (rosPrologue o cs s p kc T ((rosStep o cs s p kc atol rtol T hm)^[k] r)).status = .running →
      WSolve s w n c
        (attFactor s p (rosPrologue o cs s p kc T ((rosStep o cs s p kc atol rtol T hm)^[k] r))).1
        (attFactor s p (rosPrologue o cs s p kc T ((rosStep o cs s p kc atol rtol T hm)^[k] r))).2.1
        (attFactor s p (rosPrologue o cs s p kc T ((rosStep o cs s p kc atol rtol T hm)^[k] r))).2.2) :
    ConsInv p w n c σ (rosLoop o cs s p kc atol rtol T hm fuel r) := by
  induction fuel generalizing r with
  | zero =>
    rw [rosLoop_zero]; split
    · exact ⟨⟨h.1.1, h.1.2, h.1.3, h.1.4, h.1.5⟩, h.2, fun h1 => by cases h1⟩
    · exact h
  | succ fuel ih =>
    rw [rosLoop_succ]; split
    · apply ih _ (ConsInv_step o cs s p kc atol rtol T hm w n c hf σ r h (hs 0 (by omega)))
      intro k hk
      have := hs (k + 1) (by omega)
      rwa [Function.iterate_succ_apply] at this
    · exact h

theorem ConsInv_iter (hf : ForcOrth s kc w n c) (σ : K) (r : RState K) (h : ConsInv p w n c σ r) (m : Nat)
    (hs : ∀ k, k < m →
      (rosPrologue o cs s p kc T ((rosStep o cs s p kc atol rtol T hm)^[k] r)).status = .running →
      WSolve s w n c
        (attFactor s p (rosPrologue o cs s p kc T ((rosStep o cs s p kc atol rtol T hm)^[k] r))).1
        (attFactor s p (rosPrologue o cs s p kc T ((rosStep o cs s p kc atol rtol T hm)^[k] r))).2.1
        (attFactor s p (rosPrologue o cs s p kc T ((rosStep o cs s p kc atol rtol T hm)^[k] r))).2.2) :
    ConsInv p w n c σ ((rosStep o cs s p kc atol rtol T hm)^[m] r) := by
  induction m with
  | zero => exact h
  | succ m ih =>
    rw [Function.iterate_succ_apply']
    exact ConsInv_step o cs s p kc atol rtol T hm w n c hf σ _
      (ih (fun k hk => hs k (by omega))) (hs m (by omega))

end Loop

/-! ### the concrete solver: `WSolve` from "no zero pivot" -/

section Concrete
variable {K : Type} [Field K]

theorem alphaMinusJacobian_size (s : SolverCfg K) (J : Mat K) (a : K) :
    (s.alphaMinusJacobian J a).size = J.size := by simp [SolverCfg.alphaMinusJacobian]

theorem alphaMinusJacobian_getD (s : SolverCfg K) (J : Mat K) (a : K) (c : Nat) (hc : c < J.size) :
    (s.alphaMinusJacobian J a).getD c #[] = shiftRow s.diag (J.getD c #[]) a := by
  rw [alphaMinusJacobian_eq]; exact getD_map' _ J c hc #[] #[]

theorem jacobian_size (s : SolverCfg K) (kc Y F : Mat K) : (s.jacobian kc Y F).size = F.size := by
  simp [SolverCfg.jacobian]

theorem jacobian_getD (s : SolverCfg K) (kc Y F : Mat K) (c : Nat) (hc : c < F.size) :
    (s.jacobian kc Y F).getD c #[] =
      s.tables.subtractJacobianCell s.flatIds (kc.getD c #[]) (Y.getD c #[]) (F.getD c #[]) := by
  unfold SolverCfg.jacobian; exact getD_mapIdx _ F c hc #[] #[]

theorem subtractJacobianCell_size (t : PSTables K) (flat : List Nat) (k y J : Array K) :
    (t.subtractJacobianCell flat k y J).size = J.size := jacGo_size k y _ _ _ flat J

theorem cellShape_jacobian (s : SolverCfg K) (kc Y F : Mat K) {n c : Nat} (h : CellShape n c F) :
    CellShape n c (s.jacobian kc Y F) :=
  ⟨by rw [jacobian_size]; exact h.1,
   by rw [jacobian_getD s kc Y F c h.1, subtractJacobianCell_size]; exact h.2⟩

theorem cellShape_shift (s : SolverCfg K) (J : Mat K) (a : K) {n c : Nat} (h : CellShape n c J) :
    CellShape n c (s.alphaMinusJacobian J a) :=
  ⟨by rw [alphaMinusJacobian_size]; exact h.1,
   by rw [alphaMinusJacobian_getD s J a c h.1, shiftRow_size]; exact h.2⟩

/-! the ranks of the diagonal -/

theorem mem_diagRanks (p : Pattern) (q : Nat) :
    q ∈ p.diagRanks ↔ ∃ i, i < p.n ∧ p.rank i i = .ok q := by
  unfold Pattern.diagRanks
  rw [List.mem_filterMap]
  constructor
  · rintro ⟨i, hi, h⟩
    refine ⟨i, List.mem_range.mp hi, ?_⟩
    split at h
    · next k hk => rw [hk]; injection h with h; rw [h]
    · cases h
  · rintro ⟨i, hi, h⟩
    exact ⟨i, List.mem_range.mpr hi, by rw [h]⟩

theorem diagRanks_nodup (p : Pattern)
    (hinj : ∀ r c r' c' q, p.rank r c = .ok q → p.rank r' c' = .ok q → r = r' ∧ c = c') :
    p.diagRanks.Nodup := by
  unfold Pattern.diagRanks
  apply List.Nodup.filterMap _ List.nodup_range
  intro a a' b hb hb'
  have h1 : p.rank a a = .ok b := by
    split at hb
    · next k hk => rw [hk]; simp at hb; rw [hb]
    · simp at hb
  have h2 : p.rank a' a' = .ok b := by
    split at hb'
    · next k hk => rw [hk]; simp at hb'; rw [hb']
    · simp at hb'
  exact (hinj _ _ _ _ _ h1 h2).1

/-- `−∂f_i/∂y_j` vanishes outside the declared non-zero elements -/
theorem negJac_eq_zero (procs : List (Process K)) (m : NameMap) (t : PSTables K)
    (hb : ProcessSet.build procs m = .ok t) (i j : Nat) (hx : (i, j) ∉ t.nonZeroJacobianElements)
    (k y : Array K) : negJac m procs k y i j = 0 := by
  unfold negJac
  rw [neg_eq_zero]
  apply jac_sum_map_zero
  intro pi hpi
  have hp : pi.1 ∈ procs := List.fst_mem_of_mem_zipIdx hpi
  by_cases hj : j ∈ specReactIds m pi.1.reactants
  · have hi1 : i ∉ specReactIds m pi.1.reactants := fun h =>
      hx ((mem_nonZero_of_build procs m t hb (i, j)).mpr ⟨pi.1, hp, hj, Or.inl h⟩)
    have hi2 : i ∉ (specProdIds m pi.1.products).map (·.1) := fun h =>
      hx ((mem_nonZero_of_build procs m t hb (i, j)).mpr ⟨pi.1, hp, hj, Or.inr h⟩)
    have : jacNet (specReactIds m pi.1.reactants) (specProdIds m pi.1.products) i = 0 := by
      unfold jacNet
      have hf : (specProdIds m pi.1.products).filter (fun p => p.1 = i) = [] := by
        rw [List.filter_eq_nil_iff]
        intro q hq hqi
        exact hi2 (List.mem_map.mpr ⟨q, hq, by simpa using hqi⟩)
      rw [hf, List.count_eq_zero_of_not_mem hi1]; simp
    rw [this, zero_mul]
  · rw [dMonomial_of_not_mem _ _ _ hj, mul_zero, mul_zero]

/-- a solver configuration as `SolverBuilder` builds it (`n` species, name map `m`, mechanism
    `procs`, LU variant `kind` on the Jacobian pattern `jac`) -/
structure BuiltCfg (s : SolverCfg K) (m : NameMap) (procs : List (Process K)) (n : Nat)
    (kind : LUKind) (jac : Pattern) : Prop where
  tables : ProcessSet.build procs m = .ok s.tables
  names : (m.map (·.1)).Nodup
  ids : (m.map (·.2)).Nodup
  idlt : ∀ e ∈ m, e.2 < n
  param : ∀ p ∈ procs, ∀ r ∈ p.reactants, r.param = true → nmLookup m r.name = none
  la : s.la = LinAlg.build kind jac
  jn : jac.n = n
  jdiag : ∀ i, i < jac.n → jac.zero? i i = false
  flat : s.tables.jacobianFlatIds s.la.A = .ok s.flatIds
  diag : s.diag = s.la.A.diagRanks
  inj : ∀ r c r' c' q, s.la.A.rank r c = .ok q → s.la.A.rank r' c' = .ok q → r = r' ∧ c = c'
  range : ∀ r c q, s.la.A.rank r c = .ok q → q < s.la.A.nnz
  diagP : ∀ i, i < n → s.la.A.zero? i i = false
  cover : ∀ x ∈ s.tables.nonZeroJacobianElements, s.la.A.zero? x.1 x.2 = false

theorem build_A_n (kind : LUKind) (jac : Pattern) : (LinAlg.build kind jac).A.n = jac.n := by
  cases kind <;> rfl

theorem build_kind (kind : LUKind) (jac : Pattern) : (LinAlg.build kind jac).kind = kind := by
  cases kind <;> rfl

variable {s : SolverCfg K} {m : NameMap} {procs : List (Process K)} {n : Nat} {kind : LUKind}
  {jac : Pattern}

theorem BuiltCfg.An (hb : BuiltCfg s m procs n kind jac) : s.la.A.n = n := by
  rw [hb.la, build_A_n, hb.jn]

/-- **the matrix of an attempt, logically**: cell `c` of `−J(Y)` (assembled into a zeroed buffer)
    shifted by `a` reads, through the pattern of `state.jacobian_`, as `a·I − ∂f/∂y` — on *all*
    index pairs `i, j < n` (absent elements are structural zeros of the derivative) -/
theorem view_shifted_jacobian (hb : BuiltCfg s m procs n kind jac) (kc Y B : Mat K) (c : Nat)
    (hB : CellShape s.la.A.nnz c B) (a : K) (i j : Nat) (hi : i < n) (hj : j < n) :
    view s.la.A ((s.alphaMinusJacobian (s.jacobian kc Y (fillM B 0)) a).getD c #[]) i j
      = (if i = j then a else 0) + negJac m procs (kc.getD c #[]) (Y.getD c #[]) i j := by
  obtain ⟨z1, z2⟩ := cellShape_fillM hB (0 : K)
  have hc : c < (s.jacobian kc Y (fillM B 0)).size := by rw [jacobian_size]; exact z1.1
  rw [alphaMinusJacobian_getD _ _ _ _ hc, jacobian_getD _ _ _ _ _ z1.1, z2]
  generalize hJr : s.tables.subtractJacobianCell s.flatIds (kc.getD c #[]) (Y.getD c #[])
    (Array.replicate s.la.A.nnz 0) = Jr
  have hsz : Jr.size = s.la.A.nnz := by rw [← hJr, subtractJacobianCell_size]; simp
  have hnd : s.diag.Nodup := by rw [hb.diag]; exact diagRanks_nodup _ hb.inj
  unfold view
  cases hz : s.la.A.zero? i j
  · obtain ⟨q, hq⟩ := (zero?_false_iff_rank _ _ _).mp hz
    have hval : rd Jr q = negJac m procs (kc.getD c #[]) (Y.getD c #[]) i j := by
      rw [← hJr]
      exact C02_jacobian_zero procs m s.tables hb.tables hb.names hb.ids hb.param s.la.A s.flatIds
        hb.flat hb.inj _ _ s.la.A.nnz hb.range i j q hq
    have hlt : q < Jr.size := by rw [hsz]; exact hb.range _ _ _ hq
    simp only [Bool.false_eq_true, if_false]
    rw [rk_of_rank hq, rd_shiftRow _ hnd, hval]
    by_cases hij : i = j
    · subst hij
      have : q ∈ s.diag := by
        rw [hb.diag, mem_diagRanks]; exact ⟨i, by rw [hb.An]; exact hi, hq⟩
      simp [this, hlt]; ring
    · have : q ∉ s.diag := by
        rw [hb.diag, mem_diagRanks]
        rintro ⟨i', _, h'⟩
        obtain ⟨e1, e2⟩ := hb.inj _ _ _ _ _ hq h'
        exact hij (e1.trans e2.symm)
      simp [this, hij]
  · have hij : i ≠ j := by
      rintro rfl; rw [hb.diagP i hi] at hz; cases hz
    have hx : (i, j) ∉ s.tables.nonZeroJacobianElements := fun h => by
      have := hb.cover (i, j) h
      rw [hz] at this; cases this
    simp only [if_true, hij, if_false, zero_add]
    exact (negJac_eq_zero procs m s.tables hb.tables i j hx _ _).symm

/-- the diagonal of `U` after `Factor`, cell `c` (read in `state.jacobian_` for the in-place
    variants, in `state.upper_matrix_` otherwise) -/
def attPivot (s : SolverCfg K) (fa : Mat K × Mat K × Mat K) (c i : Nat) : K :=
  if s.la.kind.inPlace then view s.la.A (fa.1.getD c #[]) i i else view s.la.Up (fa.2.2.getD c #[]) i i

/-- `Factor` then `Solve` of the model, cell `c`, for each of the four LU variants of
    `LinAlg.build`: the result solves `A x = b` for the logical matrix `A` held by cell `c` of the
    matrix handed to `Factor`, provided no pivot of that cell is zero -/
theorem factor_solve_cell (hla : s.la = LinAlg.build kind jac) (hjn : jac.n = n)
    (hjd : ∀ i, i < jac.n → jac.zero? i i = false)
    (Mx Lo Up X : Mat K) (c : Nat) (hM : CellShape s.la.A.nnz c Mx)
    (hL : CellShape s.la.Lp.nnz c Lo) (hU : CellShape s.la.Up.nnz c Up) (hX : CellShape n c X)
    (hpiv : ∀ i, i < n → attPivot s (s.factor Mx Lo Up) c i ≠ 0) (i : Nat) (hi : i < n) :
    ∑ j ∈ range n, view s.la.A (Mx.getD c #[]) i j *
      rd ((s.linSolve (s.factor Mx Lo Up).1 (s.factor Mx Lo Up).2.1 (s.factor Mx Lo Up).2.2 X).getD c #[]) j
      = rd (X.getD c #[]) i := by
  have hk : s.la.kind = kind := by rw [hla, build_kind]
  rw [linSolve_getD s _ _ _ X c hX.1]
  unfold attPivot at hpiv
  subst hjn
  cases kind with
  | doolittle =>
    have e1 : (s.factor Mx Lo Up).2.1.getD c #[] =
        (doolittleCell s.la.dRows (Mx.getD c #[]) (Lo.getD c #[], Up.getD c #[])).1 := by
      unfold SolverCfg.factor; simp only [hk]
      rw [getD_map' _ _ c (by simpa using hM.1) #[] (#[], #[]), getD_mapIdx _ Mx c hM.1 (#[], #[]) #[]]
    have e2 : (s.factor Mx Lo Up).2.2.getD c #[] =
        (doolittleCell s.la.dRows (Mx.getD c #[]) (Lo.getD c #[], Up.getD c #[])).2 := by
      unfold SolverCfg.factor; simp only [hk]
      rw [getD_map' _ _ c (by simpa using hM.1) #[] (#[], #[]), getD_mapIdx _ Mx c hM.1 (#[], #[]) #[]]
    simp only [hk, LUKind.inPlace, Bool.false_eq_true, if_false] at hpiv ⊢
    rw [e1, e2]
    rw [e2] at hpiv
    rw [hla] at hL hU hpiv ⊢
    exact C04_build_doolittle jac _ _ _ _ hL.2 hU.2 hX.2 hpiv i hi
  | mozart =>
    have e1 : (s.factor Mx Lo Up).2.1.getD c #[] =
        (mozartCell s.la.mInit s.la.mRows (Mx.getD c #[]) (Lo.getD c #[], Up.getD c #[])).1 := by
      unfold SolverCfg.factor; simp only [hk]
      rw [getD_map' _ _ c (by simpa using hM.1) #[] (#[], #[]), getD_mapIdx _ Mx c hM.1 (#[], #[]) #[]]
    have e2 : (s.factor Mx Lo Up).2.2.getD c #[] =
        (mozartCell s.la.mInit s.la.mRows (Mx.getD c #[]) (Lo.getD c #[], Up.getD c #[])).2 := by
      unfold SolverCfg.factor; simp only [hk]
      rw [getD_map' _ _ c (by simpa using hM.1) #[] (#[], #[]), getD_mapIdx _ Mx c hM.1 (#[], #[]) #[]]
    simp only [hk, LUKind.inPlace, Bool.false_eq_true, if_false] at hpiv ⊢
    rw [e1, e2]
    rw [e2] at hpiv
    rw [hla] at hL hU hpiv ⊢
    exact C04_build_mozart jac hjd _ _ _ _ hL.2 hU.2 hX.2 hpiv i hi
  | doolittleInPlace =>
    have e1 : (s.factor Mx Lo Up).1.getD c #[] = doolittleInPlaceCell s.la.diRows (Mx.getD c #[]) := by
      unfold SolverCfg.factor; simp only [hk]
      rw [getD_map' _ _ c hM.1 #[] #[]]
    simp only [hk, LUKind.inPlace, if_true] at hpiv ⊢
    rw [e1]
    rw [e1] at hpiv
    rw [hla] at hM hpiv ⊢
    exact C04_build_doolittleInPlace jac _ _ hM.2 hX.2 hpiv i hi
  | mozartInPlace =>
    have e1 : (s.factor Mx Lo Up).1.getD c #[] = mozartInPlaceCell s.la.miRows (Mx.getD c #[]) := by
      unfold SolverCfg.factor; simp only [hk]
      rw [getD_map' _ _ c hM.1 #[] #[]]
    simp only [hk, LUKind.inPlace, if_true] at hpiv ⊢
    rw [e1]
    rw [e1] at hpiv
    rw [hla] at hM hpiv ⊢
    exact C04_build_mozartInPlace jac hjd _ _ hM.2 hX.2 hpiv i hi

end Concrete

/-! ### the concrete attempt and loop -/

section ConcreteLoop
variable {K : Type} [Field K]

/-- the unit vector `e_i` of length `n` -/
def unitVec (n i : Nat) : Array K := wr (Array.replicate n 0) i 1

theorem wdot_unitVec (w : Nat → K) (n i : Nat) (hi : i < n) : wdot w n (unitVec n i) = w i := by
  unfold wdot unitVec
  have : ∀ j, w j * rd (wr (Array.replicate n (0 : K)) i 1) j = if i = j then w i else 0 := by
    intro j
    rw [rd_wr, rd_replicate_zero]
    by_cases h : i = j
    · subst h; simp [hi]
    · simp [h]
  simp only [this, sum_ite_eq, mem_range, hi, if_true]

/-- if the cell solve inverts a matrix `M` with `wᵀM = α wᵀ` on every right-hand side, it preserves
    orthogonality to `w` — also for `α = 0`, where solvability forces `w = 0` on the cell -/
theorem wsolve_of_solves (s : SolverCfg K) (w : Nat → K) (n c : Nat) (J Lo Up : Mat K)
    (M : Nat → Nat → K) (α : K)
    (hM : ∀ j, j < n → ∑ i ∈ range n, w i * M i j = α * w j)
    (hsol : ∀ X : Mat K, CellShape n c X → ∀ i, i < n →
      ∑ j ∈ range n, M i j * rd ((s.linSolve J Lo Up X).getD c #[]) j = rd (X.getD c #[]) i) :
    WSolve s w n c J Lo Up := by
  intro X hX hX0
  have key : ∀ X : Mat K, CellShape n c X →
      wdot w n (X.getD c #[]) = α * wdot w n ((s.linSolve J Lo Up X).getD c #[]) := fun X hX =>
    wdot_of_solve n w M α (fun j => rd ((s.linSolve J Lo Up X).getD c #[]) j)
      (fun i => rd (X.getD c #[]) i) hM (hsol X hX)
  by_cases hα : α = 0
  · have hw : ∀ i, i < n → w i = 0 := by
      intro i hi
      have hsh : CellShape n c (Array.replicate (c + 1) (unitVec n i) : Mat K) := by
        refine ⟨by simp, ?_⟩
        have : (Array.replicate (c + 1) (unitVec n i) : Mat K).getD c #[] = unitVec n i := by
          simp [Array.getD]
        rw [this]; simp [unitVec]
      have := key _ hsh
      rw [hα, zero_mul] at this
      have e : (Array.replicate (c + 1) (unitVec n i) : Mat K).getD c #[] = unitVec n i := by
        simp [Array.getD]
      rw [e, wdot_unitVec w n i hi] at this
      exact this
    unfold wdot
    exact sum_eq_zero (fun i hi => by rw [hw i (mem_range.mp hi), zero_mul])
  · have := key X hX
    rw [hX0] at this
    rcases mul_eq_zero.mp this.symm with h | h
    · exact absurd h hα
    · exact h

/-! shapes: converses and the factorisation -/

theorem cellShape_of_fillM {n c : Nat} {M : Mat K} (v : K) (h : CellShape n c (fillM M v)) :
    CellShape n c M := by
  obtain ⟨h1, h2⟩ := h
  have h1' : c < M.size := by simpa [fillM] using h1
  refine ⟨h1', ?_⟩
  have : (fillM M v).getD c #[] = Array.replicate (M.getD c #[]).size v :=
    (cellShape_fillM (n := (M.getD c #[]).size) ⟨h1', rfl⟩ v).2
  rw [this] at h2
  simpa using h2

theorem cellShape_of_jacobian (s : SolverCfg K) (kc Y F : Mat K) {n c : Nat}
    (h : CellShape n c (s.jacobian kc Y F)) : CellShape n c F := by
  obtain ⟨h1, h2⟩ := h
  rw [jacobian_size] at h1
  rw [jacobian_getD s kc Y F c h1, subtractJacobianCell_size] at h2
  exact ⟨h1, h2⟩

theorem cellShape_of_shift (s : SolverCfg K) (J : Mat K) (a : K) {n c : Nat}
    (h : CellShape n c (s.alphaMinusJacobian J a)) : CellShape n c J := by
  obtain ⟨h1, h2⟩ := h
  rw [alphaMinusJacobian_size] at h1
  rw [alphaMinusJacobian_getD s J a c h1, shiftRow_size] at h2
  exact ⟨h1, h2⟩

theorem doolittleInPlaceCell_size (rows : List DIRow) (M : Array K) :
    (doolittleInPlaceCell rows M).size = M.size := by
  unfold doolittleInPlaceCell
  apply foldl_size
  intro M r
  simp only []
  rw [foldl_size, foldl_size]
  · intro M e; exact foldl_size _ (fun a b => by simp) _ _
  · intro M e; simp only [wr_size]; exact foldl_size _ (fun a b => by simp) _ _

theorem mozartInPlaceCell_size (rows : List MIRow) (M : Array K) :
    (mozartInPlaceCell rows M).size = M.size := by
  unfold mozartInPlaceCell
  apply foldl_size
  intro M r
  simp only []
  rw [foldl_size, foldl_size]
  · intro a b; simp
  · intro M k; exact foldl_size _ (fun a b => by simp) _ _

theorem cellShape_factor (s : SolverCfg K) (Mx Lo Up : Mat K) {nA nL nU c : Nat}
    (hM : CellShape nA c Mx) (hL : CellShape nL c Lo) (hU : CellShape nU c Up) :
    CellShape nA c (s.factor Mx Lo Up).1 ∧ CellShape nL c (s.factor Mx Lo Up).2.1 ∧
    CellShape nU c (s.factor Mx Lo Up).2.2 := by
  cases hk : s.la.kind.inPlace
  · rw [factor_sep s hk]
    refine ⟨hM, ⟨by simpa using hM.1, ?_⟩, ⟨by simpa using hM.1, ?_⟩⟩
    · rw [getD_map' _ _ c (by simpa using hM.1) #[] (#[], #[]), getD_mapIdx _ Mx c hM.1 (#[], #[]) #[],
        (luCellSep_size s _ _).1]; exact hL.2
    · rw [getD_map' _ _ c (by simpa using hM.1) #[] (#[], #[]), getD_mapIdx _ Mx c hM.1 (#[], #[]) #[],
        (luCellSep_size s _ _).2]; exact hU.2
  · rw [(factor_inplace s hk Mx Lo Up).1]
    refine ⟨?_, hL, hU⟩
    unfold SolverCfg.factor
    cases hkk : s.la.kind
    · rw [hkk] at hk; cases hk
    · rw [hkk] at hk; cases hk
    · exact ⟨by simpa using hM.1, by
        simp only []; rw [getD_map' _ _ c hM.1 #[] #[], doolittleInPlaceCell_size]; exact hM.2⟩
    · exact ⟨by simpa using hM.1, by
        simp only []; rw [getD_map' _ _ c hM.1 #[] #[], mozartInPlaceCell_size]; exact hM.2⟩

variable (o : Ops K) (cs : Consts K) {s : SolverCfg K} (p : RosParams K) (kc : Mat K)
    (atol : Array K) (rtol : K) (T hm : K) (w : Nat → K) {n : Nat} (c : Nat)
    {m : NameMap} {procs : List (Process K)} {kind : LUKind} {jac : Pattern}

/-- cell `c` of the sparse data of the state has the sizes of the configured patterns -/
structure SparseOK (s : SolverCfg K) (c : Nat) (r : RState K) : Prop where
  jac : CellShape s.la.A.nnz c r.sc.jac
  lower : CellShape s.la.Lp.nnz c r.sc.lower
  upper : CellShape s.la.Up.nnz c r.sc.upper

theorem SparseOK_prologue (r : RState K) (h : SparseOK s c r) :
    SparseOK s c (rosPrologue o cs s p kc T r) := by
  have hc := rosPrologue_cases o cs s p kc T r
  generalize rosPrologue o cs s p kc T r = r' at hc ⊢
  cases hc with
  | inStep _ => exact h
  | converged => exact ⟨h.1, h.2, h.3⟩
  | maxSteps => exact ⟨h.1, h.2, h.3⟩
  | tooSmall => exact ⟨h.1, h.2, h.3⟩
  | start => exact ⟨cellShape_jacobian s kc _ _ (cellShape_fillM h.1 0).1, h.2, h.3⟩

theorem SparseOK_attempt (r : RState K) (h : SparseOK s c r) :
    SparseOK s c (rosAttempt o cs s p kc atol rtol hm r) := by
  obtain ⟨f1, f2, f3⟩ := cellShape_factor s (attMatrix s p r) r.sc.lower r.sc.upper
    (cellShape_shift s r.sc.jac (attAlpha s p r) h.1) h.2 h.3
  obtain ⟨l1, l2⟩ := rosAttempt_lu o cs s p kc atol rtol hm r
  refine ⟨?_, by rw [l1]; exact f2, by rw [l2]; exact f3⟩
  rw [rosAttempt_jac]; split
  · exact cellShape_jacobian s kc _ _ (cellShape_fillM f1 0).1
  · exact f1

/-- the forcing of a mechanism that balances `w` is orthogonal to `w` in every cell -/
theorem forcOrth_of_balanced (hb : BuiltCfg s m procs n kind jac) (rxns : List (RRxn K))
    (hr : Resolves m procs rxns)
    (hbal : ∀ rx ∈ rxns, (rx.2.map fun p => w p.1 * p.2).sum = (rx.1.map w).sum) :
    ForcOrth s kc w n c := by
  intro Y F hF
  obtain ⟨z1, z2⟩ := cellShape_fillM hF (0 : K)
  rw [forcing_getD s kc Y _ c z1.1, z2]
  exact C09_forcing_orthogonal m procs s.tables rxns (.inr hb.tables) hr n hb.idlt w hbal _ _

/-- **the solve of one attempt preserves orthogonality**: post-prologue state `r` whose Jacobian
    buffer holds the (shifted) `−J(Y)` (`JacHolds`), sparse buffers of the right sizes, no zero pivot
    in cell `c` -/
theorem wsolve_attempt (hb : BuiltCfg s m procs n kind jac) (rxns : List (RRxn K))
    (hr : Resolves m procs rxns)
    (hbal : ∀ rx ∈ rxns, (rx.2.map fun p => w p.1 * p.2).sum = (rx.1.map w).sum)
    (r : RState K) (B : Mat K) (hB : JacHolds s kc r B) (hsp : SparseOK s c r)
    (hpiv : ∀ i, i < n → attPivot s (attFactor s p r) c i ≠ 0) :
    WSolve s w n c (attFactor s p r).1 (attFactor s p r).2.1 (attFactor s p r).2.2 := by
  have hmx := attMatrix_of_JacHolds s p kc r B hB
  have hBs : CellShape s.la.A.nnz c B := by
    have h1 := hsp.jac
    unfold JacHolds at hB
    rw [hB] at h1
    split at h1
    · exact cellShape_of_fillM 0 (cellShape_of_jacobian s kc _ _ h1)
    · exact cellShape_of_fillM 0 (cellShape_of_jacobian s kc _ _ (cellShape_of_shift s _ _ h1))
  have hMs : CellShape s.la.A.nnz c (attMatrix s p r) := cellShape_shift s _ _ hsp.jac
  apply wsolve_of_solves s w n c _ _ _
    (fun i j => view s.la.A ((attMatrix s p r).getD c #[]) i j) (1 / (r.ctl.h * p.gamma0))
  · intro j hj
    rw [hmx]
    unfold jac0
    have e : ∀ i ∈ range n, w i * view s.la.A
        ((s.alphaMinusJacobian (s.jacobian kc r.Y (fillM B 0)) (1 / (r.ctl.h * p.gamma0))).getD c #[]) i j
        = (if i = j then w i * (1 / (r.ctl.h * p.gamma0)) else 0)
          + w i * negJac m procs (kc.getD c #[]) (r.Y.getD c #[]) i j := by
      intro i hi
      rw [view_shifted_jacobian hb kc r.Y B c hBs _ i j (mem_range.mp hi) hj]
      by_cases hij : i = j <;> simp [hij, mul_add]
    rw [sum_congr rfl e, sum_add_distrib, negJac_orthogonal m procs rxns hr n hb.idlt w hbal,
      sum_ite_eq' , add_zero]
    simp only [mem_range, hj, if_true]; ring
  · intro X hX i hi
    exact factor_solve_cell hb.la hb.jn hb.jdiag (attMatrix s p r) r.sc.lower r.sc.upper X c hMs
      hsp.lower hsp.upper hX hpiv i hi

/-- the combined invariant of cell `c` -/
structure FullInv (s : SolverCfg K) (p : RosParams K) (kc : Mat K) (w : Nat → K) (n c : Nat) (σ : K)
    (r : RState K) : Prop where
  cons : ConsInv p w n c σ r
  sparse : SparseOK s c r
  shift : ShiftInv s kc r

theorem FullInv_step (hb : BuiltCfg s m procs n kind jac) (rxns : List (RRxn K))
    (hr : Resolves m procs rxns)
    (hbal : ∀ rx ∈ rxns, (rx.2.map fun p => w p.1 * p.2).sum = (rx.1.map w).sum)
    (σ : K) (r : RState K) (h : FullInv s p kc w n c σ r)
    (hpiv : (rosPrologue o cs s p kc T r).status = .running → ∀ i, i < n →
      attPivot s (attFactor s p (rosPrologue o cs s p kc T r)) c i ≠ 0) :
    FullInv s p kc w n c σ (rosStep o cs s p kc atol rtol T hm r) := by
  have hf := forcOrth_of_balanced kc w c hb rxns hr hbal
  have hsp := SparseOK_prologue o cs p kc T c r h.sparse
  have hsh := ShiftInv_prologue o cs s p kc T r h.shift
  refine ⟨?_, ?_, ?_⟩
  · apply ConsInv_step o cs s p kc atol rtol T hm w n c hf σ r h.cons
    intro hrun
    obtain ⟨B, hB⟩ := hsh hrun (rosPrologue_running_inStep o cs s p kc T r hrun)
    exact wsolve_attempt p kc w c hb rxns hr hbal _ B hB hsp (hpiv hrun)
  · exact rosStep_inv o cs s p kc atol rtol T hm (SparseOK s c) r (fun _ => hsp)
      (fun r' _ _ h' => SparseOK_attempt o cs p kc atol rtol hm c r' h') h.sparse
  · exact rosStep_inv o cs s p kc atol rtol T hm (ShiftInv s kc) r (fun _ => hsh)
      (fun r' h1 _ => ShiftInv_attempt o cs s p kc atol rtol hm r' h1) h.shift

theorem FullInv_loop (hb : BuiltCfg s m procs n kind jac) (rxns : List (RRxn K))
    (hr : Resolves m procs rxns)
    (hbal : ∀ rx ∈ rxns, (rx.2.map fun p => w p.1 * p.2).sum = (rx.1.map w).sum)
    (σ : K) (fuel : Nat) (r : RState K) (h : FullInv s p kc w n c σ r)
    (hpiv : ∀ k, k < fuel →
      (rosPrologue o cs s p kc T ((rosStep o cs s p kc atol rtol T hm)^[k] r)).status = .running →
      ∀ i, i < n → attPivot s
        (attFactor s p (rosPrologue o cs s p kc T ((rosStep o cs s p kc atol rtol T hm)^[k] r))) c i ≠ 0) :
    FullInv s p kc w n c σ (rosLoop o cs s p kc atol rtol T hm fuel r) := by
  induction fuel generalizing r with
  | zero =>
    rw [rosLoop_zero]; split
    · exact ⟨⟨⟨h.1.1.1, h.1.1.2, h.1.1.3, h.1.1.4, h.1.1.5⟩, h.1.2, fun h1 => by cases h1⟩,
        ⟨h.2.1, h.2.2, h.2.3⟩, fun h1 => by cases h1⟩
    · exact h
  | succ fuel ih =>
    rw [rosLoop_succ]; split
    · apply ih _ (FullInv_step o cs p kc atol rtol T hm w c hb rxns hr hbal σ r h (hpiv 0 (by omega)))
      intro k hk
      have := hpiv (k + 1) (by omega)
      rwa [Function.iterate_succ_apply] at this
    · exact h

theorem FullInv_iter (hb : BuiltCfg s m procs n kind jac) (rxns : List (RRxn K))
    (hr : Resolves m procs rxns)
    (hbal : ∀ rx ∈ rxns, (rx.2.map fun p => w p.1 * p.2).sum = (rx.1.map w).sum)
    (σ : K) (r : RState K) (h : FullInv s p kc w n c σ r) (N : Nat)
    (hpiv : ∀ k, k < N →
      (rosPrologue o cs s p kc T ((rosStep o cs s p kc atol rtol T hm)^[k] r)).status = .running →
      ∀ i, i < n → attPivot s
        (attFactor s p (rosPrologue o cs s p kc T ((rosStep o cs s p kc atol rtol T hm)^[k] r))) c i ≠ 0) :
    FullInv s p kc w n c σ ((rosStep o cs s p kc atol rtol T hm)^[N] r) := by
  induction N with
  | zero => exact h
  | succ N ih =>
    rw [Function.iterate_succ_apply']
    exact FullInv_step o cs p kc atol rtol T hm w c hb rxns hr hbal σ _
      (ih (fun k hk => hpiv k (by omega))) (hpiv N (by omega))

/-- the initial state of `rosSolve` satisfies the invariant when cell `c` of the inputs is well shaped -/
theorem FullInv_init (h0 : K) (Y : Mat K) (sc : Scratch K)
    (hY : CellShape n c Y) (hf0 : CellShape n c sc.f0) (hye : CellShape n c sc.yerr)
    (hks : p.stages ≤ sc.k.size) (hk : ∀ i, i < p.stages → CellShape n c (sc.k.getD i #[]))
    (hj : CellShape s.la.A.nnz c sc.jac) (hl : CellShape s.la.Lp.nnz c sc.lower)
    (hu : CellShape s.la.Up.nnz c sc.upper) :
    FullInv s p kc w n c (wdot w n (Y.getD c #[])) (rosInit h0 Y sc) :=
  ⟨⟨⟨hY, hf0, hye, hks, hk⟩, rfl, fun _ h => by cases h⟩, ⟨hj, hl, hu⟩, fun _ h => by cases h⟩

end ConcreteLoop

/-! ### one iteration, as seen from the state before it -/

section StepView
variable {K : Type} [Field K]
variable (o : Ops K) (cs : Consts K) {s : SolverCfg K} (p : RosParams K) (kc : Mat K)
    (atol : Array K) (rtol : K) (T hm : K) (w : Nat → K) {n : Nat} (c : Nat)
    {m : NameMap} {procs : List (Process K)} {kind : LUKind} {jac : Pattern}

/-- the factorisation of the attempt of this iteration is `Factor(att.matrix)` on the current `L`/`U` -/
theorem attFactor_prologue (r : RState K) :
    attFactor s p (rosPrologue o cs s p kc T r) =
      s.factor (attMatrix s p (rosPrologue o cs s p kc T r)) r.sc.lower r.sc.upper := by
  obtain ⟨_, f2, f3, _⟩ := rosPrologue_frame_sc o cs s p kc T r
  unfold attFactor; rw [f2, f3]

/-- **A3, concrete**: an iteration that records the attempt `att`, from a running state satisfying the
    invariant, with no zero pivot in cell `c`: all stage vectors and the error estimate are orthogonal
    to `w`, and `w·Y` is unchanged (whether the attempt is accepted or rejected) -/
theorem step_conserves (hb : BuiltCfg s m procs n kind jac) (rxns : List (RRxn K))
    (hr : Resolves m procs rxns)
    (hbal : ∀ rx ∈ rxns, (rx.2.map fun p => w p.1 * p.2).sum = (rx.1.map w).sum)
    (σ : K) (r : RState K) (h : FullInv s p kc w n c σ r) (att : Attempt K)
    (ht : (rosStep o cs s p kc atol rtol T hm r).trace = att :: r.trace)
    (hpiv : ∀ i, i < n → attPivot s (s.factor att.matrix r.sc.lower r.sc.upper) c i ≠ 0) :
    (∀ i, i < p.stages →
      wdot w n (((rosStep o cs s p kc atol rtol T hm r).sc.k.getD i #[]).getD c #[]) = 0) ∧
    wdot w n ((rosStep o cs s p kc atol rtol T hm r).sc.yerr.getD c #[]) = 0 ∧
    wdot w n ((rosStep o cs s p kc atol rtol T hm r).Y.getD c #[]) = wdot w n (r.Y.getD c #[]) := by
  obtain ⟨hs, rfl⟩ := rosStep_trace_cons o cs s p kc atol rtol T hm r att ht
  have hf := forcOrth_of_balanced kc w c hb rxns hr hbal
  have hsp := SparseOK_prologue o cs p kc T c r h.sparse
  have hsh := ShiftInv_prologue o cs s p kc T r h.shift
  have hco := ConsInv_prologue o cs s p kc T w n c hf σ r h.cons
  have hin := rosPrologue_running_inStep o cs s p kc T r hs
  obtain ⟨B, hB⟩ := hsh hs hin
  have hpiv' : ∀ i, i < n →
      attPivot s (attFactor s p (rosPrologue o cs s p kc T r)) c i ≠ 0 := by
    rw [attFactor_prologue]; exact hpiv
  have hws := wsolve_attempt p kc w c hb rxns hr hbal _ B hB hsp hpiv'
  obtain ⟨a1, ⟨_, a3⟩, ⟨_, a5⟩⟩ := attempt_conserves s p kc w n c hf _ hws hco.1.ksz hco.1.k hco.1.f0
    (hco.f0 hs hin) hco.1.Y hco.1.yerr
  rw [rosStep_attempt o cs s p kc atol rtol T hm r hs, rosAttempt_k, rosAttempt_yerr, rosAttempt_Y]
  refine ⟨fun i hi => (a1 i hi).2, a5, ?_⟩
  have fY := (rosPrologue_frame o cs s p kc T r).2.1
  split
  · rw [fY]
  · rw [a3, fY]

end StepView

/-! ### `BuiltCfg` holds for the configuration `SolverBuilder` constructs -/

section Builder
variable {K : Type} [Field K]

theorem build_A_good (kind : LUKind) (jac : Pattern) (hg : jac.Good) : (LinAlg.build kind jac).A.Good := by
  cases kind with
  | doolittle => exact hg
  | mozart => exact hg
  | doolittleInPlace =>
    exact good_mk (wf_doolittleInPlaceSymbolic jac.n (fun r c => jac.zero? r c)) jac.csc jac.L
  | mozartInPlace =>
    exact good_mk (wf_mozartInPlaceSymbolic jac.n (fun r c => jac.zero? r c)) jac.csc jac.L

theorem build_A_support (kind : LUKind) (jac : Pattern) (r c : Nat) (hr : r < jac.n) (hc : c < jac.n)
    (h : jac.zero? r c = false) : (LinAlg.build kind jac).A.zero? r c = false := by
  cases kind with
  | doolittle => exact h
  | mozart => exact h
  | doolittleInPlace =>
    exact (zero?_mk_iff (wf_doolittleInPlaceSymbolic jac.n (fun r c => jac.zero? r c)) jac.csc jac.L r c).mpr
      (doolittleInPlaceSymbolic_support jac.n _ r c hr hc h)
  | mozartInPlace =>
    exact (zero?_mk_iff (wf_mozartInPlaceSymbolic jac.n (fun r c => jac.zero? r c)) jac.csc jac.L r c).mpr
      (mozartInPlaceSymbolic_support jac.n _ r c hr hc h)

/-- the configuration assembled as `SolverBuilder::Build` does — process-set tables, the Jacobian
    pattern `BuildJacobian(NonZeroJacobianElements)` in either storage order and any group length,
    any of the four LU variants, flat ids computed on the pattern of `state.jacobian_`, the diagonal
    ranks of that pattern — satisfies `BuiltCfg` -/
theorem builtCfg_of_builder (procs : List (Process K)) (m : NameMap) (t : PSTables K)
    (hb : ProcessSet.build procs m = .ok t)
    (hk : (m.map (·.1)).Nodup) (hv : (m.map (·.2)).Nodup)
    (hparam : ∀ p ∈ procs, ∀ r ∈ p.reactants, r.param = true → nmLookup m r.name = none)
    (n : Nat) (hn : ∀ e ∈ m, e.2 < n) (csc : Bool) (L Ld : Nat) (kind : LUKind) (flat : List Nat)
    (hflat : t.jacobianFlatIds
      (LinAlg.build kind (Pattern.mk' n csc L (buildJacobianSet n t.nonZeroJacobianElements))).A = .ok flat) :
    BuiltCfg
      { nSpecies := n, L := Ld, tables := t, flatIds := flat,
        la := LinAlg.build kind (Pattern.mk' n csc L (buildJacobianSet n t.nonZeroJacobianElements)),
        diag := (LinAlg.build kind
          (Pattern.mk' n csc L (buildJacobianSet n t.nonZeroJacobianElements))).A.diagRanks }
      m procs n kind (Pattern.mk' n csc L (buildJacobianSet n t.nonZeroJacobianElements)) := by
  have hw : WF n (buildJacobianSet n t.nonZeroJacobianElements) := jac_buildJacobianSet_WF procs m t hb n hn
  have hg := good_mk hw csc L
  have hgA := build_A_good kind _ hg
  have hjd : ∀ i, i < n →
      (Pattern.mk' n csc L (buildJacobianSet n t.nonZeroJacobianElements)).zero? i i = false :=
    fun i hi => (zero?_mk_iff hw csc L i i).mpr
      ((jac_mem_buildJacobianSet n _ (i, i)).mpr (Or.inr ⟨rfl, hi⟩))
  exact {
    tables := hb, names := hk, ids := hv, idlt := hn, param := hparam, la := rfl, jn := rfl,
    jdiag := hjd, flat := hflat, diag := rfl,
    inj := fun _ _ _ _ _ h1 h2 => hgA.rank_inj h1 h2,
    range := fun _ _ _ h => hgA.rank_lt h,
    diagP := fun i hi => build_A_support kind _ i i hi hi (hjd i hi),
    cover := fun x hx => by
      have hx' : x ∈ buildJacobianSet n t.nonZeroJacobianElements :=
        (jac_mem_buildJacobianSet n _ x).mpr (Or.inl hx)
      obtain ⟨h1, h2⟩ := hw.range x hx'
      exact build_A_support kind _ x.1 x.2 h1 h2 ((zero?_mk_iff hw csc L x.1 x.2).mpr hx') }

end Builder

end Micm
