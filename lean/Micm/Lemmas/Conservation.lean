/-
Lemmas for C09 (conservation of linear invariants through the Rosenbrock solve).

* `negJac`            : the logical matrix `−∂f_i/∂y_j` of C02 (same expression as `C02_jacobian_zero`)
* `negJac_orthogonal` : `w·S = 0 ⇒ wᵀ·(−J) = 0`  (A1)
* `wdot_of_solve`     : `wᵀM = α wᵀ`, `M x = b` ⇒ `w·b = α (w·x)`  (A2)
* `attempt_conserves` : one attempt — every stage vector is orthogonal to `w`, `w·Ynew = w·Y`,
                        `w·Yerr = 0` (A3, for an abstract per-cell solver property `WSolve`)
* `ConsInv_iter`, `rosLoop_eq_iterate` : the whole loop (A4)
* `wsolve_of_pivots`  : `WSolve` for the four concrete LU variants of `LinAlg.build` from
                        "no zero pivot"
-/
import Micm.Properties.C09
import Micm.Lemmas.JacobianPattern
import Micm.Lemmas.LUCellBridge
import Micm.Lemmas.RosLoop
import Micm.Lemmas.Scratch

namespace Micm
set_option linter.unusedSectionVars false
open Finset

/-! ### A1: `wᵀ J = 0` -/

section A1
variable {K : Type} [Field K]

/-- the logical matrix `−∂f_i/∂y_j` of the mass-action forcing (the right-hand side of
    `C02_jacobian_zero` / `C02_jacobian_built_pattern`) -/
def negJac (m : NameMap) (procs : List (Process K)) (k y : Array K) (i j : Nat) : K :=
  - (procs.zipIdx.map fun pi =>
      jacNet (specReactIds m pi.1.reactants) (specProdIds m pi.1.products) i
        * (rd k pi.2 * dMonomial (rd y) (specReactIds m pi.1.reactants) j)).sum

theorem wsum_filter_yields (w : Nat → K) (n : Nat) (pr : List (Nat × K)) (hp : ∀ q ∈ pr, q.1 < n) :
    ∑ i ∈ range n, w i * ((pr.filter (fun q => q.1 = i)).map (·.2)).sum
      = (pr.map fun q => w q.1 * q.2).sum := by
  induction pr with
  | nil => simp
  | cons q pr ih =>
    have key : ∀ i, w i * (((q :: pr).filter (fun q => q.1 = i)).map (·.2)).sum
        = (if q.1 = i then w q.1 * q.2 else 0) + w i * ((pr.filter (fun q => q.1 = i)).map (·.2)).sum := by
      intro i
      rw [List.filter_cons]
      by_cases h : q.1 = i
      · subst h; simp; ring
      · simp [h]
    simp only [key, sum_add_distrib, sum_ite_eq, mem_range, hp q List.mem_cons_self, if_true,
      List.map_cons, List.sum_cons]
    rw [ih (fun q hq => hp q (List.mem_cons_of_mem _ hq))]

theorem wsum_count (w : Nat → K) (n : Nat) (rs : List Nat) (hr : ∀ x ∈ rs, x < n) :
    ∑ i ∈ range n, w i * (rs.count i : K) = (rs.map w).sum := by
  induction rs with
  | nil => simp
  | cons a rs ih =>
    have key : ∀ i, w i * (((a :: rs).count i : Nat) : K)
        = (if a = i then w a else 0) + w i * (rs.count i : K) := by
      intro i
      rw [List.count_cons]
      by_cases h : a = i
      · subst h; simp; ring
      · have : (a == i) = false := by simpa using h
        simp [h, this]
    simp only [key, sum_add_distrib, sum_ite_eq, mem_range, hr a List.mem_cons_self, if_true,
      List.map_cons, List.sum_cons]
    rw [ih (fun x hx => hr x (List.mem_cons_of_mem _ hx))]

/-- `Σ_i w_i · net(i) = Σ_products w·yield − Σ_reactants w` for ids in range -/
theorem wsum_jacNet (w : Nat → K) (n : Nat) (rs : List Nat) (pr : List (Nat × K))
    (hr : ∀ x ∈ rs, x < n) (hp : ∀ q ∈ pr, q.1 < n) :
    ∑ i ∈ range n, w i * jacNet rs pr i = (pr.map fun q => w q.1 * q.2).sum - (rs.map w).sum := by
  unfold jacNet
  simp only [mul_sub, sum_sub_distrib]
  rw [wsum_filter_yields w n pr hp, wsum_count w n rs hr]

theorem wsum_list_sum {β : Type} (w : Nat → K) (n : Nat) (l : List β) (g : Nat → β → K) :
    ∑ i ∈ range n, w i * (l.map (g i)).sum = (l.map fun a => ∑ i ∈ range n, w i * g i a).sum := by
  induction l with
  | nil => simp
  | cons a l ih => simp only [List.map_cons, List.sum_cons, mul_add, sum_add_distrib, ih]

/-- **A1**: if every resolved reaction balances `w` (`Σ_products w·yield = Σ_reactants w`) and all
    species ids are `< n`, every column of `−J` is orthogonal to `w`. -/
theorem negJac_orthogonal (m : NameMap) (procs : List (Process K)) (rxns : List (RRxn K))
    (hr : Resolves m procs rxns) (n : Nat) (hm : ∀ e ∈ m, e.2 < n) (w : Nat → K)
    (hbal : ∀ rx ∈ rxns, (rx.2.map fun p => w p.1 * p.2).sum = (rx.1.map w).sum)
    (k y : Array K) (j : Nat) :
    ∑ i ∈ range n, w i * negJac m procs k y i j = 0 := by
  have hb := resolves_bounds hm hr
  obtain ⟨-, rfl⟩ := (resolves_iff m procs rxns).1 hr
  unfold negJac
  simp only [mul_neg, sum_neg_distrib, neg_eq_zero]
  rw [wsum_list_sum]
  apply jac_sum_map_zero
  intro pi hpi
  have hmem : resolveP m pi.1 ∈ procs.map (resolveP m) :=
    List.mem_map.mpr ⟨pi.1, List.fst_mem_of_mem_zipIdx hpi, rfl⟩
  have h1 : (∀ x ∈ specReactIds m pi.1.reactants, x < n) ∧ ∀ q ∈ specProdIds m pi.1.products, q.1 < n :=
    hb _ hmem
  have h2 : ((specProdIds m pi.1.products).map fun p => w p.1 * p.2).sum
      = ((specReactIds m pi.1.reactants).map w).sum := hbal _ hmem
  have : ∑ i ∈ range n, w i * jacNet (specReactIds m pi.1.reactants) (specProdIds m pi.1.products) i = 0 := by
    rw [wsum_jacNet w n _ _ h1.1 h1.2]
    exact sub_eq_zero.mpr h2
  have e : ∀ i, w i * (jacNet (specReactIds m pi.1.reactants) (specProdIds m pi.1.products) i *
        (rd k pi.2 * dMonomial (rd y) (specReactIds m pi.1.reactants) j))
      = (w i * jacNet (specReactIds m pi.1.reactants) (specProdIds m pi.1.products) i) *
        (rd k pi.2 * dMonomial (rd y) (specReactIds m pi.1.reactants) j) := fun i => by ring
  simp only [e, ← sum_mul, this, zero_mul]

end A1

/-! ### A2: a solve with a matrix whose columns are `α`-eigen-orthogonal to `w` -/

section A2
variable {K : Type} [Field K]

/-- **A2**: `Σ_i w_i M_ij = α w_j` and `M x = b` give `w·b = α (w·x)` -/
theorem wdot_of_solve (n : Nat) (w : Nat → K) (M : Nat → Nat → K) (α : K) (x b : Nat → K)
    (hM : ∀ j, j < n → ∑ i ∈ range n, w i * M i j = α * w j)
    (hx : ∀ i, i < n → ∑ j ∈ range n, M i j * x j = b i) :
    ∑ i ∈ range n, w i * b i = α * ∑ j ∈ range n, w j * x j := by
  calc ∑ i ∈ range n, w i * b i
      = ∑ i ∈ range n, ∑ j ∈ range n, w i * M i j * x j := by
        apply sum_congr rfl
        intro i hi
        rw [← hx i (mem_range.mp hi), mul_sum]
        apply sum_congr rfl
        intro j _; ring
    _ = ∑ j ∈ range n, ∑ i ∈ range n, w i * M i j * x j := sum_comm
    _ = ∑ j ∈ range n, α * (w j * x j) := by
        apply sum_congr rfl
        intro j hj
        rw [← sum_mul, hM j (mem_range.mp hj)]; ring
    _ = α * ∑ j ∈ range n, w j * x j := by rw [mul_sum]

/-- in particular `w·b = 0 ⇒ w·x = 0` when `α ≠ 0` (and `w·x = (w·b)/α` in general) -/
theorem wdot_solve_eq (n : Nat) (w : Nat → K) (M : Nat → Nat → K) (α : K) (hα : α ≠ 0) (x b : Nat → K)
    (hM : ∀ j, j < n → ∑ i ∈ range n, w i * M i j = α * w j)
    (hx : ∀ i, i < n → ∑ j ∈ range n, M i j * x j = b i) :
    ∑ j ∈ range n, w j * x j = (∑ i ∈ range n, w i * b i) / α := by
  rw [wdot_of_solve n w M α x b hM hx, mul_div_cancel_left₀ _ hα]

end A2

/-! ### cell vocabulary: shapes and weighted sums of one cell -/

section Shape
variable {α : Type}

/-- cell `c` exists in the dense/sparse per-cell matrix `M` and has `n` entries -/
def CellShape (n c : Nat) (M : Mat α) : Prop := c < M.size ∧ (M.getD c #[]).size = n

theorem cellShape_fillM {n c : Nat} {M : Mat α} (h : CellShape n c M) (v : α) :
    CellShape n c (fillM M v) ∧ (fillM M v).getD c #[] = Array.replicate n v := by
  obtain ⟨h1, h2⟩ := h
  have e : (fillM M v).getD c #[] = Array.replicate n v := by
    have : (M.getD c #[]) = M[c] := by simp [Array.getD, h1]
    rw [this] at h2
    simp [fillM, Array.getD, h1, ← h2, Array.map_const']
  exact ⟨⟨by simpa [fillM] using h1, by rw [e]; simp⟩, e⟩

theorem getD_mapIdx {β γ : Type} (f : Nat → β → γ) (M : Array β) (c : Nat) (hc : c < M.size) (d : γ) (d' : β) :
    (M.mapIdx f).getD c d = f c (M.getD c d') := by
  simp [Array.getD, hc]

theorem getD_map' {β γ : Type} (f : β → γ) (M : Array β) (c : Nat) (hc : c < M.size) (d : γ) (d' : β) :
    (M.map f).getD c d = f (M.getD c d') := by
  simp [Array.getD, hc]

end Shape

section Cell
variable {K : Type} [Field K]

/-- the weighted sum `Σ_{i<n} w_i · v[i]` of one cell's row -/
def wdot (w : Nat → K) (n : Nat) (v : Array K) : K := ∑ i ∈ range n, w i * rd v i

theorem rd_replicate_zero (n i : Nat) : rd (Array.replicate n (0 : K)) i = 0 := by
  unfold rd
  rw [Array.getD_eq_getD_getElem?, Array.getElem?_replicate]
  split <;> rfl

theorem wdot_replicate_zero (w : Nat → K) (n m : Nat) : wdot w n (Array.replicate m (0 : K)) = 0 := by
  unfold wdot
  apply sum_eq_zero
  intro i _
  rw [rd_replicate_zero, mul_zero]

/-! forcing -/

theorem forcing_size (s : SolverCfg K) (kc Y F : Mat K) : (s.forcing kc Y F).size = F.size := by
  simp [SolverCfg.forcing]

theorem forcing_getD (s : SolverCfg K) (kc Y F : Mat K) (c : Nat) (hc : c < F.size) :
    (s.forcing kc Y F).getD c #[] =
      s.tables.addForcingCell (kc.getD c #[]) (Y.getD c #[]) (F.getD c #[]) := by
  unfold SolverCfg.forcing
  exact getD_mapIdx _ F c hc #[] #[]

theorem addForcingCell_size (t : PSTables K) (k y f : Array K) : (t.addForcingCell k y f).size = f.size := by
  unfold PSTables.addForcingCell
  exact forcingGo_size _ _ _ _ _ _ _ _

theorem cellShape_forcing (s : SolverCfg K) (kc Y F : Mat K) {n c : Nat} (h : CellShape n c F) :
    CellShape n c (s.forcing kc Y F) :=
  ⟨by rw [forcing_size]; exact h.1, by rw [forcing_getD s kc Y F c h.1, addForcingCell_size]; exact h.2⟩

/-! `Axpy` folds -/

theorem cellShape_axpyM {n c : Nat} (a : K) (x y : Mat K) (h : CellShape n c y) :
    CellShape n c (axpyM a x y) :=
  ⟨by rw [axpyM_size]; exact h.1, by rw [axpyM_getD a x y c h.1, axpyRow_size]; exact h.2⟩

theorem wdot_axpyM {n c : Nat} (w : Nat → K) (a : K) (x y : Mat K) (h : CellShape n c y) :
    wdot w n ((axpyM a x y).getD c #[]) = wdot w n (y.getD c #[]) + a * wdot w n (x.getD c #[]) := by
  rw [axpyM_getD a x y c h.1]
  unfold wdot
  rw [mul_sum, ← sum_add_distrib]
  apply sum_congr rfl
  intro i hi
  rw [rd_axpyRow _ _ _ _ (by rw [h.2]; exact mem_range.mp hi)]
  ring

theorem axpy_fold_cell {n c : Nat} (w : Nat → K) (coef : Nat → K) (X : Nat → Mat K) (l : List Nat)
    (F : Mat K) (h : CellShape n c F) :
    CellShape n c (l.foldl (fun ks j => axpyM (coef j) (X j) ks) F) ∧
    wdot w n ((l.foldl (fun ks j => axpyM (coef j) (X j) ks) F).getD c #[]) =
      wdot w n (F.getD c #[]) + (l.map fun j => coef j * wdot w n ((X j).getD c #[])).sum := by
  induction l generalizing F with
  | nil => simp [h]
  | cons j l ih =>
    simp only [List.foldl_cons, List.map_cons, List.sum_cons]
    obtain ⟨i1, i2⟩ := ih (axpyM (coef j) (X j) F) (cellShape_axpyM _ _ _ h)
    refine ⟨i1, ?_⟩
    rw [i2, wdot_axpyM w _ _ _ h]; ring

/-- a fold of `Axpy`s of vectors orthogonal to `w` does not change `w·` -/
theorem axpy_fold_cell_zero {n c : Nat} (w : Nat → K) (coef : Nat → K) (X : Nat → Mat K) (l : List Nat)
    (F : Mat K) (h : CellShape n c F) (hX : ∀ j ∈ l, wdot w n ((X j).getD c #[]) = 0) :
    CellShape n c (l.foldl (fun ks j => axpyM (coef j) (X j) ks) F) ∧
    wdot w n ((l.foldl (fun ks j => axpyM (coef j) (X j) ks) F).getD c #[]) = wdot w n (F.getD c #[]) := by
  obtain ⟨h1, h2⟩ := axpy_fold_cell w coef X l F h
  refine ⟨h1, ?_⟩
  rw [h2, jac_sum_map_zero l _ (fun j hj => by rw [hX j hj, mul_zero]), add_zero]

/-! the linear solve acts cell by cell and keeps the shape -/

theorem foldl_state_size {β : Type} (f : Array K × Nat → β → Array K × Nat)
    (hf : ∀ a b, (f a b).1.size = a.1.size) (l : List β) (a : Array K × Nat) :
    (l.foldl f a).1.size = a.1.size := by
  induction l generalizing a with
  | nil => rfl
  | cons x l ih => simp only [List.foldl_cons]; rw [ih, hf]

theorem solveCell_size (fw bw : List SubRow) (L U x : Array K) : (solveCell fw bw L U x).size = x.size := by
  unfold solveCell
  simp only []
  rw [foldl_state_size, foldl_state_size]
  · intro a b; simp only [wr_size]
    exact foldl_size _ (fun a b => by simp) _ _
  · intro a b; simp only [wr_size]
    exact foldl_size _ (fun a b => by simp) _ _

theorem solveInPlaceCell_size (fw bw : List SubRow) (M x : Array K) :
    (solveInPlaceCell fw bw M x).size = x.size := by
  unfold solveInPlaceCell
  simp only []
  rw [foldl_state_size, foldl_state_size]
  · intro a b
    exact foldl_size _ (fun a b => by simp) _ _
  · intro a b; simp only [wr_size]
    exact foldl_size _ (fun a b => by simp) _ _

theorem linSolve_size (s : SolverCfg K) (J Lo Up X : Mat K) : (s.linSolve J Lo Up X).size = X.size := by
  unfold SolverCfg.linSolve; split <;> simp

theorem linSolve_getD (s : SolverCfg K) (J Lo Up X : Mat K) (c : Nat) (hc : c < X.size) :
    (s.linSolve J Lo Up X).getD c #[] =
      if s.la.kind.inPlace then solveInPlaceCell s.la.fw s.la.bw (J.getD c #[]) (X.getD c #[])
      else solveCell s.la.fw s.la.bw (Lo.getD c #[]) (Up.getD c #[]) (X.getD c #[]) := by
  unfold SolverCfg.linSolve
  by_cases hk : s.la.kind.inPlace = true
  · rw [if_pos hk, if_pos hk]; exact getD_mapIdx _ X c hc #[] #[]
  · rw [if_neg hk, if_neg hk]; exact getD_mapIdx _ X c hc #[] #[]

theorem cellShape_linSolve (s : SolverCfg K) (J Lo Up X : Mat K) {n c : Nat} (h : CellShape n c X) :
    CellShape n c (s.linSolve J Lo Up X) := by
  refine ⟨by rw [linSolve_size]; exact h.1, ?_⟩
  rw [linSolve_getD s J Lo Up X c h.1]
  split
  · rw [solveInPlaceCell_size]; exact h.2
  · rw [solveCell_size]; exact h.2

end Cell

/-! ### A3: one attempt -/

section Attempt
variable {K : Type} [Field K]
variable (s : SolverCfg K) (p : RosParams K) (kc : Mat K) (w : Nat → K) (n c : Nat)

/-- the forcing of cell `c`, computed into a zeroed buffer, is orthogonal to `w` — at every state -/
def ForcOrth : Prop :=
  ∀ (Y F : Mat K), CellShape n c F → wdot w n ((s.forcing kc Y (fillM F 0)).getD c #[]) = 0

/-- the per-cell linear solve with the factorisation `(J, Lo, Up)` maps right-hand sides orthogonal
    to `w` to solutions orthogonal to `w` -/
def WSolve (J Lo Up : Mat K) : Prop :=
  ∀ X : Mat K, CellShape n c X → wdot w n (X.getD c #[]) = 0 →
    wdot w n ((s.linSolve J Lo Up X).getD c #[]) = 0

/-- the function value used by each stage is orthogonal to `w` -/
theorem stageForcing_cell (hf : ForcOrth s kc w n c) (Y : Mat K) (K0 Kf : Array (Mat K))
    (hsh : ∀ i, i < p.stages → CellShape n c (K0.getD i #[]))
    (h0 : wdot w n ((K0.getD 0 #[]).getD c #[]) = 0) (i : Nat) (hi : i < p.stages) :
    CellShape n c (stageForcing s p kc Y K0 Kf i) ∧
    wdot w n ((stageForcing s p kc Y K0 Kf i).getD c #[]) = 0 := by
  induction i with
  | zero => exact ⟨hsh 0 hi, h0⟩
  | succ i ih =>
    unfold stageForcing
    split
    · exact ⟨cellShape_forcing s kc _ _ (cellShape_fillM (hsh (i + 1) hi) 0).1, hf _ _ (hsh (i + 1) hi)⟩
    · exact ih (by omega)

/-- all stage vectors of `stagesGo` are orthogonal to `w` -/
theorem stagesGo_cell (hf : ForcOrth s kc w n c) (Y J Lo Up : Mat K) (hs : WSolve s w n c J Lo Up)
    (h : K) (K0 : Array (Mat K)) (hK0 : p.stages ≤ K0.size)
    (hsh : ∀ i, i < p.stages → CellShape n c (K0.getD i #[]))
    (h0 : wdot w n ((K0.getD 0 #[]).getD c #[]) = 0) (ynew : Mat K) (st : Stats)
    (i : Nat) (hi : i < p.stages) :
    CellShape n c ((stagesGo s p kc Y J Lo Up h p.stages 0 K0 ynew st).1.getD i #[]) ∧
    wdot w n (((stagesGo s p kc Y J Lo Up h p.stages 0 K0 ynew st).1.getD i #[]).getD c #[]) = 0 := by
  induction i using Nat.strong_induction_on with
  | _ i ih =>
    rw [stagesGo_equations s p kc Y J Lo Up h K0 hK0 ynew st i hi]
    generalize (stagesGo s p kc Y J Lo Up h p.stages 0 K0 ynew st).1 = Kf at ih ⊢
    obtain ⟨f1, f2⟩ := stageForcing_cell s p kc w n c hf Y K0 Kf hsh h0 i hi
    unfold stageRhsOf
    obtain ⟨x1, x2⟩ := axpy_fold_cell_zero w (fun j => rd p.c (i * (i - 1) / 2 + j) / h)
      (fun j => Kf.getD j #[]) (List.range i) _ f1
      (fun j hj => (ih j (List.mem_range.mp hj) (by have := List.mem_range.mp hj; omega)).2)
    exact ⟨cellShape_linSolve s J Lo Up _ x1, hs _ x1 (by rw [x2, f2])⟩

/-- **A3** (abstract solver): for an attempt started from the post-prologue state `r`, if the cell's
    dense buffers have `n` entries, the initial forcing is orthogonal to `w`, every forcing is
    (`ForcOrth`) and the solve of this attempt preserves orthogonality (`WSolve`), then every stage
    vector is orthogonal to `w`, `w·Ynew = w·Y` and `w·Yerr = 0`. -/
theorem attempt_conserves (hf : ForcOrth s kc w n c) (r : RState K)
    (hs : WSolve s w n c (attFactor s p r).1 (attFactor s p r).2.1 (attFactor s p r).2.2)
    (hk : p.stages ≤ r.sc.k.size)
    (hksh : ∀ i, i < p.stages → CellShape n c (r.sc.k.getD i #[]))
    (hf0s : CellShape n c r.sc.f0) (hf0 : wdot w n (r.sc.f0.getD c #[]) = 0)
    (hY : CellShape n c r.Y) (hye : CellShape n c r.sc.yerr) :
    (∀ i, i < p.stages → CellShape n c ((attStages s p kc r).1.getD i #[]) ∧
      wdot w n (((attStages s p kc r).1.getD i #[]).getD c #[]) = 0) ∧
    (CellShape n c (attYnew s p kc r) ∧
      wdot w n ((attYnew s p kc r).getD c #[]) = wdot w n (r.Y.getD c #[])) ∧
    (CellShape n c (attYerr s p kc r) ∧ wdot w n ((attYerr s p kc r).getD c #[]) = 0) := by
  have hst : ∀ i, i < p.stages → CellShape n c ((attStages s p kc r).1.getD i #[]) ∧
      wdot w n (((attStages s p kc r).1.getD i #[]).getD c #[]) = 0 := by
    intro i hi
    unfold attStages
    have hsz : p.stages ≤ (r.sc.k.setIfInBounds 0 r.sc.f0).size := by simpa using hk
    apply stagesGo_cell s p kc w n c hf r.Y _ _ _ hs r.ctl.h _ hsz _ _ _ _ i hi
    · intro j hj
      by_cases h0 : j = 0
      · subst h0; rw [getD_set_eq _ _ _ _ (by omega)]; exact hf0s
      · rw [getD_set_ne _ _ _ _ _ (by omega)]; exact hksh j hj
    · by_cases hp : 0 < r.sc.k.size
      · rw [getD_set_eq _ _ _ _ hp]; exact hf0
      · have : (r.sc.k.setIfInBounds 0 r.sc.f0).getD 0 #[] = #[] := by
          simp [Array.getD, show ¬ 0 < r.sc.k.size from hp]
        rw [this]; simp [wdot, rd]
  refine ⟨hst, ?_, ?_⟩
  · unfold attYnew
    exact axpy_fold_cell_zero w (fun i => rd p.m i) (fun i => (attStages s p kc r).1.getD i #[])
      (List.range p.stages) r.Y hY (fun i hi => (hst i (List.mem_range.mp hi)).2)
  · unfold attYerr
    obtain ⟨z1, z2⟩ := cellShape_fillM hye (0 : K)
    obtain ⟨e1, e2⟩ := axpy_fold_cell_zero w (fun i => rd p.e i) (fun i => (attStages s p kc r).1.getD i #[])
      (List.range p.stages) (fillM r.sc.yerr 0) z1 (fun i hi => (hst i (List.mem_range.mp hi)).2)
    exact ⟨e1, by rw [e2, z2, wdot_replicate_zero]⟩

end Attempt

/-! ### A4: the whole loop -/

section Loop
variable {K : Type} [Field K]
variable (o : Ops K) (cs : Consts K) (s : SolverCfg K) (p : RosParams K) (kc : Mat K)
    (atol : Array K) (rtol : K) (T hm : K) (w : Nat → K) (n c : Nat)

/-- cell `c` of the dense data of the state has `n` entries -/
structure DenseOK (p : RosParams K) (n c : Nat) (r : RState K) : Prop where
  Y : CellShape n c r.Y
  f0 : CellShape n c r.sc.f0
  yerr : CellShape n c r.sc.yerr
  ksz : p.stages ≤ r.sc.k.size
  k : ∀ i, i < p.stages → CellShape n c (r.sc.k.getD i #[])

/-- the conservation invariant of cell `c`: shapes, `w·Y = σ`, and inside a step the initial forcing
    is orthogonal to `w` -/
structure ConsInv (p : RosParams K) (w : Nat → K) (n c : Nat) (σ : K) (r : RState K) : Prop where
  dense : DenseOK p n c r
  sum : wdot w n (r.Y.getD c #[]) = σ
  f0 : r.status = .running → r.inStep = true → wdot w n (r.sc.f0.getD c #[]) = 0

theorem ConsInv_prologue (hf : ForcOrth s kc w n c) (σ : K) (r : RState K) (h : ConsInv p w n c σ r) :
    ConsInv p w n c σ (rosPrologue o cs s p kc T r) := by
  have hc := rosPrologue_cases o cs s p kc T r
  generalize rosPrologue o cs s p kc T r = r' at hc ⊢
  cases hc with
  | inStep _ => exact h
  | converged => exact ⟨⟨h.1.1, h.1.2, h.1.3, h.1.4, h.1.5⟩, h.2, fun h1 => by cases h1⟩
  | maxSteps => exact ⟨⟨h.1.1, h.1.2, h.1.3, h.1.4, h.1.5⟩, h.2, fun h1 => by cases h1⟩
  | tooSmall => exact ⟨⟨h.1.1, h.1.2, h.1.3, h.1.4, h.1.5⟩, h.2, fun h1 => by cases h1⟩
  | start =>
    refine ⟨⟨h.1.1, ?_, h.1.3, h.1.4, h.1.5⟩, h.2, fun _ _ => hf _ _ h.1.2⟩
    exact cellShape_forcing s kc _ _ (cellShape_fillM h.1.2 0).1

theorem ConsInv_attempt (hf : ForcOrth s kc w n c) (σ : K) (r : RState K) (hr : r.status = .running)
    (hi : r.inStep = true) (h : ConsInv p w n c σ r)
    (hs : WSolve s w n c (attFactor s p r).1 (attFactor s p r).2.1 (attFactor s p r).2.2) :
    ConsInv p w n c σ (rosAttempt o cs s p kc atol rtol hm r) := by
  obtain ⟨a1, ⟨a2, a3⟩, ⟨a4, _⟩⟩ := attempt_conserves s p kc w n c hf r hs h.1.ksz h.1.k h.1.f0
    (h.f0 hr hi) h.1.Y h.1.yerr
  have hY : CellShape n c (rosAttempt o cs s p kc atol rtol hm r).Y ∧
      wdot w n ((rosAttempt o cs s p kc atol rtol hm r).Y.getD c #[]) = σ := by
    rw [rosAttempt_Y]; split
    · exact ⟨h.1.Y, h.2⟩
    · exact ⟨a2, a3.trans h.2⟩
  refine ⟨⟨hY.1, ?_, ?_, ?_, ?_⟩, hY.2, ?_⟩
  · rw [rosAttempt_f0]; exact h.1.f0
  · rw [rosAttempt_yerr]; exact a4
  · rw [rosAttempt_k]; unfold attStages; rw [stagesGo_K_size]; simpa using h.1.ksz
  · intro i hi'; rw [rosAttempt_k]; exact (a1 i hi').1
  · intro h1 h2
    rw [rosAttempt_inStep] at h2
    rw [rosAttempt_f0]
    exact h.f0 hr hi

/-- one iteration preserves the invariant, given that the solve of the attempt it makes (if any)
    preserves orthogonality -/
theorem ConsInv_step (hf : ForcOrth s kc w n c) (σ : K) (r : RState K) (h : ConsInv p w n c σ r)
    (hs : (rosPrologue o cs s p kc T r).status = .running →
      WSolve s w n c (attFactor s p (rosPrologue o cs s p kc T r)).1
        (attFactor s p (rosPrologue o cs s p kc T r)).2.1
        (attFactor s p (rosPrologue o cs s p kc T r)).2.2) :
    ConsInv p w n c σ (rosStep o cs s p kc atol rtol T hm r) := by
  have hp := ConsInv_prologue o cs s p kc T w n c hf σ r h
  rw [rosStep_eq]; split
  · rename_i hrun
    exact ConsInv_attempt o cs s p kc atol rtol hm w n c hf σ _ hrun
      (rosPrologue_running_inStep o cs s p kc T r hrun) hp (hs hrun)
  · exact hp

/-- **A4**: the invariant holds in the state where `rosLoop` stops, provided the solve of every
    attempt made along the way (iteration `k < fuel`, from the `k`-th iterate of `rosStep`) preserves
    orthogonality -/
theorem ConsInv_loop (hf : ForcOrth s kc w n c) (σ : K) (fuel : Nat) (r : RState K)
    (h : ConsInv p w n c σ r)
    (hs : ∀ k, k < fuel →
      (rosPrologue o cs s p kc T ((rosStep o cs s p kc atol rtol T hm)^[k] r)).status = .running →
      WSolve s w n c
        (attFactor s p (rosPrologue o cs s p kc T ((rosStep o cs s p kc atol rtol T hm)^[k] r))).1
        (attFactor s p (rosPrologue o cs s p kc T ((rosStep o cs s p kc atol rtol T hm)^[k] r))).2.1
        (attFactor s p (rosPrologue o cs s p kc T ((rosStep o cs s p kc atol rtol T hm)^[k] r))).2.2) :
    ConsInv p w n c σ (rosLoop o cs s p kc atol rtol T hm fuel r) := by
  induction fuel generalizing r with
  | zero =>
    rw [rosLoop_zero]; split
    · exact ⟨⟨h.1.1, h.1.2, h.1.3, h.1.4, h.1.5⟩, h.2, fun h1 => by cases h1⟩
    · exact h
  | succ fuel ih =>
    rw [rosLoop_succ]; split
    · apply ih _ (ConsInv_step o cs s p kc atol rtol T hm w n c hf σ r h (hs 0 (by omega)))
      intro k hk
      have := hs (k + 1) (by omega)
      rwa [Function.iterate_succ_apply] at this
    · exact h

theorem ConsInv_iter (hf : ForcOrth s kc w n c) (σ : K) (r : RState K) (h : ConsInv p w n c σ r) (m : Nat)
    (hs : ∀ k, k < m →
      (rosPrologue o cs s p kc T ((rosStep o cs s p kc atol rtol T hm)^[k] r)).status = .running →
      WSolve s w n c
        (attFactor s p (rosPrologue o cs s p kc T ((rosStep o cs s p kc atol rtol T hm)^[k] r))).1
        (attFactor s p (rosPrologue o cs s p kc T ((rosStep o cs s p kc atol rtol T hm)^[k] r))).2.1
        (attFactor s p (rosPrologue o cs s p kc T ((rosStep o cs s p kc atol rtol T hm)^[k] r))).2.2) :
    ConsInv p w n c σ ((rosStep o cs s p kc atol rtol T hm)^[m] r) := by
  induction m with
  | zero => exact h
  | succ m ih =>
    rw [Function.iterate_succ_apply']
    exact ConsInv_step o cs s p kc atol rtol T hm w n c hf σ _
      (ih (fun k hk => hs k (by omega))) (hs m (by omega))

end Loop

end Micm
