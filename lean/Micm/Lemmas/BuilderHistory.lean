/-
Helper lemmas for C20 (rejected setter calls in the `State` store machine of `Micm/Model/History.lean`).
-/
import Micm.Model.History
namespace Micm

/-- the operation is a rejected setter call -/
def HOp.isBadSet {σ : Type} : HOp σ → Bool
  | .badSet _ _ => true
  | _ => false

section
variable {σ ρ : Type} (clone : Bool) (kind : TempKind) (fresh : σ) (solveF : σ → σ × ρ)

theorem hRun_nil (st : HStore σ) : hRun clone kind fresh solveF st [] = (st, []) := rfl

theorem hRun_cons (st : HStore σ) (op : HOp σ) (ops : List (HOp σ)) :
    hRun clone kind fresh solveF st (op :: ops) =
      ((hRun clone kind fresh solveF (hStep clone kind fresh solveF st op).1 ops).1,
       (hStep clone kind fresh solveF st op).2 :: (hRun clone kind fresh solveF (hStep clone kind fresh solveF st op).1 ops).2) := by
  rw [hRun]

theorem hRun_length (st : HStore σ) (ops : List (HOp σ)) :
    (hRun clone kind fresh solveF st ops).2.length = ops.length := by
  induction ops generalizing st with
  | nil => rfl
  | cons op ops ih => rw [hRun_cons]; simp [ih]

/-- a rejected setter leaves the store exactly as it was (whether or not the State exists) -/
theorem hStep_badSet_fst (st : HStore σ) (s code : Nat) :
    (hStep clone kind fresh solveF st (.badSet s code)).1 = st := by
  simp only [hStep]
  cases st s <;> rfl

theorem hStep_badSet_some (st : HStore σ) (s code : Nat) (o : HObj σ) (h : st s = some o) :
    hStep clone kind fresh solveF st (.badSet s code) = (st, .err code) := by
  simp only [hStep, h]

theorem hStep_isBadSet_fst (st : HStore σ) (op : HOp σ) (h : op.isBadSet = true) :
    (hStep clone kind fresh solveF st op).1 = st := by
  cases op <;> first | exact hStep_badSet_fst clone kind fresh solveF st _ _ | cases h

/-- deleting the rejected calls changes neither the final store nor the outputs of the other calls -/
theorem hRun_filter_badSet (st : HStore σ) (ops : List (HOp σ)) :
    hRun clone kind fresh solveF st (ops.filter fun op => !op.isBadSet) =
      ((hRun clone kind fresh solveF st ops).1,
       ((ops.zip (hRun clone kind fresh solveF st ops).2).filter fun p => !p.1.isBadSet).map (·.2)) := by
  induction ops generalizing st with
  | nil => rfl
  | cons op ops ih =>
    rw [hRun_cons (ops := ops), List.filter_cons, List.zip_cons_cons, List.filter_cons]
    cases hb : op.isBadSet with
    | true =>
      simp only [Bool.not_true, Bool.false_eq_true, if_false]
      rw [hStep_isBadSet_fst clone kind fresh solveF st op hb]
      exact ih st
    | false =>
      simp only [Bool.not_false, if_true]
      rw [hRun_cons, ih]
      rfl
end
end Micm
