import Micm.Lemmas.LUCellSymbolic
import Micm.Lemmas.LUCellMozart
import Micm.Lemmas.LUCellSymbolicMozart
import Micm.Lemmas.SparseIndex

/-!
Bridge between the abstract hypotheses of the C03/C04 cell theorems (`GoodPattern`, `LUSetup`,
`IPSetup`) and the concrete patterns built by `Pattern.mk'` / `LinAlg.build`, using the sparse
addressing facts of `Micm/Lemmas/SparseIndex.lean` (`Pattern.Good`, `good_mk`, `mem_key_mk`).
-/
open Finset
namespace Micm

theorem zero?_false_iff_rank (p : Pattern) (r c : Nat) :
    p.zero? r c = false ↔ ∃ k, p.rank r c = .ok k := by
  unfold Pattern.zero?
  split
  · next k hk => simp [hk]
  · next e he => simp [he]

theorem rk_of_rank {p : Pattern} {r c k : Nat} (h : p.rank r c = .ok k) : p.rk r c = k := by
  simp [Pattern.rk, h]

/-- (H1) holds for every well-formed pattern -/
theorem GoodPattern_of_Good {p : Pattern} (h : p.Good) (n : Nat) : GoodPattern n p where
  rk_lt := by
    intro r c _ _ hp
    obtain ⟨k, hk⟩ := (zero?_false_iff_rank p r c).mp hp
    rw [rk_of_rank hk]
    exact h.rank_lt hk
  rk_inj := by
    intro r c r' c' _ _ _ _ hp hp' heq
    obtain ⟨k, hk⟩ := (zero?_false_iff_rank p r c).mp hp
    obtain ⟨k', hk'⟩ := (zero?_false_iff_rank p r' c').mp hp'
    rw [rk_of_rank hk, rk_of_rank hk'] at heq
    subst heq
    exact h.rank_inj hk hk'

theorem Pattern.Good.zero?_false_iff {p : Pattern} (h : p.Good) (r c : Nat) :
    p.zero? r c = false ↔ p.key r c ∈ p.elems := by
  rw [zero?_false_iff_rank]
  constructor
  · rintro ⟨k, hk⟩
    exact List.mem_of_getElem? ((h.rank_ok r c k).mp hk)
  · intro hm
    obtain ⟨k, hk⟩ := List.mem_iff_getElem?.mp hm
    exact ⟨k, (h.rank_ok r c k).mpr hk⟩

/-- presence in `Pattern.mk' n csc L set` is membership in `set` -/
theorem zero?_mk_iff {n : Nat} {set : List Pair} (hw : WF n set) (csc : Bool) (L : Nat) (r c : Nat) :
    (Pattern.mk' n csc L set).zero? r c = false ↔ (r, c) ∈ set :=
  ((good_mk hw csc L).zero?_false_iff r c).trans (mem_key_mk n csc L set r c)

/-! ### the symbolic factorisations return well-formed sets -/

theorem sorted_foldl {β : Type} (ks : List β) (step : List Pair → β → List Pair)
    (hstep : ∀ S k, PairSorted S → PairSorted (step S k)) (S0 : List Pair) (h0 : PairSorted S0) :
    PairSorted (ks.foldl step S0) := by
  induction ks generalizing S0 with
  | nil => exact h0
  | cons k ks ih => exact ih _ (hstep S0 k h0)

theorem sorted_symU (n : Nat) (az : Nat → Nat → Bool) (L : List Pair) (i : Nat) (U0 : List Pair)
    (h : PairSorted U0) : PairSorted (symU n az L i U0) := by
  apply sorted_foldl _ _ _ _ h
  intro S k hS
  split
  · exact sorted_setInsert _ _ hS
  · split
    · exact sorted_setInsert _ _ hS
    · exact hS

theorem sorted_symL (n : Nat) (az : Nat → Nat → Bool) (U : List Pair) (i : Nat) (L0 : List Pair)
    (h : PairSorted L0) : PairSorted (symL n az U i L0) := by
  apply sorted_foldl _ _ _ _ h
  intro S k hS
  split
  · exact sorted_setInsert _ _ hS
  · split
    · exact sorted_setInsert _ _ hS
    · exact hS

theorem sorted_symIPU (n : Nat) (az : Nat → Nat → Bool) (i : Nat) (S0 : List Pair)
    (h : PairSorted S0) : PairSorted (symIPU n az i S0) := by
  apply sorted_foldl _ _ _ _ h
  intro S k hS
  split
  · exact sorted_setInsert _ _ hS
  · split
    · exact sorted_setInsert _ _ hS
    · exact hS

theorem sorted_symIPL (n : Nat) (az : Nat → Nat → Bool) (i : Nat) (S0 : List Pair)
    (h : PairSorted S0) : PairSorted (symIPL n az i S0) := by
  apply sorted_foldl _ _ _ _ h
  intro S k hS
  split
  · exact sorted_setInsert _ _ hS
  · split
    · exact sorted_setInsert _ _ hS
    · exact hS

theorem wf_doolittleSymbolic (n : Nat) (az : Nat → Nat → Bool) :
    WF n (doolittleSymbolic n az).1 ∧ WF n (doolittleSymbolic n az).2 := by
  have hinv := doolittleSymbolic_inv n az
  have hs : PairSorted (doolittleSymbolic n az).1 ∧ PairSorted (doolittleSymbolic n az).2 := by
    rw [doolittleSymbolic_eq]
    have : ∀ (l : List Nat) (LU : List Pair × List Pair), PairSorted LU.1 ∧ PairSorted LU.2 →
        PairSorted (l.foldl (symStep n az) LU).1 ∧ PairSorted (l.foldl (symStep n az) LU).2 := by
      intro l
      induction l with
      | nil => intro LU h; exact h
      | cons i l ih =>
        intro LU h
        apply ih
        exact ⟨sorted_symL _ _ _ _ _ h.1, sorted_symU _ _ _ _ _ h.2⟩
    exact this _ _ ⟨List.Pairwise.nil, List.Pairwise.nil⟩
  refine ⟨⟨hs.1, ?_⟩, ⟨hs.2, ?_⟩⟩
  · intro e he
    obtain ⟨g1, g2, g3, _⟩ := (hinv.L_iff e.1 e.2).mp he
    omega
  · intro e he
    obtain ⟨g1, g2, g3, _⟩ := (hinv.U_iff e.1 e.2).mp he
    omega

theorem wf_doolittleInPlaceSymbolic (n : Nat) (az : Nat → Nat → Bool) :
    WF n (doolittleInPlaceSymbolic n az) := by
  refine ⟨?_, ?_⟩
  · rw [doolittleInPlaceSymbolic_eq]
    apply sorted_foldl _ _ _ _ List.Pairwise.nil
    intro S i hS
    exact sorted_symIPL _ _ _ _ (sorted_symIPU _ _ _ _ hS)
  · intro e he
    obtain ⟨_, g2, g3, _⟩ := (doolittleInPlaceSymbolic_inv n az e.1 e.2).mp he
    exact ⟨g2, g3⟩

/-! ### the patterns built by `LinAlg.build` satisfy the hypotheses of the cell theorems -/

/-- Doolittle: for every Jacobian pattern `jac` (any storage order and layout), the triple
    `(jac, Lp, Up)` built by `LinAlg.build .doolittle` satisfies (H1)+(H2) -/
theorem LUSetup_build (jac : Pattern) :
    LUSetup jac.n (LinAlg.build .doolittle jac).A (LinAlg.build .doolittle jac).Lp
      (LinAlg.build .doolittle jac).Up := by
  have hwf := wf_doolittleSymbolic jac.n (fun r c => jac.zero? r c)
  exact LUSetup_of_symbolic jac.n _ _ _
    (GoodPattern_of_Good (good_mk hwf.1 jac.csc jac.L) jac.n)
    (GoodPattern_of_Good (good_mk hwf.2 jac.csc jac.L) jac.n)
    (fun r c _ _ => zero?_mk_iff hwf.1 jac.csc jac.L r c)
    (fun r c _ _ => zero?_mk_iff hwf.2 jac.csc jac.L r c)

/-- Doolittle in place -/
theorem IPSetup_build (jac : Pattern) :
    IPSetup jac.n (LinAlg.build .doolittleInPlace jac).A := by
  have hwf := wf_doolittleInPlaceSymbolic jac.n (fun r c => jac.zero? r c)
  exact IPSetup_of_symbolic jac.n _ _ (GoodPattern_of_Good (good_mk hwf jac.csc jac.L) jac.n)
    (fun r c _ _ => zero?_mk_iff hwf jac.csc jac.L r c)

theorem build_doolittle_tables (jac : Pattern) :
    (LinAlg.build .doolittle jac).A = jac ∧
    (LinAlg.build .doolittle jac).dRows
      = doolittleRows jac (LinAlg.build .doolittle jac).Lp (LinAlg.build .doolittle jac).Up ∧
    ((LinAlg.build .doolittle jac).fw, (LinAlg.build .doolittle jac).bw)
      = solverRows (LinAlg.build .doolittle jac).Lp (LinAlg.build .doolittle jac).Up :=
  ⟨rfl, rfl, rfl⟩

theorem build_doolittleInPlace_tables (jac : Pattern) :
    (LinAlg.build .doolittleInPlace jac).diRows
      = doolittleInPlaceRows (LinAlg.build .doolittleInPlace jac).A ∧
    (LinAlg.build .doolittleInPlace jac).A.n = jac.n ∧
    ((LinAlg.build .doolittleInPlace jac).fw, (LinAlg.build .doolittleInPlace jac).bw)
      = solverRows (LinAlg.build .doolittleInPlace jac).A (LinAlg.build .doolittleInPlace jac).A :=
  ⟨rfl, rfl, rfl⟩

/-- the in-place pattern contains the Jacobian pattern (so loading `A` into it loses nothing) -/
theorem build_inplace_support {n : Nat} {set : List Pair} (hw : WF n set) (csc : Bool) (L : Nat)
    (r c : Nat) (hr : r < n) (hc : c < n) (h : (r, c) ∈ set) :
    (LinAlg.build .doolittleInPlace (Pattern.mk' n csc L set)).A.zero? r c = false := by
  have hwf := wf_doolittleInPlaceSymbolic n (fun r c => (Pattern.mk' n csc L set).zero? r c)
  exact (zero?_mk_iff hwf csc L r c).mpr
    (doolittleInPlaceSymbolic_support n _ r c hr hc ((zero?_mk_iff hw csc L r c).mpr h))

/-! ### Mozart variants -/

theorem sorted_insert_if {β : Type} (ks : List β) (c : List Pair → β → Bool) (p : β → Pair)
    (S0 : List Pair) (h0 : PairSorted S0) :
    PairSorted (ks.foldl (fun S j => if c S j then setInsert (p j) S else S) S0) := by
  apply sorted_foldl _ _ _ _ h0
  intro S k hS
  split
  · exact sorted_setInsert _ _ hS
  · exact hS

theorem sorted_mipStage (n : Nat) (S : List Pair) (i : Nat) (h : PairSorted S) :
    PairSorted (mipStage n S i) := by
  apply sorted_foldl _ _ _ _ h
  intro S k hS
  split
  · exact sorted_insert_if _ (fun S j => setMem (j, i) S) (fun j => (j, k)) _ hS
  · exact hS

theorem wf_mozartInPlaceSymbolic (n : Nat) (az : Nat → Nat → Bool) :
    WF n (mozartInPlaceSymbolic n az) := by
  refine ⟨?_, ?_⟩
  · rw [mozartInPlaceSymbolic_eq]
    apply sorted_foldl _ _ (fun S i hS => sorted_mipStage n S i hS)
    unfold mipInit
    apply sorted_foldl _ _ _ _ List.Pairwise.nil
    intro S i hS
    exact sorted_insert_if _ (fun _ j => !az i j) (fun j => (i, j)) _ hS
  · intro e he
    exact mozartInPlaceSymbolic_range n az e.1 e.2 he

theorem sorted_msK (n i : Nat) (LU : List Pair × List Pair) (k : Nat)
    (h : PairSorted LU.1 ∧ PairSorted LU.2) :
    PairSorted (msK n i LU k).1 ∧ PairSorted (msK n i LU k).2 := by
  unfold msK
  split
  · exact h
  · exact ⟨sorted_insert_if _ (fun S j => setMem (j, i) S) (fun j => (j, k)) _ h.1,
      sorted_insert_if _ (fun _ j => setMem (j, i) LU.1) (fun j => (j, k)) _ h.2⟩

theorem sorted_foldl_pair {β : Type} (ks : List β)
    (step : List Pair × List Pair → β → List Pair × List Pair)
    (hstep : ∀ S k, PairSorted S.1 ∧ PairSorted S.2 → PairSorted (step S k).1 ∧ PairSorted (step S k).2)
    (S0 : List Pair × List Pair) (h0 : PairSorted S0.1 ∧ PairSorted S0.2) :
    PairSorted (ks.foldl step S0).1 ∧ PairSorted (ks.foldl step S0).2 := by
  induction ks generalizing S0 with
  | nil => exact h0
  | cons k ks ih => exact ih _ (hstep S0 k h0)

theorem wf_mozartSymbolic (n : Nat) (az : Nat → Nat → Bool) :
    WF n (mozartSymbolic n az).1 ∧ WF n (mozartSymbolic n az).2 := by
  have hp := mozartSymbolic_props n az
  have hs : PairSorted (mozartSymbolic n az).1 ∧ PairSorted (mozartSymbolic n az).2 := by
    rw [mozartSymbolic_eq]
    apply sorted_foldl_pair
    · intro S i hS
      unfold msStage
      apply sorted_foldl_pair _ _ (fun S k hS => sorted_msK n i S k hS)
      exact ⟨sorted_insert_if _ (fun _ j => !az j i) (fun j => (j, i)) _ hS.1, hS.2⟩
    · constructor
      · apply sorted_foldl _ _ _ _ List.Pairwise.nil
        intro S i hS
        exact sorted_insert_if _ (fun _ j => !az i j) (fun j => (i, j)) _
          (sorted_setInsert _ _ hS)
      · apply sorted_foldl _ _ _ _ List.Pairwise.nil
        intro S i hS
        exact sorted_insert_if _ (fun _ j => !az i j) (fun j => (i, j)) _ hS
  refine ⟨⟨hs.1, ?_⟩, ⟨hs.2, ?_⟩⟩
  · intro e he
    have := hp.L_shape e.1 e.2 he
    omega
  · intro e he
    have := hp.U_shape e.1 e.2 he
    omega

/-- Mozart (separate storage): the triple built by `LinAlg.build .mozart` satisfies (H1)+(H2)
    whenever the Jacobian pattern has a full diagonal -/
theorem MozSetup_build (jac : Pattern) (hdiag : ∀ i, i < jac.n → jac.zero? i i = false) :
    MozSetup jac.n (LinAlg.build .mozart jac).A (LinAlg.build .mozart jac).Lp
      (LinAlg.build .mozart jac).Up := by
  have hwf := wf_mozartSymbolic jac.n (fun r c => jac.zero? r c)
  exact MozSetup_of_symbolic jac.n jac _ _
    (GoodPattern_of_Good (good_mk hwf.1 jac.csc jac.L) jac.n)
    (GoodPattern_of_Good (good_mk hwf.2 jac.csc jac.L) jac.n) hdiag
    (fun r c _ _ => zero?_mk_iff hwf.1 jac.csc jac.L r c)
    (fun r c _ _ => zero?_mk_iff hwf.2 jac.csc jac.L r c)

/-- Mozart in place -/
theorem IPSetup_build_mozart (jac : Pattern) (hdiag : ∀ i, i < jac.n → jac.zero? i i = false) :
    IPSetup jac.n (LinAlg.build .mozartInPlace jac).A := by
  have hwf := wf_mozartInPlaceSymbolic jac.n (fun r c => jac.zero? r c)
  exact IPSetup_of_mozartSymbolic jac.n _ _
    (GoodPattern_of_Good (good_mk hwf jac.csc jac.L) jac.n) hdiag
    (fun r c _ _ => zero?_mk_iff hwf jac.csc jac.L r c)

theorem build_mozart_tables (jac : Pattern) :
    (LinAlg.build .mozart jac).A = jac ∧
    (LinAlg.build .mozart jac).mInit
      = mozartInit jac (LinAlg.build .mozart jac).Lp (LinAlg.build .mozart jac).Up ∧
    (LinAlg.build .mozart jac).mRows
      = mozartRows jac (LinAlg.build .mozart jac).Lp (LinAlg.build .mozart jac).Up ∧
    ((LinAlg.build .mozart jac).fw, (LinAlg.build .mozart jac).bw)
      = solverRows (LinAlg.build .mozart jac).Lp (LinAlg.build .mozart jac).Up :=
  ⟨rfl, rfl, rfl, rfl⟩

theorem build_mozartInPlace_tables (jac : Pattern) :
    (LinAlg.build .mozartInPlace jac).miRows
      = mozartInPlaceRows (LinAlg.build .mozartInPlace jac).A ∧
    (LinAlg.build .mozartInPlace jac).A.n = jac.n ∧
    ((LinAlg.build .mozartInPlace jac).fw, (LinAlg.build .mozartInPlace jac).bw)
      = solverRows (LinAlg.build .mozartInPlace jac).A (LinAlg.build .mozartInPlace jac).A :=
  ⟨rfl, rfl, rfl⟩

/-! ### end-to-end statements for the tables `LinAlg.build` produces

No hypothesis on the patterns is left: `jac` is any `Pattern` (for the Mozart variants: with a
full diagonal); the only numerical hypothesis is "no zero pivot". -/

section endToEnd
variable {K : Type} [Field K]

/-- C03 for `LinAlg.build .doolittle jac` -/
theorem C03_build_doolittle (jac : Pattern) (a l0 u0 : Array K)
    (hLs : l0.size = (LinAlg.build .doolittle jac).Lp.nnz)
    (hUs : u0.size = (LinAlg.build .doolittle jac).Up.nnz) :
    ∀ r c, r < jac.n → c < jac.n →
      view (LinAlg.build .doolittle jac).Lp
          (doolittleCell (LinAlg.build .doolittle jac).dRows a (l0, u0)).1 r c
        = (DenseLU.lu (view jac a) jac.n).L r c ∧
      view (LinAlg.build .doolittle jac).Up
          (doolittleCell (LinAlg.build .doolittle jac).dRows a (l0, u0)).2 r c
        = (DenseLU.lu (view jac a) jac.n).U r c :=
  doolittleCell_view (LUSetup_build jac) rfl a l0 u0 hLs hUs

/-- C03 for `LinAlg.build .mozart jac` -/
theorem C03_build_mozart (jac : Pattern) (hdiag : ∀ i, i < jac.n → jac.zero? i i = false)
    (a l0 u0 : Array K)
    (hLs : l0.size = (LinAlg.build .mozart jac).Lp.nnz)
    (hUs : u0.size = (LinAlg.build .mozart jac).Up.nnz) :
    ∀ r c, r < jac.n → c < jac.n →
      view (LinAlg.build .mozart jac).Lp
          (mozartCell (LinAlg.build .mozart jac).mInit (LinAlg.build .mozart jac).mRows a (l0, u0)).1 r c
        = (DenseLU.lu (view jac a) jac.n).L r c ∧
      view (LinAlg.build .mozart jac).Up
          (mozartCell (LinAlg.build .mozart jac).mInit (LinAlg.build .mozart jac).mRows a (l0, u0)).2 r c
        = (DenseLU.lu (view jac a) jac.n).U r c :=
  mozartCell_view (MozSetup_build jac hdiag) rfl a l0 u0 hLs hUs

/-- C03 for `LinAlg.build .doolittleInPlace jac` -/
theorem C03_build_doolittleInPlace (jac : Pattern) (m0 : Array K)
    (hMs : m0.size = (LinAlg.build .doolittleInPlace jac).A.nnz) :
    ∀ r c, r < jac.n → c < jac.n →
      view (LinAlg.build .doolittleInPlace jac).A
          (doolittleInPlaceCell (LinAlg.build .doolittleInPlace jac).diRows m0) r c
        = if c < r then (DenseLU.lu (view (LinAlg.build .doolittleInPlace jac).A m0) jac.n).L r c
          else (DenseLU.lu (view (LinAlg.build .doolittleInPlace jac).A m0) jac.n).U r c :=
  doolittleInPlaceCell_view (IPSetup_build jac) rfl m0 hMs

/-- C03 for `LinAlg.build .mozartInPlace jac` -/
theorem C03_build_mozartInPlace (jac : Pattern)
    (hdiag : ∀ i, i < jac.n → jac.zero? i i = false) (m0 : Array K)
    (hMs : m0.size = (LinAlg.build .mozartInPlace jac).A.nnz) :
    ∀ r c, r < jac.n → c < jac.n →
      view (LinAlg.build .mozartInPlace jac).A
          (mozartInPlaceCell (LinAlg.build .mozartInPlace jac).miRows m0) r c
        = if c < r then (DenseLU.lu (view (LinAlg.build .mozartInPlace jac).A m0) jac.n).L r c
          else (DenseLU.lu (view (LinAlg.build .mozartInPlace jac).A m0) jac.n).U r c :=
  mozartInPlaceCell_view (IPSetup_build_mozart jac hdiag) rfl m0 hMs

/-- C04 for `LinAlg.build .doolittle jac`: `Factor; Solve` solves `A x = b` -/
theorem C04_build_doolittle (jac : Pattern) (a l0 u0 b : Array K)
    (hLs : l0.size = (LinAlg.build .doolittle jac).Lp.nnz)
    (hUs : u0.size = (LinAlg.build .doolittle jac).Up.nnz) (hb : b.size = jac.n)
    (hpiv : ∀ i, i < jac.n → view (LinAlg.build .doolittle jac).Up
      (doolittleCell (LinAlg.build .doolittle jac).dRows a (l0, u0)).2 i i ≠ 0) :
    ∀ i, i < jac.n →
      ∑ j ∈ range jac.n, view jac a i j *
        rd (solveCell (LinAlg.build .doolittle jac).fw (LinAlg.build .doolittle jac).bw
          (doolittleCell (LinAlg.build .doolittle jac).dRows a (l0, u0)).1
          (doolittleCell (LinAlg.build .doolittle jac).dRows a (l0, u0)).2 b) j = rd b i :=
  solve_of_views _ _ _ _ b jac.n (view jac a) rfl hb
    (doolittleCell_view (LUSetup_build jac) rfl a l0 u0 hLs hUs) hpiv

/-- C04 for `LinAlg.build .mozart jac` -/
theorem C04_build_mozart (jac : Pattern) (hdiag : ∀ i, i < jac.n → jac.zero? i i = false)
    (a l0 u0 b : Array K)
    (hLs : l0.size = (LinAlg.build .mozart jac).Lp.nnz)
    (hUs : u0.size = (LinAlg.build .mozart jac).Up.nnz) (hb : b.size = jac.n)
    (hpiv : ∀ i, i < jac.n → view (LinAlg.build .mozart jac).Up
      (mozartCell (LinAlg.build .mozart jac).mInit (LinAlg.build .mozart jac).mRows a (l0, u0)).2 i i ≠ 0) :
    ∀ i, i < jac.n →
      ∑ j ∈ range jac.n, view jac a i j *
        rd (solveCell (LinAlg.build .mozart jac).fw (LinAlg.build .mozart jac).bw
          (mozartCell (LinAlg.build .mozart jac).mInit (LinAlg.build .mozart jac).mRows a (l0, u0)).1
          (mozartCell (LinAlg.build .mozart jac).mInit (LinAlg.build .mozart jac).mRows a (l0, u0)).2 b) j
        = rd b i :=
  solve_of_views _ _ _ _ b jac.n (view jac a) rfl hb
    (mozartCell_view (MozSetup_build jac hdiag) rfl a l0 u0 hLs hUs) hpiv

/-- C04 for `LinAlg.build .doolittleInPlace jac` -/
theorem C04_build_doolittleInPlace (jac : Pattern) (m0 b : Array K)
    (hMs : m0.size = (LinAlg.build .doolittleInPlace jac).A.nnz) (hb : b.size = jac.n)
    (hpiv : ∀ i, i < jac.n → view (LinAlg.build .doolittleInPlace jac).A
      (doolittleInPlaceCell (LinAlg.build .doolittleInPlace jac).diRows m0) i i ≠ 0) :
    ∀ i, i < jac.n →
      ∑ j ∈ range jac.n, view (LinAlg.build .doolittleInPlace jac).A m0 i j *
        rd (solveInPlaceCell (LinAlg.build .doolittleInPlace jac).fw
          (LinAlg.build .doolittleInPlace jac).bw
          (doolittleInPlaceCell (LinAlg.build .doolittleInPlace jac).diRows m0) b) j = rd b i :=
  solve_of_view_inplace _ _ b jac.n _ rfl hb
    (doolittleInPlaceCell_view (IPSetup_build jac) rfl m0 hMs) hpiv

/-- C04 for `LinAlg.build .mozartInPlace jac` -/
theorem C04_build_mozartInPlace (jac : Pattern)
    (hdiag : ∀ i, i < jac.n → jac.zero? i i = false) (m0 b : Array K)
    (hMs : m0.size = (LinAlg.build .mozartInPlace jac).A.nnz) (hb : b.size = jac.n)
    (hpiv : ∀ i, i < jac.n → view (LinAlg.build .mozartInPlace jac).A
      (mozartInPlaceCell (LinAlg.build .mozartInPlace jac).miRows m0) i i ≠ 0) :
    ∀ i, i < jac.n →
      ∑ j ∈ range jac.n, view (LinAlg.build .mozartInPlace jac).A m0 i j *
        rd (solveInPlaceCell (LinAlg.build .mozartInPlace jac).fw
          (LinAlg.build .mozartInPlace jac).bw
          (mozartInPlaceCell (LinAlg.build .mozartInPlace jac).miRows m0) b) j = rd b i :=
  solve_of_view_inplace _ _ b jac.n _ rfl hb
    (mozartInPlaceCell_view (IPSetup_build_mozart jac hdiag) rfl m0 hMs) hpiv

end endToEnd

end Micm

#print axioms Micm.C03_build_doolittle
#print axioms Micm.C03_build_mozart
#print axioms Micm.C03_build_doolittleInPlace
#print axioms Micm.C03_build_mozartInPlace
#print axioms Micm.C04_build_doolittle
#print axioms Micm.C04_build_mozart
#print axioms Micm.C04_build_doolittleInPlace
#print axioms Micm.C04_build_mozartInPlace
