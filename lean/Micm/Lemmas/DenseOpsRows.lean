/-
Lemmas for C19 (row operations of the dense containers): row extraction and assignment with the
`min(L, remaining)` stepping, construction from nested vectors.  Core Lean only.
-/
import Micm.Lemmas.DenseOps
namespace Micm

section
variable {α : Type} [OfNat α 0]

/-! ### the start of a row and the stride between its elements -/

/-- `addr x y` is the row's first slot plus `y` strides (grouped layout) -/
theorem addr_stride (s : DenseShape) (hL : s.L ≠ 0) (x y : Nat) :
    s.addr x y = (x / s.L) * s.cols * s.L + x % s.L + y * s.L := by
  simp only [DenseShape.addr, hL, if_false, Nat.add_mul]
  omega

theorem addr_rowmajor (s : DenseShape) (hL : s.L = 0) (x y : Nat) : s.addr x y = x * s.cols + y := by
  simp only [DenseShape.addr, hL, if_true]

/-- one more stride still fits whenever a later element of the row exists -/
theorem stride_fits (s : DenseShape) (hL : s.L ≠ 0) {x y : Nat} (hx : x < s.rows) (hy : y + 1 < s.cols) :
    s.addr x y + s.L ≤ s.size := by
  have h := dense_addr_lt s hx hy
  rw [addr_stride s hL] at h ⊢
  rw [Nat.succ_mul] at h
  omega

/-! ### row extraction -/

theorem extract_fold (data : Array α) (L start n : Nat) (h : start + n * L ≤ data.size) :
    (List.range n).foldl (fun (st : List α × Nat) _ =>
        (rd data st.2 :: st.1, st.2 + min L (data.size - st.2))) ([], start)
      = (((List.range n).map fun y => rd data (start + y * L)).reverse, start + n * L) := by
  induction n with
  | zero => simp
  | succ n ih =>
    rw [Nat.succ_mul] at h
    rw [List.range_succ, List.foldl_append, ih (by omega)]
    simp only [List.foldl_cons, List.foldl_nil, List.map_append, List.map_cons, List.map_nil,
      List.reverse_append, List.reverse_cons, List.reverse_nil, List.nil_append, List.cons_append,
      Nat.succ_mul]
    have : min L (data.size - (start + n * L)) = L := by omega
    rw [this, Nat.add_assoc]

theorem rowExtract_eq (s : DenseShape) (data : Array α) (hd : data.size = s.size) {x : Nat}
    (hx : x < s.rows) :
    rowExtract s data x = (List.range s.cols).map fun y => rd data (s.addr x y) := by
  unfold rowExtract
  by_cases hL : s.L = 0
  · simp only [hL, if_true]
    apply List.map_congr_left
    intro y _
    rw [addr_rowmajor s hL]
  · simp only [hL, if_false]
    cases hc : s.cols with
    | zero => simp
    | succ c =>
      have hfit : (x / s.L) * s.cols * s.L + x % s.L + c * s.L ≤ data.size := by
        have := dense_addr_lt s hx (show c < s.cols by omega)
        rw [addr_stride s hL] at this
        omega
      rw [hc] at hfit
      rw [List.range_succ, List.foldl_append, extract_fold data s.L _ c hfit]
      simp only [List.foldl_cons, List.foldl_nil, List.reverse_cons, List.reverse_reverse,
        List.map_append, List.map_cons, List.map_nil]
      congr 1
      · apply List.map_congr_left
        intro y _
        rw [addr_stride s hL, hc]
      · rw [addr_stride s hL, hc]

/-! ### writing a list of values at the images of consecutive indices -/

theorem foldl_zipIdx_wr (g : Nat → Nat) (l : List α) (k0 : Nat) (d : Array α)
    (hinj : ∀ y y', k0 ≤ y → y < k0 + l.length → k0 ≤ y' → y' < k0 + l.length → g y = g y' → y = y') :
    ((l.zipIdx k0).foldl (fun d p => wr d (g p.2) p.1) d).size = d.size ∧
    (∀ y (hy : y < l.length), g (k0 + y) < d.size →
      rd ((l.zipIdx k0).foldl (fun d p => wr d (g p.2) p.1) d) (g (k0 + y)) = l[y]) ∧
    (∀ j, (∀ y, y < l.length → g (k0 + y) ≠ j) →
      rd ((l.zipIdx k0).foldl (fun d p => wr d (g p.2) p.1) d) j = rd d j) := by
  induction l generalizing k0 d with
  | nil => simp
  | cons e l ih =>
    simp only [List.zipIdx_cons, List.foldl_cons]
    have hlen : (e :: l).length = l.length + 1 := rfl
    obtain ⟨h1, h2, h3⟩ := ih (k0 + 1) (wr d (g k0) e) (by
      intro y y' a b c dd; exact hinj y y' (by omega) (by rw [hlen]; omega) (by omega) (by rw [hlen]; omega))
    refine ⟨by rw [h1, wr_size], ?_, ?_⟩
    · intro y hy hlt
      cases y with
      | zero =>
        rw [h3]
        · simp only [Nat.add_zero, List.getElem_cons_zero]
          exact rd_wr_same _ _ _ hlt
        · intro y' hy' heq
          have := hinj (k0 + 1 + y') (k0 + 0) (by omega) (by rw [hlen]; omega) (by omega)
            (by rw [hlen]; omega) heq
          omega
      | succ y =>
        have hy' : y < l.length := by simpa using hy
        have e1 : k0 + (y + 1) = k0 + 1 + y := by omega
        rw [e1] at hlt ⊢
        rw [h2 y hy' (by simpa using hlt)]
        rfl
    · intro j hj
      rw [h3]
      · apply rd_wr_ne
        have := hj 0 (by rw [hlen]; omega)
        simpa using this
      · intro y hy
        have := hj (y + 1) (by rw [hlen]; omega)
        have e1 : k0 + (y + 1) = k0 + 1 + y := by omega
        rwa [e1] at this

/-- write the list `r` into row `x` (the inner loop of row assignment and of the nested-vector
    constructor) -/
def writeRow (s : DenseShape) (x : Nat) (r : List α) (d : Array α) : Array α :=
  (r.zipIdx).foldl (fun d ey => wr d (s.addr x ey.2) ey.1) d

theorem writeRow_spec (s : DenseShape) (x : Nat) (r : List α) (d : Array α) (hr : r.length ≤ s.cols) :
    (writeRow s x r d).size = d.size ∧
    (∀ y (hy : y < r.length), s.addr x y < d.size → rd (writeRow s x r d) (s.addr x y) = r[y]) ∧
    (∀ j, (∀ y, y < r.length → s.addr x y ≠ j) → rd (writeRow s x r d) j = rd d j) := by
  have h := foldl_zipIdx_wr (s.addr x) r 0 d (by
    intro y y' _ hy _ hy' heq
    exact (dense_addr_inj s (by omega) (by omega) heq).2)
  simp only [Nat.zero_add] at h
  exact h

/-! ### row assignment -/

omit [OfNat α 0] in
/-- the grouped layout's assignment loop (position advanced by `min(L, remaining)`) writes
    `l[y]` at `start + y * L` -/
theorem assign_fold (L start : Nat) (l : List α) (k0 : Nat) (d : Array α)
    (h : l = [] ∨ start + (k0 + l.length - 1) * L < d.size) :
    (l.foldl (fun (st : Array α × Nat) e =>
        (wr st.1 st.2 e, st.2 + min L (st.1.size - st.2))) (d, start + k0 * L)).1
      = (l.zipIdx k0).foldl (fun d p => wr d (start + p.2 * L) p.1) d := by
  induction l generalizing k0 d with
  | nil => rfl
  | cons e l ih =>
    simp only [List.foldl_cons, List.zipIdx_cons]
    cases l with
    | nil => rfl
    | cons e' l' =>
      have hh : start + (k0 + (l'.length + 1 + 1) - 1) * L < d.size := by
        rcases h with h | h
        · cases h
        · exact h
      have e1 : k0 + (l'.length + 1 + 1) - 1 = (k0 + 1) + l'.length := by omega
      rw [e1, Nat.add_mul] at hh
      have hmin : min L (d.size - (start + k0 * L)) = L := by
        rw [Nat.add_mul, Nat.one_mul] at hh; omega
      have hpos : start + k0 * L + L = start + (k0 + 1) * L := by
        rw [Nat.add_mul, Nat.one_mul]; omega
      rw [hmin, hpos]
      apply ih
      right
      rw [wr_size]
      have e2 : k0 + 1 + (e' :: l').length - 1 = (k0 + 1) + l'.length := by
        simp only [List.length_cons]; omega
      rw [e2, Nat.add_mul]
      exact hh

omit [OfNat α 0] in
theorem rowAssign_err (s : DenseShape) (data : Array α) (x : Nat) (v : List α) (hv : v.length < s.cols) :
    rowAssign s data x v = .error .rowSizeMismatch := by
  unfold rowAssign
  rw [if_pos hv]

omit [OfNat α 0] in
/-- on success row assignment is `writeRow` of the first `cols` values (both layouts) -/
theorem rowAssign_eq (s : DenseShape) (data : Array α) (hd : data.size = s.size) {x : Nat}
    (hx : x < s.rows) (v : List α) (hv : s.cols ≤ v.length) :
    rowAssign s data x v = .ok (writeRow s x (v.take s.cols) data) := by
  unfold rowAssign writeRow
  rw [if_neg (by omega)]
  by_cases hL : s.L = 0
  · simp only [hL, if_true]
    congr 1
    have : (fun (d : Array α) (p : α × Nat) => wr d (x * s.cols + p.2) p.1)
        = fun d p => wr d (s.addr x p.2) p.1 := by
      funext d p; rw [addr_rowmajor s hL]
    rw [this]
  · simp only [hL, if_false]
    congr 1
    have hlen : (v.take s.cols).length = s.cols := by simp; omega
    have h := assign_fold s.L ((x / s.L) * s.cols * s.L + x % s.L) (v.take s.cols) 0 data (by
      by_cases hc : s.cols = 0
      · left
        apply List.eq_nil_of_length_eq_zero
        rw [hlen, hc]
      · right
        rw [hlen, Nat.zero_add]
        have := dense_addr_lt s hx (show s.cols - 1 < s.cols by omega)
        rw [addr_stride s hL, hd.symm] at this
        exact this)
    simp only [Nat.zero_mul, Nat.add_zero] at h
    rw [h]
    have : (fun (d : Array α) (p : α × Nat) => wr d ((x / s.L) * s.cols * s.L + x % s.L + p.2 * s.L) p.1)
        = fun d p => wr d (s.addr x p.2) p.1 := by
      funext d p; rw [addr_stride s hL]
    rw [this]

/-! ### construction from nested vectors -/

/-- the outer loop of the nested-vector constructor, rows numbered from `k0` -/
theorem nested_fold (s : DenseShape) (m : List (List α)) (k0 : Nat) (d : Array α)
    (hrect : ∀ r ∈ m, r.length = s.cols) (hrows : k0 + m.length ≤ s.rows) (hd : d.size = s.size) :
    ((m.zipIdx k0).foldl (fun d rx => writeRow s rx.2 rx.1 d) d).size = d.size ∧
    (∀ i (hi : i < m.length) y (hy : y < m[i].length),
      rd ((m.zipIdx k0).foldl (fun d rx => writeRow s rx.2 rx.1 d) d) (s.addr (k0 + i) y) = m[i][y]) ∧
    (∀ j, (∀ i y, i < m.length → y < s.cols → s.addr (k0 + i) y ≠ j) →
      rd ((m.zipIdx k0).foldl (fun d rx => writeRow s rx.2 rx.1 d) d) j = rd d j) := by
  induction m generalizing k0 d with
  | nil => simp
  | cons r m ih =>
    simp only [List.zipIdx_cons, List.foldl_cons]
    have hlen : (r :: m).length = m.length + 1 := rfl
    have hr : r.length = s.cols := hrect r List.mem_cons_self
    obtain ⟨w1, w2, w3⟩ := writeRow_spec s k0 r d (by omega)
    obtain ⟨h1, h2, h3⟩ := ih (k0 + 1) (writeRow s k0 r d)
      (fun r' hr' => hrect r' (List.mem_cons_of_mem _ hr')) (by rw [hlen] at hrows; omega)
      (by rw [w1, hd])
    refine ⟨by rw [h1, w1], ?_, ?_⟩
    · intro i hi y hy
      cases i with
      | zero =>
        simp only [List.getElem_cons_zero] at hy ⊢
        rw [Nat.add_zero, h3]
        · apply w2 y hy
          rw [hd]
          exact dense_addr_lt s (by rw [hlen] at hrows; omega) (by omega)
        · intro i' y' _ hy' heq
          have := (dense_addr_inj s hy' (by omega) heq).1
          omega
      | succ i =>
        have hi' : i < m.length := by simpa using hi
        simp only [List.getElem_cons_succ] at hy ⊢
        have e1 : k0 + (i + 1) = k0 + 1 + i := by omega
        rw [e1]
        exact h2 i hi' y hy
    · intro j hj
      rw [h3, w3]
      · intro y hy
        have := hj 0 y (by rw [hlen]; omega) (by omega)
        simpa using this
      · intro i y hi hy
        have := hj (i + 1) y (by rw [hlen]; omega) hy
        have e1 : k0 + (i + 1) = k0 + 1 + i := by omega
        rwa [e1] at this

theorem fromNested_nil (L : Nat) : fromNested L ([] : List (List α)) = .ok (⟨0, 0, L⟩, #[]) := rfl

theorem fromNested_ragged (L : Nat) (r0 : List α) (rest : List (List α))
    (h : ∃ r ∈ r0 :: rest, r.length ≠ r0.length) :
    fromNested L (r0 :: rest) = .error .invalidVector := by
  obtain ⟨r, hr, hne⟩ := h
  unfold fromNested
  have : (r0 :: rest).any (fun r => r.length != r0.length) = true := by
    rw [List.any_eq_true]
    exact ⟨r, hr, by simpa using hne⟩
  simp only [this, if_true]

theorem fromNested_rect (L : Nat) (r0 : List α) (rest : List (List α))
    (h : ∀ r ∈ r0 :: rest, r.length = r0.length) :
    fromNested L (r0 :: rest) = .ok (⟨(r0 :: rest).length, r0.length, L⟩,
      ((r0 :: rest).zipIdx).foldl (fun d rx => writeRow ⟨(r0 :: rest).length, r0.length, L⟩ rx.2 rx.1 d)
        (Array.replicate (DenseShape.size ⟨(r0 :: rest).length, r0.length, L⟩) 0)) := by
  unfold fromNested
  have : (r0 :: rest).any (fun r => r.length != r0.length) = false := by
    rw [List.any_eq_false]
    intro r hr
    simpa using h r hr
  simp only [this, Bool.false_eq_true, if_false]
  rfl

end
end Micm
