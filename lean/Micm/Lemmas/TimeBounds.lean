/-
Lemmas for the time-bound part of C06: along the flattened Rosenbrock loop over an ordered field the
current time stays in `[0, T]`, and inside a step `t + H ≤ T`, `0 ≤ H` (`0 < H` when `round_off > 0`).
Also: the accepted step sizes recorded in the trace are bounded by the current time, and the
bookkeeping of the documented continuation loop (`Solve` again with `T − final_time`).
-/
import Micm.Lemmas.RosLoop

namespace Micm
set_option linter.unusedSectionVars false

section TimeInv
variable {K : Type} [Field K] [LinearOrder K] [IsStrictOrderedRing K]
variable {o : Ops K} (cs : Consts K) (s : SolverCfg K) (p : RosParams K) (kc : Mat K)
    (atol : Array K) (rtol : K) (T hm : K)

/-- the time invariant: `0 ≤ t ≤ T`; inside a step `0 ≤ H`, `t + H ≤ T`, and `0 < H` when
    `round_off > 0`; every accepted attempt recorded so far has `0 ≤ h ≤ t` -/
structure TimeInv (p : RosParams K) (T : K) (r : RState K) : Prop where
  t_nonneg : 0 ≤ r.ctl.t
  t_le : r.ctl.t ≤ T
  h_nonneg : r.inStep = true → 0 ≤ r.ctl.h
  fits : r.inStep = true → r.ctl.t + r.ctl.h ≤ T
  h_pos : r.inStep = true → 0 < p.roundOff → 0 < r.ctl.h
  acc_le : ∀ a ∈ r.trace, a.accepted = true → 0 ≤ a.h ∧ a.h ≤ r.ctl.t

theorem TimeInv_init (h0 : K) (Y : Mat K) (sc : Scratch K) (hT : 0 ≤ T) :
    TimeInv p T (rosInit h0 Y sc) :=
  ⟨le_refl _, hT, fun h => (by cases h), fun h => (by cases h), fun h => (by cases h),
   fun _ h => (by cases h)⟩

theorem TimeInv_prologue (ho : OrderedOps o) (hro : 0 ≤ p.roundOff) (r : RState K)
    (h : TimeInv p T r) : TimeInv p T (rosPrologue o cs s p kc T r) := by
  have hc := rosPrologue_cases o cs s p kc T r
  generalize rosPrologue o cs s p kc T r = r' at hc ⊢
  cases hc with
  | inStep _ => exact h
  | converged => exact ⟨h.1, h.2, h.3, h.4, h.5, h.6⟩
  | maxSteps => exact ⟨h.1, h.2, h.3, h.4, h.5, h.6⟩
  | tooSmall => exact ⟨h.1, h.2, h.3, h.4, h.5, h.6⟩
  | start hi ht _ hsm =>
    rw [ho.le] at ht
    have ht : r.ctl.t - T + p.roundOff ≤ 0 := by simpa using ht
    rw [Bool.or_eq_false_iff, ho.le] at hsm
    have hh : p.roundOff < r.ctl.h := by simpa using hsm.2
    have hrem : p.roundOff ≤ T - r.ctl.t := by linarith
    have habs : |T - r.ctl.t| = T - r.ctl.t := abs_of_nonneg (by linarith)
    have e : (startStep o s kc T r).ctl.h = min r.ctl.h (T - r.ctl.t) := by
      simp only [startStep]; rw [ho.cmin_eq, ho.abs, habs]
    refine ⟨h.1, h.2, fun _ => ?_, fun _ => ?_, fun _ hp => ?_, h.6⟩
    · rw [e]; exact le_min (by linarith) (by linarith)
    · rw [e]
      have : min r.ctl.h (T - r.ctl.t) ≤ T - r.ctl.t := min_le_right _ _
      show r.ctl.t + _ ≤ T
      linarith
    · rw [e]; exact lt_min (by linarith) (by linarith)

/-- a rejection keeps `0 ≤ H' ≤ H` (and `0 < H'` if `0 < H`) under the `pow` hypothesis -/
theorem reject_h (ho : OrderedOps o) (lp : LegalParams p) (hs1 : p.safety < 1)
    (hpow : ∀ x, 1 ≤ x → 1 ≤ o.pow x (1 / p.order)) (c : Ctl K) (e : K)
    (hd : (ctlDecide o p hm c e).1 = .reject) (hh : 0 ≤ c.h) :
    0 ≤ (ctlDecide o p hm c e).2.h ∧ (ctlDecide o p hm c e).2.h ≤ c.h ∧
    (0 < c.h → 0 < (ctlDecide o p hm c e).2.h) ∧ (ctlDecide o p hm c e).2.t = c.t := by
  have ht : (ctlDecide o p hm c e).2.t = c.t := by rw [ho.reject_next p hm c e hd]
  rcases eq_or_lt_of_le hh with h0 | hpos
  · have : (ctlDecide o p hm c e).2.h = 0 := by
      rw [ho.reject_next p hm c e hd]; simp only; rw [← h0]; split <;> simp
    rw [this, ← h0]
    exact ⟨le_refl _, le_refl _, fun h => absurd h (lt_irrefl _), ht⟩
  · have hr : 0 < (ctlDecide o p hm c e).2.h ∧ (ctlDecide o p hm c e).2.h < c.h := by
      cases hrm : c.rejectMore
      · have he := ((ho.reject_iff p hm c e).mp hd).1
        have hp := hpow e he
        have hlt : p.safety / o.pow e (1 / p.order) < 1 := by
          rw [div_lt_one (lt_of_lt_of_le one_pos hp)]; exact lt_of_lt_of_le hs1 hp
        have hcl : clampFac o p e < 1 :=
          (clampFac_lt_one_iff o p e lp.fmin_lt_one lp.one_le_fmax).mpr hlt
        have hcp : 0 < clampFac o p e := clampFac_pos o p e lp.fmin_pos
          (le_trans (le_of_lt lp.fmin_lt_one) lp.one_le_fmax)
        rw [ho.reject_next p hm c e hd]
        simp only [hrm, Bool.false_eq_true, if_false]
        exact ⟨mul_pos hpos hcp, by simpa using mul_lt_mul_of_pos_left hcl hpos⟩
      · rw [ho.reject_next p hm c e hd]
        simp only [hrm, if_true]
        exact ⟨mul_pos hpos lp.rejDec_pos, by simpa using mul_lt_mul_of_pos_left lp.rejDec_lt_one hpos⟩
    exact ⟨le_of_lt hr.1, le_of_lt hr.2, fun _ => hr.1, ht⟩

theorem TimeInv_attempt (ho : OrderedOps o) (lp : LegalParams p) (hs1 : p.safety < 1)
    (hpow : ∀ x, 1 ≤ x → 1 ≤ o.pow x (1 / p.order)) (r : RState K) (hi : r.inStep = true)
    (h : TimeInv p T r) : TimeInv p T (rosAttempt o cs s p kc atol rtol hm r) := by
  have hh := h.h_nonneg hi
  have hf := h.fits hi
  rcases (by unfold attDecide; rw [ho.ctlDecide_fst]; split <;> simp :
      (attDecide o cs s p kc atol rtol hm r).1 = .accept ∨
      (attDecide o cs s p kc atol rtol hm r).1 = .reject) with hd | hd
  · -- accepted: t' = t + H
    have hn := ho.accept_next p hm r.ctl (attError o cs s p kc atol rtol r) hd
    have ht : (rosAttempt o cs s p kc atol rtol hm r).ctl.t = r.ctl.t + r.ctl.h := by
      rw [rosAttempt_ctl]; unfold attDecide; rw [hn]
    have hin : (rosAttempt o cs s p kc atol rtol hm r).inStep = false := by
      rw [rosAttempt_inStep, if_pos hd]
    refine ⟨by rw [ht]; linarith [h.1], by rw [ht]; exact hf, ?_, ?_, ?_, ?_⟩
    · intro h1; rw [hin] at h1; cases h1
    · intro h1; rw [hin] at h1; cases h1
    · intro h1; rw [hin] at h1; cases h1
    · intro a ha hacc
      rw [rosAttempt_trace] at ha
      rw [ht]
      rcases List.mem_cons.mp ha with rfl | ha
      · simp only [attRecord]; exact ⟨hh, by linarith [h.1]⟩
      · obtain ⟨a1, a2⟩ := h.acc_le a ha hacc
        exact ⟨a1, by linarith⟩
  · -- rejected: t' = t, 0 ≤ H' ≤ H
    obtain ⟨r1, r2, r3, r4⟩ := reject_h p hm ho lp hs1 hpow r.ctl (attError o cs s p kc atol rtol r) hd hh
    have hc : (rosAttempt o cs s p kc atol rtol hm r).ctl = (attDecide o cs s p kc atol rtol hm r).2 :=
      rosAttempt_ctl o cs s p kc atol rtol hm r
    have ht : (rosAttempt o cs s p kc atol rtol hm r).ctl.t = r.ctl.t := by rw [hc]; exact r4
    refine ⟨by rw [ht]; exact h.1, by rw [ht]; exact h.2, fun _ => by rw [hc]; exact r1,
      fun _ => ?_, fun _ hp => by rw [hc]; exact r3 (h.h_pos hi hp), ?_⟩
    · rw [ht, hc]
      have : (attDecide o cs s p kc atol rtol hm r).2.h ≤ r.ctl.h := r2
      linarith
    · intro a ha hacc
      rw [rosAttempt_trace] at ha
      rw [ht]
      rcases List.mem_cons.mp ha with rfl | ha
      · simp only [attRecord, hd] at hacc; cases hacc
      · exact h.acc_le a ha hacc

theorem TimeInv_step (ho : OrderedOps o) (lp : LegalParams p) (hs1 : p.safety < 1)
    (hpow : ∀ x, 1 ≤ x → 1 ≤ o.pow x (1 / p.order)) (hro : 0 ≤ p.roundOff) (r : RState K)
    (h : TimeInv p T r) : TimeInv p T (rosStep o cs s p kc atol rtol T hm r) :=
  rosStep_inv o cs s p kc atol rtol T hm (TimeInv p T) r (TimeInv_prologue cs s p kc T ho hro r)
    (fun r' _ hi h' => TimeInv_attempt cs s p kc atol rtol T hm ho lp hs1 hpow r' hi h') h

theorem TimeInv_loop (ho : OrderedOps o) (lp : LegalParams p) (hs1 : p.safety < 1)
    (hpow : ∀ x, 1 ≤ x → 1 ≤ o.pow x (1 / p.order)) (hro : 0 ≤ p.roundOff) (fuel : Nat) (r : RState K)
    (h : TimeInv p T r) : TimeInv p T (rosLoop o cs s p kc atol rtol T hm fuel r) :=
  rosLoop_inv o cs s p kc atol rtol T hm (TimeInv p T)
    (fun r _ h => TimeInv_step cs s p kc atol rtol T hm ho lp hs1 hpow hro r h)
    (fun _ _ h => ⟨h.1, h.2, h.3, h.4, h.5, h.6⟩) fuel r h

theorem TimeInv_iter (ho : OrderedOps o) (lp : LegalParams p) (hs1 : p.safety < 1)
    (hpow : ∀ x, 1 ≤ x → 1 ≤ o.pow x (1 / p.order)) (hro : 0 ≤ p.roundOff) (r : RState K)
    (h : TimeInv p T r) (n : Nat) :
    TimeInv p T ((rosStep o cs s p kc atol rtol T hm)^[n] r) := by
  induction n with
  | zero => exact h
  | succ n ih =>
    rw [Function.iterate_succ_apply']
    exact TimeInv_step cs s p kc atol rtol T hm ho lp hs1 hpow hro _ ih

end TimeInv

/-! ### the continuation loop: call `Solve` again with the remaining time -/

section Continuation
variable {α : Type} [OfNat α 0] [OfNat α 1] [Add α] [Sub α] [Mul α] [Div α]

/-- state of the documented continuation loop after `k` calls:
    (remaining time, solution, scratch).  Call `k+1` is `Solve(remaining, …)` on the current state;
    the new remainder is `remaining − final_time`. -/
def contLoop (o : Ops α) (cs : Consts α) (s : SolverCfg α) (p : RosParams α) (kc : Mat α)
    (atol : Array α) (rtol : α) (fuel : Nat) (T : α) (Y : Mat α) (sc : Scratch α) :
    Nat → α × Mat α × Scratch α
  | 0 => (T, Y, sc)
  | k + 1 =>
    let st := contLoop o cs s p kc atol rtol fuel T Y sc k
    let res := rosSolve o cs s p kc atol rtol st.1 st.2.1 st.2.2 fuel
    (st.1 - res.finalTime, res.Y, res.sc)

end Continuation

section ContinuationOrdered
variable {K : Type} [Field K] [LinearOrder K] [IsStrictOrderedRing K]
variable {o : Ops K} (cs : Consts K) (s : SolverCfg K) (p : RosParams K) (kc : Mat K)
    (atol : Array K) (rtol : K) (fuel : Nat)

/-- the final loop state of `rosSolve` satisfies the time invariant -/
theorem TimeInv_solve (ho : OrderedOps o) (lp : LegalParams p) (hs1 : p.safety < 1)
    (hpow : ∀ x, 1 ≤ x → 1 ≤ o.pow x (1 / p.order)) (hro : 0 ≤ p.roundOff) (T : K) (hT : 0 ≤ T)
    (Y : Mat K) (sc : Scratch K) :
    TimeInv p T (rosLoop o cs s p kc atol rtol T (hmaxEff o p T) fuel (rosInit (initialH o cs p T) Y sc)) :=
  TimeInv_loop cs s p kc atol rtol T _ ho lp hs1 hpow hro fuel _ (TimeInv_init p T _ Y sc hT)

/-- `0 ≤ final_time ≤ T`, and every accepted attempt of the returned trace has `0 ≤ h ≤ final_time` -/
theorem rosSolve_time_bounds (ho : OrderedOps o) (lp : LegalParams p) (hs1 : p.safety < 1)
    (hpow : ∀ x, 1 ≤ x → 1 ≤ o.pow x (1 / p.order)) (hro : 0 ≤ p.roundOff) (T : K) (hT : 0 ≤ T)
    (Y : Mat K) (sc : Scratch K) :
    0 ≤ (rosSolve o cs s p kc atol rtol T Y sc fuel).finalTime ∧
    (rosSolve o cs s p kc atol rtol T Y sc fuel).finalTime ≤ T ∧
    ∀ a ∈ (rosSolve o cs s p kc atol rtol T Y sc fuel).trace, a.accepted = true →
      0 ≤ a.h ∧ a.h ≤ (rosSolve o cs s p kc atol rtol T Y sc fuel).finalTime := by
  have h := TimeInv_solve cs s p kc atol rtol fuel ho lp hs1 hpow hro T hT Y sc
  rw [rosSolve_eq]
  exact ⟨h.1, h.2, fun a ha => h.acc_le a (by simpa using ha)⟩

/-- bookkeeping of the continuation loop: while the remainder before each of the first `k` calls was
    still `≥ round_off` and each of these calls accepted at least one step of size `≥ δ`, the
    remainder after `k` calls is in `[0, T − k·δ]` -/
theorem contLoop_bound (ho : OrderedOps o) (lp : LegalParams p) (hs1 : p.safety < 1)
    (hpow : ∀ x, 1 ≤ x → 1 ≤ o.pow x (1 / p.order)) (hro : 0 ≤ p.roundOff) (T : K) (hT : 0 ≤ T)
    (Y : Mat K) (sc : Scratch K) (δ : K) (k : Nat)
    (hprog : ∀ j, j < k →
      p.roundOff ≤ (contLoop o cs s p kc atol rtol fuel T Y sc j).1 →
      ∃ a ∈ (rosSolve o cs s p kc atol rtol (contLoop o cs s p kc atol rtol fuel T Y sc j).1
              (contLoop o cs s p kc atol rtol fuel T Y sc j).2.1
              (contLoop o cs s p kc atol rtol fuel T Y sc j).2.2 fuel).trace,
        a.accepted = true ∧ δ ≤ a.h)
    (hall : ∀ j, j < k → p.roundOff ≤ (contLoop o cs s p kc atol rtol fuel T Y sc j).1) :
    0 ≤ (contLoop o cs s p kc atol rtol fuel T Y sc k).1 ∧
    (contLoop o cs s p kc atol rtol fuel T Y sc k).1 ≤ T - (k : K) * δ := by
  induction k with
  | zero => simp [contLoop, hT]
  | succ k ih =>
    obtain ⟨i1, i2⟩ := ih (fun j hj => hprog j (by omega)) (fun j hj => hall j (by omega))
    obtain ⟨b1, b2, b3⟩ := rosSolve_time_bounds cs s p kc atol rtol fuel ho lp hs1 hpow hro
      (contLoop o cs s p kc atol rtol fuel T Y sc k).1 i1
      (contLoop o cs s p kc atol rtol fuel T Y sc k).2.1 (contLoop o cs s p kc atol rtol fuel T Y sc k).2.2
    obtain ⟨a, ha, hacc, hδ⟩ := hprog k (by omega) (hall k (by omega))
    have := (b3 a ha hacc).2
    simp only [contLoop]
    push_cast
    constructor <;> linarith

/-- hence the remainder drops below `round_off` after finitely many calls: at the latest at the first
    `k` with `k·δ > T − round_off` -/
theorem contLoop_terminates (ho : OrderedOps o) (lp : LegalParams p) (hs1 : p.safety < 1)
    (hpow : ∀ x, 1 ≤ x → 1 ≤ o.pow x (1 / p.order)) (hro : 0 ≤ p.roundOff) (T : K) (hT : 0 ≤ T)
    (Y : Mat K) (sc : Scratch K) (δ : K) (k : Nat)
    (hprog : ∀ j, j < k →
      p.roundOff ≤ (contLoop o cs s p kc atol rtol fuel T Y sc j).1 →
      ∃ a ∈ (rosSolve o cs s p kc atol rtol (contLoop o cs s p kc atol rtol fuel T Y sc j).1
              (contLoop o cs s p kc atol rtol fuel T Y sc j).2.1
              (contLoop o cs s p kc atol rtol fuel T Y sc j).2.2 fuel).trace,
        a.accepted = true ∧ δ ≤ a.h)
    (hk : T - p.roundOff < (k : K) * δ) :
    ∃ j, j ≤ k ∧ (contLoop o cs s p kc atol rtol fuel T Y sc j).1 < p.roundOff := by
  by_contra hc
  have hall : ∀ j, j ≤ k → p.roundOff ≤ (contLoop o cs s p kc atol rtol fuel T Y sc j).1 := by
    intro j hj
    by_contra h
    exact hc ⟨j, hj, not_le.mp h⟩
  have := (contLoop_bound cs s p kc atol rtol fuel ho lp hs1 hpow hro T hT Y sc δ k hprog
    (fun j hj => hall j (by omega))).2
  have := hall k (le_refl _)
  linarith

end ContinuationOrdered

end Micm
