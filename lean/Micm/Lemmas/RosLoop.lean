/-
Lemmas about the flattened Rosenbrock loop (`rosStep`, `rosLoop`, `rosSolve`):
decomposition of one iteration into prologue + attempt, projections of one attempt,
an induction principle for `rosLoop`, and the invariants used by C05 / C06 / C07.
-/
import Micm.Lemmas.Controller

namespace Micm
set_option linter.unusedSectionVars false

/-! ### derived `BEq` on the enumerations -/

theorem status_bne_running (st : Status) : (st != Status.running) = !decide (st = .running) := by
  cases st <;> rfl

theorem status_beq_running (st : Status) : (st == Status.running) = decide (st = .running) := by
  cases st <;> rfl

theorem decision_beq_accept (d : Decision) : (d == Decision.accept) = decide (d = .accept) := by
  cases d <;> rfl

section Step
variable {α : Type} [OfNat α 0] [OfNat α 1] [Add α] [Sub α] [Mul α] [Div α]
variable (o : Ops α) (cs : Consts α) (s : SolverCfg α) (p : RosParams α) (kc : Mat α)
    (atol : Array α) (rtol : α) (timeStep hm : α)

/-! ### the step prologue -/

/-- the state in which the first attempt of a new step starts -/
def startStep (r : RState α) : RState α :=
  { r with ctl := { r.ctl with h := cmin o r.ctl.h (o.abs (timeStep - r.ctl.t)) },
           inStep := true, lastAlpha := 0,
           sc := { r.sc with f0 := s.forcing kc r.Y (fillM r.sc.f0 0),
                             jac := s.jacobian kc r.Y (fillM r.sc.jac 0) },
           stats := { r.stats with functionCalls := r.stats.functionCalls + 1,
                                   jacobianUpdates := r.stats.jacobianUpdates + 1 } }

/-- the step prologue of `rosStep` (outer `while` condition and body up to the inner loop) -/
def rosPrologue (r : RState α) : RState α :=
  if r.inStep then r
  else if !(o.le (r.ctl.t - timeStep + p.roundOff) 0) then { r with status := .converged }
  else if r.stats.numberOfSteps > p.maxSteps then { r with status := .convergenceExceededMaxSteps }
  else if o.eq (r.ctl.t + cs.tenth * r.ctl.h) r.ctl.t || o.le r.ctl.h p.roundOff then
    { r with status := .stepSizeTooSmall }
  else startStep o s kc timeStep r

/-- the five ways through the prologue -/
inductive PrologueCase (r : RState α) : RState α → Prop
  | inStep : r.inStep = true → PrologueCase r r
  | converged : r.inStep = false → o.le (r.ctl.t - timeStep + p.roundOff) 0 = false →
      PrologueCase r { r with status := .converged }
  | maxSteps : r.inStep = false → o.le (r.ctl.t - timeStep + p.roundOff) 0 = true →
      r.stats.numberOfSteps > p.maxSteps → PrologueCase r { r with status := .convergenceExceededMaxSteps }
  | tooSmall : r.inStep = false → o.le (r.ctl.t - timeStep + p.roundOff) 0 = true →
      ¬ r.stats.numberOfSteps > p.maxSteps →
      (o.eq (r.ctl.t + cs.tenth * r.ctl.h) r.ctl.t || o.le r.ctl.h p.roundOff) = true →
      PrologueCase r { r with status := .stepSizeTooSmall }
  | start : r.inStep = false → o.le (r.ctl.t - timeStep + p.roundOff) 0 = true →
      ¬ r.stats.numberOfSteps > p.maxSteps →
      (o.eq (r.ctl.t + cs.tenth * r.ctl.h) r.ctl.t || o.le r.ctl.h p.roundOff) = false →
      PrologueCase r (startStep o s kc timeStep r)

theorem rosPrologue_cases (r : RState α) :
    PrologueCase o cs s p kc timeStep r (rosPrologue o cs s p kc timeStep r) := by
  unfold rosPrologue
  split
  · exact .inStep ‹_›
  · rename_i h0
    have h0 : r.inStep = false := by simpa using h0
    split
    · rename_i h1; exact .converged h0 (by simpa using h1)
    · rename_i h1
      have h1 : o.le (r.ctl.t - timeStep + p.roundOff) 0 = true := by simpa using h1
      split
      · exact .maxSteps h0 h1 ‹_›
      · split
        · exact .tooSmall h0 h1 ‹_› ‹_›
        · rename_i h3; exact .start h0 h1 ‹_› (by simpa using h3)

/-! ### one attempt, in projection form -/

def attAlpha0 (r : RState α) : α := 1 / (r.ctl.h * p.gamma0)
/-- the value passed to `LinearFactor` -/
def attAlpha (r : RState α) : α :=
  if s.la.kind.inPlace then attAlpha0 p r else attAlpha0 p r - r.lastAlpha
def attLastAlpha (r : RState α) : α :=
  if s.la.kind.inPlace then r.lastAlpha else attAlpha0 p r
/-- the matrix handed to `Factor` -/
def attMatrix (r : RState α) : Mat α := s.alphaMinusJacobian r.sc.jac (attAlpha s p r)
def attFactor (r : RState α) : Mat α × Mat α × Mat α :=
  s.factor (attMatrix s p r) r.sc.lower r.sc.upper
def attStages (r : RState α) : Array (Mat α) × Mat α × Stats :=
  stagesGo s p kc r.Y (attFactor s p r).1 (attFactor s p r).2.1 (attFactor s p r).2.2 r.ctl.h p.stages 0
    (r.sc.k.setIfInBounds 0 r.sc.f0) r.sc.ynew { r.stats with decompositions := r.stats.decompositions + 1 }
def attYnew (r : RState α) : Mat α :=
  (List.range p.stages).foldl (fun yn i => axpyM (rd p.m i) ((attStages s p kc r).1.getD i #[]) yn) r.Y
def attYerr (r : RState α) : Mat α :=
  (List.range p.stages).foldl (fun ye i => axpyM (rd p.e i) ((attStages s p kc r).1.getD i #[]) ye)
    (fillM r.sc.yerr 0)
def attError (r : RState α) : α :=
  normalizedError o cs s.L s.nSpecies atol rtol r.Y (attYnew s p kc r) (attYerr s p kc r)
def attDecide (r : RState α) : Decision × Ctl α :=
  ctlDecide o p hm r.ctl (attError o cs s p kc atol rtol r)
/-- the ghost record of the attempt -/
def attRecord (r : RState α) : Attempt α :=
  { h := r.ctl.h, alpha := attAlpha s p r, matrix := attMatrix s p r,
    error := attError o cs s p kc atol rtol r,
    accepted := (attDecide o cs s p kc atol rtol hm r).1 == .accept }

/-- the state after one attempt started from the (post-prologue) state `r`, in projection form -/
def rosAttempt (r : RState α) : RState α :=
  let d := attDecide o cs s p kc atol rtol hm r
  let att := attRecord o cs s p kc atol rtol hm r
  let sg := attStages s p kc r
  let ynew := attYnew s p kc r
  let st : Stats := { sg.2.2 with numberOfSteps := sg.2.2.numberOfSteps + 1 }
  let fa := attFactor s p r
  let sc : Scratch α :=
    { r.sc with jac := fa.1, lower := fa.2.1, upper := fa.2.2, k := sg.1, yerr := attYerr s p kc r }
  let lastAlpha := attLastAlpha s p r
  match d.1 with
  | .nan => { r with Y := ynew, status := .nanDetected, stats := st, lastAlpha, sc := { sc with ynew := r.Y },
                     trace := att :: r.trace }
  | .inf => { r with Y := ynew, status := .infDetected, stats := st, lastAlpha, sc := { sc with ynew := r.Y },
                     trace := att :: r.trace }
  | .accept =>
    { r with Y := ynew, ctl := d.2, inStep := false, lastAlpha, sc := { sc with ynew := r.Y },
             stats := { st with accepted := st.accepted + 1 }, trace := att :: r.trace }
  | .reject =>
    let st := if st.accepted ≥ 1 then { st with rejected := st.rejected + 1 } else st
    if s.la.kind.inPlace then
      { r with ctl := d.2, stats := { st with jacobianUpdates := st.jacobianUpdates + 1 }, lastAlpha,
               sc := { sc with jac := s.jacobian kc r.Y (fillM sc.jac 0), ynew := ynew },
               trace := att :: r.trace }
    else
      { r with ctl := d.2, stats := st, lastAlpha, sc := { sc with ynew := ynew }, trace := att :: r.trace }

/-- verbatim copy of the attempt part of `rosStep` (only used to connect `rosAttempt` to the model) -/
def rosAttemptRaw (r : RState α) : RState α :=
  let h := r.ctl.h
  let alpha0 : α := 1 / (h * p.gamma0)
  let (alpha, lastAlpha) :=
    if s.la.kind.inPlace then (alpha0, r.lastAlpha)
    else (alpha0 - r.lastAlpha, alpha0)
  let jacShift := s.alphaMinusJacobian r.sc.jac alpha
  let (jac, lo, up) := s.factor jacShift r.sc.lower r.sc.upper
  let st := { r.stats with decompositions := r.stats.decompositions + 1 }
  let K0 := r.sc.k.setIfInBounds 0 r.sc.f0
  let (K, _, st) := stagesGo s p kc r.Y jac lo up h p.stages 0 K0 r.sc.ynew st
  let z : Mat α := #[]
  let ynew := (List.range p.stages).foldl (fun yn i => axpyM (rd p.m i) (K.getD i z) yn) r.Y
  let yerr := (List.range p.stages).foldl (fun ye i => axpyM (rd p.e i) (K.getD i z) ye) (fillM r.sc.yerr 0)
  let error := normalizedError o cs s.L s.nSpecies atol rtol r.Y ynew yerr
  let st := { st with numberOfSteps := st.numberOfSteps + 1 }
  let (d, ctl) := ctlDecide o p hm r.ctl error
  let att : Attempt α := { h, alpha, matrix := jacShift, error, accepted := d == .accept }
  let sc := { r.sc with jac := jac, lower := lo, upper := up, k := K, yerr := yerr }
  match d with
  | .nan => { r with Y := ynew, status := .nanDetected, stats := st, lastAlpha, sc := { sc with ynew := r.Y },
                     trace := att :: r.trace }
  | .inf => { r with Y := ynew, status := .infDetected, stats := st, lastAlpha, sc := { sc with ynew := r.Y },
                     trace := att :: r.trace }
  | .accept =>
    { r with Y := ynew, ctl, inStep := false, lastAlpha, sc := { sc with ynew := r.Y },
             stats := { st with accepted := st.accepted + 1 }, trace := att :: r.trace }
  | .reject =>
    let st := if st.accepted ≥ 1 then { st with rejected := st.rejected + 1 } else st
    let (sc, st) :=
      if s.la.kind.inPlace then
        ({ sc with jac := s.jacobian kc r.Y (fillM sc.jac 0), ynew := ynew },
         { st with jacobianUpdates := st.jacobianUpdates + 1 })
      else ({ sc with ynew := ynew }, st)
    { r with ctl, stats := st, lastAlpha, sc, trace := att :: r.trace }

theorem rosStep_eq_raw (r : RState α) :
    rosStep o cs s p kc atol rtol timeStep hm r =
      if (rosPrologue o cs s p kc timeStep r).status != .running then rosPrologue o cs s p kc timeStep r
      else rosAttemptRaw o cs s p kc atol rtol hm (rosPrologue o cs s p kc timeStep r) := rfl

theorem rosAttemptRaw_eq (r : RState α) :
    rosAttemptRaw o cs s p kc atol rtol hm r = rosAttempt o cs s p kc atol rtol hm r := by
  unfold rosAttemptRaw rosAttempt attRecord attDecide attError attYnew attYerr attStages attFactor
    attMatrix attAlpha attLastAlpha attAlpha0
  cases hip : s.la.kind.inPlace
  · simp only [Bool.false_eq_true, if_false]
  · simp only [if_true]

/-- **one iteration = prologue, then (if still running) one attempt** -/
theorem rosStep_eq (r : RState α) :
    rosStep o cs s p kc atol rtol timeStep hm r =
      if (rosPrologue o cs s p kc timeStep r).status = .running
      then rosAttempt o cs s p kc atol rtol hm (rosPrologue o cs s p kc timeStep r)
      else rosPrologue o cs s p kc timeStep r := by
  rw [rosStep_eq_raw, rosAttemptRaw_eq, status_bne_running]
  by_cases h : (rosPrologue o cs s p kc timeStep r).status = .running <;> simp [h]

/-! ### `stagesGo`: one stage, and the counters it touches -/

/-- forcing re-evaluation part of stage `stage` -/
def stagePre (Y : Mat α) (stage : Nat) (K : Array (Mat α)) (ynew : Mat α) (st : Stats) :
    Array (Mat α) × Mat α × Stats :=
  if stage = 0 then (K, ynew, st)
  else if p.newF.getD stage false then
    let ynew := (List.range stage).foldl
      (fun yn j => axpyM (rd p.a (stage * (stage - 1) / 2 + j)) (K.getD j #[]) yn) Y
    (K.setIfInBounds stage (s.forcing kc ynew (fillM (K.getD stage #[]) 0)), ynew,
      { st with functionCalls := st.functionCalls + 1 })
  else (K, ynew, st)

/-- `K[stage+1].Copy(K[stage])` when the next stage re-uses the function value -/
def stageCopy (stage : Nat) (K : Array (Mat α)) : Array (Mat α) :=
  if stage + 1 < p.stages && !(p.newF.getD (stage + 1) false)
  then K.setIfInBounds (stage + 1) (K.getD stage #[]) else K

/-- the right-hand side handed to `linSolve` in stage `stage` -/
def stageRhs (h : α) (stage : Nat) (K : Array (Mat α)) : Mat α :=
  (List.range stage).foldl
    (fun ks j => axpyM (rd p.c (stage * (stage - 1) / 2 + j) / h) (K.getD j #[]) ks) (K.getD stage #[])

theorem stagesGo_succ (Y J Lo Up : Mat α) (h : α) (n stage : Nat) (K : Array (Mat α)) (ynew : Mat α)
    (st : Stats) :
    stagesGo s p kc Y J Lo Up h (n + 1) stage K ynew st =
      stagesGo s p kc Y J Lo Up h n (stage + 1)
        ((stageCopy p stage (stagePre s p kc Y stage K ynew st).1).setIfInBounds stage
          (s.linSolve J Lo Up (stageRhs p h stage (stageCopy p stage (stagePre s p kc Y stage K ynew st).1))))
        (stagePre s p kc Y stage K ynew st).2.1
        { (stagePre s p kc Y stage K ynew st).2.2 with
          solves := (stagePre s p kc Y stage K ynew st).2.2.solves + 1 } := rfl

theorem stagePre_stats (Y : Mat α) (stage : Nat) (K : Array (Mat α)) (ynew : Mat α) (st : Stats) :
    (stagePre s p kc Y stage K ynew st).2.2.solves = st.solves ∧
    (stagePre s p kc Y stage K ynew st).2.2.decompositions = st.decompositions ∧
    (stagePre s p kc Y stage K ynew st).2.2.numberOfSteps = st.numberOfSteps ∧
    (stagePre s p kc Y stage K ynew st).2.2.accepted = st.accepted ∧
    (stagePre s p kc Y stage K ynew st).2.2.rejected = st.rejected ∧
    (stagePre s p kc Y stage K ynew st).2.2.jacobianUpdates = st.jacobianUpdates := by
  unfold stagePre
  split
  · simp
  · split <;> simp

theorem stagesGo_stats (Y J Lo Up : Mat α) (h : α) (n stage : Nat) (K : Array (Mat α)) (ynew : Mat α)
    (st : Stats) :
    (stagesGo s p kc Y J Lo Up h n stage K ynew st).2.2.solves = st.solves + n ∧
    (stagesGo s p kc Y J Lo Up h n stage K ynew st).2.2.decompositions = st.decompositions ∧
    (stagesGo s p kc Y J Lo Up h n stage K ynew st).2.2.numberOfSteps = st.numberOfSteps ∧
    (stagesGo s p kc Y J Lo Up h n stage K ynew st).2.2.accepted = st.accepted ∧
    (stagesGo s p kc Y J Lo Up h n stage K ynew st).2.2.rejected = st.rejected ∧
    (stagesGo s p kc Y J Lo Up h n stage K ynew st).2.2.jacobianUpdates = st.jacobianUpdates := by
  induction n generalizing stage K ynew st with
  | zero => simp [stagesGo]
  | succ n ih =>
    rw [stagesGo_succ]
    obtain ⟨h1, h2, h3, h4, h5, h6⟩ := stagePre_stats s p kc Y stage K ynew st
    obtain ⟨i1, i2, i3, i4, i5, i6⟩ := ih (stage + 1)
      ((stageCopy p stage (stagePre s p kc Y stage K ynew st).1).setIfInBounds stage
          (s.linSolve J Lo Up (stageRhs p h stage (stageCopy p stage (stagePre s p kc Y stage K ynew st).1))))
      (stagePre s p kc Y stage K ynew st).2.1
      { (stagePre s p kc Y stage K ynew st).2.2 with
          solves := (stagePre s p kc Y stage K ynew st).2.2.solves + 1 }
    refine ⟨?_, ?_, ?_, ?_, ?_, ?_⟩
    · rw [i1]; simp only; omega
    · rw [i2]; exact h2
    · rw [i3]; exact h3
    · rw [i4]; exact h4
    · rw [i5]; exact h5
    · rw [i6]; exact h6

/-! ### projections of one attempt -/

theorem rosAttempt_trace (r : RState α) :
    (rosAttempt o cs s p kc atol rtol hm r).trace = attRecord o cs s p kc atol rtol hm r :: r.trace := by
  unfold rosAttempt; simp only []
  split <;> try rfl
  split <;> rfl

theorem rosAttempt_ctl (r : RState α) :
    (rosAttempt o cs s p kc atol rtol hm r).ctl = (attDecide o cs s p kc atol rtol hm r).2 := by
  unfold rosAttempt; simp only []
  split
  · rename_i h; exact (ctlDecide_nan _ _ _ _ _ h).symm
  · rename_i h; exact (ctlDecide_inf _ _ _ _ _ h).symm
  · rfl
  · split <;> rfl

theorem rosAttempt_Y (r : RState α) :
    (rosAttempt o cs s p kc atol rtol hm r).Y =
      if (attDecide o cs s p kc atol rtol hm r).1 = .reject then r.Y else attYnew s p kc r := by
  unfold rosAttempt; simp only []
  split <;> rename_i h <;> simp only [h, reduceCtorEq, if_false, if_true]
  split <;> rfl

theorem rosAttempt_status (r : RState α) :
    (rosAttempt o cs s p kc atol rtol hm r).status =
      match (attDecide o cs s p kc atol rtol hm r).1 with
      | .nan => .nanDetected | .inf => .infDetected | _ => r.status := by
  unfold rosAttempt; simp only []
  split <;> rename_i h <;> simp only [h]
  split <;> rfl

theorem rosAttempt_inStep (r : RState α) :
    (rosAttempt o cs s p kc atol rtol hm r).inStep =
      if (attDecide o cs s p kc atol rtol hm r).1 = .accept then false else r.inStep := by
  unfold rosAttempt; simp only []
  split <;> rename_i h <;> simp only [h, reduceCtorEq, if_false, if_true]
  split <;> rfl

theorem rosAttempt_lastAlpha (r : RState α) :
    (rosAttempt o cs s p kc atol rtol hm r).lastAlpha = attLastAlpha s p r := by
  unfold rosAttempt; simp only []
  split <;> try rfl
  split <;> rfl

theorem rosAttempt_jac (r : RState α) :
    (rosAttempt o cs s p kc atol rtol hm r).sc.jac =
      if (attDecide o cs s p kc atol rtol hm r).1 = .reject ∧ s.la.kind.inPlace = true
      then s.jacobian kc r.Y (fillM (attFactor s p r).1 0) else (attFactor s p r).1 := by
  unfold rosAttempt; simp only []
  split <;> rename_i h <;> simp only [h, reduceCtorEq, false_and, true_and, if_false]
  split <;> simp

theorem attStages_stats (r : RState α) :
    (attStages s p kc r).2.2.solves = r.stats.solves + p.stages ∧
    (attStages s p kc r).2.2.decompositions = r.stats.decompositions + 1 ∧
    (attStages s p kc r).2.2.numberOfSteps = r.stats.numberOfSteps ∧
    (attStages s p kc r).2.2.accepted = r.stats.accepted ∧
    (attStages s p kc r).2.2.rejected = r.stats.rejected ∧
    (attStages s p kc r).2.2.jacobianUpdates = r.stats.jacobianUpdates := by
  unfold attStages
  exact stagesGo_stats s p kc _ _ _ _ _ _ _ _ _ _

theorem rosAttempt_stats (r : RState α) :
    (rosAttempt o cs s p kc atol rtol hm r).stats.decompositions = r.stats.decompositions + 1 ∧
    (rosAttempt o cs s p kc atol rtol hm r).stats.numberOfSteps = r.stats.numberOfSteps + 1 ∧
    (rosAttempt o cs s p kc atol rtol hm r).stats.solves = r.stats.solves + p.stages ∧
    (rosAttempt o cs s p kc atol rtol hm r).stats.accepted =
      r.stats.accepted + (if (attDecide o cs s p kc atol rtol hm r).1 = .accept then 1 else 0) ∧
    r.stats.rejected ≤ (rosAttempt o cs s p kc atol rtol hm r).stats.rejected ∧
    (rosAttempt o cs s p kc atol rtol hm r).stats.rejected ≤
      r.stats.rejected + (if (attDecide o cs s p kc atol rtol hm r).1 = .reject then 1 else 0) := by
  obtain ⟨h1, h2, h3, h4, h5, h6⟩ := attStages_stats s p kc r
  unfold rosAttempt; simp only []
  split <;> rename_i h <;> simp only [h, reduceCtorEq, if_false, if_true, h1, h2, h3, h4, h5, h6]
  · simp
  · simp
  · simp
  · split <;> split <;> simp


/-! ### frame of the prologue -/

theorem rosPrologue_frame (r : RState α) :
    (rosPrologue o cs s p kc timeStep r).trace = r.trace ∧
    (rosPrologue o cs s p kc timeStep r).Y = r.Y ∧
    (rosPrologue o cs s p kc timeStep r).ctl.t = r.ctl.t ∧
    (rosPrologue o cs s p kc timeStep r).ctl.rejectLast = r.ctl.rejectLast ∧
    (rosPrologue o cs s p kc timeStep r).ctl.rejectMore = r.ctl.rejectMore ∧
    (rosPrologue o cs s p kc timeStep r).stats.decompositions = r.stats.decompositions ∧
    (rosPrologue o cs s p kc timeStep r).stats.numberOfSteps = r.stats.numberOfSteps ∧
    (rosPrologue o cs s p kc timeStep r).stats.solves = r.stats.solves ∧
    (rosPrologue o cs s p kc timeStep r).stats.accepted = r.stats.accepted ∧
    (rosPrologue o cs s p kc timeStep r).stats.rejected = r.stats.rejected := by
  have h := rosPrologue_cases o cs s p kc timeStep r
  generalize rosPrologue o cs s p kc timeStep r = r' at h ⊢
  cases h <;> simp [startStep]

/-- the prologue either keeps the status or sets one of three terminal statuses -/
theorem rosPrologue_status (r : RState α) :
    (rosPrologue o cs s p kc timeStep r).status = r.status ∨
    (r.inStep = false ∧ (rosPrologue o cs s p kc timeStep r).trace = r.trace ∧
      ((rosPrologue o cs s p kc timeStep r).status = .converged ∨
       (rosPrologue o cs s p kc timeStep r).status = .convergenceExceededMaxSteps ∨
       (rosPrologue o cs s p kc timeStep r).status = .stepSizeTooSmall)) := by
  have h := rosPrologue_cases o cs s p kc timeStep r
  generalize rosPrologue o cs s p kc timeStep r = r' at h ⊢
  cases h <;> simp [startStep, *]

/-- an attempt is only ever made inside a step -/
theorem rosPrologue_running_inStep (r : RState α)
    (h : (rosPrologue o cs s p kc timeStep r).status = .running) :
    (rosPrologue o cs s p kc timeStep r).inStep = true := by
  have hc := rosPrologue_cases o cs s p kc timeStep r
  generalize rosPrologue o cs s p kc timeStep r = r' at hc h ⊢
  cases hc <;> simp_all [startStep]

/-! ### induction along `rosLoop` -/

theorem rosLoop_zero (r : RState α) :
    rosLoop o cs s p kc atol rtol timeStep hm 0 r =
      if r.status = .running then { r with status := .outOfFuel } else r := by
  rw [rosLoop, status_beq_running]; by_cases h : r.status = .running <;> simp [h]

theorem rosLoop_succ (fuel : Nat) (r : RState α) :
    rosLoop o cs s p kc atol rtol timeStep hm (fuel + 1) r =
      if r.status = .running
      then rosLoop o cs s p kc atol rtol timeStep hm fuel (rosStep o cs s p kc atol rtol timeStep hm r)
      else r := by
  rw [rosLoop, status_bne_running]; by_cases h : r.status = .running <;> simp [h]

/-- invariants of `rosStep` (from running states) that survive the `outOfFuel` marking hold at the
    end of `rosLoop` -/
theorem rosLoop_inv (P : RState α → Prop)
    (hstep : ∀ r, r.status = .running → P r → P (rosStep o cs s p kc atol rtol timeStep hm r))
    (hout : ∀ r, r.status = .running → P r → P { r with status := .outOfFuel })
    (fuel : Nat) (r : RState α) (h : P r) : P (rosLoop o cs s p kc atol rtol timeStep hm fuel r) := by
  induction fuel generalizing r with
  | zero =>
    rw [rosLoop_zero]; split
    · exact hout r ‹_› h
    · exact h
  | succ n ih =>
    rw [rosLoop_succ]; split
    · exact ih _ (hstep r ‹_› h)
    · exact h

/-- invariants of the prologue and of an attempt are invariants of `rosStep` -/
theorem rosStep_inv (P : RState α → Prop) (r : RState α)
    (hpro : P r → P (rosPrologue o cs s p kc timeStep r))
    (hatt : ∀ r', r'.status = .running → r'.inStep = true → P r' →
      P (rosAttempt o cs s p kc atol rtol hm r'))
    (h : P r) : P (rosStep o cs s p kc atol rtol timeStep hm r) := by
  rw [rosStep_eq]; split
  · exact hatt _ ‹_› (rosPrologue_running_inStep o cs s p kc timeStep r ‹_›) (hpro h)
  · exact hpro h

/-! ### C06: counters -/

/-- the counters agree with the ghost trace -/
def CountInv (r : RState α) : Prop :=
  r.stats.decompositions = r.trace.length ∧ r.stats.numberOfSteps = r.trace.length ∧
  r.stats.solves = p.stages * r.trace.length ∧
  r.stats.accepted = (r.trace.filter (·.accepted)).length ∧
  r.stats.rejected ≤ r.trace.length - r.stats.accepted

theorem CountInv_attempt (r : RState α) (h : CountInv p r) :
    CountInv p (rosAttempt o cs s p kc atol rtol hm r) := by
  obtain ⟨a1, a2, a3, a4, a5, a6⟩ := rosAttempt_stats o cs s p kc atol rtol hm r
  obtain ⟨c1, c2, c3, c4, c5⟩ := h
  have hf : (r.trace.filter (·.accepted)).length ≤ r.trace.length := List.length_filter_le _ _
  unfold CountInv
  rw [rosAttempt_trace, a1, a2, a3, a4]
  simp only [List.length_cons, List.filter_cons, attRecord, decision_beq_accept]
  refine ⟨by omega, by omega, by rw [c3, Nat.mul_add, Nat.mul_one], ?_, ?_⟩
  · by_cases hd : (attDecide o cs s p kc atol rtol hm r).1 = .accept <;> simp [hd, c4]
  · by_cases hd : (attDecide o cs s p kc atol rtol hm r).1 = .accept
    · simp only [hd, reduceCtorEq, if_true, if_false] at a6 ⊢
      omega
    · simp only [hd, if_false] at a6 ⊢
      split at a6 <;> omega

theorem CountInv_prologue (r : RState α) (h : CountInv p r) :
    CountInv p (rosPrologue o cs s p kc timeStep r) := by
  obtain ⟨f1, _, _, _, _, f6, f7, f8, f9, f10⟩ := rosPrologue_frame o cs s p kc timeStep r
  unfold CountInv at h ⊢
  rw [f1, f6, f7, f8, f9, f10]; exact h

theorem CountInv_loop (fuel : Nat) (r : RState α) (h : CountInv p r) :
    CountInv p (rosLoop o cs s p kc atol rtol timeStep hm fuel r) :=
  rosLoop_inv o cs s p kc atol rtol timeStep hm (CountInv p)
    (fun r _ h => rosStep_inv o cs s p kc atol rtol timeStep hm _ r
      (CountInv_prologue o cs s p kc timeStep r) (fun r' _ _ => CountInv_attempt o cs s p kc atol rtol hm r') h)
    (fun _ _ h => h) fuel r h


/-! ### `rosSolve` = initial state, loop, packaging -/

/-- the state in which `rosSolve` enters the loop -/
def rosInit (h : α) (Y : Mat α) (sc : Scratch α) : RState α :=
  { Y, ctl := { t := 0, h, rejectLast := false, rejectMore := false }, stats := {},
    status := .running, inStep := false, lastAlpha := 0, sc, trace := [] }

theorem rosSolve_eq (Y : Mat α) (sc : Scratch α) (fuel : Nat) :
    rosSolve o cs s p kc atol rtol timeStep Y sc fuel =
      let r := rosLoop o cs s p kc atol rtol timeStep (hmaxEff o p timeStep) fuel
                 (rosInit (initialH o cs p timeStep) Y sc)
      { status := r.status, finalTime := r.ctl.t, stats := r.stats, Y := r.Y, sc := r.sc,
        trace := r.trace.reverse } := rfl

/-! ### the trace only grows, by at most one attempt per iteration -/

theorem rosStep_no_attempt (r : RState α)
    (h : (rosPrologue o cs s p kc timeStep r).status ≠ .running) :
    rosStep o cs s p kc atol rtol timeStep hm r = rosPrologue o cs s p kc timeStep r := by
  rw [rosStep_eq, if_neg h]

theorem rosStep_attempt (r : RState α)
    (h : (rosPrologue o cs s p kc timeStep r).status = .running) :
    rosStep o cs s p kc atol rtol timeStep hm r =
      rosAttempt o cs s p kc atol rtol hm (rosPrologue o cs s p kc timeStep r) := by
  rw [rosStep_eq, if_pos h]

/-- an attempt was recorded iff the prologue left the status `running` -/
theorem rosStep_trace (r : RState α) :
    (rosStep o cs s p kc atol rtol timeStep hm r).trace =
      if (rosPrologue o cs s p kc timeStep r).status = .running
      then attRecord o cs s p kc atol rtol hm (rosPrologue o cs s p kc timeStep r) :: r.trace
      else r.trace := by
  rw [rosStep_eq]; split
  · rw [rosAttempt_trace, (rosPrologue_frame o cs s p kc timeStep r).1]
  · exact (rosPrologue_frame o cs s p kc timeStep r).1

theorem rosStep_trace_cons (r : RState α) (att : Attempt α)
    (h : (rosStep o cs s p kc atol rtol timeStep hm r).trace = att :: r.trace) :
    (rosPrologue o cs s p kc timeStep r).status = .running ∧
    att = attRecord o cs s p kc atol rtol hm (rosPrologue o cs s p kc timeStep r) := by
  rw [rosStep_trace] at h
  split at h
  · exact ⟨‹_›, by injection h with h1 _; exact h1.symm⟩
  · exact absurd h.symm (List.cons_ne_self _ _)

/-- the status after an attempt is `running`, `nanDetected` or `infDetected` -/
theorem rosAttempt_status_cases (r : RState α) (hr : r.status = .running) :
    ((rosAttempt o cs s p kc atol rtol hm r).status = .running ∧
      ((attDecide o cs s p kc atol rtol hm r).1 = .accept ∨ (attDecide o cs s p kc atol rtol hm r).1 = .reject)) ∨
    ((rosAttempt o cs s p kc atol rtol hm r).status = .nanDetected ∧
      (attDecide o cs s p kc atol rtol hm r).1 = .nan) ∨
    ((rosAttempt o cs s p kc atol rtol hm r).status = .infDetected ∧
      (attDecide o cs s p kc atol rtol hm r).1 = .inf) := by
  rw [rosAttempt_status]
  cases hd : (attDecide o cs s p kc atol rtol hm r).1 <;> simp [hr]

/-! ### C07: the `h` of an attempt; `max_steps` -/

/-- the step size used by the attempt of this iteration -/
theorem rosStep_att_h (r : RState α) (hr : r.status = .running) (att : Attempt α)
    (h : (rosStep o cs s p kc atol rtol timeStep hm r).trace = att :: r.trace) :
    att.h = if r.inStep then r.ctl.h else cmin o r.ctl.h (o.abs (timeStep - r.ctl.t)) := by
  obtain ⟨hs, rfl⟩ := rosStep_trace_cons o cs s p kc atol rtol timeStep hm r att h
  have hc := rosPrologue_cases o cs s p kc timeStep r
  generalize rosPrologue o cs s p kc timeStep r = r' at hc hs ⊢
  cases hc <;> simp_all [attRecord, startStep]

/-- no new step is started once `numberOfSteps > maxSteps` -/
theorem rosStep_max_steps (r : RState α) (hi : r.inStep = false)
    (ht : o.le (r.ctl.t - timeStep + p.roundOff) 0 = true) (hn : r.stats.numberOfSteps > p.maxSteps) :
    rosStep o cs s p kc atol rtol timeStep hm r = { r with status := .convergenceExceededMaxSteps } := by
  have : rosPrologue o cs s p kc timeStep r = { r with status := .convergenceExceededMaxSteps } := by
    unfold rosPrologue; simp [hi, ht, hn]
  rw [rosStep_no_attempt] <;> simp [this]

/-! ### C06: time, state, outcome -/

/-- the sum of the accepted step sizes of a (newest-first) trace, starting from `t0` -/
def accTime (t0 : α) : List (Attempt α) → α
  | [] => t0
  | a :: tr => if a.accepted then accTime t0 tr + a.h else accTime t0 tr

theorem accTime_eq_foldl (t0 : α) (tr : List (Attempt α)) :
    accTime t0 tr = ((tr.reverse).filter (·.accepted)).foldl (fun t a => t + a.h) t0 := by
  induction tr with
  | nil => rfl
  | cons a tr ih =>
    rw [accTime, List.reverse_cons, List.filter_append, List.foldl_append, ← ih]
    cases ha : a.accepted <;> simp [ha]

theorem time_attempt (t0 : α) (r : RState α) (h : r.ctl.t = accTime t0 r.trace) :
    (rosAttempt o cs s p kc atol rtol hm r).ctl.t =
      accTime t0 (rosAttempt o cs s p kc atol rtol hm r).trace := by
  rw [rosAttempt_trace, rosAttempt_ctl, attDecide, ctlDecide_t, accTime]
  simp only [attRecord, attDecide, decision_beq_accept, decide_eq_true_eq, h]

theorem time_loop (t0 : α) (fuel : Nat) (r : RState α) (h : r.ctl.t = accTime t0 r.trace) :
    (rosLoop o cs s p kc atol rtol timeStep hm fuel r).ctl.t =
      accTime t0 (rosLoop o cs s p kc atol rtol timeStep hm fuel r).trace :=
  rosLoop_inv o cs s p kc atol rtol timeStep hm (fun r => r.ctl.t = accTime t0 r.trace)
    (fun r _ h => rosStep_inv o cs s p kc atol rtol timeStep hm _ r
      (fun h => by
        obtain ⟨f1, _, f3, _⟩ := rosPrologue_frame o cs s p kc timeStep r
        rw [f1, f3]; exact h)
      (fun r' _ _ => time_attempt o cs s p kc atol rtol hm t0 r') h)
    (fun _ _ h => h) fuel r h

/-- `Y` changes only on acceptance (or at the `nan`/`inf` exits, which swap `Y` and `Ynew`) -/
theorem rosStep_Y (r : RState α) :
    (rosStep o cs s p kc atol rtol timeStep hm r).Y = r.Y ∨
    (rosStep o cs s p kc atol rtol timeStep hm r).status = .nanDetected ∨
    (rosStep o cs s p kc atol rtol timeStep hm r).status = .infDetected ∨
    ∃ att, (rosStep o cs s p kc atol rtol timeStep hm r).trace = att :: r.trace ∧ att.accepted = true := by
  obtain ⟨f1, f2, _⟩ := rosPrologue_frame o cs s p kc timeStep r
  by_cases hs : (rosPrologue o cs s p kc timeStep r).status = .running
  · rw [rosStep_trace, if_pos hs, rosStep_attempt _ _ _ _ _ _ _ _ _ _ hs]
    rcases rosAttempt_status_cases o cs s p kc atol rtol hm _ hs with ⟨_, hd | hd⟩ | ⟨h1, _⟩ | ⟨h1, _⟩
    · right; right; right
      exact ⟨_, rfl, by simp only [attRecord, hd]; rfl⟩
    · left; rw [rosAttempt_Y, if_pos hd, f2]
    · right; left; exact h1
    · right; right; left; exact h1
  · left; rw [rosStep_no_attempt _ _ _ _ _ _ _ _ _ _ hs, f2]

/-- `converged` is only ever set by the outer loop test -/
def ConvInv (r : RState α) : Prop :=
  r.status = .converged → o.le (r.ctl.t - timeStep + p.roundOff) 0 = false

theorem ConvInv_step (r : RState α) (hr : r.status = .running) :
    ConvInv o p timeStep (rosStep o cs s p kc atol rtol timeStep hm r) := by
  by_cases hs : (rosPrologue o cs s p kc timeStep r).status = .running
  · intro hc
    rw [rosStep_attempt _ _ _ _ _ _ _ _ _ _ hs] at hc
    rcases rosAttempt_status_cases o cs s p kc atol rtol hm _ hs with ⟨h1, _⟩ | ⟨h1, _⟩ | ⟨h1, _⟩ <;>
      rw [h1] at hc <;> cases hc
  · rw [rosStep_no_attempt _ _ _ _ _ _ _ _ _ _ hs]
    have hc := rosPrologue_cases o cs s p kc timeStep r
    generalize rosPrologue o cs s p kc timeStep r = r' at hc hs ⊢
    cases hc <;> simp_all [ConvInv, startStep]

theorem ConvInv_loop (fuel : Nat) (r : RState α) (h : ConvInv o p timeStep r) :
    ConvInv o p timeStep (rosLoop o cs s p kc atol rtol timeStep hm fuel r) :=
  rosLoop_inv o cs s p kc atol rtol timeStep hm (ConvInv o p timeStep)
    (fun r hr _ => ConvInv_step o cs s p kc atol rtol timeStep hm r hr)
    (fun _ _ _ => by intro hc; cases hc) fuel r h

/-! ### fuel -/

theorem rosLoop_not_running (fuel : Nat) (r : RState α) (h : r.status ≠ .running) :
    rosLoop o cs s p kc atol rtol timeStep hm fuel r = r := by
  cases fuel
  · rw [rosLoop_zero, if_neg h]
  · rw [rosLoop_succ, if_neg h]

theorem rosStep_status_ne_outOfFuel (r : RState α) (hr : r.status = .running) :
    (rosStep o cs s p kc atol rtol timeStep hm r).status ≠ .outOfFuel := by
  by_cases hs : (rosPrologue o cs s p kc timeStep r).status = .running
  · rw [rosStep_attempt _ _ _ _ _ _ _ _ _ _ hs]
    rcases rosAttempt_status_cases o cs s p kc atol rtol hm _ hs with ⟨h1, _⟩ | ⟨h1, _⟩ | ⟨h1, _⟩ <;>
      rw [h1] <;> simp
  · rw [rosStep_no_attempt _ _ _ _ _ _ _ _ _ _ hs]
    rcases rosPrologue_status o cs s p kc timeStep r with h1 | ⟨_, _, h1 | h1 | h1⟩ <;> rw [h1] <;> simp [hr]

/-- an iteration that leaves the status `running` has recorded exactly one attempt -/
theorem rosStep_running_trace (r : RState α)
    (h2 : (rosStep o cs s p kc atol rtol timeStep hm r).status = .running) :
    (rosStep o cs s p kc atol rtol timeStep hm r).trace.length = r.trace.length + 1 := by
  by_cases hs : (rosPrologue o cs s p kc timeStep r).status = .running
  · rw [rosStep_trace, if_pos hs]; rfl
  · rw [rosStep_no_attempt _ _ _ _ _ _ _ _ _ _ hs] at h2; exact absurd h2 hs

/-- `outOfFuel` arises only when every one of the `fuel` iterations recorded an attempt -/
theorem rosLoop_outOfFuel (fuel : Nat) (r : RState α) (hr : r.status ≠ .outOfFuel)
    (h : (rosLoop o cs s p kc atol rtol timeStep hm fuel r).status = .outOfFuel) :
    (rosLoop o cs s p kc atol rtol timeStep hm fuel r).trace.length = r.trace.length + fuel := by
  induction fuel generalizing r with
  | zero =>
    rw [rosLoop_zero] at h ⊢
    split
    · rfl
    · rename_i h1; rw [if_neg h1] at h; exact absurd h hr
  | succ n ih =>
    rw [rosLoop_succ] at h ⊢
    by_cases h1 : r.status = .running
    · rw [if_pos h1] at h ⊢
      have h3 := rosStep_status_ne_outOfFuel o cs s p kc atol rtol timeStep hm r h1
      by_cases h2 : (rosStep o cs s p kc atol rtol timeStep hm r).status = .running
      · rw [ih _ h3 h, rosStep_running_trace o cs s p kc atol rtol timeStep hm r h2]; omega
      · rw [rosLoop_not_running _ _ _ _ _ _ _ _ _ _ _ h2] at h; exact absurd h h3
    · rw [if_neg h1] at h; exact absurd h hr


end Step

/-! ### C05: the stage equations of `stagesGo` -/

section Stages
variable {α : Type} [OfNat α 0] [OfNat α 1] [Add α] [Sub α] [Mul α] [Div α]
variable (s : SolverCfg α) (p : RosParams α) (kc : Mat α)

theorem getD_set_ne {β : Type} (a : Array β) (i j : Nat) (v d : β) (h : i ≠ j) :
    (a.setIfInBounds i v).getD j d = a.getD j d := by
  simp [Array.getD_eq_getD_getElem?, Array.getElem?_setIfInBounds_ne h]

theorem getD_set_eq {β : Type} (a : Array β) (i : Nat) (v d : β) (h : i < a.size) :
    (a.setIfInBounds i v).getD i d = v := by
  simp [Array.getD_eq_getD_getElem?, h]

theorem foldl_congr_mem {β γ : Type} {l : List β} {f g : γ → β → γ}
    (h : ∀ x, ∀ b ∈ l, f x b = g x b) (init : γ) : l.foldl f init = l.foldl g init := by
  induction l generalizing init with
  | nil => rfl
  | cons a l ih =>
    simp only [List.foldl_cons]
    rw [h init a List.mem_cons_self]
    exact ih (fun x b hb => h x b (List.mem_cons_of_mem _ hb)) _

/-- `Y + Σ_{j<i} a_{ij} K_j` with the packed index `i(i−1)/2 + j` -/
def stageY (Y : Mat α) (K : Array (Mat α)) (i : Nat) : Mat α :=
  (List.range i).foldl (fun yn j => axpyM (rd p.a (i * (i - 1) / 2 + j)) (K.getD j #[]) yn) Y

/-- the function value used by stage `i`: the initial forcing for stage 0; for `i > 0` a fresh
    evaluation at `stageY i` when `new_function_evaluation[i]`, else the value of stage `i − 1`.
    (`K0` is the array at entry: `K0[0]` holds the initial forcing, `K0[i]` only gives the shape of
    the zeroed buffer.) -/
def stageForcing (Y : Mat α) (K0 K : Array (Mat α)) : Nat → Mat α
  | 0 => K0.getD 0 #[]
  | i + 1 =>
    if p.newF.getD (i + 1) false
    then s.forcing kc (stageY p Y K (i + 1)) (fillM (K0.getD (i + 1) #[]) 0)
    else stageForcing Y K0 K i

/-- `F + Σ_{j<i} (c_{ij}/h) K_j` with the packed index `i(i−1)/2 + j` -/
def stageRhsOf (h : α) (K : Array (Mat α)) (F : Mat α) (i : Nat) : Mat α :=
  (List.range i).foldl (fun ks j => axpyM (rd p.c (i * (i - 1) / 2 + j) / h) (K.getD j #[]) ks) F

theorem stageRhs_eq (h : α) (stage : Nat) (K : Array (Mat α)) :
    stageRhs p h stage K = stageRhsOf p h K (K.getD stage #[]) stage := rfl

theorem stageY_congr (Y : Mat α) (K K' : Array (Mat α)) (i : Nat)
    (h : ∀ j, j < i → K.getD j #[] = K'.getD j #[]) : stageY p Y K i = stageY p Y K' i := by
  unfold stageY
  apply foldl_congr_mem
  intro x j hj
  rw [h j (List.mem_range.mp hj)]

theorem stageRhsOf_congr (hh : α) (K K' : Array (Mat α)) (F : Mat α) (i : Nat)
    (h : ∀ j, j < i → K.getD j #[] = K'.getD j #[]) : stageRhsOf p hh K F i = stageRhsOf p hh K' F i := by
  unfold stageRhsOf
  apply foldl_congr_mem
  intro x j hj
  rw [h j (List.mem_range.mp hj)]

theorem stageForcing_congr (Y : Mat α) (K0 K K' : Array (Mat α)) (i : Nat)
    (h : ∀ j, j < i → K.getD j #[] = K'.getD j #[]) :
    stageForcing s p kc Y K0 K i = stageForcing s p kc Y K0 K' i := by
  induction i with
  | zero => rfl
  | succ i ih =>
    unfold stageForcing
    rw [stageY_congr p Y K K' (i + 1) (fun j hj => h j (by omega)), ih (fun j hj => h j (by omega))]

/-! facts about the pieces of one stage -/

theorem stagePre_size (Y : Mat α) (stage : Nat) (K : Array (Mat α)) (ynew : Mat α) (st : Stats) :
    (stagePre s p kc Y stage K ynew st).1.size = K.size := by
  unfold stagePre; split
  · rfl
  · split <;> simp

theorem stagePre_getD_ne (Y : Mat α) (stage : Nat) (K : Array (Mat α)) (ynew : Mat α) (st : Stats)
    (j : Nat) (h : stage ≠ j) : (stagePre s p kc Y stage K ynew st).1.getD j #[] = K.getD j #[] := by
  unfold stagePre; split
  · rfl
  · split
    · exact getD_set_ne _ _ _ _ _ h
    · rfl

theorem stagePre_getD_stage (Y : Mat α) (stage : Nat) (K : Array (Mat α)) (ynew : Mat α) (st : Stats)
    (hs : stage < K.size) :
    (stagePre s p kc Y stage K ynew st).1.getD stage #[] =
      if stage = 0 then K.getD stage #[]
      else if p.newF.getD stage false then s.forcing kc (stageY p Y K stage) (fillM (K.getD stage #[]) 0)
      else K.getD stage #[] := by
  unfold stagePre; split
  · rfl
  · split
    · exact getD_set_eq _ _ _ _ hs
    · rfl

theorem stageCopy_size (stage : Nat) (K : Array (Mat α)) : (stageCopy p stage K).size = K.size := by
  unfold stageCopy; split <;> simp

theorem stageCopy_getD_ne (stage : Nat) (K : Array (Mat α)) (j : Nat) (h : stage + 1 ≠ j) :
    (stageCopy p stage K).getD j #[] = K.getD j #[] := by
  unfold stageCopy; split
  · exact getD_set_ne _ _ _ _ _ h
  · rfl

theorem stageCopy_getD_succ (stage : Nat) (K : Array (Mat α)) (hs : stage + 1 < p.stages)
    (hk : stage + 1 < K.size) :
    (stageCopy p stage K).getD (stage + 1) #[] =
      if p.newF.getD (stage + 1) false then K.getD (stage + 1) #[] else K.getD stage #[] := by
  unfold stageCopy
  cases hn : p.newF.getD (stage + 1) false
  · simp only [hs, decide_true, Bool.not_false, Bool.and_self, if_true, Bool.false_eq_true, if_false]
    exact getD_set_eq _ _ _ _ hk
  · simp

/-- entries below the current stage are never modified again -/
theorem stagesGo_K_lt (Y J Lo Up : Mat α) (h : α) (n stage : Nat) (K : Array (Mat α)) (ynew : Mat α)
    (st : Stats) (j : Nat) (hj : j < stage) :
    (stagesGo s p kc Y J Lo Up h n stage K ynew st).1.getD j #[] = K.getD j #[] := by
  induction n generalizing stage K ynew st with
  | zero => rfl
  | succ n ih =>
    rw [stagesGo_succ, ih _ _ _ _ (by omega), getD_set_ne _ _ _ _ _ (by omega),
      stageCopy_getD_ne _ _ _ _ (by omega), stagePre_getD_ne _ _ _ _ _ _ _ _ _ (by omega)]

theorem stagesGo_K_size (Y J Lo Up : Mat α) (h : α) (n stage : Nat) (K : Array (Mat α)) (ynew : Mat α)
    (st : Stats) : (stagesGo s p kc Y J Lo Up h n stage K ynew st).1.size = K.size := by
  induction n generalizing stage K ynew st with
  | zero => rfl
  | succ n ih => rw [stagesGo_succ, ih, Array.size_setIfInBounds, stageCopy_size, stagePre_size]

/-- entry condition of stage `stage`: what `K[stage]` holds -/
def StageEntry (Y : Mat α) (K0 K : Array (Mat α)) (stage : Nat) : Prop :=
  K.getD stage #[] =
    if stage = 0 ∨ p.newF.getD stage false = true then K0.getD stage #[]
    else stageForcing s p kc Y K0 K (stage - 1)

theorem stagePre_is_forcing (Y : Mat α) (K0 K : Array (Mat α)) (stage : Nat) (ynew : Mat α) (st : Stats)
    (hs : stage < K.size) (he : StageEntry s p kc Y K0 K stage) :
    (stagePre s p kc Y stage K ynew st).1.getD stage #[] = stageForcing s p kc Y K0 K stage := by
  rw [stagePre_getD_stage s p kc Y stage K ynew st hs]
  unfold StageEntry at he
  cases stage with
  | zero => simpa [stageForcing] using he
  | succ m =>
    simp only [Nat.add_eq_zero_iff, one_ne_zero, and_false, false_or, if_false] at he ⊢
    unfold stageForcing
    cases hn : p.newF.getD (m + 1) false
    · simpa [hn] using he
    · simp only [hn, if_true] at he ⊢
      rw [he]

/-- **stage equations**, generalized over the starting stage -/
theorem stagesGo_spec (Y J Lo Up : Mat α) (h : α) (K0 : Array (Mat α)) (hK0 : p.stages ≤ K0.size)
    (n stage : Nat) (K : Array (Mat α)) (ynew : Mat α) (st : Stats)
    (hsum : stage + n = p.stages) (hsz : K.size = K0.size)
    (hgt : ∀ j, stage < j → K.getD j #[] = K0.getD j #[])
    (hent : 0 < n → StageEntry s p kc Y K0 K stage)
    (i : Nat) (h1 : stage ≤ i) (h2 : i < p.stages) :
    (stagesGo s p kc Y J Lo Up h n stage K ynew st).1.getD i #[] =
      s.linSolve J Lo Up
        (stageRhsOf p h (stagesGo s p kc Y J Lo Up h n stage K ynew st).1
          (stageForcing s p kc Y K0 (stagesGo s p kc Y J Lo Up h n stage K ynew st).1 i) i) := by
  induction n generalizing stage K ynew st with
  | zero => omega
  | succ n ih =>
    have hent := hent (by omega)
    have hs : stage < K.size := by omega
    -- names for the pieces
    generalize hpre : stagePre s p kc Y stage K ynew st = pre at *
    have hpre_ne : ∀ j, stage ≠ j → pre.1.getD j #[] = K.getD j #[] := fun j hj => by
      rw [← hpre]; exact stagePre_getD_ne s p kc Y stage K ynew st j hj
    have hpre_st : pre.1.getD stage #[] = stageForcing s p kc Y K0 K stage := by
      rw [← hpre]; exact stagePre_is_forcing s p kc Y K0 K stage ynew st hs hent
    have hpre_sz : pre.1.size = K.size := by rw [← hpre]; exact stagePre_size s p kc Y stage K ynew st
    rw [stagesGo_succ, hpre]
    generalize hK1 : (stageCopy p stage pre.1).setIfInBounds stage
      (s.linSolve J Lo Up (stageRhs p h stage (stageCopy p stage pre.1))) = K1
    have hK1_lt : ∀ j, j < stage → K1.getD j #[] = K.getD j #[] := fun j hj => by
      rw [← hK1, getD_set_ne _ _ _ _ _ (by omega), stageCopy_getD_ne _ _ _ _ (by omega), hpre_ne j (by omega)]
    have hK1_sz : K1.size = K0.size := by
      rw [← hK1, Array.size_setIfInBounds, stageCopy_size, hpre_sz, hsz]
    rcases Nat.eq_or_lt_of_le h1 with h1 | h1
    · -- i = stage
      subst h1
      have hf_lt : ∀ j, j < stage →
          (stagesGo s p kc Y J Lo Up h n (stage + 1) K1 pre.2.1
            { pre.2.2 with solves := pre.2.2.solves + 1 }).1.getD j #[] = K.getD j #[] := fun j hj => by
        rw [stagesGo_K_lt _ _ _ _ _ _ _ _ _ _ _ _ _ j (by omega), hK1_lt j hj]
      have hf_st : (stagesGo s p kc Y J Lo Up h n (stage + 1) K1 pre.2.1
            { pre.2.2 with solves := pre.2.2.solves + 1 }).1.getD stage #[] = K1.getD stage #[] :=
        stagesGo_K_lt _ _ _ _ _ _ _ _ _ _ _ _ _ stage (by omega)
      generalize (stagesGo s p kc Y J Lo Up h n (stage + 1) K1 pre.2.1
            { pre.2.2 with solves := pre.2.2.solves + 1 }).1 = Kf at hf_lt hf_st ⊢
      have e1 : K1.getD stage #[] =
          s.linSolve J Lo Up (stageRhs p h stage (stageCopy p stage pre.1)) := by
        rw [← hK1]; exact getD_set_eq _ _ _ _ (by rw [stageCopy_size, hpre_sz]; exact hs)
      have e2 : stageRhs p h stage (stageCopy p stage pre.1) =
          stageRhsOf p h Kf (stageForcing s p kc Y K0 Kf stage) stage := by
        rw [stageRhs_eq, stageCopy_getD_ne _ _ _ _ (by omega), hpre_st,
          stageForcing_congr s p kc Y K0 Kf K stage hf_lt]
        apply stageRhsOf_congr
        intro j hj
        rw [hf_lt j hj, stageCopy_getD_ne _ _ _ _ (by omega), hpre_ne j (by omega)]
      rw [hf_st, e1, e2]
    · -- i > stage : induction hypothesis
      apply ih (stage + 1) K1 pre.2.1 _ (by omega) hK1_sz
      · intro j hj
        rw [← hK1, getD_set_ne _ _ _ _ _ (by omega), stageCopy_getD_ne _ _ _ _ (by omega),
          hpre_ne j (by omega), hgt j (by omega)]
      · intro hn
        unfold StageEntry
        simp only [Nat.add_eq_zero_iff, one_ne_zero, and_false, false_or, Nat.add_sub_cancel]
        rw [← hK1, getD_set_ne _ _ _ _ _ (by omega),
          stageCopy_getD_succ p stage pre.1 (by omega) (by omega), hK1]
        cases hnf : p.newF.getD (stage + 1) false
        · simp only [Bool.false_eq_true, if_false]
          rw [hpre_st]
          exact stageForcing_congr s p kc Y K0 K K1 stage (fun j hj => (hK1_lt j hj).symm)
        · simp only [if_true]
          rw [hpre_ne _ (by omega), hgt _ (by omega)]
      · omega

/-- **stage equations** of one attempt: with `Kf` the final stage vectors, for every stage `i`
    `Kf[i] = linSolve (F_i + Σ_{j<i} (c_{ij}/h) Kf[j])`, `F_i = stageForcing … i` -/
theorem stagesGo_equations (Y J Lo Up : Mat α) (h : α) (K0 : Array (Mat α)) (hK0 : p.stages ≤ K0.size)
    (ynew : Mat α) (st : Stats) (i : Nat) (hi : i < p.stages) :
    (stagesGo s p kc Y J Lo Up h p.stages 0 K0 ynew st).1.getD i #[] =
      s.linSolve J Lo Up
        (stageRhsOf p h (stagesGo s p kc Y J Lo Up h p.stages 0 K0 ynew st).1
          (stageForcing s p kc Y K0 (stagesGo s p kc Y J Lo Up h p.stages 0 K0 ynew st).1 i) i) :=
  stagesGo_spec s p kc Y J Lo Up h K0 hK0 p.stages 0 K0 ynew st (by omega) rfl (fun _ _ => rfl)
    (fun _ => by simp [StageEntry]) i (Nat.zero_le _) hi

/-! entry-wise reading of the `Axpy` folds -/

theorem axpyRow_size (a : α) (x y : Array α) : (axpyRow a x y).size = y.size := by
  simp [axpyRow]

theorem rd_axpyRow (a : α) (x y : Array α) (v : Nat) (hv : v < y.size) :
    rd (axpyRow a x y) v = rd y v + a * rd x v := by
  simp [axpyRow, rd, Array.getD, hv]

theorem axpyM_size (a : α) (x y : Mat α) : (axpyM a x y).size = y.size := by
  simp [axpyM]

theorem axpyM_getD (a : α) (x y : Mat α) (c : Nat) (hc : c < y.size) :
    (axpyM a x y).getD c #[] = axpyRow a (x.getD c #[]) (y.getD c #[]) := by
  simp [axpyM, Array.getD, hc]

/-- `(F + Σ_{j∈l} coef_j · X_j)[c][v]`, summed left to right exactly as the code does (any carrier) -/
theorem rd_axpy_fold (coef : Nat → α) (X : Nat → Mat α) (l : List Nat) (F : Mat α) (c v : Nat)
    (hc : c < F.size) (hv : v < (F.getD c #[]).size) :
    rd ((l.foldl (fun ks j => axpyM (coef j) (X j) ks) F).getD c #[]) v =
      l.foldl (fun acc j => acc + coef j * rd ((X j).getD c #[]) v) (rd (F.getD c #[]) v) := by
  induction l generalizing F with
  | nil => rfl
  | cons j l ih =>
    simp only [List.foldl_cons]
    have h1 : (axpyM (coef j) (X j) F).getD c #[] = axpyRow (coef j) ((X j).getD c #[]) (F.getD c #[]) :=
      axpyM_getD _ _ _ _ hc
    rw [ih (axpyM (coef j) (X j) F) (by rw [axpyM_size]; exact hc) (by rw [h1, axpyRow_size]; exact hv),
      h1, rd_axpyRow _ _ _ _ hv]

end Stages

section StagesAttempt
variable {α : Type} [OfNat α 0] [OfNat α 1] [Add α] [Sub α] [Mul α] [Div α]
variable (o : Ops α) (cs : Consts α) (s : SolverCfg α) (p : RosParams α) (kc : Mat α)
    (atol : Array α) (rtol : α) (timeStep hm : α)

theorem rosAttempt_k (r : RState α) :
    (rosAttempt o cs s p kc atol rtol hm r).sc.k = (attStages s p kc r).1 := by
  unfold rosAttempt; simp only []
  split <;> try rfl
  split <;> rfl

theorem rosAttempt_yerr (r : RState α) :
    (rosAttempt o cs s p kc atol rtol hm r).sc.yerr = attYerr s p kc r := by
  unfold rosAttempt; simp only []
  split <;> try rfl
  split <;> rfl

theorem rosAttempt_f0 (r : RState α) :
    (rosAttempt o cs s p kc atol rtol hm r).sc.f0 = r.sc.f0 := by
  unfold rosAttempt; simp only []
  split <;> try rfl
  split <;> rfl

/-- the prologue touches only `f0` and `jac` of the scratch -/
theorem rosPrologue_frame_sc (r : RState α) :
    (rosPrologue o cs s p kc timeStep r).sc.k = r.sc.k ∧
    (rosPrologue o cs s p kc timeStep r).sc.lower = r.sc.lower ∧
    (rosPrologue o cs s p kc timeStep r).sc.upper = r.sc.upper ∧
    (rosPrologue o cs s p kc timeStep r).sc.ynew = r.sc.ynew ∧
    (rosPrologue o cs s p kc timeStep r).sc.yerr = r.sc.yerr := by
  have h := rosPrologue_cases o cs s p kc timeStep r
  generalize rosPrologue o cs s p kc timeStep r = r' at h ⊢
  cases h <;> simp [startStep]

/-- the stage equations for the stage vectors left in the scratch by one attempt -/
theorem rosAttempt_stage_equations (r : RState α) (hk : p.stages ≤ r.sc.k.size) (i : Nat)
    (hi : i < p.stages) :
    (rosAttempt o cs s p kc atol rtol hm r).sc.k.getD i #[] =
      s.linSolve (attFactor s p r).1 (attFactor s p r).2.1 (attFactor s p r).2.2
        (stageRhsOf p r.ctl.h (rosAttempt o cs s p kc atol rtol hm r).sc.k
          (stageForcing s p kc r.Y (r.sc.k.setIfInBounds 0 r.sc.f0)
            (rosAttempt o cs s p kc atol rtol hm r).sc.k i) i) := by
  rw [rosAttempt_k]
  unfold attStages
  exact stagesGo_equations s p kc r.Y _ _ _ r.ctl.h _ (by simpa using hk) _ _ i hi

/-- while inside a step, `initial_forcing` is the forcing at the current `Y` -/
def F0Inv (r : RState α) : Prop :=
  r.status = .running → r.inStep = true → ∃ B, r.sc.f0 = s.forcing kc r.Y (fillM B 0)

theorem F0Inv_prologue (r : RState α) (h : F0Inv s kc r) :
    F0Inv s kc (rosPrologue o cs s p kc timeStep r) := by
  have hc := rosPrologue_cases o cs s p kc timeStep r
  generalize rosPrologue o cs s p kc timeStep r = r' at hc ⊢
  cases hc with
  | inStep _ => exact h
  | converged => intro h1; cases h1
  | maxSteps => intro h1; cases h1
  | tooSmall => intro h1; cases h1
  | start => intro _ _; exact ⟨r.sc.f0, rfl⟩

theorem F0Inv_attempt (r : RState α) (hr : r.status = .running) (h : F0Inv s kc r) :
    F0Inv s kc (rosAttempt o cs s p kc atol rtol hm r) := by
  intro h1 h2
  rw [rosAttempt_inStep] at h2
  rcases rosAttempt_status_cases o cs s p kc atol rtol hm r hr with ⟨_, hd | hd⟩ | ⟨h3, _⟩ | ⟨h3, _⟩
  · simp [hd] at h2
  · simp only [hd, reduceCtorEq, if_false] at h2
    obtain ⟨B, hB⟩ := h hr h2
    exact ⟨B, by rw [rosAttempt_f0, rosAttempt_Y, if_pos hd, hB]⟩
  · rw [h3] at h1; cases h1
  · rw [h3] at h1; cases h1

theorem F0Inv_step (r : RState α) (h : F0Inv s kc r) :
    F0Inv s kc (rosStep o cs s p kc atol rtol timeStep hm r) :=
  rosStep_inv o cs s p kc atol rtol timeStep hm (F0Inv s kc) r (F0Inv_prologue o cs s p kc timeStep r)
    (fun r' h1 _ => F0Inv_attempt o cs s p kc atol rtol hm r' h1) h

end StagesAttempt

/-! ### C06: more loop-level facts -/

section More
variable {α : Type} [OfNat α 0] [OfNat α 1] [Add α] [Sub α] [Mul α] [Div α]
variable (o : Ops α) (cs : Consts α) (s : SolverCfg α) (p : RosParams α) (kc : Mat α)
    (atol : Array α) (rtol : α) (timeStep hm : α)

/-- the trace of one iteration extends the old one -/
theorem rosStep_trace_sub (r : RState α) (a : Attempt α) (h : a ∈ r.trace) :
    a ∈ (rosStep o cs s p kc atol rtol timeStep hm r).trace := by
  rw [rosStep_trace]; split
  · exact List.mem_cons_of_mem _ h
  · exact h

/-- as long as no attempt was accepted (and the run did not end at a nan/inf exit) `Y` is the initial one -/
def NoAccInv (Y0 : Mat α) (r : RState α) : Prop :=
  r.status ≠ .nanDetected → r.status ≠ .infDetected → (∀ a ∈ r.trace, a.accepted = false) → r.Y = Y0

theorem NoAccInv_step (Y0 : Mat α) (r : RState α) (hr : r.status = .running) (h : NoAccInv Y0 r) :
    NoAccInv Y0 (rosStep o cs s p kc atol rtol timeStep hm r) := by
  intro h1 h2 h3
  have h0 : r.Y = Y0 := h (by rw [hr]; simp) (by rw [hr]; simp)
    (fun a ha => h3 a (rosStep_trace_sub o cs s p kc atol rtol timeStep hm r a ha))
  rcases rosStep_Y o cs s p kc atol rtol timeStep hm r with hY | hn | hi | ⟨att, ht, ha⟩
  · rw [hY, h0]
  · exact absurd hn h1
  · exact absurd hi h2
  · have := h3 att (by rw [ht]; exact List.mem_cons_self)
    rw [ha] at this; cases this

theorem NoAccInv_loop (Y0 : Mat α) (fuel : Nat) (r : RState α) (h : NoAccInv Y0 r) :
    NoAccInv Y0 (rosLoop o cs s p kc atol rtol timeStep hm fuel r) :=
  rosLoop_inv o cs s p kc atol rtol timeStep hm (NoAccInv Y0)
    (fun r hr h => NoAccInv_step o cs s p kc atol rtol timeStep hm Y0 r hr h)
    (fun r hr h => fun _ _ h3 => h (by rw [hr]; simp) (by rw [hr]; simp) h3) fuel r h

/-- a time step below round-off: the very first loop test fails, nothing is attempted -/
theorem rosLoop_no_progress (fuel : Nat) (r : RState α) (hr : r.status = .running) (hi : r.inStep = false)
    (ht : o.le (r.ctl.t - timeStep + p.roundOff) 0 = false) :
    rosLoop o cs s p kc atol rtol timeStep hm (fuel + 1) r = { r with status := .converged } := by
  have hp : rosPrologue o cs s p kc timeStep r = { r with status := .converged } := by
    unfold rosPrologue; simp [hi, ht]
  rw [rosLoop_succ, if_pos hr, rosStep_no_attempt, hp, rosLoop_not_running] <;> simp [hp]

end More

/-! ### C05: the diagonal shift -/

section Ext
variable {α : Type} [OfNat α 0]
theorem arr_ext_rd {A B : Array α} (hs : A.size = B.size) (h : ∀ j, j < A.size → rd A j = rd B j) :
    A = B := by
  apply Array.ext hs
  intro j h1 h2
  have := h j h1
  simpa [rd, Array.getD, h1, h2] using this
end Ext

section Shift
variable {K : Type} [Field K]

/-- `Jr[i] += a` -/
def bumpRow (Jr : Array K) (i : Nat) (a : K) : Array K := wr Jr i (rd Jr i + a)

/-- the shift of one cell: `Jr[i] += a` for every `i` of the diagonal list -/
def shiftRow (d : List Nat) (Jr : Array K) (a : K) : Array K := d.foldl (fun Jr i => bumpRow Jr i a) Jr

theorem alphaMinusJacobian_eq (s : SolverCfg K) (J : Mat K) (a : K) :
    s.alphaMinusJacobian J a = J.map fun Jr => shiftRow s.diag Jr a := rfl

@[simp] theorem bumpRow_size (Jr : Array K) (i : Nat) (a : K) : (bumpRow Jr i a).size = Jr.size := by
  simp [bumpRow]

theorem rd_bumpRow (Jr : Array K) (i j : Nat) (a : K) :
    rd (bumpRow Jr i a) j = if i = j ∧ i < Jr.size then rd Jr i + a else rd Jr j := by
  simp [bumpRow, rd_wr]

theorem bumpRow_comm (Jr : Array K) (i j : Nat) (a b : K) :
    bumpRow (bumpRow Jr i a) j b = bumpRow (bumpRow Jr j b) i a := by
  apply arr_ext_rd (by simp)
  intro k _
  simp only [rd_bumpRow, bumpRow_size]
  by_cases hij : i = j
  · subst hij
    by_cases hk : i = k
    · subst hk
      by_cases hs : i < Jr.size <;> simp [hs, add_right_comm]
    · simp [hk]
  · have hji : ¬ j = i := fun h => hij h.symm
    by_cases hk : i = k
    · subst hk; simp [hji]
    · by_cases hk' : j = k
      · subst hk'; simp [hij]
      · simp [hk, hk']

theorem bumpRow_bumpRow (Jr : Array K) (i : Nat) (a b : K) :
    bumpRow (bumpRow Jr i a) i b = bumpRow Jr i (a + b) := by
  apply arr_ext_rd (by simp)
  intro k _
  simp only [rd_bumpRow, bumpRow_size]
  by_cases hk : i = k
  · subst hk
    by_cases hs : i < Jr.size <;> simp [hs, add_assoc]
  · simp [hk]

theorem bumpRow_zero (Jr : Array K) (i : Nat) : bumpRow Jr i 0 = Jr := by
  apply arr_ext_rd (by simp)
  intro k _
  simp only [rd_bumpRow]
  by_cases hk : i = k
  · subst hk; simp
  · simp [hk]

theorem shiftRow_cons (i : Nat) (d : List Nat) (Jr : Array K) (a : K) :
    shiftRow (i :: d) Jr a = shiftRow d (bumpRow Jr i a) a := rfl

theorem shiftRow_bumpRow (d : List Nat) (Jr : Array K) (i : Nat) (a b : K) :
    shiftRow d (bumpRow Jr i b) a = bumpRow (shiftRow d Jr a) i b := by
  induction d generalizing Jr with
  | nil => rfl
  | cons j d ih => rw [shiftRow_cons, shiftRow_cons, bumpRow_comm, ih]

/-- two successive shifts of one cell add up — for every diagonal list (no `Nodup`, no range
    assumption: out-of-range writes are dropped both times, duplicates shift twice both times) -/
theorem shiftRow_shiftRow (d : List Nat) (Jr : Array K) (a b : K) :
    shiftRow d (shiftRow d Jr a) b = shiftRow d Jr (a + b) := by
  induction d generalizing Jr with
  | nil => rfl
  | cons i d ih =>
    rw [shiftRow_cons, shiftRow_cons, shiftRow_cons, ← shiftRow_bumpRow, bumpRow_bumpRow, ih]

theorem shiftRow_zero (d : List Nat) (Jr : Array K) : shiftRow d Jr 0 = Jr := by
  induction d generalizing Jr with
  | nil => rfl
  | cons i d ih => rw [shiftRow_cons, bumpRow_zero, ih]

/-- **the exact shift semantics**: shifting by `a` and then by `b` is shifting by `a + b` -/
theorem alphaMinusJacobian_add (s : SolverCfg K) (J : Mat K) (a b : K) :
    s.alphaMinusJacobian (s.alphaMinusJacobian J a) b = s.alphaMinusJacobian J (a + b) := by
  simp only [alphaMinusJacobian_eq, Array.map_map]
  congr 1; funext Jr
  exact shiftRow_shiftRow _ _ _ _

theorem alphaMinusJacobian_zero (s : SolverCfg K) (J : Mat K) : s.alphaMinusJacobian J 0 = J := by
  simp only [alphaMinusJacobian_eq, shiftRow_zero]
  simp

theorem shiftRow_size (d : List Nat) (Jr : Array K) (a : K) : (shiftRow d Jr a).size = Jr.size := by
  induction d generalizing Jr with
  | nil => rfl
  | cons i d ih => rw [shiftRow_cons, ih, bumpRow_size]

/-- entry-wise meaning of the shift for a duplicate-free diagonal list: the diagonal ranks (in
    range) get `+ a`, every other rank is unchanged -/
theorem rd_shiftRow (d : List Nat) (hd : d.Nodup) (Jr : Array K) (a : K) (j : Nat) :
    rd (shiftRow d Jr a) j = if j ∈ d ∧ j < Jr.size then rd Jr j + a else rd Jr j := by
  induction d generalizing Jr with
  | nil => simp [shiftRow]
  | cons i d ih =>
    obtain ⟨hi, hd'⟩ := List.nodup_cons.mp hd
    rw [shiftRow_cons, ih hd', bumpRow_size, rd_bumpRow]
    by_cases hij : i = j
    · subst hij
      by_cases hs : i < Jr.size <;> simp [hi, hs]
    · have : ¬ j = i := fun h => hij h.symm
      simp [hij, this]

/-- the non-in-place factorisations leave the Jacobian untouched -/
theorem factor_fst_of_not_inPlace (s : SolverCfg K) (h : s.la.kind.inPlace = false) (J Lo Up : Mat K) :
    (s.factor J Lo Up).1 = J := by
  unfold SolverCfg.factor
  cases hk : s.la.kind <;> simp_all [LUKind.inPlace]

end Shift
/-! ### C05: the invariant of the retry loop -/

section C05
variable {K : Type} [Field K]
variable (o : Ops K) (cs : Consts K) (s : SolverCfg K) (p : RosParams K) (kc : Mat K)
    (atol : Array K) (rtol : K) (timeStep hm : K)

/-- the (negative) Jacobian assembled at `Y` into a zeroed buffer of the shape of `B` -/
def jac0 (Y B : Mat K) : Mat K := s.jacobian kc Y (fillM B 0)

/-- what `state.jacobian_` holds between the attempts of one step: for the separate-L/U variants the
    Jacobian of the step shifted by the total shift `lastAlpha` applied so far, for the in-place
    variants the freshly regenerated Jacobian -/
def JacHolds (r : RState K) (B : Mat K) : Prop :=
  r.sc.jac = if s.la.kind.inPlace then jac0 s kc r.Y B
             else s.alphaMinusJacobian (jac0 s kc r.Y B) r.lastAlpha

def ShiftInv (r : RState K) : Prop :=
  r.status = .running → r.inStep = true → ∃ B, JacHolds s kc r B

/-- the matrix handed to `Factor` is `J0` shifted by exactly `1/(h γ)`, whatever was applied before -/
theorem attMatrix_of_JacHolds (r : RState K) (B : Mat K) (hj : JacHolds s kc r B) :
    attMatrix s p r = s.alphaMinusJacobian (jac0 s kc r.Y B) (1 / (r.ctl.h * p.gamma0)) := by
  unfold JacHolds at hj
  unfold attMatrix attAlpha attAlpha0
  rw [hj]
  cases hip : s.la.kind.inPlace
  · simp only [Bool.false_eq_true, if_false]
    rw [alphaMinusJacobian_add, add_sub_cancel]
  · simp only [if_true]

theorem JacHolds_startStep (r : RState K) :
    JacHolds s kc (startStep o s kc timeStep r) r.sc.jac := by
  unfold JacHolds startStep jac0
  cases hip : s.la.kind.inPlace
  · simp only [Bool.false_eq_true, if_false]; rw [alphaMinusJacobian_zero]
  · simp only [if_true]

theorem ShiftInv_prologue (r : RState K) (h : ShiftInv s kc r) :
    ShiftInv s kc (rosPrologue o cs s p kc timeStep r) := by
  have hc := rosPrologue_cases o cs s p kc timeStep r
  generalize rosPrologue o cs s p kc timeStep r = r' at hc ⊢
  cases hc with
  | inStep _ => exact h
  | converged => intro h1; cases h1
  | maxSteps => intro h1; cases h1
  | tooSmall => intro h1; cases h1
  | start => intro _ _; exact ⟨_, JacHolds_startStep o s kc timeStep r⟩

theorem ShiftInv_attempt (r : RState K) (hr : r.status = .running) (h : ShiftInv s kc r) :
    ShiftInv s kc (rosAttempt o cs s p kc atol rtol hm r) := by
  intro h1 h2
  rw [rosAttempt_inStep] at h2
  rcases rosAttempt_status_cases o cs s p kc atol rtol hm r hr with ⟨_, hd | hd⟩ | ⟨h3, _⟩ | ⟨h3, _⟩
  · simp [hd] at h2
  · simp only [hd, reduceCtorEq, if_false] at h2
    obtain ⟨B, hB⟩ := h hr h2
    have hm := attMatrix_of_JacHolds s p kc r B hB
    unfold JacHolds at hB ⊢
    rw [rosAttempt_jac, rosAttempt_Y, rosAttempt_lastAlpha, if_pos hd]
    cases hip : s.la.kind.inPlace
    · refine ⟨B, ?_⟩
      simp only [hd, Bool.false_eq_true, and_false, if_false]
      unfold attFactor
      rw [factor_fst_of_not_inPlace s hip, hm]
      simp [attLastAlpha, hip, attAlpha0]
    · exact ⟨(attFactor s p r).1, by simp [hd, jac0]⟩
  · rw [h3] at h1; cases h1
  · rw [h3] at h1; cases h1

/-- an attempt's matrix is a genuine `(1/(hγ))·I − J(Y)` for the recorded `h` -/
def Genuine (att : Attempt K) : Prop :=
  ∃ Y B, att.matrix = s.alphaMinusJacobian (jac0 s kc Y B) (1 / (att.h * p.gamma0))

/-- one iteration, precise form: the matrix of the recorded attempt is the Jacobian at the *current*
    solution `r.Y`, shifted by `1/(h γ)`; when the iteration starts a new step the buffer is `r.sc.jac` -/
theorem C05_step (r : RState K) (hr : r.status = .running) (hinv : ShiftInv s kc r) (att : Attempt K)
    (h : (rosStep o cs s p kc atol rtol timeStep hm r).trace = att :: r.trace) :
    ∃ B, att.matrix = s.alphaMinusJacobian (s.jacobian kc r.Y (fillM B 0)) (1 / (att.h * p.gamma0)) ∧
         (r.inStep = false → B = r.sc.jac) := by
  obtain ⟨hs, rfl⟩ := rosStep_trace_cons o cs s p kc atol rtol timeStep hm r att h
  have hc := rosPrologue_cases o cs s p kc timeStep r
  generalize rosPrologue o cs s p kc timeStep r = r' at hc hs ⊢
  cases hc with
  | inStep hi =>
    obtain ⟨B, hB⟩ := hinv hr hi
    exact ⟨B, attMatrix_of_JacHolds s p kc r B hB, by simp [hi]⟩
  | converged => cases hs
  | maxSteps => cases hs
  | tooSmall => cases hs
  | start =>
    exact ⟨r.sc.jac, attMatrix_of_JacHolds s p kc _ _ (JacHolds_startStep o s kc timeStep r), fun _ => rfl⟩

/-- invariant for the whole trace -/
def C05Inv (r : RState K) : Prop := ShiftInv s kc r ∧ ∀ att ∈ r.trace, Genuine s p kc att

theorem C05Inv_step (r : RState K) (hr : r.status = .running) (h : C05Inv s p kc r) :
    C05Inv s p kc (rosStep o cs s p kc atol rtol timeStep hm r) := by
  refine ⟨?_, ?_⟩
  · exact rosStep_inv o cs s p kc atol rtol timeStep hm (ShiftInv s kc) r
      (ShiftInv_prologue o cs s p kc timeStep r)
      (fun r' h1 _ => ShiftInv_attempt o cs s p kc atol rtol hm r' h1) h.1
  · intro att hatt
    rw [rosStep_trace] at hatt
    split at hatt
    · rcases List.mem_cons.mp hatt with h1 | h1
      · have h2 : (rosStep o cs s p kc atol rtol timeStep hm r).trace = att :: r.trace := by
          rw [rosStep_trace, if_pos ‹_›, h1]
        obtain ⟨B, hB, _⟩ := C05_step o cs s p kc atol rtol timeStep hm r hr h.1 att h2
        exact ⟨r.Y, B, hB⟩
      · exact h.2 att h1
    · exact h.2 att hatt

theorem C05Inv_loop (fuel : Nat) (r : RState K) (h : C05Inv s p kc r) :
    C05Inv s p kc (rosLoop o cs s p kc atol rtol timeStep hm fuel r) :=
  rosLoop_inv o cs s p kc atol rtol timeStep hm (C05Inv s p kc)
    (fun r hr h => C05Inv_step o cs s p kc atol rtol timeStep hm r hr h)
    (fun _ _ h => ⟨fun h1 => (by cases h1), h.2⟩) fuel r h

theorem C05Inv_init (h : K) (Y : Mat K) (sc : Scratch K) : C05Inv s p kc (rosInit h Y sc) :=
  ⟨fun _ h2 => (by cases h2), fun _ h => (by cases h)⟩

end C05
/-! ### a concrete instance over `ℚ` used by the `example`s of C05/C06/C07 -/

namespace Ex

/-- one species `A`, one reaction `A → ∅` -/
def tables : PSTables ℚ :=
  { nReact := [1], reactIds := [0], nProd := [0], jInfo := [⟨0, 0, 0, 0⟩] }

def cfg (kind : LUKind) : SolverCfg ℚ :=
  { nSpecies := 1, L := 0, tables := tables, flatIds := [0],
    la := LinAlg.build kind (Pattern.mk' 1 false 0 [(0, 0)]), diag := [0] }

def scratch : Scratch ℚ :=
  { jac := #[#[0]], lower := #[#[0]], upper := #[#[0]], ynew := #[#[0]], f0 := #[#[0]],
    k := #[#[#[0]]], yerr := #[#[0]] }

/-- a one-stage (linearly implicit Euler) table with `γ = 1/2` and round controller numbers -/
def params : RosParams ℚ :=
  { stages := 1, a := #[], c := #[], m := #[1], e := #[1], gamma0 := 1/2, newF := #[true], order := 1,
    roundOff := 1/1000000000000000, fmin := 1/5, fmax := 6, rejDec := 1/10, safety := 9/10,
    hmin := 0, hmax := 0, hstart := 1000, maxSteps := 1000 }

def consts : Consts ℚ := { deltaMin := 1/1000000, errorMin := 1/10000000000, tenth := 1/10, ten := 10 }

/-- `y' = -y`, `y(0) = 1`, `atol = rtol = 1/10`, time step `T`, first `H = min 1000 T`:
    for `T = 1000` the attempts use `H = 1000, 200, 40, 4, 2/5` (four rejections, then an acceptance) -/
def run (kind : LUKind) (T : ℚ) (fuel : Nat) : SolveResult ℚ :=
  rosSolve ratOps consts (cfg kind) params #[#[1]] #[1/10] (1/10) T #[#[1]] scratch fuel

end Ex

end Micm
