/-
Lemmas about the flattened Rosenbrock loop (`rosStep`, `rosLoop`, `rosSolve`):
decomposition of one iteration into prologue + attempt, projections of one attempt,
an induction principle for `rosLoop`, and the invariants used by C05 / C06 / C07.
-/
import Micm.Lemmas.Controller

namespace Micm
set_option linter.unusedSectionVars false

/-! ### derived `BEq` on the enumerations -/

theorem status_bne_running (st : Status) : (st != Status.running) = !decide (st = .running) := by
  cases st <;> rfl

theorem status_beq_running (st : Status) : (st == Status.running) = decide (st = .running) := by
  cases st <;> rfl

theorem decision_beq_accept (d : Decision) : (d == Decision.accept) = decide (d = .accept) := by
  cases d <;> rfl

section Step
variable {α : Type} [OfNat α 0] [OfNat α 1] [Add α] [Sub α] [Mul α] [Div α]
variable (o : Ops α) (cs : Consts α) (s : SolverCfg α) (p : RosParams α) (kc : Mat α)
    (atol : Array α) (rtol : α) (timeStep hm : α)

/-! ### the step prologue -/

/-- the state in which the first attempt of a new step starts -/
def startStep (r : RState α) : RState α :=
  { r with ctl := { r.ctl with h := cmin o r.ctl.h (o.abs (timeStep - r.ctl.t)) },
           inStep := true, lastAlpha := 0,
           sc := { r.sc with f0 := s.forcing kc r.Y (fillM r.sc.f0 0),
                             jac := s.jacobian kc r.Y (fillM r.sc.jac 0) },
           stats := { r.stats with functionCalls := r.stats.functionCalls + 1,
                                   jacobianUpdates := r.stats.jacobianUpdates + 1 } }

/-- the step prologue of `rosStep` (outer `while` condition and body up to the inner loop) -/
def rosPrologue (r : RState α) : RState α :=
  if r.inStep then r
  else if !(o.le (r.ctl.t - timeStep + p.roundOff) 0) then { r with status := .converged }
  else if r.stats.numberOfSteps > p.maxSteps then { r with status := .convergenceExceededMaxSteps }
  else if o.eq (r.ctl.t + cs.tenth * r.ctl.h) r.ctl.t || o.le r.ctl.h p.roundOff then
    { r with status := .stepSizeTooSmall }
  else startStep o s kc timeStep r

/-- the five ways through the prologue -/
inductive PrologueCase (r : RState α) : RState α → Prop
  | inStep : r.inStep = true → PrologueCase r r
  | converged : r.inStep = false → o.le (r.ctl.t - timeStep + p.roundOff) 0 = false →
      PrologueCase r { r with status := .converged }
  | maxSteps : r.inStep = false → o.le (r.ctl.t - timeStep + p.roundOff) 0 = true →
      r.stats.numberOfSteps > p.maxSteps → PrologueCase r { r with status := .convergenceExceededMaxSteps }
  | tooSmall : r.inStep = false → o.le (r.ctl.t - timeStep + p.roundOff) 0 = true →
      ¬ r.stats.numberOfSteps > p.maxSteps →
      (o.eq (r.ctl.t + cs.tenth * r.ctl.h) r.ctl.t || o.le r.ctl.h p.roundOff) = true →
      PrologueCase r { r with status := .stepSizeTooSmall }
  | start : r.inStep = false → o.le (r.ctl.t - timeStep + p.roundOff) 0 = true →
      ¬ r.stats.numberOfSteps > p.maxSteps →
      (o.eq (r.ctl.t + cs.tenth * r.ctl.h) r.ctl.t || o.le r.ctl.h p.roundOff) = false →
      PrologueCase r (startStep o s kc timeStep r)

theorem rosPrologue_cases (r : RState α) :
    PrologueCase o cs s p kc timeStep r (rosPrologue o cs s p kc timeStep r) := by
  unfold rosPrologue
  split
  · exact .inStep ‹_›
  · rename_i h0
    have h0 : r.inStep = false := by simpa using h0
    split
    · rename_i h1; exact .converged h0 (by simpa using h1)
    · rename_i h1
      have h1 : o.le (r.ctl.t - timeStep + p.roundOff) 0 = true := by simpa using h1
      split
      · exact .maxSteps h0 h1 ‹_›
      · split
        · exact .tooSmall h0 h1 ‹_› ‹_›
        · rename_i h3; exact .start h0 h1 ‹_› (by simpa using h3)

/-! ### one attempt, in projection form -/

def attAlpha0 (r : RState α) : α := 1 / (r.ctl.h * p.gamma0)
/-- the value passed to `LinearFactor` -/
def attAlpha (r : RState α) : α :=
  if s.la.kind.inPlace then attAlpha0 p r else attAlpha0 p r - r.lastAlpha
def attLastAlpha (r : RState α) : α :=
  if s.la.kind.inPlace then r.lastAlpha else attAlpha0 p r
/-- the matrix handed to `Factor` -/
def attMatrix (r : RState α) : Mat α := s.alphaMinusJacobian r.sc.jac (attAlpha s p r)
def attFactor (r : RState α) : Mat α × Mat α × Mat α :=
  s.factor (attMatrix s p r) r.sc.lower r.sc.upper
def attStages (r : RState α) : Array (Mat α) × Mat α × Stats :=
  stagesGo s p kc r.Y (attFactor s p r).1 (attFactor s p r).2.1 (attFactor s p r).2.2 r.ctl.h p.stages 0
    (r.sc.k.setIfInBounds 0 r.sc.f0) r.sc.ynew { r.stats with decompositions := r.stats.decompositions + 1 }
def attYnew (r : RState α) : Mat α :=
  (List.range p.stages).foldl (fun yn i => axpyM (rd p.m i) ((attStages s p kc r).1.getD i #[]) yn) r.Y
def attYerr (r : RState α) : Mat α :=
  (List.range p.stages).foldl (fun ye i => axpyM (rd p.e i) ((attStages s p kc r).1.getD i #[]) ye)
    (fillM r.sc.yerr 0)
def attError (r : RState α) : α :=
  normalizedError o cs s.L s.nSpecies atol rtol r.Y (attYnew s p kc r) (attYerr s p kc r)
def attDecide (r : RState α) : Decision × Ctl α :=
  ctlDecide o p hm r.ctl (attError o cs s p kc atol rtol r)
/-- the ghost record of the attempt -/
def attRecord (r : RState α) : Attempt α :=
  { h := r.ctl.h, alpha := attAlpha s p r, matrix := attMatrix s p r,
    error := attError o cs s p kc atol rtol r,
    accepted := (attDecide o cs s p kc atol rtol hm r).1 == .accept }

/-- the state after one attempt started from the (post-prologue) state `r`, in projection form -/
def rosAttempt (r : RState α) : RState α :=
  let d := attDecide o cs s p kc atol rtol hm r
  let att := attRecord o cs s p kc atol rtol hm r
  let sg := attStages s p kc r
  let ynew := attYnew s p kc r
  let st : Stats := { sg.2.2 with numberOfSteps := sg.2.2.numberOfSteps + 1 }
  let fa := attFactor s p r
  let sc : Scratch α :=
    { r.sc with jac := fa.1, lower := fa.2.1, upper := fa.2.2, k := sg.1, yerr := attYerr s p kc r }
  let lastAlpha := attLastAlpha s p r
  match d.1 with
  | .nan => { r with Y := ynew, status := .nanDetected, stats := st, lastAlpha, sc := { sc with ynew := r.Y },
                     trace := att :: r.trace }
  | .inf => { r with Y := ynew, status := .infDetected, stats := st, lastAlpha, sc := { sc with ynew := r.Y },
                     trace := att :: r.trace }
  | .accept =>
    { r with Y := ynew, ctl := d.2, inStep := false, lastAlpha, sc := { sc with ynew := r.Y },
             stats := { st with accepted := st.accepted + 1 }, trace := att :: r.trace }
  | .reject =>
    let st := if st.accepted ≥ 1 then { st with rejected := st.rejected + 1 } else st
    if s.la.kind.inPlace then
      { r with ctl := d.2, stats := { st with jacobianUpdates := st.jacobianUpdates + 1 }, lastAlpha,
               sc := { sc with jac := s.jacobian kc r.Y (fillM sc.jac 0), ynew := ynew },
               trace := att :: r.trace }
    else
      { r with ctl := d.2, stats := st, lastAlpha, sc := { sc with ynew := ynew }, trace := att :: r.trace }

/-- verbatim copy of the attempt part of `rosStep` (only used to connect `rosAttempt` to the model) -/
def rosAttemptRaw (r : RState α) : RState α :=
  let h := r.ctl.h
  let alpha0 : α := 1 / (h * p.gamma0)
  let (alpha, lastAlpha) :=
    if s.la.kind.inPlace then (alpha0, r.lastAlpha)
    else (alpha0 - r.lastAlpha, alpha0)
  let jacShift := s.alphaMinusJacobian r.sc.jac alpha
  let (jac, lo, up) := s.factor jacShift r.sc.lower r.sc.upper
  let st := { r.stats with decompositions := r.stats.decompositions + 1 }
  let K0 := r.sc.k.setIfInBounds 0 r.sc.f0
  let (K, _, st) := stagesGo s p kc r.Y jac lo up h p.stages 0 K0 r.sc.ynew st
  let z : Mat α := #[]
  let ynew := (List.range p.stages).foldl (fun yn i => axpyM (rd p.m i) (K.getD i z) yn) r.Y
  let yerr := (List.range p.stages).foldl (fun ye i => axpyM (rd p.e i) (K.getD i z) ye) (fillM r.sc.yerr 0)
  let error := normalizedError o cs s.L s.nSpecies atol rtol r.Y ynew yerr
  let st := { st with numberOfSteps := st.numberOfSteps + 1 }
  let (d, ctl) := ctlDecide o p hm r.ctl error
  let att : Attempt α := { h, alpha, matrix := jacShift, error, accepted := d == .accept }
  let sc := { r.sc with jac := jac, lower := lo, upper := up, k := K, yerr := yerr }
  match d with
  | .nan => { r with Y := ynew, status := .nanDetected, stats := st, lastAlpha, sc := { sc with ynew := r.Y },
                     trace := att :: r.trace }
  | .inf => { r with Y := ynew, status := .infDetected, stats := st, lastAlpha, sc := { sc with ynew := r.Y },
                     trace := att :: r.trace }
  | .accept =>
    { r with Y := ynew, ctl, inStep := false, lastAlpha, sc := { sc with ynew := r.Y },
             stats := { st with accepted := st.accepted + 1 }, trace := att :: r.trace }
  | .reject =>
    let st := if st.accepted ≥ 1 then { st with rejected := st.rejected + 1 } else st
    let (sc, st) :=
      if s.la.kind.inPlace then
        ({ sc with jac := s.jacobian kc r.Y (fillM sc.jac 0), ynew := ynew },
         { st with jacobianUpdates := st.jacobianUpdates + 1 })
      else ({ sc with ynew := ynew }, st)
    { r with ctl, stats := st, lastAlpha, sc, trace := att :: r.trace }

theorem rosStep_eq_raw (r : RState α) :
    rosStep o cs s p kc atol rtol timeStep hm r =
      if (rosPrologue o cs s p kc timeStep r).status != .running then rosPrologue o cs s p kc timeStep r
      else rosAttemptRaw o cs s p kc atol rtol hm (rosPrologue o cs s p kc timeStep r) := rfl

theorem rosAttemptRaw_eq (r : RState α) :
    rosAttemptRaw o cs s p kc atol rtol hm r = rosAttempt o cs s p kc atol rtol hm r := by
  unfold rosAttemptRaw rosAttempt attRecord attDecide attError attYnew attYerr attStages attFactor
    attMatrix attAlpha attLastAlpha attAlpha0
  cases hip : s.la.kind.inPlace
  · simp only [Bool.false_eq_true, if_false]
  · simp only [if_true]

/-- **one iteration = prologue, then (if still running) one attempt** -/
theorem rosStep_eq (r : RState α) :
    rosStep o cs s p kc atol rtol timeStep hm r =
      if (rosPrologue o cs s p kc timeStep r).status = .running
      then rosAttempt o cs s p kc atol rtol hm (rosPrologue o cs s p kc timeStep r)
      else rosPrologue o cs s p kc timeStep r := by
  rw [rosStep_eq_raw, rosAttemptRaw_eq, status_bne_running]
  by_cases h : (rosPrologue o cs s p kc timeStep r).status = .running <;> simp [h]

end Step
end Micm
