import Mathlib.Algebra.BigOperators.Group.Finset.Basic
import Mathlib.Algebra.BigOperators.Intervals
import Mathlib.Algebra.BigOperators.Ring.Finset
import Mathlib.Algebra.Field.Basic
import Mathlib.Tactic.Ring
import Mathlib.Tactic.FieldSimp
import Micm.Model.LU

/-!
Lemmas for C03/C04: generic facts about the "accumulate into one slot" folds used by all LU and
substitution kernels, and the forward / backward substitution passes of `solveCell` and
`solveInPlaceCell`.
-/
open Finset
namespace Micm
variable {K : Type} [Field K]

/-! ### array facts -/

theorem wr_wr_same {α : Type} (a : Array α) (i : Nat) (v w : α) :
    wr (wr a i v) i w = wr a i w := by
  simp [wr, Array.setIfInBounds_setIfInBounds]

theorem wr_rd_self {α : Type} [OfNat α 0] (a : Array α) (i : Nat) : wr a i (rd a i) = a := by
  apply Array.ext
  · simp
  · intro j h1 h2
    simp only [wr, rd]
    rw [Array.getElem_setIfInBounds]
    split
    · next h => subst h; simp [Array.getD_eq_getD_getElem?, h2]
    · rfl

/-- the logical view of a rank-indexed array through a pattern: absent elements read as `0` -/
def view (p : Pattern) (a : Array K) (r c : Nat) : K :=
  if p.zero? r c then 0 else rd a (p.rk r c)

theorem view_absent (p : Pattern) (a : Array K) (r c : Nat) (h : p.zero? r c = true) :
    view p a r c = 0 := by simp [view, h]

theorem view_present (p : Pattern) (a : Array K) (r c : Nat) (h : p.zero? r c = false) :
    view p a r c = rd a (p.rk r c) := by simp [view, h]

theorem present_of_view_ne (p : Pattern) (a : Array K) (r c : Nat) (h : view p a r c ≠ 0) :
    p.zero? r c = false := by
  cases hz : p.zero? r c
  · rfl
  · exact absurd (view_absent p a r c hz) h

/-! ### accumulate-into-one-slot folds -/

/-- `t`-slot accumulation: as long as the subtrahends do not read slot `t`, the fold that writes
    slot `t` after every term equals one write of the folded value. -/
theorem pairFold_init {β : Type} (F : Array K → β → K) (t : Nat) (ps : List β) (U : Array K)
    (ht : t < U.size) (hF : ∀ p ∈ ps, ∀ v, F (wr U t v) p = F U p) (v : K) :
    ps.foldl (fun U p => wr U t (rd U t - F U p)) (wr U t v)
      = wr U t (ps.foldl (fun acc p => acc - F U p) v) := by
  induction ps generalizing v with
  | nil => rfl
  | cons p ps ih =>
    simp only [List.foldl_cons]
    rw [rd_wr_same _ _ _ ht, hF p (List.mem_cons_self) v, wr_wr_same]
    exact ih (fun q hq => hF q (List.mem_cons_of_mem _ hq)) _

theorem pairFold {β : Type} (F : Array K → β → K) (t : Nat) (ps : List β) (U : Array K)
    (ht : t < U.size) (hF : ∀ p ∈ ps, ∀ v, F (wr U t v) p = F U p) :
    ps.foldl (fun U p => wr U t (rd U t - F U p)) U
      = wr U t (ps.foldl (fun acc p => acc - F U p) (rd U t)) := by
  have := pairFold_init F t ps U ht hF (rd U t)
  rwa [wr_rd_self] at this

theorem foldl_sub_eq {β : Type} (f : β → K) (ps : List β) (v : K) :
    ps.foldl (fun acc p => acc - f p) v = v - (ps.map f).sum := by
  induction ps generalizing v with
  | nil => simp
  | cons p ps ih => simp only [List.foldl_cons, List.map_cons, List.sum_cons, ih]; ring

theorem sum_filterMap_range' {β : Type} (g : Nat → Option β) (f : β → K) (a len : Nat) :
    (((List.range' a len).filterMap g).map f).sum
      = ∑ j ∈ Ico a (a + len), (g j).elim 0 f := by
  induction len with
  | zero => simp
  | succ len ih =>
    rw [List.range'_concat, List.filterMap_append, List.map_append, List.sum_append, ih,
      ← Nat.add_assoc, Finset.sum_Ico_succ_top (Nat.le_add_right a len)]
    congr 1
    simp only [Nat.one_mul]
    cases h : g (a + len) <;> simp [h]

theorem sum_filterMap_range {β : Type} (g : Nat → Option β) (f : β → K) (i : Nat) :
    (((List.range i).filterMap g).map f).sum = ∑ j ∈ range i, (g j).elim 0 f := by
  rw [List.range_eq_range', sum_filterMap_range', Nat.zero_add, Finset.range_eq_Ico]

theorem mem_filterMap_range' {β : Type} (g : Nat → Option β) (a len : Nat) (p : β)
    (h : p ∈ (List.range' a len).filterMap g) : ∃ j, a ≤ j ∧ j < a + len ∧ g j = some p := by
  rw [List.mem_filterMap] at h
  obtain ⟨j, hj, hg⟩ := h
  rw [List.mem_range'_1] at hj
  exact ⟨j, hj.1, hj.2, hg⟩

theorem mem_filterMap_range {β : Type} (g : Nat → Option β) (i : Nat) (p : β)
    (h : p ∈ (List.range i).filterMap g) : ∃ j, j < i ∧ g j = some p := by
  rw [List.mem_filterMap] at h
  obtain ⟨j, hj, hg⟩ := h
  exact ⟨j, List.mem_range.mp hj, hg⟩

/-! ### abstract substitution passes -/

/-- forward substitution: after the rows `0 … m-1` the first `m` equations hold and the other
    entries are untouched -/
theorem forward_pass (n : Nat) (C : Nat → Nat → K) (d : Nat → K)
    (step : Array K × Nat → SubRow → Array K × Nat) (rowOf : Nat → SubRow)
    (hstep : ∀ x i, i < n → x.size = n →
      step (x, i) (rowOf i)
        = (wr x i ((rd x i - ∑ j ∈ range i, C i j * rd x j) / d i), i + 1))
    (hd : ∀ i, i < n → d i ≠ 0) (b : Array K) (hb : b.size = n) (m : Nat) (hm : m ≤ n) :
    ∃ x, ((List.range m).map rowOf).foldl step (b, 0) = (x, m) ∧ x.size = n ∧
      (∀ i, i < m → (∑ j ∈ range i, C i j * rd x j) + d i * rd x i = rd b i) ∧
      (∀ i, m ≤ i → rd x i = rd b i) := by
  induction m with
  | zero => exact ⟨b, rfl, hb, by intro i hi; omega, fun _ _ => rfl⟩
  | succ m ih =>
    obtain ⟨x, hx, hsz, h1, h2⟩ := ih (by omega)
    refine ⟨wr x m ((rd x m - ∑ j ∈ range m, C m j * rd x j) / d m), ?_, ?_, ?_, ?_⟩
    · rw [List.range_succ, List.map_append, List.foldl_append, hx]
      simp only [List.map_cons, List.map_nil, List.foldl_cons, List.foldl_nil]
      exact hstep x m (by omega) hsz
    · simp [hsz]
    · intro i hi
      have hsum : ∀ k, k ≤ m → ∑ j ∈ range k, C i j *
            rd (wr x m ((rd x m - ∑ j ∈ range m, C m j * rd x j) / d m)) j
          = ∑ j ∈ range k, C i j * rd x j := by
        intro k hk
        apply sum_congr rfl
        intro j hj
        have : j < k := mem_range.mp hj
        rw [rd_wr_ne _ _ _ _ (by omega)]
      by_cases him : i = m
      · subst him
        rw [hsum i (le_refl i), rd_wr_same _ _ _ (by omega), h2 i (le_refl i)]
        have := hd i (by omega)
        field_simp
        ring
      · rw [hsum i (by omega), rd_wr_ne _ _ _ _ (by omega)]
        exact h1 i (by omega)
    · intro i hi
      rw [rd_wr_ne _ _ _ _ (by omega)]
      exact h2 i (by omega)

/-- backward substitution: processing the rows `m-1, …, 0` (row index tracked as in the source,
    with the "do not step before begin" guard) -/
theorem backward_pass (n : Nat) (C : Nat → Nat → K) (d : Nat → K)
    (step : Array K × Nat → SubRow → Array K × Nat) (rowOf : Nat → SubRow)
    (hstep : ∀ x i, i < n → x.size = n →
      step (x, i) (rowOf i)
        = (wr x i ((rd x i - ∑ j ∈ Ico (i + 1) n, C i j * rd x j) / d i),
            if i = 0 then 0 else i - 1))
    (hd : ∀ i, i < n → d i ≠ 0) (m : Nat) (hm : m ≤ n) (y : Array K) (hy : y.size = n) :
    (((List.range m).reverse.map rowOf).foldl step (y, m - 1)).1.size = n ∧
      (∀ i, i < m → (∑ j ∈ Ico (i + 1) n, C i j *
          rd (((List.range m).reverse.map rowOf).foldl step (y, m - 1)).1 j)
          + d i * rd (((List.range m).reverse.map rowOf).foldl step (y, m - 1)).1 i = rd y i) ∧
      (∀ i, m ≤ i → rd (((List.range m).reverse.map rowOf).foldl step (y, m - 1)).1 i = rd y i) := by
  induction m generalizing y with
  | zero => exact ⟨hy, by intro i hi; omega, fun _ _ => rfl⟩
  | succ m ih =>
    have hl : (List.range (m + 1)).reverse = m :: (List.range m).reverse := by
      rw [List.range_succ, List.reverse_append]; rfl
    have hidx : (if m = 0 then 0 else m - 1) = m - 1 := by split <;> omega
    rw [hl]
    simp only [List.map_cons, List.foldl_cons, Nat.add_sub_cancel]
    rw [hstep y m (by omega) hy, hidx]
    generalize hy1 : wr y m ((rd y m - ∑ j ∈ Ico (m + 1) n, C m j * rd y j) / d m) = y1
    have hy1s : y1.size = n := by rw [← hy1]; simp [hy]
    obtain ⟨g1, g2, g3⟩ := ih (by omega) y1 hy1s
    generalize (((List.range m).reverse.map rowOf).foldl step (y1, m - 1)).1 = y' at g1 g2 g3
    refine ⟨g1, ?_, ?_⟩
    · intro i hi
      by_cases him : i = m
      · subst him
        have hsum : ∑ j ∈ Ico (i + 1) n, C i j * rd y' j = ∑ j ∈ Ico (i + 1) n, C i j * rd y j := by
          apply sum_congr rfl
          intro j hj
          have := (mem_Ico.mp hj).1
          rw [g3 j (by omega), ← hy1, rd_wr_ne _ _ _ _ (by omega)]
        rw [hsum, g3 i (le_refl i), ← hy1, rd_wr_same _ _ _ (by omega)]
        have := hd i (by omega)
        field_simp
        ring
      · rw [g2 i (by omega), ← hy1, rd_wr_ne _ _ _ _ (by omega)]
    · intro i hi
      rw [g3 i (by omega), ← hy1, rd_wr_ne _ _ _ _ (by omega)]

/-! ### triangular systems compose to `(L·U) y = b` -/

theorem sum_lower (n i : Nat) (hi : i < n) (f : Nat → K) (h0 : ∀ j, i < j → j < n → f j = 0) :
    ∑ j ∈ range n, f j = (∑ j ∈ range i, f j) + f i := by
  rw [← Finset.sum_range_add_sum_Ico f (show i + 1 ≤ n by omega), Finset.sum_range_succ]
  have : ∑ j ∈ Ico (i + 1) n, f j = 0 := by
    apply sum_eq_zero
    intro j hj
    have := mem_Ico.mp hj
    exact h0 j (by omega) this.2
  rw [this]; ring

theorem sum_upper (n i : Nat) (hi : i < n) (f : Nat → K) (h0 : ∀ j, j < i → f j = 0) :
    ∑ j ∈ range n, f j = (∑ j ∈ Ico (i + 1) n, f j) + f i := by
  rw [← Finset.sum_range_add_sum_Ico f (show i + 1 ≤ n by omega), Finset.sum_range_succ]
  have : ∑ j ∈ range i, f j = 0 := by
    apply sum_eq_zero
    intro j hj
    exact h0 j (mem_range.mp hj)
  rw [this]; ring

/-- `L z = b` and `U y = z` give `(L·U) y = b` -/
theorem lu_compose (n : Nat) (Lm Um : Nat → Nat → K) (b z y : Nat → K)
    (hL : ∀ i, i < n → ∑ k ∈ range n, Lm i k * z k = b i)
    (hU : ∀ k, k < n → ∑ j ∈ range n, Um k j * y j = z k) (i : Nat) (hi : i < n) :
    ∑ j ∈ range n, (∑ k ∈ range n, Lm i k * Um k j) * y j = b i := by
  rw [← hL i hi]
  have : ∀ j, (∑ k ∈ range n, Lm i k * Um k j) * y j = ∑ k ∈ range n, Lm i k * (Um k j * y j) := by
    intro j; rw [Finset.sum_mul]; apply sum_congr rfl; intro k _; ring
  simp only [this]
  rw [Finset.sum_comm]
  apply sum_congr rfl
  intro k hk
  rw [← Finset.mul_sum, hU k (mem_range.mp hk)]

/-! ### the model's substitution rows -/

/-- one row of a substitution pass over the columns `a … a+len-1` (none equal to the row `i`) -/
theorem subRow_fold (M : Array K) (p : Pattern) (i : Nat) (x : Array K) (hi : i < x.size)
    (a len : Nat) (hne : ∀ j, a ≤ j → j < a + len → j ≠ i) :
    ((List.range' a len).filterMap fun j =>
        if p.zero? i j then none else some (p.rk i j, j)).foldl
        (fun x q => wr x i (rd x i - rd M q.1 * rd x q.2)) x
      = wr x i (rd x i - ∑ j ∈ Ico a (a + len), view p M i j * rd x j) := by
  refine (pairFold (fun (x : Array K) (q : Nat × Nat) => rd M q.1 * rd x q.2) i _ x hi ?_).trans ?_
  · intro q hq v
    obtain ⟨j, h1, h2, h3⟩ := mem_filterMap_range' _ _ _ _ hq
    have hq2 : q.2 = j := by
      split at h3
      · cases h3
      · cases h3; rfl
    show rd M q.1 * rd (wr x i v) q.2 = rd M q.1 * rd x q.2
    rw [rd_wr_ne _ _ _ _ (by rw [hq2]; exact (hne j h1 h2).symm)]
  · rw [foldl_sub_eq, sum_filterMap_range']
    congr 2
    apply sum_congr rfl
    intro j _
    cases hz : p.zero? i j <;> simp [view, hz]

/-- forward step of `solveCell` -/
def fwStep (L : Array K) (s : Array K × Nat) (r : SubRow) : Array K × Nat :=
  let x := r.pairs.foldl (fun x p => wr x s.2 (rd x s.2 - rd L p.1 * rd x p.2)) s.1
  (wr x s.2 (rd x s.2 / rd L r.diag), s.2 + 1)

/-- backward step of `solveCell` / `solveInPlaceCell` -/
def bwStep (U : Array K) (s : Array K × Nat) (r : SubRow) : Array K × Nat :=
  let x := r.pairs.foldl (fun x p => wr x s.2 (rd x s.2 - rd U p.1 * rd x p.2)) s.1
  (wr x s.2 (rd x s.2 / rd U r.diag), if s.2 = 0 then 0 else s.2 - 1)

/-- forward step of `solveInPlaceCell` (unit diagonal: no division) -/
def fwStepIP (M : Array K) (s : Array K × Nat) (r : SubRow) : Array K × Nat :=
  let x := r.pairs.foldl (fun x p => wr x s.2 (rd x s.2 - rd M p.1 * rd x p.2)) s.1
  (x, s.2 + 1)

theorem solveCell_eq (fw bw : List SubRow) (L U x : Array K) :
    solveCell fw bw L U x
      = (bw.foldl (bwStep U) ((fw.foldl (fwStep L) (x, 0)).1,
            (fw.foldl (fwStep L) (x, 0)).1.size - 1)).1 := rfl

theorem solveInPlaceCell_eq (fw bw : List SubRow) (M x : Array K) :
    solveInPlaceCell fw bw M x
      = (bw.foldl (bwStep M) ((fw.foldl (fwStepIP M) (x, 0)).1,
            (fw.foldl (fwStepIP M) (x, 0)).1.size - 1)).1 := rfl

/-- forward row `i` of `solverRows` -/
def fwRow (Lp : Pattern) (i : Nat) : SubRow :=
  ⟨(List.range i).filterMap fun j => if Lp.zero? i j then none else some (Lp.rk i j, j), Lp.rk i i⟩

/-- backward row `i` of `solverRows` -/
def bwRow (n : Nat) (Up : Pattern) (i : Nat) : SubRow :=
  ⟨(rangeFrom (i + 1) n).filterMap fun j => if Up.zero? i j then none else some (Up.rk i j, j),
    Up.rk i i⟩

theorem solverRows_eq (Lp Up : Pattern) :
    solverRows Lp Up = ((List.range Lp.n).map (fwRow Lp), (List.range Lp.n).reverse.map (bwRow Lp.n Up)) :=
  rfl

theorem fwStep_row (Lp : Pattern) (L x : Array K) (i : Nat) (hi : i < x.size) :
    fwStep L (x, i) (fwRow Lp i)
      = (wr x i ((rd x i - ∑ j ∈ range i, view Lp L i j * rd x j) / rd L (Lp.rk i i)), i + 1) := by
  have h := subRow_fold L Lp i x hi 0 i (by intro j _ h; omega)
  rw [← List.range_eq_range', Nat.zero_add, ← Finset.range_eq_Ico] at h
  simp only [fwStep, fwRow, h, rd_wr_same _ _ _ hi, wr_wr_same]

theorem fwStepIP_row (P : Pattern) (M x : Array K) (i : Nat) (hi : i < x.size) :
    fwStepIP M (x, i) (fwRow P i)
      = (wr x i ((rd x i - ∑ j ∈ range i, view P M i j * rd x j) / 1), i + 1) := by
  have h := subRow_fold M P i x hi 0 i (by intro j _ h; omega)
  rw [← List.range_eq_range', Nat.zero_add, ← Finset.range_eq_Ico] at h
  simp only [fwStepIP, fwRow, h, div_one]

theorem bwStep_row (n : Nat) (Up : Pattern) (U x : Array K) (i : Nat) (hi : i < x.size)
    (hin : i < n) :
    bwStep U (x, i) (bwRow n Up i)
      = (wr x i ((rd x i - ∑ j ∈ Ico (i + 1) n, view Up U i j * rd x j) / rd U (Up.rk i i)),
          if i = 0 then 0 else i - 1) := by
  have h := subRow_fold U Up i x hi (i + 1) (n - (i + 1)) (by intro j h _; omega)
  rw [show i + 1 + (n - (i + 1)) = n by omega] at h
  simp only [bwStep, bwRow, rangeFrom, h, rd_wr_same _ _ _ hi, wr_wr_same]

/-! ### C04 for one cell -/

/-- forward + backward substitution with coefficient matrices `Lc` (strictly lower part used,
    diagonal `dL`) and `Uc` (strictly upper part used, diagonal `dU`) -/
theorem solve_passes (n : Nat) (Lc Uc : Nat → Nat → K) (dL dU : Nat → K)
    (fstep bstep : Array K × Nat → SubRow → Array K × Nat) (frow brow : Nat → SubRow)
    (hf : ∀ x i, i < n → x.size = n → fstep (x, i) (frow i)
        = (wr x i ((rd x i - ∑ j ∈ range i, Lc i j * rd x j) / dL i), i + 1))
    (hb : ∀ x i, i < n → x.size = n → bstep (x, i) (brow i)
        = (wr x i ((rd x i - ∑ j ∈ Ico (i + 1) n, Uc i j * rd x j) / dU i),
            if i = 0 then 0 else i - 1))
    (hdL : ∀ i, i < n → dL i ≠ 0) (hdU : ∀ i, i < n → dU i ≠ 0)
    (b : Array K) (hbs : b.size = n) :
    ∃ z y : Array K,
      (((List.range n).reverse.map brow).foldl bstep
        ((((List.range n).map frow).foldl fstep (b, 0)).1,
          (((List.range n).map frow).foldl fstep (b, 0)).1.size - 1)).1 = y ∧
      (∀ i, i < n → (∑ j ∈ range i, Lc i j * rd z j) + dL i * rd z i = rd b i) ∧
      (∀ i, i < n → (∑ j ∈ Ico (i + 1) n, Uc i j * rd y j) + dU i * rd y i = rd z i) := by
  obtain ⟨z, hz, hzs, hz1, _⟩ := forward_pass n Lc dL fstep frow hf hdL b hbs n (le_refl n)
  rw [hz]
  simp only [hzs]
  obtain ⟨_, g2, _⟩ := backward_pass n Uc dU bstep brow hb hdU n (le_refl n) z hzs
  exact ⟨z, _, rfl, hz1, g2⟩

/-- the two triangular systems produced by `solve_passes`, read through matrices `Lm`, `Um` that
    are lower / upper triangular on the block, give `(Lm·Um) y = b` -/
theorem solve_compose (n : Nat) (Lm Um Lc Uc : Nat → Nat → K) (dL dU : Nat → K) (b z y : Nat → K)
    (hLlow : ∀ i j, i < n → j < i → Lm i j = Lc i j) (hLd : ∀ i, i < n → Lm i i = dL i)
    (hLup : ∀ i j, i < n → j < n → i < j → Lm i j = 0)
    (hUup : ∀ i j, i < n → j < n → i < j → Um i j = Uc i j) (hUd : ∀ i, i < n → Um i i = dU i)
    (hUlow : ∀ i j, i < n → j < i → Um i j = 0)
    (hz : ∀ i, i < n → (∑ j ∈ range i, Lc i j * z j) + dL i * z i = b i)
    (hy : ∀ i, i < n → (∑ j ∈ Ico (i + 1) n, Uc i j * y j) + dU i * y i = z i)
    (i : Nat) (hi : i < n) :
    ∑ j ∈ range n, (∑ k ∈ range n, Lm i k * Um k j) * y j = b i := by
  apply lu_compose n Lm Um b z y _ _ i hi
  · intro i hi
    rw [sum_lower n i hi _ (by intro j h1 h2; rw [hLup i j hi h2 h1]; ring), hLd i hi, ← hz i hi]
    congr 1
    apply sum_congr rfl
    intro j hj
    rw [hLlow i j hi (mem_range.mp hj)]
  · intro k hk
    rw [sum_upper n k hk _ (by intro j h1; rw [hUlow k j hk h1]; ring), hUd k hk, ← hy k hk]
    congr 1
    apply sum_congr rfl
    intro j hj
    have := mem_Ico.mp hj
    rw [hUup k j hk this.2 (by omega)]

/-- strictly lower part of `V` with a unit diagonal (the `L` factor packed in an in-place LU) -/
def lowerUnit (V : Nat → Nat → K) (i j : Nat) : K :=
  if j < i then V i j else if i = j then 1 else 0

/-- upper part of `V` including the diagonal (the `U` factor packed in an in-place LU) -/
def upperPart (V : Nat → Nat → K) (i j : Nat) : K := if i ≤ j then V i j else 0

theorem solveCell_correct (Lp Up : Pattern) (L U x : Array K) (n : Nat)
    (hn : Lp.n = n) (hx : x.size = n)
    (hLd : ∀ i, i < n → view Lp L i i ≠ 0)
    (hLu : ∀ i j, i < n → j < n → i < j → view Lp L i j = 0)
    (hUd : ∀ i, i < n → view Up U i i ≠ 0)
    (hUl : ∀ i j, i < n → j < n → j < i → view Up U i j = 0) (i : Nat) (hi : i < n) :
    ∑ j ∈ range n, (∑ k ∈ range n, view Lp L i k * view Up U k j)
        * rd (solveCell (solverRows Lp Up).1 (solverRows Lp Up).2 L U x) j = rd x i := by
  have hdl : ∀ i, i < n → view Lp L i i = rd L (Lp.rk i i) := fun i hi =>
    view_present _ _ _ _ (present_of_view_ne _ _ _ _ (hLd i hi))
  have hdu : ∀ i, i < n → view Up U i i = rd U (Up.rk i i) := fun i hi =>
    view_present _ _ _ _ (present_of_view_ne _ _ _ _ (hUd i hi))
  rw [solveCell_eq, solverRows_eq, hn]
  obtain ⟨z, y, hy, hz1, hy1⟩ := solve_passes n (view Lp L) (view Up U)
    (fun i => rd L (Lp.rk i i)) (fun i => rd U (Up.rk i i)) (fwStep L) (bwStep U)
    (fwRow Lp) (bwRow n Up)
    (fun x i hi hx => fwStep_row Lp L x i (by omega))
    (fun x i hi hx => bwStep_row n Up U x i (by omega) hi)
    (fun i hi => by rw [← hdl i hi]; exact hLd i hi)
    (fun i hi => by rw [← hdu i hi]; exact hUd i hi) x hx
  rw [hy]
  exact solve_compose n (view Lp L) (view Up U) (view Lp L) (view Up U) _ _ (rd x) (rd z) (rd y)
    (fun _ _ _ _ => rfl) hdl hLu (fun _ _ _ _ _ => rfl) hdu (fun i j hi hj => hUl i j hi (by omega) hj)
    hz1 hy1 i hi

theorem solveInPlaceCell_correct (P : Pattern) (M x : Array K) (n : Nat)
    (hn : P.n = n) (hx : x.size = n) (hd : ∀ i, i < n → view P M i i ≠ 0) (i : Nat) (hi : i < n) :
    ∑ j ∈ range n, (∑ k ∈ range n, lowerUnit (view P M) i k * upperPart (view P M) k j)
        * rd (solveInPlaceCell (solverRows P P).1 (solverRows P P).2 M x) j = rd x i := by
  have hdu : ∀ i, i < n → view P M i i = rd M (P.rk i i) := fun i hi =>
    view_present _ _ _ _ (present_of_view_ne _ _ _ _ (hd i hi))
  rw [solveInPlaceCell_eq, solverRows_eq, hn]
  obtain ⟨z, y, hy, hz1, hy1⟩ := solve_passes n (view P M) (view P M)
    (fun _ => 1) (fun i => rd M (P.rk i i)) (fwStepIP M) (bwStep M)
    (fwRow P) (bwRow n P)
    (fun x i hi hx => fwStepIP_row P M x i (by omega))
    (fun x i hi hx => bwStep_row n P M x i (by omega) hi)
    (fun i hi => one_ne_zero)
    (fun i hi => by rw [← hdu i hi]; exact hd i hi) x hx
  rw [hy]
  refine solve_compose n (lowerUnit (view P M)) (upperPart (view P M)) (view P M) (view P M) _ _
    (rd x) (rd z) (rd y) ?_ ?_ ?_ ?_ ?_ ?_ hz1 hy1 i hi
  · intro i j _ hj; simp [lowerUnit, hj]
  · intro i _; simp [lowerUnit]
  · intro i j _ _ hij
    have h1 : ¬ j < i := by omega
    have h2 : ¬ i = j := by omega
    simp [lowerUnit, h1, h2]
  · intro i j _ _ hij
    have : i ≤ j := by omega
    simp [upperPart, this]
  · intro i hi; simp [upperPart, hdu i hi]
  · intro i j _ hj
    have : ¬ i ≤ j := by omega
    simp [upperPart, this]

end Micm
