import Mathlib.Algebra.BigOperators.Group.Finset.Basic
import Mathlib.Algebra.BigOperators.Intervals
import Mathlib.Algebra.Field.Basic
import Mathlib.Tactic.Ring
import Mathlib.Tactic.FieldSimp
import Micm.Model.LU

/-!
Lemmas for C03/C04: generic facts about the "accumulate into one slot" folds used by all LU and
substitution kernels, and the forward / backward substitution passes of `solveCell` and
`solveInPlaceCell`.
-/
open Finset
namespace Micm
variable {K : Type} [Field K]

/-! ### array facts -/

theorem wr_wr_same (a : Array K) (i : Nat) (v w : K) : wr (wr a i v) i w = wr a i w := by
  simp [wr, Array.setIfInBounds_setIfInBounds]

theorem wr_rd_self (a : Array K) (i : Nat) : wr a i (rd a i) = a := by
  apply Array.ext
  · simp
  · intro j h1 h2
    simp only [wr, rd, Array.getElem_setIfInBounds]
    split
    · next h => subst h; simp [Array.getD_eq_getD_getElem?, h2]
    · rfl

/-- the logical view of a rank-indexed array through a pattern: absent elements read as `0` -/
def view (p : Pattern) (a : Array K) (r c : Nat) : K :=
  if p.zero? r c then 0 else rd a (p.rk r c)

theorem view_absent (p : Pattern) (a : Array K) (r c : Nat) (h : p.zero? r c = true) :
    view p a r c = 0 := by simp [view, h]

theorem view_present (p : Pattern) (a : Array K) (r c : Nat) (h : p.zero? r c = false) :
    view p a r c = rd a (p.rk r c) := by simp [view, h]

theorem present_of_view_ne (p : Pattern) (a : Array K) (r c : Nat) (h : view p a r c ≠ 0) :
    p.zero? r c = false := by
  cases hz : p.zero? r c
  · rfl
  · exact absurd (view_absent p a r c hz) h

/-! ### accumulate-into-one-slot folds -/

/-- `t`-slot accumulation: as long as the subtrahends do not read slot `t`, the fold that writes
    slot `t` after every term equals one write of the folded value. -/
theorem pairFold_init {β : Type} (F : Array K → β → K) (t : Nat) (ps : List β) (U : Array K)
    (ht : t < U.size) (hF : ∀ p ∈ ps, ∀ v, F (wr U t v) p = F U p) (v : K) :
    ps.foldl (fun U p => wr U t (rd U t - F U p)) (wr U t v)
      = wr U t (ps.foldl (fun acc p => acc - F U p) v) := by
  induction ps generalizing v with
  | nil => rfl
  | cons p ps ih =>
    simp only [List.foldl_cons]
    rw [rd_wr_same _ _ _ ht, hF p (List.mem_cons_self) v, wr_wr_same]
    exact ih (fun q hq => hF q (List.mem_cons_of_mem _ hq)) _

theorem pairFold {β : Type} (F : Array K → β → K) (t : Nat) (ps : List β) (U : Array K)
    (ht : t < U.size) (hF : ∀ p ∈ ps, ∀ v, F (wr U t v) p = F U p) :
    ps.foldl (fun U p => wr U t (rd U t - F U p)) U
      = wr U t (ps.foldl (fun acc p => acc - F U p) (rd U t)) := by
  have := pairFold_init F t ps U ht hF (rd U t)
  rwa [wr_rd_self] at this

theorem foldl_sub_eq {β : Type} (f : β → K) (ps : List β) (v : K) :
    ps.foldl (fun acc p => acc - f p) v = v - (ps.map f).sum := by
  induction ps generalizing v with
  | nil => simp
  | cons p ps ih => simp only [List.foldl_cons, List.map_cons, List.sum_cons, ih]; ring

theorem sum_filterMap_range' {β : Type} (g : Nat → Option β) (f : β → K) (a len : Nat) :
    (((List.range' a len).filterMap g).map f).sum
      = ∑ j ∈ Ico a (a + len), (g j).elim 0 f := by
  induction len with
  | zero => simp
  | succ len ih =>
    rw [List.range'_concat, List.filterMap_append, List.map_append, List.sum_append, ih,
      ← Nat.add_assoc, Finset.sum_Ico_succ_top (Nat.le_add_right a len)]
    congr 1
    simp only [Nat.one_mul]
    cases h : g (a + len) <;> simp [List.filterMap_cons, h]

theorem sum_filterMap_range {β : Type} (g : Nat → Option β) (f : β → K) (i : Nat) :
    (((List.range i).filterMap g).map f).sum = ∑ j ∈ range i, (g j).elim 0 f := by
  rw [List.range_eq_range', sum_filterMap_range', Nat.zero_add, Finset.range_eq_Ico]

theorem mem_filterMap_range' {β : Type} (g : Nat → Option β) (a len : Nat) (p : β)
    (h : p ∈ (List.range' a len).filterMap g) : ∃ j, a ≤ j ∧ j < a + len ∧ g j = some p := by
  rw [List.mem_filterMap] at h
  obtain ⟨j, hj, hg⟩ := h
  rw [List.mem_range'_1] at hj
  exact ⟨j, hj.1, hj.2, hg⟩

theorem mem_filterMap_range {β : Type} (g : Nat → Option β) (i : Nat) (p : β)
    (h : p ∈ (List.range i).filterMap g) : ∃ j, j < i ∧ g j = some p := by
  rw [List.mem_filterMap] at h
  obtain ⟨j, hj, hg⟩ := h
  exact ⟨j, List.mem_range.mp hj, hg⟩

/-! ### abstract substitution passes -/

/-- forward substitution: after the rows `0 … m-1` the first `m` equations hold and the other
    entries are untouched -/
theorem forward_pass (n : Nat) (C : Nat → Nat → K) (d : Nat → K)
    (step : Array K × Nat → SubRow → Array K × Nat) (rowOf : Nat → SubRow)
    (hstep : ∀ x i, i < n → x.size = n →
      step (x, i) (rowOf i)
        = (wr x i ((rd x i - ∑ j ∈ range i, C i j * rd x j) / d i), i + 1))
    (hd : ∀ i, i < n → d i ≠ 0) (b : Array K) (hb : b.size = n) (m : Nat) (hm : m ≤ n) :
    ∃ x, ((List.range m).map rowOf).foldl step (b, 0) = (x, m) ∧ x.size = n ∧
      (∀ i, i < m → (∑ j ∈ range i, C i j * rd x j) + d i * rd x i = rd b i) ∧
      (∀ i, m ≤ i → rd x i = rd b i) := by
  induction m with
  | zero => exact ⟨b, rfl, hb, by intro i hi; omega, fun _ _ => rfl⟩
  | succ m ih =>
    obtain ⟨x, hx, hsz, h1, h2⟩ := ih (by omega)
    refine ⟨wr x m ((rd x m - ∑ j ∈ range m, C m j * rd x j) / d m), ?_, ?_, ?_, ?_⟩
    · rw [List.range_succ, List.map_append, List.foldl_append, hx]
      simp only [List.map_cons, List.map_nil, List.foldl_cons, List.foldl_nil]
      exact hstep x m (by omega) hsz
    · simp [hsz]
    · intro i hi
      have hsum : ∀ k, k ≤ m → ∑ j ∈ range k, C i j *
            rd (wr x m ((rd x m - ∑ j ∈ range m, C m j * rd x j) / d m)) j
          = ∑ j ∈ range k, C i j * rd x j := by
        intro k hk
        apply sum_congr rfl
        intro j hj
        have : j < k := mem_range.mp hj
        rw [rd_wr_ne _ _ _ _ (by omega)]
      by_cases him : i = m
      · subst him
        rw [hsum i (le_refl i), rd_wr_same _ _ _ (by omega), h2 i (le_refl i)]
        have := hd i (by omega)
        field_simp
        ring
      · rw [hsum i (by omega), rd_wr_ne _ _ _ _ (by omega)]
        exact h1 i (by omega)
    · intro i hi
      rw [rd_wr_ne _ _ _ _ (by omega)]
      exact h2 i (by omega)

/-- backward substitution: processing the rows `m-1, …, 0` (row index tracked as in the source,
    with the "do not step before begin" guard) -/
theorem backward_pass (n : Nat) (C : Nat → Nat → K) (d : Nat → K)
    (step : Array K × Nat → SubRow → Array K × Nat) (rowOf : Nat → SubRow)
    (hstep : ∀ x i, i < n → x.size = n →
      step (x, i) (rowOf i)
        = (wr x i ((rd x i - ∑ j ∈ Ico (i + 1) n, C i j * rd x j) / d i),
            if i = 0 then 0 else i - 1))
    (hd : ∀ i, i < n → d i ≠ 0) (m : Nat) (hm : m ≤ n) (y : Array K) (hy : y.size = n) :
    (((List.range m).reverse.map rowOf).foldl step (y, m - 1)).1.size = n ∧
      (∀ i, i < m → (∑ j ∈ Ico (i + 1) n, C i j *
          rd (((List.range m).reverse.map rowOf).foldl step (y, m - 1)).1 j)
          + d i * rd (((List.range m).reverse.map rowOf).foldl step (y, m - 1)).1 i = rd y i) ∧
      (∀ i, m ≤ i → rd (((List.range m).reverse.map rowOf).foldl step (y, m - 1)).1 i = rd y i) := by
  induction m generalizing y with
  | zero => exact ⟨hy, by intro i hi; omega, fun _ _ => rfl⟩
  | succ m ih =>
    have hl : (List.range (m + 1)).reverse = m :: (List.range m).reverse := by
      rw [List.range_succ, List.reverse_append]; rfl
    have hidx : (if m = 0 then 0 else m - 1) = m - 1 := by split <;> omega
    rw [hl]
    simp only [List.map_cons, List.foldl_cons, Nat.add_sub_cancel]
    rw [hstep y m (by omega) hy, hidx]
    generalize hy1 : wr y m ((rd y m - ∑ j ∈ Ico (m + 1) n, C m j * rd y j) / d m) = y1
    have hy1s : y1.size = n := by rw [← hy1]; simp [hy]
    obtain ⟨g1, g2, g3⟩ := ih (by omega) y1 hy1s
    generalize (((List.range m).reverse.map rowOf).foldl step (y1, m - 1)).1 = y' at g1 g2 g3
    refine ⟨g1, ?_, ?_⟩
    · intro i hi
      by_cases him : i = m
      · subst him
        have hsum : ∑ j ∈ Ico (i + 1) n, C i j * rd y' j = ∑ j ∈ Ico (i + 1) n, C i j * rd y j := by
          apply sum_congr rfl
          intro j hj
          have := (mem_Ico.mp hj).1
          rw [g3 j (by omega), ← hy1, rd_wr_ne _ _ _ _ (by omega)]
        rw [hsum, g3 i (le_refl i), ← hy1, rd_wr_same _ _ _ (by omega)]
        have := hd i (by omega)
        field_simp
        ring
      · rw [g2 i (by omega), ← hy1, rd_wr_ne _ _ _ _ (by omega)]
    · intro i hi
      rw [g3 i (by omega), ← hy1, rd_wr_ne _ _ _ _ (by omega)]

/-! ### triangular systems compose to `(L·U) y = b` -/

theorem sum_lower (n i : Nat) (hi : i < n) (f : Nat → K) (h0 : ∀ j, i < j → j < n → f j = 0) :
    ∑ j ∈ range n, f j = (∑ j ∈ range i, f j) + f i := by
  rw [← Finset.sum_range_add_sum_Ico f (show i + 1 ≤ n by omega), Finset.sum_range_succ]
  have : ∑ j ∈ Ico (i + 1) n, f j = 0 := by
    apply sum_eq_zero
    intro j hj
    have := mem_Ico.mp hj
    exact h0 j (by omega) this.2
  rw [this]; ring

theorem sum_upper (n i : Nat) (hi : i < n) (f : Nat → K) (h0 : ∀ j, j < i → f j = 0) :
    ∑ j ∈ range n, f j = (∑ j ∈ Ico (i + 1) n, f j) + f i := by
  rw [← Finset.sum_range_add_sum_Ico f (show i + 1 ≤ n by omega), Finset.sum_range_succ]
  have : ∑ j ∈ range i, f j = 0 := by
    apply sum_eq_zero
    intro j hj
    exact h0 j (mem_range.mp hj)
  rw [this]; ring

/-- `L z = b` and `U y = z` give `(L·U) y = b` -/
theorem lu_compose (n : Nat) (Lm Um : Nat → Nat → K) (b z y : Nat → K)
    (hL : ∀ i, i < n → ∑ k ∈ range n, Lm i k * z k = b i)
    (hU : ∀ k, k < n → ∑ j ∈ range n, Um k j * y j = z k) (i : Nat) (hi : i < n) :
    ∑ j ∈ range n, (∑ k ∈ range n, Lm i k * Um k j) * y j = b i := by
  rw [← hL i hi]
  have : ∀ j, (∑ k ∈ range n, Lm i k * Um k j) * y j = ∑ k ∈ range n, Lm i k * (Um k j * y j) := by
    intro j; rw [Finset.sum_mul]; apply sum_congr rfl; intro k _; ring
  simp only [this]
  rw [Finset.sum_comm]
  apply sum_congr rfl
  intro k hk
  rw [← Finset.mul_sum, hU k (mem_range.mp hk)]

end Micm
