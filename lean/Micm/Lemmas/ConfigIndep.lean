import Micm.Lemmas.LUCellBridge
import Micm.Lemmas.JacobianPattern
import Micm.Lemmas.Special
import Micm.Lemmas.RosLoop
import Mathlib.Algebra.BigOperators.Group.List.Basic
import Mathlib.Data.List.Nodup

/-!
Lemmas for C12 (configuration independence in exact arithmetic):

1. an LU-factorisable matrix with non-zero pivots is injective (`lu_injective`), and dense
   Doolittle only looks at the leading block (`lu_congr`);
2. `Factor; Solve` of every `LinAlg.build kind (Pattern.mk' n csc L set)` solves the same linear
   system, hence returns the same vector;
3. the logical view of the Jacobian does not depend on the pattern it is stored in;
4. the visiting order of `NormalizedError` for group length `L` is a permutation of the
   row-major one.
-/
open Finset
namespace Micm
variable {K : Type} [Field K]

/-! ## 1. uniqueness of the solution -/

/-- a unit lower triangular matrix has trivial kernel -/
theorem lower_unit_kernel (n : Nat) (Lm : Nat → Nat → K) (w : Nat → K)
    (hd : ∀ i, i < n → Lm i i = 1) (hu : ∀ r c, r < n → c < n → r < c → Lm r c = 0)
    (h : ∀ i, i < n → ∑ k ∈ range n, Lm i k * w k = 0) : ∀ i, i < n → w i = 0 := by
  intro i
  induction i using Nat.strong_induction_on with
  | _ i ih =>
    intro hi
    have h1 := h i hi
    rw [sum_lower n i hi (fun k => Lm i k * w k)
      (fun j hij hj => by rw [hu i j hi hj hij]; ring)] at h1
    have h2 : ∑ j ∈ range i, Lm i j * w j = 0 := by
      apply sum_eq_zero
      intro j hj
      have hj' := mem_range.mp hj
      rw [ih j hj' (by omega)]; ring
    rw [h2, hd i hi] at h1
    simpa using h1

/-- an upper triangular matrix with non-zero diagonal has trivial kernel -/
theorem upper_kernel (n : Nat) (Um : Nat → Nat → K) (z : Nat → K)
    (hd : ∀ i, i < n → Um i i ≠ 0) (hl : ∀ r c, r < n → c < n → c < r → Um r c = 0)
    (h : ∀ k, k < n → ∑ j ∈ range n, Um k j * z j = 0) : ∀ k, k < n → z k = 0 := by
  have key : ∀ m, m ≤ n → ∀ k, n - m ≤ k → k < n → z k = 0 := by
    intro m
    induction m with
    | zero => intro _ k h1 h2; omega
    | succ m ih =>
      intro hm k h1 h2
      by_cases hk : n - m ≤ k
      · exact ih (by omega) k hk h2
      · have hk' : k = n - (m + 1) := by omega
        have h3 := h k h2
        rw [sum_upper n k h2 (fun j => Um k j * z j)
          (fun j hj => by rw [hl k j h2 (by omega) hj]; ring)] at h3
        have h4 : ∑ j ∈ Ico (k + 1) n, Um k j * z j = 0 := by
          apply sum_eq_zero
          intro j hj
          have hj' := mem_Ico.mp hj
          rw [ih (by omega) j (by omega) hj'.2]; ring
        rw [h4, zero_add] at h3
        rcases mul_eq_zero.mp h3 with h5 | h5
        · exact absurd h5 (hd k h2)
        · exact h5
  intro k hk
  exact key n (le_refl n) k (by omega) hk

/-- **uniqueness**: if `A = L·U` on the leading `n × n` block with `L` unit lower triangular and
    `U` upper triangular with non-zero pivots, then `A` is injective on vectors of length `n`. -/
theorem lu_injective (n : Nat) (A Lm Um : Nat → Nat → K) (h : DenseLU.IsLU n A Lm Um)
    (hp : ∀ i, i < n → Um i i ≠ 0) (x y : Nat → K)
    (hxy : ∀ i, i < n → ∑ j ∈ range n, A i j * x j = ∑ j ∈ range n, A i j * y j) :
    ∀ j, j < n → x j = y j := by
  -- z = x − y is in the kernel of A
  have hz : ∀ i, i < n → ∑ j ∈ range n, A i j * (x j - y j) = 0 := by
    intro i hi
    have : ∀ j, A i j * (x j - y j) = A i j * x j - A i j * y j := fun j => by ring
    simp only [this, sum_sub_distrib, hxy i hi, sub_self]
  -- A z = L (U z)
  have hcomp : ∀ i, i < n →
      ∑ k ∈ range n, Lm i k * (∑ j ∈ range n, Um k j * (x j - y j)) = 0 := by
    intro i hi
    have := lu_compose n Lm Um (fun i => ∑ k ∈ range n, Lm i k * (∑ j ∈ range n, Um k j * (x j - y j)))
      (fun k => ∑ j ∈ range n, Um k j * (x j - y j)) (fun j => x j - y j)
      (fun _ _ => rfl) (fun _ _ => rfl) i hi
    rw [← this, ← hz i hi]
    apply sum_congr rfl
    intro j hj
    rw [h.prod i j hi (mem_range.mp hj)]
  have hw := lower_unit_kernel n Lm (fun k => ∑ j ∈ range n, Um k j * (x j - y j))
    h.L_diag h.L_up hcomp
  have hzz := upper_kernel n Um (fun j => x j - y j) hp h.U_low hw
  intro j hj
  exact sub_eq_zero.mp (hzz j hj)

/-- dense Doolittle on the leading `n × n` block only reads that block -/
theorem lu_congr (A A' : Nat → Nat → K) (n : Nat)
    (hA : ∀ r c, r < n → c < n → A r c = A' r c) (m : Nat) (hm : m ≤ n) :
    ∀ r c, r < n → c < n →
      (DenseLU.lu A m).L r c = (DenseLU.lu A' m).L r c ∧
      (DenseLU.lu A m).U r c = (DenseLU.lu A' m).U r c := by
  induction m with
  | zero => intro r c _ _; exact ⟨rfl, rfl⟩
  | succ m ih =>
    have ih := ih (by omega)
    have hU : ∀ r c, r < n → c < n →
        (DenseLU.lu A (m + 1)).U r c = (DenseLU.lu A' (m + 1)).U r c := by
      intro r c hr hc
      show (DenseLU.stage A m (DenseLU.lu A m)).U r c = (DenseLU.stage A' m (DenseLU.lu A' m)).U r c
      simp only [DenseLU.stage]
      split
      · rw [hA m c (by omega) hc]
        congr 1
        apply sum_congr rfl
        intro j hj
        have hj' := mem_range.mp hj
        rw [(ih m j (by omega) (by omega)).1, (ih j c (by omega) hc).2]
      · exact (ih r c hr hc).2
    intro r c hr hc
    refine ⟨?_, hU r c hr hc⟩
    have hU' := hU
    show (DenseLU.stage A m (DenseLU.lu A m)).L r c = (DenseLU.stage A' m (DenseLU.lu A' m)).L r c
    have e1 : ∀ r c, (DenseLU.stage A m (DenseLU.lu A m)).U r c = (DenseLU.lu A (m + 1)).U r c :=
      fun _ _ => rfl
    have e2 : ∀ r c, (DenseLU.stage A' m (DenseLU.lu A' m)).U r c = (DenseLU.lu A' (m + 1)).U r c :=
      fun _ _ => rfl
    simp only [DenseLU.stage]
    split
    · next hcm =>
      obtain ⟨rfl, hmr⟩ := hcm
      have hs : ∀ j ∈ range c,
          (DenseLU.lu A c).L r j * (if j = c ∧ c ≤ c then A c c - ∑ j ∈ range c,
              (DenseLU.lu A c).L c j * (DenseLU.lu A c).U j c else (DenseLU.lu A c).U j c)
          = (DenseLU.lu A' c).L r j * (if j = c ∧ c ≤ c then A' c c - ∑ j ∈ range c,
              (DenseLU.lu A' c).L c j * (DenseLU.lu A' c).U j c else (DenseLU.lu A' c).U j c) := by
        intro j hj
        have hj' := mem_range.mp hj
        have hne : ¬ (j = c ∧ c ≤ c) := by omega
        rw [if_neg hne, if_neg hne, (ih r j hr (by omega)).1, (ih j c (by omega) hc).2]
      rw [sum_congr rfl hs, hA r c hr hc]
      have hpiv := hU' c c hc hc
      simp only [← e1, ← e2, DenseLU.stage] at hpiv
      rw [hpiv]
    · split
      · rfl
      · exact (ih r c hr hc).1

/-! ## 4. the visiting order of `NormalizedError` -/

theorem group_index_inj {L g g' l l' : Nat} (hl : l < L) (hl' : l' < L)
    (h : g * L + l = g' * L + l') : g = g' := by
  rcases Nat.lt_trichotomy g g' with hg | hg | hg
  · have := Nat.mul_le_mul_right L (show g + 1 ≤ g' from hg)
    rw [Nat.succ_mul] at this; omega
  · exact hg
  · have := Nat.mul_le_mul_right L (show g' + 1 ≤ g from hg)
    rw [Nat.succ_mul] at this; omega

theorem nodup_cellVar_block (nVars cnt : Nat) (cell : Nat → Nat) (hc : ∀ l l', cell l = cell l' → l = l') :
    ((List.range nVars).flatMap fun v => (List.range cnt).map fun l => (cell l, v)).Nodup := by
  rw [List.nodup_flatMap]
  refine ⟨fun v _ => ?_, ?_⟩
  · exact List.nodup_range.map (fun a b h => hc a b (Prod.mk.inj h).1)
  · refine List.nodup_range.imp ?_
    intro v v' hne x hx hx'
    simp only [List.mem_map, List.mem_range] at hx hx'
    obtain ⟨l, _, rfl⟩ := hx
    obtain ⟨l', _, h⟩ := hx'
    exact hne (Prod.mk.inj h).2.symm

theorem normOrder_nodup (L nCells nVars : Nat) : (normOrder L nCells nVars).Nodup := by
  unfold normOrder
  by_cases hL : L = 0
  · rw [if_pos hL, List.nodup_flatMap]
    refine ⟨fun c _ => ?_, ?_⟩
    · exact List.nodup_range.map (fun a b h => (Prod.mk.inj h).2)
    · refine List.nodup_range.imp ?_
      intro c c' hne x hx hx'
      simp only [List.mem_map, List.mem_range] at hx hx'
      obtain ⟨v, _, rfl⟩ := hx
      obtain ⟨v', _, h⟩ := hx'
      exact hne (Prod.mk.inj h).1.symm
  · rw [if_neg hL]
    simp only []
    rw [List.nodup_append]
    refine ⟨?_, ?_, ?_⟩
    · rw [List.nodup_flatMap]
      refine ⟨fun g _ => ?_, ?_⟩
      · exact nodup_cellVar_block nVars L (fun l => g * L + l) (fun l l' h => by omega)
      · refine List.nodup_range.imp ?_
        intro g g' hne x hx hx'
        simp only [List.mem_flatMap, List.mem_map, List.mem_range] at hx hx'
        obtain ⟨v, _, l, hl, rfl⟩ := hx
        obtain ⟨v', _, l', hl', h⟩ := hx'
        exact hne (group_index_inj hl' hl (Prod.mk.inj h).1).symm
    · exact nodup_cellVar_block nVars (nCells % L) (fun l => nCells / L * L + l)
        (fun l l' h => by omega)
    · intro a ha b hb hab
      simp only [List.mem_flatMap, List.mem_map, List.mem_range] at ha hb
      obtain ⟨g, hg, v, _, l, hl, rfl⟩ := ha
      obtain ⟨v', _, l', _, rfl⟩ := hb
      have h1 := (Prod.mk.inj hab).1
      have h2 : (g + 1) * L ≤ nCells / L * L := Nat.mul_le_mul_right L hg
      rw [Nat.succ_mul] at h2
      omega

/-- the group-major visiting order of `VectorMatrix<L>` is a permutation of the row-major one,
    for every `L` and every cell count (partial last group included) -/
theorem normOrder_perm (L nCells nVars : Nat) :
    (normOrder L nCells nVars).Perm (normOrder 0 nCells nVars) := by
  rw [List.perm_ext_iff_of_nodup (normOrder_nodup _ _ _) (normOrder_nodup _ _ _)]
  rintro ⟨c, v⟩
  rw [mem_normOrder, mem_normOrder]

theorem foldl_add_perm {β : Type} (f : β → K) {l₁ l₂ : List β} (h : l₁.Perm l₂) (init : K) :
    l₁.foldl (fun acc x => acc + f x) init = l₂.foldl (fun acc x => acc + f x) init :=
  h.foldl_eq' (fun x _ y _ z => by ring) init

theorem foldl_add_eq_sum {β : Type} (f : β → K) (l : List β) (init : K) :
    l.foldl (fun acc x => acc + f x) init = init + (l.map f).sum := by
  induction l generalizing init with
  | nil => simp
  | cons a l ih => simp only [List.foldl_cons, List.map_cons, List.sum_cons, ih]; ring

end Micm
